-------------------------------- MODULE C18 ---------------------------------
(* Judge for property C18 (interrupts and abnormal exits).  A trace line is   *)
(*   [id, prog, follow, limit, flimit, eval,                                  *)
(*    fulls |-> << [route, first, second, depth, labels] ... >>               *)
(*                                  P run to its end, then Q on the same      *)
(*                                  runtime (covers uncaught exceptions and   *)
(*                                  stack-limit RangeErrors); one record per  *)
(*                                  API entry point P was started through     *)
(*    ints |-> << [route, k, delivered, panicked, log, depth, labels, fl] >>  *)
(*    hps  |-> << [route, k, delivered, first, depth, labels, fl] >> ]        *)
(* ints: one record per injection: the harness armed an interrupt at polling  *)
(* point k of the implementation, the interrupt function panicked, and Q was  *)
(* run afterwards on the same runtime.                                        *)
(* hps: the host function H panicked (Go string "boom") at its k-th call of   *)
(* the run; `first` is what the script made of it (caught: the run goes on;   *)
(* uncaught: the entry point unwinds with the panic = the observation of an   *)
(* uncaught thrown primitive "boom"), then Q as before.                       *)
(*                                                                           *)
(* ENTRY POINTS.  `route` names the API entry point through which P reached   *)
(* the idle runtime; the line carries the program that is equivalent to that  *)
(* entry for the specification:                                               *)
(*   Run of the source text / of a compiled Script / of a parsed Program:     *)
(*        P as global code (10.4.1)                     eval = FALSE          *)
(*   Eval of the text / of a Script on the runtime at rest:                   *)
(*        P as eval code in the global context (10.4.2) eval = TRUE           *)
(*   Otto.Call("main"), Value.Call(main), Object.Call(global, "main") after   *)
(*   `function main(){P}` was declared:  function main(){P} main()            *)
(*   the calls from Go around a stack depth limit (harness apiCall)           *)
(* Routes with the same equivalent program share one line (one evaluation of  *)
(* the abort points by the specification).                                    *)
(*                                                                           *)
(* The specification (ES5Core: every statement/expression evaluation is a     *)
(* polling point; the "interrupt" completion cannot be caught and runs no     *)
(* finally block) computes for EVERY polling point j of its own evaluation    *)
(* the pair (host-call log at the abort, outcome of Q on the state left       *)
(* behind).  An injection conforms iff the interrupt was delivered at the     *)
(* armed poll, the entry point unwound with the panic, the runtime is at rest *)
(* (RestAfterExit: depth = 0 extra contexts, no pending labels) and SOME j    *)
(* explains the observation (EffectsPrefix + FollowUpNormal): the             *)
(* implementation's polling granularity is not prescribed, its effects are.   *)
(* A host-function panic is deterministic (the k-th call of H): the outcome   *)
(* of the run, the rest state and the outcome of Q are all prescribed.        *)
(* Q runs under the stack depth limit `flimit` (configured before it when P   *)
(* ran without one) and probes the nesting the runtime admits: after any exit *)
(* the limit admits exactly the configured nesting.                           *)
EXTENDS Integers, Sequences, TLC, Json, FiniteSets
CONSTANTS OpenDev, Fuel
VARIABLES blk, i

S == INSTANCE ES5Core WITH Dev <- {}

File == ndJsonDeserialize("trace.ndjson")
K == 64
Init == blk \in 1..K /\ i = 0
Next == i = 0 /\ i' \in {j \in 1..Len(File) : j % K = blk - 1} /\ UNCHANGED blk

Same(o, obs) == ~o.und /\ o.log = obs.log /\ o.thr = obs.thr /\ o.v = obs.v

(* The one textual path into the evaluator (TLC's start-up cost grows with every such path): *)
(* the runs of a scenario one after the other on the same runtime.  A job is                  *)
(* [body, eval, k, hp, limit]: interrupt at polling point k (0: none), H panics at its hp-th  *)
(* call (0: never), stack depth limit of the runtime from this run on.                        *)
RECURSIVE RunJobs(_, _, _)
RunJobs(st, jobs, n) ==
    IF n > Len(jobs) THEN <<>>
    ELSE LET jb == jobs[n]
             c == S!RunBody([st EXCEPT !.abortAt = jb.k, !.hpanic = jb.hp, !.limit = jb.limit, !.log = <<>>, !.fuel = Fuel],
                            jb.body, S!GlobalCx, jb.eval)
             st1 == [c.st EXCEPT !.abortAt = 0, !.hpanic = 0]
         IN  <<[out |-> S!Outcome(c), polls |-> c.st.poll]>> \o RunJobs(st1, jobs, n + 1)

(* run P through its entry point with the abnormal exit armed, then Q *)
RunThen(ev, k, hp) ==
    LET rs == RunJobs(S!State0(Fuel), <<[body |-> ev.prog, eval |-> ev.eval, k |-> k, hp |-> hp, limit |-> ev.limit],
                                        [body |-> ev.follow, eval |-> FALSE, k |-> 0, hp |-> 0, limit |-> ev.flimit]>>, 1)
    IN  [first |-> rs[1].out, polls |-> rs[1].polls, second |-> rs[2].out]

Rest(x) == x.depth = 0 /\ x.labels = 0                                 \* RestAfterExit

Explained(x, pts) ==
    /\ x.delivered /\ x.panicked
    /\ Rest(x)
    /\ \E p \in pts : p.log = x.log /\ (p.second.und \/ Same(p.second, x.fl))   \* EffectsPrefix, FollowUpNormal

FullOK(f, base) == Same(base.first, f.first) /\ Same(base.second, f.second) /\ Rest(f)

HpOK(x, r) ==
    \/ r.first.und
    \/ /\ x.delivered
       /\ Same(r.first, x.first)
       /\ Rest(x)
       /\ (r.second.und \/ Same(r.second, x.fl))

Check ==
    i = 0 \/
    LET ev == File[i]
        \* arm <<0, 0>>: the uninterrupted run; <<j, 0>>: interrupt at the specification's polling point j;
        \* <<0, h>>: H panics at its h-th call
        R[a \in (0..100000) \X (0..100000)] == RunThen(ev, a[1], a[2])
        base == R[<<0, 0>>]
    IN  IF base.first.und \/ base.second.und THEN PrintT("VJSON " \o ToJson([id |-> ev.id, status |-> "und"]))
        ELSE LET badf == {n \in 1..Len(ev.fulls) : ~FullOK(ev.fulls[n], base)}
             IN
             IF badf # {}
             THEN PrintT("VJSON " \o ToJson([id |-> ev.id, status |-> "badfull", n |-> CHOOSE n \in badf : \A m \in badf : n <= m, want |-> base]))
        ELSE LET \* the implementation may poll once more after the last effect of a run that completes
                 \* normally (e.g. at an empty finally block): nothing is left to abort, all effects stand
                 pts == {[log |-> r.first.log, second |-> r.second] : r \in {R[<<j, 0>>] : j \in 1..base.polls}}
                        \cup (IF base.first.thr = <<>> THEN {[log |-> base.first.log, second |-> base.second]} ELSE {})
                 bad == {n \in 1..Len(ev.ints) : ~Explained(ev.ints[n], pts)}
                 badh == {n \in 1..Len(ev.hps) : ~HpOK(ev.hps[n], R[<<0, ev.hps[n].k>>])}
             IN  /\ bad = {} \/ PrintT("VJSON " \o ToJson([id |-> ev.id, status |-> "badint",
                                        n |-> CHOOSE n \in bad : \A m \in bad : n <= m,
                                        polls |-> base.polls, nbad |-> Cardinality(bad)]))
                 /\ badh = {} \/ LET n == CHOOSE n \in badh : \A m \in badh : n <= m
                                 IN  PrintT("VJSON " \o ToJson([id |-> ev.id, status |-> "badhp", n |-> n, nbad |-> Cardinality(badh),
                                                                want |-> R[<<0, ev.hps[n].k>>]]))
=============================================================================
