-------------------------------- MODULE C18 ---------------------------------
(* Judge for property C18 (interrupts and abnormal exits).  A trace line is   *)
(*   [id, prog, follow,                                                       *)
(*    full |-> [first, second]      P run to its end, then Q on the same      *)
(*                                  runtime (covers uncaught exceptions)      *)
(*    ints |-> << [k, delivered, panicked, log, depth, labels, fl] ... >> ]   *)
(* one record per injection: the harness armed an interrupt at polling point  *)
(* k of the implementation, the interrupt function panicked, and Q was run    *)
(* afterwards on the same runtime.                                            *)
(* The specification (ES5Core: every statement/expression evaluation is a     *)
(* polling point; the "interrupt" completion cannot be caught and runs no     *)
(* finally block) computes for EVERY polling point j of its own evaluation    *)
(* the pair (host-call log at the abort, outcome of Q on the state left       *)
(* behind).  An injection conforms iff the interrupt was delivered at the     *)
(* armed poll, Run unwound with the panic, the runtime is at rest             *)
(* (RestAfterExit: depth = 0 extra contexts, no pending labels) and SOME j    *)
(* explains the observation (EffectsPrefix + FollowUpNormal): the             *)
(* implementation's polling granularity is not prescribed, its effects are.   *)
EXTENDS Integers, Sequences, TLC, Json, FiniteSets
CONSTANTS OpenDev, Fuel
VARIABLES blk, i

S == INSTANCE ES5Core WITH Dev <- {}

File == ndJsonDeserialize("trace.ndjson")
K == 64
Init == blk \in 1..K /\ i = 0
Next == i = 0 /\ i' \in {j \in 1..Len(File) : j % K = blk - 1} /\ UNCHANGED blk

Same(o, obs) == ~o.und /\ o.log = obs.log /\ o.thr = obs.thr /\ o.v = obs.v

AbortPoints(ev, n) ==
    {[log |-> r.first.log, second |-> r.second] :
        r \in {S!RunThen(ev.prog, j, ev.follow, Fuel, ev.limit) : j \in 1..n}}

Explained(x, pts) ==
    /\ x.delivered /\ x.panicked
    /\ x.depth = 0 /\ x.labels = 0                                     \* RestAfterExit
    /\ \E p \in pts : p.log = x.log /\ (p.second.und \/ Same(p.second, x.fl))   \* EffectsPrefix, FollowUpNormal

Check ==
    i = 0 \/
    LET ev == File[i]
        base == S!RunThen(ev.prog, 0, ev.follow, Fuel, ev.limit)
    IN  IF base.first.und \/ base.second.und THEN PrintT("VJSON " \o ToJson([id |-> ev.id, status |-> "und"]))
        ELSE IF ~Same(base.first, ev.full.first) \/ ~Same(base.second, ev.full.second)
             THEN PrintT("VJSON " \o ToJson([id |-> ev.id, status |-> "badfull", want |-> base]))
        ELSE LET \* the implementation may poll once more after the last effect of a run that completes
                 \* normally (e.g. at an empty finally block): nothing is left to abort, all effects stand
                 pts == AbortPoints(ev, base.polls)
                        \cup (IF base.first.thr = <<>> THEN {[log |-> base.first.log, second |-> base.second]} ELSE {})
                 bad == {n \in 1..Len(ev.ints) : ~Explained(ev.ints[n], pts)}
             IN  bad = {} \/ PrintT("VJSON " \o ToJson([id |-> ev.id, status |-> "badint",
                                        k |-> ev.ints[CHOOSE n \in bad : \A m \in bad : n <= m].k,
                                        polls |-> base.polls, nbad |-> Cardinality(bad)]))
=============================================================================
