------------------------------- MODULE Str ----------------------------------
(* JavaScript strings are sequences of UTF-16 code units (0..65535).         *)
EXTENDS Num, StrConst

(* 7.2 WhiteSpace and 7.3 LineTerminator (ES5.1; U+180E is a Zs character in *)
(* the Unicode version ES5.1 references and is excluded here on purpose:     *)
(* implementations differ and the checks never generate it)                  *)
WSUnits == {9, 10, 11, 12, 13, 32, 160, 5760, 8232, 8233, 8239, 8287, 12288, 65279} \cup (8192..8202)
IsWS(u) == u \in WSUnits
IsLT(u) == u \in {10, 13, 8232, 8233}
IsDigit(u) == u >= 48 /\ u <= 57

RECURSIVE LSkip(_, _)
LSkip(s, i) == IF i <= Len(s) /\ IsWS(s[i]) THEN LSkip(s, i + 1) ELSE i
RECURSIVE RSkip(_, _)
RSkip(s, j) == IF j >= 1 /\ IsWS(s[j]) THEN RSkip(s, j - 1) ELSE j
Trim(s) == LET i == LSkip(s, 1)  j == RSkip(s, Len(s))
           IN  IF i > j THEN <<>> ELSE SubSeq(s, i, j)

(* 11.8.5 step 4: code-unit lexicographic order: -1, 0, 1 *)
RECURSIVE StrCmpAt(_, _, _)
StrCmpAt(a, b, i) ==
    IF i > Len(a) /\ i > Len(b) THEN 0
    ELSE IF i > Len(a) THEN -1
    ELSE IF i > Len(b) THEN 1
    ELSE IF a[i] < b[i] THEN -1
    ELSE IF a[i] > b[i] THEN 1
    ELSE StrCmpAt(a, b, i + 1)
StrCmp(a, b) == StrCmpAt(a, b, 1)

StartsAt(s, sub, k) ==        \* sub occurs in s at 1-based position k
    k >= 1 /\ k + Len(sub) - 1 <= Len(s) /\ SubSeq(s, k, k + Len(sub) - 1) = sub

RECURSIVE IndexFrom(_, _, _)
IndexFrom(s, sub, k) ==       \* smallest 1-based position >= k, or 0
    IF k + Len(sub) - 1 > Len(s) THEN 0
    ELSE IF StartsAt(s, sub, k) THEN k ELSE IndexFrom(s, sub, k + 1)

RECURSIVE LastIndexFrom(_, _, _)
LastIndexFrom(s, sub, k) ==   \* largest 1-based position <= k, or 0
    IF k < 1 THEN 0
    ELSE IF StartsAt(s, sub, k) THEN k ELSE LastIndexFrom(s, sub, k - 1)

(* decimal digits of a natural TLC integer *)
RECURSIVE DigitsNat(_)
DigitsNat(n) == IF n < 10 THEN <<48 + n>> ELSE DigitsNat(n \div 10) \o <<48 + (n % 10)>>
DigitsInt(n) == IF n < 0 THEN <<45>> \o DigitsNat(-n) ELSE DigitsNat(n)

(* decimal digits of a natural Bn *)
RECURSIVE BnDivSmallAt(_, _, _, _)
BnDivSmallAt(a, k, i, r) ==   \* from most significant limb i down; returns <<quotient limbs (little endian), remainder>>
    IF i = 0 THEN <<<<>>, r>>
    ELSE LET x == r * LB + a[i]
             rest == BnDivSmallAt(a, k, i - 1, x % k)
         IN  <<rest[1] \o <<x \div k>>, rest[2]>>
BnDivModSmall(a, k) ==        \* k < 2^15
    LET d == BnDivSmallAt(a, k, Len(a), 0) IN [q |-> BnTrim(d[1]), r |-> d[2]]
RECURSIVE DigitsBn(_)
DigitsBn(a) == IF a = <<>> THEN <<>>
               ELSE LET d == BnDivModSmall(a, 10000)
                        lo == DigitsNat(d.r)
                    IN  IF d.q = <<>> THEN lo
                        ELSE DigitsBn(d.q) \o [i \in 1..(4 - Len(lo)) |-> 48] \o lo

(* value of a digit string as Bn *)
RECURSIVE BnOfDigitsAt(_, _, _)
BnOfDigitsAt(s, i, acc) ==
    IF i > Len(s) THEN acc
    ELSE LET nx == BnAdd(BnMulSmall(acc, 10), BnFromInt(s[i] - 48))
         IN  IF Len(nx) < 0 THEN nx ELSE BnOfDigitsAt(s, i + 1, nx)
BnOfDigits(s) == BnOfDigitsAt(s, 1, <<>>)

RECURSIVE BnPow10(_)
BnPow10(k) == IF k = 0 THEN <<1>>
              ELSE IF k >= 4 THEN BnMulSmall(BnPow10(k - 4), 10000)
              ELSE BnMulSmall(BnPow10(k - 1), 10)

(* correctly rounded double nearest to  (+/-) D * 10^q  (D a Bn) *)
DecToNum(neg, D, q) ==
    IF D = <<>> THEN Zero(neg)
    ELSE IF q >= 0 THEN
         (IF q > 330 THEN Inf(neg) ELSE RoundD(neg, BnMul(D, BnPow10(q)), 0))
    ELSE IF -q > 400 + 20 * Len(D) THEN Zero(neg)   \* far below the smallest subnormal (D < 10^(4.6*Len))
    ELSE LET den == BnPow10(-q)
             s   == BnBitLen(den) + 58
             s2  == IF BnBitLen(D) >= s THEN 0 ELSE s
             dm  == BnDivMod(BnShl(D, s2 + 58), den)
             qm  == IF dm.r = <<>> THEN BnShl(dm.q, 1) ELSE BnAdd(BnShl(dm.q, 1), <<1>>)
         IN  RoundD(neg, qm, -(s2 + 58) - 1)
=============================================================================
