----------------------------- MODULE C04Judge -------------------------------
(* Judge (code -> specification) for the well-formedness half of property    *)
(* C04.  The harness parses inputs (the accepted renderings of spec/C04.tla, *)
(* truncations, random byte strings) and logs, per accepted tree, one line   *)
(* of trace.ndjson:                                                          *)
(*   [id, base: base of the file in its file set, len: bytes of the source,  *)
(*    nodes: <<[i0, i1, par, kind, aux]>>  every non-nil node (parents       *)
(*           first; par = 0 for the Program; i0 / i1 = Idx0 / Idx1, -1 if    *)
(*           the call panicked; aux = number of list children),              *)
(*    walk:  <<[e, n]>> the visitor calls of ast.Walk (e = 1 Enter, 2 Exit;  *)
(*           n = node number, 0 = a nil node, -1 = an unknown node),         *)
(*    wpanic: 1 if ast.Walk panicked]                                        *)
(* The predicates:                                                           *)
(*   SpansInFile   base <= Idx0 <= Idx1 <= base + len for every node          *)
(*   SpansNested   a node's span lies within its parent's span               *)
(*   WalkBalanced  Enter/Exit are properly nested, follow the parent         *)
(*                 relation, every node is entered exactly once, no nil and  *)
(*                 no unknown node reaches the visitor                       *)
(* Only trees that fail are printed: verdict "dev" if the failure is exactly *)
(* what the open deviations allow, "bad" otherwise.                          *)
EXTENDS Integers, Sequences, FiniteSets, Json, TLC
CONSTANT OpenDev
VARIABLES blk, cur

File == ndJsonDeserialize("trace.ndjson")
NB == 64

(* which Idx panics the open deviations explain *)
PanicAllowed(n, Dev) ==
    \/ n.kind = "SequenceExpression" /\ n.aux = 0 /\ "DP31_empty_for_initializer_idx_panics" \in Dev
    \/ n.kind = "CaseStatement" /\ n.aux = 0 /\ n.i0 >= 0 /\ "DP32_case_without_statements_idx1_panics" \in Dev
    \/ n.kind = "Program" /\ n.aux = 0 /\ "DP33_empty_program_idx_panics" \in Dev

Panicked(n) == n.i0 < 0 \/ n.i1 < 0

(* otto accepts a switch statement whose case block is cut off by the end of  *)
(* the input; its RightBrace stays 0, so Idx1 = 1 and the spans of the        *)
(* statement and of everything around it are meaningless                      *)
OpenSwitch(t, Dev) ==
    "DP22_switch_unterminated" \in Dev /\ \E k \in 1..Len(t.nodes) : t.nodes[k].kind = "SwitchStatement" /\ t.nodes[k].i1 = 1

NodeInFile(t, n, Dev) ==
    IF Panicked(n) THEN PanicAllowed(n, Dev)
    ELSE t.base <= n.i0 /\ n.i0 <= n.i1 /\ n.i1 <= t.base + t.len     \* base = 1 for a stand-alone file
SpansInFile(t, Dev) == OpenSwitch(t, Dev) \/ \A k \in 1..Len(t.nodes) : NodeInFile(t, t.nodes[k], Dev)

NodeNested(t, n, Dev) ==
    \/ n.par = 0
    \/ Panicked(n) \/ Panicked(t.nodes[n.par])          \* judged by SpansInFile
    \/ (t.nodes[n.par].i0 <= n.i0 /\ n.i1 <= t.nodes[n.par].i1)
SpansNested(t, Dev) == OpenSwitch(t, Dev) \/ \A k \in 1..Len(t.nodes) : NodeNested(t, t.nodes[k], Dev)

(* the visitor calls, with the nil nodes removed when the deviation allows them *)
RECURSIVE WalkOK(_, _, _, _, _)
WalkOK(t, i, stack, seen, Dev) ==
    IF i > Len(t.walk) THEN stack = <<>> /\ seen = 1..Len(t.nodes)
    ELSE LET ev == t.walk[i] IN
         IF ev.n = 0 THEN
            \* a nil node handed to the visitor: Enter immediately followed by its Exit
            "DP30_walk_hands_nil_nodes_to_visitor" \in Dev /\ WalkOK(t, i + 1, stack, seen, Dev)
         ELSE IF ev.n < 0 THEN FALSE
         ELSE IF ev.e = 1 THEN
            /\ ev.n \notin seen
            /\ t.nodes[ev.n].par = (IF stack = <<>> THEN 0 ELSE stack[Len(stack)])
            /\ WalkOK(t, i + 1, Append(stack, ev.n), seen \cup {ev.n}, Dev)
         ELSE /\ stack # <<>> /\ stack[Len(stack)] = ev.n
              /\ WalkOK(t, i + 1, SubSeq(stack, 1, Len(stack) - 1), seen, Dev)
WalkBalanced(t, Dev) == t.wpanic = 0 /\ WalkOK(t, 1, <<>>, {}, Dev)

Failing(t, Dev) ==
    (IF SpansInFile(t, Dev) THEN <<>> ELSE <<"SpansInFile">>)
    \o (IF SpansNested(t, Dev) THEN <<>> ELSE <<"SpansNested">>)
    \o (IF WalkBalanced(t, Dev) THEN <<>> ELSE <<"WalkBalanced">>)

Init == blk \in 1..NB /\ cur = 0
Next == cur = 0 /\ UNCHANGED blk /\ \E j \in {x \in 1..Len(File) : x % NB = blk - 1} : cur' = j

Judge ==
    cur = 0 \/
    LET t == File[cur]
        fs == Failing(t, {})
    IN  fs = <<>>
        \/ LET fd == Failing(t, OpenDev)
           IN  PrintT("VJSON " \o ToJson([id |-> t.id, verdict |-> IF fd = <<>> THEN "dev" ELSE "bad", strict |-> fs, withdev |-> fd]))
=============================================================================
