------------------------------- MODULE C19Num -------------------------------
(* Property C19, family "which error comes first": the argument and this-value *)
(* checks of Number.prototype.toString / toFixed / toExponential / toPrecision *)
(* in the STEP ORDER of ES5 15.7.4.2, 15.7.4.5, 15.7.4.6, 15.7.4.7.  A case is  *)
(*     Number.prototype.<m>.call(<this>, <argument>)                           *)
(* and the outcome is the class of the error (RangeError for a bad radix /      *)
(* precision, TypeError for a this value that is no Number, whatever a          *)
(* scripted valueOf / toString of the argument throws) together with the log of *)
(* the conversions that ran - so the ORDER of ToInteger(argument), the this     *)
(* check and the range check is observable.  A call that raises nothing yields  *)
(* "ok" (the digits themselves are property C06).                               *)
(* Generator in the style of C05: one state per case, Emit prints the case.     *)
EXTENDS NumText, Json, TLC, SequencesExt
CONSTANTS OpenDev
VARIABLES blk, cs

S == INSTANCE Ops WITH Dev <- {}

RetP(v) == [k |-> "ret", v |-> v]
S_ok == <<111, 107>>
Ok(log) == S!R(StrV(S_ok), log)

(* this values: js = the text, num = it is a Number or a Number object (15.7.4: "this   *)
(* Number value"; anything else: TypeError), x = "fin" | "nan" | "inf"                  *)
Thises ==
    <<[js |-> "5", num |-> TRUE, x |-> "fin"], [js |-> "0.5", num |-> TRUE, x |-> "fin"], [js |-> "-1e21", num |-> TRUE, x |-> "fin"],
      [js |-> "NaN", num |-> TRUE, x |-> "nan"], [js |-> "Infinity", num |-> TRUE, x |-> "inf"], [js |-> "-Infinity", num |-> TRUE, x |-> "inf"],
      [js |-> "new Number(7)", num |-> TRUE, x |-> "fin"], [js |-> "new Number(NaN)", num |-> TRUE, x |-> "nan"],
      [js |-> "\"5\"", num |-> FALSE, x |-> "fin"], [js |-> "true", num |-> FALSE, x |-> "fin"], [js |-> "undefined", num |-> FALSE, x |-> "fin"],
      [js |-> "null", num |-> FALSE, x |-> "fin"], [js |-> "({})", num |-> FALSE, x |-> "fin"], [js |-> "[5]", num |-> FALSE, x |-> "fin"],
      [js |-> "new String(\"5\")", num |-> FALSE, x |-> "fin"], [js |-> "(function(){})", num |-> FALSE, x |-> "fin"],
      [js |-> "({valueOf: function(){ return 5; }})", num |-> FALSE, x |-> "fin"]>>

Ints == {-2, -1, 0, 1, 2, 9, 10, 11, 19, 20, 21, 22, 35, 36, 37, 100}
Args ==
    SetToSeq({Undef, Null, BoolV(TRUE), BoolV(FALSE), StrV(<<55>>), StrV(<<97>>), StrV(<<50, 49>>), StrV(<<>>),
              NumV(NaN), NumV(PInf), NumV(NInf), NumV(NZero),
              NumV(DecToNum(FALSE, BnFromInt(209), -1)), NumV(DecToNum(TRUE, BnFromInt(5), -1)), NumV(DecToNum(FALSE, BnFromInt(15), -1)),
              NumV(DecToNum(FALSE, BnFromInt(369), -1)), NumV(DecToNum(FALSE, BnFromInt(1), 30))}
             \cup {IntV(i) : i \in Ints}
             \cup {[t |-> "cobj", id |-> 1, vo |-> RetP(IntV(5)), ts |-> RetP(StrV(<<55>>))],              \* logs, in range
                   [t |-> "cobj", id |-> 2, vo |-> RetP(IntV(40)), ts |-> RetP(StrV(<<55>>))],             \* logs, out of range
                   [t |-> "cobj", id |-> 3, vo |-> [k |-> "throw"], ts |-> RetP(StrV(<<55>>))],            \* valueOf throws
                   [t |-> "cobj", id |-> 4, vo |-> [k |-> "retobj"], ts |-> RetP(StrV(<<51>>))],           \* falls through to toString
                   [t |-> "cobj", id |-> 5, vo |-> [k |-> "retobj"], ts |-> [k |-> "retobj"]],             \* 8.12.8: TypeError
                   [t |-> "cobj", id |-> 6, vo |-> [k |-> "retobj"], ts |-> [k |-> "throw"]],              \* toString throws
                   [t |-> "cobj", id |-> 7, vo |-> RetP(IntV(-1)), ts |-> RetP(StrV(<<55>>))]})            \* logs, negative

Methods == <<"toString", "toFixed", "toExponential", "toPrecision">>

(* 9.4 ToInteger(arg) with the log of the conversion: [thr, v (NumV of the integer), log] *)
ToInt(arg) == LET n == S!ToNumber(arg, <<>>) IN IF n.thr # "" THEN n ELSE S!R(NumV(ToIntegerN(n.v.n)), n.log)
Outside(f, lo, hi) == NumLt(f, I(lo)) \/ NumLt(I(hi), f)

Expect(m, th, arg, dv) ==
    LET f == ToInt(arg)
    IN  CASE m = "toFixed" ->                                             \* 15.7.4.5
                IF f.thr # "" THEN f                                                            \* step 1
                ELSE IF Outside(f.v.n, 0, 20) THEN S!T("RangeError", f.log)                      \* step 2
                ELSE IF ~th.num THEN S!T("TypeError", f.log)                                     \* step 3: this Number value
                ELSE Ok(f.log)
          [] m = "toExponential" ->                                       \* 15.7.4.6
                IF ~th.num THEN S!T("TypeError", <<>>)                                           \* step 1
                \* D19_toexponential_nan_inf_before_tointeger (and D19_toprecision_... below): otto answers for NaN and the infinities before
                \* it converts the argument (ES5: step 2 ToInteger precedes steps 3-6)
                ELSE IF th.x # "fin" /\ ("D19_toexponential_nan_inf_before_tointeger" \in dv) THEN Ok(<<>>)
                ELSE IF f.thr # "" THEN f                                                        \* step 2
                ELSE IF th.x # "fin" THEN Ok(f.log)                                              \* steps 3-6
                ELSE IF arg # Undef /\ Outside(f.v.n, 0, 20) THEN S!T("RangeError", f.log)       \* step 7
                ELSE Ok(f.log)
          [] m = "toPrecision" ->                                         \* 15.7.4.7
                IF ~th.num THEN S!T("TypeError", <<>>)                                           \* step 1
                ELSE IF th.x = "nan" /\ ("D19_toprecision_nan_inf_before_tointeger" \in dv) THEN Ok(<<>>)
                ELSE IF arg = Undef THEN Ok(<<>>)                                                \* step 2
                ELSE IF th.x = "inf" /\ ("D19_toprecision_nan_inf_before_tointeger" \in dv) THEN Ok(<<>>)
                ELSE IF f.thr # "" THEN f                                                        \* step 3
                ELSE IF th.x # "fin" THEN Ok(f.log)                                              \* steps 4-7
                ELSE IF Outside(f.v.n, 1, 21) THEN S!T("RangeError", f.log)                      \* step 8
                ELSE Ok(f.log)
          [] OTHER ->                                                     \* 15.7.4.2 toString(radix): no step order is given for
                \* the this check against the radix check, so only cases where it cannot matter are generated (see Cases)
                IF ~th.num THEN S!T("TypeError", <<>>)
                ELSE IF arg = Undef THEN Ok(<<>>)
                ELSE IF f.thr # "" THEN f
                ELSE IF Outside(f.v.n, 2, 36) THEN S!T("RangeError", f.log)
                ELSE Ok(f.log)

(* toString with a this value that is no Number: only arguments whose conversion has no   *)
(* effect and that are in range (or absent)                                               *)
Generated(m, th, arg) ==
    m # "toString" \/ th.num \/ arg = Undef
    \/ (arg.t = "num" /\ arg.n.c = "int" /\ arg.n.v >= 2 /\ arg.n.v <= 36)

Lit(v) == [lit |-> v]
Js(m, th, arg) == <<"(Number.prototype." \o m \o ".call(" \o th.js \o ", ", Lit(arg), "), \"ok\")">>

None == [m |-> "none"]
Init == cs = None /\ blk \in (1..Len(Methods)) \X (1..Len(Thises))
Next == /\ cs = None /\ UNCHANGED blk
        /\ \E j \in 1..Len(Args) :
              /\ Generated(Methods[blk[1]], Thises[blk[2]], Args[j])
              /\ cs' = [m |-> Methods[blk[1]], th |-> blk[2], a |-> j]

Emit ==
    cs = None \/
    LET th == Thises[cs.th]  arg == Args[cs.a]
        es == Expect(cs.m, th, arg, {})
        ed == Expect(cs.m, th, arg, OpenDev)
    IN  PrintT("VJSON " \o ToJson([c |-> [m |-> cs.m, this |-> th.js, arg |-> cs.a], js |-> Js(cs.m, th, arg), exp |-> es,
                                     dev |-> IF ed = es THEN <<>> ELSE <<ed>>]))
=============================================================================
