------------------------------ MODULE MathSpec ------------------------------
(* ES5.1 15.8 (the Math object) and 15.1.2.4 / 15.1.2.5 (isNaN, isFinite).   *)
(*                                                                           *)
(* Class(f, args) is what the standard (and, where the standard only says    *)
(* "implementation-dependent approximation", the property statement:  sign,  *)
(* range, anchors) demands of f applied to Numbers:                          *)
(*    [k |-> "exact", n |-> Num]         the result is this double           *)
(*    [k |-> "range", lo, hi]            a number with lo <= result <= hi    *)
(*                                       (-0 = +0 in this comparison)        *)
(* abs ceil floor round max min, every row of the special-value tables, the  *)
(* value properties and perfect squares / exactly representable integer      *)
(* powers are "exact".  MonoDir and InvOk are the relational requirements    *)
(* judged on recorded evaluations (spec/C13Judge.tla).                       *)
(* Known deviations of otto are the branches D("...").                       *)
EXTENDS Ops
CONSTANT KK

Ex(n) == [k |-> "exact", n |-> n]
Rg(lo, hi) == [k |-> "range", lo |-> lo, hi |-> hi]
InClass(r, cls) ==
    IF cls.k = "exact" THEN r = cls.n
    ELSE ~IsNaN(r) /\ NumCmp(cls.lo, r) <= 0 /\ NumCmp(r, cls.hi) <= 0

P2N(k) == Canon(FALSE, <<1>>, k)                     \* 2^k
One == I(1)
MOne == I(-1)
Half == P2N(-1)
MaxD == KK.MaxD
MinD == KK.MinD
AbsN(x) == IF IsNeg(x) THEN NumNeg(x) ELSE x
Lt(x, y) == NumCmp(x, y) < 0
Le(x, y) == NumCmp(x, y) <= 0

(* The numeric constants live in MathConst.tla and reach this module as the  *)
(* record KK: TLC caches a constant definition of the root module but        *)
(* re-evaluates every definition reached through INSTANCE ... WITH.          *)
ConstE       == KK.E
ConstLN10    == KK.LN10
ConstLN2     == KK.LN2
ConstLOG2E   == KK.LOG2E
ConstLOG10E  == KK.LOG10E
ConstPI      == KK.PI
ConstSQRT1_2 == KK.SQRT1_2
ConstSQRT2   == KK.SQRT2
MathConsts == [E |-> ConstE, LN10 |-> ConstLN10, LN2 |-> ConstLN2, LOG2E |-> ConstLOG2E,
               LOG10E |-> ConstLOG10E, PI |-> ConstPI, SQRT1_2 |-> ConstSQRT1_2, SQRT2 |-> ConstSQRT2]
HalfPi == KK.HalfPi
QuartPi == KK.QuartPi
ThreeQuartPi == KK.ThreeQuartPi
SixthPi == KK.SixthPi
ThirdPi == KK.ThirdPi
InvE == KK.InvE

(* "an implementation-dependent approximation to K": within 2^-46 relative   *)
TolUp == KK.TolUp
TolDn == KK.TolDn
About(K) ==
    IF IsZero(K) \/ ~IsFinite(K) THEN Rg(K, K)
    ELSE IF IsNeg(K) THEN Rg(NumMul(K, TolUp), NumMul(K, TolDn))
    ELSE Rg(NumMul(K, TolDn), NumMul(K, TolUp))
UpOf(K) == NumMul(K, TolUp)        \* K > 0
DnOf(K) == NumMul(K, TolDn)
Mirror(c) == IF c.k = "exact" THEN Ex(NumNeg(c.n)) ELSE Rg(NumNeg(c.hi), NumNeg(c.lo))
Tiny(x) == Le(AbsN(x), P2N(-30))

-----------------------------------------------------------------------------
(* exact functions *)

MAbs(x) == AbsN(x)                                   \* 15.8.2.1 (NaN -> NaN, -0 -> +0, -Inf -> +Inf)
MCeil(x) == Ceil(x)                                  \* 15.8.2.6 (Num!Ceil: -1 < x < 0 -> -0)
MFloor(x) == Floor(x)                                \* 15.8.2.9

(* 15.8.2.15: the integer closest to x, ties towards +Infinity; -0.5 <= x < 0 -> -0; 0 < x < 0.5 -> +0 *)
MRound(x) ==
    IF D("D26_round_floor_plus_half")
    THEN LET v == Floor(NumAdd(x, Half))             \* otto: math.Floor(x + 0.5) in double arithmetic
         IN  IF IsZero(v) THEN Zero(IsNeg(x)) ELSE v
    ELSE IF x.c # "big" \/ x.e >= 0 THEN x           \* NaN, infinities, zeros, integers
    ELSE LET k == -x.e                               \* x = (+/-) m * 2^-k, m odd, k >= 1
             t == BnShr(x.m, k)                      \* floor(|x|)
             fr == BnLowBits(x.m, k)                 \* fraction * 2^k, non-zero
             c == BnCmp(fr, BnShl(<<1>>, k - 1))     \* fraction compared with 1/2
         IN  IF x.neg THEN Canon(TRUE, IF c > 0 THEN BnAdd(t, <<1>>) ELSE t, 0)     \* tie: towards +Inf
             ELSE Canon(FALSE, IF c >= 0 THEN BnAdd(t, <<1>>) ELSE t, 0)

(* 15.8.2.11 / 15.8.2.12 on already converted arguments *)
Max2(a, b) == IF IsNaN(a) \/ IsNaN(b) THEN NaN
              ELSE IF NumCmp(a, b) > 0 THEN a ELSE IF NumCmp(a, b) < 0 THEN b
              ELSE IF IsZero(a) /\ a.c = "nzero" THEN b ELSE a            \* +0 is larger than -0
Min2(a, b) == IF IsNaN(a) \/ IsNaN(b) THEN NaN
              ELSE IF NumCmp(a, b) < 0 THEN a ELSE IF NumCmp(a, b) > 0 THEN b
              ELSE IF IsZero(a) /\ a.c = "nzero" THEN a ELSE b
RECURSIVE FoldMM(_, _, _, _)
FoldMM(f, ns, i, acc) == IF i > Len(ns) THEN acc
                         ELSE FoldMM(f, ns, i + 1, IF f = "max" THEN Max2(acc, ns[i]) ELSE Min2(acc, ns[i]))
MMax(ns) == FoldMM("max", ns, 1, NInf)
MMin(ns) == FoldMM("min", ns, 1, PInf)

(* integer square root of a natural below 2^53 by bisection (fits a TLC integer) *)
RECURSIVE ISqrtBis(_, _, _)
ISqrtBis(m, lo, hi) ==      \* largest r in lo..hi with r*r <= m
    IF lo = hi THEN lo
    ELSE LET mid == (lo + hi + 1) \div 2
         IN  IF BnCmp(BnMul(BnFromInt(mid), BnFromInt(mid)), m) <= 0 THEN ISqrtBis(m, mid, hi) ELSE ISqrtBis(m, lo, mid - 1)
ISqrt(m) == ISqrtBis(m, 0, 94906266)
(* x > 0 finite: [ok, r] with r * r = x exactly *)
PerfectRoot(x) ==
    LET m == MantOf(x)  e == ExpOf(x)
        r == ISqrt(m)
    IN  IF e % 2 = 0 /\ BnMul(BnFromInt(r), BnFromInt(r)) = m
        THEN [ok |-> TRUE, r |-> Canon(FALSE, BnFromInt(r), e \div 2)]
        ELSE [ok |-> FALSE]

IsOddInt(y) == (y.c = "int" /\ y.v % 2 # 0) \/ (y.c = "big" /\ y.e = 0)    \* canonical form: m is odd
SmallIntOf(y) == IF y.c = "int" /\ Abs(y.v) <= 64 THEN y.v ELSE 0          \* 0: not a small integer

RECURSIVE BnPow(_, _)
BnPow(m, n) == IF n = 0 THEN <<1>> ELSE IF n % 2 = 1 THEN BnMul(m, BnPow(m, n - 1))
               ELSE LET h == BnPow(m, n \div 2) IN BnMul(h, h)

-----------------------------------------------------------------------------
(* 15.8.2.13 pow(x, y) *)
PowClass(x, y) ==
    IF IsNaN(y) THEN (IF D("D13_pow_one_nan") /\ x = One THEN Ex(One) ELSE Ex(NaN))   \* row 1 (otto: Go's Pow(1, NaN) = 1)
    ELSE IF IsZero(y) THEN Ex(One)                                          \* rows 2, 3 (even if x is NaN)
    ELSE IF IsNaN(x) THEN Ex(NaN)                                           \* row 4
    ELSE IF IsInf(y) THEN
         (LET c == IF IsInf(x) THEN 1 ELSE NumCmp(AbsN(x), One)
          IN  IF c > 0 THEN (IF y.neg THEN Ex(I(0)) ELSE Ex(PInf))          \* rows 5, 6
              ELSE IF c = 0 THEN Ex(NaN)                                    \* rows 7, 8
              ELSE (IF y.neg THEN Ex(PInf) ELSE Ex(I(0))))                  \* rows 9, 10
    ELSE IF x = PInf THEN (IF IsNeg(y) THEN Ex(I(0)) ELSE Ex(PInf))         \* rows 11, 12
    ELSE IF x = NInf THEN
         (IF IsNeg(y) THEN (IF IsOddInt(y) THEN Ex(NZero) ELSE Ex(I(0)))    \* rows 15, 16
          ELSE (IF IsOddInt(y) THEN Ex(NInf) ELSE Ex(PInf)))                \* rows 13, 14
    ELSE IF x = I(0) THEN (IF IsNeg(y) THEN Ex(PInf) ELSE Ex(I(0)))         \* rows 17, 18
    ELSE IF x = NZero THEN
         (IF IsNeg(y) THEN (IF IsOddInt(y) THEN Ex(NInf) ELSE Ex(PInf))     \* rows 21, 22
          ELSE (IF IsOddInt(y) THEN Ex(NZero) ELSE Ex(I(0))))               \* rows 19, 20
    ELSE IF IsNeg(x) /\ ~IsInteger(y) THEN Ex(NaN)                          \* row 23
    ELSE \* x, y finite and non-zero; x < 0 only with integer y: an approximation of x^y
         LET negr == IsNeg(x) /\ IsOddInt(y)
             sg(c) == IF negr THEN Mirror(c) ELSE c
             n  == SmallIntOf(y)
             m  == MantOf(x)   e == ExpOf(x)
             an == Abs(n)
             c1 == NumCmp(AbsN(x), One)
             generic == IF c1 = 0 THEN About(One)
                        ELSE IF (c1 > 0) = ~IsNeg(y) THEN Rg(One, PInf) ELSE Rg(I(0), One)
         IN  IF n # 0 /\ BnBitLen(m) * an <= 1100 /\ Abs(e) * an <= 1000
             THEN LET pm == BnPow(m, an)
                      ex == RoundD(FALSE, pm, e * an)         \* |x|^|n| correctly rounded
                      normal == IsFinite(ex) /\ Le(P2N(-1000), ex) /\ Le(ex, P2N(1000))
                  IN  IF ~normal THEN sg(generic)
                      ELSE IF n > 0 THEN sg(IF BnBitLen(pm) <= 53 THEN Ex(ex) ELSE About(ex))   \* anchor: representable power
                      ELSE sg(IF m = <<1>> THEN Ex(P2N(-(e * an))) ELSE About(NumDiv(One, ex)))
             ELSE IF y = Half /\ PerfectRoot(x).ok THEN About(PerfectRoot(x).r)
             ELSE sg(generic)

(* 15.8.2.5 atan2(y, x) *)
Atan2Class(y, x) ==
    IF IsNaN(y) \/ IsNaN(x) THEN Ex(NaN)
    ELSE LET ypos == ~IsNeg(y)
             s(c) == IF ypos THEN c ELSE Mirror(c)        \* the table is odd in y
             ay == AbsN(y)
         IN  IF IsZero(y) THEN
                 (IF ~IsNeg(x) THEN s(Ex(I(0)))                                 \* y = +-0, x > 0 or x = +0 (incl. +Inf)
                  ELSE s(About(ConstPI)))                                       \* y = +-0, x = -0 or x < 0
             ELSE IF IsZero(x) THEN s(About(HalfPi))                            \* y > 0 / y < 0 and x = +-0
             ELSE IF IsInf(y) THEN
                 (IF ~IsInf(x) THEN s(About(HalfPi))
                  ELSE IF x.neg THEN s(About(ThreeQuartPi)) ELSE s(About(QuartPi)))
             ELSE IF IsInf(x) THEN (IF x.neg THEN s(About(ConstPI)) ELSE s(Ex(I(0))))   \* y finite non-zero
             ELSE \* both finite and non-zero: quadrant, and the diagonal as anchor
                  IF D("D13_atan2_underflow_sign") /\ IsNeg(y) /\ IsNeg(x) /\ IsZero(NumDiv(y, x)) THEN Ex(ConstPI)   \* Go: Atan(y/x) + Pi with y/x = +0
                  ELSE IF NumCmp(ay, AbsN(x)) = 0 THEN s(About(IF IsNeg(x) THEN ThreeQuartPi ELSE QuartPi))
                  ELSE IF IsNeg(x) THEN s(Rg(DnOf(HalfPi), UpOf(ConstPI)))
                  ELSE s(Rg(I(0), UpOf(HalfPi)))

-----------------------------------------------------------------------------
(* the unary functions with approximated results: table rows exact, then     *)
(* anchors, then sign / range                                                *)
OddFn(x, c) == IF IsNeg(x) THEN Mirror(c) ELSE c

SinClass(x) ==       \* 15.8.2.16
    IF IsNaN(x) \/ IsInf(x) THEN Ex(NaN)
    ELSE IF IsZero(x) THEN Ex(x)
    ELSE IF Tiny(x) THEN About(x)
    ELSE LET a == AbsN(x)
         IN  OddFn(x, IF a = HalfPi THEN About(One)
                      ELSE IF Le(a, I(3)) THEN Rg(I(0), One)      \* 3 < pi
                      ELSE Rg(MOne, One))
CosClass(x) ==       \* 15.8.2.7
    IF IsNaN(x) \/ IsInf(x) THEN Ex(NaN)
    ELSE IF IsZero(x) THEN Ex(One)
    ELSE LET a == AbsN(x)
         IN  IF Tiny(x) THEN About(One)
             ELSE IF a = ConstPI THEN About(MOne)
             ELSE IF Le(a, Canon(FALSE, <<3>>, -1)) THEN Rg(I(0), One)                                   \* |x| <= 1.5 < pi/2
             ELSE IF Le(Canon(FALSE, <<13>>, -3), a) /\ Le(a, Canon(FALSE, <<37>>, -3)) THEN Rg(MOne, I(0))   \* 1.625 .. 4.625, inside (pi/2, 3pi/2)
             ELSE Rg(MOne, One)
TanClass(x) ==       \* 15.8.2.18
    IF IsNaN(x) \/ IsInf(x) THEN Ex(NaN)
    ELSE IF IsZero(x) THEN Ex(x)
    ELSE IF Tiny(x) THEN About(x)
    ELSE LET a == AbsN(x)
         IN  OddFn(x, IF a = QuartPi THEN About(One)
                      ELSE IF Le(a, HalfPi) THEN Rg(I(0), PInf)    \* the double nearest pi/2 is below pi/2
                      ELSE Rg(NInf, PInf))
AsinClass(x) ==      \* 15.8.2.3
    IF IsNaN(x) THEN Ex(NaN)
    ELSE IF ~IsFinite(x) \/ Lt(One, AbsN(x)) THEN Ex(NaN)
    ELSE IF IsZero(x) THEN Ex(x)
    ELSE IF Tiny(x) THEN About(x)
    ELSE LET a == AbsN(x)
         IN  OddFn(x, IF a = One THEN About(HalfPi)
                      ELSE IF a = Half THEN About(SixthPi)
                      ELSE Rg(DnOf(a), UpOf(HalfPi)))              \* asin x >= x on [0, 1]
AcosClass(x) ==      \* 15.8.2.2
    IF IsNaN(x) THEN Ex(NaN)
    ELSE IF ~IsFinite(x) \/ Lt(One, AbsN(x)) THEN Ex(NaN)
    ELSE IF x = One THEN Ex(I(0))
    ELSE IF x = MOne THEN About(ConstPI)
    ELSE IF Le(AbsN(x), P2N(-50)) THEN About(HalfPi)                 \* acos x = pi/2 - x - ...
    ELSE IF x = Half THEN About(ThirdPi)
    ELSE IF IsNeg(x) THEN Rg(DnOf(HalfPi), UpOf(ConstPI))
    ELSE Rg(I(0), UpOf(HalfPi))
AtanClass(x) ==      \* 15.8.2.4
    IF IsNaN(x) THEN Ex(NaN)
    ELSE IF IsZero(x) THEN Ex(x)
    ELSE IF Tiny(x) THEN About(x)
    ELSE LET a == AbsN(x)
         IN  OddFn(x, IF IsInf(a) THEN About(HalfPi)
                      ELSE IF a = One THEN About(QuartPi)
                      ELSE IF Lt(a, One) THEN Rg(I(0), UpOf(QuartPi))
                      ELSE Rg(DnOf(QuartPi), UpOf(HalfPi)))
ExpClass(x) ==       \* 15.8.2.8
    IF IsNaN(x) THEN Ex(NaN)
    ELSE IF IsZero(x) THEN Ex(One)
    ELSE IF x = PInf THEN Ex(PInf)
    ELSE IF x = NInf THEN Ex(I(0))
    ELSE IF Le(AbsN(x), P2N(-54)) THEN About(One)
    ELSE IF x = One THEN About(ConstE)
    ELSE IF x = MOne THEN About(InvE)
    ELSE IF Le(I(710), x) THEN Rg(MaxD, PInf)                      \* e^710 > the largest double
    ELSE IF Le(x, I(-746)) THEN Rg(I(0), MinD)                     \* e^-746 < half the smallest double
    ELSE IF IsNeg(x) THEN Rg(I(0), One) ELSE Rg(One, PInf)
LogClass(x) ==       \* 15.8.2.10
    IF IsNaN(x) THEN Ex(NaN)
    ELSE IF IsZero(x) THEN Ex(NInf)
    ELSE IF IsNeg(x) THEN Ex(NaN)
    ELSE IF x = One THEN Ex(I(0))
    ELSE IF x = PInf THEN Ex(PInf)
    ELSE IF x = ConstE THEN About(One)
    ELSE IF x = I(2) THEN About(ConstLN2)
    ELSE IF x = Half THEN About(NumNeg(ConstLN2))
    ELSE IF x = I(10) THEN About(ConstLN10)
    ELSE IF Lt(One, x) THEN Rg(I(0), I(710)) ELSE Rg(I(-746), I(0))
SqrtClass(x) ==      \* 15.8.2.17
    IF IsNaN(x) THEN Ex(NaN)
    ELSE IF IsZero(x) THEN Ex(x)
    ELSE IF IsNeg(x) THEN Ex(NaN)
    ELSE IF x = PInf THEN Ex(PInf)
    ELSE LET p == PerfectRoot(x)
         IN  IF p.ok THEN Ex(p.r)                                  \* anchor: perfect squares
             ELSE IF x = I(2) THEN About(ConstSQRT2)
             ELSE IF x = Half THEN About(ConstSQRT1_2)
             ELSE IF Lt(One, x) THEN Rg(One, x) ELSE Rg(x, One)

Fns1 == {"abs", "acos", "asin", "atan", "ceil", "cos", "exp", "floor", "log", "round", "sin", "sqrt", "tan"}
Fns2 == {"atan2", "pow"}
FnsN == {"max", "min"}

(* f applied to a sequence of Numbers of the right length *)
Class(f, a) ==
    CASE f = "abs" -> Ex(MAbs(a[1]))
      [] f = "ceil" -> Ex(MCeil(a[1]))
      [] f = "floor" -> Ex(MFloor(a[1]))
      [] f = "round" -> Ex(MRound(a[1]))
      [] f = "max" -> Ex(MMax(a))
      [] f = "min" -> Ex(MMin(a))
      [] f = "sin" -> SinClass(a[1])
      [] f = "cos" -> CosClass(a[1])
      [] f = "tan" -> TanClass(a[1])
      [] f = "asin" -> AsinClass(a[1])
      [] f = "acos" -> AcosClass(a[1])
      [] f = "atan" -> AtanClass(a[1])
      [] f = "exp" -> ExpClass(a[1])
      [] f = "log" -> LogClass(a[1])
      [] f = "sqrt" -> SqrtClass(a[1])
      [] f = "pow" -> PowClass(a[1], a[2])
      [] f = "atan2" -> Atan2Class(a[1], a[2])

-----------------------------------------------------------------------------
(* 15.8.2: "each of the following Math object functions applies the ToNumber *)
(* abstract operator to each of its arguments (in left-to-right order if     *)
(* there is more than one) and then performs a computation".  [thr, v, log,  *)
(* ns]: ns the converted Numbers when thr = "".                              *)
RECURSIVE ConvAll(_, _, _, _, _)
ConvAll(vs, i, ns, log, stopAtNaN) ==
    IF Len(ns) < 0 THEN [thr |-> "", v |-> Undef, log |-> log, ns |-> ns, cut |-> FALSE]
    ELSE IF i > Len(vs) THEN [thr |-> "", v |-> Undef, log |-> log, ns |-> ns, cut |-> FALSE]
    ELSE LET r == ToNumber(vs[i], log)
         IN  IF r.thr # "" THEN [thr |-> r.thr, v |-> r.v, log |-> r.log, ns |-> ns, cut |-> FALSE]
             ELSE IF stopAtNaN /\ IsNaN(r.v.n) THEN [thr |-> "", v |-> Undef, log |-> r.log, ns |-> Append(ns, NaN), cut |-> TRUE]
             ELSE ConvAll(vs, i + 1, Append(ns, r.v.n), r.log, stopAtNaN)

Arity(f) == IF f \in Fns2 THEN 2 ELSE 1
Pad(args, n) == [i \in 1..n |-> IF i <= Len(args) THEN args[i] ELSE Undef]

(* [thr, v, log, cls]: cls is the demanded class of the result when thr = "" *)
CallMath(f, args, log) ==
    LET vs == IF f \in FnsN THEN args ELSE Pad(args, Arity(f))
        stop == \/ (f \in FnsN /\ Len(args) >= 2 /\ D("D13_maxmin_nan_shortcut"))     \* otto returns NaN at the first NaN
                \/ (f = "atan2" /\ D("D13_atan2_nan_shortcut"))                      \* ... without converting the rest
        c  == ConvAll(vs, 1, <<>>, log, stop)
    IN  IF c.thr # "" THEN [thr |-> c.thr, v |-> c.v, log |-> c.log, cls |-> Ex(NaN)]
        ELSE IF c.cut THEN [thr |-> "", v |-> Undef, log |-> c.log, cls |-> Ex(NaN)]
        ELSE [thr |-> "", v |-> Undef, log |-> c.log, cls |-> Class(f, c.ns)]

(* 15.1.2.4 isNaN(number), 15.1.2.5 isFinite(number) *)
CallGlobalNum(f, args, log) ==
    LET r == ToNumber(Pad(args, 1)[1], log)
    IN  IF r.thr # "" THEN r
        ELSE R(BoolV(IF f = "isNaN" THEN IsNaN(r.v.n) ELSE IsFinite(r.v.n)), r.log)

-----------------------------------------------------------------------------
(* Relations between evaluations (property statement: monotonicity, inverse  *)
(* relations).  MonoDir: f restricted to the interval [a1, a2] (a1 < a2,     *)
(* argument number pos varies, o is the other argument of a binary function) *)
(* is "inc" (non-decreasing), "dec" (non-increasing) or "none" (not judged). *)
Within(a1, a2, lo, hi) == Le(lo, a1) /\ Le(a2, hi)
MonoDir(f, pos, a1, a2, o) ==
    IF IsNaN(a1) \/ IsNaN(a2) \/ IsNaN(o) \/ ~Lt(a1, a2) THEN "none"
    ELSE CASE f \in {"exp", "atan", "floor", "ceil", "round"} -> "inc"
           [] f \in {"log", "sqrt"} -> IF Le(I(0), a1) THEN "inc" ELSE "none"
           [] f = "asin" -> IF Within(a1, a2, MOne, One) THEN "inc" ELSE "none"
           [] f = "acos" -> IF Within(a1, a2, MOne, One) THEN "dec" ELSE "none"
           [] f = "sin" -> IF Within(a1, a2, NumNeg(HalfPi), HalfPi) THEN "inc" ELSE "none"
           [] f = "tan" -> IF Within(a1, a2, NumNeg(HalfPi), HalfPi) THEN "inc" ELSE "none"
           [] f = "cos" -> IF Within(a1, a2, I(0), ConstPI) THEN "dec" ELSE IF Within(a1, a2, NumNeg(ConstPI), I(0)) THEN "inc" ELSE "none"
           [] f = "abs" -> IF Le(I(0), a1) THEN "inc" ELSE IF Le(a2, I(0)) THEN "dec" ELSE "none"
           [] f = "atan2" -> IF pos # 1 THEN "none"
                             ELSE IF ~IsNeg(o) THEN "inc"                            \* x > 0 or x = +0: increasing in y
                             ELSE IF IsNeg(a1) = IsNeg(a2) THEN "dec"                \* x < 0 or x = -0: decreasing on either side of the cut
                             ELSE "none"
           [] f = "pow" -> IF pos = 1 THEN (IF ~Le(I(0), a1) \/ IsZero(o) THEN "none" ELSE IF IsNeg(o) THEN "dec" ELSE "inc")
                           ELSE (IF ~IsFinite(o) \/ Le(o, I(0)) \/ o = One THEN "none" ELSE IF Lt(One, o) THEN "inc" ELSE "dec")
           [] f \in {"max", "min"} -> "inc"
           [] OTHER -> "none"
MonoOk(f, pos, a1, a2, o, r1, r2) ==
    LET d == MonoDir(f, pos, a1, a2, o)
    IN  CASE d = "none" -> TRUE
          [] d = "inc" -> ~IsNaN(r1) /\ ~IsNaN(r2) /\ Le(r1, r2)
          [] d = "dec" -> ~IsNaN(r1) /\ ~IsNaN(r2) /\ Le(r2, r1)

(* |r - x| <= rel * |x| + abs *)
Close(r, x, rel, abs) ==
    IsFinite(r) /\ Le(AbsN(NumSub(r, x)), NumAdd(NumMul(AbsN(x), rel), abs))
(* g names a composition evaluated on x with result r; outside the stated    *)
(* domain nothing is demanded                                                *)
InvOk(g, x, r) ==
    CASE g = "exp_log" -> (IF Le(P2N(-1000), x) /\ Le(x, P2N(1000)) THEN Close(r, x, P2N(-40), I(0)) ELSE TRUE)       \* exp(log x)
      [] g = "log_exp" -> (IF Le(AbsN(x), I(700)) THEN Close(r, x, P2N(-48), P2N(-48)) ELSE TRUE)                     \* log(exp x)
      [] g = "sqrt_sq" -> (IF Le(P2N(-500), x) /\ Le(x, P2N(500)) THEN Close(r, x, P2N(-48), I(0)) ELSE TRUE)         \* pow(sqrt x, 2)
      [] g = "sq_sqrt" -> (IF Le(P2N(-250), x) /\ Le(x, P2N(250)) THEN Close(r, x, P2N(-48), I(0)) ELSE TRUE)         \* sqrt(pow(x, 2))
      [] g = "tan_atan" -> (IF Le(AbsN(x), I(1024)) THEN Close(r, x, P2N(-38), I(0)) ELSE TRUE)                       \* tan(atan x)
      [] g = "atan_tan" -> (IF Le(AbsN(x), Canon(FALSE, <<3>>, -1)) THEN Close(r, x, P2N(-46), I(0)) ELSE TRUE)       \* atan(tan x)
      [] g = "sin_asin" -> (IF Le(AbsN(x), One) THEN Close(r, x, I(0), P2N(-48)) ELSE TRUE)                           \* sin(asin x)
      [] g = "cos_acos" -> (IF Le(AbsN(x), One) THEN Close(r, x, I(0), P2N(-48)) ELSE TRUE)                           \* cos(acos x)
      [] g = "asin_sin" -> (IF Le(AbsN(x), One) THEN Close(r, x, I(0), P2N(-46)) ELSE TRUE)                           \* asin(sin x)
      [] g = "acos_cos" -> (IF Le(Half, x) /\ Le(x, I(3)) THEN Close(r, x, I(0), P2N(-44)) ELSE TRUE)                 \* acos(cos x)
      [] OTHER -> TRUE
(* additional requirement on a single evaluation: sqrt(x)^2 is x up to rounding *)
PointExtra(f, a, r) ==
    IF f = "sqrt" /\ IsFinite(a[1]) /\ Lt(I(0), a[1]) /\ Le(P2N(-1000), a[1]) THEN Close(NumMul(r, r), a[1], P2N(-50), I(0))
    ELSE TRUE
=============================================================================
