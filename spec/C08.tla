-------------------------------- MODULE C08 ---------------------------------
(* Generator and state machine for property C08 (arrays).                    *)
(*                                                                           *)
(* Fams = {"hist"}: the array exotic object as a state machine.  The state is   *)
(* the abstract heap with one array (object 3); the actions assign / define  *)
(* / delete properties named by canonical and non-canonical index strings    *)
(* and "length", freeze/seal/preventExtensions and push/pop.  TLC checks the *)
(* invariant LengthAboveIndices and the action properties below on the       *)
(* model and prints every transition (path, step, expected outcome).         *)
(*                                                                           *)
(* Every other member of Fams is a family of method cases: a block is one    *)
(* (family, receiver), its successors are the calls of the family; the invariant Emit prints the     *)
(* case recipe and the outcome the specification (Arr.tla) computes.         *)
EXTENDS Val, Json, TLC, SequencesExt, Randomization
CONSTANTS OpenDev, Fams, NSel, MaxLen, Deep
VARIABLES blk, cs, heap, hist

S == INSTANCE ArrCase WITH Dev <- {}
L == INSTANCE ArrCase WITH Dev <- OpenDev

-----------------------------------------------------------------------------
(* values                                                                    *)
Pow2(k) == Canon(FALSE, <<1>>, k)
U32Max == NumSub(Pow2(32), I(1))            \* 4294967295
Half == Canon(FALSE, <<1>>, -1)
Str1(a) == StrV(<<a>>)
S_dash == <<45>>
V1 == IntV(1)
V2 == IntV(2)
V7 == IntV(7)
V8 == IntV(8)
V9 == IntV(9)

(* the numeric / odd argument values of the property statement *)
ArgVals == {Undef, NumV(NaN), NumV(NInf), IntV(-4), IntV(-1), NumV(NumNeg(Half)), IntV(0), NumV(Half), IntV(1), IntV(2),
            IntV(3), IntV(4), NumV(PInf), StrV(<<49>>), NumV(U32Max), NumV(Pow2(32))}
ArgValsSmall == {Undef, IntV(-1), IntV(0), IntV(1), IntV(2), IntV(5), NumV(NInf)}

-----------------------------------------------------------------------------
(* receivers                                                                 *)
El(v) == [h |-> FALSE, v |-> v, w |-> TRUE, e |-> TRUE, c |-> TRUE]
Hole == [h |-> TRUE]
ArrR(elems) == [cls |-> "Array", elems |-> elems, extra |-> <<>>, len |-> [k |-> "auto"], lw |-> TRUE,
                ext |-> "ext", inh |-> <<>>]
ObjR(elems, len) == [cls |-> "Object", elems |-> elems, extra |-> <<>>, len |-> len, lw |-> TRUE,
                     ext |-> "ext", inh |-> <<>>]
LenSet(v) == [k |-> "set", v |-> v, w |-> TRUE]
NoLen == [k |-> "auto"]

Elts == {El(V1), El(V2), Hole}
MaxN == IF Deep THEN 4 ELSE 3
PlainElems == UNION {[1..n -> Elts] : n \in 0..MaxN}
PlainArrays == {ArrR(e) : e \in PlainElems}

Bases == {<<El(V1), El(V2)>>, <<El(V1), Hole, El(V2)>>, <<Hole, El(V1)>>, <<El(V1), El(V2), El(V1)>>, <<Hole, Hole>>, <<>>}
                \cup (IF Deep THEN {<<El(V2), Hole, Hole, El(V1)>>, <<Hole, El(V1), El(V2), Hole>>} ELSE {})
SetAttr(elems, i, f, b) == [elems EXCEPT ![i] = [@ EXCEPT ![f] = b]]
NameOfIdx(i) == StrV(DigitsNat(i))
S_P == <<80>>
Variants(b) ==
    {[ArrR(b) EXCEPT !.lw = FALSE]}
    \cup {[ArrR(b) EXCEPT !.ext = x] : x \in {"nonext", "sealed", "frozen"}}
    \cup {ArrR(SetAttr(b, i, f, FALSE)) : i \in {j \in 1..Len(b) : ~b[j].h}, f \in {"w", "e", "c"}}
    \cup {[ArrR(b) EXCEPT !.inh = <<[n |-> NameOfIdx(i - 1), v |-> StrV(S_P)]>>] : i \in {j \in 1..Len(b) : b[j].h}}
    \cup {[ArrR(b) EXCEPT !.inh = <<[n |-> NameOfIdx(Len(b)), v |-> StrV(S_P)]>>]}     \* inherited AT length
VariantArrays == UNION {Variants(b) : b \in Bases}

LikeLens == {NoLen, LenSet(NumV(NumAdd(I(1), Half))), LenSet(StrV(<<50>>)), LenSet(NumV(NumAdd(Pow2(32), I(1)))),
             LenSet(IntV(3)), LenSet(IntV(1)), LenSet(IntV(0)), LenSet(Undef), [k |-> "set", v |-> IntV(2), w |-> FALSE]}
ArrayLikes == {ObjR(b, l) : b \in Bases, l \in LikeLens}
                \cup {[ObjR(b, LenSet(IntV(2))) EXCEPT !.inh = <<[n |-> NameOfIdx(1), v |-> StrV(S_P)]>>] : b \in {<<El(V1)>>, <<Hole, Hole>>}}
                \cup {[ObjR(b, LenSet(IntV(2))) EXCEPT !.ext = x] : b \in {<<El(V1), El(V2)>>, <<Hole, El(V1)>>}, x \in {"nonext", "frozen"}}

(* auxiliary objects of a case: 4 = the array [7, , ] (trailing hole), 5 = the array-like {0:"x", length:1}, *)
(* 6 = a plain object used as thisArg                                                                            *)
S_x1 == <<120>>
Aux == <<ArrR(<<El(V7), Hole>>), ObjR(<<El(StrV(S_x1))>>, LenSet(IntV(1))), ObjR(<<>>, NoLen)>>
Ref(i) == [t |-> "ref", id |-> i]
NeedsAux(args) == \E i \in 1..Len(args) : args[i].t = "ref" /\ args[i].id > 3      \* built only for the calls that mention them

-----------------------------------------------------------------------------
(* calls                                                                     *)
C(m, args) == [m |-> m, args |-> args]
Lists2(Vs) == {<<>>} \cup {<<a>> : a \in Vs} \cup {<<a, b>> : a \in Vs, b \in Vs}

SliceCalls(Vs) == {C("slice", s) : s \in Lists2(Vs)}
SpliceCalls(Vs) == {C("splice", s) : s \in Lists2(Vs)}
                   \cup {C("splice", <<a, b>> \o it) : a \in Vs, b \in Vs, it \in {<<V9>>, <<V9, V8>>}}
IndexCalls(Vs) == {C(m, <<x>>) : m \in {"indexOf", "lastIndexOf"}, x \in {V1, V2, Undef}}
                  \cup {C(m, <<x, f>>) : m \in {"indexOf", "lastIndexOf"}, x \in {V1, V2, Undef, StrV(S_P)}, f \in Vs}
                  \cup {C(m, <<>>) : m \in {"indexOf", "lastIndexOf"}}

CmpAsc == [t |-> "cmp", k |-> "numasc"]
CmpDesc == [t |-> "cmp", k |-> "numdesc"]
SimpleCalls ==
    {C("push", a) : a \in {<<>>, <<V9>>, <<V9, V8>>}} \cup {C("unshift", a) : a \in {<<>>, <<V9>>, <<V9, V8>>}}
    \cup {C(m, <<>>) : m \in {"pop", "shift", "reverse", "toString"}} \cup {C("toString", <<StrV(S_dash)>>)}
    \cup {C("join", a) : a \in {<<>>, <<Undef>>, <<StrV(S_dash)>>, <<StrV(<<>>)>>, <<Null>>, <<V1>>}}
    \cup {C("concat", a) : a \in {<<>>, <<V9>>, <<Ref(4)>>, <<Ref(5)>>, <<Ref(4), V9, Ref(4)>>, <<Undef>>, <<Ref(3)>>}}

(* sort is judged on receivers for which 15.4.4.11 fixes the result *)
Sortable(r) == /\ r.ext = "ext" /\ r.inh = <<>> /\ r.lw /\ r.extra = <<>>
               /\ \A i \in 1..Len(r.elems) : r.elems[i].h \/ (r.elems[i].w /\ r.elems[i].e /\ r.elems[i].c /\ r.elems[i].v.t # "cobj")
               /\ (r.cls = "Array" \/ r.len.k = "auto" \/ (r.len.w /\ r.len.v.t = "num"))
SortCallsNum == {C("sort", a) : a \in {<<>>, <<Undef>>, <<CmpAsc>>, <<CmpDesc>>}}
SortCallsStr == {C("sort", a) : a \in {<<>>, <<Undef>>}}
SortEltsMixed == {El(IntV(2)), El(IntV(10)), El(StrV(S_b)), El(Undef), Hole, El(V1)}
SortEltsNum == {El(IntV(2)), El(IntV(10)), El(Undef), Hole, El(V1), El(IntV(-3))}
SortN == IF Deep THEN 5 ELSE 4
(* TLC evaluates every constant definition at start-up: the large ones are guarded by the families that use them *)
SortRecvMixed == IF "sortstr" \in Fams THEN {ArrR(e) : e \in UNION {[1..n -> SortEltsMixed] : n \in 0..SortN}} ELSE {}
SortRecvNum == IF "sortnum" \in Fams THEN {ArrR(e) : e \in UNION {[1..n -> SortEltsNum] : n \in 0..SortN}} ELSE {}

(* callbacks *)
CbConst(v) == [t |-> "cb", k |-> "const", v |-> v]
CbEven(ip) == [t |-> "cb", k |-> "even", ip |-> ip]
CbArg(i) == [t |-> "cb", k |-> "arg", i |-> i]
CbSum == [t |-> "cb", k |-> "sum"]
CbThrowAt(at, v) == [t |-> "cb", k |-> "throwat", at |-> at, v |-> v]
CbMut(at, m, v) == [t |-> "cb", k |-> "mut", at |-> at, m |-> m, v |-> v]
MutPush == [op |-> "push", v |-> V9]
MutDel1 == [op |-> "del", p |-> StrV(<<49>>)]
MutLen1 == [op |-> "setlen", v |-> IntV(1)]
MutPut2 == [op |-> "put", p |-> StrV(<<50>>), v |-> V7]
Muts == {MutPush, MutDel1, MutLen1, MutPut2}
IterCbs == {CbConst(BoolV(TRUE)), CbConst(Undef), CbEven(2), CbArg(1), CbSum,
            CbThrowAt(2, BoolV(TRUE)), CbThrowAt(1, BoolV(FALSE))}
           \cup {CbMut(1, m, v) : m \in Muts, v \in {BoolV(TRUE), BoolV(FALSE)}}
ReduceCbs == {CbArg(1), CbArg(2), CbArg(3), CbSum, CbThrowAt(2, V1), CbConst(Undef)}
             \cup {CbMut(1, m, V1) : m \in Muts}
NotCallable == {Undef, V1, Ref(6)}
IterMethods == {"every", "some", "forEach", "map", "filter"}
IterCalls ==
    {C(m, <<cb>>) : m \in IterMethods, cb \in IterCbs} \cup {C(m, <<cb, Ref(6)>>) : m \in IterMethods, cb \in IterCbs}
    \cup {C(m, <<x>>) : m \in IterMethods \cup {"reduce", "reduceRight"}, x \in NotCallable}
    \cup {C(m, <<>>) : m \in IterMethods \cup {"reduce", "reduceRight"}}
    \cup {C(m, <<cb>>) : m \in {"reduce", "reduceRight"}, cb \in ReduceCbs}
    \cup {C(m, <<cb, i>>) : m \in {"reduce", "reduceRight"}, cb \in ReduceCbs, i \in {IntV(100), Undef}}

(* conversions whose order and number is observable: scripted conversion objects *)
RetP(v) == [k |-> "ret", v |-> v]
Inh == [k |-> "inherit"]
CO(id, vo, ts) == [t |-> "cobj", id |-> id, vo |-> vo, ts |-> ts]
CoNum(id, n) == CO(id, RetP(IntV(n)), RetP(StrV(<<120>>)))        \* valueOf returns n
CoThrow(id) == CO(id, [k |-> "throw"], [k |-> "throw"])
CoStr(id, u) == CO(id, RetP(IntV(0)), RetP(StrV(<<u>>)))           \* toString returns the one-unit string
ConvRecv == {ObjR(<<El(V1), El(V2)>>, LenSet(CoNum(1, 2))), ObjR(<<El(V1), El(V2)>>, LenSet(CoThrow(1))),
             ObjR(<<El(V1)>>, LenSet(CoNum(1, 0))),
             ObjR(<<El(CoStr(1, 97)), El(CoThrow(7)), El(CoStr(8, 98))>>, LenSet(IntV(3))),
             ObjR(<<El(CoStr(1, 97)), Hole, El(CoStr(8, 98))>>, LenSet(CoNum(7, 3))),
             ArrR(<<El(V1), El(V2), El(V1)>>)}
ConvCalls ==
    {C(m, <<x>>) : m \in IterMethods \cup {"reduce", "reduceRight"}, x \in {Undef, CbConst(BoolV(TRUE))}}
    \cup {C("join", a) : a \in {<<>>, <<CoStr(2, 45)>>, <<CoThrow(2)>>}}
    \cup {C(m, <<CoNum(2, 1), CoNum(3, 2)>>) : m \in {"slice", "splice"}}
    \cup {C(m, <<CoThrow(2), CoNum(3, 2)>>) : m \in {"slice", "splice"}}
    \cup {C(m, <<CoNum(2, 0), CoThrow(3)>>) : m \in {"slice", "splice"}}
    \cup {C(m, <<V1, CoNum(2, 0)>>) : m \in {"indexOf", "lastIndexOf"}}
    \cup {C(m, <<V1, CoThrow(2)>>) : m \in {"indexOf", "lastIndexOf"}}
    \cup {C(m, <<CoNum(2, 1)>>) : m \in {"indexOf", "lastIndexOf", "push", "unshift", "concat"}}
    \cup {C(m, <<>>) : m \in {"pop", "shift", "reverse", "toString", "push", "unshift", "sort"}}

(* lengths at the uint32 boundary: only methods that do not loop over length *)
BigName == StrV(<<52, 50, 57, 52, 57, 54, 55, 50, 57, 52>>)         \* "4294967294"
BigRecv == {[ArrR(<<>>) EXCEPT !.extra = <<[n |-> BigName, v |-> V1]>>],
            [ArrR(<<El(V1)>>) EXCEPT !.len = LenSet(NumV(U32Max))],
            [ArrR(<<>>) EXCEPT !.len = LenSet(NumV(NumSub(U32Max, I(1))))],
            ObjR(<<El(V1)>>, LenSet(NumV(U32Max))), ObjR(<<El(V1)>>, LenSet(NumV(Pow2(32)))),
            [ObjR(<<>>, LenSet(NumV(NumSub(Pow2(32), I(2))))) EXCEPT !.extra = <<[n |-> BigName, v |-> V1]>>],
            ObjR(<<El(V1)>>, LenSet(NumV(Pow2(53)))), ObjR(<<El(V1)>>, LenSet(NumV(PInf))),
            ObjR(<<El(V1)>>, LenSet(IntV(-1))), ObjR(<<El(V1)>>, LenSet(IntV(-2)))}
BigCalls == {C("push", a) : a \in {<<>>, <<V9>>, <<V9, V8>>}} \cup {C("pop", <<>>)}

(* primitive receivers (generic calls: O = ToObject(this) once) and primitive thisArg values: what the     *)
(* callback receives as its object argument (class, primitive value, the same object at every call) and as *)
(* this (global object for undefined/null, a wrapper for other primitives)                                 *)
PrimR(v, inh) == [cls |-> "prim", v |-> v, inh |-> inh]
S_ab == <<97, 98>>
S_n == <<110>>
PrimRecv == {PrimR(StrV(S_ab), <<>>), PrimR(StrV(<<97>>), <<>>), PrimR(StrV(<<>>), <<>>), PrimR(StrV(<<97, 98, 97>>), <<>>),
             PrimR(IntV(5), <<>>), PrimR(IntV(5), <<[n |-> StrV(S_length), v |-> IntV(2)], [n |-> StrV(<<48>>), v |-> StrV(S_n)]>>),
             PrimR(BoolV(FALSE), <<>>), PrimR(BoolV(TRUE), <<[n |-> StrV(S_length), v |-> IntV(2)], [n |-> StrV(<<49>>), v |-> StrV(S_n)]>>),
             ArrR(<<El(V1), El(V2)>>), ObjR(<<El(V1), Hole, El(V2)>>, LenSet(IntV(3)))}
PrimThis == {Undef, Null, IntV(5), StrV(<<116>>), BoolV(FALSE), NumV(NaN)}
PrimIterCbs == {CbConst(BoolV(TRUE)), CbConst(Undef), CbArg(3), CbEven(2), CbThrowAt(2, BoolV(TRUE))}
PrimReduceCbs == {CbArg(1), CbArg(2), CbArg(4), CbSum, CbThrowAt(2, V1)}
PrimCalls ==
    {C(m, <<cb>>) : m \in IterMethods, cb \in PrimIterCbs}
    \cup {C(m, <<cb, T>>) : m \in IterMethods, cb \in PrimIterCbs, T \in PrimThis}
    \cup {C(m, <<cb>>) : m \in {"reduce", "reduceRight"}, cb \in PrimReduceCbs}
    \cup {C(m, <<cb, IntV(100)>>) : m \in {"reduce", "reduceRight"}, cb \in PrimReduceCbs}
    \cup {C(m, <<x>>) : m \in IterMethods \cup {"reduce", "reduceRight"}, x \in {Undef, V1}}
    \cup {C("join", a) : a \in {<<>>, <<StrV(S_dash)>>}} \cup {C("slice", a) : a \in {<<>>, <<V1>>, <<IntV(-1)>>}}
    \cup {C(m, <<x>>) : m \in {"indexOf", "lastIndexOf"}, x \in {StrV(<<97>>), StrV(S_n), V1}}

(* the constructor and Array.isArray; the receiver is irrelevant *)
CtorCalls == {C(m, a) : m \in {"Array", "newArray"}, a \in {<<>>, <<V1, V2>>, <<Undef, V1, Null>>}}
             \cup {C(m, <<a>>) : m \in {"Array", "newArray"}, a \in ArgVals \cup {Null, BoolV(TRUE), StrV(<<51>>), IntV(5), NumV(NZero), Ref(4), Ref(6)}}
             \cup {C("isArray", <<a>>) : a \in {Ref(3), Ref(4), Ref(5), Ref(6), V1, Undef, Null, StrV(<<>>)}} \cup {C("isArray", <<>>)}
CtorRecv == {ArrR(<<El(V1)>>), ObjR(<<El(V1)>>, LenSet(IntV(1)))}

-----------------------------------------------------------------------------
(* families: receivers x calls.  Each sequence is a zero-arity constant definition so that TLC  *)
(* evaluates it once.                                                                         *)
AllArrays == PlainArrays \cup VariantArrays
R_plain   == IF "slice" \in Fams \/ "splice" \in Fams THEN SetToSeq(PlainArrays) ELSE <<>>
R_all     == IF "index" \in Fams \/ "simple" \in Fams \/ "iter" \in Fams THEN SetToSeq(AllArrays \cup ArrayLikes) ELSE <<>>
R_var     == IF "range2" \in Fams THEN SetToSeq(VariantArrays \cup ArrayLikes) ELSE <<>>
R_sortnum == IF "sortnum" \in Fams THEN SetToSeq(SortRecvNum) ELSE <<>>
R_sortstr == IF "sortstr" \in Fams THEN SetToSeq(SortRecvMixed \cup {r \in ArrayLikes : Sortable(r)}) ELSE <<>>
R_conv    == SetToSeq(ConvRecv)
R_big     == SetToSeq(BigRecv)
R_ctor    == SetToSeq(CtorRecv)
R_prim    == SetToSeq(PrimRecv)
C_slice   == IF "slice" \in Fams THEN SetToSeq(SliceCalls(ArgVals)) ELSE <<>>
C_splice  == IF "splice" \in Fams THEN SetToSeq(SpliceCalls(ArgVals)) ELSE <<>>
C_index   == IF "index" \in Fams THEN SetToSeq(IndexCalls(ArgVals)) ELSE <<>>
C_range2  == IF "range2" \in Fams THEN SetToSeq(SliceCalls(ArgValsSmall) \cup SpliceCalls(ArgValsSmall)) ELSE <<>>
C_simple  == IF "simple" \in Fams THEN SetToSeq(SimpleCalls) ELSE <<>>
C_sortnum == SetToSeq(SortCallsNum)
C_sortstr == SetToSeq(SortCallsStr)
C_iter    == IF "iter" \in Fams THEN SetToSeq(IterCalls) ELSE <<>>
C_conv    == IF "conv" \in Fams THEN SetToSeq(ConvCalls) ELSE <<>>
C_big     == SetToSeq(BigCalls)
C_ctor    == SetToSeq(CtorCalls)
C_prim    == SetToSeq(PrimCalls)
RecvOf(f) ==
    CASE f = "slice" -> R_plain [] f = "splice" -> R_plain [] f = "index" -> R_all [] f = "range2" -> R_var
      [] f = "simple" -> R_all [] f = "sortnum" -> R_sortnum [] f = "sortstr" -> R_sortstr [] f = "iter" -> R_all
      [] f = "conv" -> R_conv [] f = "big" -> R_big [] f = "ctor" -> R_ctor [] f = "prim" -> R_prim
CallsOf(f) ==
    CASE f = "slice" -> C_slice [] f = "splice" -> C_splice [] f = "index" -> C_index [] f = "range2" -> C_range2
      [] f = "simple" -> C_simple [] f = "sortnum" -> C_sortnum [] f = "sortstr" -> C_sortstr [] f = "iter" -> C_iter
      [] f = "conv" -> C_conv [] f = "big" -> C_big [] f = "ctor" -> C_ctor [] f = "prim" -> C_prim
Blocks == UNION {{<<f, i>> : i \in 1..Len(RecvOf(f))} : f \in Fams \ {"hist"}}

-----------------------------------------------------------------------------
(* the state machine                                                         *)
N(s) == StrV(s)
IdxNames == {N(<<48>>), N(<<49>>), N(<<50>>), N(<<48, 49>>), N(<<43, 49>>), N(<<49, 46, 48>>), N(<<49, 101, 48>>), N(<<45, 48>>),
             N(<<52, 50, 57, 52, 57, 54, 55, 50, 57, 52>>), N(<<52, 50, 57, 52, 57, 54, 55, 50, 57, 53>>),
             N(<<52, 50, 57, 52, 57, 54, 55, 50, 57, 54>>), N(<<32, 49>>)}
   \* "0" "1" "2" "01" "+1" "1.0" "1e0" "-0" "4294967294" "4294967295" "4294967296" " 1"
LenName == N(S_length)
LenVals == {IntV(0), IntV(1), IntV(2), IntV(3), NumV(U32Max), NumV(Pow2(32)), IntV(-1), NumV(NumAdd(I(1), Half)), NumV(NaN),
            StrV(<<50>>), StrV(<<120>>), BoolV(TRUE), Null, Undef, NumV(NZero), StrV(<<50, 46, 48>>),
            CoNum(1, 2), CoThrow(2), CO(3, RetP(NumV(NumAdd(I(1), Half))), RetP(StrV(<<120>>))), CO(4, RetP(StrV(<<49>>)), Inh)}
   \* the last four: objects whose valueOf returns 2 / throws / returns 1.5 / returns "1" (15.4.5.1 3.c-d convert twice)
DD(v, w, e, c) == S!FullDataDesc(v, w, e, c)
ED == S!EmptyDesc
ElemDescs == {DD(V1, TRUE, TRUE, TRUE), DD(V2, FALSE, TRUE, TRUE), DD(V1, TRUE, TRUE, FALSE), DD(V2, TRUE, FALSE, TRUE),
              S!ValueDesc(V2), [ED EXCEPT !.hw = TRUE, !.w = FALSE], [ED EXCEPT !.hc = TRUE, !.c = FALSE]}
LenDescs == {S!ValueDesc(v) : v \in {IntV(0), IntV(1), IntV(2), IntV(3), NumV(U32Max), IntV(-1), StrV(<<120>>)}}
            \cup {[ED EXCEPT !.hv = TRUE, !.v = v, !.hw = TRUE, !.w = w] : v \in {IntV(0), IntV(1), IntV(2)}, w \in BOOLEAN}
            \cup {[ED EXCEPT !.hw = TRUE, !.w = w] : w \in BOOLEAN}
            \cup {[ED EXCEPT !.he = TRUE, !.e = TRUE], [ED EXCEPT !.hc = TRUE, !.c = TRUE], [ED EXCEPT !.hc = TRUE, !.c = FALSE], ED}
            \cup {S!ValueDesc(CoNum(5, 1)), [ED EXCEPT !.hv = TRUE, !.v = CoNum(6, 0), !.hw = TRUE, !.w = FALSE]}
   \* (every scripted object has its own id: the harness identifies them by id within one history)

HistActions ==
    {[op |-> "assign", n |-> n, v |-> v] : n \in IdxNames, v \in {V1, V2}}
    \cup {[op |-> "assign", n |-> LenName, v |-> v] : v \in LenVals}
    \cup {[op |-> "define", n |-> n, d |-> d] : n \in IdxNames, d \in ElemDescs}
    \cup {[op |-> "define", n |-> LenName, d |-> d] : d \in LenDescs}
    \cup {[op |-> "delete", n |-> n] : n \in IdxNames \cup {LenName}}
    \cup {[op |-> x] : x \in {"freeze", "seal", "prevent"}}
    \cup {[op |-> "call", m |-> "push", args |-> <<V9>>], [op |-> "call", m |-> "pop", args |-> <<>>]}

(* the implementation's length truncation loops once per index between the  *)
(* old and the new length: a step that shrinks a length above 2^30 to a      *)
(* value below it would take minutes and is not generated                    *)
SetsLength(a) == a.op \in {"assign", "define"} /\ a.n = LenName
NewLenVal(a) == IF a.op = "assign" THEN a.v ELSE IF a.d.hv THEN a.d.v ELSE NumV(NaN)
NewLenOf(a) == LET v == NewLenVal(a)           \* a scripted object stands for what its valueOf returns
               IN  IF v.t # "cobj" THEN v ELSE IF v.vo.k = "ret" THEN v.vo.v ELSE NumV(NaN)
HugeShrink(H, a) ==
    /\ SetsLength(a)
    /\ S!ArrLen(H, 3).c = "big"
    /\ LET n == ToNumberPrim(NewLenOf(a)) IN n.c \in {"int", "nzero"} /\ NumCmp(n, I(0)) >= 0

None == [fam |-> "none"]
HistStep(a) ==
    LET rs == S!StepOutcome(heap, a)
        \* what the implementation with its known deviations does: the whole history is run with the
        \* deviating instance (its heap differs from the strict one once a deviation was exercised)
        rd == L!StepOutcome(L!RunPath(L!Mk(L!HistHeap0, <<>>), hist, 1).H, a)
    IN  /\ ~HugeShrink(heap, a)
        /\ heap' = rs.H
        /\ hist' = Append(hist, a)
        /\ UNCHANGED <<blk, cs>>
        /\ PrintT("VJSON " \o ToJson([c |-> [fam |-> "hist", n |-> Len(hist)],
                                        js |-> <<"RH(", [lit |-> [path |-> hist, step |-> a]], ")">>,
                                        exp |-> rs.out, dev |-> IF rd.out = rs.out THEN <<>> ELSE <<rd.out>>]))

-----------------------------------------------------------------------------
Sub(S0) == IF NSel = 0 \/ NSel >= Cardinality(S0) THEN S0 ELSE RandomSubset(NSel, S0)

Init == /\ cs = None /\ hist = <<>>
        /\ IF Fams = {"hist"} THEN blk = <<"hist", 0>> /\ heap = S!HistHeap0
           ELSE blk \in Blocks /\ heap = <<>>

Next == IF Fams = {"hist"}
        THEN Len(hist) < MaxLen /\ \E a \in HistActions : HistStep(a)
        ELSE /\ cs = None
             /\ UNCHANGED <<blk, heap, hist>>
             /\ LET calls == CallsOf(blk[1]) IN
                \E j \in (IF blk[1] \in {"prim", "ctor"} THEN 1..Len(calls) ELSE Sub(1..Len(calls))) :   \* small families are never sampled
                   cs' = [fam |-> blk[1], m |-> calls[j].m, args |-> calls[j].args,
                          objs |-> <<RecvOf(blk[1])[blk[2]]>> \o (IF NeedsAux(calls[j].args) THEN Aux ELSE <<>>)]

Applicable(c) == c.m # "sort" \/ (Sortable(c.objs[1]))

Emit ==
    cs = None \/ ~Applicable(cs) \/
    LET es == S!RunCall(cs)
        ed == L!RunCall(cs)
    IN  PrintT("VJSON " \o ToJson([c |-> [fam |-> cs.fam, m |-> cs.m], js |-> <<"RC(", [lit |-> cs], ")">>,
                                     exp |-> es, dev |-> IF ed = es THEN <<>> ELSE <<ed>>]))

(* the history is hidden from the fingerprint, its length is not: with several workers a heap can be *)
(* reached first through a longer path, and then it would not be expanded although a shorter path     *)
(* exists; with the length in the view every heap is expanded at every depth at which it occurs       *)
View == <<blk, cs, heap, Len(hist)>>
vars == <<blk, cs, heap, hist>>

-----------------------------------------------------------------------------
(* The guarantees the property names, checked on the model by TLC (hist).    *)
IdxOf(H) == S!OwnIndexNames(H, 3)
LenP(H) == S!OwnProp(H, 3, S_length)
IsHeap(H) == H # <<>>

(* the length of an array is greater than its largest index *)
LengthAboveIndices ==
    IsHeap(heap) => \A p \in IdxOf(heap) : NumCmp(IndexNum(p), LenP(heap).v.n) < 0

(* only canonical array-index strings are indices: a property whose name is not canonical never moves length *)
LengthIsUint32 ==
    IsHeap(heap) => LET n == LenP(heap).v.n IN ToUint32N(n) = n

(* a non-writable length never changes (value or attributes), and no index at or above it appears *)
NonWritableLengthStable ==
    [][(IsHeap(heap) /\ ~LenP(heap).w) =>
         /\ LenP(heap') = LenP(heap)
         /\ \A p \in IdxOf(heap') : NumCmp(IndexNum(p), LenP(heap).v.n) < 0]_vars

(* shrinking length deletes exactly the elements at or beyond the final length, and the final length is the  *)
(* requested one unless a non-configurable element stopped the truncation, in which case it is one above it  *)
ShrinkDeletesTail ==
    [][(IsHeap(heap) /\ NumCmp(LenP(heap').v.n, LenP(heap).v.n) < 0) =>
         LET new == LenP(heap').v.n
             a == hist'[Len(hist')]
         IN  /\ IdxOf(heap') = {p \in IdxOf(heap) : NumCmp(IndexNum(p), new) < 0}
             /\ (a.op = "call"
                 \/ (SetsLength(a) /\
                      LET r == ToNumberPrim(NewLenOf(a))
                      IN  /\ ~IsNaN(r)
                          /\ (NumCmp(r, new) = 0
                              \/ (\E p \in IdxOf(heap) : /\ NumAdd(IndexNum(p), I(1)) = new
                                                         /\ ~S!OwnProp(heap, 3, p).c
                                                         /\ NumCmp(r, new) < 0))))]_vars

(* elements change only as the step says: growing or keeping length never deletes anything *)
GrowKeepsElements ==
    [][(IsHeap(heap) /\ SetsLength(hist'[Len(hist')]) /\ NumCmp(LenP(heap').v.n, LenP(heap).v.n) >= 0) =>
         IdxOf(heap') = IdxOf(heap)]_vars
=============================================================================
