-------------------------------- MODULE C20 ---------------------------------
(* Property C20: runtimes are independent.  The architecture as a state      *)
(* machine: N runtimes execute the steps of programs held in ONE shared,     *)
(* immutable table of compiled scripts; a step of runtime r reads scripts    *)
(* and reads/writes rts[r] only.  TLC explores every interleaving and checks *)
(*   Independent      every runtime's state is the state of running its own  *)
(*                    program alone for pc[r] steps (the sequential meaning) *)
(*   ScriptImmutable  execution never changes the shared table               *)
(* and prints every complete schedule; the harness replays each schedule on  *)
(* real runtimes whose interpreter goroutines are gated at the polling hook, *)
(* and spec/C20J.tla judges each runtime's results with the sequential       *)
(* semantics (ES5Core).  What may be shared in the implementation is exactly *)
(* what is shared here: compiled nodes and package-level tables, read-only.  *)
EXTENDS Integers, Sequences, TLC, Json
CONSTANTS N, Steps
VARIABLES pc, rts, scripts, sched

Runtimes == 1..N
(* an abstract instruction set: enough for a state that depends on order *)
Script0 == [i \in 1..Steps |-> IF i % 2 = 1 THEN [op |-> "add", k |-> i] ELSE [op |-> "mul", k |-> i + 1]]
Exec(acc, ins) == IF ins.op = "add" THEN acc + ins.k ELSE acc * ins.k
RECURSIVE SeqExec(_, _, _)
SeqExec(s, n, acc) == IF n = 0 THEN acc ELSE Exec(SeqExec(s, n - 1, acc), s[n])

Init == /\ pc = [r \in Runtimes |-> 0]
        /\ rts = [r \in Runtimes |-> r]            \* runtimes start from different states
        /\ scripts = Script0
        /\ sched = <<>>

Step(r) == /\ pc[r] < Steps
           /\ pc' = [pc EXCEPT ![r] = @ + 1]
           /\ rts' = [rts EXCEPT ![r] = Exec(@, scripts[pc[r] + 1])]
           /\ sched' = Append(sched, r)
           /\ UNCHANGED scripts

Done == \A r \in Runtimes : pc[r] = Steps
Next == \E r \in Runtimes : Step(r)
vars == <<pc, rts, scripts, sched>>

Independent == \A r \in Runtimes : rts[r] = SeqExec(scripts, pc[r], r)
ScriptImmutable == [][scripts' = scripts]_vars
Emit == ~Done \/ PrintT("VJSON " \o ToJson([schedule |-> sched]))
=============================================================================
