------------------------------ MODULE LibShape ------------------------------
(* ES5.1 clause 15, "Standard Built-in ECMAScript Objects": the shape of the  *)
(* library.  The table itself (one record per object, one per own property)   *)
(* is LibShapeTab.tla, generated from a transcription of 15.1 - 15.12 (plus   *)
(* 10.6, 13.2 for the objects the language creates, Annex B.2 flagged).  This *)
(* module holds the RULES of clause 15 that apply "unless otherwise           *)
(* specified" and turns table entries into the observation a conforming       *)
(* implementation must show through the reflection API:                       *)
(*   typeof, Object.getOwnPropertyDescriptor, Object.getPrototypeOf (by path),*)
(*   Object.prototype.toString ([[Class]]), Object.isExtensible, for-in,      *)
(*   and the result of the distinguishing call of each function.              *)
(* Known deviations of otto are the D("D14_...") branches in LibShapeTab.     *)
(*                                                                            *)
(* All operators take the table as the argument tb (= Tab): a definition that *)
(* is reached through INSTANCE ... WITH is re-evaluated by TLC at every use,  *)
(* so the root module evaluates Tab once per instance and passes it down.     *)
EXTENDS LibShapeTab, FiniteSets

MkTab(objs, rows, forins) ==   \* (the probes of LibShapeTab!Probes are read directly: no mutation touches them)
    LET ids  == {objs[i].id : i \in 1..Len(objs)}
    IN  [objs |-> objs, rows |-> rows, forins |-> forins, ids |-> ids,
         oix  |-> [id \in ids |-> CHOOSE i \in 1..Len(objs) : objs[i].id = id],
         \* indexes of the rows of each owner, in table order
         own  |-> [id \in ids |-> SelectSeq([i \in 1..Len(rows) |-> i], LAMBDA i : rows[i].owner = id)]]
Tab == MkTab(Objs, Rows, ForIns)

Obj(tb, id) == tb.objs[tb.oix[id]]
OwnRows(tb, id) == [k \in 1..Len(tb.own[id]) |-> tb.rows[tb.own[id][k]]]

-----------------------------------------------------------------------------
(* Clause 15, introduction: the defaults *)

(* "Unless specified otherwise, the [[Class]] internal property of a built-in  *)
(*  object is "Function" if that built-in object has a [[Call]] internal       *)
(*  property, or "Object" if [it] does not"                                    *)
ClassOf(o) == IF o.cls # "" THEN o.cls ELSE IF o.callable THEN "Function" ELSE "Object"

(* "Every built-in function and every built-in constructor has the Function    *)
(*  prototype object ... as the value of its [[Prototype]] internal property." *)
(* "Unless otherwise specified every built-in prototype object has the Object  *)
(*  prototype object ... as the value of its [[Prototype]]"                    *)
ProtoOf(o) == IF o.proto # "" THEN o.proto ELSE IF o.callable THEN "Function.prototype" ELSE "Object.prototype"

(* "In every case, the length property of a built-in Function object described *)
(*  in this clause has the attributes {[[Writable]]: false, [[Enumerable]]:    *)
(*  false, [[Configurable]]: false}.  Every other property described in this   *)
(*  clause has the attributes {[[Writable]]: true, [[Enumerable]]: false,      *)
(*  [[Configurable]]: true} unless otherwise specified."                       *)
(* Value properties of the global object (15.1.1), the prototype property of   *)
(* every constructor (15.x.3.1), the value properties of Number and Math are   *)
(* "otherwise specified" as {false, false, false}: kinds constant(-object).    *)
DefaultAttrs(kind) ==
    IF kind \in {"constant", "constant-object", "length"} THEN <<"F", "F", "F">> ELSE <<"T", "F", "T">>
AttrsOf(r) == IF r.kind \in {"absent", "missing"} THEN <<>>
              ELSE IF r.kind = "thrower" THEN <<"-", "F", "F">>      \* 13.2.3 / 15.3.4.5 step 20-21: accessor, ~e, ~c
              ELSE IF r.attrs # <<>> THEN r.attrs ELSE DefaultAttrs(r.kind)

(* 11.4.3 the typeof operator *)
TypeOfVal(v) ==
    CASE v.t = "undef" -> "undefined" [] v.t = "null" -> "object" [] v.t = "bool" -> "boolean"
      [] v.t = "num" -> "number" [] v.t = "str" -> "string"
TypeOfObj(o) == IF o.callable THEN "function" ELSE "object"

-----------------------------------------------------------------------------
(* Expected observations *)

(* an own property: Object.getOwnPropertyDescriptor(owner, name), typeof, value *)
(* 8.12.5 [[Put]] (step 1 -> 8.12.4 [[CanPut]]: an own data property accepts   *)
(* the value iff it is [[Writable]]; outside strict code a rejected put is     *)
(* silent) and 8.12.7 [[Delete]] (removes the property iff [[Configurable]],   *)
(* otherwise answers false): the attributes are also observed by what they     *)
(* DO.  <<put takes effect, delete takes effect>>; the probe restores the      *)
(* property.  Not probed: array/string/arguments "length" and elements (their  *)
(* [[DefineOwnProperty]] is special: properties C07, C08).                     *)
BehKinds == {"function", "object", "constant", "constant-object", "length"}
BehExp(r) == IF r.kind \in BehKinds THEN <<AttrsOf(r)[1], AttrsOf(r)[3]>> ELSE <<>>

(* kinds "missing" (a property ES5 requires that the implementation lacks) and *)
(* "unlisted-object" (a property ES5 excludes whose value is some object) only *)
(* occur in named deviation branches                                          *)
Unlisted == [t |-> "ref", id |-> "?"]
RowExp(tb, r) ==
    IF r.kind \in {"absent", "missing"}
    THEN [own |-> "none", attrs |-> <<>>, ty |-> "undefined", val |-> [t |-> "none"], beh |-> <<>>]
    ELSE IF r.kind = "thrower"      \* both [[Get]] and [[Set]] are the [[ThrowTypeError]] function object (13.2.3)
    THEN [own |-> "acc", attrs |-> AttrsOf(r), ty |-> "accessor", val |-> [t |-> "acc", get |-> Unlisted, set |-> Unlisted], beh |-> <<>>]
    ELSE IF r.kind = "unlisted-function"    \* the value is a function object that has no path of its own
    THEN [own |-> "data", attrs |-> AttrsOf(r), ty |-> "function", val |-> Unlisted, beh |-> BehExp(r)]
    ELSE IF r.kind = "unlisted-object"
    THEN [own |-> "data", attrs |-> AttrsOf(r), ty |-> "object", val |-> Unlisted, beh |-> BehExp(r)]
    ELSE [own |-> "data", attrs |-> AttrsOf(r),
          ty  |-> IF r.target # "" THEN TypeOfObj(Obj(tb, r.target)) ELSE TypeOfVal(r.val),
          val |-> IF r.target # "" THEN [t |-> "ref", id |-> r.target]       \* identity with the object of that path
                  ELSE IF r.valmode = "type" THEN [t |-> "any"] ELSE r.val,
          beh |-> BehExp(r)]

(* the names ES5 gives the object as own properties *)
NamesOf(tb, id) ==
    LET rs == OwnRows(tb, id)
        pr == SelectSeq(rs, LAMBDA r : r.kind # "absent")
    IN  [k \in 1..Len(pr) |-> pr[k].name]

(* an object: typeof, [[Class]], [[Prototype]] (path), [[Extensible]]; every   *)
(* listed own property present; whatever the implementation adds (clause 16    *)
(* allows additional properties) not enumerable                               *)
MissingOf(tb, id) ==
    LET ms == SelectSeq(OwnRows(tb, id), LAMBDA r : r.kind = "missing")
    IN  [k \in 1..Len(ms) |-> ms[k].name]
(* clause 15: "None of the built-in functions described in this clause that   *)
(* are not constructors shall implement the [[Construct]] internal method";    *)
(* 11.2.2 step 5: new on such a function throws a TypeError                    *)
NewExp(o) == IF o.callable /\ ~o.ctor /\ o.grp \in {"lib", "annexB"} THEN "TypeError" ELSE "n/a"
ObjExp(tb, o) ==
    [ty |-> TypeOfObj(o), new |-> NewExp(o), cls |-> ClassOf(o), proto |-> ProtoOf(o), ext |-> o.ext,
     missing |-> MissingOf(tb, o.id), dupnames |-> <<>>, enumextra |-> <<>>, reflect |-> o.reflect]    \* 15.2.3.3: "ok", getOwnPropertyDescriptor answers for every own name
(* the distinguishing call of a function (or constructor, or callable/regexp   *)
(* prototype): its result is written in the table                              *)
CallExp(o) == o.callexp
(* 15.1: [[Class]] and [[Prototype]] of the global object are implementation-  *)
(* dependent and it "may have host defined properties": not compared           *)
ObjMask(o) == [cls |-> o.cls # "?", proto |-> o.proto # "?", enumextra |-> o.id # "global"]

(* 12.6.4 / 8.6.1 [[Enumerable]]: for-in lists the enumerable own properties   *)
(* and those of the prototype chain that are not shadowed.  The order is not   *)
(* specified (the harness sorts); table order is ascending for index names.    *)
RECURSIVE Chain(_, _, _)
Chain(tb, id, fuel) ==
    IF id \notin tb.ids \/ fuel = 0 THEN <<>>
    ELSE <<id>> \o Chain(tb, ProtoOf(Obj(tb, id)), fuel - 1)
EnumNames(tb, id) ==
    LET rs == SelectSeq(OwnRows(tb, id), LAMBDA r : r.kind \notin {"absent", "missing"} /\ AttrsOf(r)[2] = "T")
    IN  [k \in 1..Len(rs) |-> rs[k].name]
RECURSIVE ForInAcc(_, _, _, _, _)
ForInAcc(tb, ch, k, seen, acc) ==
    IF k > Len(ch) THEN acc
    ELSE LET en   == SelectSeq(EnumNames(tb, ch[k]), LAMBDA n : n \notin seen)
             nm   == NamesOf(tb, ch[k])
             all  == {nm[j] : j \in 1..Len(nm)}
         IN  ForInAcc(tb, ch, k + 1, seen \cup all, acc \o en)
ForInExp(tb, id) == ForInAcc(tb, Chain(tb, id, 6), 1, {}, <<>>)

-----------------------------------------------------------------------------
RowAt(tb, owner, name) ==
    LET s == SelectSeq(OwnRows(tb, owner), LAMBDA r : r.name = name) IN s
HasRow(tb, owner, name) == Len(RowAt(tb, owner, name)) = 1


(* Runtimes are independent (the statement: the shape holds in every runtime,  *)
(* fresh, copied, copy of a copy, whatever scripts ran in ANOTHER runtime).    *)
(* A script that changes the library structurally in ONE runtime of a group    *)
(* {original, copy, copy of the copy} is described here as an operation on the *)
(* table: the runtime that ran it must show MutTab(tb), every other runtime of *)
(* the group, and every Copy() taken from them afterwards, still tb.           *)
(*   8.12.7 [[Delete]] of a configurable property: it is gone (each victim is  *)
(*          NOT the last own property of its owner);                           *)
(*   8.12.5 [[Put]] of a new name: a data property {w, e, c};                  *)
(*   8.12.5 [[Put]] on an existing writable property: value replaced,          *)
(*          attributes kept;  8.12.9 [[DefineOwnProperty]]: as given.          *)
MutDels == << <<"Math", "abs">>, <<"JSON", "parse">>, <<"Object", "defineProperties">>,
              <<"Array.prototype", "concat">>, <<"String.prototype", "charAt">>, <<"global", "parseFloat">>,
              <<"Date.prototype", "getYear">> >>
MutAdds == << [owner |-> "Math", name |-> "zzAdded", js |-> "1", val |-> IntV(1)],
              [owner |-> "JSON", name |-> "zzAdded", js |-> "'x'", val |-> StrV(<<120>>)],
              [owner |-> "Array", name |-> "zzAdded", js |-> "true", val |-> BoolV(TRUE)] >>
MutPuts == << [owner |-> "Math", name |-> "floor", target |-> "Math.ceil"] >>            \* Math.floor = Math.ceil
MutDefs == << [owner |-> "String.prototype", name |-> "trim", js |-> "5", val |-> IntV(5), attrs |-> <<"F", "F", "T">>] >>
OwnerJs(id) == IF id = "global" THEN "GLOBAL" ELSE id
TF(a) == IF a = "T" THEN "true" ELSE "false"
RECURSIVE MutJs(_, _)
MutJs(part, k) ==
    CASE part = "del" -> IF k > Len(MutDels) THEN MutJs("add", 1)
                         ELSE "delete " \o OwnerJs(MutDels[k][1]) \o "['" \o MutDels[k][2] \o "']; " \o MutJs("del", k + 1)
      [] part = "add" -> IF k > Len(MutAdds) THEN MutJs("put", 1)
                         ELSE OwnerJs(MutAdds[k].owner) \o "['" \o MutAdds[k].name \o "'] = " \o MutAdds[k].js \o "; " \o MutJs("add", k + 1)
      [] part = "put" -> IF k > Len(MutPuts) THEN MutJs("def", 1)
                         ELSE OwnerJs(MutPuts[k].owner) \o "['" \o MutPuts[k].name \o "'] = " \o MutPuts[k].target \o "; " \o MutJs("put", k + 1)
      [] part = "def" -> IF k > Len(MutDefs) THEN ""
                         ELSE LET d == MutDefs[k] IN
                              "Object.defineProperty(" \o OwnerJs(d.owner) \o ", '" \o d.name \o "', {value: " \o d.js
                              \o ", writable: " \o TF(d.attrs[1]) \o ", enumerable: " \o TF(d.attrs[2]) \o ", configurable: " \o TF(d.attrs[3])
                              \o "}); " \o MutJs("def", k + 1)
MutScript == MutJs("del", 1)
MutRow(r) ==
    IF \E k \in 1..Len(MutDels) : MutDels[k] = <<r.owner, r.name>>
    THEN [r EXCEPT !.kind = "absent", !.target = "", !.val = Undef, !.attrs = <<>>]
    ELSE IF \E k \in 1..Len(MutPuts) : MutPuts[k].owner = r.owner /\ MutPuts[k].name = r.name
    THEN LET p == MutPuts[CHOOSE k \in 1..Len(MutPuts) : MutPuts[k].owner = r.owner /\ MutPuts[k].name = r.name]
         IN  [r EXCEPT !.target = p.target]
    ELSE IF \E k \in 1..Len(MutDefs) : MutDefs[k].owner = r.owner /\ MutDefs[k].name = r.name
    THEN LET d == MutDefs[CHOOSE k \in 1..Len(MutDefs) : MutDefs[k].owner = r.owner /\ MutDefs[k].name = r.name]
         IN  [r EXCEPT !.kind = "value", !.target = "", !.val = d.val, !.attrs = d.attrs, !.valmode = "exact"]
    ELSE r
AddedRows == [k \in 1..Len(MutAdds) |->
                [owner |-> MutAdds[k].owner, name |-> MutAdds[k].name, kind |-> "element", attrs |-> <<"T", "T", "T">>,
                 target |-> "", val |-> MutAdds[k].val, valmode |-> "exact", clause |-> "8.12.5 step 6"]]
MutTab(tb) == MkTab(tb.objs, [k \in 1..Len(tb.rows) |-> MutRow(tb.rows[k])] \o AddedRows, tb.forins)
(* the mutation is what it says: every victim is a configurable property of the table that is not the last  *)
(* row of its owner, every added name is new, every redefined one exists and is writable / configurable     *)
MutOK(tb) ==
    /\ \A k \in 1..Len(MutDels) :
          LET rs == RowAt(tb, MutDels[k][1], MutDels[k][2]) IN
          Len(rs) = 1 /\ AttrsOf(rs[1])[3] = "T" /\ tb.rows[tb.own[MutDels[k][1]][Len(tb.own[MutDels[k][1]])]].name # MutDels[k][2]
    /\ \A k \in 1..Len(MutAdds) : ~HasRow(tb, MutAdds[k].owner, MutAdds[k].name)
    /\ \A k \in 1..Len(MutPuts) : HasRow(tb, MutPuts[k].owner, MutPuts[k].name) /\ AttrsOf(RowAt(tb, MutPuts[k].owner, MutPuts[k].name)[1])[1] = "T"
    /\ \A k \in 1..Len(MutDefs) : HasRow(tb, MutDefs[k].owner, MutDefs[k].name) /\ AttrsOf(RowAt(tb, MutDefs[k].owner, MutDefs[k].name)[1])[3] = "T"

-----------------------------------------------------------------------------
(* Internal consistency of the table: what clause 15 says of all its entries  *)

(* the set of entries that break a rule; TableOK = there is none *)
RowIssues(tb, r) ==
    {m \in {"owner", "target", "kind", "function-attrs", "constant-attrs", "length-row", "enumerable", "target-kind"} :
        CASE m = "owner" -> r.owner \notin tb.ids
          [] m = "target" -> ~(r.target = "" \/ r.target \in tb.ids)
          [] m = "kind" -> r.kind \notin {"function", "constant", "constant-object", "length", "value", "object", "element", "absent", "thrower", "unlisted-function"}
          \* every function-valued property: {writable, ~enumerable, configurable}, value callable
          [] m = "function-attrs" -> r.kind = "function" /\ ~(AttrsOf(r) = <<"T", "F", "T">> /\ Obj(tb, r.target).callable)
          \* constants, constructor.prototype, function length: {~w, ~e, ~c}
          [] m = "constant-attrs" -> r.kind \in {"constant", "constant-object", "length"} /\ AttrsOf(r) # <<"F", "F", "F">>
          [] m = "length-row" -> r.kind = "length" /\ ~(r.name = "length" /\ r.val.t = "num" /\ r.val.n.c = "int" /\ r.val.n.v >= 0)
          \* nothing the library defines is enumerable; only array elements, string indices, arguments indices are
          [] m = "enumerable" -> r.kind \notin {"element", "absent", "unlisted-function"} /\ AttrsOf(r)[2] # "F"
          [] m = "target-kind" -> (r.kind \in {"function", "object", "constant-object"}) # (r.target # "")}
ObjIssues(tb, o) ==
    {m \in {"proto", "via", "reach", "fn-length", "ctor-link", "no-prototype", "call", "chain", "forin"} :
        CASE m = "proto" -> ProtoOf(o) \notin tb.ids \cup {"null", "?"}
          [] m = "via" -> ~(o.vo = "" \/ (o.vo \in tb.ids /\ HasRow(tb, o.vo, o.vn)))
          [] m = "reach" -> (o.vo = "") = (o.js = "")
          \* every built-in function object has a length
          [] m = "fn-length" -> o.callable /\ o.id # "i:hostFunction" /\
                  ~(HasRow(tb, o.id, "length") /\ RowAt(tb, o.id, "length")[1].kind = "length")
          \* C.prototype.constructor = C for every constructor of the library
          [] m = "ctor-link" -> o.ctor /\ o.grp = "lib" /\
                  ~(/\ HasRow(tb, o.id, "prototype")
                    /\ LET p == RowAt(tb, o.id, "prototype")[1] IN
                          /\ p.kind = "constant-object"
                          /\ HasRow(tb, p.target, "constructor")
                          /\ RowAt(tb, p.target, "constructor")[1].target = o.id)
          \* a function that is not a constructor has no prototype property
          [] m = "no-prototype" -> o.callable /\ ~o.ctor /\ o.id # "Function.prototype" /\ o.id # "i:hostFunction" /\
                  ~(HasRow(tb, o.id, "prototype") /\ RowAt(tb, o.id, "prototype")[1].kind = "absent")
          \* every library function has a distinguishing call
          [] m = "call" -> o.callable /\ o.grp = "lib" /\ o.call = ""
          \* the prototype chain is finite
          [] m = "chain" -> ProtoOf(o) # "?" /\
                  ~(LET ch == Chain(tb, o.id, 6) IN Len(ch) < 6 /\ ProtoOf(Obj(tb, ch[Len(ch)])) = "null")
          \* hence for-in over an object without element properties lists nothing
          [] m = "forin" -> ProtoOf(o) # "?" /\ (\A k \in 1..Len(tb.own[o.id]) : tb.rows[tb.own[o.id][k]].kind # "element")
                              /\ ForInExp(tb, o.id) # <<>>}
TableIssues(tb) ==
    {<<"row", tb.rows[i].owner, tb.rows[i].name, RowIssues(tb, tb.rows[i])>> : i \in {i \in 1..Len(tb.rows) : RowIssues(tb, tb.rows[i]) # {}}}
    \cup {<<"obj", tb.objs[i].id, ObjIssues(tb, tb.objs[i])>> : i \in {i \in 1..Len(tb.objs) : ObjIssues(tb, tb.objs[i]) # {}}}
    \cup (IF Cardinality(tb.ids) = Len(tb.objs) THEN {} ELSE {<<"duplicate object id">>})
    \cup (IF Cardinality({<<tb.rows[i].owner, tb.rows[i].name>> : i \in 1..Len(tb.rows)}) = Len(tb.rows) THEN {} ELSE {<<"duplicate row">>})
    \cup {<<"forin", tb.forins[i].id>> : i \in {i \in 1..Len(tb.forins) : tb.forins[i].id \notin tb.ids}}
TableOK(tb) == TableIssues(tb) = {}
=============================================================================
