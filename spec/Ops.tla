-------------------------------- MODULE Ops ---------------------------------
(* ES5 clause 9 conversions on all values and the clause 11 operators.       *)
(* Besides the primitives of Val.tla a value may be a "conversion object":   *)
(*   [t |-> "cobj", id, vo, ts]   an object whose valueOf (vo) and toString  *)
(* (ts) follow a scripted behaviour                                          *)
(*   [k |-> "ret", v |-> primitive] | [k |-> "retobj"] | [k |-> "throw"]     *)
(*   | [k |-> "inherit"] (Object.prototype's) | [k |-> "noncallable"]        *)
(* or a built-in function [t |-> "fn", name].  Every scripted call is        *)
(* appended to a log, so the ORDER of operand evaluation and coercion is     *)
(* part of every result.  Results are [thr, v, log]: thr = "" (normal, v the *)
(* value), an error class (v = Undef), or "value" (v the thrown value).      *)
EXTENDS NumText, TLC
CONSTANT Dev
D(x) == x \in Dev

R(v, log) == [thr |-> "", v |-> v, log |-> log]
T(cls, log) == [thr |-> cls, v |-> Undef, log |-> log]
TV(v, log) == [thr |-> "value", v |-> v, log |-> log]

IsObjLike(v) == v.t \in {"cobj", "fn"}
IsPrimV(v) == ~IsObjLike(v)

S_objObject == <<91, 111, 98, 106, 101, 99, 116, 32, 79, 98, 106, 101, 99, 116, 93>>   \* "[object Object]"
ThrownMarker(o, which) == StrV((IF which = "vo" THEN <<84, 118>> ELSE <<84, 115>>) \o NumToStr(I(o.id)))   \* "Tv<id>" / "Ts<id>"

(* one step of 8.12.8: try method `which` of conversion object o.            *)
(* [done: a result is final, r: the result, log]                             *)
TryConv(o, which, log) ==
    LET b  == IF which = "vo" THEN o.vo ELSE o.ts
        lg == Append(log, which \o ToString(o.id))
    IN  CASE b.k = "ret"    -> [done |-> TRUE, r |-> R(b.v, lg)]
          [] b.k = "retobj" -> [done |-> FALSE, r |-> R(Undef, lg)]
          [] b.k = "throw"  -> [done |-> TRUE, r |-> TV(ThrownMarker(o, which), lg)]
          [] b.k = "noncallable" -> [done |-> FALSE, r |-> R(Undef, log)]
          [] b.k = "inherit" -> IF which = "vo" THEN [done |-> FALSE, r |-> R(Undef, log)]   \* returns the object
                                ELSE [done |-> TRUE, r |-> R(StrV(S_objObject), log)]

FnSource == <<102, 110>>     \* the text of a function is implementation-defined; never compared

(* 8.12.8 [[DefaultValue]] / 9.1 ToPrimitive *)
(* conversion objects with id >= 50 are Date objects (with own scripted valueOf / toString):     *)
(* 8.12.8 "when called with no hint, as if the hint were Number, unless O is a Date object, in *)
(* which case as if the hint were String" (the + operator 11.6.1 and == 11.9.3 pass no hint)   *)
IsDateLike(v) == v.t = "cobj" /\ v.id >= 50
ToPrimitive(v, hint, log) ==
    IF IsPrimV(v) THEN R(v, log)
    ELSE IF v.t = "fn" THEN R(StrV(FnSource), log)
    ELSE LET strFirst == hint = "string" \/ (hint = "default" /\ IsDateLike(v))
             first  == IF strFirst THEN "ts" ELSE "vo"
             second == IF strFirst THEN "vo" ELSE "ts"
             a == TryConv(v, first, log)
         IN  IF a.done THEN a.r
             ELSE LET b == TryConv(v, second, a.r.log)
                  IN  IF b.done THEN b.r ELSE T("TypeError", b.r.log)

ToStringPrim(v) ==
    CASE v.t = "undef" -> S_undefined
      [] v.t = "null" -> S_null
      [] v.t = "bool" -> IF v.b THEN S_true ELSE S_false
      [] v.t = "num" -> NumToStr(v.n)
      [] v.t = "str" -> v.s

ToNumber(v, log) ==          \* 9.3: result value is NumV
    LET p == ToPrimitive(v, "number", log)
    IN  IF p.thr # "" THEN p ELSE R(NumV(ToNumberPrim(p.v)), p.log)

ToStringV(v, log) ==         \* 9.8: result value is StrV
    LET p == ToPrimitive(v, "string", log)
    IN  IF p.thr # "" THEN p ELSE R(StrV(ToStringPrim(p.v)), p.log)

ToBooleanV(v) == IF IsObjLike(v) THEN TRUE ELSE ToBoolean(v)

TypeOf(v) == IF v.t = "cobj" THEN S_object ELSE IF v.t = "fn" THEN S_function ELSE TypeOfPrim(v)

-----------------------------------------------------------------------------
(* 11.5 - 11.7, 11.10: arithmetic on two already evaluated operands          *)
Arith(op, x, y) ==           \* x, y Nums
    CASE op = "*" -> NumMul(x, y)
      [] op = "/" -> NumDiv(x, y)
      [] op = "%" -> NumMod(x, y)
      [] op = "-" -> NumSub(x, y)
      [] op = "+" -> NumAdd(x, y)
      [] op = "&" -> BitOp32("and", x, y)
      [] op = "|" -> BitOp32("or", x, y)
      [] op = "^" -> BitOp32("xor", x, y)
      [] op = "<<" -> Shl32(ToInt32N(x), BnToInt(ModPow2(ToUint32N(y), 5)))
      [] op = ">>" -> ShrS32(ToInt32N(x), BnToInt(ModPow2(ToUint32N(y), 5)))
      [] op = ">>>" -> ShrU32(ToUint32N(x), BnToInt(ModPow2(ToUint32N(y), 5)))

NumericBinary(op, l, r, log) ==
    LET a == ToNumber(l, log)
    IN  IF a.thr # "" THEN a
        ELSE LET b == ToNumber(r, a.log)
             IN  IF b.thr # "" THEN b ELSE R(NumV(Arith(op, a.v.n, b.v.n)), b.log)

Plus(l, r, log) ==           \* 11.6.1
    LET a == ToPrimitive(l, "default", log)
    IN  IF a.thr # "" THEN a
        ELSE LET b == ToPrimitive(r, "default", a.log)
             IN  IF b.thr # "" THEN b
                 ELSE IF a.v.t = "str" \/ b.v.t = "str"
                      THEN R(StrV(ToStringPrim(a.v) \o ToStringPrim(b.v)), b.log)
                      ELSE R(NumV(NumAdd(ToNumberPrim(a.v), ToNumberPrim(b.v))), b.log)

(* 11.8.5 on primitives: "true", "false", "undefined" *)
AbstractRelPrim(px, py) ==
    IF px.t = "str" /\ py.t = "str" THEN (IF StrCmp(px.s, py.s) < 0 THEN "true" ELSE "false")
    ELSE LET nx == ToNumberPrim(px)  ny == ToNumberPrim(py)
         IN  IF IsNaN(nx) \/ IsNaN(ny) THEN "undefined"
             ELSE IF NumCmp(nx, ny) < 0 THEN "true" ELSE "false"

(* relational operators 11.8.1-4; the left operand is always converted first *)
Relational(op, l, r, log) ==
    LET a == ToPrimitive(l, "number", log)
    IN  IF a.thr # "" THEN a
        ELSE LET b == ToPrimitive(r, "number", a.log)
             IN  IF b.thr # "" THEN b
                 ELSE LET res == CASE op = "<"  -> AbstractRelPrim(a.v, b.v) = "true"
                                   [] op = ">"  -> AbstractRelPrim(b.v, a.v) = "true"
                                   [] op = "<=" -> AbstractRelPrim(b.v, a.v) = "false"
                                   [] op = ">=" -> AbstractRelPrim(a.v, b.v) = "false"
                      IN  R(BoolV(res), b.log)

StrictEqV(x, y) ==           \* 11.9.6
    IF IsObjLike(x) \/ IsObjLike(y) THEN x = y ELSE StrictEq(x, y)

(* 11.9.3 *)
RECURSIVE AbstractEq(_, _, _)
AbstractEq(x, y, log) ==
    LET tx == IF IsObjLike(x) THEN "obj" ELSE x.t
        ty == IF IsObjLike(y) THEN "obj" ELSE y.t
    IN  IF tx = ty THEN R(BoolV(StrictEqV(x, y)), log)
        ELSE IF {tx, ty} = {"null", "undef"} THEN R(BoolV(TRUE), log)
        ELSE IF tx = "num" /\ ty = "str" THEN AbstractEq(x, NumV(ToNumberPrim(y)), log)
        ELSE IF tx = "str" /\ ty = "num" THEN AbstractEq(NumV(ToNumberPrim(x)), y, log)
        ELSE IF tx = "bool" THEN AbstractEq(NumV(ToNumberPrim(x)), y, log)
        ELSE IF ty = "bool" THEN AbstractEq(x, NumV(ToNumberPrim(y)), log)
        ELSE IF tx \in {"str", "num"} /\ ty = "obj" THEN
             (LET p == ToPrimitive(y, "default", log) IN IF p.thr # "" THEN p ELSE AbstractEq(x, p.v, p.log))
        ELSE IF tx = "obj" /\ ty \in {"str", "num"} THEN
             (LET p == ToPrimitive(x, "default", log) IN IF p.thr # "" THEN p ELSE AbstractEq(p.v, y, p.log))
        ELSE R(BoolV(FALSE), log)

Not(r) == IF r.thr # "" THEN r ELSE R(BoolV(~r.v.b), r.log)

(* names every ordinary object inherits from Object.prototype *)
ObjectProtoNames == {S_constructor, S_toString, S_valueOf,
                     <<104,97,115,79,119,110,80,114,111,112,101,114,116,121>>,                \* hasOwnProperty
                     <<105,115,80,114,111,116,111,116,121,112,101,79,102>>,                   \* isPrototypeOf
                     <<112,114,111,112,101,114,116,121,73,115,69,110,117,109,101,114,97,98,108,101>>,  \* propertyIsEnumerable
                     <<116,111,76,111,99,97,108,101,83,116,114,105,110,103>>}                 \* toLocaleString

In(l, r, log) ==             \* 11.8.7: the right operand is checked before the left is converted
    IF ~IsObjLike(r) THEN T("TypeError", log)
    ELSE LET k == ToStringV(l, log)
         IN  IF k.thr # "" THEN k
             ELSE IF r.t = "cobj" THEN R(BoolV(k.v.s \in ObjectProtoNames), k.log)
             ELSE R(BoolV(k.v.s \in ObjectProtoNames \cup {S_length, S_prototype, S_name, S_call, S_apply, S_bind}), k.log)

InstanceOf(l, r, log) ==     \* 11.8.6, 15.3.5.3 for the built-in constructors Object and Function
    IF ~IsObjLike(r) THEN T("TypeError", log)
    ELSE IF r.t # "fn" THEN T("TypeError", log)
    ELSE IF ~IsObjLike(l) THEN R(BoolV(FALSE), log)                 \* 15.3.5.3 step 1 comes before the prototype is read
    ELSE IF r.name \in {"FNP", "FBP"} THEN T("TypeError", log)      \* step 3: a function whose prototype property is a
                                                                   \* primitive (FNP), also through a bound function (FBP)
    ELSE R(BoolV(r.name = "Object" \/ (r.name = "Function" /\ l.t = "fn")), log)

(* a binary operator applied to evaluated operands *)
Binary(op, l, r, log) ==
    CASE op = "+" -> Plus(l, r, log)
      [] op \in {"-", "*", "/", "%", "&", "|", "^", "<<", ">>", ">>>"} -> NumericBinary(op, l, r, log)
      [] op \in {"<", ">", "<=", ">="} -> Relational(op, l, r, log)
      [] op = "==" -> AbstractEq(l, r, log)
      [] op = "!=" -> Not(AbstractEq(l, r, log))
      [] op = "===" -> R(BoolV(StrictEqV(l, r)), log)
      [] op = "!==" -> R(BoolV(~StrictEqV(l, r)), log)
      [] op = "in" -> In(l, r, log)
      [] op = "instanceof" -> InstanceOf(l, r, log)

Unary(op, v, log) ==         \* 11.4
    CASE op = "+" -> ToNumber(v, log)
      [] op = "-" -> (LET a == ToNumber(v, log) IN IF a.thr # "" THEN a ELSE R(NumV(NumNeg(a.v.n)), a.log))
      [] op = "~" -> (LET a == ToNumber(v, log) IN IF a.thr # "" THEN a ELSE R(NumV(BitNot32(a.v.n)), a.log))
      [] op = "!" -> R(BoolV(~ToBooleanV(v)), log)
      [] op = "typeof" -> R(StrV(TypeOf(v)), log)
      [] op = "void" -> R(Undef, log)

(* conversions observable through built-ins *)
Convert(f, v, log) ==
    CASE f = "Number" -> ToNumber(v, log)
      [] f = "String" -> ToStringV(v, log)
      [] f = "Boolean" -> R(BoolV(ToBooleanV(v)), log)
      [] f = "ToInt32" -> (LET a == ToNumber(v, log) IN IF a.thr # "" THEN a ELSE R(NumV(ToInt32N(a.v.n)), a.log))
      [] f = "ToUint32" -> (LET a == ToNumber(v, log) IN IF a.thr # "" THEN a ELSE R(NumV(ToUint32N(a.v.n)), a.log))
      [] f = "ToUint16" -> (LET a == ToNumber(v, log) IN IF a.thr # "" THEN a ELSE R(NumV(ToUint16N(a.v.n)), a.log))
=============================================================================
