#!/usr/bin/env python3
"""Generates C11Str.tla: the JSON texts of property C11 as sequences of UTF-16
code units (TLC strings cannot be indexed).  Run: python3 gen_c11str.py [C11Str.tla]"""
import sys

def units(s):
    b = s.encode('utf-16-be', 'surrogatepass')
    return [int.from_bytes(b[i:i + 2], 'big') for i in range(0, len(b), 2)]

def tup(s):
    return "<<%s>>" % ", ".join(map(str, units(s)))

# texts whose every single-character deletion / insertion / substitution is parsed (quick tier)
BASE = [
    'null', 'true', 'false', '0', '-0', '10', '-1.5', '1e2', '1.5E-2', '0.1e+1',
    '""', '"a"', '"a\\nb"', '"\\u00e9"', '"\\"\\\\\\/"', '"\u00e9\u2028"',
    '[]', '[1]', '[1,2]', '[[]]', '[1,[2,"a"]]', '[null,true]',
    '{}', '{"a":1}', '{"b":1,"a":2}', '{"a":{"b":[]}}', '{"a":[1,{"b":null}]}', '{"a":1,"a":2}',
    ' [ 1 , 2 ] ', '\t{\n"a"\r:\n1 }\n', '{"":0}', '[-0,1E1,0.5]', '"\\b\\f\\r\\t"', '[1.0e1]',
]
# more base texts for the thorough tier
BASE_MORE = [
    '123456789', '-12.5e-3', '1e21', '0.000001', '5e-324', '"\\ud834\\udd1e"', '"\U0001d11e"', '"\\uD834\\uDD1E"',
    '"\\u0041\\u00Ff"', '[true,false,null]', '{"a":"b"}', '{"a":[],"b":{}}', '[[[1]]]', '[{"a":1},{"b":2}]',
    '{"c":1,"b":2,"a":3}', '{"a":{"a":{"a":1}}}', '["a","b"]', '[1,2,3,4]', '{"b":1,"a":2,"b":3}',
    '{ "a" : [ 1 , { "b" : "c" } ] }', '"a b"', '"\x7f"', '[0.5,-0.5]', '{"1":1,"0":2}', '"/"', '"<>&"',
    '{"toString":1}', '{"length":2,"0":1}', '[1,"1",[1],{"1":1}]',
]
# texts parsed as they are (numbers across the double range, escapes, white space, non-grammar forms)
EXTRA = [
    # numbers: rounding, range ends, subnormals, long digit strings
    '1e308', '1.7976931348623157e308', '1.7976931348623158e308', '1.7976931348623159e308', '1e309', '-1e309', '1e400',
    '1e-323', '5e-324', '4.9e-324', '2.4703282292062327e-324', '2.4703282292062328e-324', '2.5e-324', '1e-400', '-1e-400',
    '2.2250738585072014e-308', '2.2250738585072011e-308', '9007199254740992', '9007199254740993', '9007199254740995',
    '-9007199254740993', '123456789012345678901234567890', '0.1', '0.2', '0.30000000000000004', '1.1', '4.35', '0.000001', '1e-7', '1e21', '1e+21',
    '1E5', '1e05', '1e-05', '0e0', '-0e0', '-0.0', '0.0', '0.00', '10.50', '1.000000000000000000000000000001', '0.99999999999999999999',
    '4294967296', '4294967295', '2147483648', '-2147483649', '1073741824', '1073741825', '100000000000000000000', '1e0', '0E-0',
    '179769313486231570000000000000000000000000000000000000000000000000000000000000000000000000000000000000000000000000000000000000000000000000000000000000000000000000000000000000000000000000000000000000000000000000000000000000000000000000000000000000000000000000000000000000000000000000000000000000000000000000000',
    # non-grammar numbers
    '01', '-01', '00', '1.', '.5', '-.5', '+1', '1e', '1e+', '1e-', '0x10', '1_0', 'NaN', 'Infinity', '-Infinity', '-', '--1', '1.e1', '1.5.2', '1e1.5', '0b1', '1,', '- 1',
    # white space
    ' 1', '1 ', '\t1', '\n1', '\r1', '\r\n 1 \t', '\x0b1', '\x0c1', '\xa01', '\ufeff1', '1\ufeff', '\u20281', '\u2028', ' ', '', '[ ]', '{ }', '[\n]', '{\t}',
    '[1 ,2]', '[1, 2]', '[1,2 ]', '{ "a":1}', '{"a" :1}', '{"a": 1}', '{"a":1 }', '{"a":1 , "b":2}', '1 2', '[1 2]', '"a" "b"', '[\xa0]',
    # strings
    '"\\u0000"', '"\\u001f"', '"\x7f"', '"\x80"', '"\u2028"', '"\u2029"', '"\uffff"', '"\ufeff"', '"\\/"', '"/"', '"\\u002f"', '"\\u002F"',
    '"\x00"', '"\x01"', '"\x1f"', '"\t"', '"\n"', '"\r"', '"a\nb"', '"\\a"', '"\\v"', '"\\x41"', '"\\0"', '"\\\'"', '"\\u12"', '"\\u12G4"', '"\\u 123"', '"\\U0041"', '"\\u00e"',
    '"\\"', '"', '"a', 'a"', "'a'", '"a\\"', '"\\\\"', '"\\\\\\""', '"\\u0022"', '"\\u005c"', '"\\u005C"', '"\\ud834\\udd1e"', '"\U0001d11e"', '"\\n\\r\\t\\b\\f"',
    '"\\u00e9\u00e9"', '"\\uabcd\\uABCD"', '"null"', '"1"', '"[]"', '"\\u0041B"', '"<>&\'"', '"\\u003c"',
    # literals and structure
    'nul', 'nulll', 'Null', 'NULL', 'tru', 'True', 'TRUE', 'truefalse', 'undefined', 'n', 't', 'f', 'null null', 'nullnull', 'true,', 'void 0',
    '[', ']', '{', '}', '[,]', '[1,]', '[,1]', '[1,,2]', '[1;2]', '[1', '1]', '[[]', '[]]', '[}', '{]', '(1)', '[1]x', '[1]]', '[[1]',
    '{,}', '{"a"}', '{"a":}', '{"a":1,}', '{,"a":1}', '{a:1}', "{'a':1}", '{1:1}', '{"a":1 "b":2}', '{"a":1,,"b":2}', '{"a"=1}', '{"a":1;"b":2}', '{"a":1', '"a":1}', '{"a":1}}', '{{}}', '{[]}', '{"a":{}', '{null:1}', '{"a":1,"b"}', '{true:1}',
    '/**/1', '1//x', '1/**/', '[1,/*x*/2]', '#1', '<1>', '1;', ';', 'a', '[a]', '[undefined]', '[NaN]', '[-Infinity]', '[function(){}]', '{"a":undefined}', 'new Date()', '1+1', '"a"+"b"', '!0',
    # deeper / duplicates / special keys
    '[[[[[[[[[[1]]]]]]]]]]', '{"a":{"b":{"c":{"d":{"e":[]}}}}}', '{"a":1,"b":2,"a":3}', '{"a":1,"a":{"b":2}}', '{"a":[1],"a":[2,3]}', '{"b":1,"a":2,"b":3,"a":4}',
    '{"":1,"":2}', '{"\\u0061":1,"a":2}', '{"a\\u0000":1}', '{"0":1,"1":2}', '{"1":1,"0":2}', '{"length":1}', '{"constructor":1}', '{"toString":null}', '{"valueOf":1,"hasOwnProperty":2}',
    '[[],[[]],{}]', '[{},{}]', '{"a":[{"b":[{"c":1}]}]}', '[null,[null],{"a":null}]', '[true,[false]]', '["",[""],{"":""}]',
    '[1,2,3,4,5,6,7,8,9,10,11,12]', '{"k1":1,"k2":2,"k3":3}', '{"z":1,"y":2,"x":3}',
]
# lone surrogates (kept out of the mutated domain; DESIGN.md section 11 row 28)
SURR = ['"\\ud800"', '"\\udc00"', '"\\ud800a"', '"\\udd1e\\ud834"', '"\ud800"', '"a\udc00b"', '{"\\ud800":1}', '["\\ud834\\udd1e\\ud834"]']
# texts walked with every reviver of the family
REVIVE = [
    '1', '"s"', 'null', '[]', '{}', '[1,"x",null]', '{"a":1,"b":2}', '{"b":1,"a":2}', '{"a":1,"b":2,"c":3}', '{"c":"x","a":2,"b":[1,2]}',
    '[[1,2],[3]]', '{"a":{"a":1,"b":"y"},"b":[1,{"a":2}]}', '[{"a":1,"b":2},"a"]', '{"a":[1,2,3]}', '[1,2,3]', '{"b":{"a":"s"}}', '{"a":1,"a":2}', '["a",["b",["c"]]]',
    '{"a":"x","b":"y","c":"z","d":"w"}', '{"0":1,"1":2}', '[1,]', '{"a":1,}', '',
]
# texts containing the member name "toJSON" (data, not a method: 15.12.3 Str step 2.b asks IsCallable):
# parsed, and round-tripped through stringify(parse(t))
TOJSON = [
    '{"toJSON":{"x":2}}', '{"a":1,"toJSON":{"x":2}}', '{"toJSON":{"x":2},"a":1}', '{"toJSON":[1,2]}', '[{"toJSON":{}}]', '{"toJSON":[]}', '{"toJSON":{}}',
    '{"toJSON":1}', '{"toJSON":null}', '{"toJSON":"s"}', '{"toJSON":true}', '{"toJSON":false}', '{"toJSON":-0.5}', '{"toJSON":""}',
    '{"toJSON":{"toJSON":{"toJSON":1}}}', '{"toJSON":[{"toJSON":[{"toJSON":[]}]}]}', '{"a":{"toJSON":{"b":[{"toJSON":[]}]}}}',
    '[[{"toJSON":{"a":1}},2],{"toJSON":[{"toJSON":0}]}]', '{"toJSON":{"a":1},"toJSON":2}', '{"toJSON":2,"toJSON":{"a":1}}', '{"b":{"toJSON":[null]},"a":[{"toJSON":{"c":"d"}}]}',
    '{"tojson":{"x":1}}', '{"toJSON ":{"x":1}}', '{"\\u0074oJSON":{"x":1}}', '{"TOJSON":[1]}', '{"toJSON":{"x":1},"toString":{"y":2},"valueOf":[3]}',
    '[{"toJSON":[1]},{"toJSON":{"a":2}},{"toJSON":3}]', '{"x":[{"toJSON":{"toJSON":[{"a":{"toJSON":{}}}]}}]}',
]
# texts walked with the revivers that restructure their holder (length read once, key list taken once)
LENTEXTS = [
    '[1,2,3]', '[1,2]', '[1]', '[]', '[["a","b"],"c"]', '[[1,2,3],[4,5]]', '{"a":[1,2,3],"b":[4]}', '[{"a":1},{"b":2},3]', '[1,[2,[3,4]]]',
    '{"a":1,"b":2,"c":3}', '{"a":{"a":1,"b":2},"b":[1,2]}', '[[[1,2],3],4]', '[null,true,"s",{}]', '{"b":[1,2,3,4]}',
]
# alphabet of the mutations: { } [ ] , : " \ 0 1 - + . e E u t n a space TAB ' / U+0001
ALPHA = '{}[],:"\\01-+.eEutna \t\'/\x01'

out = ["---- MODULE C11Str ----", "(* GENERATED by gen_c11str.py - do not edit *)"]
def seq(name, lst):
    out.append("%s == <<\n  %s\n>>" % (name, ",\n  ".join(tup(s) for s in lst)))
seq("BaseTexts", BASE)
seq("BaseTextsMore", BASE_MORE)
def heavy(s):
    # numbers near the ends of the double range: their decimal text is expensive for TLC (round trip only in the thorough tier)
    try:
        f = abs(float(s))
    except ValueError:
        return False
    return f != 0 and f != float('inf') and (f > 1e150 or f < 1e-150)
seq("ExtraTexts", [s for s in EXTRA if not heavy(s)])
seq("ExtraHeavyTexts", [s for s in EXTRA if heavy(s)])
seq("SurrTexts", SURR)
seq("ReviveTexts", REVIVE)
seq("ToJSONTexts", TOJSON)
seq("LenTexts", LENTEXTS)
out.append("MutAlphabet == %s" % tup(ALPHA))
out.append("S_iso_epoch == %s" % tup("1970-01-01T00:00:00.000Z"))
out.append("====")
open(sys.argv[1] if len(sys.argv) > 1 else "C11Str.tla", "w").write("\n".join(out) + "\n")
print(len(BASE), len(BASE_MORE), len(EXTRA), len(SURR), len(REVIVE), len(ALPHA), sum(len(s) for s in BASE), sum(len(s) for s in BASE_MORE))
