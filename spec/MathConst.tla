------------------------------ MODULE MathConst -----------------------------
(* Numeric constants of MathSpec.tla, computed once.  A root module EXTENDS  *)
(* this module and passes MathK to MathSpec (INSTANCE MathSpec WITH KK <-    *)
(* MathK): TLC evaluates a zero-arity constant definition of the root module *)
(* once, whereas definitions inside an instantiated module are re-evaluated  *)
(* at every use (measured: 4.6 ms per use of ConstPI).                       *)
EXTENDS NumText

RECURSIVE ChunkBn(_, _, _)
ChunkBn(c, i, acc) == IF i > Len(c) THEN acc
                      ELSE LET nx == BnAdd(BnMulSmall(acc, 10000), BnFromInt(c[i]))
                           IN  IF Len(nx) < 0 THEN nx ELSE ChunkBn(c, i + 1, nx)
(* decimal constants: digits given in groups of four *)
Dec(c, q) == DecToNum(FALSE, ChunkBn(c, 1, <<>>), q)

(* 15.8.1: "the Number value for" e, ln 10, ... = the double nearest to it (28 significant digits given) *)
KE       == Dec(<<2718, 2818, 2845, 9045, 2353, 6028, 7471>>, -27)
KLN10    == Dec(<<2302, 5850, 9299, 4045, 6840, 1799, 1454>>, -27)
KLN2     == Dec(<<6931, 4718,  559, 9453,  941, 7232, 1214>>, -28)
KLOG2E   == Dec(<<1442, 6950, 4088, 8963, 4073, 5992, 4681>>, -27)
KLOG10E  == Dec(<<4342, 9448, 1903, 2518, 2765, 1128, 9189>>, -28)
KPI      == Dec(<<3141, 5926, 5358, 9793, 2384, 6264, 3383>>, -27)
KSQRT1_2 == Dec(<<7071,  678, 1186, 5475, 2440,  844, 3621>>, -28)
KSQRT2   == Dec(<<1414, 2135, 6237, 3095,  488,  168, 8724>>, -27)
KP2(k) == Canon(FALSE, <<1>>, k)

MathK == [E |-> KE, LN10 |-> KLN10, LN2 |-> KLN2, LOG2E |-> KLOG2E, LOG10E |-> KLOG10E, PI |-> KPI,
          SQRT1_2 |-> KSQRT1_2, SQRT2 |-> KSQRT2,
          HalfPi |-> NumMul(KPI, KP2(-1)), QuartPi |-> NumMul(KPI, KP2(-2)),
          ThreeQuartPi |-> NumMul(KPI, Canon(FALSE, <<3>>, -2)),
          SixthPi |-> NumDiv(KPI, I(6)), ThirdPi |-> NumDiv(KPI, I(3)), InvE |-> NumDiv(I(1), KE),
          TolUp |-> NumAdd(I(1), KP2(-46)), TolDn |-> NumSub(I(1), KP2(-46)),       \* "approximation": within 2^-46 relative
          MaxD |-> Canon(FALSE, BnSub(BnShl(<<1>>, 53), <<1>>), 971), MinD |-> KP2(-1074)]
=============================================================================
