#!/usr/bin/env python3
"""Generates C10Str.tla: the pattern fragments, flags and malformed /
unsupported pattern texts used by the generator modules C10.tla / C10H.tla,
as sequences of UTF-16 code units (TLC strings cannot be indexed).  Only TEXT
is generated here; every expectation comes from RegExpSpec.tla.  Property C10."""
import sys
def units(s):
    b = s.encode('utf-16-be', 'surrogatepass')
    return [int.from_bytes(b[i:i+2], 'big') for i in range(0, len(b), 2)]
def tup(s):
    return "<<%s>>" % ", ".join(map(str, units(s)))
def seq(name, items, out):
    out.append("%s == <<" % name)
    for i, s in enumerate(items):
        out.append("    %s%s   \\* %s" % (tup(s), "," if i + 1 < len(items) else "", s.encode('unicode_escape').decode()))
    out.append("    >>")

lists = {
 # atoms that take a quantifier (family F1: every atom x every quantifier)
 "X_Atoms": ["a", "b", ".", "[ab]", "[^a]", "[a-b]", r"\w", r"\W", r"\s", r"\S", "(a)", "(a|b)", "(?:ab)", "(b|ab)"],
 "X_Quants": ["", "*", "+", "?", "*?", "+?", "??", "{2}", "{1,2}", "{1,2}?", "{0,}", "{2,}?"],
 # assertions (take no quantifier)
 "X_Asserts": ["^", "$", r"\b", r"\B"],
 # reduced term set for two-term sequences and alternations
 "X_Terms": ["a", "b", "a*", "a+", "a?", "a*?", "a+?", "a??", "b*", ".", ".*", ".*?", "[ab]+", "[^a]*", r"\w+", r"\s",
             "^", "$", r"\b", r"\B", "a{2}", "A", "(a)", "(a*)", "(b)?"],
 # inner terms of quantified groups
 "X_Inner": ["a", "b", "a+", "a*?", "b?", ".", "(a)", "(b)", "[^b]", "$", "^", "(a)?"],
 "X_GroupQuants": ["", "*", "+", "?", "*?", "+?", "{2}", "{1,2}", "{0,2}?"],
 # quantified atoms whose body can match the empty string (15.10.2.5 step 2.1)
 "X_Nullable": ["(a*)", "(a*?)", "(a?)", "(a|)", "(|a)", "(?:a*)", "(?:|a)", "(a*|b)", "(b|a*)", "(a*)(b*)", "(?:a?b?)", "(^)", "($|a)", r"(\b|a)",
                "((a)|b*)", "(a??)"],
 "X_NullQuants": ["*", "+", "*?", "+?", "{2}", "{2,}", "{0,2}", "{1,3}?"],
 # single atoms that exercise the escape translation
 "X_Escapes": [r"\x61", r"a", r"\x0a", r"\u000A", r"\cJ", r"\cj", r"\cA", r"\cZ", r"\ca", r"\cz", r"\cM", r"[\cZ]", r"[\ca]", r"\n", r"\t", r"\r", r"\v", r"\f", r"\0", r"\.", r"\*", r"\+", r"\?",
               r"\(", r"\)", r"\[", r"\]", r"\{", r"\}", r"\|", r"\^", r"\$", r"\\", r"\-", r"\,", r"\ ", r"\d", r"\D", r"\w", r"\W", r"\s", r"\S",
               r"[\b]", r"[\d]", r"[\D]", r"[\w-]", r"[\s]", r"[\S]", r"[\x61-\x62]", r"[a-b]", r"[a\-b]", r"[\]]", r"[\^]", r"[.]",
               r"[*]", r"[$]", r"[|]", r"[(]", r"[)]", r"[[]", r"[{]", r"[a^]", r"[-a]", r"[a-]", r"[\\]", r"[\n]", r"[\cJ]", r"[\0]", r"[^\n]",
               r"[^\W]", r"[^\s\S]", r"[\s\S]", "[]", "[^]", r"[^\d\D]", "-", ",", " ", "=", "!", ":", "<", "#", "%", "&", "~", "`", "@", "_", "é",
               r"\xe9", r"[é]", r"\/", r"[/]", r"[\/]", r"a\/b", "a{1000}", "a{1001}", "a{0,1001}", "a{01}", "a{1,02}"],
 # ES5-valid patterns outside the portable subset: must be rejected with an error
 "X_Unsupported": ["(?=a)", "(?!a)", "a(?=b)", "a(?!b)", r"(a)\1", r"(a)(b)\2", r"(?:(a)\1)", "(?=(a))a", r"\1(a)", "(?:(?=a)a)*", r"(a)|\1"],
 # texts that are not Patterns (15.10.1): SyntaxError required
 "X_Malformed": ["(", ")", "[", "a)", "(a", "(?:a", "[a", "a{2,1}", "*", "*a", "+a", "?a", "a**", "a+*", "a*+", "a?*", "a???", "a{1}{2}", "a{1}*",
                 "^*", "$+", r"\b?", r"\B*", "^{2}", "|*", "a|*", "(*)", "(?:+)", "[b-a]", "[z-a]", "(?i)a", "(?i:a)", "(?s).", "(?P<n>a)", "(?#c)",
                 "(?U)a*", "(?m)^", "(?", "(?a)", "a\\", "\\", "(a))", "())", "a|)", "[a-", "(?:", "a{2,1}?", "(a{3,2})", "(?=", "(?!a", "a**?"],
 "X_BadFlags": ["x", "gg", "ii", "mm", "gig", "G", "y", "u", "s", " g", "g ", "gimg"],
 "X_GoodFlags": ["", "g", "i", "m", "gi", "gm", "im", "gim", "mig", "ig"],
 # replacement strings (15.5.4.11 Table 22); $n with n > m is filtered out by RxReplDefined
 # family "repl": every template x every pattern x every subject, nothing filtered; where Table 22 says
 # implementation-defined the expectation is a frame around the token (RegExpSpec!RxWild)
 "X_ReplT": ["$1", "$2", "$01", "$10", "$11", "$12", "$20", "$99", "$00", "$0", "$1$2", "a$1b$10c", "$$1", "$&0", "$`$'", "$02", "$2$1", "[$1|$10|$2|$20|$3]",
             "$100", "$011", "$1$", "$&$1$&"],
 # 0, 1, 2 captures, some of which do not take part in the match (optional group, alternative not taken)
 "X_ReplPats": ["a", "(x)?a", "(a)|(b)", "(?:(x)|a)(b)?", "(a)(x)?", "((x)|a)", "(x)?(a)?b", "(?:(a)|b)*", "(x)*a", "a(?:(b)|(c))"],
 "X_ReplSubj": ["ab", "cab", "ba", "xab", "b", "aab", "cabab", "", "ac", "bca"],
 # family "replfn": what a function replaceValue returns (strings; other values are listed in C10.tla)
 "X_FnRet": ["$$", "$&", "$`", "$'", "$1", "$2", "$01", "$10", "$0", "x$&y$1z", "", "$", "a"],
 "X_FnPats": ["a", "(a)(b)?", "(x)?a", "b|(a)", "a*"],
 "X_FnSearch": ["a", "ab", "", "$&", "zz"],
 "X_FnSubj": ["ab", "cab", "aab", "b", "caba", "a$&b"],
 "X_Repls": ["", "x", "$$", "$&", "$`", "$'", "$1", "$2", "$01", "$02", "$1a", "$10", "$0", "$00", "$", "$x", "x$", "$$1", "$$$1", "[$&]", "$1$2", "$'$`", "$&$&", "$1$", "$+", "$_", "$<", "$12", "$11x", "$012"],
}
out = ["---- MODULE C10Str ----", "(* GENERATED by gen_c10str.py - do not edit *)"]
for k, v in lists.items():
    seq(k, v, out)
out.append("====")
open(sys.argv[1] if len(sys.argv) > 1 else "C10Str.tla", "w").write("\n".join(out) + "\n")
