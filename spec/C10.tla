-------------------------------- MODULE C10 ---------------------------------
(* Generator for property C10 (part a): regular expressions, sound           *)
(* translation and the ES5 matching protocol.  Each TLC state is one case;   *)
(* the invariant Emit prints the JavaScript text of the case (parts:         *)
(* verbatim text, values, raw pattern text as code units) with the outcome   *)
(* spec/RegExpSpec.tla prescribes, and the outcome under the open named      *)
(* deviations when that differs.                                             *)
(*                                                                           *)
(* Families (Fams = the set of families of one TLC run; NSel = subjects per  *)
(* exec case, NStrm = subjects per "strm" pattern, NPat = patterns per       *)
(* block; 0 = all):                                                          *)
(*   "f1" atoms x quantifiers, assertions     "esc" escape translation atoms *)
(*   "f2" two-term sequences          "f3" two-term alternations             *)
(*   "f4" quantified groups around a two-term sequence / alternation         *)
(*   "f5" quantified atoms whose body can match the empty string             *)
(*   "f6" nested groups: (?:(T)|T)q and ((T)q T)q                            *)
(*        -> exec on a set of subjects, as literal /p/f or new RegExp(p, f)  *)
(*   "syntax"  accepted / SyntaxError / rejected-as-unsupported, literal and *)
(*             constructor; flags; the instance properties (15.10.7)         *)
(*   "strm"    String.prototype.match / replace / search / split with a      *)
(*             RegExp argument (lastIndex before = 0 or 1)                   *)
(*   "repl"    replacement templates ($n $nn $0 $00 $$ $& ...) x patterns     *)
(*             with 0, 1, 2 captures some of which do not participate x      *)
(*             subjects with the match at the start / in the middle / none,  *)
(*             and the function replacer (undefined for such captures);      *)
(*             exhaustive in both tiers                                      *)
(*   "replfn"  function replacers whose result contains every $-form of Table  *)
(*             22 or is not a string (number, undefined, null, boolean, an    *)
(*             object with toString): the result is used as it is; RegExp     *)
(*             (global or not, with and without captures) and String          *)
(*             searchValues; string templates with a String searchValue       *)
(*   "bytes"   exec of a global expression from every lastIndex on subjects  *)
(*             with 2- and 3-byte characters (byte vs code unit offsets);    *)
(*             targeted: $nn replacement references with 12 captures         *)
(*   "xlate"   every pattern text of all families with its classification    *)
(*             only (the harness feeds parser.TransformRegExp + regexp.      *)
(*             Compile directly)                                             *)
EXTENDS NumText, Json, TLC, SequencesExt, Randomization, C10Str
CONSTANTS OpenDev, Fams, Tier, NSel, NStrm, NPat
VARIABLES blk, cs

S == INSTANCE RegExpSpec WITH Dev <- {}
L == INSTANCE RegExpSpec WITH Dev <- OpenDev

Thorough == Tier = "thorough"
SeqSet(s) == {s[i] : i \in 1..Len(s)}
Cat2(A, B) == {a \o b : a \in A, b \in B}
Cat3(A, B, C) == {a \o b \o c : a \in A, b \in B, c \in C}
LP == <<40>>   NLP == <<40, 63, 58>>   RP == <<41>>   BAR == <<124>>

(* subjects: every word of at most MaxLen units over the alphabet *)
AlphaQ == <<<<97>>, <<98>>, <<65>>, <<10>>>>                                   \* a b A LF
AlphaT == AlphaQ \o <<<<32>>, <<49>>>>                                        \* + space, 1
Alpha == IF Thorough THEN AlphaT ELSE AlphaQ
MaxLen == IF Thorough THEN 4 ELSE 3
RECURSIVE Words(_)
Words(k) == IF k = 0 THEN {<<>>} ELSE {w \o Alpha[i] : w \in Words(k - 1), i \in 1..Len(Alpha)}
(* extra subjects for the character-set questions: CR, LS, VT, NBSP, BOM, e-acute, KELVIN SIGN, LONG S, digits *)
Special1 == {<<13>>, <<8232>>, <<97, 13, 98>>, <<97, 8233>>, <<11>>, <<160>>, <<65279>>, <<233>>, <<201>>, <<8490>>, <<383>>, <<107>>, <<115>>,
             <<49>>, <<95>>, <<97, 233, 97>>, <<233, 97>>, <<32>>}
Special == Special1 \cup {<<1>>, <<26>>, <<99, 90>>, <<99, 97>>, <<9>>, <<12>>, <<0>>, <<8>>, <<45>>, <<93>>, <<92>>, <<97, 45, 98>>, <<97>>, <<98>>, <<10>>, <<65>>, <<97, 10>>, <<>>, <<47>>, <<97, 47, 98>>}
SubjSeq == SetToSeq(UNION {Words(k) : k \in 0..MaxLen})
Special1Seq == SetToSeq(Special1)
SpecialSeq == SetToSeq(Special)
NSubj == Len(SubjSeq)

-----------------------------------------------------------------------------
(* pattern families *)
Terms == SeqSet(X_Terms)
Inner == SeqSet(X_Inner)
InnerD == Cat2(Inner, Inner) \cup Cat3(Inner, {BAR}, Inner)
F1 == Cat2(SeqSet(X_Atoms), SeqSet(X_Quants)) \cup SeqSet(X_Asserts) \cup {<<>>}
FE == SeqSet(X_Escapes)
F2 == Cat2(Terms, Terms)
F3 == Cat3(Terms, {BAR}, Terms)
F4 == {o \o d \o RP \o q : o \in {LP, NLP}, d \in InnerD, q \in SeqSet(X_GroupQuants)}
F5 == Cat3(SeqSet(X_Nullable), SeqSet(X_NullQuants), {<<>>, <<98>>, <<36>>})
F6 == {NLP \o LP \o a \o RP \o BAR \o b \o RP \o q : a \in Inner, b \in Inner, q \in SeqSet(X_GroupQuants)}
      \cup {LP \o LP \o a \o RP \o q1 \o b \o RP \o q : a \in Inner, b \in Inner, q1 \in {<<42>>, <<63>>}, q \in SeqSet(X_GroupQuants) \ {<<>>}}
Twelve == <<40, 41, 40, 41, 40, 41, 40, 41, 40, 41, 40, 41, 40, 41, 40, 41, 40, 41, 40, 41>>
StrmPats == Terms \cup SeqSet(X_Asserts) \cup
            {<<>>, <<97, 124>>, <<124, 97>>, <<40, 97, 41, 40, 98, 41, 63>>, <<40, 97, 41, 124, 40, 98, 41>>,
             <<40, 63, 58, 40, 97, 41, 124, 98, 41, 42>>, <<40, 98, 41>>, <<40, 46, 41, 40, 46, 41>>,
             <<97, 42, 63>>, <<40, 97, 42, 41, 98>>, <<91, 97, 98, 93>>, <<40, 92, 110, 41>>, <<40, 63, 58, 41>>,
             <<40, 97, 63, 41, 40, 98, 63, 41>>, <<40, 41>>, <<46, 63>>, <<98, 124, 40, 97, 41>>, <<233>>, <<40, 233, 41, 124, 97>>,
             <<40, 97, 41>> \o Twelve \o <<40, 98, 41>>}                  \* (a)()()()()()()()()()()(b): 12 captures for $nn
Seq_f1 == SetToSeq(F1)   Seq_esc == SetToSeq(FE)   Seq_f2 == SetToSeq(F2)   Seq_f3 == SetToSeq(F3)
Seq_f4 == SetToSeq(F4)   Seq_f5 == SetToSeq(F5)   Seq_f6 == SetToSeq(F6)   Seq_strm == SetToSeq(StrmPats)
PatSeq(fam) ==
    CASE fam = "f1" -> Seq_f1  [] fam = "esc" -> Seq_esc  [] fam = "f2" -> Seq_f2  [] fam = "f3" -> Seq_f3
      [] fam = "f4" -> Seq_f4  [] fam = "f5" -> Seq_f5  [] fam = "f6" -> Seq_f6  [] fam = "strm" -> Seq_strm
      [] OTHER -> <<>>
ExecFlags(fam) == IF fam = "f1" THEN <<<<>>, <<105>>, <<109>>, <<103, 105, 109>>>> ELSE IF fam = "esc" THEN <<<<>>, <<103, 105>>>> ELSE <<<<>>, <<105, 109>>>>
ExecFam(fam) == fam \in {"f1", "esc", "f2", "f3", "f4", "f5", "f6"}
BothForms(fam) == fam \in {"f1", "esc"}

(* everything that the syntax / translation questions range over *)
AllTexts == F1 \cup FE \cup F2 \cup F3 \cup F4 \cup F5 \cup F6 \cup SeqSet(X_Unsupported) \cup SeqSet(X_Malformed)
SyntaxTexts == F1 \cup FE \cup F5 \cup SeqSet(X_Unsupported) \cup SeqSet(X_Malformed)
Seq_xlate == SetToSeq(AllTexts)   Seq_syntax == SetToSeq(SyntaxTexts)
SynSeq(fam) == IF fam = "xlate" THEN Seq_xlate ELSE Seq_syntax

-----------------------------------------------------------------------------
(* case text *)
Lit(v) == [lit |-> v]
Raw(u) == [units |-> u]
Ctor(form, src, flags) ==
    IF form = "lit" THEN <<"/", Raw(src), "/", Raw(flags)>>
    ELSE <<"new RegExp(", Lit(StrV(src)), ",", Lit(StrV(flags)), ")">>
StrList(ss) == Lit([i \in 1..Len(ss) |-> StrV(ss[i])])

Limits == <<Undef, IntV(0), IntV(1), IntV(2), IntV(3), IntV(-1), NumV(NumAdd(Canon(FALSE, <<1>>, 32), I(1))), NumV(Canon(FALSE, <<3>>, -1))>>

Js(c) ==
    CASE c.fam = "exec" -> <<"EXECALL(">> \o Ctor(c.form, c.src, c.flags) \o <<",", StrList(c.subj), ")">>
      [] c.fam = "syn" ->                          \* REJECTED: any Error counts; CLASSIFY: the error class is compared
           LET h == IF S!RxClassify(c.src, c.flags) = "unsupported" THEN "REJECTED" ELSE "CLASSIFY" IN
           (IF c.form = "lit" THEN <<h \o "(function(){ return (0,eval)(", Lit(StrV(<<47>> \o c.src \o <<47>> \o c.flags)), "); })">>
            ELSE <<h \o "(function(){ return new RegExp(", Lit(StrV(c.src)), ",", Lit(StrV(c.flags)), "); })">>)
      [] c.fam = "rs" ->                           \* String searchValue
           <<"G(function(){ var L = [], s = ", Lit(StrV(c.s)), ", x = [s.replace(", Lit(StrV(c.search)), ", ">>
           \o (IF c.m = "ret" THEN <<"function(){ L.push(Array.prototype.slice.call(arguments)); return ", Lit(c.ret), "; }">> ELSE <<Lit(StrV(c.rep))>>)
           \o <<"), L]; return x; })">>
      [] c.fam = "props" -> <<"PROPS(">> \o Ctor(c.form, c.src, c.flags) \o <<")">>
      [] c.fam = "strm" ->
           <<"G(function(){ var r = ">> \o Ctor(c.form, c.src, c.flags) \o <<", L = [], s = ", Lit(StrV(c.s)), "; r.lastIndex = ", Lit(c.li), "; var x = ">>
           \o (CASE c.m = "ctor" -> <<"'constructed'">>
                 [] c.m = "exec" -> <<"r.exec(s)">>
                 [] c.m = "test" -> <<"r.test(s)">>
                 [] c.m = "match" -> <<"s.match(r)">>
                 [] c.m = "search" -> <<"s.search(r)">>
                 [] c.m = "split" -> IF c.lim.t = "undef" /\ c.omit THEN <<"s.split(r)">> ELSE <<"s.split(r, ", Lit(c.lim), ")">>
                 [] c.m = "replace" -> <<"[s.replace(r, ", Lit(StrV(c.rep)), "), L]">>
                 [] c.m = "replaceret" -> <<"[s.replace(r, function(){ L.push(Array.prototype.slice.call(arguments)); return ", Lit(c.ret), "; }), L]">>
                 [] c.m = "replacefn" -> <<"[s.replace(r, function(){ L.push(Array.prototype.slice.call(arguments)); return '[' + arguments[0] + ']'; }), L]">>)
           \o <<"; return [x, r.lastIndex]; })">>

Ok(v) == [thr |-> "", v |-> v, log |-> <<>>]
Pair(a, b) == [t |-> "arr", a |-> <<a, b>>]

(* the outcome the specification prescribes; d = under the open deviations *)
Expect(d, c) ==
    CASE c.fam = "exec" ->
           LET k == IF d THEN L!RxConstruct(c.src, c.flags) ELSE S!RxConstruct(c.src, c.flags) IN
           IF k.thr # "" THEN [thr |-> k.thr, v |-> Undef, log |-> <<>>]
           ELSE Ok([t |-> "arr", a |-> [i \in 1..Len(c.subj) |->
                       LET x == IF d THEN L!RxExec(k.X, c.subj[i]) ELSE S!RxExec(k.X, c.subj[i])
                       IN  Pair(x.v, x.R.li)]])
      [] c.fam = "syn" ->
           LET k == IF d THEN L!RxConstructF(c.src, c.flags, c.form) ELSE S!RxConstructF(c.src, c.flags, c.form) IN
           Ok(StrV(IF k.thr = "" THEN <<111, 107>>                                              \* "ok"
                   ELSE IF k.thr = "SyntaxError" THEN <<83, 121, 110, 116, 97, 120, 69, 114, 114, 111, 114>>
                   ELSE IF k.thr = "TypeError" THEN <<84, 121, 112, 101, 69, 114, 114, 111, 114>>
                   ELSE <<69, 114, 114, 111, 114>>))                                             \* "Error": any error class
      [] c.fam = "rs" ->
           LET rv == IF c.m = "ret" THEN [k |-> "fnret", v |-> c.ret] ELSE [k |-> "str", s |-> c.rep]
               x == IF d THEN L!RxStrReplaceS(c.s, c.search, rv) ELSE S!RxStrReplaceS(c.s, c.search, rv)
           IN  [thr |-> "", v |-> x.v, log |-> x.clog]
      [] c.fam = "props" -> Ok(S!RxProps(S!RxNew(c.src, c.flags)))
      [] c.fam = "strm" ->
           LET k == IF d THEN L!RxConstructF(c.src, c.flags, c.form) ELSE S!RxConstructF(c.src, c.flags, c.form)
               X0 == [k.X EXCEPT !.li = c.li]
               x == CASE c.m = "ctor" -> [R |-> X0, v |-> StrV(<<99, 111, 110, 115, 116, 114, 117, 99, 116, 101, 100>>)]
                      [] c.m = "exec" -> (LET y == IF d THEN L!RxExec(X0, c.s) ELSE S!RxExec(X0, c.s) IN [R |-> y.R, v |-> y.v])
                      [] c.m = "test" -> IF d THEN L!RxTest(X0, c.s) ELSE S!RxTest(X0, c.s)
                      [] c.m = "match" -> IF d THEN L!RxStrMatch(X0, c.s) ELSE S!RxStrMatch(X0, c.s)
                      [] c.m = "search" -> IF d THEN L!RxStrSearch(X0, c.s) ELSE S!RxStrSearch(X0, c.s)
                      [] c.m = "split" -> IF d THEN L!RxStrSplit(X0, c.s, c.lim) ELSE S!RxStrSplit(X0, c.s, c.lim)
                      [] c.m = "replace" -> IF d THEN L!RxStrReplace(X0, c.s, [k |-> "str", s |-> c.rep])
                                            ELSE S!RxStrReplace(X0, c.s, [k |-> "str", s |-> c.rep])
                      [] c.m = "replacefn" -> IF d THEN L!RxStrReplace(X0, c.s, [k |-> "fn"]) ELSE S!RxStrReplace(X0, c.s, [k |-> "fn"])
                      [] c.m = "replaceret" -> IF d THEN L!RxStrReplace(X0, c.s, [k |-> "fnret", v |-> c.ret])
                                               ELSE S!RxStrReplace(X0, c.s, [k |-> "fnret", v |-> c.ret])
           IN  IF k.thr # "" THEN [thr |-> k.thr, v |-> Undef, log |-> <<>>]
               ELSE [thr |-> "", v |-> Pair(x.v, x.R.li), log |-> IF c.m = "replaceret" THEN x.clog ELSE <<>>]

(* classification of a pattern text for the direct translation pass *)
Cls(d, src) ==
    LET k == IF d THEN L!RxConstruct(src, <<>>) ELSE S!RxConstruct(src, <<>>)
        c == IF d THEN L!RxClassify(src, <<>>) ELSE S!RxClassify(src, <<>>)
    IN  IF k.thr = "" THEN "ok" ELSE IF c = "ok" THEN "syntax" ELSE c

-----------------------------------------------------------------------------
(* Evaluation is spread over the TLC workers: an initial state is a block,   *)
(* its successors are the cases of the block.                                *)
K == 64
None == [fam |-> "none"]
Pick(k, T) == IF k = 0 \/ k >= Cardinality(T) THEN T ELSE RandomSubset(k, T)
Subjects(fam, src) ==                            \* the subjects of one exec case
    LET ws == SetToSeq(Pick(IF fam = "f1" THEN 2 * NSel ELSE NSel, 1..NSubj))
        base == [i \in 1..Len(ws) |-> SubjSeq[ws[i]]]
    IN  IF fam = "f1" THEN base \o Special1Seq ELSE IF fam = "esc" THEN SpecialSeq \o <<src>> ELSE base
StrmSubj == SubjSeq \o <<<<233, 97>>, <<97, 233, 97>>, <<233>>, <<20013, 97, 233>>>>      \* + e-acute, U+4E2D: byte and unit offsets differ

StrmOps(nc) ==                                   \* the method variants for a pattern with nc captures
    {[m |-> "match"], [m |-> "search"], [m |-> "replacefn"]}
    \cup {[m |-> "split", lim |-> Limits[i], omit |-> FALSE] : i \in 1..Len(Limits)} \cup {[m |-> "split", lim |-> Undef, omit |-> TRUE]}
    \cup {[m |-> "replace", rep |-> X_Repls[i]] : i \in {j \in 1..Len(X_Repls) : S!RxReplDefined(X_Repls[j], nc)}}

(* what the function replacer returns: every $-form as a string, and values that are not strings *)
FnRets == {StrV(X_FnRet[i]) : i \in 1..Len(X_FnRet)}
          \cup {IntV(5), NumV(Canon(FALSE, <<3>>, -1)), Undef, Null, BoolV(TRUE),
                [t |-> "cobj", id |-> 9, vo |-> [k |-> "inherit"], ts |-> [k |-> "ret", v |-> StrV(<<36, 38, 33>>)]],          \* toString: "$&!"
                [t |-> "cobj", id |-> 8, vo |-> [k |-> "ret", v |-> IntV(7)], ts |-> [k |-> "retobj"]]}                      \* toString gives an object: valueOf
BytePats == <<<<97>>, <<46>>, <<233>>, <<91, 94, 97, 93>>, <<92, 87>>, <<40, 46, 41, 40, 97, 41, 63>>, <<36>>, <<46, 46>>, <<92, 98>>, <<>>, <<92, 119, 42>>>>
ByteSubj == <<<<233, 97>>, <<97, 233, 97>>, <<20013, 97>>, <<233>>, <<97, 20013, 233>>, <<97, 97>>>>
Block(seq, b) == Pick(NPat, {i \in 1..Len(seq) : i % K = b - 1})
Init == blk \in Fams \X (1..K) /\ cs = None
Next ==
    LET fam == blk[1]  b == blk[2] IN
    /\ cs = None
    /\ UNCHANGED blk
    /\ IF ExecFam(fam)
       THEN \E j \in Block(PatSeq(fam), b), f \in 1..Len(ExecFlags(fam)) :
               LET src == PatSeq(fam)[j] IN
               /\ S!RxClassify(src, <<>>) = "ok"
               /\ LET form == IF BothForms(fam) \/ (j + f) % 2 = 0 THEN "lit" ELSE "ctor"
                      c0 == [fam |-> "exec", src |-> src, flags |-> ExecFlags(fam)[f], subj |-> Subjects(fam, src)]
                  IN  \/ (src # <<>> /\ form = "lit" /\ cs' = c0 @@ [form |-> "lit"])
                      \/ ((BothForms(fam) \/ form = "ctor") /\ cs' = c0 @@ [form |-> "ctor"])
       ELSE IF fam = "syntax"
       THEN \/ \E j \in {i \in 1..Len(SynSeq(fam)) : i % K = b - 1}, form \in {"lit", "ctor"} :
                  LET src == SynSeq(fam)[j] IN
                  /\ S!RxClassify(src, <<>>) # "lax"
                  /\ ~(form = "lit" /\ src = <<>>)
                  /\ ~(form = "lit" /\ \E i \in 1..Len(src) : src[i] \in {47, 10, 13, 8232, 8233})
                  /\ ~(form = "lit" /\ src[Len(src)] = 92)                                    \* "\/" would continue the literal
                  /\ cs' = [fam |-> "syn", form |-> form, src |-> src, flags |-> <<>>]
            \/ /\ b = 1
               /\ \E fl \in SeqSet(X_BadFlags) \cup SeqSet(X_GoodFlags), form \in {"lit", "ctor"} :
                     /\ ~(form = "lit" /\ \E i \in 1..Len(fl) : fl[i] = 32)
                     /\ \/ cs' = [fam |-> "syn", form |-> form, src |-> <<97>>, flags |-> fl]
                        \/ (fl \in SeqSet(X_GoodFlags) /\ cs' = [fam |-> "props", form |-> form, src |-> <<97, 124, 40, 98, 41>>, flags |-> fl])
       ELSE IF fam = "strm"
       THEN \E j \in {i \in 1..Len(PatSeq(fam)) : i % K = b - 1}, fl \in {<<>>, <<103>>, <<103, 105>>} :
               LET P == S!RxParse(PatSeq(fam)[j]) IN
               /\ P.ok /\ ~S!RxUnsupported(P)
               /\ \E si \in Pick(NStrm, 1..Len(StrmSubj)), o \in StrmOps(P.nc), li \in {IntV(0), IntV(1)} :
                     cs' = o @@ [fam |-> "strm", form |-> IF PatSeq(fam)[j] = <<>> \/ si % 2 = 0 THEN "ctor" ELSE "lit",
                                 src |-> PatSeq(fam)[j], flags |-> fl, s |-> StrmSubj[si], li |-> li]
       ELSE IF fam = "repl"
       THEN \E pi \in {i \in 1..Len(X_ReplPats) : i % K = b - 1}, fl \in {<<>>, <<103>>}, si \in 1..Len(X_ReplSubj) :
               \/ \E ti \in 1..Len(X_ReplT) :
                     cs' = [fam |-> "strm", m |-> "replace", form |-> IF (pi + ti) % 2 = 0 THEN "lit" ELSE "ctor", src |-> X_ReplPats[pi], flags |-> fl,
                            s |-> X_ReplSubj[si], li |-> IntV(0), rep |-> X_ReplT[ti]]
               \/ cs' = [fam |-> "strm", m |-> "replacefn", form |-> "lit", src |-> X_ReplPats[pi], flags |-> fl, s |-> X_ReplSubj[si], li |-> IntV(0)]
       ELSE IF fam = "replfn"
       THEN \E si \in {i \in 1..Len(X_FnSubj) : i % K = b - 1} :
               \/ \E pi \in 1..Len(X_FnPats), fl \in {<<>>, <<103>>}, ret \in FnRets :
                     cs' = [fam |-> "strm", m |-> "replaceret", form |-> "lit", src |-> X_FnPats[pi], flags |-> fl, s |-> X_FnSubj[si], li |-> IntV(0), ret |-> ret]
               \/ \E qi \in 1..Len(X_FnSearch), ret \in FnRets :
                     cs' = [fam |-> "rs", m |-> "ret", s |-> X_FnSubj[si], search |-> X_FnSearch[qi], ret |-> ret]
               \/ \E qi \in 1..Len(X_FnSearch), ti \in 1..Len(X_ReplT) :
                     cs' = [fam |-> "rs", m |-> "str", s |-> X_FnSubj[si], search |-> X_FnSearch[qi], rep |-> X_ReplT[ti]]
       ELSE IF fam = "bytes"
       THEN \/ /\ b <= Len(BytePats)
               /\ \E si \in 1..Len(ByteSubj), li \in 0..8 :
                     /\ li <= S!Utf8Len(ByteSubj[si]) + 1
                     /\ cs' = [fam |-> "strm", m |-> "exec", form |-> "ctor", src |-> BytePats[b], flags |-> <<103>>, s |-> ByteSubj[si], li |-> IntV(li)]
            \/ /\ b = K                             \* targeted: two-digit capture references with 12 captures
               /\ \E sj \in {<<97, 98>>, <<97, 97, 98>>, <<98, 97, 98, 97, 98>>}, fl \in {<<>>, <<103>>},
                      ri \in {j \in 1..Len(X_Repls) : S!RxReplDefined(X_Repls[j], 12)} :
                     cs' = [fam |-> "strm", m |-> "replace", form |-> "lit", src |-> <<40, 97, 41>> \o Twelve \o <<40, 98, 41>>, flags |-> fl,
                            s |-> sj, li |-> IntV(0), rep |-> X_Repls[ri]]
       ELSE \* "xlate"
            \E j \in {i \in 1..Len(SynSeq(fam)) : i % K = b - 1} : cs' = [fam |-> "xlate", src |-> SynSeq(fam)[j]]

Emit ==
    cs = None \/
    IF cs.fam = "xlate"
    THEN PrintT("VJSON " \o ToJson([src |-> cs.src, cls |-> Cls(FALSE, cs.src), dev |-> Cls(TRUE, cs.src)]))
    ELSE LET es == Expect(FALSE, cs)
             ed == Expect(TRUE, cs)
             c == IF cs.fam = "exec" THEN [fam |-> "exec", src |-> cs.src, flags |-> cs.flags, form |-> cs.form, n |-> Len(cs.subj)] ELSE cs
         IN  PrintT("VJSON " \o ToJson([c |-> c, js |-> Js(cs), exp |-> es, dev |-> IF ed = es THEN <<>> ELSE <<ed>>]))
=============================================================================
