#!/usr/bin/env python3
"""Generates C06Str.tla: the hand-chosen strings of property C06 (near-miss
mutations of numeric literals, boundary decimals, white space, radix digits)
as sequences of UTF-16 code units.  Only the DOMAIN is written here; every
expected result is computed by the specification (NumFmt.tla)."""
import sys, random

def units(s):
    b = s.encode('utf-16-be', 'surrogatepass')
    return [int.from_bytes(b[i:i+2], 'big') for i in range(0, len(b), 2)]

def tup(s):
    return "<<%s>>" % ", ".join(map(str, units(s)))

rnd = random.Random(6)

# strings handed to Number(), unary +, parseFloat and parseInt (all radixes)
text = [
 "", " ", "1", "0", "-0", "+0", "-0.0", "-0e5", "-", "+", ".", "-.", "+.", "+.5", "-.5", "5.", ".5.", "5..", "1.5.5",
 "1_0", "1__0", "_1", "1_", "1_.5", "1._5", "1e5_0", "1e_5", "1_e5", "0x_1p0", "0_1",
 "Infinity", "-Infinity", "+Infinity", "infinity", "INFINITY", "-INFINITY", "+INFINITYx", "INFINITYx", "iNfInItY",
 "Infinit", "Infini", "Inf", "inf", "-inf", "-INF", "+INF", "INF", "INFx", "+INFx", "1inf", "1Inf", "1INF", "5infinity5",
 "xinfinity", "Infinityx", "Infinity1", "InfinityInfinity", "Infinitye5", " Infinity ", "- Infinity", "+-Infinity",
 "nan", "NaN", "NaNx", "nanx", "+nan", "-nan",
 "0x", "0X", "0x1", "0X1F", "0xff", "0xg", "0x1g", "0x1p3", "0x1.8p1", "0x.8p1", "0X1P-2", "-0x1p3", "+0x1p3", "0x1p", "0x1p+",
 "0x1p99999", "0x1p-99999", "0x1p1024", "0x1p1023", "0x1.fffffffffffff8p1023", "0x1.fffffffffffff7p1023", "0x1.p1", "0x.p1",
 "0x1e3", "0x1e3p1", "0x10", "-0x10", "+0x10", "0x8000000000000401", "0x8000000000000400", "0x20000000000001",
 "0b1", "0o7", "0B1", "0O7", "010", "08", "09", "00", "0777",
 "1e", "1e+", "1e-", "1e+5", "1e-5", "1E5", "1E+05", "1e5x", "1e5.5", "1e5e5", "1.5e", ".e5", "1.e5", ".5e1", "1..5", "e5", "E5",
 "1e1000", "-1e1000", "1e309", "1e308", "2e308", "1.7976931348623157e308", "1.7976931348623158e308",
 "1.7976931348623159e308", "1.797693134862315808e308", "17976931348623157e292", "0.00001e314", "1e99999", "1e-99999", "1e100000",
 "1e-400", "-1e-400", "5e-324", "4.9e-324", "3e-324", "2e-324", "2.4703282292062327e-324", "2.4703282292062328e-324",
 "2.2250738585072014e-308", "2.2250738585072011e-308", "2.2250738585072012e-308", "4.4501477170144023e-308",
 "0.1", "0.2", "0.3", "0.7", "1.1", "123.456", "0.000001", "0.0000001", "1e21", "1e-7", "100000000000000000000", "1000000000000000000000",
 "9007199254740992", "9007199254740993", "9007199254740994", "9007199254740995", "9007199254740997",
 "9223372036854775807", "9223372036854775808", "9223372036854775809", "9223372036854776833", "9223372036854777856",
 "18446744073709551615", "18446744073709551616", "18446744073709551617", "18446744073709553665", "99999999999999999999",
 "12345678901234567890", "00000000000000000000001", "0.00000000000000000000001", "-9223372036854775808", "-9223372036854775809",
 "8000000000000401", "8000000000000400", "ffffffffffffffff", "fffffffffffff800", "fffffffffffffbff", "fffffffffffffc00", "10000000000000000",
 "1000000000000000000000000000000000000000000000000000000000000000", "1111111111111111111111111111111111111111111111111111111111111111",
 "1000000000000000000000000000000000000000000000000010000000000001", "1000000000000000000000000000000000000000000000000000010000000001",
 "zz", "-zz", "Z", "z", "10", "19", "1a", "a1", "12abc", "  -12", "+-1", "-+1", "--1", "++1", "0.9", "-0.9", "-0.1", "1e3", "0e", "7", "77", "-77", "1 2", "1,2",
 "\t1", "\n1", "\u000b1", "\u000c1", "\r1", "\u00a01", "\ufeff1", "\u20281", "\u20291", "\u30001", "\u16801", "\u2000\u2001\u200a1", "\u202f1", "\u205f1",
 "1 ", "1\n", "1\ufeff", "\u00a01\u00a0", "\u200b1", "1\u200b", "\u00851", "\u00a0", "\ufeff", "\u0663", "\uff11", "1\u0663", "\u00e9", "1\u00e9",
 " \t-0x1F ", "\n+12e1\n", " .5 ", "- 1", "+ 1", "1 e5", "1e 5", "1. 5",
]
# random 19/20-digit decimals beyond 2^63 (parseInt keeps <= 20 significant digits exact)
for _ in range(24):
    text.append(str(rnd.randrange(2**63, 10**20)))
# random hex digit strings of 17..20 digits (beyond 2^64) and around 2^63
for _ in range(16):
    text.append("%x" % rnd.randrange(2**63, 2**80))
    text.append("0x%x" % rnd.randrange(2**63, 2**70))
# long digit strings in power-of-two radixes (exact for parseInt)
for _ in range(8):
    text.append("".join(rnd.choice("01") for _ in range(rnd.randrange(60, 90))))
    text.append("".join(rnd.choice("01234567") for _ in range(rnd.randrange(20, 30))))

# program texts for the literal family (7.8.3, B.1.1)
lit = [
 "0", "00", "000", "07", "08", "09", "010", "0777", "078", "0.5", "00.5", "07.5", "0e1", "0.e1", "0.0e-0", "0e", "0e+",
 "1e+1", "1e-1", "1E+2", "1e+", "1e-", ".5e+1", ".5e-1", "5.e-1", "5.e+", "1_0", "1_", "0b1", "0o7", "0x", "0X", "0xg", "0X1f", "0x1F",
 "0xabcdef", "0xABCDEF", "0x1p3", "0x1.8", "0x1fffffffffffff", "0x20000000000001", "0x20000000000003", "0x7fffffffffffffff",
 "0x7ffffffffffffdff", "0x7ffffffffffffe00", "0x8000000000000000", "0x8000000000000400", "0x8000000000000401", "0x8000000000000bff",
 "0x8000000000000c00", "0x8000000000000c01", "0xffffffffffffffff", "0xfffffffffffffbff", "0xfffffffffffffc00", "0x10000000000000000",
 "0x10000000000000001", "0x123456789abcdef01", "0x0000000000000000000001",
 "0777777777777777777777", "01000000000000000000000", "01000000000000000000001", "01777777777777777777777", "02000000000000000000000",
 "9007199254740993", "9007199254740995", "9223372036854775807", "9223372036854775808", "9223372036854776833", "18446744073709551616",
 "12345678901234567890", "99999999999999999999", "1.7976931348623157e308", "1.7976931348623158e308", "1.7976931348623159e308", "1e309", "1e308",
 "5e-324", "3e-324", "2e-324", "2.4703282292062327e-324", "2.4703282292062328e-324", "1e-400", "0.000001", "0.0000001", "1e21", "1e-7",
 "2.2250738585072011e-308", "2.2250738585072014e-308", "0.1", "0.3", "123.456", "1e1000", "1e99999", "1e-99999", "0.00001e314",
 "1.5.e", "1..e", "1.e", "1.5.e1", "1.5.5", "1..", "1.", "1...e", "01.e", "0x1.e", "1e1.e", "1.5.$", "1.5._", "1.5.e.f", ".", "..", ".e", ".e1", ".5", ".5.",
 "1$", "1a", "1e", "3in", "1x",
]
for _ in range(16):
    lit.append("0x%x" % rnd.randrange(2**63, 2**72))
    lit.append("%d" % rnd.randrange(2**63, 10**20))

def dedup(xs):
    seen, out = set(), []
    for x in xs:
        if x not in seen:
            seen.add(x); out.append(x)
    return out
text, lit = dedup(text), dedup(lit)

out = ["---- MODULE C06Str ----", "(* GENERATED by gen_c06str.py - do not edit *)"]
out.append("XText == <<\n  %s\n>>" % ",\n  ".join(tup(s) for s in text))
out.append("XLit == <<\n  %s\n>>" % ",\n  ".join(tup(s) for s in lit))
out.append("====")
open(sys.argv[1] if len(sys.argv) > 1 else "C06Str.tla", "w").write("\n".join(out) + "\n")
print(len(text), "text strings;", len(lit), "literal texts")
