------------------------------ MODULE C09Judge ------------------------------
(* Judge direction of property C09 (code -> specification): the harness      *)
(* draws random cases from a wider domain than C09.tla enumerates (longer    *)
(* strings over a pool of ASCII, Latin-1, Greek, Cyrillic, CJK, special and  *)
(* astral characters; random positions, search strings, separators, limits), *)
(* evaluates them on the implementation and records one line per case in     *)
(* trace.ndjson:  a case record of C09.tla (f, m, th, st, a ...) plus         *)
(*   i   |-> index,   got |-> the observed outcome [thr, v, log].            *)
(* The specification recomputes the outcome of every line; only mismatches   *)
(* are printed, with the outcome under the open named deviations and whether *)
(* the observation equals it.                                                *)
EXTENDS C09
CONSTANT NB
File == ndJsonDeserialize("trace.ndjson")
JInit == cs = None /\ blk \in {<<"judge", b>> : b \in 1..NB}
JNext == /\ cs = None
         /\ UNCHANGED blk
         /\ \E j \in {k \in 1..Len(File) : k % NB = blk[2] - 1} : cs' = File[j]
Judge ==
    cs = None \/
    LET want == Expect(S!Call, S!FromCharCode, S!Access, S!StringCall, S!ThisStringValue, cs)
    IN  want = cs.got \/
        LET d == Expect(L!Call, L!FromCharCode, L!Access, L!StringCall, L!ThisStringValue, cs)
        IN  PrintT("VJSON " \o ToJson([i |-> cs.i, want |-> want, dev |-> d, known |-> (d = cs.got)]))
=============================================================================
