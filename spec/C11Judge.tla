------------------------------ MODULE C11Judge ------------------------------
(* Judge for property C11 (direction code -> specification).  Every line of  *)
(* trace.ndjson is a result recorded on the implementation:                  *)
(*   [kind |-> "text", id, got, want]   got: the text JSON.stringify         *)
(*        returned; want: the text 15.12.3 prescribes, followed by the texts *)
(*        permitted under open findings.  Verdict m: the index of the first  *)
(*        wanted text that got equals after canonical respelling of its      *)
(*        string and number tokens (JSONSpec!Normalise), 0 if none.          *)
(*   [kind |-> "num", id, n, got, back] n: a double; got: JSON.stringify(n); *)
(*        back: what JSON.parse(got) gave.  m = 1 iff got respells to        *)
(*        ToString(n) (15.12.3 Str step 9), the specification's recogniser   *)
(*        reads n from got (15.12.1) and back is n.                          *)
(*   [kind |-> "str", id, s, got, back] likewise with Quote(s).              *)
(*   [kind |-> "tree", id, v, gap, got, back] v: a JSON value tree drawn by   *)
(*        the harness; got: JSON.stringify(v, null, gap); back: what          *)
(*        JSON.parse(got) gave.  m = 1 iff got respells to the text 15.12.3   *)
(*        prescribes, the recogniser reads v from it and back is v; m = 2 iff *)
(*        the same holds for the specification with the open findings.        *)
(*   [kind |-> "textmo", id, got, want] got: a text produced on the Go side  *)
(*        from an exported value (Export + json.Marshal: a Go map has no     *)
(*        member order); want as for "text".  Verdict m: the index of the    *)
(*        first wanted text such that got is a JSON text (15.12.1) denoting   *)
(*        the value that text denotes, up to the order of members; 0 if none. *)
(* One verdict line per record.                                              *)
EXTENDS NumText, Json, TLC
CONSTANT OpenDev
VARIABLES blk, cs

J == INSTANCE JSONSpec WITH Dev <- {}
L == INSTANCE JSONSpec WITH Dev <- OpenDev
NoRp == [k |-> "none"]
File == ndJsonDeserialize("trace.ndjson")

RECURSIVE FirstEq(_, _, _)
FirstEq(want, s, j) == IF j > Len(want) THEN 0 ELSE IF want[j] = s THEN j ELSE FirstEq(want, s, j + 1)

RECURSIVE FirstEqMO(_, _, _)
FirstEqMO(want, v, j) ==
    IF j > Len(want) THEN 0
    ELSE LET q == J!ParseText(want[j])
         IN  IF q.ok /\ J!EqModOrder(q.v, v) THEN j ELSE FirstEqMO(want, v, j + 1)

Verdict(ev) ==
    LET nrm == J!Normalise(ev.got)
    IN  CASE ev.kind = "text" -> IF nrm.ok THEN FirstEq(ev.want, nrm.s, 1) ELSE 0
          [] ev.kind = "textmo" -> (LET p == J!ParseText(ev.got) IN IF p.ok THEN FirstEqMO(ev.want, p.v, 1) ELSE 0)
          [] ev.kind = "num" ->
                (LET p == J!ParseText(ev.got)
                     txt == IF IsFinite(ev.n) THEN NumToStr(ev.n) ELSE J!S_lit_null
                     val == IF ev.n = NZero THEN I(0) ELSE ev.n            \* ToString(-0) is "0"
                 IN  IF nrm.ok /\ nrm.s = txt /\ p.ok /\ p.v = NumV(val) /\ ev.back = NumV(val) THEN 1 ELSE 0)
          [] ev.kind = "tree" ->
                (LET es == J!Stringify(ev.v, NoRp, IntV(ev.gap))
                     el == L!Stringify(ev.v, NoRp, IntV(ev.gap))
                     ps == J!ParseText(ev.got)
                     pl == L!ParseText(ev.got)
                 IN  IF nrm.ok /\ nrm.s = es.s /\ ps.ok /\ ps.v = ev.v /\ J!ParsePermits(ev.got, ev.back) THEN 1
                     ELSE IF nrm.ok /\ nrm.s \in {es.s, el.s} /\ pl.ok /\ J!EqModOrder(pl.v, ev.v) /\ L!ParsePermits(ev.got, ev.back) THEN 2
                     ELSE 0)
          [] ev.kind = "str" ->
                (LET p == J!ParseText(ev.got)
                 IN  IF nrm.ok /\ nrm.s = J!Quote(ev.s) /\ p.ok /\ p.v = StrV(ev.s) /\ ev.back = StrV(ev.s) THEN 1 ELSE 0)

K == 64
Init == blk \in 1..K /\ cs = 0
Next == cs = 0 /\ UNCHANGED blk /\ \E j \in {i \in 1..Len(File) : i % K = blk - 1} : cs' = j
Emit == cs = 0 \/ PrintT("VJSON " \o ToJson([id |-> File[cs].id, m |-> Verdict(File[cs])]))
=============================================================================
