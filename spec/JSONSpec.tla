------------------------------ MODULE JSONSpec ------------------------------
(* ES5 15.12: the JSON object.                                               *)
(*   15.12.1  the JSON lexical and syntactic grammar as a recursive-descent  *)
(*            recogniser over UTF-16 code units that builds the value the    *)
(*            text denotes (15.12.2 step 2-3: evaluated as an ES5 literal);  *)
(*   15.12.2  parse: Walk with a scripted reviver and a call log;            *)
(*   15.12.3  stringify: Str / JO / JA / Quote over a model of JavaScript    *)
(*            values with scripted toJSON methods, replacer functions,       *)
(*            property lists, wrapper objects and back references (cycles).  *)
(*                                                                           *)
(* JSON value trees (parse results, snapshots):                              *)
(*   a primitive Val | [t |-> "arr", items |-> <<tree or Hole>>]             *)
(*   | [t |-> "obj", members |-> <<[key |-> units, val |-> tree]>>]          *)
(* JavaScript values handed to stringify additionally:                       *)
(*   [t |-> "fn", id, beh]          a function; beh scripts what it returns  *)
(*                                  when it is the toJSON member of an object*)
(*   [t |-> "wrap", cls, v]         Number / String / Boolean object         *)
(*   [t |-> "up", up]               the up-th enclosing container (a cycle)  *)
(* Known deviations of the implementation are the branches D("D11_...").     *)
EXTENDS NumText, TLC
CONSTANT Dev
D(x) == x \in Dev

Arr(items)   == [t |-> "arr", items |-> items]
Obj(members) == [t |-> "obj", members |-> members]
Mem(k, v)    == [key |-> k, val |-> v]
Hole         == [t |-> "hole"]
Fn(id, beh)  == [t |-> "fn", id |-> id, beh |-> beh]
Wrap(cls, p) == [t |-> "wrap", cls |-> cls, v |-> p]
Up(n)        == [t |-> "up", up |-> n]

IsContainer(v) == v.t \in {"arr", "obj"}
IsObjectType(v) == v.t \in {"arr", "obj", "fn", "wrap"}

-----------------------------------------------------------------------------
(* helpers on member lists and trees                                         *)

RECURSIVE MemIdxAt(_, _, _)
MemIdxAt(ms, k, i) == IF i > Len(ms) THEN 0 ELSE IF ms[i].key = k THEN i ELSE MemIdxAt(ms, k, i + 1)
MemIdx(ms, k) == MemIdxAt(ms, k, 1)

(* [[DefineOwnProperty]] of a data property {value, w:true, e:true, c:true}: *)
(* an existing property keeps its position (8.12.9), a new one is appended   *)
MemDefine(ms, k, v) ==
    LET i == MemIdx(ms, k)
    IN  IF i = 0 THEN Append(ms, Mem(k, v)) ELSE [ms EXCEPT ![i] = Mem(k, v)]
MemDelete(ms, k) ==
    LET i == MemIdx(ms, k)
    IN  IF i = 0 THEN ms ELSE SubSeq(ms, 1, i - 1) \o SubSeq(ms, i + 1, Len(ms))

(* value of the array-index name p (canonical decimal digits), or -1 *)
IdxOf(p) == IF IsArrayIndex(p) /\ Len(p) <= 4 THEN BnToInt(BnOfDigits(p)) ELSE -1

(* [[Get]] on a model object: own data properties only (the prototype chain  *)
(* of the generated objects holds nothing the algorithms ask for)            *)
TreeGet(h, name) ==
    IF h.t = "arr" THEN
        (LET i == IdxOf(name)
         IN  IF i >= 0 /\ i < Len(h.items) THEN (IF h.items[i + 1].t = "hole" THEN Undef ELSE h.items[i + 1])
             ELSE Undef)
    ELSE IF h.t = "obj" THEN
        (LET i == MemIdx(h.members, name) IN IF i = 0 THEN Undef ELSE h.members[i].val)
    ELSE Undef

TreeHas(h, name) ==
    IF h.t = "arr" THEN (LET i == IdxOf(name) IN i >= 0 /\ i < Len(h.items) /\ h.items[i + 1].t # "hole")
    ELSE IF h.t = "obj" THEN MemIdx(h.members, name) # 0
    ELSE FALSE

(* replace the value of an existing property (the same object mutated in place) *)
TreeSet(h, name, v) ==
    IF ~TreeHas(h, name) THEN h
    ELSE IF h.t = "arr" THEN [h EXCEPT !.items[IdxOf(name) + 1] = v]
    ELSE [h EXCEPT !.members = MemDefine(h.members, name, v)]

TreeDefine(h, name, v) ==
    IF h.t = "arr" THEN
        (LET i == IdxOf(name)
         IN  IF i >= 0 /\ i < Len(h.items) THEN [h EXCEPT !.items[i + 1] = v]
             ELSE IF i >= Len(h.items) THEN                          \* 15.4.5.1: length becomes i + 1, the gap holds no elements
                  [h EXCEPT !.items = h.items \o [k \in 1..(i - Len(h.items)) |-> Hole] \o <<v>>]
             ELSE h)                                                 \* a non-index name on an array: not generated
    ELSE [h EXCEPT !.members = MemDefine(h.members, name, v)]

TreeDelete(h, name) ==
    IF h.t = "arr" THEN
        (LET i == IdxOf(name)
         IN  IF i >= 0 /\ i < Len(h.items) THEN [h EXCEPT !.items[i + 1] = Hole] ELSE h)
    ELSE [h EXCEPT !.members = MemDelete(h.members, name)]

(* assignment to the length of an array (15.4.5.1 step 3): truncate or extend with holes *)
TreeSetLen(h, n) ==
    IF h.t # "arr" THEN h
    ELSE IF n <= Len(h.items) THEN [h EXCEPT !.items = SubSeq(h.items, 1, n)]
    ELSE [h EXCEPT !.items = h.items \o [k \in 1..(n - Len(h.items)) |-> Hole]]

(* own enumerable property names in Object.keys order *)
KeysOf(v) ==
    IF v.t = "arr" THEN [i \in 1..Len(v.items) |-> DigitsNat(i - 1)]
    ELSE [i \in 1..Len(v.members) |-> v.members[i].key]

IsSurr(u)   == u >= 55296 /\ u <= 57343
IsHiSurr(u) == u >= 55296 /\ u <= 56319
IsLoSurr(u) == u >= 56320 /\ u <= 57343
(* unpaired surrogate code units replaced by U+FFFD (what a UTF-8 round trip does) *)
RECURSIVE FixSurrAt(_, _)
FixSurrAt(s, i) ==
    IF i > Len(s) THEN <<>>
    ELSE IF IsHiSurr(s[i]) /\ i < Len(s) /\ IsLoSurr(s[i + 1]) THEN <<s[i], s[i + 1]>> \o FixSurrAt(s, i + 2)
    ELSE IF IsSurr(s[i]) THEN <<65533>> \o FixSurrAt(s, i + 1)
    ELSE <<s[i]>> \o FixSurrAt(s, i + 1)
FixSurr(s) == FixSurrAt(s, 1)

-----------------------------------------------------------------------------
(* 15.12.1 The JSON grammar.  Parse results: [ok, v, i] with i the position  *)
(* after the construct.                                                      *)

PFail == [ok |-> FALSE, v |-> Null, i |-> 0]
POk(v, i) == [ok |-> TRUE, v |-> v, i |-> i]

(* 15.12.1.1 JSONWhiteSpace :: <TAB> <CR> <LF> <SP> *)
IsJWS(u) == u \in {9, 10, 13, 32}
RECURSIVE JSkip(_, _)
JSkip(s, i) == IF i <= Len(s) /\ IsJWS(s[i]) THEN JSkip(s, i + 1) ELSE i

(* JSONEscapeCharacter :: one of " / \ b f n r t *)
EscVal(e) == CASE e = 34 -> 34 [] e = 47 -> 47 [] e = 92 -> 92 [] e = 98 -> 8 [] e = 102 -> 12
               [] e = 110 -> 10 [] e = 114 -> 13 [] e = 116 -> 9
IsEsc(e) == e \in {34, 47, 92, 98, 102, 110, 114, 116}

(* JSONString :: " JSONStringCharacters? " ; i is the position after the     *)
(* opening quote.  JSONStringCharacter :: SourceCharacter but not one of     *)
(* " or \ or U+0000 through U+001F | \ JSONEscapeSequence                     *)
RECURSIVE JStrChars(_, _, _)
JStrChars(s, i, acc) ==
    IF Len(acc) < 0 \/ i > Len(s) THEN PFail
    ELSE LET c == s[i]
         IN  IF c = 34 THEN POk(acc, i + 1)
             ELSE IF c < 32 THEN PFail
             ELSE IF c # 92 THEN JStrChars(s, i + 1, Append(acc, c))
             ELSE IF i + 1 > Len(s) THEN PFail
             ELSE IF IsEsc(s[i + 1]) THEN JStrChars(s, i + 2, Append(acc, EscVal(s[i + 1])))
             ELSE IF s[i + 1] = 117 /\ i + 5 <= Len(s) /\ (\A k \in 2..5 : IsHexDigit(s[i + k]))
                  THEN JStrChars(s, i + 6, Append(acc, HexVal(s[i + 2]) * 4096 + HexVal(s[i + 3]) * 256
                                                       + HexVal(s[i + 4]) * 16 + HexVal(s[i + 5])))
             ELSE PFail

JString(s, i) ==          \* s[i] = 34
    LET r == JStrChars(s, i + 1, <<>>)
    IN  IF ~r.ok THEN PFail
        ELSE IF D("D11_lone_surrogate_fffd") THEN POk(FixSurr(r.v), r.i)   \* text and result pass through UTF-8
        ELSE r

(* JSONNumber :: -opt DecimalIntegerLiteral JSONFraction_opt ExponentPart_opt *)
(* value: 15.12.1.1 refers to 7.8.3 / 9.3.1: the mathematical value rounded   *)
JNumber(s, i) ==
    LET neg == s[i] = 45
        i0  == IF neg THEN i + 1 ELSE i
    IN  IF i0 > Len(s) \/ ~IsDigit(s[i0]) THEN PFail
        ELSE LET i1 == IF s[i0] = 48 THEN i0 + 1 ELSE SpanDigits(s, i0)     \* DecimalIntegerLiteral: 0 | NonZeroDigit DecimalDigits
                 hasDot == i1 <= Len(s) /\ s[i1] = 46
                 f0 == i1 + 1
                 f1 == IF hasDot THEN SpanDigits(s, f0) ELSE i1
                 hasExp == f1 <= Len(s) /\ s[f1] \in {101, 69}
                 hasSign == hasExp /\ f1 + 1 <= Len(s) /\ s[f1 + 1] \in {43, 45}
                 es == IF hasSign THEN f1 + 2 ELSE f1 + 1
                 eend == IF hasExp THEN SpanDigits(s, es) ELSE f1
             IN  IF hasDot /\ f1 = f0 THEN PFail                           \* JSONFraction :: . DecimalDigits
                 ELSE IF hasExp /\ eend = es THEN PFail                    \* ExponentPart needs digits
                 ELSE LET intD == SubSeq(s, i0, i1 - 1)
                          frD  == IF hasDot THEN SubSeq(s, f0, f1 - 1) ELSE <<>>
                          eabs == IF hasExp THEN SatNat(SubSeq(s, es, eend - 1), 1, 0) ELSE 0
                          ev   == IF hasSign /\ s[f1 + 1] = 45 THEN -eabs ELSE eabs
                          x    == DecToNum(neg, BnOfDigits(intD \o frD), ev - Len(frD))
                      IN  IF D("D11_parse_number_overflow") /\ IsInf(x) THEN PFail
                          ELSE POk(NumV(x), eend)

S_lit_true  == <<116, 114, 117, 101>>
S_lit_false == <<102, 97, 108, 115, 101>>
S_lit_null  == <<110, 117, 108, 108>>

RECURSIVE JValue(_, _), JElems(_, _, _), JMembers(_, _, _)
(* JSONValue :: JSONNullLiteral | JSONBooleanLiteral | JSONObject | JSONArray | JSONString | JSONNumber *)
JValue(s, i0) ==
    LET i == JSkip(s, i0)
    IN  IF i > Len(s) THEN PFail
        ELSE LET c == s[i]
             IN  IF c = 123 THEN                                   \* JSONObject :: { } | { JSONMemberList }
                     (LET j == JSkip(s, i + 1)
                      IN  IF j <= Len(s) /\ s[j] = 125 THEN POk(Obj(<<>>), j + 1) ELSE JMembers(s, j, <<>>))
                 ELSE IF c = 91 THEN                               \* JSONArray :: [ ] | [ JSONElementList ]
                     (LET j == JSkip(s, i + 1)
                      IN  IF j <= Len(s) /\ s[j] = 93 THEN POk(Arr(<<>>), j + 1) ELSE JElems(s, j, <<>>))
                 ELSE IF c = 34 THEN
                     (LET r == JString(s, i) IN IF r.ok THEN POk(StrV(r.v), r.i) ELSE PFail)
                 ELSE IF c = 45 \/ IsDigit(c) THEN JNumber(s, i)
                 ELSE IF StartsAt(s, S_lit_true, i) THEN POk(BoolV(TRUE), i + 4)
                 ELSE IF StartsAt(s, S_lit_false, i) THEN POk(BoolV(FALSE), i + 5)
                 ELSE IF StartsAt(s, S_lit_null, i) THEN POk(Null, i + 4)
                 ELSE PFail

(* JSONElementList :: JSONValue | JSONElementList , JSONValue *)
JElems(s, i, acc) ==
    LET r == JValue(s, i)
    IN  IF ~r.ok THEN PFail
        ELSE LET j == JSkip(s, r.i)
                 acc2 == Append(acc, r.v)
             IN  IF j > Len(s) \/ Len(acc2) < 0 THEN PFail
                 ELSE IF s[j] = 44 THEN JElems(s, j + 1, acc2)
                 ELSE IF s[j] = 93 THEN POk(Arr(acc2), j + 1)
                 ELSE PFail

(* JSONMemberList :: JSONMember | JSONMemberList , JSONMember ;              *)
(* JSONMember :: JSONString : JSONValue.  15.12.2: the text is evaluated as  *)
(* an object literal, so a repeated name redefines the property: the value   *)
(* of the last occurrence at the position of the first (11.1.5, 8.12.9).     *)
JMembers(s, i0, acc) ==
    LET i == JSkip(s, i0)
    IN  IF i > Len(s) \/ s[i] # 34 THEN PFail
        ELSE LET k == JString(s, i)
             IN  IF ~k.ok THEN PFail
                 ELSE LET c == JSkip(s, k.i)
                      IN  IF c > Len(s) \/ s[c] # 58 THEN PFail
                          ELSE LET r == JValue(s, c + 1)
                               IN  IF ~r.ok THEN PFail
                                   ELSE LET j == JSkip(s, r.i)
                                            acc2 == MemDefine(acc, k.v, r.v)
                                        IN  IF j > Len(s) \/ Len(acc2) < 0 THEN PFail
                                            ELSE IF s[j] = 44 THEN JMembers(s, j + 1, acc2)
                                            ELSE IF s[j] = 125 THEN POk(Obj(acc2), j + 1)
                                            ELSE PFail

(* JSONText :: JSONValue, surrounded by optional white space.                *)
(* 15.12.2 step 2: anything else is a SyntaxError.                           *)
ParseText(s) ==
    LET r == JValue(s, 1)
    IN  IF r.ok /\ JSkip(s, r.i) = Len(s) + 1 THEN [ok |-> TRUE, v |-> r.v] ELSE [ok |-> FALSE, v |-> Undef]

-----------------------------------------------------------------------------
(* all results the implementation may build when the member order of the     *)
(* objects it creates is arbitrary (deviation D11_parse_key_order)           *)
RECURSIVE SeqProduct(_)
SeqProduct(sets) ==        \* sequences choosing one element of each set
    IF Len(sets) = 0 THEN {<<>>}
    ELSE {<<x>> \o rest : x \in sets[1], rest \in SeqProduct(Tail(sets))}
RECURSIVE AllOrders(_)
AllOrders(v) ==
    IF v.t = "arr" THEN {Arr(items) : items \in SeqProduct([i \in 1..Len(v.items) |-> AllOrders(v.items[i])])}
    ELSE IF v.t = "obj" THEN
        LET n == Len(v.members)
        IN  UNION {{Obj([i \in 1..n |-> Mem(v.members[p[i]].key, vals[p[i]])]) : p \in Permutations(1..n)} :
                      vals \in SeqProduct([i \in 1..n |-> AllOrders(v.members[i].val)])}
    ELSE {v}

ParseTrees(v) == IF D("D11_parse_key_order") THEN AllOrders(v) ELSE {v}

(* the same relation as a predicate (no enumeration): equal up to the order  *)
(* of the members of every object (names are unique in a parse result)       *)
RECURSIVE EqModOrder(_, _)
EqModOrder(a, b) ==
    IF a.t # b.t THEN FALSE
    ELSE IF a.t = "arr" THEN /\ Len(a.items) = Len(b.items)
                             /\ \A i \in 1..Len(a.items) : EqModOrder(a.items[i], b.items[i])
    ELSE IF a.t = "obj" THEN /\ Len(a.members) = Len(b.members)
                             /\ \A i \in 1..Len(a.members) :
                                    LET j == MemIdx(b.members, a.members[i].key)
                                    IN  j # 0 /\ EqModOrder(a.members[i].val, b.members[j].val)
    ELSE a = b

-----------------------------------------------------------------------------
(* 15.12.2 Walk.  The reviver is a script rv; its calls are logged with the  *)
(* key, a snapshot of the value and a snapshot of the holder (this).         *)
(*   [k |-> "id"]                 returns the value                          *)
(*   [k |-> "undefkey", key]      undefined for that key                     *)
(*   [k |-> "undefall"]           undefined always                           *)
(*   [k |-> "num2str"]            replaces numbers by the string "n"         *)
(*   [k |-> "wrapstr"]            replaces a string s by the new array [s]   *)
(*   [k |-> "delsib", key, sib]   at key deletes property sib of the holder  *)
(*   [k |-> "addsib", key, sib]   at key adds property sib = 9 to the holder *)
(*   [k |-> "throwkey", key]      throws the string "RV" at that key         *)
(* revivers that restructure their holder while one of its elements is being *)
(* revived (Walk reads the length / takes the key list ONCE, step 2.a / 2.b); *)
(* they return the string "gone" for a value that has vanished (undefined):  *)
(*   [k |-> "setlen", key, n]     at key, if the holder is an array: this.length = n   *)
(*   [k |-> "push", key, v]       at key, if the holder is an array: this.push(v)      *)
(*   [k |-> "setel", key, sib, v] at key: this[sib] = v  (v may be a container: it is  *)
(*                                walked when sib is still to come)                    *)
S_gone == <<103, 111, 110, 101>>
Gone(val) == IF val.t = "undef" THEN StrV(S_gone) ELSE val
S_n  == <<110>>
S_RV == <<82, 86>>
ApplyReviver(rv, holder, name, val) ==
    CASE rv.k = "id" -> [thr |-> FALSE, ret |-> val, holder |-> holder]
      [] rv.k = "undefkey" -> [thr |-> FALSE, ret |-> IF name = rv.key THEN Undef ELSE val, holder |-> holder]
      [] rv.k = "undefall" -> [thr |-> FALSE, ret |-> Undef, holder |-> holder]
      [] rv.k = "num2str" -> [thr |-> FALSE, ret |-> IF val.t = "num" THEN StrV(S_n) ELSE val, holder |-> holder]
      [] rv.k = "wrapstr" -> [thr |-> FALSE, ret |-> IF val.t = "str" THEN Arr(<<val>>) ELSE val, holder |-> holder]
      [] rv.k = "delsib" -> [thr |-> FALSE, ret |-> val,
                             holder |-> IF name = rv.key THEN TreeDelete(holder, rv.sib) ELSE holder]
      [] rv.k = "addsib" -> [thr |-> FALSE, ret |-> val,
                             holder |-> IF name = rv.key THEN TreeDefine(holder, rv.sib, IntV(9)) ELSE holder]
      [] rv.k = "setlen" -> [thr |-> FALSE, ret |-> Gone(val),
                             holder |-> IF name = rv.key /\ holder.t = "arr" THEN TreeSetLen(holder, rv.n) ELSE holder]
      [] rv.k = "push" -> [thr |-> FALSE, ret |-> Gone(val),
                           holder |-> IF name = rv.key /\ holder.t = "arr" THEN [holder EXCEPT !.items = Append(@, rv.v)] ELSE holder]
      [] rv.k = "setel" -> [thr |-> FALSE, ret |-> Gone(val),
                            holder |-> IF name = rv.key THEN TreeDefine(holder, rv.sib, rv.v) ELSE holder]
      [] rv.k = "throwkey" -> [thr |-> name = rv.key, ret |-> IF name = rv.key THEN StrV(S_RV) ELSE val, holder |-> holder]

RvEntry(name, val, holder) == [f |-> "rv", k |-> name, v |-> val, h |-> holder]

RECURSIVE Walk(_, _, _, _), WalkKeys(_, _, _, _, _), WalkKeysLive(_, _, _, _, _)
(* Walk(holder, name): [thr, ret, holder, log]; holder is returned because   *)
(* the objects are mutated in place                                          *)
Walk(rv, holder, name, log) ==
    LET val0 == TreeGet(holder, name)                                    \* step 1
        inner == IF ~IsContainer(val0) THEN [thr |-> FALSE, ret |-> Undef, val |-> val0, log |-> log]
                 ELSE IF D("D11_revive_live_keys") /\ val0.t = "obj" THEN WalkKeysLive(rv, val0, KeysOf(val0), 1, log)
                 ELSE WalkKeys(rv, val0, KeysOf(val0), 1, log)                          \* step 2
    IN  IF inner.thr THEN [thr |-> TRUE, ret |-> inner.ret, holder |-> holder, log |-> inner.log]
        ELSE LET holder2 == TreeSet(holder, name, inner.val)
                 call == ApplyReviver(rv, holder2, name, inner.val)      \* step 3
             IN  [thr |-> call.thr, ret |-> call.ret, holder |-> call.holder,
                  log |-> Append(inner.log, RvEntry(name, inner.val, holder2))]

(* step 2.a / 2.b: for an array I = 0 .. len-1 with len read first; for any  *)
(* other object the List of own enumerable names taken before the loop       *)
WalkKeys(rv, val, keys, j, log) ==
    IF j > Len(keys) THEN [thr |-> FALSE, ret |-> Undef, val |-> val, log |-> log]
    ELSE LET r == Walk(rv, val, keys[j], log)
         IN  IF r.thr THEN [thr |-> TRUE, ret |-> r.ret, val |-> val, log |-> r.log]
             ELSE LET val2 == IF r.ret.t = "undef" THEN TreeDelete(r.holder, keys[j])          \* 2.a.iii.2 / 2.b.ii.2
                              ELSE TreeDefine(r.holder, keys[j], r.ret)                        \* 2.a.iii.3 / 2.b.ii.3
                  IN  IF Len(r.log) < 0 THEN [thr |-> FALSE, ret |-> Undef, val |-> val2, log |-> r.log]
                      ELSE WalkKeys(rv, val2, keys, j + 1, r.log)

(* Deviation D11_revive_live_keys: for a non-array object the implementation *)
(* does not take the List of names first but iterates the object's LIVE      *)
(* property-order array B with a fixed trip count: deleting a property       *)
(* shifts the later names one slot down under the running index (the next    *)
(* name is skipped, the last slot keeps a stale copy that is visited again), *)
(* and a slot whose name is no longer a property is skipped.  cur is the     *)
(* current property order (a prefix of B).                                   *)
RECURSIVE SeqIdxAt(_, _, _)
SeqIdxAt(sq, x, i) == IF i > Len(sq) THEN 0 ELSE IF sq[i] = x THEN i ELSE SeqIdxAt(sq, x, i + 1)
ShiftOut(B, cur, n) ==
    LET idx == SeqIdxAt(cur, n, 1)
    IN  IF idx = 0 THEN B ELSE [j \in 1..Len(B) |-> IF j >= idx /\ j < Len(cur) THEN B[j + 1] ELSE B[j]]
RECURSIVE ShiftAll(_, _, _, _)
ShiftAll(B, cur, removed, i) ==
    IF i > Len(removed) THEN B
    ELSE ShiftAll(ShiftOut(B, cur, removed[i]), SelectSeq(cur, LAMBDA k : k # removed[i]), removed, i + 1)
WalkKeysLive(rv, val, B, i, log) ==
    IF i > Len(B) THEN [thr |-> FALSE, ret |-> Undef, val |-> val, log |-> log]
    ELSE IF ~TreeHas(val, B[i]) THEN WalkKeysLive(rv, val, B, i + 1, log)
    ELSE LET name == B[i]
             r == Walk(rv, val, name, log)
         IN  IF r.thr THEN [thr |-> TRUE, ret |-> r.ret, val |-> val, log |-> r.log]
             ELSE LET before == KeysOf(val)
                      removed == SelectSeq(before, LAMBDA k : ~TreeHas(r.holder, k))
                      B1 == ShiftAll(B, before, removed, 1)
                      cur1 == SelectSeq(before, LAMBDA k : TreeHas(r.holder, k))
                      del == r.ret.t = "undef"
                      val2 == IF del THEN TreeDelete(r.holder, name) ELSE TreeDefine(r.holder, name, r.ret)
                      B2 == IF del THEN ShiftOut(B1, cur1, name) ELSE B1
                  IN  IF Len(r.log) + Len(B2) < 0 THEN [thr |-> FALSE, ret |-> Undef, val |-> val2, log |-> r.log]
                      ELSE WalkKeysLive(rv, val2, B2, i + 1, r.log)

POutcome(thr, v, log) == [thr |-> thr, v |-> v, log |-> log]

(* JSON.parse(text, reviver): rv = [k |-> "none"] when no callable reviver   *)
(* is given (15.12.2 step 4).  The set of permitted outcomes (a singleton    *)
(* unless a deviation makes the member order arbitrary).                     *)
ReviveTree(tree, rv) ==
    IF rv.k = "none" THEN POutcome("", tree, <<>>)
    ELSE LET root == Obj(<<Mem(<<>>, tree)>>)                     \* step 4.a-b
             w == Walk(rv, root, <<>>, <<>>)                      \* step 4.c
         IN  IF w.thr THEN POutcome("value", w.ret, w.log) ELSE POutcome("", w.ret, w.log)

ParseOutcomes(text, rv) ==
    LET p == ParseText(text)
    IN  IF ~p.ok THEN {POutcome("SyntaxError", Undef, <<>>)}
        ELSE {ReviveTree(t, rv) : t \in ParseTrees(p.v)}

(* does the specification permit `back` as the result of JSON.parse(text)?   *)
ParsePermits(text, back) ==
    LET p == ParseText(text)
    IN  p.ok /\ (IF D("D11_parse_key_order") THEN EqModOrder(p.v, back) ELSE p.v = back)

-----------------------------------------------------------------------------
(* 15.12.3 stringify                                                         *)

HexDigitLower(d) == IF d < 10 THEN 48 + d ELSE 87 + d
(* Quote(value) *)
QuoteUnit(c) ==
    CASE c = 34 -> <<92, 34>>
      [] c = 92 -> <<92, 92>>
      [] c = 8  -> <<92, 98>>
      [] c = 12 -> <<92, 102>>
      [] c = 10 -> <<92, 110>>
      [] c = 13 -> <<92, 114>>
      [] c = 9  -> <<92, 116>>
      [] OTHER -> IF c < 32 THEN <<92, 117, 48, 48, HexDigitLower(c \div 16), HexDigitLower(c % 16)>>
                  ELSE <<c>>
RECURSIVE QuoteAt(_, _)
QuoteAt(s, i) == IF i > Len(s) THEN <<>> ELSE QuoteUnit(s[i]) \o QuoteAt(s, i + 1)
Quote(s0) ==
    LET s == IF D("D11_lone_surrogate_fffd") THEN FixSurr(s0) ELSE s0
    IN  <<34>> \o QuoteAt(s, 1) \o <<34>>

(* shallow description of a value in the call log *)
Cls(c) == [t |-> "obj", cls |-> "[object " \o c \o "]"]
Shallow(v) ==
    CASE v.t = "fn" -> Cls("Function")
      [] v.t = "arr" -> Cls("Array")
      [] v.t = "obj" -> Cls("Object")
      [] v.t = "wrap" -> Cls(v.cls)
      [] OTHER -> v

(* the replacer argument: [k |-> "none"] | a function script | [k |-> "list", items |-> <<values>>] *)
(*   function scripts: "id", "undefkey"(key), "replkey"(key, v), "num2str", "throwkey"(key)        *)
S_RP == <<82, 80>>
ApplyReplacer(rp, key, cur) ==         \* cur = [v, cyc]; [thr, cur]
    CASE rp.k = "id" -> [thr |-> FALSE, cur |-> cur]
      [] rp.k = "undefkey" -> [thr |-> FALSE, cur |-> IF key = rp.key THEN [v |-> Undef, cyc |-> FALSE] ELSE cur]
      [] rp.k = "replkey" -> [thr |-> FALSE, cur |-> IF key = rp.key THEN [v |-> rp.v, cyc |-> FALSE] ELSE cur]
      [] rp.k = "num2str" -> [thr |-> FALSE, cur |-> IF cur.v.t = "num" THEN [v |-> StrV(S_n), cyc |-> FALSE] ELSE cur]
      [] rp.k = "throwkey" -> [thr |-> key = rp.key, cur |-> IF key = rp.key THEN [v |-> StrV(S_RP), cyc |-> FALSE] ELSE cur]

IsFnReplacer(rp) == rp.k \in {"id", "undefkey", "replkey", "num2str", "throwkey"}

(* step 4.b: the property list from an array replacer *)
ListItemName(v) ==        \* [ok, name]
    CASE v.t = "str" -> [ok |-> TRUE, name |-> v.s]
      [] v.t = "num" -> [ok |-> TRUE, name |-> NumToStr(v.n)]
      [] v.t = "wrap" /\ v.cls \in {"String", "Number"} ->
            [ok |-> TRUE, name |-> IF v.v.t = "str" THEN v.v.s ELSE NumToStr(v.v.n)]
      [] OTHER -> [ok |-> FALSE, name |-> <<>>]
RECURSIVE PropListAt(_, _, _)
PropListAt(items, i, acc) ==
    IF i > Len(items) THEN acc
    ELSE LET it == ListItemName(items[i])
         IN  IF it.ok /\ ~(\E j \in 1..Len(acc) : acc[j] = it.name) THEN PropListAt(items, i + 1, Append(acc, it.name))
             ELSE PropListAt(items, i + 1, acc)
(* the implementation stores an accepted name at the index of its ITEM and   *)
(* truncates the list to the number of accepted names: skipped items leave   *)
(* empty names behind and push later names out                               *)
RECURSIVE PropListGapAt(_, _, _, _)
PropListGapAt(items, i, seen, raw) ==
    IF i > Len(items) THEN SubSeq(raw, 1, Cardinality(seen))
    ELSE LET it == ListItemName(items[i])
         IN  IF it.ok /\ it.name \notin seen THEN PropListGapAt(items, i + 1, seen \cup {it.name}, Append(raw, it.name))
             ELSE PropListGapAt(items, i + 1, seen, Append(raw, <<>>))
PropList(items) ==
    IF D("D11_proplist_index_gap") THEN PropListGapAt(items, 1, {}, <<>>) ELSE PropListAt(items, 1, <<>>)

(* steps 5-8: the gap *)
Spaces(n) == [i \in 1..n |-> 32]
GapOf(space0) ==
    LET space == IF space0.t = "wrap" /\ space0.cls \in {"Number", "String"} THEN space0.v ELSE space0    \* step 5
    IN  IF space.t = "num" THEN                                                                            \* step 6
            (LET x == ToIntegerN(space.n)
             IN  IF IsInf(x) THEN (IF x.neg THEN <<>> ELSE Spaces(10))
                 ELSE IF NumCmp(x, I(10)) >= 0 THEN Spaces(10)
                 ELSE IF NumCmp(x, I(1)) < 0 THEN <<>>
                 ELSE Spaces(x.v))
        ELSE IF space.t = "str" THEN (IF Len(space.s) <= 10 THEN space.s ELSE SubSeq(space.s, 1, 10))      \* step 7
        ELSE <<>>                                                                                          \* step 8

(* results of Str: [thr, tv, undef, s, log]                                  *)
SOk(s, log)        == [thr |-> "", tv |-> Undef, undef |-> FALSE, s |-> s, log |-> log]
SUndef(log)        == [thr |-> "", tv |-> Undef, undef |-> TRUE, s |-> <<>>, log |-> log]
SThrow(c, tv, log) == [thr |-> c, tv |-> tv, undef |-> FALSE, s |-> <<>>, log |-> log]

S_TJ == <<84, 74>>
(* what a scripted toJSON method returns: [thr, cur] *)
ApplyToJSON(fn, key, cur) ==
    CASE fn.beh.k = "undef" -> [thr |-> FALSE, cur |-> [v |-> Undef, cyc |-> FALSE]]
      [] fn.beh.k = "ret" -> [thr |-> FALSE, cur |-> [v |-> fn.beh.v, cyc |-> FALSE]]
      [] fn.beh.k = "key" -> [thr |-> FALSE, cur |-> [v |-> StrV(<<75>> \o key), cyc |-> FALSE]]
      [] fn.beh.k = "self" -> [thr |-> FALSE, cur |-> cur]                                  \* returns this
      [] fn.beh.k = "selfroot" -> [thr |-> FALSE, cur |-> IF key = <<>> THEN cur ELSE [v |-> IntV(1), cyc |-> FALSE]]
      [] fn.beh.k = "throw" -> [thr |-> TRUE, cur |-> [v |-> StrV(S_TJ), cyc |-> FALSE]]

RECURSIVE JoinWith(_, _, _)
JoinWith(parts, sep, i) ==
    IF i > Len(parts) THEN <<>>
    ELSE IF i = Len(parts) THEN parts[i]
    ELSE parts[i] \o sep \o JoinWith(parts, sep, i + 1)

(* insertion of [key, str] into a list sorted by key (code-unit order) *)
RECURSIVE SortedInsert(_, _, _)
SortedInsert(ps, p, i) ==
    IF i > Len(ps) THEN Append(ps, p)
    ELSE IF StrCmp(p.key, ps[i].key) < 0 THEN SubSeq(ps, 1, i - 1) \o <<p>> \o SubSeq(ps, i, Len(ps))
    ELSE SortedInsert(ps, p, i + 1)
RECURSIVE SortPairs(_, _, _)
SortPairs(ps, i, acc) == IF i > Len(ps) THEN acc ELSE SortPairs(ps, i + 1, SortedInsert(acc, ps[i], 1))
(* a later pair with the same key replaces the earlier one (a map) *)
RECURSIVE DedupPairs(_, _, _)
DedupPairs(ps, i, acc) ==
    IF i > Len(ps) THEN acc
    ELSE LET j == MemIdx(acc, ps[i].key)
         IN  DedupPairs(ps, i + 1, IF j = 0 THEN Append(acc, ps[i]) ELSE [acc EXCEPT ![j] = ps[i]])

RECURSIVE Str(_, _, _, _, _, _), JO(_, _, _, _, _), JA(_, _, _, _, _), JOLoop(_, _, _, _, _, _, _, _), JALoop(_, _, _, _, _, _, _)

(* Str(key, holder).  anc: the enclosing containers from the wrapper object  *)
(* down to holder (= the `stack` of 15.12.3 plus the wrapper); ctx = [rp,    *)
(* haslist, list, gap]; indent: the current indentation.                     *)
Str(key, holder, anc, ctx, indent, log) ==
    LET raw == TreeGet(holder, key)                                              \* step 1
        cur0 == IF raw.t = "up" THEN [v |-> anc[Len(anc) - raw.up + 1], cyc |-> TRUE] ELSE [v |-> raw, cyc |-> FALSE]
        tj == IF IsObjectType(cur0.v) THEN TreeGet(cur0.v, S_toJSON) ELSE Undef  \* step 2.a
        a == IF tj.t = "fn"                                                      \* step 2.b
             THEN LET r == ApplyToJSON(tj, key, cur0)
                  IN  [thr |-> r.thr, cur |-> r.cur, log |-> Append(log, [f |-> "tj", id |-> tj.id, k |-> key])]
             ELSE [thr |-> FALSE, cur |-> cur0, log |-> log]
    IN  IF a.thr THEN SThrow("value", a.cur.v, a.log)
        ELSE LET b == IF IsFnReplacer(ctx.rp)                                    \* step 3
                      THEN LET r == ApplyReplacer(ctx.rp, key, a.cur)
                           IN  [thr |-> r.thr, cur |-> r.cur,
                                log |-> Append(a.log, [f |-> "rp", k |-> key, v |-> Shallow(a.cur.v), h |-> Shallow(holder)])]
                      ELSE a
             IN  IF b.thr THEN SThrow("value", b.cur.v, b.log)
                 ELSE LET v == IF b.cur.v.t = "wrap" THEN b.cur.v.v ELSE b.cur.v  \* step 4: Number, String, Boolean objects
                      IN  CASE v.t = "null" -> SOk(S_lit_null, b.log)                              \* step 5
                            [] v.t = "bool" -> SOk(IF v.b THEN S_lit_true ELSE S_lit_false, b.log) \* steps 6, 7
                            [] v.t = "str" -> SOk(Quote(v.s), b.log)                               \* step 8
                            [] v.t = "num" -> SOk(IF IsFinite(v.n) THEN NumToStr(v.n) ELSE S_lit_null, b.log)   \* step 9
                            [] v.t \in {"arr", "obj"} ->                                           \* step 10
                                  IF b.cur.cyc THEN SThrow("TypeError", Undef, b.log)              \* JO/JA step 1
                                  ELSE IF v.t = "arr" THEN JA(v, anc, ctx, indent, b.log) ELSE JO(v, anc, ctx, indent, b.log)
                            [] OTHER -> SUndef(b.log)                                              \* step 11 (undefined, functions)

(* JO(value) *)
JO(value, anc, ctx, indent, log) ==
    LET K == IF ctx.haslist THEN ctx.list ELSE KeysOf(value)               \* steps 5, 6
    IN  JOLoop(value, Append(anc, value), ctx, indent, K, 1, <<>>, log)

JOLoop(value, anc2, ctx, stepback, K, j, partial, log) ==
    LET indent == stepback \o ctx.gap                                      \* step 4
    IN  IF j > Len(K) THEN
            LET ps0 == IF D("D11_proplist_index_gap") THEN DedupPairs(partial, 1, <<>>) ELSE partial
                ps == IF D("D11_stringify_sorted_keys") THEN SortPairs(ps0, 1, <<>>) ELSE ps0
                colon == IF ctx.gap = <<>> THEN <<58>> ELSE <<58, 32>>     \* step 8.b.ii-iii
                mems == [i \in 1..Len(ps) |-> Quote(ps[i].key) \o colon \o ps[i].val]
            IN  IF Len(ps) = 0 THEN SOk(<<123, 125>>, log)                 \* step 9
                ELSE IF ctx.gap = <<>> THEN SOk(<<123>> \o JoinWith(mems, <<44>>, 1) \o <<125>>, log)     \* step 10.a
                ELSE SOk(<<123, 10>> \o indent \o JoinWith(mems, <<44, 10>> \o indent, 1) \o <<10>> \o stepback \o <<125>>, log)  \* 10.b
        ELSE LET r == Str(K[j], value, anc2, ctx, indent, log)             \* step 8.a
             IN  IF r.thr # "" THEN r
                 ELSE LET p2 == IF r.undef THEN partial ELSE Append(partial, Mem(K[j], r.s))
                      IN  IF Len(p2) < 0 THEN r ELSE JOLoop(value, anc2, ctx, stepback, K, j + 1, p2, r.log)

(* JA(value) *)
JA(value, anc, ctx, indent, log) ==
    JALoop(value, Append(anc, value), ctx, indent, 1, <<>>, log)

JALoop(value, anc2, ctx, stepback, j, partial, log) ==
    LET indent == stepback \o ctx.gap
    IN  IF j > Len(value.items) THEN                                       \* step 6: len = value.length
            IF Len(partial) = 0 THEN SOk(<<91, 93>>, log)                  \* step 9
            ELSE IF ctx.gap = <<>> THEN SOk(<<91>> \o JoinWith(partial, <<44>>, 1) \o <<93>>, log)
            ELSE SOk(<<91, 10>> \o indent \o JoinWith(partial, <<44, 10>> \o indent, 1) \o <<10>> \o stepback \o <<93>>, log)
        ELSE LET r == Str(DigitsNat(j - 1), value, anc2, ctx, indent, log) \* step 8.a
             IN  IF r.thr # "" THEN r
                 ELSE LET p2 == Append(partial, IF r.undef THEN S_lit_null ELSE r.s)       \* step 8.b-c
                      IN  IF Len(p2) < 0 THEN r ELSE JALoop(value, anc2, ctx, stepback, j + 1, p2, r.log)

(* JSON.stringify(value, replacer, space) *)
Stringify(value, rp, space) ==
    LET ctx == [rp |-> rp,
                haslist |-> rp.k = "list",
                list |-> IF rp.k = "list" THEN PropList(rp.items) ELSE <<>>,
                gap |-> GapOf(space)]
        wrapper == Obj(<<Mem(<<>>, value)>>)                               \* steps 9, 10
    IN  Str(<<>>, wrapper, <<wrapper>>, ctx, <<>>, <<>>)                   \* step 11

(* the observable outcome: text (a string value) or undefined *)
SOutcome(r) ==
    IF r.thr = "value" THEN POutcome("value", r.tv, r.log)
    ELSE IF r.thr # "" THEN POutcome(r.thr, Undef, r.log)
    ELSE IF r.undef THEN POutcome("", Undef, r.log)
    ELSE POutcome("", StrV(r.s), r.log)

-----------------------------------------------------------------------------
(* Go-side marshalling (host API: Value.MarshalJSON, Object.MarshalJSON,     *)
(* encoding/json over a Go structure that holds an otto Value).  A Value in  *)
(* a Go structure is a JSON *element*: the text is the text 15.12.3 gives    *)
(* for the value (toJSON called with the key "", wrapper objects unboxed,    *)
(* non-finite numbers null ...), and `null` where 15.12.3 yields undefined   *)
(* (what JA does for an element, 15.12.3 JA step 8.b, and what the           *)
(* implementation documents for the undefined Value).  An exception of the   *)
(* serialisation comes back as a Go error: thr / tv as for Stringify.        *)
(* mode: how the Value reaches encoding/json -                               *)
(*   "value"   v.MarshalJSON()             "object"  v.Object().MarshalJSON()*)
(*   "marshal" json.Marshal(v)             "pointer" json.Marshal(&v)        *)
(*   "map"     json.Marshal(map[string]interface{}{"k": v})                  *)
(*   "slice"   json.Marshal([]otto.Value{v})                                 *)
(*   "struct"  json.Marshal(struct{A otto.Value `json:"a"`; B int `json:"b"`}{v, 1}) *)
(*   "nested"  json.Marshal(map[string]interface{}{"m": []interface{}{struct{V interface{}}{v}, nil}}) *)
(*   "export"  x := v.Export(); json.Marshal(x)   (the text is judged modulo *)
(*             member order: a Go map has none)                              *)
GoDirectModes == {"value", "object"}           \* the text is handed out as it is
GoModes == {"value", "object", "marshal", "pointer", "map", "slice", "struct", "nested", "export"}
GoWrap(mode, t) ==
    CASE mode = "map" -> <<123, 34, 107, 34, 58>> \o t \o <<125>>                                   \* {"k":T}
      [] mode = "slice" -> <<91>> \o t \o <<93>>                                                     \* [T]
      [] mode = "struct" -> <<123, 34, 97, 34, 58>> \o t \o <<44, 34, 98, 34, 58, 49, 125>>          \* {"a":T,"b":1}
      [] mode = "nested" -> <<123, 34, 109, 34, 58, 91, 123, 34, 86, 34, 58>> \o t \o <<125, 44>> \o S_lit_null \o <<93, 125>>   \* {"m":[{"V":T},null]}
      [] OTHER -> t
GoAbsent == [t |-> "absent"]
GoMarshal(v, mode) ==
    LET r == Stringify(v, [k |-> "none"], GoAbsent)
    IN  IF r.thr # "" THEN r
        ELSE IF r.undef THEN
            (* 15.12.3 yields undefined: the undefined value, a function, an object whose toJSON returns either *)
            IF v.t # "undef" /\ D("D11_gomarshal_undefined_text") THEN
                 (* Object.MarshalJSON hands out ToString(undefined); encoding/json refuses that text *)
                 (IF mode \in GoDirectModes THEN SOk(S_undefined, r.log) ELSE SThrow("GoInvalidJSON", Undef, r.log))
            ELSE SOk(GoWrap(mode, S_lit_null), r.log)
        ELSE SOk(GoWrap(mode, r.s), r.log)
(* JSON has no text for NaN and the infinities.  15.12.3 writes null for them; for a PRIMITIVE number Value handed to   *)
(* Go, failing loudly with encoding/json's UnsupportedValueError is as good an answer (no property prefers one): both  *)
(* are accepted (C11.tla adds this outcome to the acceptable set; it is a choice left open, not a deviation).           *)
GoMarshalNonFiniteAlt(v) == IF v.t = "num" /\ ~IsFinite(v.n) THEN {SThrow("GoUnsupportedValue", Undef, <<>>)} ELSE {}

-----------------------------------------------------------------------------
(* "The same JSON text up to the spelling of string and number tokens":      *)
(* every JSONString token is replaced by Quote of the string it denotes and  *)
(* every JSONNumber token by ToString of the number it denotes; everything   *)
(* else (punctuation, white space, gap) is kept.  A text that is a valid     *)
(* JSON text and normalises to the text 15.12.3 prescribes denotes the same  *)
(* value with the same indentation shape.                                    *)
RECURSIVE NormAt(_, _, _)
NormAt(s, i, acc) ==
    IF Len(acc) < 0 THEN [ok |-> FALSE, s |-> <<>>]
    ELSE IF i > Len(s) THEN [ok |-> TRUE, s |-> acc]
    ELSE LET c == s[i]
         IN  IF c = 34 THEN (LET r == JStrChars(s, i + 1, <<>>)
                             IN  IF r.ok THEN NormAt(s, r.i, acc \o Quote(r.v)) ELSE [ok |-> FALSE, s |-> acc])
             ELSE IF c = 45 \/ IsDigit(c) THEN
                            (LET r == JNumber(s, i)
                             IN  IF r.ok /\ IsFinite(r.v.n) THEN NormAt(s, r.i, acc \o NumToStr(r.v.n)) ELSE [ok |-> FALSE, s |-> acc])
             ELSE NormAt(s, i + 1, Append(acc, c))
Normalise(s) == NormAt(s, 1, <<>>)
=============================================================================
