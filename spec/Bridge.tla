------------------------------- MODULE Bridge -------------------------------
(* The Go <-> JavaScript bridge of otto (properties C15 and C16).            *)
(*                                                                           *)
(* Abstract Go values ("G"):                                                 *)
(*   [k |-> "nil"]                          untyped nil                       *)
(*   [k |-> "bool", b]                                                        *)
(*   [k |-> "int"|"int8"|..|"uint64", z]    z an exact integer ("Z": the Num  *)
(*                                          record shapes int / big with      *)
(*                                          e >= 0, mantissa of any length)   *)
(*   [k |-> "float32"|"float64", n]         n a Num (for float32 one that a   *)
(*                                          float32 holds exactly)            *)
(*   [k |-> "string", s]                    s = UTF-16 code units of the      *)
(*                                          (valid UTF-8) Go string           *)
(*   [k |-> "slice", elem, isnil, items]    elem = element kind or "iface"    *)
(*   [k |-> "map", elem, isnil, keys, vals] map[string]elem, keys sorted      *)
(*   [k |-> "struct", ptr, A, B, c, F, Any, Hid]   the harness type           *)
(*        type T struct { A int; B string `json:"bee"`; c int; F float64;    *)
(*                        Any interface{}; Hid int `json:"-"` }              *)
(*        func (t T) GetA() int;  func (t *T) SetA(v int)                    *)
(*   [k |-> "ptrnil"]                       a nil pointer to T                    *)
(*   [k |-> "ptr", to]                      a pointer to the (scalar) value to    *)
(*   [k |-> "nilptr", of]                   a nil pointer to a scalar kind        *)
(*   [k |-> "named", base]                  a value of a declared named type      *)
(*                                          (type Port uint16) of base's kind     *)
(*   [k |-> "imap", key, named, elem, isnil, keys, vals]   a map keyed by the     *)
(*        integer kind key (named: by the declared named type of that kind);      *)
(*        keys are exact integers in the code-unit order of their decimal text    *)
(*   [k |-> "nstruct", ptr, f]              struct NS { A NInt; B NInt8; ...      *)
(*        J NUint64; L NFloat64 }: one field per named numeric type, f in order   *)
(* A pointer and a named type convert exactly like their base kind (value.go     *)
(* toValue drills through pointers; Go conversion rules for named types).        *)
(*                                                                           *)
(* JavaScript values as scripts see them ("J"): the primitives of Val.tla,   *)
(*   [t |-> "arr", items]  (holes are [t |-> "hole"]),                        *)
(*   [t |-> "obj", keys, vals]  (own enumerable properties),  [t |-> "fn"],  *)
(*   and the scripted conversion objects of Ops.tla ([t |-> "cobj", ...]).   *)
(*                                                                           *)
(* The contract transcribed here is the property statement of C15/C16 and    *)
(* the documentation of otto's public API (otto.go, value.go doc comments);  *)
(* where the JavaScript side of a conversion is an ES5 abstract operation    *)
(* the clause is named.  Known deviations of otto are the branches           *)
(* D("D15_...") / D("D16_...") (known_findings.d/C15.json, C16.json).        *)
EXTENDS Ops, Sequences

-----------------------------------------------------------------------------
(* Exact integers and the Go integer kinds                                   *)

P2Z(k) == Canon(FALSE, <<1>>, k)                               \* 2^k
ZOfBn(neg, bn) == Canon(neg, bn, 0)
MaxOfBits(b) == ZOfBn(FALSE, BnSub(BnShl(<<1>>, b), <<1>>))    \* 2^b - 1
MinOfBits(b) == ZOfBn(TRUE, BnShl(<<1>>, b))                   \* -2^b

SIntKinds == {"int", "int8", "int16", "int32", "int64"}
UIntKinds == {"uint", "uint8", "uint16", "uint32", "uint64"}
IntKinds  == SIntKinds \cup UIntKinds
FltKinds  == {"float32", "float64"}
NumKinds  == IntKinds \cup FltKinds
Bits(k) == CASE k \in {"int8", "uint8"} -> 8 [] k \in {"int16", "uint16"} -> 16
             [] k \in {"int32", "uint32"} -> 32 [] OTHER -> 64           \* int, uint: 64-bit platform
LoOf(k) == IF k \in UIntKinds THEN I(0) ELSE MinOfBits(Bits(k) - 1)
HiOf(k) == IF k \in UIntKinds THEN MaxOfBits(Bits(k)) ELSE MaxOfBits(Bits(k) - 1)
MaxI64 == MaxOfBits(63)
MinI64 == MinOfBits(63)
InRangeZ(z, k) == NumCmp(LoOf(k), z) <= 0 /\ NumCmp(z, HiOf(k)) <= 0

(* the double nearest to an exact integer (Go float64(int), round to even)   *)
ToDouble(z) == IF z.c = "int" THEN z ELSE RoundD(z.neg, z.m, z.e)
IsDoubleZ(z) == ToDouble(z) = z

DigitsZ(z) == IF z.c = "int" THEN DigitsInt(z.v)
              ELSE (IF z.neg THEN <<45>> ELSE <<>>) \o DigitsBn(BnShl(z.m, z.e))

(* the exact integer denoted by an integer-valued finite Num (-0 is 0)       *)
ZOfNum(x) == IF x.c = "nzero" THEN I(0) ELSE x

(* round to nearest-even in a binary format with p bits of precision, lowest *)
(* bit exponent qmin and largest leading-bit exponent emax (Num!RoundD is    *)
(* the instance 53, -1074, 1023)                                             *)
RoundBin(neg, m0, e0, p, qmin, emax) ==
    IF m0 = <<>> THEN Zero(neg)
    ELSE LET tz == BnTz(m0)
             m  == BnShr(m0, tz)
             e  == e0 + tz
             L  == BnBitLen(m)
             E  == e + L - 1
             q  == IF E - (p - 1) > qmin THEN E - (p - 1) ELSE qmin
         IN  IF e >= q
             THEN (IF E > emax THEN Inf(neg) ELSE Canon(neg, m, e))
             ELSE LET k  == q - e
                      hi == BnShr(m, k)
                      up == /\ BnBit(m, k - 1) = 1
                            /\ (k > 1 \/ BnBit(hi, 0) = 1)
                      r  == IF up THEN BnAdd(hi, <<1>>) ELSE hi
                  IN  IF r = <<>> THEN Zero(neg)
                      ELSE IF q + BnBitLen(r) - 1 > emax THEN Inf(neg)
                      ELSE Canon(neg, r, q)

(* Go float32(x) for a double x *)
RoundF32(x) == IF ~IsFinite(x) \/ IsZero(x) THEN x
               ELSE RoundBin(IsNeg(x), MantOf(x), ExpOf(x), 24, -149, 127)
IsF32(x) == RoundF32(x) = x
MaxF32 == Canon(FALSE, BnSub(BnShl(<<1>>, 24), <<1>>), 104)

-----------------------------------------------------------------------------
(* Go values                                                                 *)
GNil == [k |-> "nil"]
GPtrNil == [k |-> "ptrnil"]
GBool(b) == [k |-> "bool", b |-> b]
GInt(k, z) == [k |-> k, z |-> z]
GFlt(k, n) == [k |-> k, n |-> n]
GStr(s) == [k |-> "string", s |-> s]
GSlice(elem, isnil, items) == [k |-> "slice", elem |-> elem, isnil |-> isnil, items |-> items]
GMap(elem, isnil, keys, vals) == [k |-> "map", elem |-> elem, isnil |-> isnil, keys |-> keys, vals |-> vals]
GPtr(g) == [k |-> "ptr", to |-> g]
GNilPtr(kind) == [k |-> "nilptr", of |-> kind]
GNamed(g) == [k |-> "named", base |-> g]
GIMap(key, named, elem, isnil, keys, vals) ==
    [k |-> "imap", key |-> key, named |-> named, elem |-> elem, isnil |-> isnil, keys |-> keys, vals |-> vals]
GNStruct(ptr, f) == [k |-> "nstruct", ptr |-> ptr, f |-> f]
(* the value behind pointers and named types *)
RECURSIVE Base(_)
Base(g) == CASE g.k = "ptr" -> Base(g.to) [] g.k = "named" -> Base(g.base) [] g.k = "nilptr" -> [k |-> "nil"] [] OTHER -> g
(* [k |-> "pstruct", ptr, f]: struct PS { A *int; B *int8; ... J *uint64; K *float32; L *float64 } *)
PSKeys == <<<<65>>, <<66>>, <<67>>, <<68>>, <<69>>, <<70>>, <<71>>, <<72>>, <<73>>, <<74>>, <<75>>, <<76>>>>
NSKeys == <<<<65>>, <<66>>, <<67>>, <<68>>, <<69>>, <<70>>, <<71>>, <<72>>, <<73>>, <<74>>, <<76>>>>      \* A .. J, L

GStruct(ptr, a, b, c, f, any, hid) ==
    [k |-> "struct", ptr |-> ptr, A |-> a, B |-> b, c |-> c, F |-> f, Any |-> any, Hid |-> hid]

(* the zero value of an element kind *)
ZeroOf(ek) == CASE ek \in IntKinds -> GInt(ek, I(0))
                [] ek \in FltKinds -> GFlt(ek, I(0))
                [] ek = "string" -> GStr(<<>>)
                [] ek = "bool" -> GBool(FALSE)
                [] OTHER -> GNil                         \* interface{}

JArr(items) == [t |-> "arr", items |-> items]
JObj(keys, vals) == [t |-> "obj", keys |-> keys, vals |-> vals]
JFn == [t |-> "fn"]
JHole == [t |-> "hole"]

S_A == <<65>>  S_B == <<66>>  S_F == <<70>>
S_Any == <<65, 110, 121>>
S_Hid == <<72, 105, 100>>
S_bee == <<98, 101, 101>>
S_GetA == <<71, 101, 116, 65>>
S_SetA == <<83, 101, 116, 65>>

(* ---- Go -> JavaScript (value.go toValue, runtime.go runtime.toValue) ------ *)
(* Numbers become the Number value nearest to them, strings their UTF-16     *)
(* form, nil and nil pointers undefined (value.go: "undefined -> nil"),      *)
(* slices array-likes, maps and structs objects whose enumerable keys are    *)
(* the map keys / the exported field names followed by the method names      *)
(* (listed here in code-unit order, as the observation sorts them).          *)
RECURSIVE ToJS(_)
ToJS(g) ==
    CASE g.k \in {"nil", "ptrnil", "nilptr"} -> Undef
      [] g.k = "ptr" -> ToJS(g.to)
      [] g.k = "named" -> ToJS(g.base)
      [] g.k = "imap" -> JObj([i \in 1..Len(g.keys) |-> DigitsZ(g.keys[i])], [i \in 1..Len(g.vals) |-> ToJS(g.vals[i])])
      [] g.k = "nstruct" -> JObj(NSKeys, [i \in 1..Len(g.f) |-> ToJS(g.f[i])])
      [] g.k = "pstruct" -> JObj(PSKeys, [i \in 1..Len(g.f) |-> ToJS(g.f[i])])
      [] g.k = "bool" -> BoolV(g.b)
      [] g.k \in IntKinds -> NumV(ToDouble(g.z))
      [] g.k \in FltKinds -> NumV(g.n)
      [] g.k = "string" -> StrV(g.s)
      [] g.k = "slice" -> JArr([i \in 1..Len(g.items) |-> ToJS(g.items[i])])
      [] g.k = "map" -> JObj(g.keys, [i \in 1..Len(g.vals) |-> ToJS(g.vals[i])])
      [] g.k = "struct" ->
            IF g.ptr
            THEN JObj(<<S_A, S_Any, S_B, S_F, S_GetA, S_Hid, S_SetA>>,
                      <<NumV(ToDouble(g.A)), ToJS(g.Any), StrV(g.B), NumV(g.F), JFn, NumV(ToDouble(g.Hid)), JFn>>)
            ELSE JObj(<<S_A, S_Any, S_B, S_F, S_GetA, S_Hid>>,
                      <<NumV(ToDouble(g.A)), ToJS(g.Any), StrV(g.B), NumV(g.F), JFn, NumV(ToDouble(g.Hid))>>)

(* typeof (11.4.3) and String() (9.8) of the counterpart, as a script sees   *)
(* them.  A Go integer beyond 2^53 that is not a double has no Number value  *)
(* of its own: the script must see the nearest double in every respect.      *)
TypeOfJ(j) == CASE j.t \in {"arr", "obj"} -> S_object [] j.t = "fn" -> S_function [] OTHER -> TypeOfPrim(j)
ScriptString(g0) ==
    LET g == Base(g0) IN
    IF g.k \in IntKinds /\ D("D15_go_integer_tostring_exact_digits")
    THEN DigitsZ(g.z)                                    \* value_string.go Value.string(): strconv.FormatInt of the Go integer
    ELSE ToStringPrim(ToJS(g))
(* the names for-in visits on the counterpart (12.6.4): the enumerable keys *)
ForInKeys(j) == IF j.t = "arr" THEN [i \in 1..Len(j.items) |-> DigitsNat(i - 1)]     \* at most 10 elements are generated: already in code-unit order
                ELSE IF j.t = "obj" THEN j.keys ELSE <<>>

(* ---- reading a Go-originated value back on the Go side ------------------- *)
(* Export returns the value that was set; float32 arrives widened to float64 *)
(* (toValue stores float64(value)), a nil pointer as nil.                    *)
(* A pointer to a scalar or a value of a named scalar type reads back as the *)
(* value of the base kind (toValue keeps only that); inside containers the   *)
(* original Go container - named element types included - is returned.       *)
ExportG(g0) == LET g == IF g0.k \in {"ptr", "named", "nilptr"} THEN Base(g0) ELSE g0 IN
              CASE g.k = "float32" -> GFlt("float64", g.n)
                [] g.k = "ptrnil" -> GNil
                [] OTHER -> g

ClampI64(z) == IF NumCmp(z, MaxI64) > 0 THEN MaxI64 ELSE IF NumCmp(z, MinI64) < 0 THEN MinI64 ELSE z

(* 9.4 ToInteger delivered as an int64: NaN -> 0, out of range saturates     *)
(* (value_number.go numberKind: "Infinity => 2**63-1")                        *)
I64OfNum(x) == IF IsNaN(x) THEN I(0)
               ELSE IF IsInf(x) THEN (IF x.neg THEN MinI64 ELSE MaxI64)
               ELSE ClampI64(ZOfNum(Trunc(x)))

PrimNumOfG(g) ==          \* 9.3 ToNumber of the counterpart (primitives)
    ToNumberPrim(ToJS(g))

ToIntegerG(g0) ==
    LET g == Base(g0) IN
    IF g.k \in IntKinds
    THEN (IF g.k \in {"uint", "uint64"} /\ D("D15_tointeger_uint64_through_float64")
          THEN I64OfNum(ToDouble(g.z))                   \* value_number.go Value.number(): no exact path for uint, uint64
          ELSE ClampI64(g.z))
    ELSE I64OfNum(PrimNumOfG(g))
ToFloatG(g)   == PrimNumOfG(g)
ToStringG(g0)  == LET g == Base(g0) IN IF g.k \in IntKinds THEN DigitsZ(g.z) ELSE ToStringPrim(ToJS(g))     \* equal to the original
ToBooleanG(g0) == LET g == Base(g0) IN IF g.k \in IntKinds THEN ~IsZero(g.z) ELSE ToBoolean(ToJS(g))

(* MarshalJSON: the JSON text denoting the value, as a tree.  Numbers are    *)
(* given by value; NaN and the infinities have no JSON text (error).  Go's   *)
(* encoding/json contract for the containers: nil slice/map -> null, struct  *)
(* fields by json tag, unexported and "-" fields omitted.                    *)
(* A JSON number text is read back by its exact decimal value.  For a double *)
(* the text must be one that denotes it (rounds to it); the canonical text   *)
(* is the shortest such digit string of 9.8.1 / 15.12.3 (the same digits     *)
(* Go's encoding/json prints), which for an integer-valued double between    *)
(* 2^53 and 10^21 is the digits followed by zeros, an exact integer that may *)
(* differ from the double.                                                   *)
JsonNumF(x) ==
    IF ~(x.c = "big" /\ x.e >= 0) \/ IsSafeInt(x) THEN x
    ELSE LET a == IF x.neg THEN NumNeg(x) ELSE x
         IN  IF NumCmp(a, DecToNum(FALSE, <<1>>, 21)) >= 0 THEN x
             ELSE LET sd == ShortestDigits(a)
                  IN  ZOfBn(x.neg, BnMul(BnOfDigits(sd.digits), BnPow10(sd.n - sd.k)))
JNull == [j |-> "null"]
JErr == [j |-> "error"]
RECURSIVE GoJSON(_)
AnyErr(seq) == \E i \in 1..Len(seq) : seq[i].j = "error"
GoJSON(g) ==
    CASE g.k \in {"nil", "ptrnil", "nilptr"} -> JNull
      [] g.k = "ptr" -> GoJSON(g.to)
      [] g.k = "named" -> GoJSON(g.base)
      [] g.k = "imap" ->          \* encoding/json: integer keys as their decimal text, sorted as strings
            IF g.isnil THEN JNull
            ELSE LET vs == [i \in 1..Len(g.vals) |-> GoJSON(g.vals[i])]
                 IN  IF AnyErr(vs) THEN JErr ELSE [j |-> "obj", keys |-> [i \in 1..Len(g.keys) |-> DigitsZ(g.keys[i])], vals |-> vs]
      [] g.k = "nstruct" ->
            LET vs == [i \in 1..Len(g.f) |-> GoJSON(g.f[i])]
            IN  IF AnyErr(vs) THEN JErr ELSE [j |-> "obj", keys |-> NSKeys, vals |-> vs]
      [] g.k = "bool" -> [j |-> "bool", b |-> g.b]
      [] g.k \in IntKinds -> [j |-> "num", n |-> g.z]
      [] g.k \in FltKinds -> IF IsFinite(g.n) THEN [j |-> "num", n |-> JsonNumF(g.n)] ELSE JErr
      [] g.k = "string" -> [j |-> "str", s |-> g.s]
      [] g.k = "slice" ->
            IF g.isnil THEN JNull
            ELSE LET its == [i \in 1..Len(g.items) |-> GoJSON(g.items[i])]
                 IN  IF AnyErr(its) THEN JErr ELSE [j |-> "arr", items |-> its]
      [] g.k = "map" ->
            IF g.isnil THEN JNull
            ELSE LET vs == [i \in 1..Len(g.vals) |-> GoJSON(g.vals[i])]
                 IN  IF AnyErr(vs) THEN JErr ELSE [j |-> "obj", keys |-> g.keys, vals |-> vs]
      [] g.k = "struct" ->
            LET vs == <<[j |-> "num", n |-> g.A], GoJSON(g.Any), GoJSON(GFlt("float64", g.F)), [j |-> "str", s |-> g.B]>>
            IN  IF AnyErr(vs) THEN JErr ELSE [j |-> "obj", keys |-> <<S_A, S_Any, S_F, S_bee>>, vals |-> vs]

(* Known deviations that end the whole observation of a Go value in a Go     *)
(* panic: (1) a float32 that reaches toValue through reflection (behind a    *)
(* pointer, as a named type, or as a field/element of a named float32 type)  *)
(* is stored as a Go float32, for which Value.float64() has no case: every   *)
(* numeric use panics with the foreign error "toFloat(float32)"; (2) a map   *)
(* whose key type is a named type: goMapGetOwnProperty looks the key up with *)
(* a value of the base kind, reflect.Value.MapIndex panics.                  *)
GKids(g) == CASE g.k = "slice" -> g.items [] g.k \in {"map", "imap"} -> g.vals [] g.k = "nstruct" -> g.f
              [] g.k = "struct" -> <<g.Any>> [] g.k = "ptr" -> <<g.to>> [] g.k = "named" -> <<g.base>> [] OTHER -> <<>>
RECURSIVE HasReflectedF32(_)
HasReflectedF32(g) == \/ (g.k = "ptr" /\ Base(g.to).k = "float32")
                      \/ (g.k = "named" /\ Base(g.base).k = "float32")
                      \/ \E i \in 1..Len(GKids(g)) : HasReflectedF32(GKids(g)[i])
RECURSIVE HasNamedKeyMap(_)
HasNamedKeyMap(g) == \/ (g.k = "imap" /\ g.named /\ Len(g.keys) > 0)
                     \/ \E i \in 1..Len(GKids(g)) : HasNamedKeyMap(GKids(g)[i])
G2JPanics(g) == \/ (D("D15_reflected_float32_unusable") /\ HasReflectedF32(g))
                \/ (D("D15_map_named_key_type_panics") /\ HasNamedKeyMap(g))

-----------------------------------------------------------------------------
(* JavaScript -> Go: Value predicates, conversions and Export (value.go)     *)

IsObjJ(v) == v.t \in {"arr", "obj", "fn", "cobj"}
AsOps(v) == IF v.t \in {"arr", "obj"} THEN [t |-> "cobj", id |-> 0, vo |-> [k |-> "inherit"], ts |-> [k |-> "inherit"]] ELSE v

(* Value.Class(): the [[Class]] of 8.6.2, "" for primitives *)
ClassOf(v) == CASE v.t = "arr" -> S_Array [] v.t \in {"obj", "cobj"} -> S_Object [] v.t = "fn" -> S_Function [] OTHER -> <<>>

(* the Go-side conversions must agree with Number(), String(), Boolean() of  *)
(* clause 9 (Ops.tla): [thr, log] as there, value by kind                    *)
ToFloatV(v)   == ToNumber(v, <<>>)
ToIntegerV(v) == LET r == ToNumber(v, <<>>)
                 IN  IF r.thr # "" THEN r ELSE [r EXCEPT !.v = NumV(I64OfNum(r.v.n))]
ToStringVV(v) == ToStringV(v, <<>>)
(* IsNaN: "true if value is NaN (or would convert to NaN)"; a conversion    *)
(* that throws cannot be reported through a bool: the answer is false        *)
IsNaNV(v) == LET r == ToNumber(v, <<>>)
             IN  IF r.thr # "" THEN (IF D("D15_isnan_panics_when_conversion_throws") THEN "gopanic" ELSE "false")
                 ELSE IF IsNaN(r.v.n) THEN "true" ELSE "false"

(* Export of JSON-like data: structurally equal data (value.go Export doc:   *)
(* undefined, null -> nil; boolean -> bool; number -> a number; string ->    *)
(* string; Array -> slice; Object -> map[string]interface{}).  An array hole *)
(* reads as undefined (15.4: no own property), so it exports as nil; object  *)
(* members whose value is undefined are left out (as JSON does, 15.12.3).    *)
XNil == [x |-> "nil"]
RECURSIVE ExportX(_)
ExportX(v) ==
    CASE v.t \in {"undef", "null", "hole"} -> XNil
      [] v.t = "bool" -> [x |-> "bool", b |-> v.b]
      [] v.t = "num" -> [x |-> "num", n |-> v.n]
      [] v.t = "str" -> [x |-> "str", s |-> v.s]
      [] v.t = "arr" ->
            LET kept == IF D("D15_export_drops_array_holes")          \* value.go export(): `continue` on a missing index
                        THEN SelectSeq(v.items, LAMBDA e : e.t # "hole") ELSE v.items
            IN  [x |-> "arr", items |-> [i \in 1..Len(kept) |-> ExportX(kept[i])]]
      [] v.t = "obj" ->
            LET idx == SelectSeq([i \in 1..Len(v.keys) |-> i], LAMBDA i : v.vals[i].t # "undef")
            IN  [x |-> "obj", keys |-> [i \in 1..Len(idx) |-> v.keys[idx[i]]],
                              vals |-> [i \in 1..Len(idx) |-> ExportX(v.vals[idx[i]])]]
      [] v.t = "fn" -> [x |-> "obj", keys |-> <<>>, vals |-> <<>>]
      [] v.t = "cobj" ->        \* the scripted object of the harness: its own valueOf/toString members (functions export as empty maps)
            LET mem(b) == IF b.k = "inherit" THEN <<>>
                          ELSE IF b.k = "noncallable" THEN <<[x |-> "num", n |-> I(1)]>>
                          ELSE <<[x |-> "obj", keys |-> <<>>, vals |-> <<>>]>>
            IN  [x |-> "obj", keys |-> (IF v.ts.k = "inherit" THEN <<>> ELSE <<S_toString>>) \o (IF v.vo.k = "inherit" THEN <<>> ELSE <<S_valueOf>>),
                              vals |-> mem(v.ts) \o mem(v.vo)]

(* Export of data in which containers are SHARED or CYCLIC.  nodes is a      *)
(* sequence of containers [kind |-> "arr"|"obj", keys, vals]; a member value *)
(* is a primitive or a reference [t |-> "ref", i] to node i.  Sharing is     *)
(* invisible to Export (the result is the tree unfolding); a reference back  *)
(* to a container that is being exported (a cycle) exports as nil.           *)
RECURSIVE ExportNode(_, _, _)
RECURSIVE ExportMember(_, _, _)
ExportMember(nodes, v, active) ==
    IF v.t = "ref" THEN (IF v.i \in active THEN XNil ELSE ExportNode(nodes, v.i, active)) ELSE ExportX(v)
ExportNode(nodes, i, active) ==
    LET nd == nodes[i]  act == active \cup {i}
        vs == [j \in 1..Len(nd.vals) |-> ExportMember(nodes, nd.vals[j], act)]
    IN  IF nd.kind = "arr" THEN [x |-> "arr", items |-> vs] ELSE [x |-> "obj", keys |-> nd.keys, vals |-> vs]

(* The Go type otto gives an exported value (only used to say when the known *)
(* deviation D15_export_common_type_panics strikes): number literals that    *)
(* are non-negative integers below 2^53 are held as int64, all other numbers *)
(* as float64; an array becomes []T when all elements agree in (kind, key    *)
(* kind, element kind) - T being the type of the LAST element - and          *)
(* []interface{} otherwise.                                                  *)
TY(k) == [k |-> k]
TSlice(e) == [k |-> "slice", e |-> e]
Kind3(ty) == CASE ty.k = "slice" -> <<"slice", "invalid", ty.e.k>>
               [] ty.k = "map" -> <<"map", "string", "iface">>
               [] ty.k = "nil" -> <<"invalid", "invalid", "invalid">>
               [] OTHER -> <<ty.k, "invalid", "invalid">>
NumLeafTy(n) == IF n.c = "int" /\ n.v >= 0 THEN TY("int64")
                ELSE IF n.c = "big" /\ ~n.neg /\ n.e >= 0 /\ n.e + BnBitLen(n.m) <= 53 THEN TY("int64")
                ELSE TY("float64")
RECURSIVE ExportTy(_)
ExportTy(v) ==
    CASE v.t \in {"undef", "null"} -> TY("nil")
      [] v.t = "bool" -> TY("bool")
      [] v.t = "num" -> NumLeafTy(v.n)
      [] v.t = "str" -> TY("string")
      [] v.t = "arr" ->
            LET kept == SelectSeq(v.items, LAMBDA e : e.t # "hole")
                tys  == [i \in 1..Len(kept) |-> ExportTy(kept[i])]
                n    == Len(tys)
            IN  IF n = 0 THEN TSlice(TY("iface"))
                ELSE IF tys[n].k # "nil" /\ \A i \in 1..n : Kind3(tys[i]) = Kind3(tys[n]) THEN TSlice(tys[n])
                ELSE TSlice(TY("iface"))
      [] OTHER -> TY("map")
RECURSIVE ExportPanics(_)
ExportPanics(v) ==        \* reflect.Value.Set of an element whose type is not the last element's type
    CASE v.t = "arr" ->
            LET kept == SelectSeq(v.items, LAMBDA e : e.t # "hole")
                tys  == [i \in 1..Len(kept) |-> ExportTy(kept[i])]
                n    == Len(tys)
            IN  \/ \E i \in 1..n : ExportPanics(kept[i])
                \/ /\ n > 0 /\ tys[n].k # "nil"
                   /\ \A i \in 1..n : Kind3(tys[i]) = Kind3(tys[n])
                   /\ \E i \in 1..n : tys[i] # tys[n]
      [] v.t = "obj" -> \E i \in 1..Len(v.vals) : ExportPanics(v.vals[i])
      [] OTHER -> FALSE
ExportOutcome(v) ==
    IF D("D15_export_common_type_panics") /\ ExportPanics(v) THEN [x |-> "gopanic"] ELSE ExportX(v)

-----------------------------------------------------------------------------
(* Calls through the API (otto.go Otto.Call, Object.Call; value.go           *)
(* Value.Call): "essentially equivalent to value.apply(thisValue, args)".    *)
(* 10.4.3 for non-strict code: this = undefined/null -> the global object,   *)
(* a primitive -> ToObject(this), an object -> itself.  The arguments are    *)
(* the JavaScript counterparts of the Go values.                             *)
ThisBinding(th) ==        \* th: [k |-> "undef"|"null"|"objO"|"gonil"] or [k |-> "prim", g]
    CASE th.k \in {"undef", "null", "gonil"} -> [k |-> "global"]
      [] th.k = "objO" -> [k |-> "O"]
      [] th.k = "prim" -> [k |-> "boxed", v |-> ToJS(th.g)]
CallObs(th, args) == [th |-> ThisBinding(th), a |-> [i \in 1..Len(args) |-> ToJS(args[i])]]
(* Otto.Call(source, this, args...): the source is the constructor form only  *)
(* when it begins with the keyword new followed by a space (otto.go doc); any  *)
(* other source - also a name that merely begins with the letters n-e-w - is   *)
(* evaluated and called (11.2.3), a dotted path with a Go-nil this taking its  *)
(* owner as this.  src = [new |-> BOOLEAN, sp (spaces after new), path]; what  *)
(* the callee records: its own name, whether it was constructed (11.2.2), the  *)
(* this binding, the arguments, and what the API returned.                      *)
CallSrcObs(src, th, args) ==
    LET callee == src.path[Len(src.path)] IN
    [callee |-> callee, construct |-> src.new,
     th |-> IF src.new THEN "newobj" ELSE IF th.k = "objO" THEN "O" ELSE IF Len(src.path) > 1 THEN "owner" ELSE "global",
     a |-> [i \in 1..Len(args) |-> ToJS(args[i])],
     ret |-> (IF src.new THEN "obj:" ELSE "R:") \o callee]
(* Object.Call(name, args...) never constructs: the method is called with the object as this *)
ObjCallObs(name, args) == [callee |-> name, construct |-> FALSE, th |-> "owner", a |-> [i \in 1..Len(args) |-> ToJS(args[i])], ret |-> "R:" \o name]

(* failing calls: the callee throws (the exception is the error of the API     *)
(* call), the value is not callable (11.2.3 step 5: TypeError), the name does  *)
(* not resolve (8.7.1: ReferenceError)                                          *)
CallErr(what) == CASE what = "throws" -> "RangeError" [] what = "notcallable" -> "TypeError" [] what = "unresolvable" -> "ReferenceError"

-----------------------------------------------------------------------------
(* C16: JavaScript argument -> Go parameter (runtime.go convertCallParameter,*)
(* convertNumeric).  Parameter types ("ty"):                                 *)
(*   [k |-> <numeric kind>|"string"|"bool"|"iface"|"struct"|"ptr"],          *)
(*   [k |-> "slice", e |-> ty], [k |-> "map", e |-> ty]                      *)
(* Result [thr |-> "", g |-> G] or [thr |-> "TypeError"|"RangeError"], or    *)
(* [thr |-> "gopanic"] / [thr |-> "value"] in deviation branches only.       *)
(* What arrives is described type-directed: numbers/strings/bools as in G,   *)
(*   interface{}   [k |-> "x", x |-> exported structure]                     *)
(*   slices        [k |-> "slice", items], maps [k |-> "map", keys, vals]    *)
(*   T             [k |-> "struct", A, B, c, F, Any, Hid]                    *)
(*   pointer to T  [k |-> "ptrnil"] or [k |-> "ptr", to |-> struct]          *)
(* The rule of the property statement: the argument arrives as exactly the   *)
(* Go value it denotes or the call fails loudly; a number must be exactly    *)
(* representable in the target kind (never truncated, wrapped or rounded);   *)
(* containers are built element-wise with the same rule.  A string parameter *)
(* receives String(value) (9.8), a bool parameter Boolean(value) (9.2), an   *)
(* interface{} parameter the exported value; numeric parameters accept       *)
(* Numbers only (no implicit ToNumber: TypeError).                           *)
POK(g) == [thr |-> "", g |-> g]
PErr(cls) == [thr |-> cls]
TK(k) == [k |-> k]
TSl(e) == [k |-> "slice", e |-> e]
TMp(e) == [k |-> "map", e |-> e]
GX(x) == [k |-> "x", x |-> x]

(* %v of a float64 as Go's fmt prints it (the deviation of the string        *)
(* parameter): shortest digits, %e form when the exponent is < -4 or >= 6,   *)
(* exponent of at least two digits, "+Inf", "-Inf", "NaN", "-0"              *)
RECURSIVE StripTrailingZeros(_)
StripTrailingZeros(d) == IF Len(d) > 1 /\ d[Len(d)] = 48 THEN StripTrailingZeros(SubSeq(d, 1, Len(d) - 1)) ELSE d
GoFmtV(x) ==
    CASE x.c = "nan" -> S_NaN
      [] x.c = "inf" -> (IF x.neg THEN <<45, 73, 110, 102>> ELSE <<43, 73, 110, 102>>)
      [] x.c = "nzero" -> <<45, 48>>
      [] OTHER ->
            LET a  == IF IsNeg(x) THEN NumNeg(x) ELSE x
                sd == IF IsSafeInt(a) THEN (LET ds == IntNumToStr(a) IN [digits |-> StripTrailingZeros(ds), n |-> Len(ds)])
                      ELSE ShortestDigits(a)
                d  == sd.digits
                ex == sd.n - 1
                sg == IF IsNeg(x) THEN <<45>> ELSE <<>>
            IN  IF ex < -4 \/ ex >= 6                      \* strconv 'g' with the shortest precision: %e from 1e+06 on
                THEN LET ae == IF ex < 0 THEN -ex ELSE ex
                         es == (IF ex < 0 THEN <<45>> ELSE <<43>>) \o (IF ae < 10 THEN <<48>> ELSE <<>>) \o DigitsNat(ae)
                     IN  sg \o (IF Len(d) = 1 THEN d ELSE <<d[1], 46>> \o SubSeq(d, 2, Len(d))) \o <<101>> \o es
                ELSE sg \o Layout(d, sd.n)

(* does otto hold this Number as a Go int64 (integer literal) or a float64?  *)
(* only deviating branches depend on it                                      *)
HeldAsInt(n) == NumLeafTy(n).k = "int64"

NumToKind(x, k) ==        \* a Number to a numeric parameter
    IF k = "float64" THEN POK(GFlt(k, x))
    ELSE IF k = "float32" THEN
         (IF D("D16_float32_parameter_rounded")
          THEN (IF IsFinite(x) /\ NumCmp(IF IsNeg(x) THEN NumNeg(x) ELSE x, MaxF32) > 0 THEN PErr("RangeError")
                ELSE POK(GFlt(k, RoundF32(x))))          \* convertNumeric: val.Convert(t) after an overflow test only
          ELSE IF IsF32(x) THEN POK(GFlt(k, x)) ELSE PErr("RangeError"))
    ELSE \* integer kinds: the value must be an integer within the range of the kind
         IF ~IsFinite(x) \/ ~(IsInteger(x) \/ IsZero(x)) THEN PErr("RangeError")
         ELSE LET z == ZOfNum(x)
              IN  IF ~InRangeZ(z, k) THEN PErr("RangeError")
                  \* documented limit, not a finding: JavaScript numbers reach integer parameters
                  \* through int64 (convertNumeric), so 2^63 <= x < 2^64 is rejected loudly for
                  \* uint and uint64 - the statement allows "or the call fails with a RangeError"
                  ELSE IF NumCmp(z, MaxI64) > 0 THEN PErr("RangeError")
                  ELSE POK(GInt(k, z))

(* 15.4.4.2/15.4.4.5 Array.prototype.toString = join(",") on arrays of primitives *)
RECURSIVE JoinPrims(_, _)
JoinPrims(items, i) ==
    IF i > Len(items) THEN <<>>
    ELSE (IF i > 1 THEN <<44>> ELSE <<>>)
         \o (IF items[i].t \in {"undef", "null", "hole"} THEN <<>> ELSE ToStringPrim(items[i]))
         \o JoinPrims(items, i + 1)

StringOfPrim(v) ==        \* 9.8 ToString; the deviation prints float64-held numbers with Go's %v
    IF v.t = "num" /\ D("D16_string_parameter_number_go_format") /\ ~HeldAsInt(v.n)
    THEN GoFmtV(v.n) ELSE ToStringPrim(v)

StructFieldOf(name) ==    \* fieldIndexByName: json tag or Go name of an exported field; "-" tags and unexported fields are not reachable
    CASE name = S_A -> "A" [] name \in {S_B, S_bee} -> "B" [] name = S_F -> "F" [] name = S_Any -> "Any" [] OTHER -> "none"
FieldTy(f) == CASE f = "A" -> TK("int") [] f = "B" -> TK("string") [] f = "F" -> TK("float64") [] f = "Any" -> TK("iface")
ZeroStruct == [k |-> "struct", A |-> I(0), B |-> <<>>, c |-> I(0), F |-> I(0), Any |-> GX(XNil), Hid |-> I(0)]
SetField(st, f, g) ==
    CASE f = "A" -> [st EXCEPT !.A = g.z] [] f = "B" -> [st EXCEPT !.B = g.s]
      [] f = "F" -> [st EXCEPT !.F = g.n] [] f = "Any" -> [st EXCEPT !.Any = g]

RECURSIVE ZeroG(_)
ZeroG(ty) == CASE ty.k \in IntKinds -> GInt(ty.k, I(0))
               [] ty.k \in FltKinds -> GFlt(ty.k, I(0))
               [] ty.k = "string" -> GStr(<<>>)
               [] ty.k = "bool" -> GBool(FALSE)
               [] ty.k = "iface" -> GX(XNil)
               [] ty.k = "slice" -> [k |-> "slice", items |-> <<>>]
               [] ty.k = "map" -> [k |-> "map", keys |-> <<>>, vals |-> <<>>]
               [] ty.k = "struct" -> ZeroStruct
               [] ty.k = "ptr" -> GPtrNil
FirstBad(rs) == SelectSeq([i \in 1..Len(rs) |-> i], LAMBDA i : rs[i].thr # "")

RECURSIVE ConvertParam(_, _)
RECURSIVE FillStruct(_, _, _, _)
FillStruct(st, keys, vals, i) ==
    IF i > Len(keys) THEN POK(st)
    ELSE LET f == StructFieldOf(keys[i])
         IN  IF f = "none" THEN PErr("TypeError")
             ELSE LET r == ConvertParam(vals[i], FieldTy(f))
                  IN  IF r.thr # "" THEN r ELSE FillStruct(SetField(st, f, r.g), keys, vals, i + 1)
ConvertParam(v, ty) ==
    CASE ty.k = "bool" -> POK(GBool(ToBooleanV(AsOps(v))))                  \* 9.2
      [] ty.k = "string" ->
            IF v.t = "cobj" THEN
                 (LET r == ToStringV(v, <<>>) IN IF r.thr = "" THEN POK(GStr(r.v.s)) ELSE PErr("TypeError"))   \* the conversion failed: loud
            ELSE IF v.t = "arr" THEN POK(GStr(JoinPrims(v.items, 1)))
            ELSE IF v.t = "obj" THEN POK(GStr(S_objObject))
            ELSE POK(GStr(StringOfPrim(v)))
      [] ty.k \in NumKinds ->
            IF v.t = "num" THEN NumToKind(v.n, ty.k) ELSE PErr("TypeError")
      [] ty.k = "iface" -> POK(GX(ExportX(v)))
      [] ty.k = "slice" ->
            IF v.t = "arr" THEN
                 LET rs == [i \in 1..Len(v.items) |->
                               IF v.items[i].t = "hole"
                               THEN (IF D("D16_slice_parameter_hole_becomes_zero")
                                     THEN POK(ZeroG(ty.e))          \* convertCallParameter: `continue` on a missing index
                                     ELSE ConvertParam(Undef, ty.e))  \* 8.12.3: a missing index reads as undefined
                               ELSE ConvertParam(v.items[i], ty.e)]
                     bad == FirstBad(rs)
                 IN  IF bad # <<>> THEN PErr(rs[bad[1]].thr)
                     ELSE POK([k |-> "slice", items |-> [i \in 1..Len(rs) |-> rs[i].g]])
            ELSE IF v.t = "obj" /\ D("D16_slice_parameter_arraylike_zero_filled")
                    /\ \E i \in 1..Len(v.keys) : v.keys[i] = S_length /\ v.vals[i].t = "num"
                 THEN \* any object with a numeric length: a slice of that many ZERO values (elements only copied for class Array)
                      LET i == CHOOSE i \in 1..Len(v.keys) : v.keys[i] = S_length
                          l == I64OfNum(v.vals[i].n)
                      IN  IF NumCmp(l, I(0)) < 0 THEN PErr("value")          \* reflect.MakeSlice: negative len, thrown as a string
                          ELSE POK([k |-> "slice", items |-> [j \in 1..l.v |-> ZeroG(ty.e)]])
            ELSE PErr("TypeError")
      [] ty.k = "map" ->
            IF v.t = "obj" THEN
                 LET rs == [i \in 1..Len(v.vals) |-> ConvertParam(v.vals[i], ty.e)]
                     bad == FirstBad(rs)
                 IN  IF bad # <<>> THEN PErr(rs[bad[1]].thr)
                     ELSE POK([k |-> "map", keys |-> v.keys, vals |-> [i \in 1..Len(rs) |-> rs[i].g]])
            ELSE PErr("TypeError")
      [] ty.k = "struct" ->
            IF v.t = "obj" THEN FillStruct(ZeroStruct, v.keys, v.vals, 1) ELSE PErr("TypeError")
      [] ty.k = "ptr" ->
            IF v.t \in {"undef", "null"} THEN POK(GPtrNil)
            ELSE LET r == ConvertParam(v, TK("struct"))
                 IN  IF r.thr # "" THEN r ELSE POK([k |-> "ptr", to |-> r.g])

(* ---- calling a Go function (runtime.go toValue, reflect.Func branch) ------ *)
(* sig = [ins |-> <<ty...>>, variadic |-> BOOLEAN] (the last type is the     *)
(* element type of the variadic tail).  Arity mismatch: RangeError.  A       *)
(* variadic function called with exactly as many arguments as parameters     *)
(* whose last argument converts to the slice type receives it as the tail    *)
(* (documented in runtime.go).                                               *)
ConvertArgs(args, sig) ==
    LET n == Len(sig.ins)  m == Len(args) IN
    IF ~sig.variadic THEN
         (IF m # n THEN PErr("RangeError")
          ELSE LET rs == [i \in 1..m |-> ConvertParam(args[i], sig.ins[i])]
                   bad == FirstBad(rs)
               IN  IF bad # <<>> THEN PErr(rs[bad[1]].thr) ELSE POK([i \in 1..m |-> rs[i].g]))
    ELSE IF m < n - 1 THEN PErr("RangeError")
    ELSE LET fixed == [i \in 1..(n - 1) |-> ConvertParam(args[i], sig.ins[i])]
             bad1  == FirstBad(fixed)
             whole == IF m = n THEN ConvertParam(args[n], TSl(sig.ins[n])) ELSE PErr("no")
         IN  IF bad1 # <<>> THEN PErr(fixed[bad1[1]].thr)
             ELSE IF m = n /\ whole.thr = "" THEN POK([i \in 1..(n - 1) |-> fixed[i].g] \o <<whole.g>>)
             ELSE IF m = n /\ whole.thr = "RangeError" THEN PErr("RangeError")      \* a range failure inside the attempt is final

             ELSE LET tail == [i \in 1..(m - n + 1) |-> ConvertParam(args[n - 1 + i], sig.ins[n])]
                      bad2 == FirstBad(tail)
                  IN  IF bad2 # <<>> THEN PErr(tail[bad2[1]].thr)
                      ELSE POK([i \in 1..(n - 1) |-> fixed[i].g] \o <<[k |-> "slice", items |-> [i \in 1..Len(tail) |-> tail[i].g]]>>)

(* return values: none -> undefined, one -> its counterpart, several -> an array *)
ReturnJS(outs) == IF Len(outs) = 0 THEN Undef ELSE IF Len(outs) = 1 THEN ToJS(outs[1])
                  ELSE JArr([i \in 1..Len(outs) |-> ToJS(outs[i])])

(* a bridged struct handed back to a Go function (convertCallParameter: the  *)
(* goStructObject branch): isPtr says whether the runtime holds *T or T;     *)
(* `same` whether the callee receives the very pointer the runtime holds     *)
BridgedToParam(isPtr, stc, ty) ==
    CASE ty = "ptr" -> [thr |-> "", same |-> isPtr, g |-> [k |-> "ptr", to |-> stc]]
      [] ty = "struct" ->
            IF isPtr /\ D("D16_struct_parameter_from_bridged_pointer_zeroed")
            THEN [thr |-> "", same |-> FALSE, g |-> ZeroStruct]      \* *T is not assignable to T; the wrapper has no own properties: every field stays zero
            ELSE [thr |-> "", same |-> FALSE, g |-> stc]
      [] ty = "iface" -> [thr |-> "", same |-> isPtr, g |-> IF isPtr THEN [k |-> "ptr", to |-> stc] ELSE stc]

(* a JavaScript function passed for a parameter of type func(int) int and   *)
(* called from Go with 3: the body is one of                                *)
(*   [b |-> "ret", v]  returns v;  [b |-> "throw", cls]  throws new cls()    *)
(* outcome as the calling script sees it: [thr, g]                          *)
FuncParamCall(body) ==
    IF body.b = "throw"
    THEN (IF D("D16_func_parameter_exception_escapes_try") THEN PErr("uncaught:TypeError")   \* tryCatchEvaluate cannot wrap the *otto.Error the Go wrapper re-panics with
          ELSE PErr(body.cls))
    ELSE ConvertParam(body.v, TK("int"))

-----------------------------------------------------------------------------
(* C16: live containers.  The element conversion on writes must be the same *)
(* checked conversion as for parameters.  otto's bridged slices, arrays and  *)
(* maps use Value.toReflectValue instead (value.go), transcribed here as the *)
(* deviation D16_element_write_unchecked_conversion; errors of that routine  *)
(* are raised with panic(err) on a plain Go error, which a script cannot     *)
(* catch (D16_element_write_error_not_catchable).                            *)

(* ToNumber of the JavaScript values used as write operands (9.3) *)
NumOfJ(v) == IF v.t = "obj" THEN NaN                                  \* "[object Object]"
             ELSE IF v.t = "arr" THEN StrToNum(JoinPrims(v.items, 1))
             ELSE ToNumberPrim(v)
StrOfJ(v) == IF v.t = "obj" THEN S_objObject ELSE IF v.t = "arr" THEN JoinPrims(v.items, 1) ELSE ToStringPrim(v)

(* Value.number().int64 (value_number.go): exact for Go-held integers, else  *)
(* through float64: NaN -> 0, saturating, truncating                         *)
NumberI64(v) == IF v.t = "num" /\ HeldAsInt(v.n) THEN v.n ELSE I64OfNum(NumOfJ(v))
(* toIntegerFloat *)
IntegerFloat(v) == LET x == NumOfJ(v) IN IF IsNaN(x) THEN I(0) ELSE IF IsInf(x) THEN x ELSE Trunc(x)

ElemErr == PErr("RangeError")

ToReflectValue(v, k) ==
    LET frac    == v.t = "num" /\ ~HeldAsInt(v.n) /\ IsFinite(v.n) /\ ~(IsInteger(v.n) \/ IsZero(v.n))
        \* the guard is `frac > 0` on math.Modf: a negative fraction slips through and is truncated
        posFrac == frac /\ (~IsNeg(v.n) \/ ~D("D16_element_write_negative_fraction_truncated"))
    IN
    IF k \notin {"float32", "float64", "iface"} /\ posFrac THEN ElemErr
    ELSE CASE k = "bool" -> POK(GBool(ToBooleanV(AsOps(v))))
      [] k \in {"int8", "int16", "int32", "uint8", "uint16", "uint32"} ->
            LET z == NumberI64(v) IN IF InRangeZ(z, k) THEN POK(GInt(k, ZOfNum(z))) ELSE ElemErr
      [] k \in {"int", "int64"} ->
            LET t == IntegerFloat(v)
            IN  IF IsInf(t) \/ NumCmp(t, MinI64) < 0 \/ NumCmp(t, P2Z(63)) > 0 THEN ElemErr
                ELSE IF NumCmp(t, P2Z(63)) = 0 THEN POK(GInt(k, MinI64))         \* int64(2^63) wraps (amd64)
                ELSE POK(GInt(k, ZOfNum(t)))
      [] k \in {"uint", "uint64"} ->
            LET t == IntegerFloat(v)
            IN  IF IsInf(t) \/ NumCmp(t, I(0)) < 0 \/ NumCmp(t, P2Z(64)) > 0 THEN ElemErr
                ELSE IF NumCmp(t, P2Z(64)) = 0 THEN POK(GInt(k, P2Z(63)))        \* uint64(2^64) (amd64)
                ELSE POK(GInt(k, ZOfNum(t)))
      [] k = "float32" ->
            LET x == NumOfJ(v)  a == IF IsNeg(x) THEN NumNeg(x) ELSE x
            IN  IF ~IsNaN(x) /\ ~IsZero(x) /\ (NumCmp(a, Canon(FALSE, <<1>>, -149)) < 0 \/ NumCmp(a, MaxF32) > 0) THEN ElemErr
                ELSE POK(GFlt(k, RoundF32(x)))
      [] k = "float64" -> POK(GFlt(k, NumOfJ(v)))
      [] k = "string" -> POK(GStr(StrOfJ(v)))
      [] k = "iface" ->
            IF v.t \in {"undef", "null"} /\ D("D16_element_write_error_not_catchable")
            THEN POK([k |-> "invalid"])                   \* reflect.ValueOf(nil), the zero reflect.Value, is stored as it is
            ELSE POK(GX(ExportX(v)))

(* storing the zero reflect.Value: reflect.Value.Set / reflect.Append panic with a *reflect.ValueError *)
InvalidErr == IF D("D16_element_write_error_not_catchable") THEN "uncaught:TypeError" ELSE "TypeError"
IsInvalid(r) == r.thr = "" /\ r.g.k = "invalid"
ElemConv(v, k) ==
    LET r == IF D("D16_element_write_unchecked_conversion") THEN ToReflectValue(v, k) ELSE ConvertParam(v, TK(k))
    IN  IF r.thr \in {"TypeError", "RangeError"} /\ D("D16_element_write_error_not_catchable")
        THEN PErr("uncaught:TypeError")                  \* panic(err) on a plain Go error: tryCatchEvaluate cannot wrap it, Run returns a TypeError past every catch
        ELSE r

(* one element write c[0] = v / m.a = v into a bridged []K, [2]K (through a pointer) or map[string]K *)
(* whose element was old: the outcome and the element afterwards                                    *)
ElemWriteOutcome(v, k, old) ==
    LET r == ElemConv(v, k)
    IN  IF r.thr # "" THEN [thr |-> r.thr, elem |-> old]
        ELSE IF IsInvalid(r) THEN [thr |-> InvalidErr, elem |-> old]
        ELSE [thr |-> "", elem |-> r.g]

(* the JavaScript counterpart of what arrived (type-directed G forms) *)
RECURSIVE ToJSX(_)
ToJSX(x) == CASE x.x = "nil" -> Undef
              [] x.x = "bool" -> BoolV(x.b)
              [] x.x = "num" -> NumV(x.n)
              [] x.x = "str" -> StrV(x.s)
              [] x.x = "arr" -> JArr([i \in 1..Len(x.items) |-> ToJSX(x.items[i])])
              [] x.x = "obj" -> JObj(x.keys, [i \in 1..Len(x.vals) |-> ToJSX(x.vals[i])])
ElemJS(g) == IF g.k = "x" THEN ToJSX(g.x) ELSE ToJS(g)
ZeroElem(k) == IF k = "iface" THEN GX(XNil) ELSE ZeroOf(k)

(* ---- slices ---------------------------------------------------------------- *)
(* State of a bridged slice: [k (element kind), mode, go, js] where go is   *)
(* the Go view and js the view through the JavaScript wrapper; mode "field"  *)
(* is a slice-typed field of a struct reached through a pointer (addressable,*)
(* b.S), mode "value" a slice passed by value (s).  The property requires    *)
(* js = go after every step for "field"; a by-value slice shares its         *)
(* elements, but its header (length) is a Go value the script cannot reach.  *)
(* Operations: [op |-> "jsread", i], [op |-> "jswrite", i, v],                *)
(* [op |-> "jsdelete", i], [op |-> "jslen"], [op |-> "jspush", v],            *)
(* [op |-> "jspop"], [op |-> "jssetlen", n], [op |-> "gowrite", i, g],        *)
(* [op |-> "goappend", g].  Result [st, thr, ret].                           *)
SR(st, thr, ret) == [st |-> st, thr |-> thr, ret |-> ret]
Upd(seq, i, x) == [seq EXCEPT ![i] = x]
RECURSIVE SliceStep(_, _)
SliceStep(st, op) ==
    LET n == Len(st.js)  field == st.mode = "field"
        lost == field /\ D("D16_slice_field_growth_not_written_back")       \* goSliceObject.setValue/setLength: reflect.Append / MakeSlice result kept in the wrapper only
        both(items) == [st EXCEPT !.go = items, !.js = items]
        grow(items) == [st EXCEPT !.go = items, !.js = items, !.cap = Len(items)]   \* the harness keeps capacity = length on growth
    IN
    CASE op.op = "jsread" -> SR(st, "", IF op.i < n THEN ElemJS(st.js[op.i + 1]) ELSE Undef)
      [] op.op = "jslen" -> SR(st, "", IntV(n))
      [] op.op = "jswrite" ->
            LET r == ElemConv(op.v, st.k)                                           \* the value is converted first
            IN  IF r.thr # "" THEN SR(st, r.thr, Undef)
                ELSE IF op.i > n THEN SR(st, "", op.v)                              \* no such element and not an append: rejected, 8.7.2 non-strict
                ELSE IF IsInvalid(r) THEN SR(st, InvalidErr, Undef)
                ELSE IF op.i < n THEN SR(both(Upd(st.js, op.i + 1, r.g)), "", op.v)
                ELSE IF lost THEN SR(st, "", op.v)
                ELSE IF field THEN SR(grow(Append(st.js, r.g)), "", op.v)
                ELSE SR([st EXCEPT !.js = Append(st.js, r.g), !.done = TRUE], "", op.v)
      [] op.op = "jsdelete" ->     \* a Go element cannot be removed: it is reset to the zero value (type_go_slice.go goSliceDelete)
            IF op.i < n THEN SR(both(Upd(st.js, op.i + 1, ZeroElem(st.k))), "", BoolV(TRUE))
            ELSE SR(st, "", BoolV(~D("D16_slice_delete_missing_index_returns_false")))          \* 8.12.7 step 2: no such property -> true
      [] op.op = "jspush" ->       \* 15.4.4.7
            LET r == ElemConv(op.v, st.k)
            IN  IF r.thr # "" THEN SR(st, r.thr, Undef)
                ELSE IF IsInvalid(r) THEN SR(st, InvalidErr, Undef)
                ELSE IF lost THEN SR(st, "", IntV(n + 1))
                ELSE IF field THEN SR(grow(Append(st.js, r.g)), "", IntV(n + 1))
                ELSE SR([st EXCEPT !.js = Append(st.js, r.g), !.done = TRUE], "", IntV(n + 1))
      [] op.op = "jspop" ->        \* 15.4.4.6
            IF n = 0 THEN SR(st, "", Undef)
            ELSE IF ~field /\ D("D16_slice_value_shrink_panics")
                 THEN SR([both(Upd(st.js, n, ZeroElem(st.k))) EXCEPT !.done = TRUE], "value", Undef)
                                                                      \* reflect.Value.SetLen on an unaddressable slice, thrown as a string; the element was already zeroed
            ELSE IF field THEN SR(both(SubSeq(st.js, 1, n - 1)), "", ElemJS(st.js[n]))
            ELSE \* by value: 15.4.4.6 deletes the last element (the shared Go element is reset to zero), then only the script's length shrinks
                 SR([st EXCEPT !.go = Upd(st.go, n, ZeroElem(st.k)), !.js = SubSeq(st.js, 1, n - 1), !.done = TRUE], "", ElemJS(st.js[n]))
      [] op.op = "jssetlen" ->
            IF op.n = n THEN SR(st, "", IntV(op.n))
            ELSE IF op.n < n THEN
                 (IF ~field /\ D("D16_slice_value_shrink_panics") THEN SR([st EXCEPT !.done = TRUE], "value", Undef)
                  ELSE IF field THEN SR(both(SubSeq(st.js, 1, op.n)), "", IntV(op.n))
                  ELSE SR([st EXCEPT !.js = SubSeq(st.js, 1, op.n), !.done = TRUE], "", IntV(op.n)))
            ELSE LET grown == st.js \o [j \in 1..(op.n - n) |-> ZeroElem(st.k)]
                 IN  IF lost THEN SR(st, "", IntV(op.n))
                     ELSE IF field THEN SR(grow(grown), "", IntV(op.n))
                     ELSE SR([st EXCEPT !.js = grown, !.done = TRUE], "", IntV(op.n))
      \* s.length = v for an arbitrary value v: 15.4.5.1 step 3: ToUint32(v) must equal ToNumber(v), otherwise RangeError.
      \* otto takes ToInteger(v) as a Go int: a negative or enormous result panics inside reflect / the allocator (thrown
      \* to the script as a bare string), a fraction, NaN or a non-numeric value silently truncates (1.5 -> 1, NaN -> 0).
      [] op.op = "jssetlenv" ->
            LET x == NumOfJ(op.v)
                valid == IsFinite(x) /\ (IsInteger(x) \/ IsZero(x)) /\ NumCmp(x, I(0)) >= 0 /\ NumCmp(x, P2Z(32)) < 0
                m == I64OfNum(x)
                plain(k) == [op |-> "jssetlen", n |-> k]
            IN  IF D("D16_slice_length_invalid_value_not_rangeerror")
                THEN (IF NumCmp(m, I(0)) < 0 \/ NumCmp(m, I(1000000)) > 0 THEN SR(st, "value", Undef)
                      ELSE LET r == SliceStep(st, plain(m.v)) IN [r EXCEPT !.ret = IF r.thr = "" THEN op.v ELSE r.ret])
                ELSE IF ~valid THEN SR(st, "RangeError", Undef)
                ELSE LET r == SliceStep(st, plain(ZOfNum(x).v)) IN [r EXCEPT !.ret = IF r.thr = "" THEN op.v ELSE r.ret]
      \* 15.4.4.9 shift and 15.4.4.12 splice(0, 1): the elements move down one place, the last one is deleted, length - 1.
      \* On a by-value slice the moves and the delete hit the shared elements, only the script's length shrinks.
      [] op.op \in {"jsshift", "jssplice"} ->
            IF n = 0 THEN SR(st, "", IF op.op = "jsshift" THEN Undef ELSE JArr(<<>>))
            ELSE LET ret == IF op.op = "jsshift" THEN ElemJS(st.js[1]) ELSE JArr(<<ElemJS(st.js[1])>>)
                 IN  IF field THEN SR(both(Tail(st.js)), "", ret)
                     ELSE SR([st EXCEPT !.go = Tail(st.js) \o <<ZeroElem(st.k)>>, !.js = Tail(st.js), !.done = TRUE], "", ret)
      \* 15.4.4.13 unshift(v): the elements move up starting with the last (an append), then v is put at index 0
      [] op.op = "jsunshift" ->
            LET r == ElemConv(op.v, st.k)
            IN  IF r.thr # "" \/ IsInvalid(r) THEN SR(st, "unmodelled", Undef)          \* partial moves before the failing put: not generated
                ELSE IF field THEN SR(grow(<<r.g>> \o st.js), "", IntV(n + 1))
                ELSE SR([st EXCEPT !.js = <<r.g>> \o st.js, !.done = TRUE], "", IntV(n + 1))   \* the first move reallocates: the Go elements stay
      [] op.op = "gowrite" -> SR(both(Upd(st.go, op.i + 1, op.g)), "", Undef)
      [] op.op = "goappend" -> SR(grow(Append(st.go, op.g)), "", Undef)

(* ---- Go arrays ([2]K) --------------------------------------------------------- *)
(* state [k, ptr, go] : a fixed-length Go array, bridged through a pointer (ptr,   *)
(* elements writable) or by value (a read-only copy: the elements and length are   *)
(* non-writable properties, so assignments are ignored in non-strict code 8.12.5   *)
(* and delete is false 8.12.7).  length is not writable; push therefore throws     *)
(* (15.4.4.7 step 6: [[Put]] with Throw = true).                                    *)
ArrayStep(st, op) ==
    LET n == Len(st.go) IN
    CASE op.op = "jsread" -> SR(st, "", IF op.i < n THEN ElemJS(st.go[op.i + 1]) ELSE Undef)
      [] op.op = "jslen" -> SR(st, "", IntV(n))
      [] op.op = "jswrite" ->
            IF ~st.ptr \/ op.i >= n THEN SR(st, "", op.v)                      \* read-only copy / no such element: rejected silently
            ELSE LET r == ElemConv(op.v, st.k)
                 IN  IF r.thr # "" THEN SR(st, r.thr, Undef)
                     ELSE IF IsInvalid(r) THEN SR(st, InvalidErr, Undef)
                     ELSE SR([st EXCEPT !.go = Upd(st.go, op.i + 1, r.g)], "", op.v)
      [] op.op = "jsdelete" ->
            IF op.i >= n THEN SR(st, "", BoolV(~D("D16_slice_delete_missing_index_returns_false")))     \* type_go_array.go goArrayDelete: same rule as goSliceDelete
            ELSE IF ~st.ptr THEN SR(st, "", BoolV(FALSE))
            ELSE SR([st EXCEPT !.go = Upd(st.go, op.i + 1, ZeroElem(st.k))], "", BoolV(TRUE))
      [] op.op = "jssetlen" -> SR(st, "", IntV(op.n))                            \* length is not writable: ignored
      [] op.op = "jspush" -> SR(st, "TypeError", Undef)
      [] op.op = "gowrite" -> SR([st EXCEPT !.go = Upd(st.go, op.i + 1, op.g)], "", Undef)
ArrayObs(st) == [js |-> JArr([i \in 1..Len(st.go) |-> ElemJS(st.go[i])]), go |-> st.go]

(* ---- maps (map[string]K) --------------------------------------------------- *)
(* state [k, keys, vals] (keys sorted).  Operations: jsread/jswrite/jsdelete  *)
(* /jshas/jskeys with a key, gowrite, godelete.                              *)
KeyIdx(keys, key) == SelectSeq([i \in 1..Len(keys) |-> i], LAMBDA i : keys[i] = key)
RECURSIVE InsPos(_, _, _)
InsPos(keys, key, i) == IF i > Len(keys) \/ StrCmp(key, keys[i]) < 0 THEN i ELSE InsPos(keys, key, i + 1)
InsertAt(seq, p, x) == SubSeq(seq, 1, p - 1) \o <<x>> \o SubSeq(seq, p, Len(seq))
RemoveAt(seq, p) == SubSeq(seq, 1, p - 1) \o SubSeq(seq, p + 1, Len(seq))
MapPut(st, key, g) ==
    LET ix == KeyIdx(st.keys, key)
    IN  IF ix # <<>> THEN [st EXCEPT !.vals = Upd(st.vals, ix[1], g)]
        ELSE LET p == InsPos(st.keys, key, 1)
             IN  [st EXCEPT !.keys = InsertAt(st.keys, p, key), !.vals = InsertAt(st.vals, p, g)]
MapDel(st, key) ==
    LET ix == KeyIdx(st.keys, key)
    IN  IF ix = <<>> THEN st ELSE [st EXCEPT !.keys = RemoveAt(st.keys, ix[1]), !.vals = RemoveAt(st.vals, ix[1])]
MapStep(st, op) ==
    LET ix == IF op.op \in {"jskeys"} THEN <<>> ELSE KeyIdx(st.keys, op.key) IN
    CASE op.op = "jsread" -> SR(st, "", IF ix # <<>> THEN ElemJS(st.vals[ix[1]]) ELSE Undef)
      [] op.op = "jshas" -> SR(st, "", BoolV(ix # <<>>))
      [] op.op = "jskeys" -> SR(st, "", JArr([i \in 1..Len(st.keys) |-> StrV(st.keys[i])]))
      [] op.op = "jswrite" ->
            LET r == ElemConv(op.v, st.k)
            IN  IF IsInvalid(r)
                THEN SR(MapDel(st, op.key), "", op.v)              \* toReflectValue gives the zero reflect.Value: SetMapIndex deletes the key
                ELSE IF r.thr # "" THEN SR(st, r.thr, Undef) ELSE SR(MapPut(st, op.key, r.g), "", op.v)
      [] op.op = "jsdelete" -> SR(MapDel(st, op.key), "", BoolV(TRUE))          \* 8.12.7
      [] op.op = "gowrite" -> SR(MapPut(st, op.key, op.g), "", Undef)
      [] op.op = "godelete" -> SR(MapDel(st, op.key), "", Undef)

(* ---- undefined and null written into bridged maps ------------------------------ *)
(* Element kinds with a nil-able zero value besides interface{}: "ptr:inner"       *)
(* (map[string]*Inner), "slice:int8" (map[string][]int8), "map:int8"               *)
(* (map[string]map[string]int8).  The checked conversion gives a nil pointer for   *)
(* null/undefined and rejects them for slices and maps (TypeError); the legacy     *)
(* conversion (D16_element_write_unchecked_conversion) stores the zero value of    *)
(* the element type.  In every case a successful write leaves the KEY PRESENT,      *)
(* holding nil - it never removes the key.                                          *)
NilableKinds == {"ptr:inner", "slice:int8", "map:int8"}
NilVal(k) == [k |-> "nilval", of |-> k]
MapWriteStep(st, op) ==
    IF st.k \notin NilableKinds THEN MapStep(st, op)
    ELSE IF st.k = "ptr:inner" /\ op.v.t \notin {"undef", "null"}
         THEN \* any other value for a pointer element: an object literal naming fields builds the struct (as for a *T parameter), everything else is a TypeError
              (IF D("D16_element_write_pointer_kind_value_panics") THEN SR(st, "uncaught:TypeError", Undef)
               ELSE IF op.v.t = "obj" /\ op.v.keys = <<<<78>>>>
                    THEN (LET r == ConvertParam(op.v.vals[1], TK("int"))
                          IN  IF r.thr = "" THEN SR(MapPut(st, op.key, [k |-> "innerval", N |-> r.g.z]), "", op.v) ELSE SR(st, r.thr, Undef))
               ELSE SR(st, "TypeError", Undef))
    ELSE IF st.k = "ptr:inner" /\ D("D16_element_write_pointer_kind_panics")
         THEN SR(st, "uncaught:TypeError", Undef)       \* toReflectValue has no Ptr case: its final panic(fmt.Errorf(...)) is a plain Go error
    ELSE IF D("D16_element_write_unchecked_conversion") \/ st.k = "ptr:inner"
         THEN SR(MapPut(st, op.key, NilVal(st.k)), "", op.v)
         ELSE SR(st, "TypeError", Undef)
RECURSIVE MapWriteRun(_, _, _, _)
MapWriteRun(st, steps, i, thr) ==
    IF i > Len(steps) THEN [st |-> st, thr |-> thr]
    ELSE LET r == MapWriteStep(st, steps[i]) IN MapWriteRun(r.st, steps, i + 1, r.thr)
RECURSIVE XJSON(_)
XJSON(x) == CASE x.x = "nil" -> JNull [] x.x = "bool" -> [j |-> "bool", b |-> x.b]
              [] x.x = "num" -> (IF IsFinite(x.n) THEN [j |-> "num", n |-> JsonNumF(x.n)] ELSE JErr)
              [] x.x = "str" -> [j |-> "str", s |-> x.s]
              [] x.x = "arr" -> [j |-> "arr", items |-> [i \in 1..Len(x.items) |-> XJSON(x.items[i])]]
              [] x.x = "obj" -> [j |-> "obj", keys |-> x.keys, vals |-> [i \in 1..Len(x.vals) |-> XJSON(x.vals[i])]]
InnerValJS(g) == JObj(<<<<78>>, <<83, 105, 122, 101, 115>>, <<84, 97, 103, 115>>>>, <<NumV(g.N), JArr(<<>>), JArr(<<>>)>>)      \* N, Sizes, Tags
ElemJSON(g) == IF g.k = "nilval" THEN JNull ELSE IF g.k = "x" THEN XJSON(g.x)
               ELSE IF g.k = "innerval" THEN [j |-> "obj", keys |-> <<<<78>>, <<83, 105, 122, 101, 115>>, <<84, 97, 103, 115>>>>, vals |-> <<[j |-> "num", n |-> g.N], JNull, JNull>>]
               ELSE GoJSON(g)
NilValJS(g) == CASE g.of = "ptr:inner" -> Undef [] g.of = "slice:int8" -> JArr(<<>>) [] g.of = "map:int8" -> JObj(<<>>, <<>>)
(* what is observed of one key afterwards: `key in m`, Object.keys, m[key], the Go map (presence and value), the member in MarshalJSON *)
MapKeyObs(st, key) ==
    LET ix == KeyIdx(st.keys, key)
        present == ix # <<>>
        val == IF present THEN st.vals[ix[1]] ELSE [k |-> "absent"]
    IN  [has |-> present, keys |-> st.keys,
         val |-> IF ~present THEN Undef ELSE IF val.k = "nilval" THEN NilValJS(val) ELSE IF val.k = "innerval" THEN InnerValJS(val) ELSE ElemJS(val),
         go |-> val, json |-> IF present THEN ElemJSON(val) ELSE [j |-> "absent"]]

(* map[int]string: a property name that is no integer cannot be a key       *)
IsIntKey(key) == Len(key) >= 1 /\ Len(key) <= 9 /\ AllDigits(key, 1) /\ (key[1] # 48 \/ Len(key) = 1)
MapIntStep(st, op) ==
    IF IsIntKey(op.key) THEN MapStep(st, op)
    ELSE CASE op.op = "jsread" -> SR(st, "", Undef)
           [] op.op = "jshas" -> SR(st, "", BoolV(FALSE))
           [] op.op = "jswrite" ->
                 IF D("D16_map_key_conversion_error_not_catchable") THEN SR(st, "uncaught:TypeError", Undef)   \* type_go_map.go toKey: panic(err) with a *strconv.NumError
                 ELSE SR(st, "TypeError", Undef)
           [] op.op = "jsdelete" ->
                 IF D("D16_map_key_conversion_error_not_catchable") THEN SR(st, "uncaught:TypeError", Undef)
                 ELSE SR(st, "", BoolV(TRUE))                                                                 \* 8.12.7: no such property

(* ---- structs ----------------------------------------------------------------- *)
(* state [ptr, go |-> struct (type-directed form), ex |-> expando properties  *)
(* (keys, vals)] ; names are code-unit strings.  Reading: exported fields by  *)
(* Go name or json tag, methods as functions, unexported fields hidden.       *)
StructRead(st, name) ==
    LET ix == KeyIdx(st.ex.keys, name) IN
    CASE name = S_A -> NumV(ToDouble(st.go.A))
      [] name \in {S_B, S_bee} -> StrV(st.go.B)
      [] name = S_F -> NumV(st.go.F)
      [] name = S_Any -> ElemJS(st.go.Any)
      [] name = S_Hid -> NumV(ToDouble(st.go.Hid))
      [] name = S_GetA -> JFn
      [] name = S_SetA /\ st.ptr -> JFn
      [] OTHER -> IF ix # <<>> THEN st.ex.vals[ix[1]] ELSE Undef
StructWritable(name) == name \in {S_A, S_B, S_bee, S_F, S_Any, S_Hid}
StructStep(st, op) ==
    CASE op.op = "jsread" -> SR(st, "", StructRead(st, op.key))
      [] op.op = "jswrite" ->
            IF op.key = S_Hid /\ D("D16_struct_dash_tag_field_write_lost")
            THEN \* fieldIndexByName skips json:"-": the assignment makes an ordinary property of the wrapper that the field shadows (and a second "Hid" key)
                 SR([st EXCEPT !.ex = IF KeyIdx(st.ex.keys, S_Hid) # <<>> THEN st.ex
                                      ELSE [keys |-> Append(st.ex.keys, S_Hid), vals |-> Append(st.ex.vals, op.v)]], "", op.v)
            ELSE IF StructWritable(op.key) THEN
                 LET f == IF op.key = S_Hid THEN "Hid" ELSE StructFieldOf(op.key)
                     r == ConvertParam(op.v, IF f = "Hid" THEN TK("int") ELSE FieldTy(f))
                 IN  IF r.thr # "" THEN SR(st, r.thr, Undef)
                     ELSE IF ~st.ptr THEN
                          (IF D("D16_struct_value_field_write_panics") THEN SR(st, "value", Undef)   \* reflect.Value.Set on an unaddressable value, thrown as a string
                           ELSE SR(st, "TypeError", Undef))                                          \* a struct passed by value cannot be changed: fail loudly
                     ELSE SR([st EXCEPT !.go = IF f = "Hid" THEN [st.go EXCEPT !.Hid = r.g.z] ELSE SetField(st.go, f, r.g)], "", op.v)
            ELSE IF op.key \in {S_GetA, S_SetA} THEN SR(st, "skip", Undef)
            ELSE \* no such field: an ordinary (expando) property of the JavaScript object
                 LET ix == KeyIdx(st.ex.keys, op.key)
                 IN  SR([st EXCEPT !.ex = IF ix # <<>> THEN [keys |-> st.ex.keys, vals |-> Upd(st.ex.vals, ix[1], op.v)]
                                          ELSE [keys |-> Append(st.ex.keys, op.key), vals |-> Append(st.ex.vals, op.v)]], "", op.v)
      [] op.op = "callget" -> SR(st, "", NumV(ToDouble(st.go.A)))                 \* t.GetA()
      [] op.op = "callset" ->                                                      \* t.SetA(v): the method's parameter conversion
            LET r == ConvertArgs(op.args, [ins |-> <<TK("int")>>, variadic |-> FALSE])
            IN  IF ~st.ptr THEN SR(st, "TypeError", Undef)                          \* tv.SetA is undefined: calling it is a TypeError (11.2.3)
                ELSE IF r.thr # "" THEN SR(st, r.thr, Undef)
                ELSE SR([st EXCEPT !.go = [st.go EXCEPT !.A = r.g[1].z]], "", Undef)
      [] op.op = "gowrite" -> SR([st EXCEPT !.go = IF op.f = "c" THEN [st.go EXCEPT !.c = op.g.z]
                                                  ELSE IF op.f = "Hid" THEN [st.go EXCEPT !.Hid = op.g.z] ELSE SetField(st.go, op.f, op.g)], "", Undef)

(* ---- every form of json tag ---------------------------------------------------- *)
(* type Tagged struct { Plain int; Named int `json:"n"`; Omit int `json:"count,omitempty"`; *)
(*   Str int `json:"s,string"`; KeepName int `json:",omitempty"`; Dash int `json:"-"`;       *)
(*   DashComma int `json:"-,"` }  with the values 1 .. 7.  The json name of a field is the   *)
(* text before the first comma of its tag; an empty name part leaves the Go name; the tag    *)
(* "-" alone gives no json name, "-," gives the name "-" (encoding/json).  Property reads    *)
(* and writes find a field by its json name or by its Go name (goStructObject.getValue);     *)
(* a struct parameter built from an object literal finds it by json name, or by Go name      *)
(* unless the tag hides the field (fieldIndexByName) - anything else fails loudly.           *)
TagGoNames == <<<<80, 108, 97, 105, 110>>, <<78, 97, 109, 101, 100>>, <<79, 109, 105, 116>>, <<83, 116, 114>>, <<75, 101, 101, 112, 78, 97, 109, 101>>, <<68, 97, 115, 104>>, <<68, 97, 115, 104, 67, 111, 109, 109, 97>>>>
TagJsonName(i) == CASE i = 2 -> <<110>> [] i = 3 -> <<99, 111, 117, 110, 116>> [] i = 4 -> <<115>>
                    [] i = 7 /\ ~D("D16_struct_tag_dash_comma_name_ignored") -> <<45>>          \* fieldIndexByName treats every name part "-" as hidden
                    [] OTHER -> <<0>>                                                          \* no json name
TagHidden(i) == i = 6 \/ (i = 7 /\ D("D16_struct_tag_dash_comma_name_ignored"))
TagFieldFor(name, param) ==      \* 0: no such field
    LET hits == SelectSeq(<<1, 2, 3, 4, 5, 6, 7>>,
                          LAMBDA i : TagJsonName(i) = name \/ (TagGoNames[i] = name /\ (~param \/ ~TagHidden(i))))
    IN  IF hits = <<>> THEN 0 ELSE hits[1]
TagKeysSorted == <<<<68, 97, 115, 104>>, <<68, 97, 115, 104, 67, 111, 109, 109, 97>>, <<75, 101, 101, 112, 78, 97, 109, 101>>, <<78, 97, 109, 101, 100>>, <<79, 109, 105, 116>>, <<80, 108, 97, 105, 110>>, <<83, 116, 114>>>>
TagInit == <<I(1), I(2), I(3), I(4), I(5), I(6), I(7)>>
TagAccess(mode, name) ==
    LET i == TagFieldFor(name, mode = "param") IN
    CASE mode = "read" -> [thr |-> "", ret |-> IF i > 0 THEN NumV(TagInit[i]) ELSE Undef, go |-> TagInit, keys |-> TagKeysSorted]
      [] mode = "write" ->      \* t[name] = 9, then t[name] is read back; an unknown name makes an ordinary property
            [thr |-> "", ret |-> IntV(9), go |-> IF i > 0 THEN Upd(TagInit, i, I(9)) ELSE TagInit,
             keys |-> IF i > 0 THEN TagKeysSorted ELSE InsertAt(TagKeysSorted, InsPos(TagKeysSorted, name, 1), name)]
      [] mode = "param" ->      \* P({name: 9}) with func P(x Tagged)
            IF i > 0 THEN [thr |-> "", go |-> Upd([j \in 1..7 |-> I(0)], i, I(9))] ELSE [thr |-> "TypeError"]

(* what a script sees of the whole struct: keys sorted, expandos included    *)
StructJS(st) ==
    LET base == IF st.ptr
                THEN [keys |-> <<S_A, S_Any, S_B, S_F, S_GetA, S_Hid, S_SetA>>,
                      vals |-> <<NumV(ToDouble(st.go.A)), ElemJS(st.go.Any), StrV(st.go.B), NumV(st.go.F), JFn, NumV(ToDouble(st.go.Hid)), JFn>>]
                ELSE [keys |-> <<S_A, S_Any, S_B, S_F, S_GetA, S_Hid>>,
                      vals |-> <<NumV(ToDouble(st.go.A)), ElemJS(st.go.Any), StrV(st.go.B), NumV(st.go.F), JFn, NumV(ToDouble(st.go.Hid))>>]
        RECURSIVE Ins(_, _)
        Ins(acc, i) == IF i > Len(st.ex.keys) THEN acc
                       ELSE LET p == InsPos(acc.keys, st.ex.keys[i], 1)
                                val == IF st.ex.keys[i] = S_Hid THEN NumV(ToDouble(st.go.Hid)) ELSE st.ex.vals[i]
                            IN  Ins([keys |-> InsertAt(acc.keys, p, st.ex.keys[i]), vals |-> InsertAt(acc.vals, p, val)], i + 1)
        all == Ins(base, 1)
    IN  JObj(all.keys, all.vals)

(* ---- containers reached through an addressable parent ------------------------- *)
(* The harness types                                                               *)
(*   type Inner struct { Tags []string; Sizes []int8; N int }                      *)
(*   type Doc struct { Title string; Tags []string; Sizes []int8; Any []interface{}*)
(*        In Inner; PIn *Inner; Arr [2]int8; SIn []Inner; AIn [2]Inner;            *)
(*        Grid [][]int8 }                                                          *)
(* bridged BY POINTER (directly, as an element of a []*Doc, as a value of a        *)
(* map[string]*Doc).  Abstract: [k |-> "doc", Title, Tags, Sizes, Any, In, PIn,    *)
(* Arr, SIn, AIn, Grid] with inner = [Tags, Sizes, N]; slices and arrays are        *)
(* sequences of type-directed element forms.  Everything reachable from the        *)
(* pointer through fields, nested structs, pointer fields and elements is the live *)
(* Go object: a length-changing script step on a nested slice must be seen by the  *)
(* script, by the Go variable and by Export alike; a nested struct or array handed *)
(* to a Go function taking a pointer arrives as the address of the original. *)
(* sel names the nested container:                                                 *)
(*   slices  "Tags" "Sizes" "Any" "In.Tags" "In.Sizes" "PIn.Tags" "PIn.Sizes"       *)
(*           "Grid0" "Grid1" (x.Grid[i]) "SIn0.Tags" (x.SIn[0].Tags) "AIn0.Tags"     *)
(*   pointer parameters  "In" "PIn" "Arr" "SIn0" "AIn0"                             *)
(* otto hands the ELEMENTS of bridged slices and arrays to scripts as copies        *)
(* (goSliceGetOwnProperty / goArrayGetOwnProperty pass reflectValue.Interface()):   *)
(* D16_container_elements_bridged_as_copies.                                        *)
DocElemKind(sel) == CASE sel \in {"Tags", "In.Tags", "PIn.Tags", "SIn0.Tags", "AIn0.Tags"} -> "string"
                      [] sel = "Any" -> "iface" [] OTHER -> "int8"
DocSlice(d, sel) ==
    CASE sel = "Tags" -> d.Tags [] sel = "Sizes" -> d.Sizes [] sel = "Any" -> d.Any
      [] sel = "In.Tags" -> d.In.Tags [] sel = "In.Sizes" -> d.In.Sizes
      [] sel = "PIn.Tags" -> d.PIn.Tags [] sel = "PIn.Sizes" -> d.PIn.Sizes
      [] sel = "Grid0" -> d.Grid[1] [] sel = "Grid1" -> d.Grid[2]
      [] sel = "SIn0.Tags" -> d.SIn[1].Tags [] sel = "AIn0.Tags" -> d.AIn[1].Tags
DocSetSlice(d, sel, x) ==
    CASE sel = "Tags" -> [d EXCEPT !.Tags = x] [] sel = "Sizes" -> [d EXCEPT !.Sizes = x] [] sel = "Any" -> [d EXCEPT !.Any = x]
      [] sel = "In.Tags" -> [d EXCEPT !.In.Tags = x] [] sel = "In.Sizes" -> [d EXCEPT !.In.Sizes = x]
      [] sel = "PIn.Tags" -> [d EXCEPT !.PIn.Tags = x] [] sel = "PIn.Sizes" -> [d EXCEPT !.PIn.Sizes = x]
      [] sel = "Grid0" -> [d EXCEPT !.Grid[1] = x] [] sel = "Grid1" -> [d EXCEPT !.Grid[2] = x]
      [] sel = "SIn0.Tags" -> [d EXCEPT !.SIn[1].Tags = x] [] sel = "AIn0.Tags" -> [d EXCEPT !.AIn[1].Tags = x]
IsElementPath(sel) == sel \in {"Grid0", "Grid1", "SIn0.Tags", "AIn0.Tags", "SIn0", "AIn0"}
CopiedElement(sel) == IsElementPath(sel) /\ D("D16_container_elements_bridged_as_copies")

(* a script step on the nested slice; the script then reads x again (a fresh wrapper): it sees the Go state *)
DocMutate(d, sel, op) ==
    LET items == DocSlice(d, sel)
        stt == [k |-> DocElemKind(sel), mode |-> IF CopiedElement(sel) THEN "value" ELSE "field",
                go |-> items, js |-> items, done |-> FALSE, cap |-> Len(items)]
        r == SliceStep(stt, op)
    IN  [thr |-> r.thr, ret |-> r.ret, d |-> DocSetSlice(d, sel, r.st.go)]

(* x.<sel> passed to a Go function func(p *Inner) { p.N += 10 } / func(p *[2]int8) { p[0], p[1] = 9, 9 } *)
(* that also reports whether p is the address of the original                                            *)
Bump(in) == [in EXCEPT !.N = NumAdd(in.N, I(10))]
DocPtrCall(d, sel) ==
    IF CopiedElement(sel) THEN [thr |-> "", same |-> FALSE, d |-> d]       \* the callee works on a detached copy
    ELSE [thr |-> "", same |-> TRUE,
          d |-> CASE sel = "In" -> [d EXCEPT !.In = Bump(d.In)] [] sel = "PIn" -> [d EXCEPT !.PIn = Bump(d.PIn)]
                  [] sel = "Arr" -> [d EXCEPT !.Arr = <<GInt("int8", I(9)), GInt("int8", I(9))>>]
                  [] sel = "SIn0" -> [d EXCEPT !.SIn[1] = Bump(d.SIn[1])] [] sel = "AIn0" -> [d EXCEPT !.AIn[1] = Bump(d.AIn[1])]]

SeqJS(items) == JArr([i \in 1..Len(items) |-> ElemJS(items[i])])
InnerJS(in) == JObj(<<<<78>>, <<83, 105, 122, 101, 115>>, <<84, 97, 103, 115>>>>, <<NumV(in.N), SeqJS(in.Sizes), SeqJS(in.Tags)>>)     \* N, Sizes, Tags
DocJS(d) ==
    JObj(<<<<65, 73, 110>>, S_Any, <<65, 114, 114>>, <<71, 114, 105, 100>>, <<73, 110>>, <<80, 73, 110>>, <<83, 73, 110>>,
           <<83, 105, 122, 101, 115>>, <<84, 97, 103, 115>>, <<84, 105, 116, 108, 101>>>>,                       \* AIn Any Arr Grid In PIn SIn Sizes Tags Title
         <<JArr([i \in 1..Len(d.AIn) |-> InnerJS(d.AIn[i])]), SeqJS(d.Any), SeqJS(d.Arr),
           JArr([i \in 1..Len(d.Grid) |-> SeqJS(d.Grid[i])]), InnerJS(d.In), InnerJS(d.PIn),
           JArr([i \in 1..Len(d.SIn) |-> InnerJS(d.SIn[i])]), SeqJS(d.Sizes), SeqJS(d.Tags), StrV(d.Title)>>)
(* what the script sees of x for each placement of the *Doc *)
PlacedJS(where, d) == CASE where = "ptr" -> DocJS(d) [] where = "inslice" -> JArr(<<DocJS(d)>>) [] where = "inmap" -> JObj(<<<<107>>>>, <<DocJS(d)>>)

(* the observable state after a step *)
SliceObs(st) == [js |-> JArr([i \in 1..Len(st.js) |-> ElemJS(st.js[i])]), go |-> st.go]
MapObs(st) == [js |-> JObj(st.keys, [i \in 1..Len(st.vals) |-> ElemJS(st.vals[i])]), go |-> [keys |-> st.keys, vals |-> st.vals]]
StructObs(st) == [js |-> StructJS(st), go |-> st.go]
=============================================================================
