------------------------------- MODULE Bridge -------------------------------
(* The Go <-> JavaScript bridge of otto (properties C15 and C16).            *)
(*                                                                           *)
(* Abstract Go values ("G"):                                                 *)
(*   [k |-> "nil"]                          untyped nil                       *)
(*   [k |-> "bool", b]                                                        *)
(*   [k |-> "int"|"int8"|..|"uint64", z]    z an exact integer ("Z": the Num  *)
(*                                          record shapes int / big with      *)
(*                                          e >= 0, mantissa of any length)   *)
(*   [k |-> "float32"|"float64", n]         n a Num (for float32 one that a   *)
(*                                          float32 holds exactly)            *)
(*   [k |-> "string", s]                    s = UTF-16 code units of the      *)
(*                                          (valid UTF-8) Go string           *)
(*   [k |-> "slice", elem, isnil, items]    elem = element kind or "iface"    *)
(*   [k |-> "map", elem, isnil, keys, vals] map[string]elem, keys sorted      *)
(*   [k |-> "struct", ptr, A, B, c, F, Any, Hid]   the harness type           *)
(*        type T struct { A int; B string `json:"bee"`; c int; F float64;    *)
(*                        Any interface{}; Hid int `json:"-"` }              *)
(*        func (t T) GetA() int;  func (t *T) SetA(v int)                    *)
(*   [k |-> "ptrnil"]                       a nil pointer to T                    *)
(*                                                                           *)
(* JavaScript values as scripts see them ("J"): the primitives of Val.tla,   *)
(*   [t |-> "arr", items]  (holes are [t |-> "hole"]),                        *)
(*   [t |-> "obj", keys, vals]  (own enumerable properties),  [t |-> "fn"],  *)
(*   and the scripted conversion objects of Ops.tla ([t |-> "cobj", ...]).   *)
(*                                                                           *)
(* The contract transcribed here is the property statement of C15/C16 and    *)
(* the documentation of otto's public API (otto.go, value.go doc comments);  *)
(* where the JavaScript side of a conversion is an ES5 abstract operation    *)
(* the clause is named.  Known deviations of otto are the branches           *)
(* D("D15_...") / D("D16_...") (known_findings.d/C15.json, C16.json).        *)
EXTENDS Ops, Sequences

-----------------------------------------------------------------------------
(* Exact integers and the Go integer kinds                                   *)

P2Z(k) == Canon(FALSE, <<1>>, k)                               \* 2^k
ZOfBn(neg, bn) == Canon(neg, bn, 0)
MaxOfBits(b) == ZOfBn(FALSE, BnSub(BnShl(<<1>>, b), <<1>>))    \* 2^b - 1
MinOfBits(b) == ZOfBn(TRUE, BnShl(<<1>>, b))                   \* -2^b

SIntKinds == {"int", "int8", "int16", "int32", "int64"}
UIntKinds == {"uint", "uint8", "uint16", "uint32", "uint64"}
IntKinds  == SIntKinds \cup UIntKinds
FltKinds  == {"float32", "float64"}
NumKinds  == IntKinds \cup FltKinds
Bits(k) == CASE k \in {"int8", "uint8"} -> 8 [] k \in {"int16", "uint16"} -> 16
             [] k \in {"int32", "uint32"} -> 32 [] OTHER -> 64           \* int, uint: 64-bit platform
LoOf(k) == IF k \in UIntKinds THEN I(0) ELSE MinOfBits(Bits(k) - 1)
HiOf(k) == IF k \in UIntKinds THEN MaxOfBits(Bits(k)) ELSE MaxOfBits(Bits(k) - 1)
MaxI64 == MaxOfBits(63)
MinI64 == MinOfBits(63)
InRangeZ(z, k) == NumCmp(LoOf(k), z) <= 0 /\ NumCmp(z, HiOf(k)) <= 0

(* the double nearest to an exact integer (Go float64(int), round to even)   *)
ToDouble(z) == IF z.c = "int" THEN z ELSE RoundD(z.neg, z.m, z.e)
IsDoubleZ(z) == ToDouble(z) = z

DigitsZ(z) == IF z.c = "int" THEN DigitsInt(z.v)
              ELSE (IF z.neg THEN <<45>> ELSE <<>>) \o DigitsBn(BnShl(z.m, z.e))

(* the exact integer denoted by an integer-valued finite Num (-0 is 0)       *)
ZOfNum(x) == IF x.c = "nzero" THEN I(0) ELSE x

(* round to nearest-even in a binary format with p bits of precision, lowest *)
(* bit exponent qmin and largest leading-bit exponent emax (Num!RoundD is    *)
(* the instance 53, -1074, 1023)                                             *)
RoundBin(neg, m0, e0, p, qmin, emax) ==
    IF m0 = <<>> THEN Zero(neg)
    ELSE LET tz == BnTz(m0)
             m  == BnShr(m0, tz)
             e  == e0 + tz
             L  == BnBitLen(m)
             E  == e + L - 1
             q  == IF E - (p - 1) > qmin THEN E - (p - 1) ELSE qmin
         IN  IF e >= q
             THEN (IF E > emax THEN Inf(neg) ELSE Canon(neg, m, e))
             ELSE LET k  == q - e
                      hi == BnShr(m, k)
                      up == /\ BnBit(m, k - 1) = 1
                            /\ (k > 1 \/ BnBit(hi, 0) = 1)
                      r  == IF up THEN BnAdd(hi, <<1>>) ELSE hi
                  IN  IF r = <<>> THEN Zero(neg)
                      ELSE IF q + BnBitLen(r) - 1 > emax THEN Inf(neg)
                      ELSE Canon(neg, r, q)

(* Go float32(x) for a double x *)
RoundF32(x) == IF ~IsFinite(x) \/ IsZero(x) THEN x
               ELSE RoundBin(IsNeg(x), MantOf(x), ExpOf(x), 24, -149, 127)
IsF32(x) == RoundF32(x) = x
MaxF32 == Canon(FALSE, BnSub(BnShl(<<1>>, 24), <<1>>), 104)

-----------------------------------------------------------------------------
(* Go values                                                                 *)
GNil == [k |-> "nil"]
GPtrNil == [k |-> "ptrnil"]
GBool(b) == [k |-> "bool", b |-> b]
GInt(k, z) == [k |-> k, z |-> z]
GFlt(k, n) == [k |-> k, n |-> n]
GStr(s) == [k |-> "string", s |-> s]
GSlice(elem, isnil, items) == [k |-> "slice", elem |-> elem, isnil |-> isnil, items |-> items]
GMap(elem, isnil, keys, vals) == [k |-> "map", elem |-> elem, isnil |-> isnil, keys |-> keys, vals |-> vals]
GStruct(ptr, a, b, c, f, any, hid) ==
    [k |-> "struct", ptr |-> ptr, A |-> a, B |-> b, c |-> c, F |-> f, Any |-> any, Hid |-> hid]

(* the zero value of an element kind *)
ZeroOf(ek) == CASE ek \in IntKinds -> GInt(ek, I(0))
                [] ek \in FltKinds -> GFlt(ek, I(0))
                [] ek = "string" -> GStr(<<>>)
                [] ek = "bool" -> GBool(FALSE)
                [] OTHER -> GNil                         \* interface{}

JArr(items) == [t |-> "arr", items |-> items]
JObj(keys, vals) == [t |-> "obj", keys |-> keys, vals |-> vals]
JFn == [t |-> "fn"]
JHole == [t |-> "hole"]

S_A == <<65>>  S_B == <<66>>  S_F == <<70>>
S_Any == <<65, 110, 121>>
S_Hid == <<72, 105, 100>>
S_bee == <<98, 101, 101>>
S_GetA == <<71, 101, 116, 65>>
S_SetA == <<83, 101, 116, 65>>

(* ---- Go -> JavaScript (value.go toValue, runtime.go runtime.toValue) ------ *)
(* Numbers become the Number value nearest to them, strings their UTF-16     *)
(* form, nil and nil pointers undefined (value.go: "undefined -> nil"),      *)
(* slices array-likes, maps and structs objects whose enumerable keys are    *)
(* the map keys / the exported field names followed by the method names      *)
(* (listed here in code-unit order, as the observation sorts them).          *)
RECURSIVE ToJS(_)
ToJS(g) ==
    CASE g.k \in {"nil", "ptrnil"} -> Undef
      [] g.k = "bool" -> BoolV(g.b)
      [] g.k \in IntKinds -> NumV(ToDouble(g.z))
      [] g.k \in FltKinds -> NumV(g.n)
      [] g.k = "string" -> StrV(g.s)
      [] g.k = "slice" -> JArr([i \in 1..Len(g.items) |-> ToJS(g.items[i])])
      [] g.k = "map" -> JObj(g.keys, [i \in 1..Len(g.vals) |-> ToJS(g.vals[i])])
      [] g.k = "struct" ->
            IF g.ptr
            THEN JObj(<<S_A, S_Any, S_B, S_F, S_GetA, S_Hid, S_SetA>>,
                      <<NumV(ToDouble(g.A)), ToJS(g.Any), StrV(g.B), NumV(g.F), JFn, NumV(ToDouble(g.Hid)), JFn>>)
            ELSE JObj(<<S_A, S_Any, S_B, S_F, S_GetA, S_Hid>>,
                      <<NumV(ToDouble(g.A)), ToJS(g.Any), StrV(g.B), NumV(g.F), JFn, NumV(ToDouble(g.Hid))>>)

(* typeof (11.4.3) and String() (9.8) of the counterpart, as a script sees   *)
(* them.  A Go integer beyond 2^53 that is not a double has no Number value  *)
(* of its own: the script must see the nearest double in every respect.      *)
TypeOfJ(j) == CASE j.t \in {"arr", "obj"} -> S_object [] j.t = "fn" -> S_function [] OTHER -> TypeOfPrim(j)
ScriptString(g) ==
    IF g.k \in IntKinds /\ D("D15_go_integer_tostring_exact_digits")
    THEN DigitsZ(g.z)                                    \* value_string.go Value.string(): strconv.FormatInt of the Go integer
    ELSE ToStringPrim(ToJS(g))

(* ---- reading a Go-originated value back on the Go side ------------------- *)
(* Export returns the value that was set; float32 arrives widened to float64 *)
(* (toValue stores float64(value)), a nil pointer as nil.                    *)
ExportG(g) == CASE g.k = "float32" -> GFlt("float64", g.n)
                [] g.k = "ptrnil" -> GNil
                [] OTHER -> g

ClampI64(z) == IF NumCmp(z, MaxI64) > 0 THEN MaxI64 ELSE IF NumCmp(z, MinI64) < 0 THEN MinI64 ELSE z

(* 9.4 ToInteger delivered as an int64: NaN -> 0, out of range saturates     *)
(* (value_number.go numberKind: "Infinity => 2**63-1")                        *)
I64OfNum(x) == IF IsNaN(x) THEN I(0)
               ELSE IF IsInf(x) THEN (IF x.neg THEN MinI64 ELSE MaxI64)
               ELSE ClampI64(ZOfNum(Trunc(x)))

PrimNumOfG(g) ==          \* 9.3 ToNumber of the counterpart (primitives)
    ToNumberPrim(ToJS(g))

ToIntegerG(g) ==
    IF g.k \in IntKinds
    THEN (IF g.k \in {"uint", "uint64"} /\ D("D15_tointeger_uint64_through_float64")
          THEN I64OfNum(ToDouble(g.z))                   \* value_number.go Value.number(): no exact path for uint, uint64
          ELSE ClampI64(g.z))
    ELSE I64OfNum(PrimNumOfG(g))
ToFloatG(g)   == PrimNumOfG(g)
ToStringG(g)  == IF g.k \in IntKinds THEN DigitsZ(g.z) ELSE ToStringPrim(ToJS(g))     \* equal to the original
ToBooleanG(g) == IF g.k \in IntKinds THEN ~IsZero(g.z) ELSE ToBoolean(ToJS(g))

(* MarshalJSON: the JSON text denoting the value, as a tree.  Numbers are    *)
(* given by value; NaN and the infinities have no JSON text (error).  Go's   *)
(* encoding/json contract for the containers: nil slice/map -> null, struct  *)
(* fields by json tag, unexported and "-" fields omitted.                    *)
JNull == [j |-> "null"]
JErr == [j |-> "error"]
RECURSIVE GoJSON(_)
AnyErr(seq) == \E i \in 1..Len(seq) : seq[i].j = "error"
GoJSON(g) ==
    CASE g.k \in {"nil", "ptrnil"} -> JNull
      [] g.k = "bool" -> [j |-> "bool", b |-> g.b]
      [] g.k \in IntKinds -> [j |-> "num", n |-> g.z]
      [] g.k \in FltKinds -> IF IsFinite(g.n) THEN [j |-> "num", n |-> g.n] ELSE JErr
      [] g.k = "string" -> [j |-> "str", s |-> g.s]
      [] g.k = "slice" ->
            IF g.isnil THEN JNull
            ELSE LET its == [i \in 1..Len(g.items) |-> GoJSON(g.items[i])]
                 IN  IF AnyErr(its) THEN JErr ELSE [j |-> "arr", items |-> its]
      [] g.k = "map" ->
            IF g.isnil THEN JNull
            ELSE LET vs == [i \in 1..Len(g.vals) |-> GoJSON(g.vals[i])]
                 IN  IF AnyErr(vs) THEN JErr ELSE [j |-> "obj", keys |-> g.keys, vals |-> vs]
      [] g.k = "struct" ->
            LET vs == <<[j |-> "num", n |-> g.A], GoJSON(g.Any), GoJSON(GFlt("float64", g.F)), [j |-> "str", s |-> g.B]>>
            IN  IF AnyErr(vs) THEN JErr ELSE [j |-> "obj", keys |-> <<S_A, S_Any, S_F, S_bee>>, vals |-> vs]

-----------------------------------------------------------------------------
(* JavaScript -> Go: Value predicates, conversions and Export (value.go)     *)

IsObjJ(v) == v.t \in {"arr", "obj", "fn", "cobj"}
AsOps(v) == IF v.t \in {"arr", "obj"} THEN [t |-> "cobj", id |-> 0, vo |-> [k |-> "inherit"], ts |-> [k |-> "inherit"]] ELSE v

(* Value.Class(): the [[Class]] of 8.6.2, "" for primitives *)
ClassOf(v) == CASE v.t = "arr" -> S_Array [] v.t \in {"obj", "cobj"} -> S_Object [] v.t = "fn" -> S_Function [] OTHER -> <<>>

(* the Go-side conversions must agree with Number(), String(), Boolean() of  *)
(* clause 9 (Ops.tla): [thr, log] as there, value by kind                    *)
ToFloatV(v)   == ToNumber(v, <<>>)
ToIntegerV(v) == LET r == ToNumber(v, <<>>)
                 IN  IF r.thr # "" THEN r ELSE [r EXCEPT !.v = NumV(I64OfNum(r.v.n))]
ToStringVV(v) == ToStringV(v, <<>>)
(* IsNaN: "true if value is NaN (or would convert to NaN)"; a conversion    *)
(* that throws cannot be reported through a bool: the answer is false        *)
IsNaNV(v) == LET r == ToNumber(v, <<>>)
             IN  IF r.thr # "" THEN (IF D("D15_isnan_panics_when_conversion_throws") THEN "gopanic" ELSE "false")
                 ELSE IF IsNaN(r.v.n) THEN "true" ELSE "false"

(* Export of JSON-like data: structurally equal data (value.go Export doc:   *)
(* undefined, null -> nil; boolean -> bool; number -> a number; string ->    *)
(* string; Array -> slice; Object -> map[string]interface{}).  An array hole *)
(* reads as undefined (15.4: no own property), so it exports as nil; object  *)
(* members whose value is undefined are left out (as JSON does, 15.12.3).    *)
XNil == [x |-> "nil"]
RECURSIVE ExportX(_)
ExportX(v) ==
    CASE v.t \in {"undef", "null", "hole"} -> XNil
      [] v.t = "bool" -> [x |-> "bool", b |-> v.b]
      [] v.t = "num" -> [x |-> "num", n |-> v.n]
      [] v.t = "str" -> [x |-> "str", s |-> v.s]
      [] v.t = "arr" ->
            LET kept == IF D("D15_export_drops_array_holes")          \* value.go export(): `continue` on a missing index
                        THEN SelectSeq(v.items, LAMBDA e : e.t # "hole") ELSE v.items
            IN  [x |-> "arr", items |-> [i \in 1..Len(kept) |-> ExportX(kept[i])]]
      [] v.t = "obj" ->
            LET idx == SelectSeq([i \in 1..Len(v.keys) |-> i], LAMBDA i : v.vals[i].t # "undef")
            IN  [x |-> "obj", keys |-> [i \in 1..Len(idx) |-> v.keys[idx[i]]],
                              vals |-> [i \in 1..Len(idx) |-> ExportX(v.vals[idx[i]])]]
      [] v.t \in {"fn", "cobj"} -> [x |-> "obj", keys |-> <<>>, vals |-> <<>>]

(* The Go type otto gives an exported value (only used to say when the known *)
(* deviation D15_export_common_type_panics strikes): number literals that    *)
(* are non-negative integers below 2^53 are held as int64, all other numbers *)
(* as float64; an array becomes []T when all elements agree in (kind, key    *)
(* kind, element kind) - T being the type of the LAST element - and          *)
(* []interface{} otherwise.                                                  *)
TY(k) == [k |-> k]
TSlice(e) == [k |-> "slice", e |-> e]
Kind3(ty) == CASE ty.k = "slice" -> <<"slice", "invalid", ty.e.k>>
               [] ty.k = "map" -> <<"map", "string", "iface">>
               [] ty.k = "nil" -> <<"invalid", "invalid", "invalid">>
               [] OTHER -> <<ty.k, "invalid", "invalid">>
NumLeafTy(n) == IF n.c = "int" /\ n.v >= 0 THEN TY("int64")
                ELSE IF n.c = "big" /\ ~n.neg /\ n.e >= 0 /\ n.e + BnBitLen(n.m) <= 53 THEN TY("int64")
                ELSE TY("float64")
RECURSIVE ExportTy(_)
ExportTy(v) ==
    CASE v.t \in {"undef", "null"} -> TY("nil")
      [] v.t = "bool" -> TY("bool")
      [] v.t = "num" -> NumLeafTy(v.n)
      [] v.t = "str" -> TY("string")
      [] v.t = "arr" ->
            LET kept == SelectSeq(v.items, LAMBDA e : e.t # "hole")
                tys  == [i \in 1..Len(kept) |-> ExportTy(kept[i])]
                n    == Len(tys)
            IN  IF n = 0 THEN TSlice(TY("iface"))
                ELSE IF tys[n].k # "nil" /\ \A i \in 1..n : Kind3(tys[i]) = Kind3(tys[n]) THEN TSlice(tys[n])
                ELSE TSlice(TY("iface"))
      [] OTHER -> TY("map")
RECURSIVE ExportPanics(_)
ExportPanics(v) ==        \* reflect.Value.Set of an element whose type is not the last element's type
    CASE v.t = "arr" ->
            LET kept == SelectSeq(v.items, LAMBDA e : e.t # "hole")
                tys  == [i \in 1..Len(kept) |-> ExportTy(kept[i])]
                n    == Len(tys)
            IN  \/ \E i \in 1..n : ExportPanics(kept[i])
                \/ /\ n > 0 /\ tys[n].k # "nil"
                   /\ \A i \in 1..n : Kind3(tys[i]) = Kind3(tys[n])
                   /\ \E i \in 1..n : tys[i] # tys[n]
      [] v.t = "obj" -> \E i \in 1..Len(v.vals) : ExportPanics(v.vals[i])
      [] OTHER -> FALSE
ExportOutcome(v) ==
    IF D("D15_export_common_type_panics") /\ ExportPanics(v) THEN [x |-> "gopanic"] ELSE ExportX(v)

-----------------------------------------------------------------------------
(* Calls through the API (otto.go Otto.Call, Object.Call; value.go           *)
(* Value.Call): "essentially equivalent to value.apply(thisValue, args)".    *)
(* 10.4.3 for non-strict code: this = undefined/null -> the global object,   *)
(* a primitive -> ToObject(this), an object -> itself.  The arguments are    *)
(* the JavaScript counterparts of the Go values.                             *)
ThisBinding(th) ==        \* th: [k |-> "undef"|"null"|"objO"|"gonil"] or [k |-> "prim", g]
    CASE th.k \in {"undef", "null", "gonil"} -> [k |-> "global"]
      [] th.k = "objO" -> [k |-> "O"]
      [] th.k = "prim" -> [k |-> "boxed", v |-> ToJS(th.g)]
CallObs(th, args) == [th |-> ThisBinding(th), a |-> [i \in 1..Len(args) |-> ToJS(args[i])]]

-----------------------------------------------------------------------------
(* C16: JavaScript argument -> Go parameter (runtime.go convertCallParameter,*)
(* convertNumeric).  Parameter types ("ty"):                                 *)
(*   [k |-> <numeric kind>|"string"|"bool"|"iface"|"struct"|"ptr"],          *)
(*   [k |-> "slice", e |-> ty], [k |-> "map", e |-> ty]                      *)
(* Result [thr |-> "", g |-> G] or [thr |-> "TypeError"|"RangeError"].       *)
(* The rule of the property statement: the argument arrives as exactly the   *)
(* Go value it denotes or the call fails loudly; a number must be exactly    *)
(* representable in the target kind (never truncated, wrapped or rounded).   *)
POK(g) == [thr |-> "", g |-> g]
PErr(cls) == [thr |-> cls]

(* %v of a float64 as Go's fmt prints it (the deviation of the string        *)
(* parameter): shortest digits, %e form when the exponent is < -4 or >= 21,  *)
(* exponent of at least two digits, "+Inf", "-Inf", "NaN", "-0"              *)
GoFmtV(x) ==
    CASE x.c = "nan" -> S_NaN
      [] x.c = "inf" -> (IF x.neg THEN <<45, 73, 110, 102>> ELSE <<43, 73, 110, 102>>)
      [] x.c = "nzero" -> <<45, 48>>
      [] IsZero(x) -> <<48>>
      [] OTHER ->
            LET a  == IF IsNeg(x) THEN NumNeg(x) ELSE x
                sd == ShortestDigits(a)
                d  == sd.digits
                ex == sd.n - 1
                sg == IF IsNeg(x) THEN <<45>> ELSE <<>>
            IN  IF ex < -4 \/ ex >= 21
                THEN LET ae == IF ex < 0 THEN -ex ELSE ex
                         es == (IF ex < 0 THEN <<45>> ELSE <<43>>) \o (IF ae < 10 THEN <<48>> ELSE <<>>) \o DigitsNat(ae)
                     IN  sg \o (IF Len(d) = 1 THEN d ELSE <<d[1], 46>> \o SubSeq(d, 2, Len(d))) \o <<101>> \o es
                ELSE sg \o Layout(d, sd.n)

(* does otto hold this Number as a Go int64 (integer literal) or a float64?  *)
(* only the deviating string conversion depends on it                        *)
HeldAsInt(n) == NumLeafTy(n).k = "int64"

NumToKind(x, k) ==        \* a Number to a numeric parameter
    IF k = "float64" THEN POK(GFlt(k, x))
    ELSE IF k = "float32" THEN
         (IF D("D16_float32_parameter_rounded")
          THEN (IF IsFinite(x) /\ NumCmp(IF IsNeg(x) THEN NumNeg(x) ELSE x, MaxF32) > 0 THEN PErr("RangeError")
                ELSE POK(GFlt(k, RoundF32(x))))          \* convertNumeric: val.Convert(t) after an overflow test only
          ELSE IF IsF32(x) THEN POK(GFlt(k, x)) ELSE PErr("RangeError"))
    ELSE \* integer kinds: the value must be an integer within the range of the kind
         IF ~IsFinite(x) \/ ~(IsInteger(x) \/ IsZero(x)) THEN PErr("RangeError")
         ELSE LET z == ZOfNum(x)
              IN  IF ~InRangeZ(z, k) THEN PErr("RangeError")
                  \* documented limit, not a finding: JavaScript numbers reach integer parameters
                  \* through int64 (convertNumeric), so 2^63 <= x < 2^64 is rejected loudly for
                  \* uint and uint64 - the statement allows "or the call fails with a RangeError"
                  ELSE IF NumCmp(z, MaxI64) > 0 THEN PErr("RangeError")
                  ELSE POK(GInt(k, z))

StringOfPrim(v) ==        \* 9.8 ToString; the deviation prints float64-held numbers with Go's %v
    IF v.t = "num" /\ D("D16_string_parameter_number_go_format") /\ ~HeldAsInt(v.n)
    THEN GoFmtV(v.n) ELSE ToStringPrim(v)

RECURSIVE ConvertParam(_, _)
ConvertSeq(items, ty) ==  \* element-wise; the first failure wins
    LET rs == [i \in 1..Len(items) |-> ConvertParam(items[i], ty)]
        bad == SelectSeq([i \in 1..Len(rs) |-> i], LAMBDA i : rs[i].thr # "")
    IN  IF bad # <<>> THEN PErr(rs[bad[1]].thr)
        ELSE POK([i \in 1..Len(rs) |-> rs[i].g])
ExportAsG(x) ==           \* an exported JavaScript value as an abstract Go value (interface{} parameters)
    x
ConvertParam(v, ty) ==
    CASE ty.k = "bool" -> POK(GBool(ToBooleanV(AsOps(v))))                  \* 9.2
      [] ty.k = "string" ->
            IF v.t \in {"arr", "obj", "fn", "hole"} THEN PErr("unmodelled")
            ELSE IF v.t = "cobj" THEN
                 (LET r == ToStringV(v, <<>>) IN IF r.thr # "" THEN PErr("TypeError") ELSE POK(GStr(r.v.s)))
            ELSE POK(GStr(StringOfPrim(v)))
      [] ty.k \in NumKinds ->
            IF v.t = "num" THEN NumToKind(v.n, ty.k)
            ELSE IF v.t = "hole" THEN PErr("TypeError") ELSE PErr("TypeError")   \* no implicit ToNumber: fails loudly
      [] ty.k = "iface" -> POK([k |-> "x", x |-> ExportX(v)])
      [] ty.k = "slice" ->
            IF v.t = "arr" THEN
                 LET its == [i \in 1..Len(v.items) |->
                               IF v.items[i].t = "hole" /\ D("D16_slice_parameter_hole_becomes_zero")
                               THEN [t |-> "zero"] ELSE v.items[i]]
                     rs == [i \in 1..Len(its) |->
                               IF its[i].t = "zero" THEN POK([k |-> "zero"])
                               ELSE ConvertParam(IF its[i].t = "hole" THEN Undef ELSE its[i], ty.e)]
                     bad == SelectSeq([i \in 1..Len(rs) |-> i], LAMBDA i : rs[i].thr # "")
                 IN  IF bad # <<>> THEN PErr(rs[bad[1]].thr)
                     ELSE POK([k |-> "slice", items |-> [i \in 1..Len(rs) |-> rs[i].g]])
            ELSE PErr("TypeError")
      [] ty.k = "map" ->
            IF v.t = "obj" THEN
                 LET rs == [i \in 1..Len(v.vals) |-> ConvertParam(v.vals[i], ty.e)]
                     bad == SelectSeq([i \in 1..Len(rs) |-> i], LAMBDA i : rs[i].thr # "")
                 IN  IF bad # <<>> THEN PErr(rs[bad[1]].thr)
                     ELSE POK([k |-> "map", keys |-> v.keys, vals |-> [i \in 1..Len(rs) |-> rs[i].g]])
            ELSE IF v.t \in {"arr", "fn", "cobj"} THEN PErr("unmodelled")
            ELSE PErr("TypeError")
      [] OTHER -> PErr("unmodelled")
=============================================================================
