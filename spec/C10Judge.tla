------------------------------ MODULE C10Judge ------------------------------
(* Judge direction of property C10 (code -> specification): the harness      *)
(* draws random pattern texts from a wider grammar than C10.tla enumerates   *)
(* (deeper nesting, random classes and escapes, random quantifier bounds,    *)
(* mutations into malformed / unsupported texts, random flags), random       *)
(* subjects, lastIndex values, methods and arguments, evaluates them on the  *)
(* implementation and records one line per case in trace.ndjson: a "strm"    *)
(* case record of C10.tla (m, form, src, flags, s, li, lim, omit, rep) plus  *)
(*   i |-> index,  got |-> the observed outcome [thr, v, log].               *)
(* The specification classifies every pattern text with its own grammar      *)
(* (RxParse) and recomputes the outcome; only mismatches are printed, with   *)
(* the outcome under the open named deviations and whether the observation   *)
(* equals it.  Texts that the ES5 grammar rejects but the web-compatibility  *)
(* grammar accepts are reported as skipped.                                  *)
EXTENDS C10
CONSTANTS NB, C10Dev
LI(dv) == INSTANCE RegExpSpec WITH Dev <- dv       \* the specification under an arbitrary set of deviations
(* the outcome of a recorded case under the set dv (same shape as Expect of C10.tla, family "strm") *)
ExpectV(dv, c) ==
    LET k == LI(dv)!RxConstructF(c.src, c.flags, c.form)
        X0 == [k.X EXCEPT !.li = c.li]
        x == CASE c.m = "ctor" -> [R |-> X0, v |-> StrV(<<99, 111, 110, 115, 116, 114, 117, 99, 116, 101, 100>>)]
               [] c.m = "exec" -> (LET y == LI(dv)!RxExec(X0, c.s) IN [R |-> y.R, v |-> y.v])
               [] c.m = "test" -> LI(dv)!RxTest(X0, c.s)
               [] c.m = "match" -> LI(dv)!RxStrMatch(X0, c.s)
               [] c.m = "search" -> LI(dv)!RxStrSearch(X0, c.s)
               [] c.m = "split" -> LI(dv)!RxStrSplit(X0, c.s, c.lim)
               [] c.m = "replace" -> LI(dv)!RxStrReplace(X0, c.s, [k |-> "str", s |-> c.rep])
               [] c.m = "replacefn" -> LI(dv)!RxStrReplace(X0, c.s, [k |-> "fn"])
    IN  IF k.thr # "" THEN [thr |-> k.thr, v |-> Undef, log |-> <<>>] ELSE Ok(Pair(x.v, x.R.li))
File == ndJsonDeserialize("trace.ndjson")
JInit == cs = None /\ blk \in {<<"judge", b>> : b \in 1..NB}
JNext == /\ cs = None
         /\ UNCHANGED blk
         /\ \E j \in {k \in 1..Len(File) : k % NB = blk[2] - 1} : cs' = File[j]
(* an untranslatable pattern must raise SOME error (the property does not fix its class) *)
(* a replace result some part of which is implementation-defined (RegExpSpec!RxFrame): any string that *)
(* starts with pre and ends with suf, without overlap                                                 *)
FrameOK(fr, g) ==
    /\ g.t = "str" /\ Len(g.s) >= Len(fr.pre) + Len(fr.suf)
    /\ SubSeq(g.s, 1, Len(fr.pre)) = fr.pre
    /\ SubSeq(g.s, Len(g.s) - Len(fr.suf) + 1, Len(g.s)) = fr.suf
Agrees(want, got) ==
    IF want.thr = "Unsupported" THEN got.thr \notin {"", "value"}
    ELSE IF want.thr = "" /\ cs.m = "replace" /\ want.v.a[1].a[1].t = "frame"
    THEN /\ got.thr = "" /\ got.log = want.log
         /\ FrameOK(want.v.a[1].a[1], got.v.a[1].a[1])
         /\ got.v.a[1].a[2] = want.v.a[1].a[2] /\ got.v.a[2] = want.v.a[2]
    ELSE want = got
Judge ==
    cs = None \/
    IF S!RxClassify(cs.src, cs.flags) = "lax" THEN PrintT("VJSON " \o ToJson([i |-> cs.i, skip |-> TRUE]))
    ELSE LET want == Expect(FALSE, cs)
         IN  Agrees(want, cs.got) \/
             LET d == Expect(TRUE, cs)
                 \* a repair may be in the tree while its finding is still open: all open deviations but one
                 one == Agrees(d, cs.got) \/ \E x \in C10Dev : Agrees(ExpectV(OpenDev \ {x}, cs), cs.got)
             IN  PrintT("VJSON " \o ToJson([i |-> cs.i, skip |-> FALSE, want |-> want, dev |-> d, known |-> one]))
=============================================================================
