------------------------------ MODULE C10Judge ------------------------------
(* Judge direction of property C10 (code -> specification): the harness      *)
(* draws random pattern texts from a wider grammar than C10.tla enumerates   *)
(* (deeper nesting, random classes and escapes, random quantifier bounds,    *)
(* mutations into malformed / unsupported texts, random flags), random       *)
(* subjects, lastIndex values, methods and arguments, evaluates them on the  *)
(* implementation and records one line per case in trace.ndjson: a "strm"    *)
(* case record of C10.tla (m, form, src, flags, s, li, lim, omit, rep) plus  *)
(*   i |-> index,  got |-> the observed outcome [thr, v, log].               *)
(* The specification classifies every pattern text with its own grammar      *)
(* (RxParse) and recomputes the outcome; only mismatches are printed, with   *)
(* the outcome under the open named deviations and whether the observation   *)
(* equals it.  Texts that the ES5 grammar rejects but the web-compatibility  *)
(* grammar accepts are reported as skipped.                                  *)
EXTENDS C10
CONSTANT NB
File == ndJsonDeserialize("trace.ndjson")
JInit == cs = None /\ blk \in {<<"judge", b>> : b \in 1..NB}
JNext == /\ cs = None
         /\ UNCHANGED blk
         /\ \E j \in {k \in 1..Len(File) : k % NB = blk[2] - 1} : cs' = File[j]
(* an untranslatable pattern must raise SOME error (the property does not fix its class) *)
(* a replace result some part of which is implementation-defined (RegExpSpec!RxFrame): any string that *)
(* starts with pre and ends with suf, without overlap                                                 *)
FrameOK(fr, g) ==
    /\ g.t = "str" /\ Len(g.s) >= Len(fr.pre) + Len(fr.suf)
    /\ SubSeq(g.s, 1, Len(fr.pre)) = fr.pre
    /\ SubSeq(g.s, Len(g.s) - Len(fr.suf) + 1, Len(g.s)) = fr.suf
Agrees(want, got) ==
    IF want.thr = "Unsupported" THEN got.thr \notin {"", "value"}
    ELSE IF want.thr = "" /\ cs.m = "replace" /\ want.v.a[1].a[1].t = "frame"
    THEN /\ got.thr = "" /\ got.log = want.log
         /\ FrameOK(want.v.a[1].a[1], got.v.a[1].a[1])
         /\ got.v.a[1].a[2] = want.v.a[1].a[2] /\ got.v.a[2] = want.v.a[2]
    ELSE want = got
Judge ==
    cs = None \/
    IF S!RxClassify(cs.src, cs.flags) = "lax" THEN PrintT("VJSON " \o ToJson([i |-> cs.i, skip |-> TRUE]))
    ELSE LET want == Expect(FALSE, cs)
         IN  Agrees(want, cs.got) \/
             LET d == Expect(TRUE, cs)
             IN  PrintT("VJSON " \o ToJson([i |-> cs.i, skip |-> FALSE, want |-> want, dev |-> d, known |-> Agrees(d, cs.got)]))
=============================================================================
