------------------------------ MODULE Grammar -------------------------------
(* The ES5.1 syntactic grammar (clauses 7.8, 7.9, 11, 12, 13, 14, 16 and      *)
(* Annex B.1) over TOKEN SEQUENCES, in both directions:                       *)
(*   Toks*(tree)        minimal-parenthesis unparser: abstract syntax tree    *)
(*                      -> token sequence (the parentheses the grammar forces)*)
(*   ParseProgram(toks) reference recursive-descent parser with automatic     *)
(*                      semicolon insertion (7.9; a token carries the flag    *)
(*                      "nl": a LineTerminator precedes it)                   *)
(*   EarlyOK(tree)      the parse-time errors of clauses 12 and 16            *)
(*   Classify(toks)     accept (with the tree) / reject / skip                *)
(* Known deviations of otto are the branches D("DPxx_...").                   *)
(*                                                                           *)
(* Trees are records with a tag k.  Expressions:                              *)
(*   id n | num v | str s | bool b | null | this | re body flags | hole       *)
(*   arr el | obj pr (kind key val) | fn name params body                     *)
(*   un op e | upd op pre e | bin op l r | seq l r | cond t a b | asg op l r  *)
(*   dot o n | idx o p | call f args | new f args pa                          *)
(* Statements: expr e | var decls(n init) | block body | if t a b | for init  *)
(*   test update body | forin left obj body | while t body | dowhile body t   *)
(*   break l | continue l | return e | throw e | try block param handler hasH *)
(*   fin hasF | switch d cases(test body) | label l body | with o body |      *)
(*   fdecl name params body | empty | debugger.  Optional parts are sequences *)
(*   of length 0 or 1; names are TLC strings ("" = absent).                   *)
EXTENDS NumText, TLC, C03Str
CONSTANT Dev
D(x) == x \in Dev

-----------------------------------------------------------------------------
(* tokens                                                                    *)
TP(s)  == [t |-> "p", v |-> s, nl |-> FALSE]            \* punctuator (7.7)
TK(s)  == [t |-> "k", v |-> s, nl |-> FALSE]            \* reserved word (7.6.1), incl. null true false
TI(s)  == [t |-> "id", v |-> s, nl |-> FALSE]           \* identifier
TIs(name, src) == [t |-> "id", v |-> name, nl |-> FALSE, src |-> src]   \* identifier written with escapes
(* an IdentifierName written with a \u escape whose characters are a reserved *)
(* word (7.6, 7.6.1): it is no Identifier (reserved) and it is not the        *)
(* keyword / literal token either (those are spelled literally): usable only *)
(* where an IdentifierName is (after ".", as a property name)                 *)
TEk(word, src) == [t |-> "ek", v |-> word, nl |-> FALSE, src |-> src]
TNum(src) == [t |-> "num", v |-> "", nl |-> FALSE, src |-> src]
TStr(src) == [t |-> "str", v |-> "", nl |-> FALSE, src |-> src]
TRe(body, flags) == [t |-> "re", v |-> "", nl |-> FALSE, body |-> body, flags |-> flags]
EOFTok == [t |-> "eof", v |-> "", nl |-> FALSE]

Tk(T, i) == IF i <= Len(T) THEN T[i] ELSE EOFTok
IsP(tk, s) == tk.t = "p" /\ tk.v = s
IsK(tk, s) == tk.t = "k" /\ tk.v = s
IsPIn(tk, S) == tk.t = "p" /\ tk.v \in S
IsKIn(tk, S) == tk.t = "k" /\ tk.v \in S
IsEOF(tk) == tk.t = "eof"

IdText(tk) == TokUnits[tk.v]          \* the IdentifierName's characters (escapes decoded)
TokText(tk) ==                        \* source text of a token
    CASE tk.t \in {"p", "k"} -> TokUnits[tk.v]
      [] tk.t = "id" -> IF "src" \in DOMAIN tk THEN tk.src ELSE TokUnits[tk.v]
      [] tk.t = "ek" -> tk.src
      [] tk.t \in {"num", "str"} -> tk.src
      [] tk.t = "re" -> <<47>> \o tk.body \o <<47>> \o tk.flags

-----------------------------------------------------------------------------
(* 7.8.3 numeric literals (and B.1.1 legacy octal)                           *)
IsOctDigit(u) == u >= 48 /\ u <= 55
RECURSIVE AllOct(_, _)
AllOct(s, i) == i > Len(s) \/ (IsOctDigit(s[i]) /\ AllOct(s, i + 1))
RECURSIVE BnOfOctAt(_, _, _)
BnOfOctAt(s, i, acc) ==
    IF i > Len(s) THEN acc
    ELSE LET nx == BnAdd(BnMulSmall(acc, 8), BnFromInt(s[i] - 48))
         IN  IF Len(nx) < 0 THEN nx ELSE BnOfOctAt(s, i + 1, nx)

NumLitKind(s) ==
    IF Len(s) >= 2 /\ s[1] = 48 /\ s[2] \in {120, 88} THEN "hex"
    ELSE IF Len(s) >= 2 /\ s[1] = 48 /\ IsDigit(s[2]) THEN "oct"
    ELSE "dec"
NumLitOK(s) ==
    LET kd == NumLitKind(s)
    IN  CASE kd = "hex" -> Len(s) >= 3 /\ AllHex(s, 3)
          [] kd = "oct" -> AllOct(s, 2)                  \* 08, 09, 00.5: no production
          [] kd = "dec" -> Len(s) >= 1 /\ (IsDigit(s[1]) \/ s[1] = 46) /\ UnsignedDecToNum(s, FALSE).ok
NumLitMV(s) ==                                           \* MV, rounded to the Number value (7.8.3)
    LET kd == NumLitKind(s)
    IN  CASE kd = "hex" -> RoundD(FALSE, BnOfHexAt(s, 3, <<>>), 0)
          [] kd = "oct" -> RoundD(FALSE, BnOfOctAt(s, 2, <<>>), 0)
          [] kd = "dec" -> UnsignedDecToNum(s, FALSE).n

(* 7.8.3 last paragraph: a decimal literal with more than 20 significant      *)
(* digits may denote the MV of the literal, or of the literal whose digits   *)
(* after the 20th are replaced by 0, or of that with the 20th digit          *)
(* incremented.  NumLitAmbiguous: these three round to different Numbers     *)
(* (such a literal is "ext": not judged).                                    *)
RECURSIVE LeadZeros(_, _)
LeadZeros(d, i) == IF i <= Len(d) /\ d[i] = 48 THEN LeadZeros(d, i + 1) ELSE i - 1
RECURSIVE TrailZeros(_, _)
TrailZeros(d, j) == IF j >= 1 /\ d[j] = 48 THEN TrailZeros(d, j - 1) ELSE Len(d) - j
NumLitAmbiguous(s) ==
    IF NumLitKind(s) # "dec" THEN FALSE
    ELSE LET i1 == SpanDigits(s, 1)
             hasDot == i1 <= Len(s) /\ s[i1] = 46
             f0 == IF hasDot THEN i1 + 1 ELSE i1
             f1 == IF hasDot THEN SpanDigits(s, f0) ELSE f0
             frD == SubSeq(s, f0, f1 - 1)
             hasExp == f1 <= Len(s) /\ s[f1] \in {101, 69}
             es == IF hasExp /\ f1 + 1 <= Len(s) /\ s[f1 + 1] \in {43, 45} THEN f1 + 2 ELSE f1 + 1
             eneg == hasExp /\ f1 + 1 <= Len(s) /\ s[f1 + 1] = 45
             ev == IF hasExp THEN (IF eneg THEN -1 ELSE 1) * SatNat(s, es, 0) ELSE 0
             D0 == SubSeq(s, 1, i1 - 1) \o frD
             Dn == SubSeq(D0, LeadZeros(D0, 1) + 1, Len(D0))
             n == Len(Dn)
             sig == n - TrailZeros(Dn, n)
             q0 == ev - Len(frD)
         IN  IF sig <= 20 THEN FALSE
             ELSE LET lo == BnOfDigits(SubSeq(Dn, 1, 20))
                      exact == DecToNum(FALSE, BnOfDigits(Dn), q0)
                  IN  DecToNum(FALSE, lo, q0 + n - 20) # exact \/ DecToNum(FALSE, BnAdd(lo, <<1>>), q0 + n - 20) # exact

-----------------------------------------------------------------------------
(* 7.8.4 string literals (SV), B.1.2 octal escapes.  Result [ok, s, why];    *)
(* why = "ext": the text is outside ES5 but commonly accepted (\8, \128)     *)
SvOk(s) == [ok |-> TRUE, s |-> s, why |-> ""]
SvBad(w) == [ok |-> FALSE, s |-> <<>>, why |-> w]
HexAt(s, i, n) ==      \* value of the n hex digits s[i..i+n-1], or -1
    IF i + n - 1 > Len(s) THEN -1
    ELSE IF \E j \in i..(i + n - 1) : ~IsHexDigit(s[j]) THEN -1
    ELSE IF n = 2 THEN HexVal(s[i]) * 16 + HexVal(s[i + 1])
    ELSE HexVal(s[i]) * 4096 + HexVal(s[i + 1]) * 256 + HexVal(s[i + 2]) * 16 + HexVal(s[i + 3])
IsHiSur(u) == u >= 55296 /\ u <= 56319
IsLoSur(u) == u >= 56320 /\ u <= 57343

RECURSIVE SVAt(_, _, _, _)
SVAt(s, i, q, acc) ==
    IF i > Len(s) THEN SvBad("syntax")                              \* no closing quote
    ELSE LET c == s[i] IN
    IF c = q THEN (IF i = Len(s) THEN SvOk(acc) ELSE SvBad("syntax"))
    ELSE IF IsLT(c) THEN SvBad("syntax")                             \* a string literal cannot contain a LineTerminator
    ELSE IF c # 92 THEN SVAt(s, i + 1, q, Append(acc, c))
    ELSE IF i + 1 > Len(s) THEN SvBad("syntax")
    ELSE LET e == s[i + 1] IN
    CASE e = 13 -> SVAt(s, IF i + 2 <= Len(s) /\ s[i + 2] = 10 THEN i + 3 ELSE i + 2, q, acc)   \* LineContinuation
      [] e = 10 -> SVAt(s, i + 2, q, acc)
      [] e \in {8232, 8233} ->
            IF D("DP08_line_continuation_ls_ps_kept") THEN SVAt(s, i + 2, q, Append(acc, e))
            ELSE SVAt(s, i + 2, q, acc)
      [] e = 98 -> SVAt(s, i + 2, q, Append(acc, 8))
      [] e = 116 -> SVAt(s, i + 2, q, Append(acc, 9))
      [] e = 110 -> SVAt(s, i + 2, q, Append(acc, 10))
      [] e = 118 -> SVAt(s, i + 2, q, Append(acc, 11))
      [] e = 102 -> SVAt(s, i + 2, q, Append(acc, 12))
      [] e = 114 -> SVAt(s, i + 2, q, Append(acc, 13))
      [] e = 120 -> LET h == HexAt(s, i + 2, 2)
                    IN  IF h < 0 THEN SvBad("syntax") ELSE SVAt(s, i + 4, q, Append(acc, h))
      [] e = 117 ->
            LET h == HexAt(s, i + 2, 4)
                h2 == IF i + 7 <= Len(s) /\ s[i + 6] = 92 /\ s[i + 7] = 117 THEN HexAt(s, i + 8, 4) ELSE -1
            IN  IF h < 0 THEN SvBad("syntax")
                ELSE IF IsHiSur(h) /\ h2 >= 0 /\ IsLoSur(h2) THEN SVAt(s, i + 12, q, acc \o <<h, h2>>)
                ELSE IF (IsHiSur(h) \/ IsLoSur(h)) /\ D("DP07_lone_surrogate_escape_replaced")
                     THEN SVAt(s, i + 6, q, Append(acc, 65533))
                ELSE SVAt(s, i + 6, q, Append(acc, h))
      [] IsOctDigit(e) ->
            LET d1 == e - 48
                o2 == i + 2 <= Len(s) /\ IsOctDigit(s[i + 2])
                o3 == o2 /\ i + 3 <= Len(s) /\ IsOctDigit(s[i + 3])
                d2 == s[i + 2] - 48
                d3 == s[i + 3] - 48
                n  == IF o3 /\ (d1 <= 3 \/ D("DP06_octal_escape_three_digits_above_377")) THEN 3
                      ELSE IF o2 THEN 2 ELSE 1
                val == IF n = 3 THEN d1 * 64 + d2 * 8 + d3 ELSE IF n = 2 THEN d1 * 8 + d2 ELSE d1
                la == IF i + 1 + n <= Len(s) THEN s[i + 1 + n] ELSE 0
            IN  \* B.1.2: the one- and two-digit forms of a ZeroToThree start need [lookahead not DecimalDigit]
                IF n < 3 /\ ~(n = 2 /\ d1 >= 4) /\ IsDigit(la) THEN SvBad("ext")
                ELSE SVAt(s, i + 1 + n, q, Append(acc, val))
      [] e \in {56, 57} -> SvBad("ext")                               \* \8 \9: not ES5, accepted everywhere
      [] OTHER -> SVAt(s, i + 2, q, Append(acc, e))                   \* SingleEscapeCharacter ' " \ and NonEscapeCharacter
StrLitSV(src) ==
    IF Len(src) < 2 \/ src[1] \notin {34, 39} THEN SvBad("syntax") ELSE SVAt(src, 2, src[1], <<>>)

-----------------------------------------------------------------------------
(* 7.8.5 / 15.10.4.1 regular expression flags; the pattern grammar (15.10.1) *)
(* is property C10's: patterns are taken from a pool of valid ones           *)
RECURSIVE FlagsOK(_, _, _)
FlagsOK(f, i, seen) == i > Len(f) \/ (f[i] \in {103, 105, 109} /\ f[i] \notin seen /\ FlagsOK(f, i + 1, seen \cup {f[i]}))

-----------------------------------------------------------------------------
(* parser results *)
BadNode == [k |-> "bad"]
Ok(n, i) == [ok |-> TRUE, n |-> n, i |-> i, why |-> ""]
Fail(i, w) == [ok |-> FALSE, n |-> BadNode, i |-> i, why |-> w]     \* why: "syntax" | "ext" | "lex"

(* 11.12-11.14 precedence of the binary operators; 0 = not a binary operator *)
BinPrecTab ==
    ("||" :> 3) @@ ("&&" :> 4) @@ ("|" :> 5) @@ ("^" :> 6) @@ ("&" :> 7)
    @@ ("==" :> 8) @@ ("!=" :> 8) @@ ("===" :> 8) @@ ("!==" :> 8)
    @@ ("<" :> 9) @@ (">" :> 9) @@ ("<=" :> 9) @@ (">=" :> 9) @@ ("instanceof" :> 9) @@ ("in" :> 9)
    @@ ("<<" :> 10) @@ (">>" :> 10) @@ (">>>" :> 10)
    @@ ("+" :> 11) @@ ("-" :> 11) @@ ("*" :> 12) @@ ("/" :> 12) @@ ("%" :> 12)
BinOps == DOMAIN BinPrecTab
RelOps == {"<", ">", "<=", ">=", "instanceof", "in"}
AsgOpTab ==
    ("=" :> "=") @@ ("+=" :> "+") @@ ("-=" :> "-") @@ ("*=" :> "*") @@ ("/=" :> "/") @@ ("%=" :> "%")
    @@ ("<<=" :> "<<") @@ (">>=" :> ">>") @@ (">>>=" :> ">>>") @@ ("&=" :> "&") @@ ("|=" :> "|") @@ ("^=" :> "^")
AsgToks == DOMAIN AsgOpTab
PrefixPunct == {"+", "-", "!", "~"}
PrefixKw == {"delete", "void", "typeof"}

BinOpOf(tk, ni) ==      \* the binary operator a token denotes in this context, or ""
    IF tk.t = "p" /\ tk.v \in BinOps THEN tk.v
    ELSE IF tk.t = "k" /\ tk.v = "instanceof" THEN "instanceof"
    ELSE IF tk.t = "k" /\ tk.v = "in" /\ ~ni THEN "in"
    ELSE ""

(* 11.13.1 / 11.3 / 11.4.4 / 12.6.4 with clause 16: the operand of an        *)
(* assignment must be a Reference; what can be seen not to be one early is   *)
(* an early error.  A call may return a Reference (host objects): "ext".     *)
TargetWhy(n) == IF n.k \in {"id", "dot", "idx"} THEN "" ELSE IF n.k = "call" THEN "ext" ELSE "syntax"

RECURSIVE PPrimary(_, _), PTail(_, _, _, _), PNewExpr(_, _), PLhs(_, _), PPostfix(_, _), PUnary(_, _),
          PBin(_, _, _, _), PBinLoop(_, _, _, _, _), PCond(_, _, _), PAssign(_, _, _), PExpr(_, _, _),
          PExprLoop(_, _, _, _), PArgs(_, _), PArgLoop(_, _, _), PArray(_, _, _), PObject(_, _, _),
          PProp(_, _), PFunction(_, _, _), PParams(_, _, _), PBody(_, _, _), PStmt(_, _, _),
          PVarDecls(_, _, _, _), PCases(_, _, _, _), PCaseBody(_, _, _)

(* 11.1 primary expressions (and 13 function expressions) *)
PPrimary(T, i) ==
    LET tk == Tk(T, i) IN
    CASE tk.t = "id" -> Ok([k |-> "id", n |-> tk.v], i + 1)
      [] tk.t = "num" -> IF ~NumLitOK(tk.src) THEN Fail(i, "syntax")
                         ELSE IF NumLitAmbiguous(tk.src) THEN Fail(i, "ext")
                         ELSE Ok([k |-> "num", v |-> NumLitMV(tk.src)], i + 1)
      [] tk.t = "str" -> LET sv == StrLitSV(tk.src)
                         IN  IF sv.ok THEN Ok([k |-> "str", s |-> sv.s], i + 1) ELSE Fail(i, sv.why)
      [] tk.t = "re" ->
            \* 7.8.5: the flags are the IdentifierParts that immediately follow the closing slash
            LET nx == Tk(T, i + 1)
                steal == D("DP04_regexp_flags_after_separator") /\ tk.flags = <<>> /\ nx.t = "id"
                fl == IF steal THEN IdText(nx) ELSE tk.flags
            IN  IF ~FlagsOK(fl, 1, {}) /\ ~D("DP18_regexp_flags_not_validated") THEN Fail(i, "syntax")
                ELSE Ok([k |-> "re", body |-> tk.body, flags |-> fl], IF steal THEN i + 2 ELSE i + 1)
      [] tk.t = "k" ->
            (CASE tk.v = "this" -> Ok([k |-> "this"], i + 1)
               [] tk.v = "null" -> Ok([k |-> "null"], i + 1)
               [] tk.v = "true" -> Ok([k |-> "bool", b |-> TRUE], i + 1)
               [] tk.v = "false" -> Ok([k |-> "bool", b |-> FALSE], i + 1)
               [] tk.v = "function" -> PFunction(T, i, FALSE)
               [] OTHER -> Fail(i, "syntax"))
      [] tk.t = "p" ->
            (CASE tk.v = "(" -> LET r == PExpr(T, i + 1, FALSE)
                                IN  IF ~r.ok THEN r
                                    ELSE IF IsP(Tk(T, r.i), ")") THEN Ok(r.n, r.i + 1) ELSE Fail(r.i, "syntax")
               [] tk.v = "[" -> PArray(T, i + 1, <<>>)
               [] tk.v = "{" -> PObject(T, i + 1, <<>>)
               [] tk.v \in {"/", "/="} -> Fail(i, "lex")      \* the text would be read as a RegularExpressionLiteral
               [] OTHER -> Fail(i, "syntax"))
      [] OTHER -> Fail(i, "syntax")

(* 11.1.4 array initialiser: elisions are holes *)
PArray(T, i, acc) ==
    LET tk == Tk(T, i) IN
    IF IsP(tk, "]") THEN Ok([k |-> "arr", el |-> acc], i + 1)
    ELSE IF IsP(tk, ",") THEN PArray(T, i + 1, Append(acc, [k |-> "hole"]))
    ELSE LET r == PAssign(T, i, FALSE) IN
         IF ~r.ok THEN r
         ELSE IF IsP(Tk(T, r.i), ",") THEN PArray(T, r.i + 1, Append(acc, r.n))
         ELSE IF IsP(Tk(T, r.i), "]") THEN Ok([k |-> "arr", el |-> Append(acc, r.n)], r.i + 1)
         ELSE Fail(r.i, "syntax")

(* 11.1.5 object initialiser *)
(* otto: parseObjectPropertyKey takes ANY token as a property name (name "" unless it looks like an identifier) *)
AnyKey(tk) == D("DP21_object_key_any_token") /\ tk.t \in {"p", "num"} /\ ~IsP(tk, "}")
IsPropName(tk) == tk.t \in {"id", "k", "ek", "num", "str"} \/ AnyKey(tk)
PropKey(tk) ==      \* [ok, key, why]: the property name (a String)
    CASE tk.t \in {"id", "k", "ek"} -> [ok |-> TRUE, key |-> IdText(tk), why |-> ""]
      [] tk.t = "str" -> LET sv == StrLitSV(tk.src) IN [ok |-> sv.ok, key |-> sv.s, why |-> sv.why]
      [] tk.t = "p" -> [ok |-> TRUE, key |-> <<>>, why |-> ""]
      [] tk.t = "num" -> IF ~NumLitOK(tk.src) THEN [ok |-> AnyKey(tk), key |-> <<>>, why |-> "syntax"]
                         ELSE IF D("DP05_numeric_property_key_source_text") THEN [ok |-> TRUE, key |-> tk.src, why |-> ""]
                         ELSE [ok |-> TRUE, key |-> NumToStr(NumLitMV(tk.src)), why |-> ""]     \* ToString(MV)
PProp(T, i) ==
    LET tk == Tk(T, i)
        nx == Tk(T, i + 1)
    IN  IF ~IsPropName(tk) THEN Fail(i, "syntax")
        ELSE IF tk.t = "id" /\ tk.v \in {"get", "set"} /\ "src" \notin DOMAIN tk /\ ~IsP(nx, ":") THEN
            \* get PropertyName ( ) { FunctionBody } | set PropertyName ( PropertySetParameterList ) { FunctionBody }
            (IF ~IsPropName(nx) /\ ~(D("DP21_object_key_any_token") /\ nx.t = "p") THEN Fail(i + 1, "syntax")
             ELSE LET ky == PropKey(nx)
                      ps == IF IsP(Tk(T, i + 2), "(") THEN PParams(T, i + 3, <<>>) ELSE Fail(i + 2, "syntax")
                  IN  IF ~ky.ok THEN Fail(i + 1, ky.why)
                      ELSE IF ~ps.ok THEN ps
                      ELSE IF Len(ps.n) # (IF tk.v = "get" THEN 0 ELSE 1) /\ ~D("DP16_accessor_parameter_count") THEN Fail(i + 2, "syntax")
                      ELSE LET bd == PBody(T, ps.i, <<>>)
                           IN  IF ~bd.ok THEN bd
                               ELSE Ok([kind |-> tk.v, key |-> ky.key,
                                        val |-> [k |-> "fn", name |-> "", params |-> ps.n, body |-> bd.n]], bd.i))
        ELSE LET ky == PropKey(tk) IN
             IF ~ky.ok THEN Fail(i, ky.why)
             ELSE IF ~IsP(nx, ":") THEN Fail(i + 1, "syntax")
             ELSE LET r == PAssign(T, i + 2, FALSE)
                  IN  IF ~r.ok THEN r ELSE Ok([kind |-> "value", key |-> ky.key, val |-> r.n], r.i)
PObject(T, i, acc) ==
    LET tk == Tk(T, i) IN
    IF IsP(tk, "}") THEN Ok([k |-> "obj", pr |-> acc], i + 1)
    ELSE LET r == PProp(T, i) IN
         IF ~r.ok THEN r
         ELSE IF IsP(Tk(T, r.i), ",") THEN PObject(T, r.i + 1, Append(acc, r.n))
         ELSE IF IsP(Tk(T, r.i), "}") THEN Ok([k |-> "obj", pr |-> Append(acc, r.n)], r.i + 1)
         ELSE IF D("DP12_object_literal_missing_comma") /\ ~IsEOF(Tk(T, r.i)) THEN PObject(T, r.i, Append(acc, r.n))
         ELSE Fail(r.i, "syntax")

(* 13 function: at the token `function`; decl: a FunctionDeclaration (name required) *)
PParams(T, i, acc) ==        \* after "(" ; result n = sequence of names, i after ")"
    LET tk == Tk(T, i) IN
    IF IsP(tk, ")") /\ (acc = <<>> \/ D("DP11_params_trailing_comma")) THEN Ok(acc, i + 1)
    ELSE IF tk.t # "id" THEN Fail(i, "syntax")
    ELSE IF IsP(Tk(T, i + 1), ",") THEN PParams(T, i + 2, Append(acc, tk.v))
    ELSE IF IsP(Tk(T, i + 1), ")") THEN Ok(Append(acc, tk.v), i + 2)
    ELSE Fail(i + 1, "syntax")
PBody(T, i, acc) ==          \* at "{" of a function body: SourceElements up to "}"
    IF ~IsP(Tk(T, i), "{") THEN Fail(i, "syntax")
    ELSE LET RECURSIVE Els(_, _)
             Els(j, a) == IF IsP(Tk(T, j), "}") THEN Ok(a, j + 1)
                          ELSE IF IsEOF(Tk(T, j)) THEN Fail(j, "syntax")
                          ELSE LET s == PStmt(T, j, TRUE) IN IF ~s.ok THEN s ELSE Els(s.i, Append(a, s.n))
         IN  Els(i + 1, <<>>)
PFunction(T, i, decl) ==
    LET t1 == Tk(T, i + 1)
        named == t1.t = "id"
        j == IF named THEN i + 2 ELSE i + 1
    IN  IF decl /\ ~named THEN Fail(i + 1, "syntax")
        ELSE IF ~IsP(Tk(T, j), "(") THEN Fail(j, "syntax")
        ELSE LET ps == PParams(T, j + 1, <<>>) IN
             IF ~ps.ok THEN ps
             ELSE LET bd == PBody(T, ps.i, <<>>) IN
                  IF ~bd.ok THEN bd
                  ELSE Ok([k |-> IF decl THEN "fdecl" ELSE "fn", name |-> IF named THEN t1.v ELSE "",
                           params |-> ps.n, body |-> bd.n], bd.i)

(* 11.2 left-hand-side expressions *)
PArgs(T, i) ==               \* at "(" ; n = sequence of argument nodes
    IF IsP(Tk(T, i + 1), ")") THEN Ok(<<>>, i + 2) ELSE PArgLoop(T, i + 1, <<>>)
PArgLoop(T, i, acc) ==
    LET r == PAssign(T, i, FALSE) IN
    IF ~r.ok THEN r
    ELSE IF IsP(Tk(T, r.i), ")") THEN Ok(Append(acc, r.n), r.i + 1)
    ELSE IF ~IsP(Tk(T, r.i), ",") THEN Fail(r.i, "syntax")
    ELSE IF D("DP10_call_trailing_comma") /\ IsP(Tk(T, r.i + 1), ")") THEN Ok(Append(acc, r.n), r.i + 2)
    ELSE PArgLoop(T, r.i + 1, Append(acc, r.n))

PTail(T, i, left, call) ==   \* . name | [ expr ] | ( args ) when call
    LET tk == Tk(T, i) IN
    IF IsP(tk, ".") THEN
        (LET nm == Tk(T, i + 1)
         IN  IF nm.t \in {"id", "k", "ek"} THEN PTail(T, i + 2, [k |-> "dot", o |-> left, n |-> nm.v], call)   \* IdentifierName
             ELSE Fail(i + 1, "syntax"))
    ELSE IF IsP(tk, "[") THEN
        (LET r == PExpr(T, i + 1, FALSE)
         IN  IF ~r.ok THEN r
             ELSE IF IsP(Tk(T, r.i), "]") THEN PTail(T, r.i + 1, [k |-> "idx", o |-> left, p |-> r.n], call)
             ELSE Fail(r.i, "syntax"))
    ELSE IF call /\ IsP(tk, "(") THEN
        (LET a == PArgs(T, i)
         IN  IF ~a.ok THEN a ELSE PTail(T, a.i, [k |-> "call", f |-> left, args |-> a.n], call))
    ELSE IF tk.t = "re" THEN Fail(i, "lex")        \* the text would be read as a division
    ELSE Ok(left, i)
PNewExpr(T, i) ==            \* at `new`: new MemberExpression Arguments | new NewExpression
    LET b == IF IsK(Tk(T, i + 1), "new") THEN PNewExpr(T, i + 1) ELSE PPrimary(T, i + 1)
        c == IF ~b.ok THEN b ELSE PTail(T, b.i, b.n, FALSE)
    IN  IF ~c.ok THEN c
        ELSE IF IsP(Tk(T, c.i), "(") THEN
             (LET a == PArgs(T, c.i)
              IN  IF ~a.ok THEN a ELSE Ok([k |-> "new", f |-> c.n, args |-> a.n, pa |-> TRUE], a.i))
        ELSE Ok([k |-> "new", f |-> c.n, args |-> <<>>, pa |-> FALSE], c.i)
PLhs(T, i) ==
    LET b == IF IsK(Tk(T, i), "new") THEN PNewExpr(T, i) ELSE PPrimary(T, i)
    IN  IF ~b.ok THEN b ELSE PTail(T, b.i, b.n, TRUE)

(* 11.3 postfix (restricted production: no LineTerminator before ++ --), 11.4 unary *)
PPostfix(T, i) ==
    LET e == PLhs(T, i) IN
    IF ~e.ok THEN e
    ELSE LET tk == Tk(T, e.i) IN
         IF IsPIn(tk, {"++", "--"}) /\ ~tk.nl THEN
            (IF TargetWhy(e.n) # "" THEN Fail(e.i, TargetWhy(e.n))
             ELSE Ok([k |-> "upd", op |-> tk.v, pre |-> FALSE, e |-> e.n], e.i + 1))
         ELSE e
PUnary(T, i) ==
    LET tk == Tk(T, i) IN
    IF IsPIn(tk, PrefixPunct) \/ IsKIn(tk, PrefixKw) THEN
        (LET e == PUnary(T, i + 1) IN IF ~e.ok THEN e ELSE Ok([k |-> "un", op |-> tk.v, e |-> e.n], e.i))
    ELSE IF IsPIn(tk, {"++", "--"}) THEN
        (LET e == PUnary(T, i + 1)
         IN  IF ~e.ok THEN e
             ELSE IF TargetWhy(e.n) # "" THEN Fail(i, TargetWhy(e.n))
             ELSE Ok([k |-> "upd", op |-> tk.v, pre |-> TRUE, e |-> e.n], e.i))
    ELSE PPostfix(T, i)

(* 11.5 - 11.11 binary operators by precedence climbing; all left-associative *)
PBin(T, i, ni, p) ==
    LET l == PUnary(T, i) IN IF ~l.ok THEN l ELSE PBinLoop(T, l.i, ni, p, l.n)
PBinLoop(T, i, ni, p, left) ==
    LET op == BinOpOf(Tk(T, i), ni)
        q == IF op = "" THEN 0 ELSE BinPrecTab[op]
    IN  IF Tk(T, i).t = "re" THEN Fail(i, "lex")       \* the text would be read as a division
        ELSE IF op = "" \/ q < p THEN Ok(left, i)
        ELSE LET r == IF op \in RelOps /\ D("DP01_relational_right_assoc")
                      THEN PBin(T, i + 1, FALSE, q)         \* otto: right operand is again a RelationalExpression, `in` allowed
                      ELSE PBin(T, i + 1, ni, q + 1)
             IN  IF ~r.ok THEN r ELSE PBinLoop(T, r.i, ni, p, [k |-> "bin", op |-> op, l |-> left, r |-> r.n])

(* 11.12 conditional: the middle operand is an AssignmentExpression WITH `in` *)
PCond(T, i, ni) ==
    LET t == PBin(T, i, ni, 3) IN
    IF ~t.ok THEN t
    ELSE IF ~IsP(Tk(T, t.i), "?") THEN t
    ELSE LET a == PAssign(T, t.i + 1, IF D("DP02_noin_conditional_consequent") THEN ni ELSE FALSE) IN
         IF ~a.ok THEN a
         ELSE IF ~IsP(Tk(T, a.i), ":") THEN Fail(a.i, "syntax")
         ELSE LET b == PAssign(T, a.i + 1, ni)
              IN  IF ~b.ok THEN b ELSE Ok([k |-> "cond", t |-> t.n, a |-> a.n, b |-> b.n], b.i)

(* 11.13 assignment (right-associative) *)
IsAsgTok(tk) == (tk.t = "p" /\ tk.v \in AsgToks) \/ (D("DP19_and_not_assign_token") /\ IsP(tk, "&^="))
PAssign(T, i, ni) ==
    LET l == PCond(T, i, ni) IN
    IF ~l.ok THEN l
    ELSE LET tk == Tk(T, l.i) IN
         IF ~IsAsgTok(tk) THEN l
         ELSE IF TargetWhy(l.n) # "" THEN Fail(l.i, TargetWhy(l.n))
         ELSE LET r == PAssign(T, l.i + 1, ni)
              IN  IF ~r.ok THEN r
                  ELSE Ok([k |-> "asg", op |-> IF tk.v = "&^=" THEN "&^" ELSE AsgOpTab[tk.v], l |-> l.n, r |-> r.n], r.i)

(* 11.14 comma (left-associative) *)
PExpr(T, i, ni) ==
    LET l == PAssign(T, i, ni) IN IF ~l.ok THEN l ELSE PExprLoop(T, l.i, ni, l.n)
PExprLoop(T, i, ni, left) ==
    IF ~IsP(Tk(T, i), ",") THEN Ok(left, i)
    ELSE LET r == PAssign(T, i + 1, ni)
         IN  IF ~r.ok THEN r ELSE PExprLoop(T, r.i, ni, [k |-> "seq", l |-> left, r |-> r.n])

-----------------------------------------------------------------------------
(* 7.9 automatic semicolon insertion at the end of a statement: a semicolon, *)
(* or the offending token is "}" / end of input / preceded by a LineTerminator *)
PSemi(T, i) ==
    LET tk == Tk(T, i) IN
    IF IsP(tk, ";") THEN Ok(BadNode, i + 1)
    ELSE IF IsP(tk, "}") \/ IsEOF(tk) \/ tk.nl THEN Ok(BadNode, i)
    ELSE Fail(i, "syntax")
(* otto's scanner notes "a semicolon may be inserted after this token" only   *)
(* for some tokens; of the tokens that can end a statement it misses the     *)
(* reserved words used as property names (a.if)                              *)
KwNoASI(tk) == tk.t = "k" /\ tk.v \notin {"this", "break", "throw", "return", "continue", "debugger", "true", "false", "null"}
EffNL(T) ==
    IF ~D("DP23_no_asi_after_keyword_property_name") THEN T
    ELSE [i \in 1..Len(T) |-> IF i > 1 /\ T[i].nl /\ KwNoASI(T[i - 1]) THEN [T[i] EXCEPT !.nl = FALSE] ELSE T[i]]
(* otto's semicolon() (var, return, throw, debugger, break/continue with a label) *)
PSemiS(T, i) ==
    IF ~D("DP09_semicolon_after_newline_not_consumed") THEN PSemi(T, i)
    ELSE LET tk == Tk(T, i)
             eofOK == IsEOF(tk) /\ ~(D("DP23_no_asi_after_keyword_property_name") /\ i > 1 /\ KwNoASI(Tk(T, i - 1)))
         IN
         IF IsP(tk, ")") \/ IsP(tk, "}") \/ eofOK \/ tk.nl THEN Ok(BadNode, i)     \* a ";" after a line terminator is left over
         ELSE IF IsP(tk, ";") THEN Ok(BadNode, i + 1)
         ELSE Fail(i, "syntax")
Then(r, n) == IF r.ok THEN Ok(n, r.i) ELSE r

Opt(r) == <<r.n>>
ParenExpr(T, i) ==           \* ( Expression )
    IF ~IsP(Tk(T, i), "(") THEN Fail(i, "syntax")
    ELSE LET r == PExpr(T, i + 1, FALSE)
         IN  IF ~r.ok THEN r ELSE IF IsP(Tk(T, r.i), ")") THEN Ok(r.n, r.i + 1) ELSE Fail(r.i, "syntax")

PVarDecls(T, i, ni, acc) ==  \* 12.2 after `var` or a comma
    LET tk == Tk(T, i) IN
    IF tk.t # "id" THEN Fail(i, "syntax")
    ELSE LET hasI == IsP(Tk(T, i + 1), "=")
             r == IF hasI THEN PAssign(T, i + 2, ni) ELSE Ok(BadNode, i + 1)
         IN  IF ~r.ok THEN r
             ELSE LET d == [n |-> tk.v, init |-> IF hasI THEN <<r.n>> ELSE <<>>]
                  IN  IF IsP(Tk(T, r.i), ",") THEN PVarDecls(T, r.i + 1, ni, Append(acc, d))
                      ELSE Ok(Append(acc, d), r.i)

PCaseBody(T, i, acc) ==      \* StatementList of a clause: up to case / default / }
    LET tk == Tk(T, i) IN
    IF IsKIn(tk, {"case", "default"}) \/ IsP(tk, "}") THEN Ok(acc, i)
    ELSE IF IsEOF(tk) THEN (IF D("DP22_switch_unterminated") THEN Ok(acc, i) ELSE Fail(i, "syntax"))
    ELSE LET s == PStmt(T, i, FALSE) IN IF ~s.ok THEN s ELSE PCaseBody(T, s.i, Append(acc, s.n))
PCases(T, i, acc, sawDefault) ==   \* 12.11 CaseBlock after "{"
    LET tk == Tk(T, i) IN
    IF IsP(tk, "}") THEN Ok(acc, i + 1)
    ELSE IF IsEOF(tk) /\ D("DP22_switch_unterminated") THEN Ok(acc, i)      \* otto: the case block may end with the input
    ELSE IF IsK(tk, "default") THEN
        (IF sawDefault \/ ~IsP(Tk(T, i + 1), ":") THEN Fail(i, "syntax")
         ELSE LET b == PCaseBody(T, i + 2, <<>>)
              IN  IF ~b.ok THEN b ELSE PCases(T, b.i, Append(acc, [test |-> <<>>, body |-> b.n]), TRUE))
    ELSE IF IsK(tk, "case") THEN
        (LET e == PExpr(T, i + 1, FALSE) IN
         IF ~e.ok THEN e
         ELSE IF ~IsP(Tk(T, e.i), ":") THEN Fail(e.i, "syntax")
         ELSE LET b == PCaseBody(T, e.i + 1, <<>>)
              IN  IF ~b.ok THEN b ELSE PCases(T, b.i, Append(acc, [test |-> <<e.n>>, body |-> b.n]), sawDefault))
    ELSE Fail(i, "syntax")

PBlock(T, i) ==              \* at "{": n = sequence of statements
    IF ~IsP(Tk(T, i), "{") THEN Fail(i, "syntax")
    ELSE LET RECURSIVE Els(_, _)
             Els(j, a) == IF IsP(Tk(T, j), "}") THEN Ok(a, j + 1)
                          ELSE IF IsEOF(Tk(T, j)) THEN Fail(j, "syntax")
                          ELSE LET s == PStmt(T, j, FALSE) IN IF ~s.ok THEN s ELSE Els(s.i, Append(a, s.n))
         IN  Els(i + 1, <<>>)

(* 12.6.3 / 12.6.4 at `for` *)
PFor(T, i) ==
    IF ~IsP(Tk(T, i + 1), "(") THEN Fail(i + 1, "syntax")
    ELSE LET t2 == Tk(T, i + 2)
             \* the part up to the first ";" or the `in` of a for-in: [ok, init, i, forin, left]
             hd == IF IsP(t2, ";") THEN [ok |-> TRUE, i |-> i + 2, why |-> "", forin |-> FALSE, init |-> <<>>]
                   ELSE IF IsK(t2, "var") THEN
                        (LET ds == PVarDecls(T, i + 3, TRUE, <<>>)
                         IN  IF ~ds.ok THEN [ok |-> FALSE, i |-> ds.i, why |-> ds.why]
                             ELSE IF Len(ds.n) = 1 /\ IsK(Tk(T, ds.i), "in")
                                  THEN [ok |-> TRUE, i |-> ds.i + 1, why |-> "", forin |-> TRUE, init |-> <<[k |-> "var", decls |-> ds.n]>>]
                             ELSE [ok |-> TRUE, i |-> ds.i, why |-> "", forin |-> FALSE, init |-> <<[k |-> "var", decls |-> ds.n]>>])
                   ELSE (LET e == PExpr(T, i + 2, TRUE)
                         IN  IF ~e.ok THEN [ok |-> FALSE, i |-> e.i, why |-> e.why]
                             ELSE IF IsK(Tk(T, e.i), "in") THEN
                                  (IF TargetWhy(e.n) # "" THEN [ok |-> FALSE, i |-> e.i, why |-> TargetWhy(e.n)]
                                   ELSE [ok |-> TRUE, i |-> e.i + 1, why |-> "", forin |-> TRUE, init |-> <<e.n>>])
                             ELSE [ok |-> TRUE, i |-> e.i, why |-> "", forin |-> FALSE, init |-> <<e.n>>])
         IN  IF ~hd.ok THEN Fail(hd.i, hd.why)
             ELSE IF hd.forin THEN
                 (LET o == PExpr(T, hd.i, FALSE) IN
                  IF ~o.ok THEN o
                  ELSE IF ~IsP(Tk(T, o.i), ")") THEN Fail(o.i, "syntax")
                  ELSE LET b == PStmt(T, o.i + 1, FALSE)
                       IN  IF ~b.ok THEN b ELSE Ok([k |-> "forin", left |-> hd.init[1], obj |-> o.n, body |-> b.n], b.i))
             ELSE IF ~IsP(Tk(T, hd.i), ";") THEN Fail(hd.i, "syntax")
             ELSE LET te == IF IsP(Tk(T, hd.i + 1), ";") THEN Ok(BadNode, hd.i + 1) ELSE PExpr(T, hd.i + 1, FALSE) IN
                  IF ~te.ok THEN te
                  ELSE IF ~IsP(Tk(T, te.i), ";") THEN Fail(te.i, "syntax")
                  ELSE LET up == IF IsP(Tk(T, te.i + 1), ")") THEN Ok(BadNode, te.i + 1) ELSE PExpr(T, te.i + 1, FALSE) IN
                       IF ~up.ok THEN up
                       ELSE IF ~IsP(Tk(T, up.i), ")") THEN Fail(up.i, "syntax")
                       ELSE LET b == PStmt(T, up.i + 1, FALSE)
                            IN  IF ~b.ok THEN b
                                ELSE Ok([k |-> "for", init |-> hd.init,
                                         test |-> IF te.n.k = "bad" THEN <<>> ELSE <<te.n>>,
                                         update |-> IF up.n.k = "bad" THEN <<>> ELSE <<up.n>>, body |-> b.n], b.i)

PTry(T, i) ==                \* 12.14 at `try`
    LET b == PBlock(T, i + 1) IN
    IF ~b.ok THEN b
    ELSE LET hasH == IsK(Tk(T, b.i), "catch")
             pm == Tk(T, b.i + 2)
             h == IF ~hasH THEN Ok(<<>>, b.i)
                  ELSE IF ~IsP(Tk(T, b.i + 1), "(") THEN Fail(b.i + 1, "syntax")
                  ELSE IF pm.t # "id" THEN Fail(b.i + 2, "syntax")
                  ELSE IF ~IsP(Tk(T, b.i + 3), ")") THEN Fail(b.i + 3, "syntax")
                  ELSE PBlock(T, b.i + 4)
         IN  IF ~h.ok THEN h
             ELSE LET hasF == IsK(Tk(T, h.i), "finally")
                      f == IF hasF THEN PBlock(T, h.i + 1) ELSE Ok(<<>>, h.i)
                  IN  IF ~f.ok THEN f
                      ELSE IF ~hasH /\ ~hasF THEN Fail(h.i, "syntax")
                      ELSE Ok([k |-> "try", block |-> b.n, param |-> IF hasH THEN pm.v ELSE "", handler |-> h.n,
                               hasH |-> hasH, fin |-> f.n, hasF |-> hasF], f.i)

(* 12 statements; top: a SourceElement position (FunctionDeclaration allowed, 14) *)
PStmt(T, i, top) ==
    LET tk == Tk(T, i) IN
    IF IsP(tk, "{") THEN (LET b == PBlock(T, i) IN IF ~b.ok THEN b ELSE Ok([k |-> "block", body |-> b.n], b.i))
    ELSE IF IsP(tk, ";") THEN Ok([k |-> "empty"], i + 1)
    ELSE IF tk.t = "k" /\ tk.v \in {"var", "if", "do", "while", "for", "continue", "break", "return", "with",
                                     "switch", "throw", "try", "debugger", "function"} THEN
        (CASE tk.v = "var" ->
                 (LET ds == PVarDecls(T, i + 1, FALSE, <<>>)
                  IN  IF ~ds.ok THEN ds ELSE Then(PSemiS(T, ds.i), [k |-> "var", decls |-> ds.n]))
           [] tk.v = "if" ->
                 (LET c == ParenExpr(T, i + 1) IN
                  IF ~c.ok THEN c
                  ELSE LET a == PStmt(T, c.i, FALSE) IN
                       IF ~a.ok THEN a
                       ELSE IF IsK(Tk(T, a.i), "else") THEN
                            (LET b == PStmt(T, a.i + 1, FALSE)
                             IN  IF ~b.ok THEN b ELSE Ok([k |-> "if", t |-> c.n, a |-> a.n, b |-> <<b.n>>], b.i))
                       ELSE Ok([k |-> "if", t |-> c.n, a |-> a.n, b |-> <<>>], a.i))
           [] tk.v = "do" ->
                 (LET b == PStmt(T, i + 1, FALSE) IN
                  IF ~b.ok THEN b
                  ELSE IF ~IsK(Tk(T, b.i), "while") THEN Fail(b.i, "syntax")
                  ELSE LET c == ParenExpr(T, b.i + 1) IN
                       IF ~c.ok THEN c
                       ELSE LET nd == [k |-> "dowhile", body |-> b.n, t |-> c.n]
                            IN  \* ES5: do Statement while ( Expression ) ;  with ordinary ASI
                                IF D("DP14_dowhile_asi_without_newline")
                                THEN Ok(nd, IF IsP(Tk(T, c.i), ";") THEN c.i + 1 ELSE c.i)
                                ELSE Then(PSemi(T, c.i), nd))
           [] tk.v = "while" ->
                 (LET c == ParenExpr(T, i + 1) IN
                  IF ~c.ok THEN c
                  ELSE LET b == PStmt(T, c.i, FALSE) IN IF ~b.ok THEN b ELSE Ok([k |-> "while", t |-> c.n, body |-> b.n], b.i))
           [] tk.v = "for" -> PFor(T, i)
           [] tk.v \in {"continue", "break"} ->
                 \* restricted production: no LineTerminator between the keyword and the label
                 (LET nx == Tk(T, i + 1)
                      lab == nx.t = "id" /\ ~nx.nl
                  IN  Then(IF lab THEN PSemiS(T, i + 2) ELSE PSemi(T, i + 1), [k |-> tk.v, l |-> IF lab THEN nx.v ELSE ""]))
           [] tk.v = "return" ->
                 (LET nx == Tk(T, i + 1)
                  IN  IF IsP(nx, ";") \/ IsP(nx, "}") \/ IsEOF(nx) \/ nx.nl
                      THEN Then(PSemiS(T, i + 1), [k |-> "return", e |-> <<>>])
                      ELSE LET e == PExpr(T, i + 1, FALSE)
                           IN  IF ~e.ok THEN e ELSE Then(PSemiS(T, e.i), [k |-> "return", e |-> <<e.n>>]))
           [] tk.v = "with" ->
                 (LET c == ParenExpr(T, i + 1) IN
                  IF ~c.ok THEN c
                  ELSE LET b == PStmt(T, c.i, FALSE) IN IF ~b.ok THEN b ELSE Ok([k |-> "with", o |-> c.n, body |-> b.n], b.i))
           [] tk.v = "switch" ->
                 (LET c == ParenExpr(T, i + 1) IN
                  IF ~c.ok THEN c
                  ELSE IF ~IsP(Tk(T, c.i), "{") THEN Fail(c.i, "syntax")
                  ELSE LET cs == PCases(T, c.i + 1, <<>>, FALSE)
                       IN  IF ~cs.ok THEN cs ELSE Ok([k |-> "switch", d |-> c.n, cases |-> cs.n], cs.i))
           [] tk.v = "throw" ->
                 (IF Tk(T, i + 1).nl THEN Fail(i + 1, "syntax")        \* restricted production
                  ELSE LET e == PExpr(T, i + 1, FALSE)
                       IN  IF ~e.ok THEN e ELSE Then(PSemiS(T, e.i), [k |-> "throw", e |-> e.n]))
           [] tk.v = "try" -> PTry(T, i)
           [] tk.v = "debugger" -> Then(PSemiS(T, i + 1), [k |-> "debugger"])
           [] tk.v = "function" ->
                 \* 12 NOTE: a FunctionDeclaration as a Statement is a widespread extension, not ES5
                 IF top THEN PFunction(T, i, TRUE)
                 ELSE (LET f == PFunction(T, i, TRUE) IN IF f.ok THEN Fail(i, "ext") ELSE f))
    ELSE IF tk.t = "id" /\ IsP(Tk(T, i + 1), ":") THEN
        (LET b == PStmt(T, i + 2, FALSE) IN IF ~b.ok THEN b ELSE Ok([k |-> "label", l |-> tk.v, body |-> b.n], b.i))
    ELSE LET e == PExpr(T, i, FALSE) IN       \* 12.4 (the lookahead restriction { function is the dispatch above)
         IF ~e.ok THEN e
         ELSE IF D("DP13_parenthesised_label") /\ e.n.k = "id" /\ IsP(Tk(T, e.i), ":") THEN
              (LET b == PStmt(T, e.i + 1, FALSE) IN IF ~b.ok THEN b ELSE Ok([k |-> "label", l |-> e.n.n, body |-> b.n], b.i))
         ELSE Then(PSemi(T, e.i), [k |-> "expr", e |-> e.n])

(* 14 Program *)
ParseProgram(T) ==
    LET RECURSIVE Els(_, _)
        Els(j, a) == IF IsEOF(Tk(T, j)) THEN Ok(a, j)
                     ELSE LET s == PStmt(T, j, TRUE) IN IF ~s.ok THEN s ELSE Els(s.i, Append(a, s.n))
    IN  Els(1, <<>>)

-----------------------------------------------------------------------------
(* Early errors on the tree (12.7, 12.8, 12.9, 12.12, 11.1.5, clause 16).    *)
(* ctx = [fn: inside a function body, iter, sw: inside an iteration / switch *)
(* statement of the current function, labels: the current label set as a     *)
(* sequence of [n, it] (it: the label belongs to an iteration statement)]    *)
Ctx0 == [fn |-> FALSE, iter |-> FALSE, sw |-> FALSE, labels |-> <<>>]
CtxFn == [fn |-> TRUE, iter |-> FALSE, sw |-> FALSE, labels |-> <<>>]
HasLabel(ctx, l) == \E j \in 1..Len(ctx.labels) : ctx.labels[j].n = l
HasIterLabel(ctx, l) == \E j \in 1..Len(ctx.labels) : ctx.labels[j].n = l /\ ctx.labels[j].it
IsIterStmt(s) == s.k \in {"for", "forin", "while", "dowhile"}
RECURSIVE LabelTarget(_)
LabelTarget(s) == IF s.k = "label" THEN LabelTarget(s.body) ELSE s      \* the statement a chain of labels ends in

RECURSIVE EOK(_), SOK(_, _)
AllE(es) == \A j \in 1..Len(es) : EOK(es[j])
AllS(ss, ctx) == \A j \in 1..Len(ss) : SOK(ss[j], ctx)
PropsOK(pr) ==     \* 11.1.5: data+accessor, or two getters / two setters, of one name
    \A a, b \in 1..Len(pr) :
        (a < b /\ pr[a].key = pr[b].key) =>
            ~( (pr[a].kind = "value") # (pr[b].kind = "value") \/ (pr[a].kind # "value" /\ pr[a].kind = pr[b].kind) )
EOK(e) ==
    CASE e.k \in {"id", "num", "str", "bool", "null", "this", "re", "hole"} -> TRUE
      [] e.k = "arr" -> AllE(e.el)
      [] e.k = "obj" -> (PropsOK(e.pr) \/ D("DP17_object_literal_duplicate_kinds")) /\ \A j \in 1..Len(e.pr) : EOK(e.pr[j].val)
      [] e.k = "fn" -> AllS(e.body, CtxFn)
      [] e.k \in {"un", "upd"} -> EOK(e.e)
      [] e.k \in {"bin", "seq", "asg"} -> EOK(e.l) /\ EOK(e.r)
      [] e.k = "cond" -> EOK(e.t) /\ EOK(e.a) /\ EOK(e.b)
      [] e.k = "dot" -> EOK(e.o)
      [] e.k = "idx" -> EOK(e.o) /\ EOK(e.p)
      [] e.k \in {"call", "new"} -> EOK(e.f) /\ AllE(e.args)
Loop(ctx) == [ctx EXCEPT !.iter = TRUE]
SOK(s, ctx) ==
    CASE s.k \in {"empty", "debugger"} -> TRUE
      [] s.k = "expr" -> EOK(s.e)
      [] s.k = "var" -> \A j \in 1..Len(s.decls) : AllE(s.decls[j].init)
      [] s.k = "block" -> AllS(s.body, ctx)
      [] s.k = "if" -> EOK(s.t) /\ SOK(s.a, ctx) /\ AllS(s.b, ctx)
      [] s.k = "for" -> /\ (IF s.init # <<>> /\ s.init[1].k = "var" THEN SOK(s.init[1], ctx) ELSE AllE(s.init))
                        /\ AllE(s.test) /\ AllE(s.update) /\ SOK(s.body, Loop(ctx))
      [] s.k = "forin" -> (IF s.left.k = "var" THEN SOK(s.left, ctx) ELSE EOK(s.left)) /\ EOK(s.obj) /\ SOK(s.body, Loop(ctx))
      [] s.k = "while" -> EOK(s.t) /\ SOK(s.body, Loop(ctx))
      [] s.k = "dowhile" -> EOK(s.t) /\ SOK(s.body, Loop(ctx))
      [] s.k = "break" -> IF s.l = "" THEN ctx.iter \/ ctx.sw ELSE HasLabel(ctx, s.l)              \* 12.8
      [] s.k = "continue" -> IF s.l = "" THEN ctx.iter                                             \* 12.7
                             ELSE IF D("DP15_continue_label_not_iteration") THEN HasLabel(ctx, s.l) /\ ctx.iter
                             ELSE HasIterLabel(ctx, s.l)
      [] s.k = "return" -> ctx.fn /\ AllE(s.e)                                                     \* 12.9
      [] s.k = "throw" -> EOK(s.e)
      [] s.k = "with" -> EOK(s.o) /\ SOK(s.body, ctx)
      [] s.k = "switch" -> EOK(s.d) /\ \A j \in 1..Len(s.cases) :
                               AllE(s.cases[j].test) /\ AllS(s.cases[j].body, [ctx EXCEPT !.sw = TRUE])
      [] s.k = "label" ->                                                                          \* 12.12
            ~HasLabel(ctx, s.l)
            /\ SOK(s.body, [ctx EXCEPT !.labels = Append(@, [n |-> s.l, it |-> IsIterStmt(LabelTarget(s.body))])])
      [] s.k = "try" -> AllS(s.block, ctx) /\ AllS(s.handler, ctx) /\ AllS(s.fin, ctx)
      [] s.k = "fdecl" -> AllS(s.body, CtxFn)
EarlyOK(prog) == AllS(prog, Ctx0)

(* accept (with the tree) / reject / skip (outside what ES5 decides) *)
(* otto looks the decoded characters up in the keyword table: an escaped      *)
(* reserved word becomes the keyword / literal token                          *)
EffEk(T) ==
    IF ~D("DP24_escaped_reserved_word_is_keyword") THEN T
    ELSE [i \in 1..Len(T) |-> IF T[i].t = "ek" THEN [t |-> "k", v |-> T[i].v, nl |-> T[i].nl] ELSE T[i]]
Classify(T0) ==
    LET T == EffNL(EffEk(T0))
        r == ParseProgram(T) IN
    IF r.ok THEN (IF EarlyOK(r.n) THEN [c |-> "accept", prog |-> r.n] ELSE [c |-> "reject", prog |-> <<>>])
    ELSE IF r.why \in {"ext", "lex"} THEN [c |-> "skip", prog |-> <<>>]
    ELSE [c |-> "reject", prog |-> <<>>]

-----------------------------------------------------------------------------
(* The unparser: tree -> token sequence with exactly the parentheses the     *)
(* grammar needs.  Levels: 0 Expression, 1 Assignment, 2 Conditional, 3..12  *)
(* binary (BinPrecTab), 13 Unary, 14 Postfix, 15 NewExpression without       *)
(* arguments, 16 CallExpression, 17 MemberExpression (incl. new with         *)
(* arguments and primaries).                                                 *)
RECURSIVE Level(_)
Level(e) ==
    CASE e.k = "seq" -> 0
      [] e.k = "asg" -> 1
      [] e.k = "cond" -> 2
      [] e.k = "bin" -> BinPrecTab[e.op]
      [] e.k = "un" -> 13
      [] e.k = "upd" -> IF e.pre THEN 13 ELSE 14
      [] e.k = "new" -> IF e.pa THEN 17 ELSE 15
      [] e.k = "call" -> 16
      [] e.k \in {"dot", "idx"} -> IF Level(e.o) = 16 THEN 16 ELSE 17
      [] OTHER -> 17
AsgTokOf(op) == IF op = "=" THEN "=" ELSE op \o "="
OpTok(op) == IF op \in {"instanceof", "in", "delete", "void", "typeof"} THEN TK(op) ELSE TP(op)

(* canonical source of literal values *)
NumSrc(v) == NumToStr(v)             \* the domain uses non-negative numbers whose ToString is a DecimalLiteral
HexDigit(x) == IF x < 10 THEN 48 + x ELSE 55 + x
StrSrc(s) ==                         \* double-quoted, everything but plain ASCII as \uXXXX
    LET RECURSIVE Enc(_)
        Enc(j) == IF j > Len(s) THEN <<>>
                  ELSE LET u == s[j]
                       IN  (IF u >= 32 /\ u < 127 /\ u \notin {34, 92} THEN <<u>>
                            ELSE <<92, 117, HexDigit(u \div 4096), HexDigit((u \div 256) % 16), HexDigit((u \div 16) % 16), HexDigit(u % 16)>>)
                           \o Enc(j + 1)
    IN  <<34>> \o Enc(1) \o <<34>>
KeyTok(key) ==                       \* property names are written as string literals
    TStr(StrSrc(key))

Commas(seqs) ==                      \* join token sequences with ","
    LET RECURSIVE J(_)
        J(j) == IF j > Len(seqs) THEN <<>> ELSE (IF j > 1 THEN <<TP(",")>> ELSE <<>>) \o seqs[j] \o J(j + 1)
    IN  J(1)
Flat(seqs) ==
    LET RECURSIVE J(_)
        J(j) == IF j > Len(seqs) THEN <<>> ELSE seqs[j] \o J(j + 1)
    IN  J(1)

(* xp: extra (redundant) parentheses: 0 none, 1 around every expression node, *)
(* 2 around primaries only, 3 around operator nodes only, 4 doubled           *)
ExtraP(e, xp) ==
    CASE xp = 0 -> 0
      [] xp = 1 -> 1
      [] xp = 2 -> IF e.k \in {"id", "num", "str", "bool", "null", "this", "re", "arr", "obj", "fn"} THEN 1 ELSE 0
      [] xp = 3 -> IF e.k \in {"id", "num", "str", "bool", "null", "this", "re", "arr", "obj", "fn"} THEN 0 ELSE 1
      [] xp = 4 -> 2

RECURSIVE TE(_, _, _, _, _), TRaw(_, _, _, _), TS(_, _), TFn(_, _), TStmts(_, _), TFnRest(_, _)
(* e in a position that needs level >= p; ni: inside a NoIn production;      *)
(* ss: at the start of an ExpressionStatement (12.4 lookahead { function)    *)
TE(e, p, ni, ss, xp) ==
    LET need == \/ Level(e) < p
                \/ (ni /\ e.k = "bin" /\ e.op = "in")
                \/ (ss /\ e.k \in {"obj", "fn"})
        np == (IF need THEN 1 ELSE 0) + (IF e.k = "hole" THEN 0 ELSE ExtraP(e, xp))
    IN  IF np = 0 THEN TRaw(e, ni, ss, xp)
        ELSE IF np = 1 THEN <<TP("(")>> \o TRaw(e, FALSE, FALSE, xp) \o <<TP(")")>>
        ELSE IF np = 2 THEN <<TP("("), TP("(")>> \o TRaw(e, FALSE, FALSE, xp) \o <<TP(")"), TP(")")>>
        ELSE <<TP("("), TP("("), TP("(")>> \o TRaw(e, FALSE, FALSE, xp) \o <<TP(")"), TP(")"), TP(")")>>
TArgs(args, xp) == <<TP("(")>> \o Commas([j \in 1..Len(args) |-> TE(args[j], 1, FALSE, FALSE, xp)]) \o <<TP(")")>>
TRaw(e, ni, ss, xp) ==
    CASE e.k = "id" -> <<TI(e.n)>>
      [] e.k = "num" -> <<TNum(NumSrc(e.v))>>
      [] e.k = "str" -> <<TStr(StrSrc(e.s))>>
      [] e.k = "bool" -> <<TK(IF e.b THEN "true" ELSE "false")>>
      [] e.k = "null" -> <<TK("null")>>
      [] e.k = "this" -> <<TK("this")>>
      [] e.k = "re" -> <<TRe(e.body, e.flags)>>
      [] e.k = "hole" -> <<>>
      [] e.k = "arr" ->
            \* an elision needs its comma; a trailing hole needs one more
            LET n == Len(e.el)
                RECURSIVE El(_)
                El(j) == IF j > n THEN <<>>
                         ELSE TE(e.el[j], 1, FALSE, FALSE, xp)
                              \o (IF j < n \/ e.el[j].k = "hole" THEN <<TP(",")>> ELSE <<>>) \o El(j + 1)
            IN  <<TP("[")>> \o El(1) \o <<TP("]")>>
      [] e.k = "obj" ->
            <<TP("{")>> \o Commas([j \in 1..Len(e.pr) |->
                LET pp == e.pr[j] IN
                IF pp.kind = "value" THEN <<KeyTok(pp.key), TP(":")>> \o TE(pp.val, 1, FALSE, FALSE, xp)
                ELSE <<TI(pp.kind), KeyTok(pp.key)>> \o TFnRest(pp.val, xp)]) \o <<TP("}")>>
      [] e.k = "fn" -> TFn(e, xp)
      [] e.k = "un" -> <<OpTok(e.op)>> \o TE(e.e, 13, FALSE, FALSE, xp)
      [] e.k = "upd" -> IF e.pre THEN <<TP(e.op)>> \o TE(e.e, 13, FALSE, FALSE, xp)
                        ELSE TE(e.e, 15, FALSE, ss, xp) \o <<TP(e.op)>>
      [] e.k = "bin" -> LET q == BinPrecTab[e.op]
                        IN  TE(e.l, q, ni, ss, xp) \o <<OpTok(e.op)>> \o TE(e.r, q + 1, ni, FALSE, xp)
      [] e.k = "seq" -> TE(e.l, 0, ni, ss, xp) \o <<TP(",")>> \o TE(e.r, 1, ni, FALSE, xp)
      [] e.k = "cond" -> TE(e.t, 3, ni, ss, xp) \o <<TP("?")>> \o TE(e.a, 1, FALSE, FALSE, xp)
                         \o <<TP(":")>> \o TE(e.b, 1, ni, FALSE, xp)
      [] e.k = "asg" -> TE(e.l, 15, FALSE, ss, xp) \o <<TP(AsgTokOf(e.op))>> \o TE(e.r, 1, ni, FALSE, xp)
      [] e.k = "dot" -> TE(e.o, 16, FALSE, ss, xp) \o <<TP("."), IF e.n \in KeywordNames THEN TK(e.n) ELSE TI(e.n)>>
      [] e.k = "idx" -> TE(e.o, 16, FALSE, ss, xp) \o <<TP("[")>> \o TE(e.p, 0, FALSE, FALSE, xp) \o <<TP("]")>>
      [] e.k = "call" -> TE(e.f, 16, FALSE, ss, xp) \o TArgs(e.args, xp)
      [] e.k = "new" ->
            \* new MemberExpression Arguments: callee at level 17; new NewExpression: level 15 or 17, not a call
            LET lv == Level(e.f)
                p == IF e.pa THEN 17 ELSE IF lv = 16 THEN 18 ELSE 15
            IN  <<TK("new")>> \o TE(e.f, p, FALSE, FALSE, xp) \o (IF e.pa THEN TArgs(e.args, xp) ELSE <<>>)
TFnRest(f, xp) ==            \* ( params ) { body }
    <<TP("(")>> \o Commas([j \in 1..Len(f.params) |-> <<TI(f.params[j])>>]) \o <<TP(")"), TP("{")>>
    \o TStmts(f.body, xp) \o <<TP("}")>>
TFn(f, xp) == <<TK("function")>> \o (IF f.name = "" THEN <<>> ELSE <<TI(f.name)>>) \o TFnRest(f, xp)
TStmts(ss, xp) == Flat([j \in 1..Len(ss) |-> TS(ss[j], xp)])
TVarDecls(ds, ni, xp) ==
    Commas([j \in 1..Len(ds) |-> <<TI(ds[j].n)>> \o
             (IF ds[j].init = <<>> THEN <<>> ELSE <<TP("=")>> \o TE(ds[j].init[1], 1, ni, FALSE, xp))])
OptE(o, p, ni, xp) == IF o = <<>> THEN <<>> ELSE TE(o[1], p, ni, FALSE, xp)
Paren(e, xp) == <<TP("(")>> \o TE(e, 0, FALSE, FALSE, xp) \o <<TP(")")>>
SEMI == <<TP(";")>>
TS(s, xp) ==
    CASE s.k = "empty" -> SEMI
      [] s.k = "debugger" -> <<TK("debugger")>> \o SEMI
      [] s.k = "expr" -> TE(s.e, 0, FALSE, TRUE, xp) \o SEMI
      [] s.k = "var" -> <<TK("var")>> \o TVarDecls(s.decls, FALSE, xp) \o SEMI
      [] s.k = "block" -> <<TP("{")>> \o TStmts(s.body, xp) \o <<TP("}")>>
      [] s.k = "if" -> <<TK("if")>> \o Paren(s.t, xp) \o TS(s.a, xp)
                       \o (IF s.b = <<>> THEN <<>> ELSE <<TK("else")>> \o TS(s.b[1], xp))
      [] s.k = "for" ->
            <<TK("for"), TP("(")>>
            \o (IF s.init = <<>> THEN <<>>
                ELSE IF s.init[1].k = "var" THEN <<TK("var")>> \o TVarDecls(s.init[1].decls, TRUE, xp)
                ELSE TE(s.init[1], 0, TRUE, FALSE, xp))
            \o SEMI \o OptE(s.test, 0, FALSE, xp) \o SEMI \o OptE(s.update, 0, FALSE, xp) \o <<TP(")")>> \o TS(s.body, xp)
      [] s.k = "forin" ->
            <<TK("for"), TP("(")>>
            \o (IF s.left.k = "var" THEN <<TK("var")>> \o TVarDecls(s.left.decls, TRUE, xp)
                ELSE TE(s.left, 15, TRUE, FALSE, xp))
            \o <<TK("in")>> \o TE(s.obj, 0, FALSE, FALSE, xp) \o <<TP(")")>> \o TS(s.body, xp)
      [] s.k = "while" -> <<TK("while")>> \o Paren(s.t, xp) \o TS(s.body, xp)
      [] s.k = "dowhile" -> <<TK("do")>> \o TS(s.body, xp) \o <<TK("while")>> \o Paren(s.t, xp) \o SEMI
      [] s.k \in {"break", "continue"} -> <<TK(s.k)>> \o (IF s.l = "" THEN <<>> ELSE <<TI(s.l)>>) \o SEMI
      [] s.k = "return" -> <<TK("return")>> \o OptE(s.e, 0, FALSE, xp) \o SEMI
      [] s.k = "throw" -> <<TK("throw")>> \o TE(s.e, 0, FALSE, FALSE, xp) \o SEMI
      [] s.k = "with" -> <<TK("with")>> \o Paren(s.o, xp) \o TS(s.body, xp)
      [] s.k = "switch" ->
            <<TK("switch")>> \o Paren(s.d, xp) \o <<TP("{")>>
            \o Flat([j \in 1..Len(s.cases) |->
                    (IF s.cases[j].test = <<>> THEN <<TK("default")>>
                     ELSE <<TK("case")>> \o TE(s.cases[j].test[1], 0, FALSE, FALSE, xp))
                    \o <<TP(":")>> \o TStmts(s.cases[j].body, xp)])
            \o <<TP("}")>>
      [] s.k = "label" -> <<TI(s.l), TP(":")>> \o TS(s.body, xp)
      [] s.k = "try" ->
            <<TK("try"), TP("{")>> \o TStmts(s.block, xp) \o <<TP("}")>>
            \o (IF s.hasH THEN <<TK("catch"), TP("("), TI(s.param), TP(")"), TP("{")>> \o TStmts(s.handler, xp) \o <<TP("}")>> ELSE <<>>)
            \o (IF s.hasF THEN <<TK("finally"), TP("{")>> \o TStmts(s.fin, xp) \o <<TP("}")>> ELSE <<>>)
      [] s.k = "fdecl" -> TFn(s, xp)
ToksProgram(prog, xp) == TStmts(prog, xp)

-----------------------------------------------------------------------------
(* 7.2 white space, 7.3 line terminators, 7.4 comments: separators between   *)
(* tokens, named by a TLC string; Src renders tokens + separators to source  *)
(* text (code units), WithNL derives the "LineTerminator precedes" flags.    *)
SepText ==
    ("" :> <<>>) @@ ("sp" :> <<32>>) @@ ("tab" :> <<9>>) @@ ("vt" :> <<11>>) @@ ("ff" :> <<12>>)
    @@ ("nbsp" :> <<160>>) @@ ("bom" :> <<65279>>) @@ ("zs" :> <<8195>>) @@ ("zs2" :> <<12288>>) @@ ("zs3" :> <<5760>>)
    @@ ("sp2" :> <<32, 9, 32>>)
    @@ ("cm" :> <<47, 42, 99, 42, 47>>)                        \* /*c*/
    @@ ("scm" :> <<32, 47, 42, 99, 42, 47>>)                   \*  /*c*/
    @@ ("cm2" :> <<32, 47, 42, 47, 47, 42, 32, 42, 47, 32>>)   \*  /*//* */
    @@ ("lf" :> <<10>>) @@ ("cr" :> <<13>>) @@ ("crlf" :> <<13, 10>>) @@ ("ls" :> <<8232>>) @@ ("ps" :> <<8233>>)
    @@ ("cl" :> <<32, 47, 47, 99, 10>>)                        \*  //c LF
    @@ ("cl2" :> <<32, 47, 47, 42, 47, 13>>)                   \*  //*/ CR
    @@ ("cn" :> <<32, 47, 42, 10, 42, 47>>)                    \*  /* LF */   (7.4: counts as a LineTerminator)
    @@ ("cn2" :> <<32, 47, 42, 97, 8233, 42, 47, 32>>)         \*  /*a PS */
    @@ ("cle" :> <<32, 47, 47, 99>>)                           \*  //c   (only as the trailing separator)
NonNLSeps == <<"sp", "", "tab", "cm", "vt", "nbsp", "ff", "zs", "bom", "cm2", "sp2", "zs2", "zs3">>
NLSeps == <<"lf", "cr", "crlf", "ls", "ps", "cl", "cn", "cl2", "cn2">>
SepIsNL(s) ==
    \/ s \in {"lf", "cr", "crlf", "ls", "ps", "cl", "cl2"}
    \/ (s \in {"cn", "cn2"} /\ ~D("DP03_multiline_comment_no_line_terminator"))

SafePunct == {"(", ")", "[", "]", "{", "}", ";", ",", "?", ":", "~"}
WordLike(tk) == tk.t \in {"id", "k", "num"}
(* sufficient condition for two adjacent tokens not to fuse (7: longest match) *)
NoSepOK(a, b) ==
    \/ a.t = "str" \/ b.t = "str"
    \/ IsPIn(a, SafePunct) \/ IsPIn(b, SafePunct)
    \/ /\ a.t # "re" /\ b.t # "re"
       /\ WordLike(a) # WordLike(b)
       /\ ~(a.t = "num" /\ IsP(b, "."))
       /\ ~(IsP(a, ".") /\ b.t = "num")
FixSep(T, i, s) ==
    IF i = 1 \/ i > Len(T) THEN s
    ELSE IF s = "" /\ ~NoSepOK(T[i - 1], T[i]) THEN "sp"
    ELSE IF s = "cm" /\ IsP(T[i - 1], "/") THEN "scm"
    ELSE s
FixSeps(T, seps) == [i \in 1..(Len(T) + 1) |-> FixSep(T, i, seps[i])]
WithNL(T, seps) == [i \in 1..Len(T) |-> [T[i] EXCEPT !.nl = (i > 1 /\ SepIsNL(seps[i]))]]
Src(T, seps) ==
    LET RECURSIVE J(_)
        J(i) == IF i > Len(T) THEN SepText[seps[i]] ELSE SepText[seps[i]] \o TokText(T[i]) \o J(i + 1)
    IN  J(1)
=============================================================================
