-------------------------------- MODULE C13 ---------------------------------
(* Generator for property C13: Math (15.8), isNaN / isFinite (15.1.2.4-5),   *)
(* the URI functions (15.1.3) and escape / unescape (B.2).  Each state is    *)
(* one case; the invariant Emit prints its JavaScript text and the outcome   *)
(* the specification (MathSpec / URISpec with Dev = {}) demands, and the     *)
(* outcome under the open deviations when that differs.                      *)
(*                                                                           *)
(* A family is a list of SHAPES; a shape is a list of slots, a slot a list   *)
(* of alternatives; the cases of a shape are all choices of one alternative  *)
(* per slot, addressed by an index, so no product set is ever built.  The    *)
(* first slot holds the function(s), the others argument values (Math) or    *)
(* string pieces that are concatenated (URI).                                *)
EXTENDS MathConst, Json, TLC, SequencesExt, Randomization
CONSTANTS OpenDev, Fams, Size, NSel
VARIABLES blk, cs

MS == INSTANCE MathSpec WITH Dev <- {}, KK <- MathK
ML == INSTANCE MathSpec WITH Dev <- OpenDev, KK <- MathK
US == INSTANCE URISpec WITH Dev <- {}
UL == INSTANCE URISpec WITH Dev <- OpenDev

Thorough == Size > 0

-----------------------------------------------------------------------------
(* value sets *)
Pw2(k0) == Canon(FALSE, <<1>>, k0)
Fr(n, k0) == Canon(FALSE, BnFromInt(n), -k0)                 \* n / 2^k
Big(bn, e) == Canon(FALSE, bn, e)
B53 == BnShl(<<1>>, 53)
B52 == BnShl(<<1>>, 52)

NumsPos == <<I(1), Fr(1, 1), Fr(3, 1), Fr(5, 1), Fr(7, 1), I(2), I(3), I(4), I(9), I(10), I(16), Fr(1, 2), Fr(1, 3),
             Big(BnSub(B53, <<1>>), -54),                     \* 0.49999999999999994
             Big(BnAdd(B52, <<1>>), -53),                     \* 0.5000000000000001
             Big(BnSub(B53, <<1>>), -53),                     \* 0.9999999999999999
             Big(BnAdd(B52, <<1>>), -52),                     \* 1.0000000000000002
             DecToNum(FALSE, <<4>>, -1),                      \* 0.4
             NumDiv(I(1), I(3)),
             Big(BnAdd(B52, <<1>>), 0),                       \* 2^52 + 1
             Big(BnAdd(B52, <<1>>), -1),                      \* 2^51 + 0.5
             Big(BnSub(B53, <<1>>), 0),                       \* 2^53 - 1
             Big(BnSub(B53, <<1>>), -1),                      \* 2^52 - 0.5
             Pw2(53), Pw2(31), Pw2(32), Pw2(-30), Pw2(-40), Pw2(-1022), Pw2(1023),
             MS!MaxD, MS!MinD, MS!HalfPi, MS!ConstPI, MS!QuartPi, MS!ConstE,
             I(709), I(710), I(745), I(746), I(100), I(1024), I(5), I(7), Fr(13, 3), Fr(1, 10)>>
(* thorough tier: more magnitudes (squares, cubes, powers of two around the exponent limits, decimal fractions) *)
NumsMore == IF ~Thorough THEN <<>>
            ELSE <<I(6), I(8), I(11), I(12), I(13), I(15), I(17), I(25), I(27), I(32), I(49), I(64), I(81), I(255), I(256), I(1000),
                   I(65536), I(708), Fr(3, 2), Fr(5, 2), Fr(3, 3), Fr(1419, 1), Fr(1, 4), Fr(1, 20), Fr(1, 26), Fr(1, 27),
                   Pw2(-1073), Pw2(-1023), Pw2(52), Pw2(54), Pw2(63), Pw2(64), Pw2(100), Pw2(-100), Pw2(511), Pw2(512), Pw2(-537), Pw2(-538),
                   Pw2(1000), Pw2(-1000), Pw2(1001), Big(<<3>>, 1022), Big(<<3>>, -1074),
                   DecToNum(FALSE, <<1>>, 21), DecToNum(FALSE, <<1>>, -7), DecToNum(FALSE, <<1>>, -1), DecToNum(FALSE, <<2>>, -1),
                   DecToNum(FALSE, <<3>>, -1), DecToNum(FALSE, <<1>>, 308), DecToNum(FALSE, <<1>>, -308), DecToNum(FALSE, <<1>>, 300),
                   DecToNum(FALSE, <<15>>, -1), MS!ThreeQuartPi, MS!SixthPi, MS!ConstLN2, MS!ConstSQRT2, MS!ConstSQRT1_2,
                   NumMul(MS!ConstPI, I(2)), NumMul(MS!ConstPI, I(1000))>>
NumsAll == NumsPos \o NumsMore
NumSeq == <<NaN, I(0), NZero, PInf, NInf>> \o NumsAll \o [i \in 1..Len(NumsAll) |-> NumNeg(NumsAll[i])]
NumVals == [i \in 1..Len(NumSeq) |-> NumV(NumSeq[i])]

RetP(v) == [k |-> "ret", v |-> v]
Cobj(id, vo, ts) == [t |-> "cobj", id |-> id, vo |-> vo, ts |-> ts]
O1 == Cobj(1, RetP(IntV(7)), RetP(StrV(<<55>>)))
O2 == Cobj(2, [k |-> "inherit"], [k |-> "inherit"])
O3 == Cobj(3, [k |-> "retobj"], RetP(StrV(<<50, 48>>)))
O4 == Cobj(4, [k |-> "retobj"], [k |-> "retobj"])
O5 == Cobj(5, [k |-> "throw"], RetP(StrV(<<120>>)))
O6 == Cobj(6, RetP(StrV(<<49, 48>>)), [k |-> "throw"])
O7 == Cobj(7, [k |-> "noncallable"], RetP(BoolV(TRUE)))
O8 == Cobj(8, RetP(Null), RetP(Undef))
O9 == Cobj(9, RetP(NumV(NaN)), RetP(StrV(<<37, 52, 49>>)))          \* valueOf -> NaN, toString -> "%41"
Objs == <<O1, O2, O3, O4, O5, O6, O7, O8, O9>>
StrVals == [i \in 1..Len(TestStrings) |-> StrV(TestStrings[i])]
OtherVals == <<Undef, Null, BoolV(TRUE), BoolV(FALSE)>>
AllVals == NumVals \o OtherVals \o StrVals \o Objs

MMVals == <<NumV(NaN), IntV(0), NumV(NZero), IntV(1), IntV(-1), NumV(PInf), NumV(NInf), NumV(Fr(5, 1)),
            Undef, Null, StrV(<<49, 48>>), StrV(<<97>>), O1, O5, O3>>
MMNums == [i \in 1..20 |-> NumVals[i]] \o [i \in 1..12 |-> NumV(NumNeg(NumsPos[i]))]
          \o <<NumV(MS!MaxD), NumV(NumNeg(MS!MaxD)), NumV(MS!MinD), NumV(NumNeg(MS!MinD))>>
OrdVals == <<NumV(NaN), IntV(1), Undef, O1, O5, O9, StrV(<<50>>)>>

MF(f) == [f |-> f]
FnSlot(fs) == [i \in 1..Len(fs) |-> MF(fs[i])]
Fns1Seq == <<"abs", "acos", "asin", "atan", "ceil", "cos", "exp", "floor", "log", "round", "sin", "sqrt", "tan">>
ConstNames == <<"E", "LN10", "LN2", "LOG2E", "LOG10E", "PI", "SQRT1_2", "SQRT2">>

MathShapes ==
    << <<FnSlot(Fns1Seq), AllVals>>,                                   \* every unary function on every value
       <<FnSlot(Fns1Seq)>>,                                            \* no argument
       <<FnSlot(Fns1Seq), OrdVals, OrdVals>>,                          \* a surplus argument is not converted
       <<FnSlot(<<"pow", "atan2">>), NumVals, NumVals>>,              \* all pairs of numbers
       <<FnSlot(<<"pow", "atan2">>), OrdVals, OrdVals>>,              \* order of conversion
       <<FnSlot(<<"pow", "atan2">>), OrdVals>>, <<FnSlot(<<"pow", "atan2">>)>>,
       <<FnSlot(<<"pow", "atan2">>), OrdVals, OrdVals, OrdVals>>,
       <<FnSlot(<<"max", "min">>)>>, <<FnSlot(<<"max", "min">>), MMVals>>,
       <<FnSlot(<<"max", "min">>), MMVals, MMVals>>, <<FnSlot(<<"max", "min">>), MMVals, MMVals, MMVals>>,
       <<FnSlot(<<"max", "min">>), MMNums, MMNums>> >>
GnumShapes ==
    << <<FnSlot(<<"isNaN", "isFinite">>), AllVals>>, <<FnSlot(<<"isNaN", "isFinite">>)>>,
       <<FnSlot(<<"isNaN", "isFinite">>), OrdVals, OrdVals>> >>
ConstShapes == << <<FnSlot(ConstNames)>> >>

(* family "rep": the same NUMBER reaches a function in different internal representations.  An       *)
(* implementation may keep the result of a bitwise operator as a 32-bit integer, the result of >>> as *)
(* an unsigned one, a product as a double; 15.8.2 / 15.1.2.4-5 see only the Number value.  A carrier  *)
(* is an expression around the literal; the argument the function must see is computed here (9.5,    *)
(* 9.6), so the case is judged by the same CallMath / CallGlobalNum as the literal cases.             *)
Carriers == <<"or0", "shr0", "notnot", "shl0", "mul1", "neg0">>
RepInts == <<I(0), I(1), I(-1), I(7), I(-7), I(1073741824), I(-1073741824), Canon(FALSE, BnFromInt(2147483647), 0),
             NumNeg(Pw2(31)), NumNeg(Canon(FALSE, BnFromInt(2147483647), 0)), Pw2(31), Canon(FALSE, BnSub(BnShl(<<1>>, 32), <<1>>), 0),
             NumNeg(Canon(FALSE, BnSub(BnShl(<<1>>, 32), <<1>>), 0)), Fr(5, 1), NumNeg(Fr(5, 1)), NZero>>
Carried(how, n) ==
    CASE how = "or0" -> ToInt32N(n) [] how = "notnot" -> ToInt32N(n) [] how = "shl0" -> ToInt32N(n)
      [] how = "shr0" -> ToUint32N(n)
      [] how = "mul1" -> n
      [] how = "neg0" -> IF n = I(0) THEN NZero ELSE IF n = NZero THEN I(0) ELSE NumNeg(n)        \* -(n)
CarSlot == [i \in 1..Len(Carriers) |-> [car |-> Carriers[i]]]
RepVals == [i \in 1..Len(RepInts) |-> NumV(RepInts[i])]
RepShapes ==
    << <<FnSlot(Fns1Seq \o <<"isNaN", "isFinite">>), CarSlot, RepVals>>,
       <<FnSlot(<<"pow", "atan2", "max", "min">>), CarSlot, RepVals, RepVals>> >>
RandomShapes == << <<FnSlot(<<"random">>)>> >>

-----------------------------------------------------------------------------
(* string pieces *)
Pct(b) == US!PctByte(b)
HexLo(n) == IF n < 10 THEN 48 + n ELSE 87 + n
PctLo(b) == <<37, HexLo(b \div 16), HexLo(b % 16)>>
PctSeq(bs) == [i \in 1..Len(bs) |-> Pct(bs[i])]
IntSeq(a, b) == [i \in 1..(b - a + 1) |-> a + i - 1]
Units(us) == [i \in 1..Len(us) |-> <<us[i]>>]

UF(f, g, src) == [f |-> f, g |-> g, src |-> src]

Smile == <<55357, 56832>>                                       \* U+1F600
EncSyms == <<<<97>>, <<45>>, <<59>>, <<35>>, <<37>>, <<32>>, <<64>>, <<233>>, <<20013>>, Smile>>
EncSymsT == EncSyms \o <<<<90>>, <<126>>, <<43>>, <<2047>>, <<2048>>, <<65535>>, <<56319, 57343>>>>
EncFns == <<UF("encodeURI", "", "lit"), UF("encodeURIComponent", "", "lit"),
            UF("encodeURI", "decodeURI", "lit"), UF("encodeURIComponent", "decodeURIComponent", "lit"),
            UF("encodeURI", "decodeURIComponent", "lit"), UF("encodeURIComponent", "decodeURI", "lit")>>
EscSyms == <<<<97>>, <<45>>, <<59>>, <<35>>, <<37>>, <<32>>, <<42>>, <<233>>, <<20013>>, <<255>>, <<256>>, <<47>>>>
EscFns == <<UF("escape", "", "lit"), UF("escape", "unescape", "lit")>>
EscDevSyms == <<<<64>>, Smile, <<97>>, <<233>>>>

RECURSIVE Rep(_, _)
Rep(slot, n) == IF n = 0 THEN <<>> ELSE <<slot>> \o Rep(slot, n - 1)
UpTo(fns, slot, n) == [i \in 1..(n + 1) |-> <<fns>> \o Rep(slot, i - 1)]     \* lengths 0..n

EncShapes == UpTo(EncFns, IF Thorough THEN EncSymsT ELSE EncSyms, IF Thorough THEN 4 ELSE 3)
             \o UpTo(EscFns, EscSyms, IF Thorough THEN 4 ELSE 3)
             \o UpTo(EscFns, EscDevSyms, 2)

(* every code unit on its own (the exact unescaped sets), and pairs *)
SingleUnits == IF Thorough THEN Units(IntSeq(0, 55295) \o IntSeq(57344, 65535))
               ELSE Units(IntSeq(0, 255) \o <<256, 2047, 2048, 4095, 4096, 8232, 55295, 57344, 65533, 65534, 65535>>)
SinglePairs == <<<<55296, 56320>>, <<56319, 57343>>, Smile, <<55296, 57343>>, <<56319, 56320>>>>
SingleFns == <<UF("encodeURI", "", "lit"), UF("encodeURIComponent", "", "lit"), UF("escape", "", "lit"),
               UF("encodeURI", "decodeURI", "lit"), UF("encodeURIComponent", "decodeURIComponent", "lit"), UF("escape", "unescape", "lit")>>
SingleShapes == << <<SingleFns, SingleUnits \o SinglePairs>> >>

(* lone surrogates: a small family, also with the argument produced by String.fromCharCode *)
LoneSyms == <<<<97>>, <<55357>>, <<56832>>, <<233>>>>
AllSix == <<"encodeURI", "encodeURIComponent", "decodeURI", "decodeURIComponent", "escape", "unescape">>
LoneFns == [i \in 1..6 |-> UF(AllSix[i], "", "lit")] \o [i \in 1..6 |-> UF(AllSix[i], "", "fcc")]
           \o <<UF("encodeURIComponent", "decodeURIComponent", "lit"), UF("encodeURIComponent", "decodeURIComponent", "fcc"),
                UF("escape", "unescape", "lit"), UF("escape", "unescape", "fcc")>>
LoneShapes == << <<LoneFns, LoneSyms>>, <<LoneFns, LoneSyms, LoneSyms>>, <<LoneFns, LoneSyms, LoneSyms, LoneSyms>> >>

(* decoding: sequences of percent escapes over boundary octets, and literals *)
DecBytes == <<0, 35, 36, 37, 43, 47, 59, 65, 97, 127, 128, 143, 144, 159, 160, 169, 191, 192, 193, 194, 195, 223,
              224, 228, 237, 239, 240, 244, 245, 247, 248, 255>>
DecPct == PctSeq(DecBytes)
DecLits == <<<<97>>, <<37>>, <<233>>, <<43>>, <<37, 52>>, <<37, 71, 48>>, <<37, 52, 103>>, PctLo(195), PctLo(169), PctLo(59), <<37, 50, 102>>>>
DecAll == DecPct \o DecLits
DecLeads == PctSeq(<<192, 193, 194, 195, 223, 224, 228, 237, 239, 240, 244, 245, 247, 248, 255>>)
DecLead4 == PctSeq(<<240, 244, 245, 247>>)
DecCont == PctSeq(<<128, 143, 144, 159, 160, 191, 194>>) \o <<<<97>>>>
Zhong == Pct(228) \o Pct(184) \o Pct(173)                       \* U+4E2D
SmilePct == Pct(240) \o Pct(159) \o Pct(152) \o Pct(128)
DecFns == <<UF("decodeURI", "", "lit"), UF("decodeURIComponent", "", "lit")>>
AnyPct == PctSeq(IntSeq(0, 255))
DecShapes ==
    << <<DecFns>>, <<DecFns, DecAll>>, <<DecFns, DecAll, DecAll>>, <<DecFns, DecLeads, DecPct, DecPct>>,
       <<DecFns, DecLead4, DecCont, DecCont, DecCont>>,
       <<DecFns, <<Zhong, SmilePct>>, DecAll>>, <<DecFns, DecAll, <<Zhong, SmilePct>>>> >>
    \o (IF Thorough
        THEN << <<DecFns, AnyPct, AnyPct>>, <<DecFns, DecAll, DecAll, DecAll>>,
                <<DecFns, PctSeq(IntSeq(224, 239)), PctSeq(IntSeq(126, 193)), PctSeq(IntSeq(126, 193))>>,
                <<DecFns, PctSeq(IntSeq(240, 248)), PctSeq(<<127, 128, 143, 144, 159, 160, 191, 192>>),
                  PctSeq(<<127, 128, 191, 192>>) \o <<<<97>>>>, PctSeq(<<127, 128, 191, 192>>) \o <<<<97>>>> >> >>
        ELSE <<>>)

(* unescape *)
UT == <<Pct(65), PctLo(233), Pct(233), Pct(0), Pct(255), <<37, 117, 48, 48, 52, 49>>, <<37, 117, 48, 48, 101, 57>>,
        <<37, 117, 52, 69, 50, 68>>, <<37, 117, 70, 70, 70, 70>>, <<37, 117, 48, 48, 52>>, <<37, 117, 48, 48, 103, 49>>,
        <<37, 85, 48, 48, 52, 49>>, <<37>>, <<37, 52>>, <<37, 103, 49>>, <<97>>, <<117>>, <<48>>, Pct(37), <<37, 117>>>>
UD == <<<<233>>, <<20013>>, Smile, <<37, 117, 68, 56, 51, 68>>, <<37, 117, 68, 69, 48, 48>>, <<37, 117, 100, 56, 48, 48>>>>
UnFns == <<UF("unescape", "", "lit")>>
UnShapes == << <<UnFns>>, <<UnFns, UT>>, <<UnFns, UT, UT>>, <<UnFns, UT, UT, UT>>, <<UnFns, UD>>, <<UnFns, UD, UT \o UD>>, <<UnFns, UT, UD>> >>
            \o (IF Thorough THEN << <<UnFns, UT, UT, UT, UT>> >> ELSE <<>>)

(* arguments that are not strings: step 1 is ToString *)
ArgVals == <<Undef, Null, BoolV(TRUE), IntV(12), NumV(Fr(3, 1)), NumV(NaN), NumV(NZero), NumV(DecToNum(FALSE, <<1>>, 21)),
             O1, O2, O5, O6, O9>>
ArgFns == [i \in 1..6 |-> UF(AllSix[i], "", "arg")]
ArgShapes == << <<ArgFns>>, <<ArgFns, ArgVals>> >>

(* every one-character mutation of a valid encoding *)
MutSyms == <<<<97>>, <<59>>, <<37>>, <<233>>, <<20013>>, Smile>>
MutRepl == <<<<>>, <<37>>, <<48>>, <<56>>, <<67>>, <<70>>, <<71>>, <<97>>, <<233>>>>          \* <<>> = deletion
MutPos == Units(IntSeq(1, IF Thorough THEN 36 ELSE 24))
MutShapes == << <<DecFns, MutPos, MutRepl, MutSyms>>, <<DecFns, MutPos, MutRepl, MutSyms, MutSyms>> >>
             \o (IF Thorough THEN << <<DecFns, MutPos, MutRepl, MutSyms, MutSyms, MutSyms>> >> ELSE <<>>)

-----------------------------------------------------------------------------
ShapesOf(fam) ==
    CASE fam = "math" -> MathShapes [] fam = "gnum" -> GnumShapes [] fam = "const" -> ConstShapes [] fam = "random" -> RandomShapes
      [] fam = "enc" -> EncShapes [] fam = "single" -> SingleShapes [] fam = "lone" -> LoneShapes [] fam = "dec" -> DecShapes
      [] fam = "unesc" -> UnShapes [] fam = "args" -> ArgShapes [] fam = "mut" -> MutShapes [] fam = "rep" -> RepShapes

RECURSIVE ProdLen(_, _)
ProdLen(sh, i) == IF i > Len(sh) THEN 1 ELSE Len(sh[i]) * ProdLen(sh, i + 1)
RECURSIVE Pick(_, _, _)
Pick(sh, i, idx) == IF i > Len(sh) THEN <<>> ELSE <<sh[i][(idx % Len(sh[i])) + 1]>> \o Pick(sh, i + 1, idx \div Len(sh[i]))
RECURSIVE Flat(_, _)
Flat(ps, i) == IF i > Len(ps) THEN <<>> ELSE ps[i] \o Flat(ps, i + 1)

(* the case a choice denotes *)
MkCase(fam, ch) ==
    CASE fam \in {"math", "gnum", "const", "random"} -> [fam |-> fam, f |-> ch[1].f, args |-> SubSeq(ch, 2, Len(ch))]
      [] fam = "rep" -> [fam |-> IF ch[1].f \in {"isNaN", "isFinite"} THEN "gnumc" ELSE "mathc", f |-> ch[1].f, car |-> ch[2].car,
                         raw |-> SubSeq(ch, 3, Len(ch)),
                         args |-> [i \in 1..(Len(ch) - 2) |-> NumV(Carried(ch[2].car, ch[i + 2].n))]]
      [] fam = "args" -> [fam |-> "uri", f |-> ch[1].f, g |-> ch[1].g, src |-> "arg", args |-> SubSeq(ch, 2, Len(ch))]
      [] fam = "mut" ->
            LET s0 == Flat(SubSeq(ch, 4, Len(ch)), 1)
                e  == US!Encode(s0, "comp", <<>>).v.s
                p  == ch[2][1]
                m  == IF p > Len(e) THEN e ELSE SubSeq(e, 1, p - 1) \o ch[3] \o SubSeq(e, p + 1, Len(e))
            IN  [fam |-> "uri", f |-> ch[1].f, g |-> ch[1].g, src |-> "lit", args |-> <<StrV(m)>>]
      [] OTHER -> [fam |-> "uri", f |-> ch[1].f, g |-> ch[1].g, src |-> ch[1].src, args |-> <<StrV(Flat(SubSeq(ch, 2, Len(ch)), 1))>>]

-----------------------------------------------------------------------------
(* JavaScript text *)
Lit(v) == [lit |-> v]
RECURSIVE ArgsJs(_, _)
ArgsJs(args, i) == IF i > Len(args) THEN <<>>
                   ELSE (IF i > 1 THEN <<",">> ELSE <<>>) \o <<Lit(args[i])>> \o ArgsJs(args, i + 1)
RECURSIVE UnitsJs(_, _)
UnitsJs(s, i) == IF i > Len(s) THEN <<>> ELSE (IF i > 1 THEN <<",">> ELSE <<>>) \o <<ToString(s[i])>> \o UnitsJs(s, i + 1)

CarJs(how, v) ==
    CASE how = "or0" -> <<"(", Lit(v), "|0)">> [] how = "shr0" -> <<"(", Lit(v), ">>>0)">> [] how = "notnot" -> <<"(~~", Lit(v), ")">>
      [] how = "shl0" -> <<"(", Lit(v), "<<0)">> [] how = "mul1" -> <<"(", Lit(v), "*1)">> [] how = "neg0" -> <<"(-(", Lit(v), "))">>
RECURSIVE CarArgsJs(_, _, _)
CarArgsJs(how, raw, i) == IF i > Len(raw) THEN <<>>
                          ELSE (IF i > 1 THEN <<",">> ELSE <<>>) \o CarJs(how, raw[i]) \o CarArgsJs(how, raw, i + 1)

Out(thr, v, log) == [thr |-> thr, v |-> v, log |-> log]
Unrep == [t |-> "unrepresentable"]

MathJs(c, rs) ==
    LET call == <<"Math." \o c.f \o "(">> \o (IF c.fam = "mathc" THEN CarArgsJs(c.car, c.raw, 1) ELSE ArgsJs(c.args, 1)) \o <<")">>
    IN  IF rs.thr = "" /\ rs.cls.k = "range"
        THEN <<"BETWEEN(">> \o call \o <<",", Lit(NumV(rs.cls.lo)), ",", Lit(NumV(rs.cls.hi)), ")">>
        ELSE call
(* the outcome of the text chosen for the strict result rs when the call behaves as r *)
MathOut(rs, r) ==
    IF r.thr # "" THEN Out(r.thr, r.v, r.log)
    ELSE IF rs.thr = "" /\ rs.cls.k = "range"
    THEN (IF r.cls.k = "range" THEN Out("", IF r.cls = rs.cls THEN BoolV(TRUE) ELSE Unrep, r.log)
          ELSE Out("", IF MS!InClass(r.cls.n, rs.cls) THEN BoolV(TRUE) ELSE NumV(r.cls.n), r.log))
    ELSE Out("", IF r.cls.k = "exact" THEN NumV(r.cls.n) ELSE Unrep, r.log)

UriJs(c) ==
    LET arg == IF c.src = "fcc" THEN <<"String.fromCharCode(">> \o UnitsJs(c.args[1].s, 1) \o <<")">> ELSE ArgsJs(c.args, 1)
        inner == <<c.f \o "(">> \o arg \o <<")">>
    IN  IF c.g = "" THEN inner ELSE <<c.g \o "(">> \o inner \o <<")">>
UriSrc(c) == IF c.src = "fcc" THEN "fcc" ELSE "lit"

(* the specification's result for a case: strict (dv = "S") or under the open deviations ("L") *)
Res(c, dv) ==
    CASE c.fam \in {"math", "mathc"} -> IF dv = "S" THEN MS!CallMath(c.f, c.args, <<>>) ELSE ML!CallMath(c.f, c.args, <<>>)
      [] c.fam \in {"gnum", "gnumc"} -> IF dv = "S" THEN MS!CallGlobalNum(c.f, c.args, <<>>) ELSE ML!CallGlobalNum(c.f, c.args, <<>>)
      [] c.fam = "uri" ->
            (IF dv = "S" THEN (IF c.g = "" THEN US!CallUri(c.f, c.args, UriSrc(c), <<>>) ELSE US!CallUri2(c.g, c.f, c.args, UriSrc(c), <<>>))
             ELSE (IF c.g = "" THEN UL!CallUri(c.f, c.args, UriSrc(c), <<>>) ELSE UL!CallUri2(c.g, c.f, c.args, UriSrc(c), <<>>)))
      [] OTHER -> Out("", Undef, <<>>)

Js(c, rs) ==
    CASE c.fam \in {"math", "mathc"} -> MathJs(c, rs)
      [] c.fam = "gnum" -> <<c.f \o "(">> \o ArgsJs(c.args, 1) \o <<")">>
      [] c.fam = "gnumc" -> <<c.f \o "(">> \o CarArgsJs(c.car, c.raw, 1) \o <<")">>
      [] c.fam = "const" -> <<"Math." \o c.f>>
      [] c.fam = "random" -> <<"RANDOK()">>
      [] c.fam = "uri" -> UriJs(c)

ProjObj(r) == IF r.v.t = "cobj" THEN [r EXCEPT !.v = [t |-> "cobj", id |-> r.v.id]] ELSE r
Strip(r) == ProjObj(Out(r.thr, r.v, r.log))

(* the outcome of the text chosen for the strict result rs when the call behaves as r *)
Exp(c, rs, r) ==
    CASE c.fam \in {"math", "mathc"} -> Strip(MathOut(rs, r))
      [] c.fam = "const" -> Out("", NumV(MS!MathConsts[c.f]), <<>>)
      [] c.fam = "random" -> Out("", BoolV(TRUE), <<>>)                     \* 15.8.2.14: 0 <= random() < 1
      [] OTHER -> Strip(r)

-----------------------------------------------------------------------------
(* blocks: <<family, shape, b>>; the cases of a block are the indexes        *)
(* b - 1 + K * q of the shape                                                *)
K == 16
None == [fam |-> "none"]
BlocksOf(fam) == {<<fam, j, b>> : j \in 1..Len(ShapesOf(fam)), b \in 1..K}
Sub(S0) == IF NSel = 0 \/ NSel >= Cardinality(S0) THEN S0 ELSE RandomSubset(NSel, S0)

Init == /\ cs = None
        /\ blk \in UNION {BlocksOf(fam) : fam \in Fams}
Next == /\ cs = None
        /\ UNCHANGED blk
        /\ LET sh == ShapesOf(blk[1])[blk[2]]
               n  == ProdLen(sh, 1)
           IN  \E q \in Sub({q0 \in 0..((n - 1) \div K) : blk[3] - 1 + K * q0 < n}) :
                  cs' = MkCase(blk[1], Pick(sh, 1, blk[3] - 1 + K * q))

Emit ==
    cs = None \/
    LET rs == Res(cs, "S")
        rl == Res(cs, "L")
        es == Exp(cs, rs, rs)
        ed == Exp(cs, rs, rl)
    IN  PrintT("VJSON " \o ToJson([c |-> cs, js |-> Js(cs, rs), exp |-> es, dev |-> IF ed = es THEN <<>> ELSE <<ed>>]))

(* laws of the specification itself (property statement): for every well    *)
(* formed string decoding inverts encoding, and unescape inverts escape on   *)
(* every string                                                              *)
Law ==
    cs = None \/ cs.fam # "uri" \/ cs.g = "" \/ cs.src = "arg" \/
    LET s == cs.args[1].s
        r == US!CallUri2(cs.g, cs.f, cs.args, "lit", <<>>)
    IN  /\ (<<cs.f, cs.g>> \in {<<"encodeURI", "decodeURI">>, <<"encodeURIComponent", "decodeURIComponent">>,
                                <<"encodeURI", "decodeURIComponent">>}
              => IF US!WellFormed(s) THEN r.thr = "" /\ r.v.s = s ELSE r.thr = "URIError")
        /\ (<<cs.f, cs.g>> = <<"escape", "unescape">> => r.thr = "" /\ r.v.s = s)
=============================================================================
