-------------------------------- MODULE C07 ---------------------------------
(* The object property model as a state machine (property C07).              *)
(*   objects 1 = parent, 2 = child (child.[[Prototype]] = parent),           *)
(*   3, 4 = getter functions g1, g2; 5 = setter function s1; names p, q.     *)
(* Every transition is printed as one JSON line (path + step + expected      *)
(* observation) and replayed on the implementation.                          *)
(* Mode "table": the initial states are all 49 x 2 states of (child, p,      *)
(* [[Extensible]]) and the only action is defineProperty with each of the    *)
(* 1296 descriptors: the complete decision table of 8.12.9.                  *)
(* Mode "hist": histories over both objects and both names from empty        *)
(* objects with the descriptor family HistDescs.                             *)
EXTENDS Val, Json, TLC
CONSTANTS Mode, OpenDev, MaxLen
VARIABLES heap, hist, init

S == INSTANCE ObjModel WITH Dev <- {}
L == INSTANCE ObjModel WITH Dev <- OpenDev

PO == 1
CO == 2
GO == 6                 \* grandparent: PO.[[Prototype]] = GO
G1 == ObjV(3)
G2 == ObjV(4)
S1 == ObjV(5)
Names == <<S_p, S_q>>
NameSet == {S_p, S_q}
Objs == {PO, CO}
Objs3 == {PO, CO, GO}

FnObj(payload) == [S!NewObj("Function", 0) EXCEPT !.fn = payload]
Heap0 == <<[S!NewObj("Object", 0) EXCEPT !.proto = GO], [S!NewObj("Object", 0) EXCEPT !.proto = PO],
           FnObj([k |-> "getter", ret |-> IntV(101)]), FnObj([k |-> "getter", ret |-> IntV(102)]),
           FnObj([k |-> "setter"]), S!NewObj("Object", 0)>>
AllObjs == <<PO, CO, GO>>

Vals    == {Undef, IntV(1), IntV(2)}
Getters == {Undef, G1, G2}
Setters == {Undef, S1}
OptB    == {<<FALSE, FALSE>>, <<TRUE, FALSE>>, <<TRUE, TRUE>>}       \* <<present, value>>

AllDescs ==
    {[hv |-> v[1], v |-> v[2], hw |-> w[1], w |-> w[2], he |-> e[1], e |-> e[2], hc |-> c[1], c |-> c[2],
      hg |-> g[1], g |-> g[2], hs |-> s[1], s |-> s[2]] :
        v \in {<<FALSE, Undef>>} \cup {<<TRUE, x>> : x \in Vals},
        w \in OptB, e \in OptB, c \in OptB,
        g \in {<<FALSE, Undef>>} \cup {<<TRUE, x>> : x \in Getters},
        s \in {<<FALSE, Undef>>} \cup {<<TRUE, x>> : x \in Setters}}

(* descriptors with a non-callable getter/setter: ToPropertyDescriptor must throw *)
BadFnDescs == {[S!EmptyDesc EXCEPT !.hg = TRUE, !.g = IntV(1)], [S!EmptyDesc EXCEPT !.hs = TRUE, !.s = IntV(1)],
               [S!EmptyDesc EXCEPT !.hg = TRUE, !.g = G1, !.hs = TRUE, !.s = Null]}

(* all 49 states of one property *)
PropStates ==
    {[k |-> "none"]}
    \cup {S!DataP(v, w, e, c) : v \in Vals, w \in BOOLEAN, e \in BOOLEAN, c \in BOOLEAN}
    \cup {S!AccP(g, s, e, c) : g \in Getters, s \in Setters, e \in BOOLEAN, c \in BOOLEAN}

(* the descriptor family of history mode: every kind of change, small enough *)
(* for exhaustive depth-bounded search                                       *)
DD(v, w, e, c) == S!FullDataDesc(v, w, e, c)
HistDescs ==
    {DD(IntV(1), TRUE, TRUE, TRUE), DD(IntV(1), FALSE, TRUE, TRUE), DD(IntV(1), TRUE, FALSE, TRUE),
     DD(IntV(1), TRUE, TRUE, FALSE), DD(IntV(2), FALSE, FALSE, FALSE), DD(Undef, FALSE, TRUE, FALSE),
     S!ValueDesc(IntV(2)), S!ValueDesc(IntV(1)),
     [S!EmptyDesc EXCEPT !.hw = TRUE, !.w = FALSE], [S!EmptyDesc EXCEPT !.hw = TRUE, !.w = TRUE],
     [S!EmptyDesc EXCEPT !.he = TRUE, !.e = FALSE], [S!EmptyDesc EXCEPT !.he = TRUE, !.e = TRUE],
     [S!EmptyDesc EXCEPT !.hc = TRUE, !.c = FALSE], [S!EmptyDesc EXCEPT !.hc = TRUE, !.c = TRUE],
     S!EmptyDesc,
     [S!EmptyDesc EXCEPT !.hg = TRUE, !.g = G1], [S!EmptyDesc EXCEPT !.hs = TRUE, !.s = S1],
     [S!EmptyDesc EXCEPT !.hg = TRUE, !.g = G2, !.hs = TRUE, !.s = S1, !.he = TRUE, !.e = TRUE, !.hc = TRUE, !.c = TRUE],
     [S!EmptyDesc EXCEPT !.hg = TRUE, !.g = G1, !.hs = TRUE, !.s = Undef, !.he = TRUE, !.e = FALSE, !.hc = TRUE, !.c = FALSE],
     [S!EmptyDesc EXCEPT !.hg = TRUE, !.g = Undef, !.hs = TRUE, !.s = S1, !.hc = TRUE, !.c = FALSE],
     [S!EmptyDesc EXCEPT !.hv = TRUE, !.v = IntV(1), !.hg = TRUE, !.g = G1]}

(* pairs used by defineProperties / create: ok+ok, ok+reject, reject+ok, invalid second *)
MultiDescs == {DD(IntV(1), TRUE, TRUE, TRUE), DD(IntV(2), FALSE, FALSE, FALSE),
               [S!EmptyDesc EXCEPT !.hg = TRUE, !.g = G1, !.hc = TRUE, !.c = TRUE],
               [S!EmptyDesc EXCEPT !.hv = TRUE, !.v = IntV(1), !.hg = TRUE, !.g = G1]}

-----------------------------------------------------------------------------
(* observation: the full projected state of both objects                     *)
GetVal(M(_, _, _, _), H, o, p) ==
    LET r == M(H, o, p, ObjV(o))
    IN  IF r.k = "val" THEN r.v ELSE H[r.f.id].fn.ret

ObsObj(H, o) ==
    [ext |-> H[o].ext, sealed |-> S!IsSealed(H, o), frozen |-> S!IsFrozen(H, o),
     names |-> S!OwnNames(H, o), keys |-> S!OwnKeys(H, o), forin |-> S!ForIn(H, o),
     pr |-> [i \in 1..2 |->
              LET p == Names[i]
              IN  [own |-> IF S!HasOwn(H, o, p) THEN S!OwnProp(H, o, p) ELSE [k |-> "none"],
                   isin |-> S!HasProperty(H, o, p),
                   get |-> GetVal(S!GetReq, H, o, p)]]]
Obs(H) == [i \in 1..3 |-> ObsObj(H, AllObjs[i])]

Res(H, thr, ret, log) == [H |-> H, thr |-> thr, ret |-> ret, log |-> log]

-----------------------------------------------------------------------------
(* the operations, parameterised by the ObjModel instance through its        *)
(* operators (strict and deviating versions are built below)                 *)

OpDefine(DescErr(_, _), Define(_, _, _, _), H, o, p, d) ==
    IF DescErr(H, d) # "" THEN Res(H, DescErr(H, d), Undef, <<>>)
    ELSE LET r == Define(H, o, p, d)
         IN  IF r.ok THEN Res(r.H, "", Undef, <<>>)
             ELSE Res(r.H, IF r.thr = "" THEN "TypeError" ELSE r.thr, Undef, <<>>)

OpAssign(Put(_, _, _, _, _), H, o, p, v) ==
    LET r == Put(H, o, p, v, ObjV(o))
    IN  IF r.k = "done" THEN Res(r.H, "", v, <<>>)
        ELSE Res(H, "", v, <<[f |-> r.f.id, this |-> o, v |-> v]>>)

OpDelete(Del(_, _, _), H, o, p) ==
    LET r == Del(H, o, p) IN Res(r.H, "", BoolV(r.ok), <<>>)

(* 15.2.3.7: all descriptors are converted first, then defined in order *)
OpDefineProps(useDev, H, o, d1, d2) ==
    LET e1 == S!DescError(H, d1)
        e2 == S!DescError(H, d2)
    IN  IF e1 # "" THEN Res(H, e1, Undef, <<>>)
        ELSE IF e2 # "" THEN Res(H, e2, Undef, <<>>)
        ELSE LET r1 == S!DefineOwn(H, o, S_p, d1)
             IN  IF ~r1.ok THEN Res(r1.H, "TypeError", Undef, <<>>)
                 ELSE LET r2 == S!DefineOwn(r1.H, o, S_q, d2)
                      IN  IF ~r2.ok THEN Res(r2.H, "TypeError", Undef, <<>>)
                          ELSE Res(r2.H, "", Undef, <<>>)

Apply(useDev, H, a) ==
    CASE a.op = "define" ->
            IF useDev THEN OpDefine(L!DescError, L!DefineOwn, H, a.o, a.n, a.d)
            ELSE OpDefine(S!DescError, S!DefineOwn, H, a.o, a.n, a.d)
      [] a.op = "assign" ->
            IF useDev THEN OpAssign(L!PutReq, H, a.o, a.n, a.v) ELSE OpAssign(S!PutReq, H, a.o, a.n, a.v)
      [] a.op = "delete" ->
            IF useDev THEN OpDelete(L!DeleteOwn, H, a.o, a.n) ELSE OpDelete(S!DeleteOwn, H, a.o, a.n)
      [] a.op = "defprops" -> OpDefineProps(useDev, H, a.o, a.d, a.d2)
      [] a.op = "seal"   -> Res(S!Seal(H, a.o), "", Undef, <<>>)
      [] a.op = "freeze" -> Res(S!Freeze(H, a.o), "", Undef, <<>>)
      [] a.op = "prevent" -> Res(S!PreventExt(H, a.o), "", Undef, <<>>)

Expect(useDev, H, a) ==
    LET r == Apply(useDev, H, a)
    IN  [thr |-> r.thr, ret |-> r.ret, log |-> r.log, obs |-> Obs(r.H)]

-----------------------------------------------------------------------------
TableActions == {[op |-> "define", o |-> CO, n |-> S_p, d |-> d] : d \in AllDescs \cup BadFnDescs}

HistActions ==
    {[op |-> "define", o |-> o, n |-> n, d |-> d] : o \in Objs, n \in NameSet, d \in HistDescs}
    \cup {[op |-> "assign", o |-> o, n |-> n, v |-> v] : o \in Objs, n \in NameSet, v \in {IntV(1), IntV(2)}}
    \cup {[op |-> "delete", o |-> o, n |-> n] : o \in Objs, n \in NameSet}
    \cup {[op |-> x, o |-> o] : x \in {"seal", "freeze", "prevent"}, o \in Objs}
    \cup {[op |-> "defprops", o |-> o, d |-> d1, d2 |-> d2] : o \in Objs, d1 \in MultiDescs, d2 \in MultiDescs}

(* mode "chain": an accessor or read-only property two links up the chain must still   *)
(* govern assignment on the child                                                        *)
ChainActions ==
    {[op |-> "define", o |-> GO, n |-> n, d |-> d] : n \in NameSet, d \in HistDescs}
    \cup {[op |-> "assign", o |-> o, n |-> n, v |-> v] : o \in {CO, PO}, n \in NameSet, v \in {IntV(1), IntV(2)}}
    \cup {[op |-> "delete", o |-> o, n |-> n] : o \in {GO, CO}, n \in NameSet}
    \cup {[op |-> x, o |-> o] : x \in {"freeze", "prevent"}, o \in {CO, GO}}

(* mode "sv": 8.12.9 compares values with SameValue: +0, -0 and NaN are the cases where it  *)
(* differs from === *)
SVVals == {IntV(0), NumV(NZero), NumV(NaN), IntV(1)}
(* mode "order": creation order under deletion and re-creation (keys, names, for-in of a child *)
(* and its prototype): plain data properties only, so that long histories stay cheap           *)
OrderActions ==
    {[op |-> "assign", o |-> o, n |-> n, v |-> IntV(1)] : o \in {CO, PO}, n \in NameSet}
    \cup {[op |-> "delete", o |-> o, n |-> n] : o \in {CO, PO}, n \in NameSet}

SVActions ==
    {[op |-> "define", o |-> CO, n |-> S_p, d |-> d] :
        d \in {S!ValueDesc(v) : v \in SVVals} \cup {[S!ValueDesc(v) EXCEPT !.hw = TRUE, !.w = FALSE] : v \in SVVals}}
    \cup {[op |-> "assign", o |-> CO, n |-> S_p, v |-> v] : v \in SVVals}
InitSV ==
    \E v \in SVVals, w \in BOOLEAN, c \in BOOLEAN :
        LET ps == S!DataP(v, w, TRUE, c) IN
        /\ init = [p |-> ps, ext |-> TRUE]
        /\ heap = [Heap0 EXCEPT ![CO] = [@ EXCEPT !.props = (S_p :> ps), !.order = <<S_p>>]]
        /\ hist = <<>>

InitTable ==
    \E ps \in PropStates, ext \in BOOLEAN :
        /\ init = [p |-> ps, ext |-> ext]
        /\ heap = [Heap0 EXCEPT ![CO] = [@ EXCEPT !.ext = ext,
                       !.props = IF ps.k = "none" THEN <<>> ELSE (S_p :> ps),
                       !.order = IF ps.k = "none" THEN <<>> ELSE <<S_p>>]]
        /\ hist = <<>>
InitHist == heap = Heap0 /\ hist = <<>> /\ init = [p |-> [k |-> "none"], ext |-> TRUE]
Init == IF Mode = "table" THEN InitTable ELSE IF Mode = "sv" THEN InitSV ELSE InitHist

Step(a) ==
    LET r  == Apply(FALSE, heap, a)
        es == [thr |-> r.thr, ret |-> r.ret, log |-> r.log, obs |-> Obs(r.H)]
        ed == Expect(TRUE, heap, a)
    IN  /\ heap' = r.H
        /\ hist' = Append(hist, a)
        /\ UNCHANGED init
        /\ PrintT("VJSON " \o ToJson([init |-> init, path |-> hist, step |-> a, exp |-> es,
                                        dev |-> IF ed = es THEN <<>> ELSE <<ed>>]))

Next == /\ Len(hist) < MaxLen
        /\ \E a \in (CASE Mode = "table" -> TableActions [] Mode = "sv" -> SVActions
                          [] Mode = "chain" -> ChainActions [] Mode = "order" -> OrderActions [] OTHER -> HistActions) : Step(a)

(* mode "order" keeps the history in the view: the implementation's property list may depend on  *)
(* the PATH (names deleted and created again), so every path is replayed, not one per state   *)
View == IF Mode = "order" THEN <<heap, hist>> ELSE <<heap, <<>>>>
vars == <<heap, hist, init>>

-----------------------------------------------------------------------------
(* The guarantees named in the property, checked on the model by TLC.        *)
OwnP(H, o, p) == IF S!HasOwn(H, o, p) THEN S!OwnProp(H, o, p) ELSE [k |-> "none"]

NonWritableStable ==      \* a non-writable, non-configurable value never changes
    [][\A o \in Objs3, p \in NameSet :
         LET a == OwnP(heap, o, p) IN
         (a.k = "data" /\ ~a.w /\ ~a.c) => OwnP(heap', o, p) = a]_vars

NonConfigurableFixed ==   \* never deleted or re-shaped; writable may only go true -> false
    [][\A o \in Objs3, p \in NameSet :
         LET a == OwnP(heap, o, p)  b == OwnP(heap', o, p) IN
         (a.k # "none" /\ ~a.c) =>
             /\ b.k = a.k /\ b.e = a.e /\ ~b.c
             /\ (a.k = "acc" => b.g = a.g /\ b.s = a.s)
             /\ (a.k = "data" => (b.w => a.w))]_vars

NonExtensibleNoGain ==    \* a non-extensible object never gains a property and stays non-extensible
    [][\A o \in Objs3 : ~heap[o].ext =>
         (~heap'[o].ext /\ DOMAIN heap'[o].props \subseteq DOMAIN heap[o].props)]_vars

FrozenIsStable ==
    [][\A o \in Objs3 : S!IsFrozen(heap, o) => heap'[o] = heap[o]]_vars

(* an accessor found on the prototype governs assignment: the child never    *)
(* gets an own data property by assignment while the parent has an accessor  *)
InheritedAccessorGoverns ==
    [][\A p \in NameSet :
         (/\ Len(hist') > 0 /\ hist'[Len(hist')].op = "assign" /\ hist'[Len(hist')].o = CO
          /\ hist'[Len(hist')].n = p /\ ~S!HasOwn(heap, CO, p)
          /\ S!HasOwn(heap, PO, p) /\ S!OwnProp(heap, PO, p).k = "acc")
         => ~S!HasOwn(heap', CO, p)]_vars

(* an accessor anywhere on the chain governs assignment on the child *)
ChainAccessorGoverns ==
    [][\A p \in NameSet :
         (/\ Len(hist') > 0 /\ hist'[Len(hist')].op = "assign" /\ hist'[Len(hist')].o = CO
          /\ hist'[Len(hist')].n = p
          /\ S!GetProp(heap, CO, p).has /\ S!GetProp(heap, CO, p).d.k = "acc")
         => heap'[CO] = heap[CO]]_vars

EnumOK ==                 \* no duplicates, only existing enumerable names, order = creation order
    \A o \in Objs3 :
        LET f == S!ForIn(heap, o) IN
        /\ \A i, j \in 1..Len(f) : i # j => f[i] # f[j]
        /\ \A i \in 1..Len(f) : S!HasProperty(heap, o, f[i])
        /\ S!OwnKeys(heap, o) = SelectSeq(heap[o].order, LAMBDA p : S!OwnProp(heap, o, p).e)

TypeOK == \A o \in Objs3 : DOMAIN heap[o].props = {heap[o].order[i] : i \in 1..Len(heap[o].order)}
=============================================================================
