-------------------------------- MODULE C07 ---------------------------------
(* The object property model as a state machine (property C07).              *)
(*   objects 1 = parent, 2 = child (child.[[Prototype]] = parent),           *)
(*   3, 4 = getter functions g1, g2; 5 = setter function s1; names p, q.     *)
(* Every transition is printed as one JSON line (path + step + expected      *)
(* observation) and replayed on the implementation.                          *)
(* Mode "table": the initial states are all 49 x 2 states of (child, p,      *)
(* [[Extensible]]) and the only action is defineProperty with each of the    *)
(* 1296 descriptors: the complete decision table of 8.12.9.                  *)
(* Mode "hist": histories over both objects and both names from empty        *)
(* objects with the descriptor family HistDescs.                             *)
(* Mode "forin": ENUMERATION WHILE MUTATING (12.6.4): the step   *)
(* is one for-in statement whose body performs scheduled object-model        *)
(* operations at chosen iterations; see the section "for-in" below.          *)
EXTENDS Val, Json, TLC, SequencesExt
CONSTANTS Mode, OpenDev, MaxLen, Seed, NSample
VARIABLES heap, hist, init

S == INSTANCE ObjModel WITH Dev <- {}
L == INSTANCE ObjModel WITH Dev <- OpenDev

PO == 1
CO == 2
GO == 6                 \* grandparent: PO.[[Prototype]] = GO
G1 == ObjV(3)
G2 == ObjV(4)
S1 == ObjV(5)
Names == <<S_p, S_q>>
NameSet == {S_p, S_q}
Objs == {PO, CO}
Objs3 == {PO, CO, GO}

FnObj(payload) == [S!NewObj("Function", 0) EXCEPT !.fn = payload]
Heap0 == <<[S!NewObj("Object", 0) EXCEPT !.proto = GO], [S!NewObj("Object", 0) EXCEPT !.proto = PO],
           FnObj([k |-> "getter", ret |-> IntV(101)]), FnObj([k |-> "getter", ret |-> IntV(102)]),
           FnObj([k |-> "setter"]), S!NewObj("Object", 0)>>
AllObjs == <<PO, CO, GO>>

Vals    == {Undef, IntV(1), IntV(2)}
Getters == {Undef, G1, G2}
Setters == {Undef, S1}
OptB    == {<<FALSE, FALSE>>, <<TRUE, FALSE>>, <<TRUE, TRUE>>}       \* <<present, value>>

AllDescs ==
    {[hv |-> v[1], v |-> v[2], hw |-> w[1], w |-> w[2], he |-> e[1], e |-> e[2], hc |-> c[1], c |-> c[2],
      hg |-> g[1], g |-> g[2], hs |-> s[1], s |-> s[2]] :
        v \in {<<FALSE, Undef>>} \cup {<<TRUE, x>> : x \in Vals},
        w \in OptB, e \in OptB, c \in OptB,
        g \in {<<FALSE, Undef>>} \cup {<<TRUE, x>> : x \in Getters},
        s \in {<<FALSE, Undef>>} \cup {<<TRUE, x>> : x \in Setters}}

(* descriptors with a non-callable getter/setter: ToPropertyDescriptor must throw *)
BadFnDescs == {[S!EmptyDesc EXCEPT !.hg = TRUE, !.g = IntV(1)], [S!EmptyDesc EXCEPT !.hs = TRUE, !.s = IntV(1)],
               [S!EmptyDesc EXCEPT !.hg = TRUE, !.g = G1, !.hs = TRUE, !.s = Null]}

(* all 49 states of one property *)
PropStates ==
    {[k |-> "none"]}
    \cup {S!DataP(v, w, e, c) : v \in Vals, w \in BOOLEAN, e \in BOOLEAN, c \in BOOLEAN}
    \cup {S!AccP(g, s, e, c) : g \in Getters, s \in Setters, e \in BOOLEAN, c \in BOOLEAN}

(* the descriptor family of history mode: every kind of change, small enough *)
(* for exhaustive depth-bounded search                                       *)
DD(v, w, e, c) == S!FullDataDesc(v, w, e, c)
HistDescs ==
    {DD(IntV(1), TRUE, TRUE, TRUE), DD(IntV(1), FALSE, TRUE, TRUE), DD(IntV(1), TRUE, FALSE, TRUE),
     DD(IntV(1), TRUE, TRUE, FALSE), DD(IntV(2), FALSE, FALSE, FALSE), DD(Undef, FALSE, TRUE, FALSE),
     S!ValueDesc(IntV(2)), S!ValueDesc(IntV(1)),
     [S!EmptyDesc EXCEPT !.hw = TRUE, !.w = FALSE], [S!EmptyDesc EXCEPT !.hw = TRUE, !.w = TRUE],
     [S!EmptyDesc EXCEPT !.he = TRUE, !.e = FALSE], [S!EmptyDesc EXCEPT !.he = TRUE, !.e = TRUE],
     [S!EmptyDesc EXCEPT !.hc = TRUE, !.c = FALSE], [S!EmptyDesc EXCEPT !.hc = TRUE, !.c = TRUE],
     S!EmptyDesc,
     [S!EmptyDesc EXCEPT !.hg = TRUE, !.g = G1], [S!EmptyDesc EXCEPT !.hs = TRUE, !.s = S1],
     [S!EmptyDesc EXCEPT !.hg = TRUE, !.g = G2, !.hs = TRUE, !.s = S1, !.he = TRUE, !.e = TRUE, !.hc = TRUE, !.c = TRUE],
     [S!EmptyDesc EXCEPT !.hg = TRUE, !.g = G1, !.hs = TRUE, !.s = Undef, !.he = TRUE, !.e = FALSE, !.hc = TRUE, !.c = FALSE],
     [S!EmptyDesc EXCEPT !.hg = TRUE, !.g = Undef, !.hs = TRUE, !.s = S1, !.hc = TRUE, !.c = FALSE],
     [S!EmptyDesc EXCEPT !.hv = TRUE, !.v = IntV(1), !.hg = TRUE, !.g = G1]}

(* pairs used by defineProperties / create: ok+ok, ok+reject, reject+ok, invalid second *)
MultiDescs == {DD(IntV(1), TRUE, TRUE, TRUE), DD(IntV(2), FALSE, FALSE, FALSE),
               [S!EmptyDesc EXCEPT !.hg = TRUE, !.g = G1, !.hc = TRUE, !.c = TRUE],
               [S!EmptyDesc EXCEPT !.hv = TRUE, !.v = IntV(1), !.hg = TRUE, !.g = G1]}

-----------------------------------------------------------------------------
(* observation: the full projected state of both objects                     *)
GetVal(M(_, _, _, _), H, o, p) ==
    LET r == M(H, o, p, ObjV(o))
    IN  IF r.k = "val" THEN r.v ELSE H[r.f.id].fn.ret

ObsObj(H, o) ==
    [ext |-> H[o].ext, sealed |-> S!IsSealed(H, o), frozen |-> S!IsFrozen(H, o),
     names |-> S!OwnNames(H, o), keys |-> S!OwnKeys(H, o), forin |-> S!ForIn(H, o),
     pr |-> [i \in 1..2 |->
              LET p == Names[i]
              IN  [own |-> IF S!HasOwn(H, o, p) THEN S!OwnProp(H, o, p) ELSE [k |-> "none"],
                   isin |-> S!HasProperty(H, o, p),
                   get |-> GetVal(S!GetReq, H, o, p)]]]
Obs(H) == [i \in 1..3 |-> ObsObj(H, AllObjs[i])]

Res(H, thr, ret, log) == [H |-> H, thr |-> thr, ret |-> ret, log |-> log]

-----------------------------------------------------------------------------
(* the operations, parameterised by the ObjModel instance through its        *)
(* operators (strict and deviating versions are built below)                 *)

OpDefine(DescErr(_, _), Define(_, _, _, _), H, o, p, d) ==
    IF DescErr(H, d) # "" THEN Res(H, DescErr(H, d), Undef, <<>>)
    ELSE LET r == Define(H, o, p, d)
         IN  IF r.ok THEN Res(r.H, "", Undef, <<>>)
             ELSE Res(r.H, IF r.thr = "" THEN "TypeError" ELSE r.thr, Undef, <<>>)

OpAssign(Put(_, _, _, _, _), H, o, p, v) ==
    LET r == Put(H, o, p, v, ObjV(o))
    IN  IF r.k = "done" THEN Res(r.H, "", v, <<>>)
        ELSE Res(H, "", v, <<[f |-> r.f.id, this |-> o, v |-> v]>>)

OpDelete(Del(_, _, _), H, o, p) ==
    LET r == Del(H, o, p) IN Res(r.H, "", BoolV(r.ok), <<>>)

(* 15.2.3.7: all descriptors are converted first, then defined in order *)
OpDefineProps(useDev, H, o, d1, d2) ==
    LET e1 == S!DescError(H, d1)
        e2 == S!DescError(H, d2)
    IN  IF e1 # "" THEN Res(H, e1, Undef, <<>>)
        ELSE IF e2 # "" THEN Res(H, e2, Undef, <<>>)
        ELSE LET r1 == S!DefineOwn(H, o, S_p, d1)
             IN  IF ~r1.ok THEN Res(r1.H, "TypeError", Undef, <<>>)
                 ELSE LET r2 == S!DefineOwn(r1.H, o, S_q, d2)
                      IN  IF ~r2.ok THEN Res(r2.H, "TypeError", Undef, <<>>)
                          ELSE Res(r2.H, "", Undef, <<>>)

Apply(useDev, H, a) ==
    CASE a.op = "define" ->
            IF useDev THEN OpDefine(L!DescError, L!DefineOwn, H, a.o, a.n, a.d)
            ELSE OpDefine(S!DescError, S!DefineOwn, H, a.o, a.n, a.d)
      [] a.op = "assign" ->
            IF useDev THEN OpAssign(L!PutReq, H, a.o, a.n, a.v) ELSE OpAssign(S!PutReq, H, a.o, a.n, a.v)
      [] a.op = "delete" ->
            IF useDev THEN OpDelete(L!DeleteOwn, H, a.o, a.n) ELSE OpDelete(S!DeleteOwn, H, a.o, a.n)
      [] a.op = "defprops" -> OpDefineProps(useDev, H, a.o, a.d, a.d2)
      [] a.op = "seal"   -> Res(S!Seal(H, a.o), "", Undef, <<>>)
      [] a.op = "freeze" -> Res(S!Freeze(H, a.o), "", Undef, <<>>)
      [] a.op = "prevent" -> Res(S!PreventExt(H, a.o), "", Undef, <<>>)

Expect(useDev, H, a) ==
    LET r == Apply(useDev, H, a)
    IN  [thr |-> r.thr, ret |-> r.ret, log |-> r.log, obs |-> Obs(r.H)]

-----------------------------------------------------------------------------
(* for-in: ENUMERATION WHILE MUTATING (12.6.4).                                           *)
(* The step [op |-> "forin", e, sched] is the statement                                   *)
(*     for (K in e) { visit K;  i++;  perform every sched[j].a with sched[j].k = i }      *)
(* over four names; sched is sorted by k, so the heap after i iterations depends on i     *)
(* only: HP[j] = heap after the first j-1 scheduled operations.                           *)
(* What 12.6.4 (with the creation order the property statement adds) DETERMINES:          *)
(*   - no name is visited twice;                                                          *)
(*   - a name that is not a property of e when its turn comes (deleted before it was      *)
(*     visited) is not visited;                                                           *)
(*   - a name that never was an enumerable, unshadowed property of e is not visited;      *)
(*   - a STABLE name (in every heap so far an enumerable unshadowed property of e held    *)
(*     by the same object: never deleted, hidden, shadowed or unshadowed) must be         *)
(*     visited, and the stable names are visited in the order of the plain enumeration.   *)
(* What it leaves OPEN (existential here): a name that exists now, was enumerable and     *)
(* unshadowed at some time, but is not stable (added or re-added during the loop, its     *)
(* enumerable attribute or its shadowing changed, inherited copy uncovered by a delete)   *)
(* may be visited at any later iteration or not at all.                                   *)
(* ForInAlts is the set of all visit sequences these rules admit.                         *)
N_s == <<115>>
Names4 == <<S_p, S_q, S_r, N_s>>
NameSet4 == {S_p, S_q, S_r, N_s}
SeqRange(s) == {s[i] : i \in 1..Len(s)}

ObsObj4(H, o) ==
    [ext |-> H[o].ext, sealed |-> S!IsSealed(H, o), frozen |-> S!IsFrozen(H, o),
     names |-> S!OwnNames(H, o), keys |-> S!OwnKeys(H, o), forin |-> S!ForIn(H, o),
     pr |-> [i \in 1..4 |->
              LET p == Names4[i]
              IN  [own |-> IF S!HasOwn(H, o, p) THEN S!OwnProp(H, o, p) ELSE [k |-> "none"],
                   isin |-> S!HasProperty(H, o, p),
                   get |-> GetVal(S!GetReq, H, o, p)]]]
Obs4(H) == [i \in 1..3 |-> ObsObj4(H, AllObjs[i])]

RECURSIVE HeapsAfter(_, _)
HeapsAfter(H, acts) ==
    IF acts = <<>> THEN <<H>> ELSE <<H>> \o HeapsAfter(Apply(FALSE, H, Head(acts)).H, Tail(acts))

(* number of scheduled operations performed after i complete iterations (sched sorted by k) *)
NRun(sched, i) ==
    LET J == {j \in 1..Len(sched) : sched[j].k <= i}
    IN  IF J = {} THEN 0 ELSE CHOOSE j \in J : \A x \in J : x <= j

FCtx(H0, a) ==
    LET acts == [j \in 1..Len(a.sched) |-> a.sched[j].a]
        hp   == HeapsAfter(H0, acts)
    IN  [e |-> a.e, sched |-> a.sched, acts |-> acts, HP |-> hp, ref |-> S!ForIn(H0, a.e),
         fi |-> [j \in 1..Len(hp) |-> SeqRange(S!ForIn(hp[j], a.e))]]

FNow(cx, i)     == NRun(cx.sched, i) + 1
FVis(cx, j, n)  == n \in cx.fi[j]
FHold(cx, j, n) == S!GetProp(cx.HP[j], cx.e, n).holder
FStable(cx, i, n) ==
    /\ FVis(cx, 1, n)
    /\ \A j \in 1..FNow(cx, i) : FVis(cx, j, n) /\ FHold(cx, j, n) = FHold(cx, 1, n)
FOpen(cx, i, n) ==
    /\ S!HasProperty(cx.HP[FNow(cx, i)], cx.e, n)
    /\ \E j \in 1..FNow(cx, i) : FVis(cx, j, n)
    /\ ~FStable(cx, i, n)

(* after the visits W: the names that may be visited next, and whether the loop may end here *)
FStep(cx, W) ==
    LET i  == Len(W)
        st == SelectSeq(cx.ref, LAMBDA n : n \notin SeqRange(W) /\ FStable(cx, i, n))
        op == {n \in NameSet4 \ SeqRange(W) : FOpen(cx, i, n)}
    IN  [nx |-> (IF st = <<>> THEN {} ELSE {st[1]}) \cup op, stop |-> st = <<>>]
RECURSIVE FAlts(_, _)
FAlts(cx, W) ==
    LET f    == FStep(cx, W)
        cont == UNION {FAlts(cx, Append(W, n)) : n \in f.nx}
    IN  IF f.stop THEN {W} \cup cont ELSE cont

(* the whole observable outcome for a visit sequence W: the operations that ran (k <= Len(W)), *)
(* their results, and the state of the three objects afterwards                                 *)
FOutcome(cx, W) ==
    LET nr == NRun(cx.sched, Len(W))
    IN  [visits |-> W,
         ops |-> [j \in 1..nr |-> LET r == Apply(FALSE, cx.HP[j], cx.acts[j])
                                  IN  [thr |-> r.thr, ret |-> r.ret, log |-> r.log]],
         obs |-> Obs4(cx.HP[nr + 1])]

(* Named deviations (open findings).  The implementation walks the chain object by object over *)
(* a snapshot of each object's names taken when the walk reaches it, visits a name that is an   *)
(* enumerable own property of that object at that moment, and suppresses shadowed names and     *)
(* repeats ONLY through the set of names each earlier object has WHEN THE WALK LEAVES IT:       *)
(*   D07_forin_revisits_unshadowed_name: a name visited on an object and deleted from it before *)
(*     the walk leaves that object is visited again on a deeper object that has an enumerable   *)
(*     property of that name (12.6.4: no name is visited twice);                                *)
(*   D07_forin_stale_shadow_set: a property given to an object the walk has already left does   *)
(*     not shadow: a name that at no time was an enumerable unshadowed property of e is visited *)
(*     on a deeper object (12.6.4: a shadowed property of a prototype is not enumerated).       *)
(* Walk is that mechanism with one branch per deviation (without them: repeats are suppressed   *)
(* by the visited names too, shadowing is looked up in the objects as they are too; that walk   *)
(* is one of the strictly admitted ones).  The deviating                                        *)
(* expectation admits, besides the strict outcomes, the outcome of Walk, provided every visit   *)
(* of it is either admitted by the strict rules or is exactly what an OPEN deviation describes. *)
DRevisit == "D07_forin_revisits_unshadowed_name" \in OpenDev
(* Maintainer: the second is NOT kept as a finding.  Whether a property that the body ADDS to an object the walk has   *)
(* already left shadows a deeper one is not settled by 12.6.4 (it speaks of properties the previous object "has", and  *)
(* leaves additions during the enumeration open), so both walks are admitted always: a choice left open, no deviation. *)
DStale   == TRUE
RECURSIVE WalkNames(_, _, _, _)
WalkNames(cx, o, ns, st) ==      \* st = [W, shadow (names of the objects left), before (objects left), dr, ds]
    IF ns = <<>> THEN st
    ELSE LET H   == cx.HP[FNow(cx, Len(st.W))]
             n   == Head(ns)
             vis == /\ S!HasOwn(H, o, n) /\ S!OwnProp(H, o, n).e
                    /\ n \notin st.shadow
                    /\ (st.ds \/ \A b \in st.before : ~S!HasOwn(H, b, n))      \* ds: D07_forin_stale_shadow_set
                    /\ (st.dr \/ n \notin SeqRange(st.W))                      \* dr: D07_forin_revisits_unshadowed_name
         IN  WalkNames(cx, o, Tail(ns), IF vis THEN [st EXCEPT !.W = Append(@, n)] ELSE st)
RECURSIVE Walk(_, _, _)
Walk(cx, o, st) ==
    IF o = 0 THEN st.W
    ELSE LET H0 == cx.HP[FNow(cx, Len(st.W))]
             s1 == WalkNames(cx, o, H0[o].order, st)
             H1 == cx.HP[FNow(cx, Len(s1.W))]
         IN  Walk(cx, H1[o].proto, [s1 EXCEPT !.shadow = @ \cup DOMAIN H1[o].props, !.before = @ \cup {o}])

RECURSIVE ChainSet(_, _)
ChainSet(H, o) == IF o = 0 THEN {} ELSE {o} \cup ChainSet(H, H[o].proto)
(* the visit of n after the visits W is what an open deviation describes *)
DevVisit(cx, W, n) ==
    LET H  == cx.HP[FNow(cx, Len(W))]
        en == {o \in ChainSet(H, cx.e) : S!HasOwn(H, o, n) /\ S!OwnProp(H, o, n).e}
    IN  \/ DRevisit /\ n \in SeqRange(W) /\ en # {}
        \/ DStale /\ n \notin SeqRange(W) /\ \E o \in en : S!GetProp(H, cx.e, n).holder # o
DevAdmits(cx, W) ==
    /\ \A t \in 1..Len(W) :
          LET pre == SubSeq(W, 1, t - 1) IN W[t] \in FStep(cx, pre).nx \/ DevVisit(cx, pre, W[t])
    /\ FStep(cx, W).stop

(* [es, ed]: the strict expectation and the one under the open deviations (cx is a bound value). *)
(* Each subset of the open deviations gives one walk (a repaired finding that is still listed    *)
(* must not turn the outcomes explained by the other into alarms).                               *)
ForInExpect(cx) ==
    LET ws == FAlts(cx, <<>>)
        dw == {Walk(cx, cx.e, [W |-> <<>>, shadow |-> {}, before |-> {}, dr |-> f[1], ds |-> f[2]]) :
                  f \in {g \in BOOLEAN \X BOOLEAN : (g[1] => DRevisit) /\ (g[2] => DStale) /\ (g[1] \/ g[2])}}
        es == [alts |-> {FOutcome(cx, W) : W \in ws}]
        ad == {W \in dw \ ws : DevAdmits(cx, W)}
    IN  [es |-> es, ed |-> IF ad = {} THEN es ELSE [alts |-> es.alts \cup {FOutcome(cx, W) : W \in ad}]]

(* ---- the cases: initial objects are built by a path of defineProperty steps ---- *)
KindDesc(kd) ==
    CASE kd = "e" -> DD(IntV(1), TRUE, TRUE, TRUE)          \* plain
      [] kd = "h" -> DD(IntV(1), TRUE, FALSE, TRUE)         \* hidden: not enumerable (still shadows)
      [] kd = "f" -> DD(IntV(1), TRUE, TRUE, FALSE)         \* fixed: delete fails
      [] kd = "a" -> [S!EmptyDesc EXCEPT !.hg = TRUE, !.g = G1, !.hs = TRUE, !.s = S1,
                                         !.he = TRUE, !.e = TRUE, !.hc = TRUE, !.c = TRUE]
(* lay[i] = the slots <<[o, kd], ...>> of name i; perm = creation order of the names *)
RECURSIVE BuildPath(_, _)
BuildPath(lay, perm) ==
    IF perm = <<>> THEN <<>>
    ELSE LET i == Head(perm)
         IN  IF lay[i] = <<>> THEN BuildPath(lay, Tail(perm))
             ELSE [j \in 1..Len(lay[i]) |->
                      [op |-> "define", o |-> lay[i][j].o, n |-> Names4[i], d |-> KindDesc(lay[i][j].kd)]]
                  \o BuildPath(lay, Tail(perm))
RECURSIVE RunPath(_, _)
RunPath(H, path) == IF path = <<>> THEN H ELSE RunPath(Apply(FALSE, H, Head(path)).H, Tail(path))

(* the exhaustive core of mode "forin": every distribution of four plain names over child and    *)
(* parent, both creation orders; one operation {delete, assign, hide, (re)define} on any    *)
(* name of either object at any iteration, enumerating the child or the parent              *)
CoreInitPaths ==
    {BuildPath([i \in 1..4 |-> <<[o |-> IF m[i] THEN CO ELSE PO, kd |-> "e"]>>], perm) :
        m \in [1..4 -> BOOLEAN], perm \in {<<1, 2, 3, 4>>, <<4, 3, 2, 1>>}}
CoreInitPathSeq == SetToSeq(CoreInitPaths)
CoreOps ==
    {[op |-> "delete", o |-> o, n |-> n] : o \in Objs, n \in NameSet4}
    \cup {[op |-> "assign", o |-> o, n |-> n, v |-> IntV(1)] : o \in Objs, n \in NameSet4}
    \cup {[op |-> "define", o |-> o, n |-> n, d |-> d] : o \in Objs, n \in NameSet4,
              d \in {[S!EmptyDesc EXCEPT !.he = TRUE, !.e = FALSE], DD(IntV(1), TRUE, TRUE, TRUE)}}
CoreForIns ==
    {[op |-> "forin", e |-> e, sched |-> <<[k |-> k, a |-> a]>>] : e \in Objs, k \in 1..4, a \in CoreOps}

(* the sampled product of mode "forin": case c of NSample draws, from a reproducible stream,    *)
(* for every name and each of the three objects absent | plain | hidden | fixed | accessor, *)
(* a creation order (any of the 24), possibly preventExtensions/seal/freeze of one object,  *)
(* the enumerated object, and a schedule of one to three operations (delete, assign, define *)
(* with any descriptor of HistDescs, seal/freeze/preventExtensions) on any object and name  *)
(* at nondecreasing iterations                                                              *)
(* the stream of case c: two small linear congruential generators combined (all products < 2^31) *)
RECURSIVE RndGen(_, _, _, _)
RndGen(x, y, n, acc) ==
    IF n = 0 THEN acc
    ELSE RndGen((x * 75 + 74) % 65537, (y * 32719 + 3) % 32749, n - 1, Append(acc, x * 31 + y))
RndStream(c) ==
    LET x0 == ((c % 65521) * 7 + Seed * 101 + 1) % 65537
        y0 == ((c \div 13) * 3 + Seed * 17 + 5) % 32749
    IN  SubSeq(RndGen(x0, y0, 36, <<>>), 5, 36)          \* the first draws are discarded
PermOf(x) ==
    LET s4 == <<1, 2, 3, 4>>
        a  == (x % 4) + 1
        s3 == RemoveAt(s4, a)
        b  == ((x \div 4) % 3) + 1
        s2 == RemoveAt(s3, b)
        cc == ((x \div 12) % 2) + 1
    IN  <<s4[a], s3[b], s2[cc], RemoveAt(s2, cc)[1]>>
SlotKind(v) == CASE v % 10 < 4 -> "" [] v % 10 < 7 -> "e" [] v % 10 = 7 -> "h" [] v % 10 = 8 -> "f" [] OTHER -> "a"
RndLayout(rs) ==
    [i \in 1..4 |->
        LET sl == [x \in 1..3 |-> [o |-> AllObjs[x], kd |-> SlotKind(rs[(i - 1) * 3 + x])]]
        IN  SelectSeq(sl, LAMBDA r : r.kd # "")]
RndTail(rs) ==
    LET v == rs[14]
        o == AllObjs[((v \div 8) % 3) + 1]
    IN  CASE v % 8 = 0 -> <<[op |-> "prevent", o |-> o]>> [] v % 8 = 1 -> <<[op |-> "freeze", o |-> o]>>
          [] v % 8 = 2 -> <<[op |-> "seal", o |-> o]>> [] OTHER -> <<>>
RndInitPath(rs) == BuildPath(RndLayout(rs), PermOf(rs[13] % 24)) \o RndTail(rs)

HistDescSeq == SetToSeq(HistDescs)
RndOp(rs, j) ==
    LET o  == AllObjs[(rs[j] % 3) + 1]
        n  == Names4[(rs[j + 1] % 4) + 1]
        kd == rs[j + 2] % 16
        v  == rs[j + 3]
    IN  CASE kd < 5  -> [op |-> "delete", o |-> o, n |-> n]
          [] kd < 7  -> [op |-> "assign", o |-> o, n |-> n, v |-> IntV((v % 2) + 1)]
          [] kd < 15 -> [op |-> "define", o |-> o, n |-> n, d |-> HistDescSeq[(v % Len(HistDescSeq)) + 1]]
          [] OTHER   -> [op |-> <<"seal", "freeze", "prevent">>[(v % 3) + 1], o |-> o]
RndForIn(rs) ==
    LET ve == rs[15] % 10
        e  == IF ve < 5 THEN CO ELSE IF ve < 9 THEN PO ELSE GO
        vm == rs[16] % 5
        m  == IF vm < 2 THEN 1 ELSE IF vm < 4 THEN 2 ELSE 3
        k1 == (rs[17] % 3) + 1
        k2 == k1 + (rs[18] % 3)
        k3 == k2 + (rs[19] % 2)
        ks == <<k1, k2, k3>>
    IN  [op |-> "forin", e |-> e, sched |-> [j \in 1..m |-> [k |-> ks[j], a |-> RndOp(rs, 16 + 4 * j)]]]

-----------------------------------------------------------------------------
TableActions == {[op |-> "define", o |-> CO, n |-> S_p, d |-> d] : d \in AllDescs \cup BadFnDescs}

HistActions ==
    {[op |-> "define", o |-> o, n |-> n, d |-> d] : o \in Objs, n \in NameSet, d \in HistDescs}
    \cup {[op |-> "assign", o |-> o, n |-> n, v |-> v] : o \in Objs, n \in NameSet, v \in {IntV(1), IntV(2)}}
    \cup {[op |-> "delete", o |-> o, n |-> n] : o \in Objs, n \in NameSet}
    \cup {[op |-> x, o |-> o] : x \in {"seal", "freeze", "prevent"}, o \in Objs}
    \cup {[op |-> "defprops", o |-> o, d |-> d1, d2 |-> d2] : o \in Objs, d1 \in MultiDescs, d2 \in MultiDescs}

(* mode "chain": an accessor or read-only property two links up the chain must still   *)
(* govern assignment on the child                                                        *)
ChainActions ==
    {[op |-> "define", o |-> GO, n |-> n, d |-> d] : n \in NameSet, d \in HistDescs}
    \cup {[op |-> "assign", o |-> o, n |-> n, v |-> v] : o \in {CO, PO}, n \in NameSet, v \in {IntV(1), IntV(2)}}
    \cup {[op |-> "delete", o |-> o, n |-> n] : o \in {GO, CO}, n \in NameSet}
    \cup {[op |-> x, o |-> o] : x \in {"freeze", "prevent"}, o \in {CO, GO}}

(* mode "sv": 8.12.9 compares values with SameValue: +0, -0 and NaN are the cases where it  *)
(* differs from === *)
SVVals == {IntV(0), NumV(NZero), NumV(NaN), IntV(1)}
(* mode "order": creation order under deletion and re-creation (keys, names, for-in of a child *)
(* and its prototype): plain data properties only, so that long histories stay cheap           *)
OrderActions ==
    {[op |-> "assign", o |-> o, n |-> n, v |-> IntV(1)] : o \in {CO, PO}, n \in NameSet}
    \cup {[op |-> "delete", o |-> o, n |-> n] : o \in {CO, PO}, n \in NameSet}

SVActions ==
    {[op |-> "define", o |-> CO, n |-> S_p, d |-> d] :
        d \in {S!ValueDesc(v) : v \in SVVals} \cup {[S!ValueDesc(v) EXCEPT !.hw = TRUE, !.w = FALSE] : v \in SVVals}}
    \cup {[op |-> "assign", o |-> CO, n |-> S_p, v |-> v] : v \in SVVals}
InitSV ==
    \E v \in SVVals, w \in BOOLEAN, c \in BOOLEAN :
        LET ps == S!DataP(v, w, TRUE, c) IN
        /\ init = [p |-> ps, ext |-> TRUE]
        /\ heap = [Heap0 EXCEPT ![CO] = [@ EXCEPT !.props = (S_p :> ps), !.order = <<S_p>>]]
        /\ hist = <<>>

InitTable ==
    \E ps \in PropStates, ext \in BOOLEAN :
        /\ init = [p |-> ps, ext |-> ext]
        /\ heap = [Heap0 EXCEPT ![CO] = [@ EXCEPT !.ext = ext,
                       !.props = IF ps.k = "none" THEN <<>> ELSE (S_p :> ps),
                       !.order = IF ps.k = "none" THEN <<>> ELSE <<S_p>>]]
        /\ hist = <<>>
InitHist == heap = Heap0 /\ hist = <<>> /\ init = [p |-> [k |-> "none"], ext |-> TRUE]
(* for-in modes: the objects are built by a path of ordinary steps, which the replay performs too *)
(* for-in mode: one initial state per case block (an initial path of the exhaustive core, or one *)
(* sampled case); all the work is done in Next, on the worker threads                          *)
NCore == Len(CoreInitPathSeq)
InitForIn ==
    \E c \in 1..(NCore + NSample) :
        init = [p |-> [k |-> "none"], ext |-> TRUE, c |-> c] /\ hist = <<>> /\ heap = Heap0
Init == CASE Mode = "table" -> InitTable [] Mode = "sv" -> InitSV [] Mode = "forin" -> InitForIn
          [] OTHER -> InitHist

Step(a) ==
    LET r  == Apply(FALSE, heap, a)
        es == [thr |-> r.thr, ret |-> r.ret, log |-> r.log, obs |-> Obs(r.H)]
        ed == Expect(TRUE, heap, a)
    IN  /\ heap' = r.H
        /\ hist' = Append(hist, a)
        /\ UNCHANGED init
        /\ PrintT("VJSON " \o ToJson([init |-> init, path |-> hist, step |-> a, exp |-> es,
                                        dev |-> IF ed = es THEN <<>> ELSE <<ed>>]))

(* the for-in step from the objects built by path pa: the expectation is the SET of admitted   *)
(* outcomes (exp.alts).  Values are bound through singleton sets so that they are computed once *)
StepForIn(pa, a) ==
    \E H0 \in {RunPath(Heap0, pa)} : \E cx \in {FCtx(H0, a)} : \E x \in {ForInExpect(cx)} :
        /\ heap' = cx.HP[Len(cx.HP)]              \* the model continues with every operation performed
        /\ hist' = Append(pa, a)
        /\ UNCHANGED init
        /\ PrintT("VJSON " \o ToJson([init |-> init, path |-> pa, step |-> a, exp |-> x.es,
                                        dev |-> IF x.ed = x.es THEN <<>> ELSE <<x.ed>>]))

Next == \/ Mode = "forin" /\ hist = <<>> /\ init.c <= NCore
           /\ \E a \in CoreForIns : StepForIn(CoreInitPathSeq[init.c], a)
        \/ Mode = "forin" /\ hist = <<>> /\ init.c > NCore
           /\ \E rs \in {RndStream(init.c - NCore)} :
                  \E pa \in {RndInitPath(rs)}, a \in {RndForIn(rs)} : StepForIn(pa, a)
        \/ /\ Mode # "forin"
           /\ Len(hist) < MaxLen
           /\ \E a \in (CASE Mode = "table" -> TableActions [] Mode = "sv" -> SVActions
                          [] Mode = "chain" -> ChainActions [] Mode = "order" -> OrderActions [] OTHER -> HistActions) : Step(a)

(* mode "order" keeps the history in the view: the implementation's property list may depend on  *)
(* the PATH (names deleted and created again), so every path is replayed, not one per state   *)
View == IF Mode = "order" THEN <<heap, hist>> ELSE IF Mode = "forin" THEN <<heap, hist, init>> ELSE <<heap, <<>>>>
vars == <<heap, hist, init>>

-----------------------------------------------------------------------------
(* The guarantees named in the property, checked on the model by TLC.        *)
OwnP(H, o, p) == IF S!HasOwn(H, o, p) THEN S!OwnProp(H, o, p) ELSE [k |-> "none"]

NonWritableStable ==      \* a non-writable, non-configurable value never changes
    [][\A o \in Objs3, p \in NameSet :
         LET a == OwnP(heap, o, p) IN
         (a.k = "data" /\ ~a.w /\ ~a.c) => OwnP(heap', o, p) = a]_vars

NonConfigurableFixed ==   \* never deleted or re-shaped; writable may only go true -> false
    [][\A o \in Objs3, p \in NameSet :
         LET a == OwnP(heap, o, p)  b == OwnP(heap', o, p) IN
         (a.k # "none" /\ ~a.c) =>
             /\ b.k = a.k /\ b.e = a.e /\ ~b.c
             /\ (a.k = "acc" => b.g = a.g /\ b.s = a.s)
             /\ (a.k = "data" => (b.w => a.w))]_vars

NonExtensibleNoGain ==    \* a non-extensible object never gains a property and stays non-extensible
    [][\A o \in Objs3 : ~heap[o].ext =>
         (~heap'[o].ext /\ DOMAIN heap'[o].props \subseteq DOMAIN heap[o].props)]_vars

FrozenIsStable ==
    [][\A o \in Objs3 : S!IsFrozen(heap, o) => heap'[o] = heap[o]]_vars

(* an accessor found on the prototype governs assignment: the child never    *)
(* gets an own data property by assignment while the parent has an accessor  *)
InheritedAccessorGoverns ==
    [][\A p \in NameSet :
         (/\ Len(hist') > 0 /\ hist'[Len(hist')].op = "assign" /\ hist'[Len(hist')].o = CO
          /\ hist'[Len(hist')].n = p /\ ~S!HasOwn(heap, CO, p)
          /\ S!HasOwn(heap, PO, p) /\ S!OwnProp(heap, PO, p).k = "acc")
         => ~S!HasOwn(heap', CO, p)]_vars

(* an accessor anywhere on the chain governs assignment on the child *)
ChainAccessorGoverns ==
    [][\A p \in NameSet :
         (/\ Len(hist') > 0 /\ hist'[Len(hist')].op = "assign" /\ hist'[Len(hist')].o = CO
          /\ hist'[Len(hist')].n = p
          /\ S!GetProp(heap, CO, p).has /\ S!GetProp(heap, CO, p).d.k = "acc")
         => heap'[CO] = heap[CO]]_vars

EnumOK ==                 \* no duplicates, only existing enumerable names, order = creation order
    \A o \in Objs3 :
        LET f == S!ForIn(heap, o) IN
        /\ \A i, j \in 1..Len(f) : i # j => f[i] # f[j]
        /\ \A i \in 1..Len(f) : S!HasProperty(heap, o, f[i])
        /\ S!OwnKeys(heap, o) = SelectSeq(heap[o].order, LAMBDA p : S!OwnProp(heap, o, p).e)

TypeOK == \A o \in Objs3 : DOMAIN heap[o].props = {heap[o].order[i] : i \in 1..Len(heap[o].order)}
=============================================================================
