-------------------------------- MODULE C11 ---------------------------------
(* Generator for property C11: JSON.parse and JSON.stringify (ES5 15.12).    *)
(* Each TLC state is one case.  The invariant Emit prints the JavaScript     *)
(* text of the case together with the outcome the specification (JSONSpec)   *)
(* prescribes: thrown class / value / call log.                              *)
(*   Fam = "mut"   every single-character deletion, substitution, insertion  *)
(*                 (over MutAlphabet) of the base texts, parsed              *)
(*   Fam = "mut2"  random double mutations (NSel per block)                  *)
(*   Fam = "list"  explicit families: texts across the number / string /     *)
(*                 white-space grammar, revivers, stringify over a value     *)
(*                 domain with replacers, property lists, gaps, toJSON,      *)
(*                 wrappers, cycles, the two round trips, and the Go-side    *)
(*                 marshalling of the values (fam "go")                      *)
EXTENDS NumText, Json, TLC, SequencesExt, Randomization, C11Str
CONSTANTS OpenDev, Fam, NSel, Deep
VARIABLES blk, cs

S == INSTANCE JSONSpec WITH Dev <- {}
L == INSTANCE JSONSpec WITH Dev <- OpenDev

-----------------------------------------------------------------------------
(* the value domain                                                          *)
Pow2(k) == Canon(FALSE, <<1>>, k)
MaxDouble == Canon(FALSE, BnSub(BnShl(<<1>>, 53), <<1>>), 971)
Dg(s) == BnOfDigits(s)
NumAtoms ==
    {I(0), NZero, I(1), I(-1), I(100), Canon(FALSE, <<3>>, -1), Canon(TRUE, <<25>>, -1),        \* 1.5  -12.5
     DecToNum(FALSE, <<1>>, 21), DecToNum(FALSE, <<1>>, -7), DecToNum(FALSE, <<1>>, -6), DecToNum(FALSE, <<1>>, -1),
     DecToNum(FALSE, Dg(<<49, 50, 51, 52, 53, 54, 55, 56, 57, 48, 49, 50, 51, 52, 53, 54, 56>>), 4),   \* 123456789012345680000
     DecToNum(TRUE, Dg(<<49, 50, 51>>), 18),
     Pow2(53), Pow2(31), NaN, PInf, NInf}
(* the ends of the double range: their decimal text costs seconds to compute *)
(* (and is the subject of property C06); used as top-level arguments only    *)
NumExtremes == {Canon(FALSE, <<1>>, -1074), MaxDouble, NumNeg(MaxDouble), Canon(FALSE, <<1>>, -1022)}
NumExtremesDeep == {DecToNum(FALSE, <<1>>, 300), DecToNum(FALSE, <<1>>, -300), DecToNum(TRUE, <<5>>, -320),
                    Canon(FALSE, BnSub(BnShl(<<1>>, 52), <<1>>), -1074), DecToNum(FALSE, Dg(<<49, 50, 51, 52, 53>>), 150)}
Extremes == {NumV(n) : n \in NumExtremes \cup (IF Deep THEN NumExtremesDeep ELSE {})}
NumAtomsDeep ==
    {DecToNum(FALSE, Dg(<<52, 51, 53>>), -2), DecToNum(FALSE, <<3>>, -1), DecToNum(FALSE, Dg(<<49, 50, 51, 52, 53, 54, 55, 56, 57>>), -4),
     NumAdd(Pow2(53), I(2)), NumSub(Pow2(53), I(1)), NumSub(Pow2(32), I(1)), DecToNum(FALSE, <<1>>, 22), DecToNum(FALSE, <<1>>, 20),
     DecToNum(FALSE, Dg(<<49, 50>>), -8),
     DecToNum(FALSE, Dg(<<57, 57, 57, 57, 57, 57, 57, 57, 57, 57, 57, 57, 57, 57, 57, 57, 57, 57, 57, 57, 57>>), 0),
     DecToNum(FALSE, Dg(<<49, 50, 51, 52, 53, 54, 55, 56, 57, 48, 49, 50, 51, 52, 53, 54, 55>>), -16)}
StrAtoms ==
    {<<>>, <<97>>, <<34>>, <<92>>, <<47>>, <<0>>, <<31>>, <<127>>, <<8, 12, 10, 13, 9>>, <<233>>, <<8232>>, <<8233>>,
     <<55348, 56606>>, <<60, 62, 38>>, <<128>>, <<65535>>, <<97, 34, 98>>, <<32>>, <<110, 117, 108, 108>>, <<49>>}
StrAtomsDeep == {<<1>>, <<11>>, <<27>>, <<39>>, <<92, 110>>, <<92, 117, 48, 48, 52, 49>>, <<65279>>, <<97, 0, 98>>, <<55357, 56832, 33>>,
                 <<123, 34, 97, 34, 58, 49, 125>>, <<160>>, <<173>>, <<1536>>, <<6068>>, <<8203>>, <<65533>>}

PlainFn == S!Fn(0, [k |-> "undef"])
Wraps == {S!Wrap("Number", IntV(1)), S!Wrap("String", StrV(<<115>>)), S!Wrap("Boolean", BoolV(FALSE)),
          S!Wrap("Number", NumV(NaN)), S!Wrap("String", StrV(<<>>))}
Atoms == {Null, Undef, BoolV(TRUE), BoolV(FALSE), PlainFn}
         \cup {NumV(n) : n \in NumAtoms \cup (IF Deep THEN NumAtomsDeep ELSE {})}
         \cup {StrV(s) : s \in StrAtoms \cup (IF Deep THEN StrAtomsDeep ELSE {})}
         \cup Wraps

Ka == <<97>>
Kb == <<98>>
Kc == <<99>>
O1(k, v) == S!Obj(<<S!Mem(k, v)>>)
O2(k1, v1, k2, v2) == S!Obj(<<S!Mem(k1, v1), S!Mem(k2, v2)>>)
O3(k1, v1, k2, v2, k3, v3) == S!Obj(<<S!Mem(k1, v1), S!Mem(k2, v2), S!Mem(k3, v3)>>)
A1(x) == S!Arr(<<x>>)
A2(x, y) == S!Arr(<<x, y>>)

Pair == {Null, Undef, PlainFn, IntV(1), StrV(<<97>>), NumV(NaN), BoolV(TRUE)}
KeyVariants == {<<>>, <<233>>, <<49>>, <<34>>, S_toJSON, <<60>>, <<10>>, Kb, <<66>>, <<97, 97>>, <<8232>>, <<55348, 56606>>, <<48>>, <<65>>}

Depth1 ==
    {S!Arr(<<>>), S!Obj(<<>>)}
    \cup {A1(x) : x \in Atoms} \cup {A2(x, y) : x \in Pair \cup {S!Hole}, y \in Pair \cup {S!Hole}}
    \cup {O1(Ka, x) : x \in Atoms} \cup {O2(Kb, x, Ka, y) : x \in Pair, y \in Pair}
    \cup {O2(k, IntV(1), Ka, IntV(2)) : k \in KeyVariants} \cup {O2(Ka, IntV(1), k, IntV(2)) : k \in KeyVariants}
    \cup {O3(Kc, IntV(1), Ka, IntV(2), Kb, IntV(3)), O3(<<122>>, IntV(1), <<233>>, IntV(2), <<66>>, IntV(3))}

Inner == {S!Arr(<<>>), S!Obj(<<>>), A1(IntV(1)), O1(Ka, IntV(1)), A2(Undef, PlainFn), O2(Kb, Undef, Ka, Null),
          O2(Kb, IntV(2), Ka, StrV(<<120>>)), A2(StrV(<<97>>), S!Hole), O1(Ka, S!Wrap("Number", IntV(1))),
          A2(NumV(NaN), StrV(<<34>>)), O2(<<233>>, IntV(1), <<>>, IntV(2)), O1(S_toJSON, IntV(1))}
InnerDeep == {A1(A1(IntV(1))), O1(Ka, O1(Ka, S!Arr(<<>>))), A2(O1(Kb, Null), S!Arr(<<>>)), O2(Kb, A2(IntV(1), IntV(2)), Ka, S!Obj(<<>>))}
Inn == Inner \cup (IF Deep THEN InnerDeep ELSE {})
Depth2 ==
    {A1(c) : c \in Inn} \cup {O1(Ka, c) : c \in Inn}
    \cup {A2(c, d) : c \in Inn, d \in Inn} \cup {O2(Kb, c, Ka, d) : c \in Inn, d \in Inn}

(* scripted toJSON methods *)
TJ(id, beh) == S!Mem(S_toJSON, S!Fn(id, beh))
TObj(id, beh) == S!Obj(<<TJ(id, beh), S!Mem(<<120>>, IntV(1))>>)
Behs == {[k |-> "undef"], [k |-> "ret", v |-> IntV(7)], [k |-> "ret", v |-> O1(<<120>>, IntV(1))], [k |-> "ret", v |-> A1(IntV(1))],
         [k |-> "ret", v |-> PlainFn], [k |-> "ret", v |-> S!Wrap("String", StrV(<<119>>))],
         [k |-> "ret", v |-> S!Obj(<<TJ(2, [k |-> "key"]), S!Mem(<<121>>, IntV(2))>>)],        \* toJSON is not applied twice
         [k |-> "key"], [k |-> "self"], [k |-> "selfroot"], [k |-> "throw"]}
ToJSONVals ==
    UNION {{TObj(1, b), O2(Ka, TObj(1, b), Kb, IntV(2)), A2(TObj(1, b), IntV(3)), A2(TObj(1, b), TObj(3, [k |-> "key"])),
            O2(Kb, TObj(3, [k |-> "key"]), Ka, TObj(1, b))} : b \in Behs}
CycleVals ==
    {A1(S!Up(1)), O1(Ka, S!Up(1)), O2(Kb, IntV(1), Ka, A2(IntV(2), S!Up(2))), O1(Ka, O1(Kb, S!Up(1))),
     A2(S!Arr(<<>>), A1(S!Up(2))), O2(Ka, IntV(1), Kb, S!Up(1)),
     S!Obj(<<TJ(1, [k |-> "selfroot"]), S!Mem(Ka, S!Up(1))>>),             \* the cycle is cut by toJSON
     S!Obj(<<TJ(1, [k |-> "self"]), S!Mem(Ka, S!Up(1))>>),                 \* toJSON returns the object itself: still a cycle
     O1(Ka, S!Obj(<<TJ(1, [k |-> "ret", v |-> IntV(5)]), S!Mem(Kb, S!Up(2))>>)),
     O2(Ka, TObj(1, [k |-> "key"]), Kb, A1(S!Up(2)))}

(* members NAMED toJSON holding every kind of value: 15.12.3 Str step 2.b    *)
(* calls the member only "if IsCallable(toJSON)"; anything else is data      *)
RetFn(id, v) == S!Fn(id, [k |-> "ret", v |-> v])
TJKinds ==
    {Null, Undef, BoolV(TRUE), BoolV(FALSE), IntV(1), NumV(NaN), NumV(NZero), StrV(<<115>>), StrV(<<>>),               \* primitives of each type
     S!Obj(<<>>), O1(<<120>>, IntV(2)), O2(Kb, IntV(1), Ka, StrV(<<121>>)), S!Arr(<<>>), A2(IntV(1), IntV(2)), A1(O1(Ka, Null)),  \* plain objects and arrays
     O1(S_toJSON, O1(S_toJSON, IntV(1))), A1(O1(S_toJSON, S!Arr(<<>>))),                                               \* the name again inside the data
     O1(S_toJSON, RetFn(4, IntV(8))),                                                                                  \* data holding an object that HAS a method
     S!Wrap("Number", IntV(1)), S!Wrap("String", StrV(<<115>>)), S!Wrap("Boolean", BoolV(FALSE)),                     \* wrapper objects (objects, not callable)
     PlainFn,                                                                                                          \* functions returning each kind
     RetFn(1, Null), RetFn(1, BoolV(TRUE)), RetFn(1, IntV(7)), RetFn(1, StrV(<<115>>)), RetFn(1, S!Obj(<<>>)), RetFn(1, O1(<<120>>, IntV(2))),
     RetFn(1, A2(IntV(1), IntV(2))), RetFn(1, PlainFn), RetFn(1, S!Wrap("Number", IntV(1))), RetFn(1, O1(S_toJSON, A1(IntV(3)))),
     S!Fn(1, [k |-> "key"]), S!Fn(1, [k |-> "self"])}
TJHolders(k) == {O1(S_toJSON, k), O2(Ka, IntV(1), S_toJSON, k), O2(S_toJSON, k, Ka, IntV(1))}
ToJSONDataVals ==
    UNION {UNION {{h, O1(Kb, h), O2(Ka, IntV(1), Kb, h), A1(h), A2(IntV(1), h), A1(A1(h))} : h \in TJHolders(k)} : k \in TJKinds}
ToJSONDataReps ==
    {[k |-> "none"], [k |-> "id"], [k |-> "num2str"],
     [k |-> "list", items |-> <<StrV(S_toJSON), StrV(Ka), StrV(S_x)>>], [k |-> "list", items |-> <<StrV(Ka), StrV(Kb)>>],
     [k |-> "undefkey", key |-> S_toJSON], [k |-> "replkey", key |-> S_toJSON, v |-> A1(IntV(5))]}

(* strings that LOOK like escape sequences or need escaping: Quote (15.12.3)  *)
(* works unit by unit - a backslash becomes \\\\ whatever follows it - and the     *)
(* result must be a JSON text that reads back as the same string             *)
BS(n) == [i \in 1..n |-> 92]
Hex4 == {<<48, 48, 51, 99>>, <<48, 48, 51, 67>>, <<48, 48, 51, 101>>, <<48, 48, 51, 69>>, <<48, 48, 50, 54>>, <<48, 48, 50, 50>>,
         <<48, 48, 53, 99>>, <<48, 48, 53, 67>>, <<50, 48, 50, 56>>, <<50, 48, 50, 57>>, <<48, 48, 48, 97>>, <<48, 48, 48, 65>>, <<48, 48, 48, 48>>}
EscLike == {BS(n) \o <<117>> \o h : n \in 0..3, h \in Hex4}
EscAlpha == <<92, 34, 117, 48, 99, 60, 62, 38, 10, 8232, 47, 8>>
EscShort == {<<>>} \cup {<<EscAlpha[i]>> : i \in 1..Len(EscAlpha)} \cup {<<EscAlpha[i], EscAlpha[j]>> : i, j \in 1..Len(EscAlpha)}
EscStrings ==
    EscLike \cup EscShort
    \cup {<<97>> \o e \o <<98>> : e \in EscLike} \cup {<<60>> \o e \o <<62, 38>> : e \in EscLike} \cup {e \o e : e \in EscLike}
    \cup {<<92, 110>>, <<92, 92, 110>>, <<92, 34>>, <<92, 92, 34>>, <<92, 98>>, <<92, 47>>, <<92, 120, 52, 49>>, <<92, 117>>, <<92, 117, 48, 48>>,
          <<92, 60>>, <<92, 62>>, <<92, 38>>, <<92, 92, 60>>, <<38, 108, 116, 59>>, <<92, 117, 48, 48, 51, 99, 92, 117, 48, 48, 51, 101>>}
EscValues == UNION {{StrV(e), O1(Ka, StrV(e)), O1(e, IntV(1)), A2(StrV(e), StrV(e)), O2(e, StrV(e), e \o <<33>>, Null)} : e \in EscStrings}

(* Go-side marshalling (JSONSpec!GoMarshal): the Value is handed to Go and    *)
(* serialised there.  String code-unit classes, unit by unit: every C0        *)
(* control, the characters Quote escapes, DEL and C1 controls, format and     *)
(* separator characters, non-characters, private use, the ends of the BMP     *)
(* ranges, astral characters of every general kind (printable, format/tag,    *)
(* non-character, private use, the last code point) and unpaired surrogates   *)
(* (high, low, reversed, before a pair); each alone and between letters.      *)
GoCtl == {<<u>> : u \in 0..31}
GoBmp == {<<u>> : u \in {34, 92, 47, 39, 60, 62, 38, 127, 128, 133, 159, 160, 173, 1536, 8203, 8232, 8233,
                         55295, 57344, 63743, 64976, 65279, 65533, 65534, 65535}}
GoAstral == {<<55296, 56320>>, <<55348, 56606>>, <<55357, 56832>>, <<56128, 56321>>, <<55359, 57343>>, <<56192, 56320>>, <<56319, 57343>>}
GoLone == {<<55296>>, <<56319>>, <<56320>>, <<57343>>, <<56320, 55296>>, <<55296, 55296, 56320>>}
GoUnitStrs == GoCtl \cup GoBmp \cup GoAstral \cup GoLone
GoStrs == GoUnitStrs \cup {<<97>> \o u \o <<98>> : u \in GoUnitStrs}
(* primitives reach Value.MarshalJSON itself; every way into encoding/json    *)
GoPrims ==
    {Null, Undef, BoolV(TRUE), BoolV(FALSE)}
    \cup {NumV(n) : n \in NumAtoms \cup (IF Deep THEN NumAtomsDeep ELSE {})}
    \cup {StrV(s) : s \in StrAtoms \cup GoStrs \cup (IF Deep THEN StrAtomsDeep ELSE {})}
GoEscPrims == {StrV(e) : e \in EscLike \cup (IF Deep THEN EscStrings ELSE {})}
(* objects go through Object.MarshalJSON (15.12.3 on the runtime)             *)
GoObjs ==
    Wraps \cup {PlainFn} \cup Depth1 \cup Depth2 \cup ToJSONVals \cup CycleVals
    \cup UNION {{A1(StrV(u)), O1(u, StrV(u))} : u \in GoUnitStrs}
    \cup {S!Wrap("String", StrV(u)) : u \in GoCtl \cup GoLone}
GoPrimModes == <<"value", "marshal", "pointer", "map", "slice", "struct", "nested", "export">>
GoObjModes == <<"object", "marshal", "pointer", "map", "slice", "struct", "nested", "export">>
GoCase(v, mode) == [fam |-> "go", v |-> v, mode |-> mode]

NoRp == [k |-> "none"]
NoSp == [t |-> "absent"]
K1 == <<49>>
RepVals ==
    {O2(Ka, IntV(1), Kb, O2(Ka, IntV(2), Kc, A2(IntV(3), StrV(<<120>>)))),
     A2(IntV(1), O2(Kb, IntV(2), Ka, IntV(3))),
     O2(Kb, StrV(<<120>>), Ka, Undef), IntV(5), S!Arr(<<>>), S!Obj(<<>>),
     O2(Kb, TObj(1, [k |-> "key"]), Ka, IntV(1)),
     S!Obj(<<S!Mem(K1, IntV(1)), S!Mem(<<>>, IntV(2)), S!Mem(Ka, IntV(3)), S!Mem(Kb, O2(K1, IntV(4), Ka, IntV(5)))>>),
     O3(Kc, IntV(1), Kb, IntV(2), Ka, A1(O2(Kb, IntV(3), Ka, IntV(4))))}
FnReps ==
    {[k |-> "id"], [k |-> "undefkey", key |-> Ka], [k |-> "undefkey", key |-> <<>>], [k |-> "undefkey", key |-> <<48>>],
     [k |-> "replkey", key |-> Kb, v |-> A2(IntV(1), O1(Kc, IntV(2)))], [k |-> "replkey", key |-> Ka, v |-> PlainFn],
     [k |-> "replkey", key |-> <<>>, v |-> IntV(3)], [k |-> "replkey", key |-> <<>>, v |-> O2(Kb, IntV(1), Ka, IntV(2))],
     [k |-> "num2str"], [k |-> "throwkey", key |-> Kb], [k |-> "throwkey", key |-> <<>>]}
WS(s) == S!Wrap("String", StrV(s))
WN(n) == S!Wrap("Number", IntV(n))
ListReps ==
    {[k |-> "list", items |-> it] : it \in
        {<<StrV(Ka)>>, <<StrV(Kb), StrV(Ka)>>, <<StrV(Ka), StrV(Ka), IntV(1)>>, <<IntV(1), StrV(K1)>>, <<WS(Ka), WN(1)>>,
         <<BoolV(TRUE), StrV(Ka)>>, <<Null, S!Obj(<<>>), StrV(Kb)>>, <<>>, <<StrV(Ka), Undef, StrV(Kb)>>,
         <<NumV(Canon(FALSE, <<3>>, -1)), StrV(Ka)>>, <<NumV(NaN)>>, <<NumV(NZero)>>, <<PlainFn, StrV(Ka)>>, <<StrV(<<>>), StrV(Ka)>>,
         <<S!Wrap("Boolean", BoolV(TRUE)), StrV(Kb)>>, <<StrV(Kc), StrV(Kb), StrV(Ka)>>, <<StrV(Ka), StrV(Kb), StrV(Ka), StrV(Kc)>>,
         <<S!Arr(<<>>), StrV(K1), StrV(Kb)>>}}
OtherReps == {[k |-> "other", v |-> v] : v \in {IntV(1), S!Obj(<<>>), StrV(Ka), Null, BoolV(TRUE), Undef}}

Sp11 == <<97, 98, 99, 100, 101, 102, 103, 104, 105, 106, 107>>
Spaces ==
    {NoSp, IntV(0), IntV(1), IntV(2), IntV(10), IntV(11), IntV(-1), NumV(Canon(FALSE, <<29>>, -3)), NumV(Canon(FALSE, <<1>>, -1)),   \* 3.625  0.5
     NumV(NaN), NumV(PInf), NumV(NInf), NumV(NZero), NumV(DecToNum(FALSE, <<1>>, 10)), NumV(DecToNum(FALSE, <<1>>, 19)),
     StrV(<<>>), StrV(<<32>>), StrV(<<9>>), StrV(<<97, 98>>), StrV(Sp11), StrV(<<32, 32, 32, 32, 32, 32, 32, 32, 32, 32, 32, 32>>),
     StrV(<<10>>), StrV(<<233, 8232>>),
     WN(3), S!Wrap("String", StrV(<<120, 121>>)), S!Wrap("Boolean", BoolV(TRUE)), BoolV(TRUE), Null, S!Obj(<<>>), S!Arr(<<IntV(2)>>)}
SpaceVals ==
    {S!Arr(<<>>), S!Obj(<<>>), A1(IntV(1)), O1(Ka, IntV(1)), IntV(1), StrV(Ka),
     S!Arr(<<IntV(1), A2(IntV(2), O1(Ka, IntV(3))), S!Arr(<<>>)>>),
     O2(Kb, S!Arr(<<>>), Ka, O2(Kc, S!Obj(<<>>), Ka, A2(Undef, IntV(1)))),
     O2(Kb, Undef, Ka, PlainFn), A1(TObj(1, [k |-> "key"]))}

(* JSON-representable values for the round trip parse(stringify(v)) = v *)
RECURSIVE Representable(_)
Representable(v) ==
    CASE v.t = "arr" -> \A i \in 1..Len(v.items) : Representable(v.items[i])
      [] v.t = "obj" -> /\ \A i \in 1..Len(v.members) : Representable(v.members[i].val)
                        /\ \A i, j \in 1..Len(v.members) : i # j => v.members[i].key # v.members[j].key
      [] v.t = "num" -> IsFinite(v.n) /\ v.n # NZero
      [] v.t \in {"null", "bool", "str"} -> TRUE
      [] OTHER -> FALSE

-----------------------------------------------------------------------------
(* revivers *)
NoRv == [k |-> "none"]
Revivers ==
    {NoRv, [k |-> "id"], [k |-> "undefkey", key |-> Ka], [k |-> "undefkey", key |-> <<48>>], [k |-> "undefkey", key |-> <<>>],
     [k |-> "undefkey", key |-> Kb], [k |-> "undefall"], [k |-> "num2str"], [k |-> "wrapstr"],
     [k |-> "delsib", key |-> Ka, sib |-> Kb], [k |-> "delsib", key |-> <<48>>, sib |-> <<49>>], [k |-> "delsib", key |-> Kb, sib |-> Ka],
     [k |-> "addsib", key |-> Ka, sib |-> <<122>>], [k |-> "throwkey", key |-> Kb], [k |-> "throwkey", key |-> <<>>],
     [k |-> "other", v |-> IntV(1)], [k |-> "other", v |-> S!Obj(<<>>)], [k |-> "other", v |-> Null]}
(* revivers that change the length / the members of their holder during the walk *)
K0 == <<48>>
LenRevivers ==
    {[k |-> "setlen", key |-> K0, n |-> 1], [k |-> "setlen", key |-> K0, n |-> 0], [k |-> "setlen", key |-> K1, n |-> 1],
     [k |-> "setlen", key |-> K1, n |-> 2], [k |-> "setlen", key |-> K0, n |-> 5], [k |-> "setlen", key |-> <<50>>, n |-> 0],
     [k |-> "push", key |-> K0, v |-> IntV(99)], [k |-> "push", key |-> K1, v |-> A1(IntV(7))], [k |-> "push", key |-> K0, v |-> O1(Ka, IntV(7))],
     [k |-> "setel", key |-> K0, sib |-> K1, v |-> O1(<<120>>, IntV(1))],          \* a later element replaced by an object: walked
     [k |-> "setel", key |-> K0, sib |-> <<50>>, v |-> O2(<<120>>, IntV(8), <<121>>, A1(IntV(9)))],   \* at / beyond the end
     [k |-> "setel", key |-> K1, sib |-> K0, v |-> A1(IntV(8))],                   \* an earlier element: not walked again
     [k |-> "setel", key |-> K0, sib |-> <<53>>, v |-> IntV(1)],                   \* far beyond the end: holes
     [k |-> "setel", key |-> Ka, sib |-> Kb, v |-> O2(Kc, IntV(5), Kb, A1(IntV(6)))],   \* the same on objects: key list taken once (no member a inside: the walk would not end)
     [k |-> "setel", key |-> Ka, sib |-> <<122>>, v |-> A1(IntV(1))],
     [k |-> "setel", key |-> Kb, sib |-> Ka, v |-> O1(Ka, IntV(1))],
     [k |-> "delsib", key |-> K0, sib |-> <<50>>], [k |-> "delsib", key |-> K1, sib |-> K0], [k |-> "undefkey", key |-> K1]}
SpecRv(rv) == IF rv.k = "other" THEN NoRv ELSE rv        \* 15.12.2 step 4: only a callable reviver is used

(* 15.12.2 step 1: JText = ToString(text) for the non-string arguments used *)
ArgText(v) ==
    CASE v.t = "undef" -> S_undefined
      [] v.t = "null" -> S_null
      [] v.t = "bool" -> IF v.b THEN S_true ELSE S_false
      [] v.t = "num" -> NumToStr(v.n)
      [] v.t = "str" -> v.s
ParseArgs == {IntV(12), Null, BoolV(TRUE), BoolV(FALSE), Undef, NumV(NaN), NumV(Canon(FALSE, <<3>>, -1)), NumV(NZero), NumV(PInf),
              NumV(DecToNum(FALSE, <<1>>, 21)), NumV(DecToNum(FALSE, <<1>>, -7)), IntV(-5)}

-----------------------------------------------------------------------------
(* the explicit families                                                     *)
SeqSet(sq) == {sq[i] : i \in 1..Len(sq)}
ParseCase(text, rv) == [fam |-> "parse", text |-> text, rv |-> rv]
StrCase(v, rp, sp) == [fam |-> "str", v |-> v, rp |-> rp, sp |-> sp]
StrValues == Atoms \cup Extremes \cup Depth1 \cup Depth2 \cup ToJSONVals \cup CycleVals
RtValues == {v \in Atoms \cup Depth1 \cup Depth2 \cup ToJSONDataVals : Representable(v)}
RtTexts == SeqSet(ToJSONTexts) \cup SeqSet(BaseTexts) \cup SeqSet(BaseTextsMore) \cup SeqSet(ExtraTexts) \cup (IF Deep THEN SeqSet(ExtraHeavyTexts) ELSE {})

(* values written directly in JavaScript: what 15.12.3 sees of them is the   *)
(* model value v (own enumerable data, [[Class]], [[PrimitiveValue]])        *)
Special(src, v, sp) == [fam |-> "special", src |-> src, v |-> v, sp |-> sp]
SharedObj == O1(Ka, IntV(1))
SpecialCases ==
    {Special("(function(){var o=Object.create({p:1});o.a=2;return o})()", O1(Ka, IntV(2)), NoSp),            \* inherited properties are not serialised
     Special("Object.defineProperty({a:1},'h',{value:2,enumerable:false})", O1(Ka, IntV(1)), NoSp),        \* nor non-enumerable ones
     Special("Object.defineProperty({a:1},'h',{value:2,enumerable:true,writable:false})", O2(Ka, IntV(1), <<104>>, IntV(2)), NoSp),
     Special("(function(){return arguments})(1,'x')", O2(<<48>>, IntV(1), <<49>>, StrV(<<120>>)), NoSp),   \* class Arguments is not an array
     Special("(function(){var a=[1,2];a.x=3;return a})()", A2(IntV(1), IntV(2)), NoSp),
     Special("(function(){var a=[];a[3]=1;return a})()", S!Arr(<<S!Hole, S!Hole, S!Hole, IntV(1)>>), NoSp),
     Special("({get a(){return 5},b:1})", O2(Ka, IntV(5), Kb, IntV(1)), NoSp),                                 \* [[Get]] runs getters
     Special("Math", S!Obj(<<>>), NoSp), Special("JSON", S!Obj(<<>>), NoSp), Special("/x/g", S!Obj(<<>>), NoSp),
     Special("[Math,parseInt,/x/]", S!Arr(<<S!Obj(<<>>), PlainFn, S!Obj(<<>>)>>), IntV(1)),
     Special("new String('ab')", S!Wrap("String", StrV(<<97, 98>>)), NoSp),
     Special("Object('s')", S!Wrap("String", StrV(<<115>>)), NoSp), Special("Object(7)", WN(7), NoSp), Special("[Object(true)]", A1(S!Wrap("Boolean", BoolV(TRUE))), NoSp),
     Special("(function(){var b=new Boolean(false);b.valueOf=function(){return true};return b})()", BoolV(FALSE), NoSp),   \* step 4.c: [[PrimitiveValue]]
     Special("(function(){var n=new Number(1);n.valueOf=function(){return 5};return n})()", IntV(5), NoSp),                 \* step 4.a: ToNumber
     Special("(function(){var s=new String('a');s.toString=function(){return 'z'};return s})()", StrV(<<122>>), NoSp),      \* step 4.b: ToString
     Special("(function(){var f=function(){};f.a=1;return [f,{f:f}]})()", A2(PlainFn, O1(<<102>>, PlainFn)), NoSp),
     Special("new Date(0)", StrV(S_iso_epoch), NoSp), Special("[new Date(0)]", A1(StrV(S_iso_epoch)), NoSp),       \* Date.prototype.toJSON (15.9.5.44)
     Special("new Date(NaN)", Null, NoSp),
     Special("(function(){var s={a:1};return [s,s,{x:s}]})()", S!Arr(<<SharedObj, SharedObj, O1(<<120>>, SharedObj)>>), NoSp),  \* shared, not cyclic
     Special("(function(){var s=[1];return {p:s,q:{r:s}}})()", O2(<<112>>, A1(IntV(1)), <<113>>, O1(<<114>>, A1(IntV(1)))), IntV(1)),
     Special("Object.keys({b:1,a:2})", A2(StrV(Kb), StrV(Ka)), NoSp),
     \* a toJSON property on an array / function / wrapper: data unless callable
     Special("(function(){var a=[1];a.toJSON={x:1};return a})()", A1(IntV(1)), NoSp),
     Special("(function(){var a=[1];a.toJSON=[2];return {k:a}})()", O1(<<107>>, A1(IntV(1))), NoSp),
     Special("(function(){var a=[1];a.toJSON=function(){return 7};return [a]})()", A1(IntV(7)), NoSp),
     Special("(function(){var n=new Number(1);n.toJSON={x:1};return [n]})()", A1(IntV(1)), NoSp),
     Special("(function(){var n=new String('s');n.toJSON=function(k){return 'K'+k};return {q:n}})()", O1(<<113>>, StrV(<<75, 113>>)), NoSp),
     Special("(function(){var p={toJSON:{x:1}};var o=Object.create(p);o.a=1;return o})()", O1(Ka, IntV(1)), NoSp),              \* inherited non-callable toJSON
     Special("(function(){var p={toJSON:function(){return 9}};var o=Object.create(p);o.a=1;return [o]})()", A1(IntV(9)), NoSp)}    \* inherited method: [[Get]]

(* the Go-side family: primitives x every way into encoding/json; objects    *)
(* through Value.MarshalJSON and one more way each (all ways when Deep);      *)
(* Export + json.Marshal for what JSON can represent (and undefined: nil)     *)
GoExportable(v) == v.t = "undef" \/ Representable(v)
GoModeOk(v, m) == CASE m = "export" -> GoExportable(v) [] m = "object" -> S!IsObjectType(v) [] OTHER -> TRUE
GoObjSeq == IF Fam # "list" THEN <<>> ELSE SetToSeq(GoObjs)          \* (constant definitions are evaluated at start-up of every run)
GoRot(v, i) == LET m == GoObjModes[(i % Len(GoObjModes)) + 1] IN IF GoModeOk(v, m) THEN m ELSE "object"
GoCases ==
    IF Fam # "list" THEN {} ELSE
    {GoCase(v, GoPrimModes[m]) : v \in GoPrims, m \in 1..Len(GoPrimModes)}
    \cup {GoCase(v, m) : v \in GoEscPrims, m \in {"value", "map"}}
    \cup {GoCase(v, "value") : v \in GoObjs}
    \cup {GoCase(GoObjSeq[i], GoRot(GoObjSeq[i], i)) : i \in 1..Len(GoObjSeq)}
    \cup {GoCase(c, "export") : c \in UNION {{A1(StrV(u)), O1(u, StrV(u))} : u \in GoUnitStrs}}
    \cup (IF Deep THEN {GoCase(v, GoObjModes[m]) : v \in GoObjs, m \in 1..Len(GoObjModes)}
                        \cup {GoCase(NumV(n), m) : n \in NumExtremes, m \in {"value", "map"}}      \* their decimal text costs seconds
           ELSE {})
GoCasesOk == {c \in GoCases : GoModeOk(c.v, c.mode)}

(* TLC evaluates constant definitions once per worker at start-up: the      *)
(* explicit families are built only for the run that uses them               *)
ListCases ==
    IF Fam # "list" THEN {} ELSE
    GoCasesOk \cup
    {ParseCase(t, NoRv) : t \in SeqSet(ExtraTexts) \cup SeqSet(ExtraHeavyTexts) \cup SeqSet(SurrTexts) \cup SeqSet(BaseTextsMore) \cup SeqSet(ToJSONTexts)}
    \cup {ParseCase(t, [k |-> "id"]) : t \in SeqSet(ToJSONTexts)}
    \cup {ParseCase(t, rv) : t \in SeqSet(LenTexts), rv \in LenRevivers}
    \cup {StrCase(v, NoRp, NoSp) : v \in EscValues}
    \cup {StrCase(O1(e, StrV(e)), NoRp, IntV(1)) : e \in EscStrings}
    \cup {[fam |-> "rt1", v |-> v] : v \in EscValues}
    \cup {StrCase(v, rp, NoSp) : v \in ToJSONDataVals, rp \in ToJSONDataReps}
    \cup {StrCase(v, NoRp, IntV(1)) : v \in ToJSONDataVals}
    \cup {ParseCase(t, rv) : t \in SeqSet(ReviveTexts), rv \in Revivers}
    \cup {[fam |-> "parsearg", arg |-> a] : a \in ParseArgs}
    \cup {StrCase(v, NoRp, NoSp) : v \in StrValues}
    \cup {StrCase(v, NoRp, IntV(2)) : v \in (Depth1 \cup Depth2 \cup ToJSONVals)}
    \cup {StrCase(v, rp, sp) : v \in RepVals, rp \in FnReps \cup ListReps \cup OtherReps, sp \in {NoSp, IntV(1)}}
    \cup {StrCase(v, [k |-> "id"], NoSp) : v \in CycleVals \cup ToJSONVals}
    \cup {StrCase(v, NoRp, sp) : v \in SpaceVals, sp \in Spaces}
    \cup SpecialCases
    \cup {[fam |-> "rt1", v |-> v] : v \in RtValues}
    \cup {[fam |-> "rt2", text |-> t] : t \in RtTexts}

-----------------------------------------------------------------------------
(* rendering a case as JavaScript (parts: verbatim text, [lit |-> primitive]) *)
Lit(v) == [lit |-> v]
CV(d) == "c" \o ToString(d)
RECURSIVE JsOf(_, _), JsItems(_, _, _), JsMembers(_, _, _), JsBeh(_)
JsOf(v, d) ==
    CASE v.t = "fn" -> <<"FN(" \o ToString(v.id) \o ",function(k){">> \o JsBeh(v.beh) \o <<"})">>
      [] v.t = "wrap" -> <<"new " \o v.cls \o "(", Lit(v.v), ")">>
      [] v.t = "up" -> <<CV(d - v.up)>>
      [] v.t = "arr" -> <<"(" \o CV(d) \o "=[],">> \o JsItems(v.items, d, 1)
                        \o <<CV(d) \o ".length=" \o ToString(Len(v.items)) \o "," \o CV(d) \o ")">>
      [] v.t = "obj" -> <<"(" \o CV(d) \o "={},">> \o JsMembers(v.members, d, 1) \o <<CV(d) \o ")">>
      [] v.t = "absent" -> <<"undefined">>
      [] OTHER -> <<Lit(v)>>
JsItems(items, d, i) ==
    IF i > Len(items) THEN <<>>
    ELSE IF items[i].t = "hole" THEN JsItems(items, d, i + 1)
    ELSE <<CV(d) \o "[" \o ToString(i - 1) \o "]=">> \o JsOf(items[i], d + 1) \o <<",">> \o JsItems(items, d, i + 1)
JsMembers(ms, d, i) ==
    IF i > Len(ms) THEN <<>>
    ELSE <<CV(d) \o "[", Lit(StrV(ms[i].key)), "]=">> \o JsOf(ms[i].val, d + 1) \o <<",">> \o JsMembers(ms, d, i + 1)
JsBeh(b) ==
    CASE b.k = "undef" -> <<>>
      [] b.k = "ret" -> <<"return ">> \o JsOf(b.v, 0) \o <<";">>
      [] b.k = "key" -> <<"return 'K'+k;">>
      [] b.k = "self" -> <<"return this;">>
      [] b.k = "selfroot" -> <<"return k===''?this:1;">>
      [] b.k = "throw" -> <<"throw 'TJ';">>

RECURSIVE JsList(_, _)
JsList(items, i) ==
    IF i > Len(items) THEN <<>>
    ELSE JsOf(items[i], 0) \o (IF i < Len(items) THEN <<",">> ELSE <<>>) \o JsList(items, i + 1)
JsRp(rp) ==
    CASE rp.k = "none" -> <<"undefined">>
      [] rp.k = "other" -> JsOf(rp.v, 0)
      [] rp.k = "list" -> <<"[">> \o JsList(rp.items, 1) \o <<"]">>
      [] rp.k \in {"id", "num2str"} -> <<"RPF('" \o rp.k \o "')">>
      [] rp.k \in {"undefkey", "throwkey"} -> <<"RPF('" \o rp.k \o "',", Lit(StrV(rp.key)), ")">>
      [] rp.k = "replkey" -> <<"RPF('replkey',", Lit(StrV(rp.key)), ",function(){return ">> \o JsOf(rp.v, 0) \o <<";})">>
JsRv(rv) ==
    CASE rv.k = "other" -> JsOf(rv.v, 0)
      [] rv.k \in {"id", "undefall", "num2str", "wrapstr"} -> <<"RVF('" \o rv.k \o "')">>
      [] rv.k \in {"undefkey", "throwkey"} -> <<"RVF('" \o rv.k \o "',", Lit(StrV(rv.key)), ")">>
      [] rv.k \in {"delsib", "addsib"} -> <<"RVF('" \o rv.k \o "',", Lit(StrV(rv.key)), ",", Lit(StrV(rv.sib)), ")">>
      [] rv.k = "setlen" -> <<"RVF('setlen',", Lit(StrV(rv.key)), "," \o ToString(rv.n) \o ")">>
      [] rv.k = "push" -> <<"RVF('push',", Lit(StrV(rv.key)), ",0,function(){return ">> \o JsOf(rv.v, 0) \o <<";})">>
      [] rv.k = "setel" -> <<"RVF('setel',", Lit(StrV(rv.key)), ",", Lit(StrV(rv.sib)), ",function(){return ">> \o JsOf(rv.v, 0) \o <<";})">>

JsStringify(v, rp, sp) ==
    <<"JSON.stringify(">> \o JsOf(v, 0)
    \o (IF sp.t = "absent" THEN (IF rp.k = "none" THEN <<>> ELSE <<",">> \o JsRp(rp))
        ELSE <<",">> \o JsRp(rp) \o <<",">> \o JsOf(sp, 0))
    \o <<")">>

Js(c) ==
    CASE c.fam = "parse" -> <<"JSON.parse(", Lit(StrV(c.text))>> \o (IF c.rv.k = "none" THEN <<>> ELSE <<",">> \o JsRv(c.rv)) \o <<")">>
      [] c.fam = "parsearg" -> <<"JSON.parse(", Lit(c.arg), ")">>
      [] c.fam = "str" -> JsStringify(c.v, c.rp, c.sp)
      [] c.fam = "special" -> <<"JSON.stringify(" \o c.src>> \o (IF c.sp.t = "absent" THEN <<>> ELSE <<",null,">> \o JsOf(c.sp, 0)) \o <<")">>
      [] c.fam = "rt1" -> <<"JSON.parse(">> \o JsStringify(c.v, NoRp, NoSp) \o <<")">>
      [] c.fam = "rt2" -> <<"JSON.stringify(JSON.parse(", Lit(StrV(c.text)), "))">>
      [] c.fam = "go" -> JsOf(c.v, 0)                      \* the value only: the harness marshals it on the Go side (c.mode)

-----------------------------------------------------------------------------
(* expected outcomes: the set the specification permits (a singleton for the *)
(* strict instance)                                                          *)
StrOut(St(_, _, _), SO(_), c) == SO(St(c.v, c.rp, c.sp))

Rt1Strict(c) ==          \* parse(stringify(v)) is structurally equal to v: checked on the specification itself
    LET t == S!Stringify(c.v, NoRp, NoSp)
        p == S!ParseText(t.s)
    IN  IF Assert(t.thr = "" /\ ~t.undef /\ p.ok /\ p.v = c.v, <<"round trip fails in the specification", c.v>>)
        THEN S!POutcome("", p.v, <<>>) ELSE S!POutcome("", p.v, <<>>)
Rt1Dev(c) ==
    LET t == L!Stringify(c.v, NoRp, NoSp) IN L!ParseOutcomes(t.s, NoRv)

Rt2Strict(c) ==          \* stringify(parse(t)) denotes the same value as t
    LET p == S!ParseText(c.text)
    IN  IF ~p.ok THEN S!POutcome("SyntaxError", Undef, <<>>)
        ELSE LET t == S!Stringify(p.v, NoRp, NoSp)
                 q == S!ParseText(t.s)
                 same == IF Representable(p.v) THEN q.ok /\ q.v = p.v ELSE TRUE      \* Infinity and -0 are not representable
             IN  IF Assert(same, <<"round trip fails in the specification", c.text>>) THEN S!SOutcome(t) ELSE S!SOutcome(t)
Rt2Dev(c) ==
    LET p == L!ParseText(c.text)
    IN  IF ~p.ok THEN {L!POutcome("SyntaxError", Undef, <<>>)}
        ELSE {L!SOutcome(L!Stringify(tr, NoRp, NoSp)) : tr \in L!ParseTrees(p.v)}

Strict(c) ==
    CASE c.fam = "parse" -> CHOOSE x \in S!ParseOutcomes(c.text, SpecRv(c.rv)) : TRUE
      [] c.fam = "parsearg" -> CHOOSE x \in S!ParseOutcomes(ArgText(c.arg), NoRv) : TRUE
      [] c.fam = "str" -> S!SOutcome(S!Stringify(c.v, c.rp, c.sp))
      [] c.fam = "special" -> S!SOutcome(S!Stringify(c.v, NoRp, c.sp))
      [] c.fam = "rt1" -> Rt1Strict(c)
      [] c.fam = "rt2" -> Rt2Strict(c)
      [] c.fam = "go" -> S!SOutcome(S!GoMarshal(c.v, c.mode))
Deviating(c) ==
    CASE c.fam = "parse" -> L!ParseOutcomes(c.text, SpecRv(c.rv))
      [] c.fam = "parsearg" -> L!ParseOutcomes(ArgText(c.arg), NoRv)
      [] c.fam = "str" -> {L!SOutcome(L!Stringify(c.v, c.rp, c.sp))}
      [] c.fam = "special" -> {L!SOutcome(L!Stringify(c.v, NoRp, c.sp))}
      [] c.fam = "rt1" -> Rt1Dev(c)
      [] c.fam = "rt2" -> Rt2Dev(c)
      [] c.fam = "go" -> {L!SOutcome(L!GoMarshal(c.v, c.mode))} \cup {S!SOutcome(a) : a \in S!GoMarshalNonFiniteAlt(c.v)}

-----------------------------------------------------------------------------
(* single-character mutations of a text: code 0 = original, 1 = deletion at  *)
(* pos, 2..NA+1 = substitution, NA+2..2NA+1 = insertion before pos           *)
NA == Len(MutAlphabet)
NCodes == 2 * NA + 2
Mutate(t, pos, code) ==
    IF code = 0 THEN t
    ELSE IF code = 1 THEN (IF pos <= Len(t) THEN SubSeq(t, 1, pos - 1) \o SubSeq(t, pos + 1, Len(t)) ELSE t)
    ELSE IF code <= NA + 1 THEN (IF pos <= Len(t) THEN [t EXCEPT ![pos] = MutAlphabet[code - 1]] ELSE t)
    ELSE SubSeq(t, 1, pos - 1) \o <<MutAlphabet[code - NA - 1]>> \o SubSeq(t, pos, Len(t))
MutTexts == IF Deep THEN BaseTexts \o BaseTextsMore ELSE BaseTexts

(* Evaluation is spread over the TLC workers: an initial state is a block,   *)
(* its successors are the cases of the block.                                *)
K == 64
CaseSeq == SetToSeq(ListCases)
None == [fam |-> "none"]
Sub(S0) == IF NSel = 0 \/ NSel >= Cardinality(S0) THEN S0 ELSE RandomSubset(NSel, S0)
Init == /\ cs = None
        /\ IF Fam = "list" THEN blk \in {<<b, 0>> : b \in 1..K}
           ELSE blk \in {<<ti, pos>> : ti \in 1..Len(MutTexts), pos \in 1..40} /\ blk[2] <= Len(MutTexts[blk[1]]) + 1
Next == /\ cs = None
        /\ UNCHANGED blk
        /\ CASE Fam = "list" -> \E j \in Sub({i \in 1..Len(CaseSeq) : i % K = blk[1] - 1}) : cs' = CaseSeq[j]
             [] Fam = "mut" -> \E code \in Sub(0..(NCodes - 1)) :
                                  cs' = ParseCase(Mutate(MutTexts[blk[1]], blk[2], code), NoRv)
             [] Fam = "mut2" -> \E n \in Sub(0..(NCodes * NCodes * 40 - 1)) :
                                  LET c1 == n % NCodes
                                      c2 == (n \div NCodes) % NCodes
                                      t1 == Mutate(MutTexts[blk[1]], blk[2], c1)
                                      p2 == ((n \div (NCodes * NCodes)) % (Len(t1) + 1)) + 1
                                  IN  cs' = ParseCase(Mutate(t1, p2, c2), NoRv)
Emit ==
    cs = None \/
    LET es == Strict(cs)
        ds == Deviating(cs) \ {es}
        rep == IF cs.fam \in {"parse", "rt1"} /\ Fam = "list" THEN 2 ELSE 1
    IN  PrintT("VJSON " \o ToJson([fam |-> cs.fam, c |-> cs, js |-> Js(cs), exp |-> es, dev |-> SetToSeq(ds), rep |-> rep]))
=============================================================================
