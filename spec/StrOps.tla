------------------------------- MODULE StrOps -------------------------------
(* ES5.1 clause 15.5 (String objects) and Annex B.2.3 on strings that are    *)
(* sequences of UTF-16 code units: every position and length below counts    *)
(* code units.  Receivers and arguments are the values of Ops.tla            *)
(* (primitives, scripted conversion objects "cobj") plus                     *)
(*   [t |-> "strobj", s |-> units]     a String object (new String(s)).      *)
(*   [t |-> "strobjx", s, id, ts]      a String object with an OWN scripted  *)
(*                                     toString (behaviour ts as in Ops.tla) *)
(* Results are Ops outcomes [thr, v, log]; an array result is                *)
(*   [t |-> "arr", a |-> <<values>>].                                        *)
(*                                                                           *)
(* `style` says how the receiver reaches the built-in: "member" (recv.m()),  *)
(* "call" (String.prototype.m.call(recv, ...)), "comma" ((0, m)(...), this   *)
(* is undefined).  ES5 does not distinguish them (a built-in receives the    *)
(* this value unchanged); only named deviations do.                          *)
(*                                                                           *)
(* Known deviations of the implementation are the branches D("D09_...").     *)
EXTENDS Ops, C09Str

Bind(r, F(_)) == IF r.thr # "" THEN r ELSE F(r)
Arg(args, i) == IF i <= Len(args) THEN args[i] ELSE Undef      \* a missing argument is undefined (15 intro)
ArrV(seq) == [t |-> "arr", a |-> seq]
StrObj(s) == [t |-> "strobj", s |-> s]

MaxI(a, b) == IF a >= b THEN a ELSE b
MinI(a, b) == IF a <= b THEN a ELSE b
SetMin(S) == CHOOSE x \in S : \A y \in S : x <= y
SetMax(S) == CHOOSE x \in S : \A y \in S : x >= y

Pow2N(k) == Canon(FALSE, <<1>>, k)
MaxU32 == Canon(FALSE, BnSub(BnShl(<<1>>, 32), <<1>>), 0)

-----------------------------------------------------------------------------
(* positions: p is the result of ToInteger (9.4): an integral Num or +-inf   *)
NLt0(p) == IsNeg(p) /\ ~IsZero(p)                       \* p < 0
IntOf(p) == IF p.c = "int" THEN p.v ELSE 0              \* for p known to be a small integer (or -0)
Clamp0(p, len) ==                                       \* min(max(p, 0), len)
    IF NLt0(p) THEN 0 ELSE IF NumCmp(p, I(len)) >= 0 THEN len ELSE IntOf(p)
Rel(p, len) ==                                          \* p < 0 -> max(len + p, 0) ; else min(p, len)
    IF NLt0(p) THEN (IF NumCmp(p, I(-len)) <= 0 THEN 0 ELSE len + p.v)
    ELSE IF NumCmp(p, I(len)) >= 0 THEN len ELSE IntOf(p)

ToIntegerV(v, log) == Bind(ToNumber(v, log), LAMBDA r : R(NumV(ToIntegerN(r.v.n)), r.log))

-----------------------------------------------------------------------------
(* The implementation's views of a string, needed by named deviations only:  *)
(* it stores UTF-8; a "rune" is a code point: one unit, or a surrogate pair. *)
IsHiSur(u) == u >= 55296 /\ u <= 56319
IsLoSur(u) == u >= 56320 /\ u <= 57343
RECURSIVE RunesAt(_, _)
RunesAt(s, i) ==
    IF i > Len(s) THEN <<>>
    ELSE IF IsHiSur(s[i]) /\ i < Len(s) /\ IsLoSur(s[i + 1]) THEN <<<<s[i], s[i + 1]>>>> \o RunesAt(s, i + 2)
    ELSE <<<<IF IsHiSur(s[i]) \/ IsLoSur(s[i]) THEN 65533 ELSE s[i]>>>> \o RunesAt(s, i + 1)
Runes(s) == RunesAt(s, 1)
RECURSIVE Flat(_)
Flat(rs) == IF rs = <<>> THEN <<>> ELSE Head(rs) \o Flat(Tail(rs))
Sanitize(s) == Flat(Runes(s))                           \* every unpaired surrogate becomes U+FFFD
Utf8W(r) == IF Len(r) = 2 THEN 4 ELSE IF r[1] < 128 THEN 1 ELSE IF r[1] < 2048 THEN 2 ELSE 3
RECURSIVE ByteOffs(_, _, _)
ByteOffs(rs, i, acc) == IF i > Len(rs) THEN <<acc>> ELSE <<acc>> \o ByteOffs(rs, i + 1, acc + Utf8W(rs[i]))
RECURSIVE UnitOffs(_, _, _)
UnitOffs(rs, i, acc) == IF i > Len(rs) THEN <<acc>> ELSE <<acc>> \o UnitOffs(rs, i + 1, acc + Len(rs[i]))
(* offsets of rune boundary k (0-based) are BO[k + 1], UO[k + 1] *)

(* a string result as the implementation can represent it *)
San(s) == IF D("D09_lone_surrogate_fffd") THEN Sanitize(s) ELSE s

(* what a JavaScript catch clause receives when a Go run-time error escapes a built-in *)
NilPanic(log) == TV(StrV(S9_nilDeref), log)             \* nil pointer dereference: thrown as a string
BoundsPanic(log) == T("TypeError", log)                 \* slice bounds: surfaces as a TypeError in the enclosing try

-----------------------------------------------------------------------------
(* 15.5.4.x steps 1-2: CheckObjectCoercible(this), ToString(this)            *)
Recv(this, style) ==
    IF D("D09_call_undefined_this_global") /\ style = "call" /\ this.t = "undef"
    THEN [t |-> "global"]                               \* Function.prototype.call substitutes the global object
    ELSE this
IsStringObjectThis(this, style) == this.t \in {"strobj", "strobjx"} \/ (this.t = "str" /\ style = "member")

ToStringThis(this, log) ==                              \* 9.8 (also used for arguments: they may be String objects)
    CASE this.t = "strobj" -> R(StrV(this.s), log)      \* 8.12.8 -> 15.5.4.2 (String.prototype unmodified)
      [] this.t = "strobjx" ->                            \* 8.12.8 hint String: the own toString first, then the
                                                          \* inherited valueOf (15.5.4.3: the [[PrimitiveValue]])
            LET a == TryConv([id |-> this.id, vo |-> [k |-> "inherit"], ts |-> this.ts], "ts", log)
            IN  IF ~a.done THEN R(StrV(this.s), a.r.log)
                ELSE IF a.r.thr # "" THEN a.r ELSE R(StrV(ToStringPrim(a.r.v)), a.r.log)
      [] this.t = "global" -> R(StrV(S9_objEnvironment), log)
      [] OTHER -> ToStringV(this, log)
ThisStr(this, log) ==
    IF this.t \in {"undef", "null"} THEN T("TypeError", log)      \* 9.10
    ELSE ToStringThis(this, log)

-----------------------------------------------------------------------------
(* 15.5.4.4 charAt, 15.5.4.5 charCodeAt *)
CharAtLike(m, this0, style, args, log) ==
    LET this == Recv(this0, style)
    IN  IF this.t \in {"undef", "null"} THEN T("TypeError", log)
        ELSE IF D("D09_charAt_receiver_nil_panic") /\ ~IsStringObjectThis(this, style)
        THEN Bind(ToNumber(Arg(args, 1), log), LAMBDA p : NilPanic(p.log))
        ELSE
        Bind(ToStringThis(this, log), LAMBDA s :                     \* step 2
        Bind(ToIntegerV(Arg(args, 1), s.log), LAMBDA p :             \* step 3
            LET S == s.v.s
                n == p.v.n
                inr == ~NLt0(n) /\ NumCmp(n, I(Len(S))) < 0           \* step 5
            IN  IF m = "charAt"
                THEN R(StrV(IF inr THEN San(<<S[IntOf(n) + 1]>>) ELSE <<>>), p.log)
                ELSE R(NumV(IF inr THEN I(S[IntOf(n) + 1]) ELSE NaN), p.log)))

(* 15.5.4.6 concat *)
RECURSIVE ConcatFrom(_, _, _, _)
ConcatFrom(args, i, acc, log) ==
    IF i > Len(args) THEN R(StrV(San(acc)), log)
    ELSE Bind(ToStringThis(args[i], log), LAMBDA t : ConcatFrom(args, i + 1, acc \o t.v.s, t.log))
Concat(this, style, args, log) ==
    Bind(ThisStr(Recv(this, style), log), LAMBDA s : ConcatFrom(args, 1, s.v.s, s.log))

(* the implementation's indexOf: the position is a BYTE offset into the UTF-8 form, *)
(* added back to a code-unit count                                           *)
IndexOfBytes(S, Tt, p) ==
    LET rs == Runes(S)  rt == Runes(Tt)
        bo == ByteOffs(rs, 1, 0)  uo == UnitOffs(rs, 1, 0)
        nr == Len(rs)  nb == bo[nr + 1]
        st == Clamp0(p, nb)
    IN  IF st >= nb THEN (IF Tt = <<>> THEN nb ELSE -1)
        ELSE IF Tt = <<>> THEN st
        ELSE LET k0 == SetMin({k \in 0..nr : bo[k + 1] >= st})
                 ks == {k \in k0..(nr - Len(rt)) : SubSeq(rs, k + 1, k + Len(rt)) = rt}
             IN  IF ks = {} THEN -1
                 ELSE (bo[k0 + 1] - st) + (uo[SetMin(ks) + 1] - uo[k0 + 1]) + st

(* 15.5.4.7 indexOf *)
IndexOf(this, style, args, log) ==
    Bind(ThisStr(Recv(this, style), log), LAMBDA s :                  \* steps 1-2
    Bind(ToStringThis(Arg(args, 1), s.log), LAMBDA t :                   \* step 3
    Bind(ToIntegerV(Arg(args, 2), t.log), LAMBDA p :                  \* step 4
        LET S == s.v.s  Tt == t.v.s
            start == Clamp0(p.v.n, Len(S))                             \* step 6
        IN  R(IntV(IF D("D09_indexOf_pos_bytes") /\ Len(args) >= 2
                   THEN IndexOfBytes(S, Tt, p.v.n)
                   ELSE IndexFrom(S, Tt, start + 1) - 1), p.log))))   \* step 8

(* the implementation's lastIndexOf: the bound is a BYTE offset *)
LastIndexOfBytes(S, Tt, pos) ==
    LET rs == Runes(S)  rt == Runes(Tt)
        bo == ByteOffs(rs, 1, 0)  uo == UnitOffs(rs, 1, 0)
        nr == Len(rs)  nb == bo[nr + 1]
        start == Clamp0(pos, nb)
    IN  IF Tt = <<>>
        THEN LET k0 == SetMax({k \in 0..nr : bo[k + 1] <= start})
             IN  uo[k0 + 1] + (start - bo[k0 + 1])
        ELSE LET ks == {k \in 0..(nr - Len(rt)) : bo[k + 1] <= start /\ SubSeq(rs, k + 1, k + Len(rt)) = rt}
             IN  IF ks = {} THEN -1 ELSE uo[SetMax(ks) + 1]

(* 15.5.4.8 lastIndexOf *)
LastIndexOf(this, style, args, log) ==
    Bind(ThisStr(Recv(this, style), log), LAMBDA s :                  \* steps 1-2
    Bind(ToStringThis(Arg(args, 1), s.log), LAMBDA t :                   \* step 3
        LET S == s.v.s  Tt == t.v.s
        IN  IF D("D09_lastIndexOf_empty_skips_tonumber") /\ S = <<>>
            THEN R(IntV(LastIndexFrom(S, Tt, 1) - 1), t.log)
            ELSE
            Bind(ToNumber(Arg(args, 2), t.log), LAMBDA np :           \* step 4
                LET n == np.v.n
                    pos == IF IsNaN(n)                                 \* step 5
                           THEN (IF D("D09_lastIndexOf_nan_pos") /\ Arg(args, 2).t # "undef" THEN I(0) ELSE PInf)
                           ELSE IF D("D09_lastIndexOf_neginf_pos") /\ n = NInf THEN PInf
                           ELSE ToIntegerN(n)
                    start == Clamp0(pos, Len(S))                       \* step 7
                IN  IF D("D09_lastIndexOf_huge_pos_panic") /\ IsFinite(pos) /\ NumCmp(pos, Pow2N(63)) >= 0
                       /\ S # <<>> /\ Tt # <<>>
                    THEN BoundsPanic(np.log)
                    ELSE R(IntV(IF D("D09_lastIndexOf_pos_bytes")
                                THEN LastIndexOfBytes(S, Tt, pos)
                                ELSE LastIndexFrom(S, Tt, start + 1) - 1), np.log))))   \* step 9

(* 15.5.4.9 localeCompare: the order is implementation-defined; equal strings *)
(* compare as +0.  v = [t |-> "lc", same |-> S = That]                        *)
LocaleCompare(this, style, args, log) ==
    Bind(ThisStr(Recv(this, style), log), LAMBDA s :
    Bind(ToStringThis(Arg(args, 1), s.log), LAMBDA t :
        R([t |-> "lc", same |-> s.v.s = t.v.s], t.log)))

(* 15.5.4.13 slice *)
Slice(this, style, args, log) ==
    Bind(ThisStr(Recv(this, style), log), LAMBDA s :                  \* steps 1-2
    Bind(ToIntegerV(Arg(args, 1), s.log), LAMBDA a :                  \* step 4
    Bind(IF Arg(args, 2).t = "undef" THEN R(Undef, a.log) ELSE ToIntegerV(Arg(args, 2), a.log), LAMBDA b :   \* step 5
        LET byRunes == D("D09_slice_runes")
            X == IF byRunes THEN Runes(s.v.s) ELSE s.v.s               \* the elements that are counted
            len == Len(X)
            from == Rel(a.v.n, len)                                    \* step 6
            to == IF b.v.t = "undef" THEN len ELSE Rel(b.v.n, len)     \* step 7
            span == MaxI(to - from, 0)                                 \* step 8
            sub == SubSeq(X, from + 1, from + span)
        IN  R(StrV(San(IF byRunes THEN Flat(sub) ELSE sub)), b.log))))

(* 15.5.4.15 substring *)
Substring(this, style, args, log) ==
    Bind(ThisStr(Recv(this, style), log), LAMBDA s :
    Bind(ToIntegerV(Arg(args, 1), s.log), LAMBDA a :                  \* step 4
    Bind(IF Arg(args, 2).t = "undef" THEN R(Undef, a.log) ELSE ToIntegerV(Arg(args, 2), a.log), LAMBDA b :   \* step 5
        LET byRunes == D("D09_substring_runes")
            X == IF byRunes THEN Runes(s.v.s) ELSE s.v.s
            len == Len(X)
            fs == Clamp0(a.v.n, len)                                   \* step 6
            fe == IF b.v.t = "undef" THEN len ELSE Clamp0(b.v.n, len)  \* step 7
            sub == SubSeq(X, MinI(fs, fe) + 1, MaxI(fs, fe))           \* steps 8-10
        IN  R(StrV(San(IF byRunes THEN Flat(sub) ELSE sub)), b.log))))

(* B.2.3 substr: step 1 is ToString(this) WITHOUT CheckObjectCoercible *)
Substr(this0, style, args, log) ==
    LET this == Recv(this0, style)
    IN  Bind(IF this.t \in {"undef", "null"} THEN R(StrV(ToStringPrim(this)), log) ELSE ToStringThis(this, log), LAMBDA s :
        Bind(ToIntegerV(Arg(args, 1), s.log), LAMBDA a :              \* step 2
        Bind(IF Arg(args, 2).t = "undef" THEN R(NumV(PInf), a.log) ELSE ToIntegerV(Arg(args, 2), a.log), LAMBDA l :   \* step 3
            LET byRunes == D("D09_substr_runes")
                X == IF byRunes THEN Runes(s.v.s) ELSE s.v.s
                size == Len(X)                                         \* step 4
                beyond == ~NLt0(a.v.n) /\ NumCmp(a.v.n, I(size)) >= 0
                r5 == Rel(a.v.n, size)                                 \* step 5
                r6 == Clamp0(l.v.n, size - r5)                         \* step 6
                sub == SubSeq(X, r5 + 1, r5 + r6)
            IN  IF D("D09_substr_length_overflow_panic") /\ Arg(args, 2).t # "undef"
                   /\ ~IsNaN(l.v.n) /\ NumCmp(l.v.n, Pow2N(63)) >= 0 /\ r5 >= 1 /\ r5 < size
                THEN BoundsPanic(l.log)
                ELSE IF beyond \/ r6 <= 0 THEN R(StrV(<<>>), l.log)    \* step 7
                ELSE R(StrV(San(IF byRunes THEN Flat(sub) ELSE sub)), l.log))))   \* step 8

(* 15.5.4.14 split with a String separator *)
SplitMatch(S, q, Rr) ==               \* q 0-based; end index or -1 (failure)
    IF q + Len(Rr) > Len(S) THEN -1
    ELSE IF SubSeq(S, q + 1, q + Len(Rr)) = Rr THEN q + Len(Rr) ELSE -1
RECURSIVE SplitLoop(_, _, _, _, _, _)
SplitLoop(S, Rr, lim, p, q, A) ==     \* step 13
    IF q = Len(S) THEN Append(A, SubSeq(S, p + 1, Len(S)))             \* step 14
    ELSE LET e == SplitMatch(S, q, Rr)
         IN  IF e = -1 \/ e = p THEN SplitLoop(S, Rr, lim, p, q + 1, A)
             ELSE LET A2 == Append(A, SubSeq(S, p + 1, q))
                  IN  IF NumCmp(I(Len(A2)), lim) = 0 THEN A2
                      ELSE SplitLoop(S, Rr, lim, e, e, A2)
StrArr(seq) == ArrV([i \in 1..Len(seq) |-> StrV(San(seq[i]))])
Split(this, style, args, log) ==
    Bind(ThisStr(Recv(this, style), log), LAMBDA s :                  \* steps 1-2
    Bind(IF Arg(args, 2).t = "undef" THEN R(NumV(MaxU32), s.log)      \* step 5
         ELSE Bind(ToNumber(Arg(args, 2), s.log), LAMBDA n : R(NumV(ToUint32N(n.v.n)), n.log)), LAMBDA lim :
        IF D("D09_split_lim0_skips_separator_tostring") /\ IsZero(lim.v.n)
        THEN R(ArrV(<<>>), lim.log)
        ELSE
        Bind(ToStringThis(Arg(args, 1), lim.log), LAMBDA r :             \* step 8
            LET S == s.v.s  Rr == r.v.s
            IN  IF IsZero(lim.v.n) THEN R(ArrV(<<>>), r.log)           \* step 9
                ELSE IF Arg(args, 1).t = "undef" THEN R(StrArr(<<S>>), r.log)     \* step 10
                ELSE IF S = <<>>                                       \* step 11
                     THEN R(IF SplitMatch(S, 0, Rr) # -1 THEN ArrV(<<>>) ELSE StrArr(<<S>>), r.log)
                ELSE IF D("D09_split_empty_separator_runes") /\ Rr = <<>>
                     THEN LET rs == Runes(S)                           \* code points instead of code units
                              k == IF NumCmp(lim.v.n, I(Len(rs))) >= 0 THEN Len(rs) ELSE IntOf(lim.v.n)
                          IN  R(StrArr(SubSeq(rs, 1, k)), r.log)
                ELSE R(StrArr(SplitLoop(S, Rr, lim.v.n, 0, 0, <<>>)), r.log))))

(* 15.5.4.16 toLowerCase / 15.5.4.18 toUpperCase: the simple case mappings   *)
(* of UnicodeData.txt for the letters listed here (stable since Unicode 3.0); *)
(* the generator uses no other cased letters, no character with a            *)
(* SpecialCasing.txt entry (U+00DF, U+0130, U+0149, U+01F0, U+0390, ...) and *)
(* not U+03A3 (Final_Sigma context).                                         *)
EvenUpper == {256, 258, 260, 262, 268, 280, 286, 306, 336, 346, 350, 352, 366, 368}   \* U+0100.. pairs (upper even, lower = +1)
OddUpper  == {313, 317, 321, 323, 327, 377, 379, 381}                                      \* U+0139.. pairs (upper odd, lower = +1)
LowerU(u) ==
    CASE u >= 65 /\ u <= 90 -> u + 32
      [] u >= 192 /\ u <= 222 /\ u # 215 -> u + 32
      [] u >= 913 /\ u <= 939 /\ u # 930 -> u + 32          \* Greek (U+03A3 -> U+03C3 is in the table, not generated)
      [] u >= 1040 /\ u <= 1071 -> u + 32                   \* Cyrillic
      [] u >= 1024 /\ u <= 1039 -> u + 80
      [] u \in EvenUpper \cup OddUpper -> u + 1
      [] u = 376 -> 255                                     \* U+0178 -> U+00FF
      [] u = 8490 -> 107                                    \* KELVIN SIGN
      [] u = 8491 -> 229                                    \* ANGSTROM SIGN
      [] u = 8486 -> 969                                    \* OHM SIGN
      [] u = 452 -> 454  [] u = 453 -> 454                  \* DZ digraph, titlecase form
      [] OTHER -> u
UpperU(u) ==
    CASE u >= 97 /\ u <= 122 -> u - 32
      [] u >= 224 /\ u <= 254 /\ u # 247 -> u - 32
      [] u = 255 -> 376
      [] u = 181 -> 924                                     \* MICRO SIGN -> U+039C
      [] u >= 945 /\ u <= 971 /\ u # 962 -> u - 32
      [] u = 962 -> 931                                     \* final sigma -> U+03A3
      [] u >= 1072 /\ u <= 1103 -> u - 32
      [] u >= 1104 /\ u <= 1119 -> u - 80
      [] (u - 1) \in EvenUpper \cup OddUpper -> u - 1
      [] u = 305 -> 73                                      \* dotless i
      [] u = 383 -> 83                                      \* long s
      [] u = 454 -> 452  [] u = 453 -> 452
      [] OTHER -> u
CaseMap(m, this, style, args, log) ==
    Bind(ThisStr(Recv(this, style), log), LAMBDA s :
        R(StrV([i \in 1..Len(s.v.s) |-> IF m = "toLowerCase" THEN LowerU(s.v.s[i]) ELSE UpperU(s.v.s[i])]), s.log))

(* 15.5.4.20 trim *)
TrimM(this, style, args, log) ==
    Bind(ThisStr(Recv(this, style), log), LAMBDA s : R(StrV(Trim(s.v.s)), s.log))

Methods == {"charAt", "charCodeAt", "concat", "indexOf", "lastIndexOf", "localeCompare", "slice", "substring",
            "substr", "split", "toLowerCase", "toUpperCase", "trim"}
Call(m, this, style, args) ==
    CASE m \in {"charAt", "charCodeAt"} -> CharAtLike(m, this, style, args, <<>>)
      [] m = "concat" -> Concat(this, style, args, <<>>)
      [] m = "indexOf" -> IndexOf(this, style, args, <<>>)
      [] m = "lastIndexOf" -> LastIndexOf(this, style, args, <<>>)
      [] m = "localeCompare" -> LocaleCompare(this, style, args, <<>>)
      [] m = "slice" -> Slice(this, style, args, <<>>)
      [] m = "substring" -> Substring(this, style, args, <<>>)
      [] m = "substr" -> Substr(this, style, args, <<>>)
      [] m = "split" -> Split(this, style, args, <<>>)
      [] m \in {"toLowerCase", "toUpperCase"} -> CaseMap(m, this, style, args, <<>>)
      [] m = "trim" -> TrimM(this, style, args, <<>>)

-----------------------------------------------------------------------------
(* 15.5.3.2 String.fromCharCode *)
U16(n) == LET u == ToUint16N(n) IN IF u.c = "int" THEN u.v ELSE 0
RECURSIVE FccFrom(_, _, _, _)
FccFrom(args, i, acc, log) ==
    IF i > Len(args) THEN R(StrV(San(acc)), log)
    ELSE Bind(ToNumber(args[i], log), LAMBDA n : FccFrom(args, i + 1, Append(acc, U16(n.v.n)), n.log))
FromCharCode(args) == FccFrom(args, 1, <<>>, <<>>)

(* 15.5.1.1 String(value), 15.5.2.1 new String(value), 15.5.4.2 toString, 15.5.4.3 valueOf *)
StringCall(args) == IF Len(args) = 0 THEN R(StrV(<<>>), <<>>) ELSE ToStringThis(args[1], <<>>)
ThisStringValue(this) ==              \* 15.5.4.2 / 15.5.4.3: not generic
    IF this.t \in {"str", "strobj"} THEN R(StrV(this.s), <<>>) ELSE T("TypeError", <<>>)

-----------------------------------------------------------------------------
(* 15.5.5.1 length, 15.5.5.2 [[GetOwnProperty]] of a String object with      *)
(* [[PrimitiveValue]] S: [k |-> "none"] or a data property                   *)
NoProp == [k |-> "none"]
DataProp(v, w, e, c) == [k |-> "data", v |-> v, w |-> w, e |-> e, c |-> c]
AbsN(x) == IF IsNeg(x) THEN NumNeg(x) ELSE x
IsIndexName(P) == NumToStr(AbsN(ToIntegerN(StrToNum(P)))) = P          \* 15.5.5.2 step 3
(* the implementation: strconv.ParseInt(P, 10, 64) in 0 .. 2^32-2; -1 = no index *)
ParseIntIdx(P) ==
    LET signed == Len(P) >= 1 /\ P[1] \in {43, 45}
        ds == IF signed THEN SubSeq(P, 2, Len(P)) ELSE P
    IN  IF Len(ds) = 0 \/ ~AllDigits(ds, 1) THEN -1
        ELSE LET v == SatNat(ds, 1, 0)
             IN  IF signed /\ P[1] = 45 /\ v # 0 THEN -1 ELSE v
IndexProp(S, i) == DataProp(StrV(San(<<S[i + 1]>>)), FALSE, ~D("D09_string_index_not_enumerable"), FALSE)   \* step 9
StrGetOwn(S, P) ==
    IF P = S_length THEN DataProp(IntV(Len(S)), FALSE, FALSE, FALSE)   \* 15.5.5.1
    ELSE IF D("D09_string_index_parseint")
         THEN (LET i == ParseIntIdx(P) IN IF i >= 0 /\ i < Len(S) THEN IndexProp(S, i) ELSE NoProp)
    ELSE IF ~IsIndexName(P) THEN NoProp                                \* step 3
    ELSE LET idx == ToIntegerN(StrToNum(P))                            \* step 5
         IN  IF NumCmp(I(Len(S)), idx) <= 0 THEN NoProp                \* step 7
             ELSE IndexProp(S, IntOf(idx))

(* property access forms on a string value / String object; key k is a       *)
(* primitive, P = ToString(k) (11.2.1); names other than indices and         *)
(* "length" are not generated, so nothing is inherited                       *)
Access(form, S, k) ==
    LET P == ToStringPrim(k)
        own == StrGetOwn(S, P)
        has == own.k # "none"
    IN  CASE form \in {"get", "getobj"} -> R(IF has THEN own.v ELSE Undef, <<>>)       \* 8.7.1 / 8.12.3
          [] form = "desc" -> R(IF has THEN ArrV(<<own.v, BoolV(own.w), BoolV(own.e), BoolV(own.c)>>) ELSE Undef, <<>>)   \* 15.2.3.3
          [] form \in {"in", "hasOwn"} -> R(BoolV(has), <<>>)                           \* 11.8.7, 15.2.4.5
          [] form = "put" -> R(IF has THEN own.v ELSE StrV(S9_Z), <<>>)                 \* 8.12.4-5: not writable, silently ignored
          [] form = "delete" -> R(ArrV(<<BoolV(~has), IF has THEN own.v ELSE Undef>>), <<>>)   \* 8.12.7: not configurable
=============================================================================
