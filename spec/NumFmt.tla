------------------------------ MODULE NumFmt --------------------------------
(* Number <-> text beyond 9.8.1 / 9.3.1 (which are NumText!NumToStr and      *)
(* Val!StrToNum):                                                            *)
(*   15.7.4.2  Number.prototype.toString(radix)   (integer values)           *)
(*   15.7.4.5  toFixed     15.7.4.6 toExponential     15.7.4.7 toPrecision   *)
(*   15.1.2.2  parseInt    15.1.2.3 parseFloat                               *)
(*   7.8.3 + B.1.1  value of a numeric literal met by the parser             *)
(* All arithmetic is exact (naturals as limb sequences, Num.tla); a double   *)
(* is (+/-) m * 2^e.  Results are outcomes [thr, v, log] like Ops.tla.       *)
(* Known deviations of the implementation are the branches D("Dxx_...").    *)
EXTENDS NumText
CONSTANT Dev
D(x) == x \in Dev

R(v)   == [thr |-> "", v |-> v, log |-> <<>>]
T(cls) == [thr |-> cls, v |-> Undef, log |-> <<>>]
RS(s)  == R(StrV(s))
RN(n)  == R(NumV(n))

Max2(a, b) == IF a > b THEN a ELSE b
Min2(a, b) == IF a < b THEN a ELSE b
AbsN(x) == IF IsNeg(x) THEN NumNeg(x) ELSE x

(* 9.4 ToInteger of an argument value (a primitive) *)
ArgInt(a) == ToIntegerN(ToNumberPrim(a))
IntOf(n) == IF n.c = "int" THEN n.v ELSE 0        \* callers have bounded n; -0 is 0
InIntRange(n, lo, hi) == ~NumLt(n, I(lo)) /\ ~NumLt(I(hi), n)

S_pInf == <<43, 73, 110, 102>>     \* "+Inf"
S_nInf == <<45, 73, 110, 102>>     \* "-Inf"

-----------------------------------------------------------------------------
(* Exact arithmetic helpers.  TLC evaluates about 10^5 limb operations per   *)
(* second, so the operand order of BnMul matters (it iterates over the limbs *)
(* of its SECOND argument: long * short) and long divisions are avoided.     *)

(* floor(a / b) and the remainder, fast when the quotient is short (the      *)
(* digit-generation quotients have at most 8 limbs while a and b may have    *)
(* 80): the quotient of the leading limbs is an estimate which is then       *)
(* corrected against the full operands, so the result is exact whatever the  *)
(* quality of the estimate.                                                  *)
RECURSIVE QDown(_, _, _)
QDown(a, b, q) == IF BnCmp(BnMul(b, q), a) > 0 THEN QDown(a, b, BnSub(q, <<1>>)) ELSE q
RECURSIVE QUp(_, _, _)
QUp(a, b, q) == LET q1 == BnAdd(q, <<1>>) IN IF BnCmp(BnMul(b, q1), a) <= 0 THEN QUp(a, b, q1) ELSE q
DivModQ(a, b) ==
    IF Len(b) <= 12 \/ Len(a) - Len(b) > 10 THEN (LET dm == BnDivMod(a, b) IN [q |-> dm.q, rem |-> dm.rem])
    ELSE LET s  == Len(b) - 10
             a1 == IF s >= Len(a) THEN <<>> ELSE SubSeq(a, s + 1, Len(a))
             b1 == SubSeq(b, s + 1, Len(b))
             q0 == IF a1 = <<>> THEN <<>> ELSE BnDivMod(a1, b1).q
             q  == QUp(a, b, QDown(a, b, q0))
         IN  [q |-> q, rem |-> BnSub(a, BnMul(b, q))]

(* compare the positive x = m * 2^e with 10^k (P = 10^|k|): -1, 0, 1 *)
CmpPow10P(m, e, k, P) ==
    IF k >= 0 THEN
        (LET lx == e + BnBitLen(m)  lp == BnBitLen(P)
         IN  IF lx < lp THEN -1 ELSE IF lx > lp THEN 1
             ELSE IF e >= 0 THEN BnCmp(BnShl(m, e), P) ELSE BnCmp(m, BnShl(P, -e)))
    ELSE IF e >= 0 THEN 1
    ELSE LET lx == BnBitLen(m) + BnBitLen(P)          \* bit length of m * P is lx or lx - 1
         IN  IF lx < 1 - e THEN -1 ELSE IF lx - 1 > 1 - e THEN 1
             ELSE BnCmp(BnMul(P, m), BnShl(<<1>>, -e))
AbsI(k) == IF k < 0 THEN -k ELSE k
(* n with 10^(n-1) <= x < 10^n (as NumText!DecExp) *)
DecExpF(m, e) ==
    LET E2 == e + BnBitLen(m) - 1
        n0 == ((E2 * 30103) \div 100000) + 1          \* floor(E2 * log10(2)) + 1, off by at most one
        P0 == BnPow10(AbsI(n0))
    IN  IF CmpPow10P(m, e, n0, P0) >= 0 THEN n0 + 1
        ELSE IF CmpPow10P(m, e, n0 - 1, BnPow10(AbsI(n0 - 1))) < 0 THEN n0 - 1
        ELSE n0
Exp10(m, e) == DecExpF(m, e) - 1                      \* e10 with 10^e10 <= x < 10^(e10+1)

(* correctly rounded double nearest to (+/-) Dg * 10^q (as Str!DecToNum) *)
DecToNumF(neg, Dg, q) ==
    IF Dg = <<>> THEN Zero(neg)
    ELSE IF q >= 0 THEN
         (IF q > 330 THEN Inf(neg) ELSE RoundD(neg, BnMul(BnPow10(q), Dg), 0))
    ELSE IF -q > 400 + 20 * Len(Dg) THEN Zero(neg)
    ELSE LET den == BnPow10(-q)
             \* scale so that the quotient has at least 60 bits; a non-zero rest becomes a sticky bit
             sh  == Max2(0, BnBitLen(den) - BnBitLen(Dg) + 60)
             dm  == DivModQ(BnShl(Dg, sh), den)
             qm  == IF dm.rem = <<>> THEN BnShl(dm.q, 1) ELSE BnAdd(BnShl(dm.q, 1), <<1>>)
         IN  RoundD(neg, qm, -sh - 1)

(* floor(x / 10^j) for the positive x = m * 2^e, and where the rest lies:    *)
(* c = -1 below one half, 0 exactly one half, 1 above                        *)
DivParts(m, e, j) ==
    IF j <= 0 THEN
        (LET num == BnMul(BnPow10(-j), m)
         IN  IF e >= 0 THEN [q |-> BnShl(num, e), c |-> -1, ex |-> TRUE]
             ELSE LET k    == -e
                      half == BnBit(num, k - 1) = 1
                      rest == k > 1 /\ BnLowBits(num, k - 1) # <<>>
                  IN  [q |-> BnShr(num, k), c |-> IF ~half THEN -1 ELSE IF rest THEN 1 ELSE 0, ex |-> ~half /\ ~rest])
    ELSE LET P   == BnPow10(j)
             num == IF e >= 0 THEN BnShl(m, e) ELSE m
             den == IF e < 0 THEN BnShl(P, -e) ELSE P
             dm  == DivModQ(num, den)
         IN  [q |-> dm.q, c |-> BnCmp(BnShl(dm.rem, 1), den), ex |-> dm.rem = <<>>]

(* the integer n for which n * 10^j - x is as close to zero as possible; if  *)
(* there are two such n the larger one (15.7.4.5 step 8.a, 15.7.4.6 step     *)
(* 9.b.i, 15.7.4.7 step 10.a) or, with even = TRUE, the even one             *)
Nearest(p, even) ==
    IF p.c > 0 \/ (p.c = 0 /\ (~even \/ BnBit(p.q, 0) = 1)) THEN BnAdd(p.q, <<1>>) ELSE p.q

(* 9.8.1 step 5: n, k and s with k as small as possible; among the k-digit   *)
(* candidates the one closest to x (the NOTE of 9.8.1 recommends it), ties   *)
(* to even.  The decimals that round to x (8.5: nearest, ties to even) form  *)
(* an interval around x; in units of 10^(n-17) it is [A, B] below.           *)
(* Same result as NumText!ShortestDigits with three short divisions.         *)
ShortDigits(x) ==
    LET m    == MantOf(x)
        e    == ExpOf(x)
        n    == DecExpF(m, e)
        q    == n - 17
        P    == BnPow10(AbsI(q))
        E    == e + BnBitLen(m) - 1
        u    == IF E - 52 > -1074 THEN E - 52 ELSE -1074            \* exponent of the last place
        X4   == BnShl(m, e - u + 2)                                 \* x in quarter ulps
        pow2 == m = <<1>> /\ u > -1074                              \* the gap below a power of two is half as wide
        L4   == BnSub(X4, IF pow2 THEN <<1>> ELSE <<2>>)            \* ends of the rounding interval
        H4   == BnAdd(X4, <<2>>)
        incl == e > u                                               \* even significand: the ends round to x
        \* v * 2^(u-2) / 10^q as floor and exactness
        Sc(v) == IF q < 0
                 THEN (LET N == BnMul(P, v)
                       IN  IF u >= 2 THEN [q |-> BnShl(N, u - 2), ex |-> TRUE]
                           ELSE [q |-> BnShr(N, 2 - u), ex |-> BnLowBits(N, 2 - u) = <<>>])
                 ELSE (LET dm == DivModQ(BnShl(v, Max2(u - 2, 0)), BnShl(P, Max2(2 - u, 0)))
                       IN  [q |-> dm.q, ex |-> dm.rem = <<>>])
        sl   == Sc(L4)
        sh   == Sc(H4)
        A    == IF sl.ex /\ incl THEN sl.q ELSE BnAdd(sl.q, <<1>>)  \* smallest and largest d with d * 10^q rounding to x
        B    == IF sh.ex /\ ~incl THEN BnSub(sh.q, <<1>>) ELSE sh.q
        dx   == DivParts(m, e, q)                                   \* x / 10^q: 17 digits and the rest
        Cand(k) ==
            LET p10 == BnPow10(17 - k)
                dm  == IF k = 17 THEN [q |-> dx.q, rem |-> <<>>] ELSE BnDivMod(dx.q, p10)
                lo  == dm.q
                hi  == BnAdd(lo, <<1>>)
                lo17 == BnMul(lo, p10)
                hi17 == BnMul(hi, p10)
                \* position of x / 10^(n-k) between lo and hi: -1 nearer lo, 0 half way, 1 nearer hi
                c   == IF k = 17 THEN dx.c
                       ELSE LET h == BnCmp(BnShl(dm.rem, 1), p10)
                            IN  IF h # 0 THEN h ELSE IF dx.ex THEN 0 ELSE 1
                okLo == BnCmp(lo17, A) >= 0 /\ BnCmp(lo17, B) <= 0
                okHi == BnCmp(hi17, A) >= 0 /\ BnCmp(hi17, B) <= 0
                rLo == [ok |-> TRUE, s |-> lo, n |-> n]
                rHi == IF BnCmp(hi, BnPow10(k)) >= 0 THEN [ok |-> TRUE, s |-> BnPow10(k - 1), n |-> n + 1]
                       ELSE [ok |-> TRUE, s |-> hi, n |-> n]
            IN  IF okLo /\ okHi THEN (IF c < 0 THEN rLo ELSE IF c > 0 THEN rHi ELSE IF BnBit(lo, 0) = 0 THEN rLo ELSE rHi)
                ELSE IF okLo THEN rLo
                ELSE IF okHi THEN rHi
                ELSE [ok |-> FALSE]
        RECURSIVE Min(_, _)
        Min(lo, hi) ==
            IF lo = hi THEN (LET c == Cand(lo) IN [digits |-> DigitsBn(c.s), n |-> c.n, k |-> lo])
            ELSE LET mid == (lo + hi) \div 2
                 IN  IF Cand(mid).ok THEN Min(lo, mid) ELSE Min(mid + 1, hi)
    IN  Min(1, 17)

TrimZ(d) == LET RECURSIVE Cut(_)
                Cut(k) == IF k >= 1 /\ d[k] = 48 THEN Cut(k - 1) ELSE k
            IN  SubSeq(d, 1, Cut(Len(d)))

Dotted(d) == IF Len(d) = 1 THEN d ELSE <<d[1], 46>> \o Tail(d)       \* "a.b"

(* exponent suffix "e+d" (15.7.4.6 step 11-12, 15.7.4.7 step 10.c.iii-v);    *)
(* two = TRUE pads the exponent to two digits                                *)
ExpSuffix(ex, two) ==
    LET a  == IF ex < 0 THEN -ex ELSE ex
        ds == DigitsNat(a)
    IN  <<101>> \o (IF ex < 0 THEN <<45>> ELSE <<43>>) \o (IF two /\ a < 10 THEN <<48>> \o ds ELSE ds)

-----------------------------------------------------------------------------
(* The layouts of Go's strconv.FormatFloat verbs on a digit string d without *)
(* trailing zeros (empty for zero) and decimal point position dp; they are   *)
(* what the implementation produces where it delegates to them (deviations). *)
GoFmtE(d, dp, prec) ==
    LET nd   == Len(d)
        head == IF nd = 0 THEN <<48>> ELSE <<d[1]>>
        mid  == IF prec > 0
                THEN <<46>> \o SubSeq(d, 2, Min2(nd, prec + 1)) \o ZerosStr(prec - Max2(Min2(nd, prec + 1), 1) + 1)
                ELSE <<>>
    IN  head \o mid \o ExpSuffix(IF nd = 0 THEN 0 ELSE dp - 1, TRUE)

GoFmtF(d, dp, prec) ==
    LET nd   == Len(d)
        ip   == IF dp > 0 THEN SubSeq(d, 1, Min2(nd, dp)) \o ZerosStr(dp - Min2(nd, dp)) ELSE <<48>>
        fr   == [i \in 1..prec |-> LET j == dp + i IN IF j >= 1 /\ j <= nd THEN d[j] ELSE 48]
    IN  IF prec > 0 THEN ip \o <<46>> \o fr ELSE ip

GoFmtG(d, dp, prec) ==
    LET nd    == Len(d)
        eprec == IF prec > nd /\ nd >= dp THEN nd ELSE prec
        ex    == dp - 1
    IN  IF ex < -4 \/ ex >= eprec
        THEN GoFmtE(d, dp, (IF prec > nd THEN nd ELSE prec) - 1)
        ELSE GoFmtF(d, dp, Max2((IF prec > dp THEN nd ELSE prec) - dp, 0))

-----------------------------------------------------------------------------
(* The exact arithmetic of a case is independent of Dev; the generator       *)
(* evaluates it once and hands it to the strict and to the deviating         *)
(* instance (the parameters sd and rp of the operators below are evaluated   *)
(* lazily, only on the paths that need them):                                *)
(*   sd = PreShort(x): the shortest digits of |x| (9.8.1 step 5)             *)
(*   rp = PreRound(op, x, a): floor(|x| / 10^j) with the position of the     *)
(*        rest, j as the operation op with argument a requires, and e10      *)
PreShort(x) == ShortDigits(AbsN(x))
PreRound(op, x, a) ==
    LET ax == AbsN(x)
        m  == MantOf(ax)
        e  == ExpOf(ax)
        ai == IntOf(ArgInt(a))
        e0 == IF op = "toFixed" THEN 0 ELSE Exp10(m, e)
        j  == IF op = "toFixed" THEN -ai ELSE IF op = "toExponential" THEN e0 - ai ELSE e0 - ai + 1
        p  == DivParts(m, e, j)
    IN  [e10 |-> e0, q |-> p.q, c |-> p.c, ex |-> p.ex]

-----------------------------------------------------------------------------
(* 9.8.1 ToString(Number) with the layout split in its three shapes          *)
LayoutExp(d, n)   == Dotted(d) \o ExpSuffix(n - 1, FALSE)              \* steps 9, 10
LayoutSmall(d, n) == <<48, 46>> \o ZerosStr(-n) \o d                   \* step 8

(* the doubles just below 10^21 (relative distance < 2^-46) and just below   *)
(* 10^-6 (relative distance < 2^-48)                                         *)
Below1e21(m, e) ==
    /\ e >= 0 /\ e + BnBitLen(m) = 70
    /\ BnCmp(BnShl(m, e), BnPow10(21)) < 0
    /\ BnCmp(BnShl(m, e + 46), BnMul(BnPow10(21), BnSub(BnShl(<<1>>, 46), <<1>>))) >= 0
Below1em6(m, e) ==
    /\ e < 0 /\ e + BnBitLen(m) = -19
    /\ BnCmp(BnMul(BnPow10(6), m), BnShl(<<1>>, -e)) < 0
    /\ BnCmp(BnShl(BnMul(BnPow10(6), m), 48), BnShl(BnSub(BnShl(<<1>>, 48), <<1>>), -e)) >= 0

NumToStrP(x, sd) ==
    CASE x.c = "nan" -> S_NaN
      [] x.c = "inf" -> IF x.neg THEN S_mInfinity ELSE S_Infinity
      [] IsSafeInt(x) -> IntNumToStr(x)
      [] OTHER ->
           LET a  == AbsN(x)
               m  == MantOf(a)
               e  == ExpOf(a)
               body ==
                   \* D50: the implementation picks the layout from a floating-point
                   \* log10(x), which rounds to 21 (-6) for the doubles just below
                   \* 10^21 (10^-6): exponent form for n = 21, positional for n = -6
                   IF D("D50_tostring_threshold_by_float_log10") /\ sd.n = 21 /\ Below1e21(m, e)
                   THEN LayoutExp(sd.digits, sd.n)
                   ELSE IF D("D50_tostring_threshold_by_float_log10") /\ sd.n = -6 /\ Below1em6(m, e)
                   THEN LayoutSmall(sd.digits, sd.n)
                   ELSE Layout(sd.digits, sd.n)
           IN  (IF IsNeg(x) THEN <<45>> ELSE <<>>) \o body

(* 9.3.1 with the fast decimal conversion (same results as Val!StrToNum) *)
UnsignedDecToNumF(s, neg) ==
    IF s = S_InfinityLit THEN [ok |-> TRUE, n |-> Inf(neg)]
    ELSE LET i1 == SpanDigits(s, 1)
             hasDot == i1 <= Len(s) /\ s[i1] = 46
             f0 == IF hasDot THEN i1 + 1 ELSE i1
             f1 == IF hasDot THEN SpanDigits(s, f0) ELSE f0
             intD == SubSeq(s, 1, i1 - 1)
             frD  == SubSeq(s, f0, f1 - 1)
             hasExp == f1 <= Len(s) /\ s[f1] \in {101, 69}
             es == IF hasExp /\ f1 + 1 <= Len(s) /\ s[f1 + 1] \in {43, 45} THEN f1 + 2 ELSE f1 + 1
             eend == IF hasExp THEN SpanDigits(s, es) ELSE f1
             eneg == hasExp /\ f1 + 1 <= Len(s) /\ s[f1 + 1] = 45
             okShape == /\ (Len(intD) > 0 \/ Len(frD) > 0)
                        /\ (~hasExp \/ eend > es)
                        /\ eend = Len(s) + 1
         IN  IF ~okShape THEN [ok |-> FALSE]
             ELSE LET ev == IF hasExp THEN (IF eneg THEN -1 ELSE 1) * SatNat(s, es, 0) ELSE 0
                  IN  [ok |-> TRUE, n |-> DecToNumF(neg, BnOfDigits(intD \o frD), ev - Len(frD))]
StrToNumF(s0) ==
    LET s == Trim(s0)
    IN  IF s = <<>> THEN I(0)
        ELSE IF Len(s) >= 3 /\ s[1] = 48 /\ s[2] \in {120, 88} /\ AllHex(s, 3)
             THEN RoundD(FALSE, BnOfHexAt(s, 3, <<>>), 0)
        ELSE LET neg == s[1] = 45
                 body == IF s[1] \in {43, 45} THEN SubSeq(s, 2, Len(s)) ELSE s
                 r == UnsignedDecToNumF(body, neg)
             IN  IF r.ok THEN r.n ELSE NaN

ToStrP(x, sd) == RS(NumToStrP(x, sd))
(* 9.3.1 after 9.8.1, the round trip Number(String(x)): step 5 of 9.8.1      *)
(* demands that the Number value for s * 10^(n-k) is x, so the result is x   *)
(* itself (NaN for NaN, +0 for both zeros).  RoundTripHolds states the       *)
(* consequence for the text this specification produces; the generator       *)
(* asserts it on every round-trip case.                                      *)
RoundTripP(x, sd) == RN(IF x.c = "nzero" THEN I(0) ELSE x)
RoundTripHolds(x, sd) == StrToNumF(NumToStrP(x, sd)) = (IF x.c = "nzero" THEN I(0) ELSE x)

-----------------------------------------------------------------------------
(* 15.7.4.2 Number.prototype.toString(radix), this value a Number whose      *)
(* value is an integer or not finite when radix # 10 (the algorithm for      *)
(* fractions is implementation-dependent and is not specified here)          *)
RadixChar(v) == IF v < 10 THEN 48 + v ELSE 87 + v
ChunkLen(r) == CASE r = 2 -> 14 [] r = 3 -> 9 [] r \in {4, 5} -> 6 [] r \in {6, 7} -> 5
                 [] r \in 8..13 -> 4 [] r \in 14..31 -> 3 [] OTHER -> 2
RECURSIVE PowSmall(_, _)
PowSmall(r, k) == IF k = 0 THEN 1 ELSE r * PowSmall(r, k - 1)
RECURSIVE SmallDigits(_, _, _)
SmallDigits(v, r, k) ==      \* exactly k digits of v in radix r
    IF k = 0 THEN <<>> ELSE SmallDigits(v \div r, r, k - 1) \o <<RadixChar(v % r)>>
RECURSIVE SmallDigitsMin(_, _)
SmallDigitsMin(v, r) == IF v < r THEN <<RadixChar(v)>> ELSE SmallDigitsMin(v \div r, r) \o <<RadixChar(v % r)>>
RECURSIVE RadixDigitsAcc(_, _, _)
RadixDigitsAcc(a, r, acc) ==
    LET k  == ChunkLen(r)
        dm == BnDivModSmall(a, PowSmall(r, k))
        a2 == IF dm.q = <<>> THEN SmallDigitsMin(dm.r, r) \o acc ELSE SmallDigits(dm.r, r, k) \o acc
    IN  IF dm.q = <<>> \/ Len(a2) < 0 THEN a2 ELSE RadixDigitsAcc(dm.q, r, a2)
RadixDigits(a, r) == IF a = <<>> THEN <<48>> ELSE RadixDigitsAcc(a, r, <<>>)

ToStringRadixP(x, rd, sd) ==
    LET rN == IF rd.t = "undef" THEN I(10) ELSE ArgInt(rd)
    IN  IF ~InIntRange(rN, 2, 36) THEN T("RangeError")
        ELSE IF IntOf(rN) = 10 THEN ToStrP(x, sd)
        ELSE CASE x.c = "nan" -> RS(S_NaN)
               [] x.c = "inf" -> RS(IF x.neg THEN S_mInfinity ELSE S_Infinity)
               [] IsZero(x) -> RS(<<48>>)
               [] OTHER ->
                    LET a == AbsN(x)
                        r == IntOf(rN)
                    IN  \* D51: the value goes through a 64-bit integer; beyond 2^63 the
                        \* conversion yields the most negative integer (amd64)
                        IF D("D51_tostring_radix_int64_overflow") /\ a.c = "big" /\ a.e + BnBitLen(a.m) >= 64
                        THEN RS(<<45>> \o RadixDigits(BnShl(<<1>>, 63), r))
                        ELSE RS((IF IsNeg(x) THEN <<45>> ELSE <<>>) \o RadixDigits(BnShl(MantOf(a), ExpOf(a)), r))

-----------------------------------------------------------------------------
(* 15.7.4.5 Number.prototype.toFixed(fractionDigits)                          *)
IsGE1e21(a) == IsInf(a) \/ (~IsZero(a) /\ (ExpOf(a) + BnBitLen(MantOf(a)) > 70 \/
                                          (ExpOf(a) + BnBitLen(MantOf(a)) = 70 /\ BnCmp(BnShl(MantOf(a), ExpOf(a)), BnPow10(21)) >= 0)))
ToFixedP(x, fd, sd, rp) ==
    LET fN == ArgInt(fd)                                               \* step 1
    IN  IF ~InIntRange(fN, 0, 20) THEN T("RangeError")                 \* step 2
        ELSE IF IsNaN(x) THEN RS(S_NaN)                                \* step 4
        ELSE LET f   == IntOf(fN)
                 \* steps 5-6: x < 0 is false for -0
                 neg == IF x.c = "nzero" THEN D("D61_tofixed_negative_zero_sign") ELSE IsNeg(x)
                 s   == IF neg THEN <<45>> ELSE <<>>
                 a   == AbsN(x)
             IN  IF IsGE1e21(a) THEN RS(s \o NumToStrP(a, sd))         \* step 7
                 ELSE LET n  == IF IsZero(a) THEN <<>>                 \* step 8.a
                                ELSE Nearest(rp, D("D60_tofixed_ties_to_even"))
                          m0 == IF n = <<>> THEN <<48>> ELSE DigitsBn(n)     \* 8.b
                          m1 == IF Len(m0) <= f THEN ZerosStr(f + 1 - Len(m0)) \o m0 ELSE m0   \* 8.c.ii
                          k  == Len(m1)
                      IN  IF f = 0 THEN RS(s \o m0)
                          ELSE RS(s \o SubSeq(m1, 1, k - f) \o <<46>> \o SubSeq(m1, k - f + 1, k))

-----------------------------------------------------------------------------
(* n and e of 15.7.4.6 step 9.b.i / 15.7.4.7 step 10.a with nd digits: the   *)
(* nearest n may reach 10^nd, which is 10^(nd-1) with the next exponent      *)
SigDigits(rp, nd, even) ==
    LET n == Nearest(rp, even)
    IN  IF BnCmp(n, BnPow10(nd)) >= 0 THEN [n |-> BnPow10(nd - 1), e |-> rp.e10 + 1] ELSE [n |-> n, e |-> rp.e10]

(* 15.7.4.6 Number.prototype.toExponential(fractionDigits)                    *)
ToExponentialP(x, fd, sd, rp) ==
    LET fN    == ArgInt(fd)                                            \* step 2
        undef == fd.t = "undef"
        neg   == IF x.c = "nzero" THEN D("D71_toexponential_negative_zero_sign") ELSE IsNeg(x)   \* steps 4-5
        s     == IF neg THEN <<45>> ELSE <<>>
        a     == AbsN(x)
        \* step 7; D73: no upper bound (modelled up to 100 digits)
        bad   == ~undef /\ (NumLt(fN, I(0)) \/ (NumLt(I(20), fN) /\ ~(D("D73_toexponential_no_upper_range") /\ ~NumLt(I(100), fN))))
    IN  IF IsNaN(x) THEN RS(S_NaN)                                     \* step 3
        ELSE IF IsInf(a) THEN                                          \* step 6 precedes step 7
             (IF D("D74_toexponential_range_before_infinity") /\ ~undef /\ NumLt(fN, I(0)) THEN T("RangeError")
              ELSE IF D("D72_toexponential_infinity_text") THEN RS(IF x.neg THEN S_nInf ELSE S_pInf)
              ELSE RS(s \o S_Infinity))
        ELSE IF bad THEN T("RangeError")
        ELSE LET two == D("D70_toexponential_exponent_two_digits")
             IN  IF IsZero(a) THEN                                     \* step 8
                     RS(s \o Dotted(ZerosStr((IF undef THEN 0 ELSE IntOf(fN)) + 1)) \o ExpSuffix(0, two))
                 ELSE IF undef THEN                                    \* step 9.b.ii: as many digits as necessary
                     RS(s \o Dotted(sd.digits) \o ExpSuffix(sd.n - 1, two))
                 ELSE LET r == SigDigits(rp, IntOf(fN) + 1, D("D75_toexponential_ties_to_even"))
                      IN  RS(s \o Dotted(DigitsBn(r.n)) \o ExpSuffix(r.e, two))

-----------------------------------------------------------------------------
(* 15.7.4.7 Number.prototype.toPrecision(precision).  Step 10.c.ii is read   *)
(* with the erratum every implementation follows (and ES2015 adopted): no    *)
(* "." when p = 1.                                                           *)
PrecLayout(m, e, p) ==
    IF e < -6 \/ e >= p THEN Dotted(m) \o ExpSuffix(e, FALSE)          \* step 10.c
    ELSE IF e = p - 1 THEN m                                           \* step 11
    ELSE IF e >= 0 THEN SubSeq(m, 1, e + 1) \o <<46>> \o SubSeq(m, e + 2, p)     \* step 12
    ELSE <<48, 46>> \o ZerosStr(-(e + 1)) \o m                         \* step 13

ToPrecisionP(x, pd, sd, rp) ==
    LET pN  == ArgInt(pd)                                              \* step 3
        neg == IF x.c = "nzero" THEN D("D81_toprecision_negative_zero_sign") ELSE IsNeg(x)      \* steps 5-6
        s   == IF neg THEN <<45>> ELSE <<>>
        a   == AbsN(x)
        bad == NumLt(pN, I(1)) \/ (NumLt(I(21), pN) /\ ~(D("D83_toprecision_no_upper_range") /\ ~NumLt(I(100), pN)))
        go  == D("D80_toprecision_go_g_layout")
    IN  IF pd.t = "undef" THEN ToStrP(x, sd)                           \* step 2
        ELSE IF IsNaN(x) THEN RS(S_NaN)                                \* step 4
        ELSE IF IsInf(a) THEN                                          \* step 7 precedes step 8
             (IF D("D84_toprecision_range_before_infinity") /\ NumLt(pN, I(1)) THEN T("RangeError")
              ELSE IF D("D82_toprecision_infinity_text") THEN RS(IF x.neg THEN S_nInf ELSE S_pInf)
              ELSE RS(s \o S_Infinity))
        ELSE IF bad THEN T("RangeError")                               \* step 8
        ELSE LET p == IntOf(pN)
             IN  IF IsZero(a) THEN                                     \* step 9
                     RS(s \o (IF go THEN GoFmtG(<<>>, 0, p) ELSE PrecLayout(ZerosStr(p), 0, p)))
                 ELSE LET r == SigDigits(rp, p, D("D85_toprecision_ties_to_even"))
                          m == DigitsBn(r.n)
                      IN  RS(s \o (IF go THEN GoFmtG(TrimZ(m), r.e + 1, p) ELSE PrecLayout(m, r.e, p)))

(* the operators on their own (each evaluates its exact arithmetic itself) *)
NumToStrD(x)         == NumToStrP(x, PreShort(x))
ToStr(x)             == ToStrP(x, PreShort(x))
RoundTrip(x)         == RoundTripP(x, PreShort(x))
ToStringRadix(x, rd) == ToStringRadixP(x, rd, PreShort(x))
ToFixed(x, fd)       == ToFixedP(x, fd, PreShort(x), PreRound("toFixed", x, fd))
ToExponential(x, fd) == ToExponentialP(x, fd, PreShort(x), PreRound("toExponential", x, fd))
ToPrecision(x, pd)   == ToPrecisionP(x, pd, PreShort(x), PreRound("toPrecision", x, pd))

(* 15.7.4 (introduction): "this Number value" requires that the this value   *)
(* is a Number or a Number object, otherwise a TypeError is thrown.  tv is a *)
(* this value of another primitive type.  In toFixed the TypeError (step 3)  *)
(* comes after the RangeError for fractionDigits (step 2).                   *)
(* D62 / D76 / D86: the implementation applies ToNumber to the this value.   *)
PrimText(v) == CASE v.t = "str" -> v.s [] v.t = "bool" -> (IF v.b THEN S_true ELSE S_false)
                 [] v.t = "null" -> S_null [] v.t = "undef" -> S_undefined
ThisFixed(tv, fd) ==
    IF ~InIntRange(ArgInt(fd), 0, 20) THEN T("RangeError")
    ELSE IF D("D62_tofixed_this_not_number") THEN ToFixed(ToNumberPrim(tv), fd)
    ELSE T("TypeError")
ThisExponential(tv, fd) ==
    IF D("D76_toexponential_this_not_number") THEN ToExponential(ToNumberPrim(tv), fd) ELSE T("TypeError")
ThisPrecision(tv, pd) ==
    IF D("D86_toprecision_this_not_number")
    THEN (IF pd.t = "undef" THEN RS(PrimText(tv)) ELSE ToPrecision(ToNumberPrim(tv), pd))
    ELSE T("TypeError")

-----------------------------------------------------------------------------
(* 15.1.2.2 parseInt(string, radix); string is a String value                *)
DigitVal(u) == IF IsDigit(u) THEN u - 48
               ELSE IF u >= 97 /\ u <= 122 THEN u - 87
               ELSE IF u >= 65 /\ u <= 90 THEN u - 55
               ELSE 99
RECURSIVE SpanRadix(_, _, _)
SpanRadix(s, i, r) == IF i <= Len(s) /\ DigitVal(s[i]) < r THEN SpanRadix(s, i + 1, r) ELSE i
RECURSIVE BnOfRadixAt(_, _, _, _)
BnOfRadixAt(s, i, r, acc) ==
    IF i > Len(s) THEN acc
    ELSE LET nx == BnAdd(BnMulSmall(acc, r), BnFromInt(DigitVal(s[i])))
         IN  IF Len(nx) < 0 THEN nx ELSE BnOfRadixAt(s, i + 1, r, nx)
BnOfRadix(s, r) == BnOfRadixAt(s, 1, r, <<>>)

(* what a loop "value = value*r + digit" in binary64 arithmetic computes     *)
RECURSIVE FloatAccumAt(_, _, _, _)
FloatAccumAt(s, i, r, v) ==
    IF i > Len(s) THEN v
    ELSE LET nx == NumAdd(NumMul(v, I(r)), I(DigitVal(s[i])))
         IN  IF nx.c = "?" THEN nx ELSE FloatAccumAt(s, i + 1, r, nx)
FloatAccum(s, r) == FloatAccumAt(s, 1, r, I(0))

Is2p63(bn) == BnBitLen(bn) >= 64         \* bn >= 2^63

PIParts(s, rd) ==
    LET i0   == LSkip(s, 1)                                            \* step 2
        S1   == SubSeq(s, i0, Len(s))
        neg  == S1 # <<>> /\ S1[1] = 45                                \* steps 3-4
        S2   == IF S1 # <<>> /\ S1[1] \in {43, 45} THEN Tail(S1) ELSE S1      \* step 5
        R0   == ToInt32N(ToNumberPrim(rd))                             \* step 6
        rv   == IF R0.c = "int" THEN R0.v ELSE 99
        bad  == rv # 0 /\ (rv < 2 \/ rv > 36)                          \* step 8.a
        strip == rv = 0 \/ rv = 16                                     \* steps 7, 8.b
        hex  == strip /\ Len(S2) >= 2 /\ S2[1] = 48 /\ S2[2] \in {120, 88}    \* step 10
        Rr   == IF hex THEN 16 ELSE IF rv = 0 THEN 10 ELSE rv          \* steps 9, 10
        S3   == IF hex THEN SubSeq(S2, 3, Len(S2)) ELSE S2
    IN  [bad |-> bad, neg |-> neg, R |-> Rr,
         Z |-> IF bad THEN <<>> ELSE SubSeq(S3, 1, SpanRadix(S3, 1, Rr) - 1)]     \* step 11

ParseInt(s, rd) ==
    LET p == PIParts(s, rd)
    IN  IF p.bad \/ p.Z = <<>> THEN RN(NaN)                            \* steps 8.a, 12
        ELSE LET mi  == BnOfRadix(p.Z, p.R)                            \* step 13
                 \* D91: beyond 2^63 the digits are accumulated in binary64 (two roundings per digit)
                 num == IF D("D91_parseint_big_accumulated_in_float") /\ Is2p63(mi) THEN FloatAccum(p.Z, p.R)
                        ELSE RoundD(FALSE, mi, 0)                      \* step 14
             IN  \* step 15: sign * number, which is -0 for sign = -1 and number = +0
                 IF p.neg /\ IsZero(num) /\ D("D90_parseint_negative_zero") THEN RN(I(0))
                 ELSE RN(IF p.neg THEN NumNeg(num) ELSE num)

(* significant decimal digits of a digit string *)
RECURSIVE LeadZeros(_, _)
LeadZeros(z, i) == IF i <= Len(z) /\ z[i] = 48 THEN LeadZeros(z, i + 1) ELSE i - 1
SigCount(z) == Len(z) - LeadZeros(z, 1)
(* step 13 leaves the result open: radix 10 with more than 20 significant    *)
(* digits, or a radix other than 2, 4, 8, 10, 16, 32 (judged only while the  *)
(* integer is exactly representable)                                         *)
ParseIntOpen(s, rd) ==
    LET p == PIParts(s, rd)
    IN  /\ ~p.bad
        /\ p.Z # <<>>
        /\ \/ p.R = 10 /\ SigCount(p.Z) > 20
           \/ p.R \notin {2, 4, 8, 10, 16, 32} /\ BnBitLen(BnOfRadix(p.Z, p.R)) > 53
(* 9.3.1 / 7.8.3 leave the rounding open beyond 20 significant digits: a     *)
(* conservative test on the digits of the longest prefix made of white       *)
(* space, signs, digits and "." (it contains the mantissa of whatever        *)
(* decimal literal the text or a prefix of it denotes)                       *)
RECURSIVE SpanMantChars(_, _)
SpanMantChars(s, i) ==
    IF i <= Len(s) /\ (IsDigit(s[i]) \/ IsWS(s[i]) \/ s[i] \in {43, 45, 46}) THEN SpanMantChars(s, i + 1) ELSE i
DecimalOpen(s) == SigCount(SelectSeq(SubSeq(s, 1, SpanMantChars(s, 1) - 1), IsDigit)) > 20
(* literals: legacy octal literals (B.1.1) are exact at any length *)
LitOpen(u) == IF Len(u) >= 2 /\ u[1] = 48 /\ u[2] >= 48 /\ u[2] <= 55 THEN FALSE ELSE DecimalOpen(u)

-----------------------------------------------------------------------------
(* 15.1.2.3 parseFloat(string): the longest prefix that is a                 *)
(* StrDecimalLiteral (9.3.1), none -> NaN                                    *)
ExpEnd(t, p) ==      \* p is the position after the mantissa; the end (exclusive) of a complete ExponentPart, else p
    IF p <= Len(t) /\ t[p] \in {101, 69}
    THEN LET es == IF p + 1 <= Len(t) /\ t[p + 1] \in {43, 45} THEN p + 2 ELSE p + 1
             ee == SpanDigits(t, es)
         IN  IF ee > es THEN ee ELSE p
    ELSE p
ExpVal(t, p, ee) ==  \* value of the ExponentPart t[p..ee-1] (0 when empty), saturated
    IF ee = p THEN 0
    ELSE LET sg == t[p + 1] \in {43, 45}
             v  == SatNat(SubSeq(t, 1, ee - 1), IF sg THEN p + 2 ELSE p + 1, 0)
         IN  IF sg /\ t[p + 1] = 45 THEN -v ELSE v

ParseFloatES(s) ==
    LET t   == SubSeq(s, LSkip(s, 1), Len(s))                          \* step 2
        sg  == t # <<>> /\ t[1] \in {43, 45}
        neg == sg /\ t[1] = 45
        b0  == IF sg THEN 2 ELSE 1
    IN  IF StartsAt(t, S_Infinity, b0) THEN Inf(neg)
        ELSE LET i1  == SpanDigits(t, b0)
                 dot == i1 <= Len(t) /\ t[i1] = 46
                 f1  == IF dot THEN SpanDigits(t, i1 + 1) ELSE i1
                 nI  == i1 - b0
                 nF  == IF dot THEN f1 - i1 - 1 ELSE 0
                 ee  == ExpEnd(t, f1)
             IN  IF nI + nF = 0 THEN NaN                               \* step 3
                 ELSE DecToNumF(neg, BnOfDigits(SubSeq(t, b0, i1 - 1) \o SubSeq(t, i1 + 1, f1 - 1)),
                               ExpVal(t, f1, ee) - nF)                 \* steps 4-5

(* What the implementation does instead: it trims both ends, answers NaN     *)
(* when the text matches /[+-]?(?:[Ii]nf$|infinity)/ anywhere, then tries    *)
(* the whole text and then ever shorter prefixes with Go's                   *)
(* strconv.ParseFloat until one is accepted without error; it gives up       *)
(* (NaN) at the first prefix without any of 0-9 e E + - . or "Infinity".     *)
(* With no deviation enabled the acceptor is StrDecimalLiteral and the       *)
(* result is that of ParseFloatES.                                           *)
Lower(u) == IF u >= 65 /\ u <= 90 THEN u + 32 ELSE u
LowerStr(s) == [i \in 1..Len(s) |-> Lower(s[i])]
S_inf == <<105, 110, 102>>
S_infinity == <<105, 110, 102, 105, 110, 105, 116, 121>>
Contains(s, sub) == IndexFrom(s, sub, 1) # 0
EndsWith(s, sub) == Len(s) >= Len(sub) /\ SubSeq(s, Len(s) - Len(sub) + 1, Len(s)) = sub
BadSpecial(s) == EndsWith(s, <<73, 110, 102>>) \/ EndsWith(s, S_inf) \/ Contains(s, S_infinity)
HasValidChar(s) == (\E i \in 1..Len(s) : IsDigit(s[i]) \/ s[i] \in {101, 69, 43, 45, 46}) \/ Contains(s, S_Infinity)

(* Go: underscores only between digits (or after a base prefix) *)
RECURSIVE UnderscoreOKAt(_, _, _, _)
UnderscoreOKAt(s, i, saw, hex) ==      \* saw: 0 digit, 1 underscore, 2 other, 3 start
    IF i > Len(s) THEN saw # 1
    ELSE LET c == s[i]
         IN  IF IsDigit(c) \/ (hex /\ IsHexDigit(c)) THEN UnderscoreOKAt(s, i + 1, 0, hex)
             ELSE IF c = 95 THEN (IF saw # 0 THEN FALSE ELSE UnderscoreOKAt(s, i + 1, 1, hex))
             ELSE IF saw = 1 THEN FALSE
             ELSE UnderscoreOKAt(s, i + 1, 2, hex)
UnderscoreOK(s) ==
    LET b0 == IF s # <<>> /\ s[1] \in {43, 45} THEN 2 ELSE 1
        pre == b0 + 1 <= Len(s) /\ s[b0] = 48 /\ Lower(s[b0 + 1]) \in {98, 111, 120}
    IN  IF pre THEN UnderscoreOKAt(s, b0 + 2, 0, Lower(s[b0 + 1]) = 120) ELSE UnderscoreOKAt(s, b0, 3, FALSE)

RECURSIVE SpanMant(_, _, _, _)
SpanMant(s, i, hex, us) ==    \* digits (hex digits) and, if us, underscores
    IF i <= Len(s) /\ (IsDigit(s[i]) \/ (hex /\ IsHexDigit(s[i])) \/ (us /\ s[i] = 95))
    THEN SpanMant(s, i + 1, hex, us) ELSE i
NoUS(s) == SelectSeq(s, LAMBDA u : u # 95)

(* acceptor: [ok, n] for the whole text p *)
GoAccept(p) ==
    LET sg  == p # <<>> /\ p[1] \in {43, 45}
        neg == sg /\ p[1] = 45
        b0  == IF sg THEN 2 ELSE 1
        body == SubSeq(p, b0, Len(p))
        lb  == LowerStr(body)
        us  == D("D96_parsefloat_underscores")
        hex == D("D95_parsefloat_hex_float") /\ b0 + 2 <= Len(p) /\ p[b0] = 48 /\ Lower(p[b0 + 1]) = 120
        m0  == IF hex THEN b0 + 2 ELSE b0
        i1  == SpanMant(p, m0, hex, us)
        dot == i1 <= Len(p) /\ p[i1] = 46
        f1  == IF dot THEN SpanMant(p, i1 + 1, hex, us) ELSE i1
        dI  == NoUS(SubSeq(p, m0, i1 - 1))
        dF  == IF dot THEN NoUS(SubSeq(p, i1 + 1, f1 - 1)) ELSE <<>>
        hasE == f1 <= Len(p) /\ Lower(p[f1]) = (IF hex THEN 112 ELSE 101)
        es  == IF hasE /\ f1 + 1 <= Len(p) /\ p[f1 + 1] \in {43, 45} THEN f1 + 2 ELSE f1 + 1
        ee  == IF hasE /\ es <= Len(p) /\ IsDigit(p[es]) THEN SpanMant(p, es, FALSE, us) ELSE es
        eneg == hasE /\ f1 + 1 <= Len(p) /\ p[f1 + 1] = 45
        ev  == IF hasE THEN (IF eneg THEN -1 ELSE 1) * SatNat(NoUS(SubSeq(p, es, ee - 1)), 1, 0) ELSE 0
        shape == /\ Len(dI) + Len(dF) > 0
                 /\ (hasE => ee > es)
                 /\ (hex => hasE)
                 /\ (IF hasE THEN ee ELSE f1) = Len(p) + 1
                 /\ (Contains(p, <<95>>) => UnderscoreOK(p))
        val == IF hex THEN RoundD(neg, BnOfHexAt(dI \o dF, 1, <<>>), ev - 4 * Len(dF))
               ELSE DecToNumF(neg, BnOfDigits(dI \o dF), ev - Len(dF))
    IN  IF body = S_Infinity THEN [ok |-> TRUE, n |-> Inf(neg)]
        ELSE IF D("D97_parsefloat_inf_spellings") /\ lb \in {S_inf, S_infinity} THEN [ok |-> TRUE, n |-> Inf(neg)]
        ELSE IF D("D97_parsefloat_inf_spellings") /\ ~sg /\ lb = <<110, 97, 110>> THEN [ok |-> TRUE, n |-> NaN]
        ELSE IF ~shape THEN [ok |-> FALSE]
        \* D94: a literal whose value overflows is an error for the acceptor
        ELSE IF D("D94_parsefloat_overflow_takes_shorter_prefix") /\ IsInf(val) THEN [ok |-> FALSE]
        ELSE [ok |-> TRUE, n |-> val]

RECURSIVE GoPrefixes(_, _)
GoPrefixes(t, end) ==
    IF end = 0 THEN NaN
    ELSE LET p == SubSeq(t, 1, end)
         IN  IF ~HasValidChar(p) THEN NaN
             ELSE LET r == GoAccept(p) IN IF r.ok THEN r.n ELSE GoPrefixes(t, end - 1)

ParseFloatGo(s) ==
    LET t == Trim(s)
    IN  IF D("D98_parsefloat_inf_suffix_rejected") /\ BadSpecial(t) THEN NaN
        ELSE LET r == GoAccept(t) IN IF r.ok THEN r.n ELSE GoPrefixes(t, Len(t))

PFDevs == {"D94_parsefloat_overflow_takes_shorter_prefix", "D95_parsefloat_hex_float", "D96_parsefloat_underscores",
           "D97_parsefloat_inf_spellings", "D98_parsefloat_inf_suffix_rejected"}
ParseFloat(s) == RN(IF Dev \cap PFDevs = {} THEN ParseFloatES(s) ELSE ParseFloatGo(s))

(* 9.3.1 through Number(s) and unary plus *)
ToNum(s) == RN(StrToNum(s))

-----------------------------------------------------------------------------
(* 7.8.3 numeric literals (with B.1.1 legacy octal) as the parser meets them: *)
(* the program consists of the text u alone, which starts with a digit or     *)
(* ".".  Outcome: the value; SyntaxError; undefined for <literal>.<name>;      *)
(* [thr |-> "skip"] for texts this specification does not decide.             *)
IsIdStart(c) == (c >= 97 /\ c <= 122) \/ (c >= 65 /\ c <= 90) \/ c \in {36, 95}
IsIdPart(c) == IsIdStart(c) \/ IsDigit(c)
RECURSIVE SpanId(_, _)
SpanId(s, i) == IF i <= Len(s) /\ IsIdPart(s[i]) THEN SpanId(s, i + 1) ELSE i
RECURSIVE SpanOct(_, _)
SpanOct(s, i) == IF i <= Len(s) /\ s[i] >= 48 /\ s[i] <= 55 THEN SpanOct(s, i + 1) ELSE i
RECURSIVE SpanHex(_, _)
SpanHex(s, i) == IF i <= Len(s) /\ IsHexDigit(s[i]) THEN SpanHex(s, i + 1) ELSE i

(* the longest NumericLiteral at the start of u: [ok, end (exclusive), n] *)
ScanNumeric(u) ==
    IF u = <<>> THEN [ok |-> FALSE]
    ELSE IF u[1] = 48 /\ Len(u) >= 2 /\ u[2] \in {120, 88} THEN               \* HexIntegerLiteral
         (LET he == SpanHex(u, 3)
              hd == SubSeq(u, 3, he - 1)
              bn == BnOfHexAt(hd, 1, <<>>)
          IN  IF he = 3 THEN [ok |-> TRUE, end |-> 2, n |-> I(0), isInt |-> TRUE, bn |-> <<>>]   \* "0" followed by x: rejected by the caller
              ELSE [ok |-> TRUE, end |-> he, isInt |-> TRUE, bn |-> bn,
                    n |-> IF D("D99_hex_literal_big_accumulated_in_float") /\ Is2p63(bn) THEN FloatAccum(hd, 16)
                          ELSE RoundD(FALSE, bn, 0)])
    ELSE IF u[1] = 48 /\ Len(u) >= 2 /\ u[2] >= 48 /\ u[2] <= 55 THEN        \* B.1.1 OctalIntegerLiteral
         (LET oe == SpanOct(u, 2)
              od == SubSeq(u, 2, oe - 1)
              bn == BnOfRadix(od, 8)
          IN  [ok |-> TRUE, end |-> oe, isInt |-> TRUE, bn |-> bn,
               n |-> IF D("D9A_octal_literal_big_read_as_decimal") /\ Is2p63(bn) THEN DecToNumF(FALSE, BnOfDigits(od), 0)
                     ELSE RoundD(FALSE, bn, 0)])
    ELSE LET i1  == IF u[1] = 48 THEN 2 ELSE SpanDigits(u, 1)          \* DecimalIntegerLiteral :: 0 | NonZeroDigit DecimalDigits
             dot == i1 <= Len(u) /\ u[i1] = 46
             f1  == IF dot THEN SpanDigits(u, i1 + 1) ELSE i1
             nI  == i1 - 1
             nF  == IF dot THEN f1 - i1 - 1 ELSE 0
             ee  == ExpEnd(u, f1)
         IN  IF nI + nF = 0 THEN [ok |-> FALSE]
             ELSE [ok |-> TRUE, end |-> ee, isInt |-> ~dot /\ ee = f1, bn |-> BnOfDigits(SubSeq(u, 1, i1 - 1)),
                   n |-> LET v == DecToNumF(FALSE, BnOfDigits(SubSeq(u, 1, i1 - 1) \o SubSeq(u, i1 + 1, f1 - 1)),
                                           ExpVal(u, f1, ee) - nF)
                         IN  IF IsZero(v) THEN I(0) ELSE v]

LitEval(u) ==
    LET tk == ScanNumeric(u)
    IN  IF ~tk.ok THEN T("SyntaxError")
        ELSE IF tk.end = Len(u) + 1 THEN RN(tk.n)
        ELSE LET c == u[tk.end]
             IN  \* 7.8.3: the character after a NumericLiteral must not be an IdentifierStart or DecimalDigit
                 IF IsIdStart(c) \/ IsDigit(c) THEN T("SyntaxError")
                 ELSE IF c # 46 THEN [thr |-> "skip"]
                 ELSE IF tk.end = Len(u) THEN T("SyntaxError")                  \* <literal> "."
                 ELSE IF IsDigit(u[tk.end + 1]) \/ u[tk.end + 1] = 46 THEN T("SyntaxError")   \* two literals, or ".."
                 ELSE IF IsIdStart(u[tk.end + 1]) /\ SpanId(u, tk.end + 1) = Len(u) + 1 THEN R(Undef)   \* 11.2.1 on a Number
                 ELSE [thr |-> "skip"]

(* parseInt / parseFloat applied to a Number: step 1 is ToString (9.8.1) *)
ParseIntNumP(x, sd)   == ParseInt(NumToStrP(x, sd), Undef)
ParseFloatNumP(x, sd) == ParseFloat(NumToStrP(x, sd))

(* String(<literal>) and String(parseInt(s, radix)): 9.8.1 applied to the    *)
(* Number value.  D9B / D92: the implementation carries integers below 2^63  *)
(* as 64-bit integers, not as doubles; ToString shows all their digits.      *)
LitStr(u) ==
    LET tk == ScanNumeric(u)
        r  == LitEval(u)
    IN  IF r.thr # "" \/ r.v.t # "num" THEN [thr |-> "skip"]
        ELSE IF D("D9B_integer_literal_kept_as_int64") /\ tk.isInt /\ ~Is2p63(tk.bn)
        THEN RS(IF tk.bn = <<>> THEN <<48>> ELSE DigitsBn(tk.bn))
        ELSE RS(NumToStrD(r.v.n))
ParseIntStr(s, rd) ==
    LET p  == PIParts(s, rd)
        r  == ParseInt(s, rd)
        mi == BnOfRadix(p.Z, p.R)
    IN  IF D("D92_parseint_result_kept_as_int64") /\ ~p.bad /\ p.Z # <<>> /\ ~Is2p63(mi)
        THEN RS(IF mi = <<>> THEN <<48>> ELSE (IF p.neg THEN <<45>> ELSE <<>>) \o DigitsBn(mi))
        ELSE RS(NumToStrD(r.v.n))
=============================================================================
