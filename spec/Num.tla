------------------------------- MODULE Num ---------------------------------
(* Exact model of IEEE-754 binary64 values and the ES5 number operations    *)
(* that are decided by the specification.  TLC integers are 32 bit, so a    *)
(* finite double is either                                                  *)
(*    [c |-> "int", v |-> n]            an integer with |n| <= 2^30, or     *)
(*    [c |-> "big", neg, m, e]          (+/-) m * 2^e, m an odd natural as  *)
(*                                      little-endian base-2^15 limbs       *)
(* and the other classes are [c |-> "nan"], [c |-> "inf", neg],             *)
(* [c |-> "nzero"] (minus zero; plus zero is int 0).  The form is canonical:*)
(* two Nums denote the same double iff they are equal as TLA+ values.       *)
(* Results of + - * / are correctly rounded (round-to-nearest-even incl.    *)
(* subnormals and overflow), as IEEE-754 and hence ES5 11.5/11.6 require.   *)
EXTENDS Integers, Sequences, TLC

LB   == 32768          \* limb base 2^15
ILim == 1073741824     \* 2^30

P2(k) == 2^k           \* k in 0..30

-----------------------------------------------------------------------------
(* Naturals as limb sequences ("Bn").  <<>> is zero; no trailing zero limb. *)

RECURSIVE BnTrim(_)
BnTrim(a) == IF a = <<>> THEN a
             ELSE IF a[Len(a)] = 0 THEN BnTrim(SubSeq(a, 1, Len(a) - 1)) ELSE a

BnFromInt(n) ==   \* 0 <= n < 2^31
    IF n = 0 THEN <<>>
    ELSE IF n < LB THEN <<n>>
    ELSE IF n < LB * LB THEN <<n % LB, n \div LB>>
    ELSE <<n % LB, (n \div LB) % LB, n \div (LB * LB)>>

Limb(a, i) == IF i >= 1 /\ i <= Len(a) THEN a[i] ELSE 0

RECURSIVE BnAddC(_, _, _, _)
BnAddC(a, b, i, c) ==      \* limbs i.. of a + b + carry
    IF i > Len(a) /\ i > Len(b) THEN (IF c = 0 THEN <<>> ELSE <<c>>)
    ELSE LET x == Limb(a, i) + Limb(b, i) + c
         IN  <<x % LB>> \o BnAddC(a, b, i + 1, x \div LB)
BnAdd(a, b) == BnAddC(a, b, 1, 0)

RECURSIVE BnSubC(_, _, _, _)
BnSubC(a, b, i, br) ==     \* a - b, requires a >= b
    IF i > Len(a) THEN <<>>
    ELSE LET x == Limb(a, i) - Limb(b, i) - br
         IN  IF x < 0 THEN <<x + LB>> \o BnSubC(a, b, i + 1, 1)
             ELSE <<x>> \o BnSubC(a, b, i + 1, 0)
BnSub(a, b) == BnTrim(BnSubC(a, b, 1, 0))

RECURSIVE BnCmpAt(_, _, _)
BnCmpAt(a, b, i) == IF i = 0 THEN 0
                    ELSE IF a[i] < b[i] THEN -1
                    ELSE IF a[i] > b[i] THEN 1
                    ELSE BnCmpAt(a, b, i - 1)
BnCmp(a, b) == IF Len(a) < Len(b) THEN -1
               ELSE IF Len(a) > Len(b) THEN 1
               ELSE BnCmpAt(a, b, Len(a))

RECURSIVE BnMulSmallC(_, _, _, _)
BnMulSmallC(a, k, i, c) ==   \* a * k + carry, 0 <= k < LB
    IF i > Len(a) THEN (IF c = 0 THEN <<>> ELSE <<c>>)
    ELSE LET x == a[i] * k + c
         IN  <<x % LB>> \o BnMulSmallC(a, k, i + 1, x \div LB)
BnMulSmall(a, k) == IF k = 0 THEN <<>> ELSE BnMulSmallC(a, k, 1, 0)

Zeros(n) == [i \in 1..n |-> 0]
BnShlLimbs(a, n) == IF a = <<>> THEN a ELSE Zeros(n) \o a

RECURSIVE BnMulAt(_, _, _)
BnMulAt(a, b, i) == IF i > Len(b) THEN <<>>
                    ELSE BnAdd(BnShlLimbs(BnMulSmall(a, b[i]), i - 1), BnMulAt(a, b, i + 1))
BnMul(a, b) == IF a = <<>> \/ b = <<>> THEN <<>> ELSE BnMulAt(a, b, 1)

RECURSIVE BitLenSmall(_)
BitLenSmall(x) == IF x = 0 THEN 0 ELSE 1 + BitLenSmall(x \div 2)
BnBitLen(a) == IF a = <<>> THEN 0 ELSE (Len(a) - 1) * 15 + BitLenSmall(a[Len(a)])

BnShl(a, k) ==            \* a * 2^k, k >= 0
    IF a = <<>> THEN a
    ELSE BnShlLimbs(BnMulSmall(a, P2(k % 15)), k \div 15)

RECURSIVE BnShrBitsAt(_, _, _)
BnShrBitsAt(a, r, i) ==   \* floor(a / 2^r), 0 < r < 15, produce limbs i..
    IF i > Len(a) THEN <<>>
    ELSE <<(a[i] \div P2(r)) + (Limb(a, i + 1) % P2(r)) * P2(15 - r)>> \o BnShrBitsAt(a, r, i + 1)
BnShr(a, k) ==            \* floor(a / 2^k), k >= 0
    LET q == k \div 15
        r == k % 15
        b == IF q >= Len(a) THEN <<>> ELSE SubSeq(a, q + 1, Len(a))
    IN  IF r = 0 THEN b ELSE BnTrim(BnShrBitsAt(b, r, 1))

BnBit(a, k) ==            \* bit k (0 = least significant)
    (Limb(a, (k \div 15) + 1) \div P2(k % 15)) % 2

RECURSIVE TzSmall(_)
TzSmall(x) == IF x % 2 = 1 THEN 0 ELSE 1 + TzSmall(x \div 2)
RECURSIVE BnTzAt(_, _)
BnTzAt(a, i) == IF a[i] = 0 THEN 15 + BnTzAt(a, i + 1) ELSE TzSmall(a[i])
BnTz(a) == BnTzAt(a, 1)   \* trailing zero bits, a # 0

BnLowBits(a, k) ==        \* a mod 2^k
    LET q == k \div 15
        r == k % 15
        lo == IF q >= Len(a) THEN a ELSE SubSeq(a, 1, q)
    IN  IF q >= Len(a) \/ r = 0 THEN BnTrim(lo)
        ELSE BnTrim(lo \o <<a[q + 1] % P2(r)>>)

BnToInt(a) ==             \* a < 2^31
    Limb(a, 1) + Limb(a, 2) * LB + Limb(a, 3) * LB * LB

(* big / big -> floor quotient by limb-wise long division (Knuth D with a    *)
(* one-limb estimate: after normalisation the estimate is at most 2 too      *)
(* large).  The remainder is returned scaled by the normalisation shift;     *)
(* only its being zero is used.                                              *)
RECURSIVE BnFixQ(_, _, _)
BnFixQ(b, r, qh) == IF BnCmp(BnMulSmall(b, qh), r) > 0 THEN BnFixQ(b, r, qh - 1) ELSE qh

RECURSIVE BnDivLimbs(_, _, _, _, _)
BnDivLimbs(a, b, i, q, r) ==
    IF i = 0 THEN [q |-> BnTrim(q), r |-> r]
    ELSE LET r1  == BnTrim(<<a[i]>> \o r)
             n   == Len(b)
             rt  == Limb(r1, n + 1) * LB + Limb(r1, n)
             qh0 == rt \div b[n]
             qh  == IF Len(r1) < n THEN 0
                    ELSE BnFixQ(b, r1, IF qh0 > LB - 1 THEN LB - 1 ELSE qh0)
             r2  == BnSub(r1, BnMulSmall(b, qh))
             q2  == <<qh>> \o q
         IN  \* the test forces q2 and r2 now (TLC passes arguments lazily)
             IF Len(q2) + Len(r2) < 0 THEN [q |-> q2, r |-> r2]
             ELSE BnDivLimbs(a, b, i - 1, q2, r2)
BnDivMod(a, b) ==
    LET d  == 15 - BitLenSmall(b[Len(b)])
        a1 == BnShl(a, d)
        b1 == BnShl(b, d)
        r  == BnDivLimbs(a1, b1, Len(a1), <<>>, <<>>)
    IN  [q |-> r.q, r |-> r.r, rem |-> BnShr(r.r, d)]     \* rem: the true remainder

-----------------------------------------------------------------------------
(* Doubles                                                                   *)

NaN   == [c |-> "nan"]
PInf  == [c |-> "inf", neg |-> FALSE]
NInf  == [c |-> "inf", neg |-> TRUE]
Inf(neg) == [c |-> "inf", neg |-> neg]
NZero == [c |-> "nzero"]
I(n)  == [c |-> "int", v |-> n]        \* |n| <= 2^30
Zero(neg) == IF neg THEN NZero ELSE I(0)

IsNaN(x)    == x.c = "nan"
IsInf(x)    == x.c = "inf"
IsZero(x)   == x.c = "nzero" \/ (x.c = "int" /\ x.v = 0)
IsFinite(x) == x.c \in {"int", "big", "nzero"}
IsNeg(x)    == CASE x.c = "nan" -> FALSE
                 [] x.c = "inf" -> x.neg
                 [] x.c = "nzero" -> TRUE
                 [] x.c = "int" -> x.v < 0
                 [] x.c = "big" -> x.neg

Abs(n) == IF n < 0 THEN -n ELSE n

(* magnitude of a finite non-zero Num as (m, e) with value m * 2^e *)
MantOf(x) == IF x.c = "int" THEN BnFromInt(Abs(x.v)) ELSE x.m
ExpOf(x)  == IF x.c = "int" THEN 0 ELSE x.e

(* Canonical finite value from sign, odd-or-not mantissa and exponent,      *)
(* exact (caller guarantees representability): strips trailing zero bits.   *)
Canon(neg, m0, e0) ==
    IF m0 = <<>> THEN Zero(neg)
    ELSE LET tz == BnTz(m0)
             m  == BnShr(m0, tz)
             e  == e0 + tz
             L  == BnBitLen(m)
         IN  IF e >= 0 /\ L + e <= 31 /\ (L + e <= 30 \/ (m = <<1>> /\ e = 30))
             THEN I((IF neg THEN -1 ELSE 1) * BnToInt(BnShl(m, e)))
             ELSE [c |-> "big", neg |-> neg, m |-> m, e |-> e]

(* Round the exact value (+/-) m * 2^e to the nearest double, ties to even. *)
RoundD(neg, m0, e0) ==
    IF m0 = <<>> THEN Zero(neg)
    ELSE LET tz == BnTz(m0)
             m  == BnShr(m0, tz)
             e  == e0 + tz
             L  == BnBitLen(m)
             E  == e + L - 1                       \* exponent of leading bit
             q  == IF E - 52 > -1074 THEN E - 52 ELSE -1074   \* lowest kept bit
         IN  IF e >= q
             THEN (IF E > 1023 THEN Inf(neg) ELSE Canon(neg, m, e))
             ELSE LET k  == q - e                  \* bits to drop, k >= 1
                      hi == BnShr(m, k)
                      up == /\ BnBit(m, k - 1) = 1
                            /\ (k > 1 \/ BnBit(hi, 0) = 1)   \* m is odd: sticky iff k > 1
                      r  == IF up THEN BnAdd(hi, <<1>>) ELSE hi
                  IN  IF r = <<>> THEN Zero(neg)
                      ELSE IF q + BnBitLen(r) - 1 > 1023 THEN Inf(neg)
                      ELSE Canon(neg, r, q)

NumNeg(x) == CASE x.c = "nan" -> x
               [] x.c = "inf" -> Inf(~x.neg)
               [] x.c = "nzero" -> I(0)
               [] x.c = "int" -> IF x.v = 0 THEN NZero ELSE I(-x.v)
               [] x.c = "big" -> [x EXCEPT !.neg = ~x.neg]

(* compare magnitudes of finite non-zero values: -1, 0, 1 *)
MagCmp(x, y) ==
    LET mx == MantOf(x)  ex == ExpOf(x)  my == MantOf(y)  ey == ExpOf(y)
        tx == ex + BnBitLen(mx)  ty == ey + BnBitLen(my)
    IN  IF tx < ty THEN -1 ELSE IF tx > ty THEN 1
        ELSE IF ex >= ey THEN BnCmp(BnShl(mx, ex - ey), my)
             ELSE BnCmp(mx, BnShl(my, ey - ex))

(* total order on non-NaN values with -0 = +0: -1, 0, 1 *)
NumCmp(x, y) ==
    IF x.c = "int" /\ y.c = "int" THEN (IF x.v < y.v THEN -1 ELSE IF x.v > y.v THEN 1 ELSE 0)
    ELSE IF IsZero(x) /\ IsZero(y) THEN 0
    ELSE IF IsInf(x) \/ IsInf(y) THEN
         (IF x = y THEN 0
          ELSE IF IsInf(x) THEN (IF x.neg THEN -1 ELSE 1)
          ELSE (IF y.neg THEN 1 ELSE -1))
    ELSE IF IsZero(x) THEN (IF IsNeg(y) THEN 1 ELSE -1)
    ELSE IF IsZero(y) THEN (IF IsNeg(x) THEN -1 ELSE 1)
    ELSE IF IsNeg(x) # IsNeg(y) THEN (IF IsNeg(x) THEN -1 ELSE 1)
    ELSE IF IsNeg(x) THEN -MagCmp(x, y) ELSE MagCmp(x, y)

NumLt(x, y) == ~IsNaN(x) /\ ~IsNaN(y) /\ NumCmp(x, y) < 0
NumEq(x, y) == ~IsNaN(x) /\ ~IsNaN(y) /\ NumCmp(x, y) = 0     \* IEEE equality

(* signed exact sum of two finite non-zero values, then rounded *)
AddFin(x, y) ==
    LET mx == MantOf(x)  ex == ExpOf(x)  my == MantOf(y)  ey == ExpOf(y)
        e  == IF ex < ey THEN ex ELSE ey
        \* cap the alignment shift: bits further than 2^(60) below the larger
        \* operand can only act as a sticky bit
        ax == BnShl(mx, ex - e)
        ay == BnShl(my, ey - e)
    IN  IF IsNeg(x) = IsNeg(y) THEN RoundD(IsNeg(x), BnAdd(ax, ay), e)
        ELSE LET cmp == BnCmp(ax, ay)
             IN  IF cmp = 0 THEN I(0)
                 ELSE IF cmp > 0 THEN RoundD(IsNeg(x), BnSub(ax, ay), e)
                 ELSE RoundD(IsNeg(y), BnSub(ay, ax), e)

(* when exponents are very far apart the smaller operand only perturbs      *)
(* rounding; replace it by a sticky value of the same sign so limb vectors  *)
(* stay short                                                               *)
Sticky(x, big) ==
    LET tb == ExpOf(big) + BnBitLen(MantOf(big))
        tx == ExpOf(x) + BnBitLen(MantOf(x))
    IN  IF tb - tx > 120
        THEN [c |-> "big", neg |-> IsNeg(x), m |-> <<1>>, e |-> tb - 120]
        ELSE x

NumAdd(x, y) ==
    IF IsNaN(x) \/ IsNaN(y) THEN NaN
    ELSE IF IsInf(x) THEN (IF IsInf(y) /\ x.neg # y.neg THEN NaN ELSE x)
    ELSE IF IsInf(y) THEN y
    ELSE IF IsZero(x) /\ IsZero(y) THEN (IF x.c = "nzero" /\ y.c = "nzero" THEN NZero ELSE I(0))
    ELSE IF IsZero(x) THEN y
    ELSE IF IsZero(y) THEN x
    ELSE IF x.c = "int" /\ y.c = "int" /\ Abs(x.v) < 536870912 /\ Abs(y.v) < 536870912 THEN I(x.v + y.v)
    ELSE IF MagCmp(x, y) >= 0 THEN AddFin(x, Sticky(y, x)) ELSE AddFin(Sticky(x, y), y)

NumSub(x, y) == NumAdd(x, NumNeg(y))

NumMul(x, y) ==
    IF IsNaN(x) \/ IsNaN(y) THEN NaN
    ELSE IF (IsInf(x) /\ IsZero(y)) \/ (IsZero(x) /\ IsInf(y)) THEN NaN
    ELSE IF IsInf(x) \/ IsInf(y) THEN Inf(IsNeg(x) # IsNeg(y))
    ELSE IF IsZero(x) \/ IsZero(y) THEN Zero(IsNeg(x) # IsNeg(y))
    ELSE IF x.c = "int" /\ y.c = "int" /\ Abs(x.v) < 32768 /\ Abs(y.v) < 32768 THEN I(x.v * y.v)
    ELSE RoundD(IsNeg(x) # IsNeg(y), BnMul(MantOf(x), MantOf(y)), ExpOf(x) + ExpOf(y))

NumDiv(x, y) ==
    IF IsNaN(x) \/ IsNaN(y) THEN NaN
    ELSE IF IsInf(x) THEN (IF IsInf(y) THEN NaN ELSE Inf(IsNeg(x) # IsNeg(y)))
    ELSE IF IsInf(y) THEN Zero(IsNeg(x) # IsNeg(y))
    ELSE IF IsZero(y) THEN (IF IsZero(x) THEN NaN ELSE Inf(IsNeg(x) # IsNeg(y)))
    ELSE IF IsZero(x) THEN Zero(IsNeg(x) # IsNeg(y))
    ELSE LET mx == MantOf(x)  my == MantOf(y)
             \* scale the dividend so that the quotient has >= 56 significant bits
             s  == BnBitLen(my) + 57
             dm == BnDivMod(BnShl(mx, s), my)
             \* fold a non-zero remainder into a sticky low bit
             qm == IF dm.r = <<>> THEN BnShl(dm.q, 1) ELSE BnAdd(BnShl(dm.q, 1), <<1>>)
         IN  RoundD(IsNeg(x) # IsNeg(y), qm, ExpOf(x) - ExpOf(y) - s - 1)

-----------------------------------------------------------------------------
(* 11.5.3: the remainder has the sign of the dividend and is exact *)
NumMod(x, y) ==
    IF IsNaN(x) \/ IsNaN(y) \/ IsInf(x) \/ IsZero(y) THEN NaN
    ELSE IF IsInf(y) \/ IsZero(x) THEN x
    ELSE LET mx == MantOf(x)  ex == ExpOf(x)  my == MantOf(y)  ey == ExpOf(y)
         IN  IF ex >= ey
             THEN LET r == BnDivMod(BnShl(mx, ex - ey), my).rem
                  IN  IF r = <<>> THEN Zero(IsNeg(x)) ELSE Canon(IsNeg(x), r, ey)
             ELSE IF ey - ex > 60 \/ BnCmp(mx, BnShl(my, ey - ex)) < 0 THEN x
             ELSE LET r == BnDivMod(mx, BnShl(my, ey - ex)).rem
                  IN  IF r = <<>> THEN Zero(IsNeg(x)) ELSE Canon(IsNeg(x), r, ex)

-----------------------------------------------------------------------------
(* Integer-valued operations (ES5 9.4 - 9.7, 15.8.2.6/9)                     *)

IsInteger(x) == x.c = "int" \/ (x.c = "big" /\ x.e >= 0)

(* truncate toward zero: sign(x) * floor(abs(x)) for finite x *)
Trunc(x) ==
    IF x.c # "big" \/ x.e >= 0 THEN x
    ELSE Canon(x.neg, BnShr(x.m, -x.e), 0)      \* may give -0

Floor(x) ==
    IF x.c # "big" \/ x.e >= 0 THEN x
    ELSE LET t == BnShr(x.m, -x.e)
         IN  IF x.neg THEN Canon(TRUE, BnAdd(t, <<1>>), 0) ELSE Canon(FALSE, t, 0)

Ceil(x) == NumNeg(Floor(NumNeg(x)))

(* ToInteger on a Num (9.4) *)
ToIntegerN(x) == IF IsNaN(x) THEN I(0)
                 ELSE IF x.c = "big" THEN (LET t == Trunc(x) IN IF t.c = "nzero" THEN t ELSE t)
                 ELSE x

(* x modulo 2^k as a natural Bn, for finite x (9.5 step 3-4), k <= 32 *)
ModPow2(x, k) ==
    IF x.c = "nzero" THEN <<>>
    ELSE LET t  == Trunc(x)
         IN  IF t.c = "nzero" \/ (t.c = "int" /\ t.v = 0) THEN <<>>
             ELSE LET m   == MantOf(t)
                      e   == ExpOf(t)
                      low == IF e >= k THEN <<>> ELSE BnLowBits(BnShl(m, e), k)
                  IN  IF IsNeg(t) /\ low # <<>> THEN BnSub(BnShl(<<1>>, k), low) ELSE low

ToUint32N(x) == IF ~IsFinite(x) THEN I(0) ELSE Canon(FALSE, ModPow2(x, 32), 0)
ToUint16N(x) == IF ~IsFinite(x) THEN I(0) ELSE Canon(FALSE, ModPow2(x, 16), 0)
ToInt32N(x)  ==
    IF ~IsFinite(x) THEN I(0)
    ELSE LET u == ModPow2(x, 32)
         IN  IF BnBit(u, 31) = 1 THEN Canon(TRUE, BnSub(BnShl(<<1>>, 32), u), 0)
             ELSE Canon(FALSE, u, 0)

(* two 16-bit halves <<hi, lo>> of a uint32-valued Num, and back *)
Halves(u) == LET m == BnShl(MantOf(u), ExpOf(u))
             IN  IF IsZero(u) THEN <<0, 0>>
                 ELSE <<BnToInt(BnShr(m, 16)), BnToInt(BnLowBits(m, 16))>>
FromHalves(hi, lo) ==
    Canon(FALSE, BnAdd(BnShl(BnFromInt(hi), 16), BnFromInt(lo)), 0)
SignedFromHalves(hi, lo) ==
    IF hi >= 32768
    THEN Canon(TRUE, BnSub(BnShl(<<1>>, 32), BnAdd(BnShl(BnFromInt(hi), 16), BnFromInt(lo))), 0)
    ELSE FromHalves(hi, lo)

RECURSIVE BitOp16(_, _, _, _)
BitOp16(op, a, b, k) ==     \* bitwise op on 16-bit naturals
    IF k = 16 THEN 0
    ELSE LET x == a % 2  y == b % 2
             z == CASE op = "and" -> x * y
                    [] op = "or"  -> IF x + y > 0 THEN 1 ELSE 0
                    [] op = "xor" -> (x + y) % 2
         IN  z + 2 * BitOp16(op, a \div 2, b \div 2, k + 1)

(* op on int32 operands given as Nums (already ToInt32'ed); result int32 *)
BitOp32(op, x, y) ==
    LET hx == Halves(ToUint32N(x))  hy == Halves(ToUint32N(y))
    IN  SignedFromHalves(BitOp16(op, hx[1], hy[1], 0), BitOp16(op, hx[2], hy[2], 0))

BitNot32(x) == LET h == Halves(ToUint32N(x))
               IN  SignedFromHalves(65535 - h[1], 65535 - h[2])

(* shifts: x already int32/uint32-valued, s = shift count 0..31 *)
Shl32(x, s)  == ToInt32N(Canon(FALSE, BnShl(ModPow2(x, 32), s), 0))
ShrU32(x, s) == Canon(FALSE, BnShr(ModPow2(x, 32), s), 0)
ShrS32(x, s) == LET u == ModPow2(x, 32)
                IN  IF BnBit(u, 31) = 0 THEN Canon(FALSE, BnShr(u, s), 0)
                    ELSE \* arithmetic: floor(signed / 2^s)
                         LET mag == BnSub(BnShl(<<1>>, 32), u)   \* |signed|
                             q   == BnShr(BnAdd(mag, BnSub(BnShl(<<1>>, s), <<1>>)), s)  \* ceil(mag / 2^s)
                         IN  Canon(TRUE, q, 0)

(* small-integer view: valid when x.c = "int" *)
IsSmallInt(x) == x.c = "int"
=============================================================================
