------------------------------- MODULE Val ----------------------------------
(* ECMAScript language values (8.1 - 8.6) and the primitive conversions of   *)
(* clause 9 that need no object access.                                      *)
EXTENDS Str, FiniteSets

Undef   == [t |-> "undef"]
Null    == [t |-> "null"]
BoolV(b) == [t |-> "bool", b |-> b]
NumV(n) == [t |-> "num", n |-> n]
IntV(i) == [t |-> "num", n |-> I(i)]
StrV(s) == [t |-> "str", s |-> s]
ObjV(id) == [t |-> "obj", id |-> id]

IsObj(v)  == v.t = "obj"
IsPrim(v) == v.t # "obj"

-----------------------------------------------------------------------------
(* 9.3.1 ToNumber applied to the String type                                 *)

IsHexDigit(u) == IsDigit(u) \/ (u >= 65 /\ u <= 70) \/ (u >= 97 /\ u <= 102)
HexVal(u) == IF IsDigit(u) THEN u - 48 ELSE IF u >= 97 THEN u - 87 ELSE u - 55

RECURSIVE SpanDigits(_, _)
SpanDigits(s, i) == IF i <= Len(s) /\ IsDigit(s[i]) THEN SpanDigits(s, i + 1) ELSE i   \* first non-digit position

RECURSIVE AllHex(_, _)
AllHex(s, i) == i > Len(s) \/ (IsHexDigit(s[i]) /\ AllHex(s, i + 1))

RECURSIVE BnOfHexAt(_, _, _)
BnOfHexAt(s, i, acc) ==
    IF i > Len(s) THEN acc
    ELSE LET nx == BnAdd(BnMulSmall(acc, 16), BnFromInt(HexVal(s[i])))
         IN  IF Len(nx) < 0 THEN nx ELSE BnOfHexAt(s, i + 1, nx)

RECURSIVE SatNat(_, _, _)
SatNat(s, i, acc) ==      \* decimal value of s[i..], saturated at 100000
    IF i > Len(s) THEN acc
    ELSE SatNat(s, i + 1, IF acc >= 100000 THEN acc ELSE acc * 10 + (s[i] - 48))

S_InfinityLit == <<73, 110, 102, 105, 110, 105, 116, 121>>

(* StrUnsignedDecimalLiteral (without sign) -> Num or "bad" *)
UnsignedDecToNum(s, neg) ==
    IF s = S_InfinityLit THEN [ok |-> TRUE, n |-> Inf(neg)]
    ELSE LET i1 == SpanDigits(s, 1)                        \* integer digits s[1..i1-1]
             hasDot == i1 <= Len(s) /\ s[i1] = 46
             f0 == IF hasDot THEN i1 + 1 ELSE i1
             f1 == IF hasDot THEN SpanDigits(s, f0) ELSE f0   \* fraction digits s[f0..f1-1]
             intD == SubSeq(s, 1, i1 - 1)
             frD  == SubSeq(s, f0, f1 - 1)
             hasExp == f1 <= Len(s) /\ s[f1] \in {101, 69}
             es == IF hasExp /\ f1 + 1 <= Len(s) /\ s[f1 + 1] \in {43, 45} THEN f1 + 2 ELSE f1 + 1
             eend == IF hasExp THEN SpanDigits(s, es) ELSE f1
             eneg == hasExp /\ f1 + 1 <= Len(s) /\ s[f1 + 1] = 45
             okShape == /\ (Len(intD) > 0 \/ Len(frD) > 0)
                        /\ (~hasExp \/ eend > es)
                        /\ eend = Len(s) + 1
         IN  IF ~okShape THEN [ok |-> FALSE]
             ELSE LET ev == IF hasExp THEN (IF eneg THEN -1 ELSE 1) * SatNat(s, es, 0) ELSE 0
                      D  == BnOfDigits(intD \o frD)
                  IN  [ok |-> TRUE, n |-> DecToNum(neg, D, ev - Len(frD))]

StrToNum(s0) ==
    LET s == Trim(s0)
    IN  IF s = <<>> THEN I(0)
        ELSE IF Len(s) >= 3 /\ s[1] = 48 /\ s[2] \in {120, 88} /\ AllHex(s, 3)
             THEN RoundD(FALSE, BnOfHexAt(s, 3, <<>>), 0)
        ELSE LET neg == s[1] = 45
                 body == IF s[1] \in {43, 45} THEN SubSeq(s, 2, Len(s)) ELSE s
                 r == UnsignedDecToNum(body, neg)
             IN  IF r.ok THEN r.n ELSE NaN

-----------------------------------------------------------------------------
(* 9.8.1 ToString applied to the Number type, for integers of magnitude at   *)
(* most 2^53: there every integer is a double, so the shortest digit string  *)
(* that denotes the value is its exact decimal expansion.  The general case  *)
(* (shortest round-trip digits) is NumText!NumToStr.                          *)
IsSafeInt(x) ==
    x.c \in {"int", "nzero"} \/ (x.c = "big" /\ x.e >= 0 /\ x.e + BnBitLen(x.m) <= 53)
IntNumToStr(x) ==
    CASE x.c = "nzero" -> <<48>>
      [] x.c = "int" -> DigitsInt(x.v)
      [] x.c = "big" -> (IF x.neg THEN <<45>> ELSE <<>>) \o DigitsBn(BnShl(x.m, x.e))

-----------------------------------------------------------------------------
(* 9.2 ToBoolean, 9.12 SameValue, 11.9.6 strict equality on primitives       *)
ToBoolean(v) ==
    CASE v.t = "undef" -> FALSE
      [] v.t = "null" -> FALSE
      [] v.t = "bool" -> v.b
      [] v.t = "num" -> ~(IsNaN(v.n) \/ IsZero(v.n))
      [] v.t = "str" -> v.s # <<>>
      [] v.t = "obj" -> TRUE

SameValue(x, y) == x = y          \* canonical forms: NaN = NaN, +0 # -0

StrictEq(x, y) ==
    IF x.t # y.t THEN FALSE
    ELSE IF x.t = "num" THEN NumEq(x.n, y.n)
    ELSE x = y

TypeOfPrim(v) ==
    CASE v.t = "undef" -> S_undefined
      [] v.t = "null" -> S_object
      [] v.t = "bool" -> S_boolean
      [] v.t = "num" -> S_number
      [] v.t = "str" -> S_string

(* 9.3 ToNumber on primitives *)
ToNumberPrim(v) ==
    CASE v.t = "undef" -> NaN
      [] v.t = "null" -> I(0)
      [] v.t = "bool" -> IF v.b THEN I(1) ELSE I(0)
      [] v.t = "num" -> v.n
      [] v.t = "str" -> StrToNum(v.s)

(* 15.4: P is an array index iff ToString(ToUint32(P)) = P and ToUint32(P) # 2^32-1 *)
MaxIdxDigits == <<52, 50, 57, 52, 57, 54, 55, 50, 57, 53>>     \* "4294967295"
RECURSIVE AllDigits(_, _)
AllDigits(s, i) == i > Len(s) \/ (IsDigit(s[i]) /\ AllDigits(s, i + 1))
IsArrayIndex(p) ==
    /\ Len(p) >= 1 /\ Len(p) <= 10
    /\ AllDigits(p, 1)
    /\ (p[1] # 48 \/ Len(p) = 1)
    /\ (Len(p) < 10 \/ StrCmp(p, MaxIdxDigits) < 0)
IndexNum(p) == Canon(FALSE, BnOfDigits(p), 0)      \* numeric value of an array-index string
=============================================================================
