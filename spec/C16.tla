-------------------------------- MODULE C16 ---------------------------------
(* Generator / state machine for property C16: bridged Go functions,        *)
(* structs, maps and slices convert exactly or fail loudly.                  *)
(*  Mode = "cases": one state per case (block pattern)                        *)
(*     param   ConvertParam(JavaScript value, Go parameter type): the matrix  *)
(*     arity   argument count and variadic tails                              *)
(*     ret     return values (none, one, several)                             *)
(*     func    a JavaScript function passed for a Go func parameter           *)
(*     back    a bridged struct passed back to Go                             *)
(*     graph   shared and cyclic script data through every conversion entry   *)
(*     reent   script code run by the conversion of an argument calls again   *)
(*  Mode = "slice" | "map" | "mapint" | "struct": a live container as a state *)
(*     machine: the strict state st and the state lt under the known          *)
(*     deviations evolve together; every transition is printed with its path  *)
(*     (VIEW hides the history) and the observation required after it:        *)
(*     thrown class, value of the operation, the JavaScript view and the Go   *)
(*     view of the container.  Invariant SameContents: for addressable        *)
(*     containers the two views of the strict model are the same contents.    *)
EXTENDS Json, SequencesExt, Randomization
CONSTANTS OpenDev, Tier, Mode, MaxLen, Wide, Seed
VARIABLES blk, cs, st, lt, hist, cont

S == INSTANCE Bridge WITH Dev <- {}
L == INSTANCE Bridge WITH Dev <- OpenDev

I(n) == S!I(n)
Canon(neg, m, e) == S!Canon(neg, m, e)
P2(k) == S!P2Z(k)
ZAdd(k, n) == S!ZOfBn(FALSE, S!BnAdd(S!BnShl(<<1>>, k), S!BnFromInt(n)))
ZSub(k, n) == S!ZOfBn(FALSE, S!BnSub(S!BnShl(<<1>>, k), S!BnFromInt(n)))
NumV(n) == S!NumV(n)
IntV(i) == S!IntV(i)
StrV(s) == S!StrV(s)
A(items) == S!JArr(items)
O(keys, vals) == S!JObj(keys, vals)
TK(k) == S!TK(k)
Half == Canon(FALSE, <<1>>, -1)
OneHalf == Canon(FALSE, <<3>>, -1)
Tenth == S!DecToNum(FALSE, <<1>>, -1)
K_a == <<97>>
K_b == <<98>>
K_0 == <<48>>
K_1 == <<49>>
U_smile == <<55357, 56832>>

(* ---- rendering of JavaScript values as source text parts ------------------ *)
RECURSIVE JsParts(_)
RECURSIVE JsItems(_, _)
JsItems(items, i) == IF i > Len(items) THEN <<>>
                     ELSE (IF items[i].t = "hole" THEN <<>> ELSE JsParts(items[i])) \o <<",">> \o JsItems(items, i + 1)
RECURSIVE JsMembers(_, _, _)
JsMembers(keys, vals, i) == IF i > Len(keys) THEN <<>>
                            ELSE <<[lit |-> S!StrV(keys[i])], ":">> \o JsParts(vals[i]) \o <<",">> \o JsMembers(keys, vals, i + 1)
JsParts(v) == CASE v.t = "arr" -> <<"[">> \o JsItems(v.items, 1) \o <<"]">>
                [] v.t = "obj" -> <<"({">> \o JsMembers(v.keys, v.vals, 1) \o <<"})">>
                [] v.t = "fn" -> <<"(function(){})">>
                [] OTHER -> <<[lit |-> v]>>

-----------------------------------------------------------------------------
(* Mode "cases"                                                              *)
NumsPos == {I(1), Half, OneHalf, Tenth, I(2), I(127), I(128), I(255), I(256), I(32767), I(32768), I(65535), I(65536),
            ZSub(31, 1), P2(31), ZSub(32, 1), P2(32), ZSub(53, 1), P2(53), ZAdd(53, 2), ZSub(63, 1024), P2(63), ZAdd(63, 2048), ZSub(64, 2048), P2(64),
            S!DecToNum(FALSE, <<1>>, 21), S!DecToNum(FALSE, <<1>>, -7), S!DecToNum(FALSE, <<1>>, -5), S!DecToNum(FALSE, S!BnFromInt(123456), -3),
            P2(24), ZAdd(24, 1), S!MaxF32, S!NumAdd(S!MaxF32, P2(103)), S!DecToNum(FALSE, <<1>>, 39), Canon(FALSE, <<1>>, -149), Canon(FALSE, <<1>>, -150), Canon(FALSE, <<3>>, -150),
            S!DecToNum(FALSE, S!BnFromInt(123456789), 12)}
JNums == {S!NaN, I(0), S!NZero, S!PInf, S!NInf} \cup NumsPos \cup {S!NumNeg(x) : x \in NumsPos}
RetP(v) == [k |-> "ret", v |-> v]
Cobjs == {[t |-> "cobj", id |-> 1, vo |-> RetP(IntV(7)), ts |-> RetP(StrV(<<55>>))],
          [t |-> "cobj", id |-> 3, vo |-> [k |-> "retobj"], ts |-> RetP(IntV(20))],
          [t |-> "cobj", id |-> 6, vo |-> RetP(StrV(<<49, 48>>)), ts |-> [k |-> "throw"]],
          [t |-> "cobj", id |-> 2, vo |-> [k |-> "inherit"], ts |-> [k |-> "inherit"]]}
NonNums == {S!Undef, S!Null, S!BoolV(TRUE), S!BoolV(FALSE), StrV(<<53>>), StrV(<<>>), StrV(<<120>>), StrV(U_smile), O(<<>>, <<>>), A(<<IntV(1)>>)}
NumTypes == {TK(k) : k \in S!NumKinds}
StrArgs == {NumV(n) : n \in JNums} \cup NonNums \cup Cobjs
           \cup {A(<<>>), A(<<IntV(1), IntV(2)>>), A(<<S!Null, StrV(K_a), S!Undef, NumV(OneHalf)>>), A(<<S!JHole, IntV(1)>>)}
ArrArgs == {A(<<>>), A(<<IntV(1), IntV(2)>>), A(<<IntV(1), IntV(300)>>), A(<<IntV(1), NumV(OneHalf)>>), A(<<NumV(Tenth)>>), A(<<IntV(1), StrV(K_a)>>),
            A(<<StrV(K_a), StrV(U_smile)>>), A(<<S!JHole, IntV(1)>>), A(<<IntV(1), S!JHole>>), A(<<S!Null>>), A(<<S!Undef>>), A(<<S!BoolV(TRUE)>>),
            A(<<A(<<IntV(1)>>), A(<<IntV(2), IntV(3)>>)>>), A(<<A(<<IntV(1)>>), IntV(2)>>), A(<<NumV(S!NaN)>>), A(<<NumV(S!NZero), NumV(P2(63))>>)}
NonArr == {S!Null, S!Undef, IntV(5), StrV(<<97, 98>>), S!BoolV(TRUE), O(<<>>, <<>>), O(<<K_a>>, <<IntV(1)>>),
           O(<<S!S_length>>, <<IntV(2)>>), O(<<K_0, K_1, S!S_length>>, <<IntV(1), IntV(2), IntV(2)>>), O(<<S!S_length>>, <<IntV(0)>>),
           O(<<S!S_length>>, <<NumV(OneHalf)>>), O(<<S!S_length>>, <<IntV(-1)>>), O(<<S!S_length>>, <<StrV(<<50>>)>>), O(<<S!S_length>>, <<NumV(S!NaN)>>)}
SliceTypes == {S!TSl(TK("int")), S!TSl(TK("int8")), S!TSl(TK("uint8")), S!TSl(TK("float32")), S!TSl(TK("float64")), S!TSl(TK("string")), S!TSl(TK("iface")),
               S!TSl(TK("bool")), S!TSl(S!TSl(TK("int")))}
ObjArgs == {O(<<>>, <<>>), O(<<K_a>>, <<IntV(1)>>), O(<<K_a, K_b>>, <<IntV(1), IntV(2)>>), O(<<K_a>>, <<NumV(OneHalf)>>), O(<<K_a>>, <<StrV(<<120>>)>>),
            O(<<K_a>>, <<S!Null>>), O(<<K_a>>, <<S!Undef>>), O(<<K_a, K_b>>, <<IntV(300), StrV(<<120>>)>>), O(<<K_a>>, <<A(<<IntV(1)>>)>>), O(<<U_smile>>, <<IntV(1)>>)}
NonObj == {S!Null, S!Undef, IntV(5), StrV(<<115>>), S!BoolV(TRUE)}
MapTypes == {S!TMp(TK("int")), S!TMp(TK("int8")), S!TMp(TK("iface")), S!TMp(TK("string")), S!TMp(S!TSl(TK("int")))}
StructArgs == {O(<<>>, <<>>), O(<<S!S_A>>, <<IntV(1)>>), O(<<S!S_A>>, <<NumV(OneHalf)>>), O(<<S!S_A>>, <<StrV(<<120>>)>>), O(<<S!S_A>>, <<NumV(P2(63))>>),
               O(<<S!S_bee>>, <<StrV(<<121>>)>>), O(<<S!S_B>>, <<StrV(<<122>>)>>), O(<<S!S_B>>, <<IntV(5)>>), O(<<S!S_B, S!S_bee>>, <<StrV(<<49>>), StrV(<<50>>)>>),
               O(<<S!S_A, S!S_Any, S!S_F, S!S_bee>>, <<IntV(1), A(<<IntV(1), StrV(K_a)>>), NumV(Half), StrV(<<113>>)>>),
               O(<<S!S_c>>, <<IntV(1)>>), O(<<S!S_Hid>>, <<IntV(1)>>), O(<<<<90, 101, 100>>>>, <<IntV(1)>>), O(<<S!S_Any>>, <<S!Null>>), O(<<S!S_Any>>, <<O(<<K_a>>, <<IntV(1)>>)>>),
               O(<<S!S_F>>, <<StrV(<<49>>)>>), O(<<S!S_F>>, <<NumV(S!NaN)>>), O(<<S!S_A, S!S_F>>, <<IntV(2), StrV(<<120>>)>>), O(<<S!S_A, S!S_F>>, <<StrV(<<120>>), NumV(Half)>>)}
               \cup NonObj \cup {A(<<IntV(1)>>)}
IfaceArgs == {NumV(n) : n \in JNums} \cup NonNums \cup ArrArgs \cup ObjArgs
Params ==
    {[fam |-> "param", ty |-> ty, v |-> v] : ty \in NumTypes, v \in {NumV(n) : n \in JNums} \cup NonNums}
    \cup {[fam |-> "param", ty |-> TK("string"), v |-> v] : v \in StrArgs}
    \cup {[fam |-> "param", ty |-> TK("bool"), v |-> v] : v \in {NumV(S!NaN), IntV(0), NumV(S!NZero), IntV(1), NumV(Half)} \cup NonNums \cup Cobjs}
    \cup {[fam |-> "param", ty |-> TK("iface"), v |-> v] : v \in IfaceArgs}
    \cup {[fam |-> "param", ty |-> ty, v |-> v] : ty \in SliceTypes, v \in ArrArgs \cup NonArr}
    \cup {[fam |-> "param", ty |-> ty, v |-> v] : ty \in MapTypes, v \in ObjArgs \cup NonObj}
    \cup {[fam |-> "param", ty |-> ty, v |-> v] : ty \in {TK("struct"), TK("ptr")}, v \in StructArgs}

Sig(ins, variadic) == [ins |-> ins, variadic |-> variadic]
Sigs == {Sig(<<>>, FALSE), Sig(<<TK("int")>>, FALSE), Sig(<<TK("int"), TK("string")>>, FALSE),
         Sig(<<TK("int"), TK("int")>>, TRUE), Sig(<<TK("string")>>, TRUE), Sig(<<TK("iface")>>, TRUE)}
AVals == {IntV(1), IntV(2), NumV(OneHalf), StrV(K_a), A(<<IntV(2), IntV(3)>>), A(<<NumV(OneHalf)>>), A(<<StrV(K_a)>>), S!Undef}
ArgLists == {<<>>} \cup {<<a>> : a \in AVals} \cup {<<a, b>> : a \in AVals, b \in AVals}
            \cup {<<a, b, c>> : a \in {IntV(1), StrV(K_a)}, b \in AVals, c \in {IntV(2), StrV(K_a), A(<<IntV(2), IntV(3)>>)}}
Arities == {[fam |-> "arity", sig |-> s, args |-> a] : s \in Sigs, a \in ArgLists}

RetVals == {S!GNil, S!GBool(TRUE), S!GInt("int", I(5)), S!GInt("int8", I(-128)), S!GInt("uint64", ZAdd(63, 1024)), S!GInt("int64", ZAdd(53, 1)),
            S!GFlt("float32", OneHalf), S!GFlt("float64", S!NZero), S!GFlt("float64", S!NaN), S!GStr(U_smile), S!GStr(<<>>),
            S!GSlice("iface", FALSE, <<S!GInt("int", I(1)), S!GStr(<<97>>)>>), S!GSlice("int", TRUE, <<>>), S!GMap("int", FALSE, <<K_a>>, <<S!GInt("int", I(1))>>),
            S!GStruct(TRUE, I(1), <<120>>, I(2), Half, S!GNil, I(3)), S!GStruct(FALSE, I(1), <<120>>, I(2), Half, S!GStr(<<97>>), I(3)), S!GPtrNil}
(* results of every numeric kind, as the plain kind, a declared named type of it, a pointer to it and a pointer to  *)
(* the named type, with the boundary values per width (ends of the range, just beyond every narrower width): one    *)
(* and two results; structs whose fields are named types / pointers; maps keyed by integer kinds and named types    *)
ZNegR(z) == S!NumNeg(z)
CrossingR(k) == {ZAdd(w, 44) : w \in {w \in {8, 16, 32} : w < S!Bits(k)}}
                \cup (IF k \in S!SIntKinds THEN {ZNegR(ZAdd(w - 1, 1)) : w \in {w \in {8, 16, 32} : w < S!Bits(k)}} ELSE {})
NumResults(k) == IF k \in S!IntKinds THEN {S!GInt(k, z) : z \in {S!LoOf(k), S!HiOf(k), I(1)} \cup CrossingR(k)}
                 ELSE {S!GFlt(k, n) : n \in {OneHalf, P2(24), S!NZero} \cup (IF k = "float64" THEN {P2(64), Tenth} ELSE {S!MaxF32})}
Wraps(g) == {g, S!GNamed(g), S!GPtr(g), S!GPtr(S!GNamed(g))}
KindResults == UNION {UNION {Wraps(g) : g \in NumResults(k)} : k \in S!NumKinds} \cup {S!GNilPtr(k) : k \in S!NumKinds}
RECURSIVE InsSortedR(_, _)
InsSortedR(seq, z) == IF seq = <<>> THEN <<z>>
                      ELSE IF S!StrCmp(S!DigitsZ(z), S!DigitsZ(seq[1])) < 0 THEN <<z>> \o seq ELSE <<seq[1]>> \o InsSortedR(Tail(seq), z)
RECURSIVE SortKeysR(_)
SortKeysR(seq) == IF seq = <<>> THEN <<>> ELSE InsSortedR(SortKeysR(Tail(seq)), seq[1])
KeySeqR(k) == SortKeysR(SetToSeq({S!LoOf(k), S!HiOf(k), I(1)} \cup CrossingR(k)))
MapResults == {S!GIMap(k, nm, "int", FALSE, KeySeqR(k), [i \in 1..Len(KeySeqR(k)) |-> S!GInt("int", I(i))]) : k \in S!IntKinds, nm \in BOOLEAN}
NSKindsR == <<"int", "int8", "int16", "int32", "int64", "uint", "uint8", "uint16", "uint32", "uint64">>
PSKindsR == NSKindsR \o <<"float32", "float64">>
PickR(k, which) == IF k \in S!FltKinds THEN S!GFlt(k, IF which = 1 THEN OneHalf ELSE P2(24))
                   ELSE S!GInt(k, IF which = 1 THEN S!HiOf(k) ELSE IF which = 2 THEN S!LoOf(k) ELSE (IF S!Bits(k) = 8 THEN I(100) ELSE ZAdd(S!Bits(k) \div 2, 44)))
StructResults == {S!GNStruct(p, [i \in 1..10 |-> S!GNamed(PickR(NSKindsR[i], w))] \o <<S!GNamed(S!GFlt("float64", OneHalf))>>) : p \in BOOLEAN, w \in {1, 2, 3}}
                 \cup {[k |-> "pstruct", ptr |-> p, f |-> [i \in 1..12 |-> S!GPtr(PickR(PSKindsR[i], w))]] : p \in BOOLEAN, w \in {1, 2, 3}}
                 \cup {[k |-> "pstruct", ptr |-> TRUE, f |-> [i \in 1..12 |-> S!GNilPtr(PSKindsR[i])]]}
ReflRets == {[fam |-> "ret", outs |-> <<a>>] : a \in KindResults \cup MapResults \cup StructResults}
            \cup {[fam |-> "ret", outs |-> <<a, S!GStr(U_smile)>>] : a \in KindResults}
            \cup {[fam |-> "ret", outs |-> <<S!GInt("int", I(5)), a>>] : a \in {g \in KindResults : g.k \in {"named", "ptr"}}}
Rets == ReflRets \cup {[fam |-> "ret", outs |-> o] : o \in {<<>>} \cup {<<a>> : a \in RetVals} \cup {<<a, b>> : a \in RetVals, b \in {S!GNil, S!GInt("int", I(5)), S!GStr(U_smile)}}
                                              \cup {<<S!GInt("int", I(1)), S!GStr(<<97>>), S!GBool(FALSE)>>}}

Funcs == {[fam |-> "func", body |-> [b |-> "ret", v |-> v]] : v \in {IntV(4), NumV(OneHalf), StrV(K_a), S!Undef, NumV(P2(63)), NumV(S!NZero), S!Null}}
         \cup {[fam |-> "func", body |-> [b |-> "throw", cls |-> c]] : c \in {"RangeError", "TypeError", "Error"}}
         \cup {[fam |-> "func", body |-> [b |-> "notfn", v |-> v]] : v \in {IntV(1), S!Null, O(<<>>, <<>>), StrV(K_a)}}

BackStruct == [k |-> "struct", A |-> I(7), B |-> <<120>>, c |-> I(2), F |-> Half, Any |-> S!GX([x |-> "str", s |-> <<97>>]), Hid |-> I(3)]
Backs == {[fam |-> "back", isptr |-> p, ty |-> ty, src |-> BackStruct] : p \in BOOLEAN, ty \in {"ptr", "struct", "iface"}}

(* element writes of the boundary values of every integer width into []K, [2]K, map[string]K:        *)
(* min - 1, min, max, max + 1, 2^w - 1, 2^w (doubles only: for the 64-bit kinds the neighbours that   *)
(* exist), 0, -1, fractions of both signs, NaN                                                        *)
BoundaryOf(k) ==
    LET w == S!Bits(k) IN
    {I(0), I(-1), OneHalf, S!NumNeg(OneHalf), S!NaN, S!NZero}
    \cup (IF w < 64 THEN {S!LoOf(k), S!HiOf(k), S!NumSub(S!LoOf(k), I(1)), S!NumAdd(S!HiOf(k), I(1)), P2(w), S!NumSub(P2(w), I(1)), S!NumNeg(P2(w))}
          ELSE {ZSub(63, 1024), P2(63), S!NumNeg(P2(63)), S!NumNeg(ZAdd(63, 2048)), ZSub(64, 2048), P2(64), ZAdd(64, 4096), ZSub(53, 1), P2(53)})
ElemWs == {[fam |-> "elemw", cont |-> c, k |-> k, v |-> NumV(n)] : c \in {"slice", "array", "map"}, k \in S!IntKinds, n \in UNION {BoundaryOf(kk) : kk \in S!IntKinds}}
ElemWsOK == {c \in ElemWs : c.v.n \in BoundaryOf(c.k)}

(* a nested struct / array / element of a *Doc handed to a Go function taking a pointer (Bridge!DocPtrCall) *)
In1 == [Tags |-> <<S!GStr(<<105>>)>>, Sizes |-> <<S!GInt("int8", I(7))>>, N |-> I(1)]
In2 == [Tags |-> <<S!GStr(<<112>>), S!GStr(<<113>>)>>, Sizes |-> <<>>, N |-> I(2)]
Doc0 == [k |-> "doc", Title |-> <<116>>, Tags |-> <<S!GStr(<<97>>), S!GStr(U_smile)>>,
         Sizes |-> <<S!GInt("int8", I(1)), S!GInt("int8", I(2)), S!GInt("int8", I(-128))>>,
         Any |-> <<S!GX([x |-> "num", n |-> I(1)]), S!GX([x |-> "str", s |-> <<120>>])>>,
         In |-> In1, PIn |-> In2, Arr |-> <<S!GInt("int8", I(1)), S!GInt("int8", I(2))>>,
         SIn |-> <<In2>>, AIn |-> <<In1, In2>>, Grid |-> <<<<S!GInt("int8", I(1))>>, <<S!GInt("int8", I(2)), S!GInt("int8", I(3))>>>>]
PFields == {[fam |-> "pfield", where |-> w, sel |-> sel, d |-> Doc0] : w \in {"ptr", "inslice", "inmap"}, sel \in {"In", "PIn", "Arr", "SIn0", "AIn0"}}

(* struct fields with every form of json tag, by Go name, by json name and by near misses (Bridge!TagAccess) *)
TagNames == {<<80, 108, 97, 105, 110>>, <<78, 97, 109, 101, 100>>, <<79, 109, 105, 116>>, <<83, 116, 114>>, <<75, 101, 101, 112, 78, 97, 109, 101>>, <<68, 97, 115, 104>>, <<68, 97, 115, 104, 67, 111, 109, 109, 97>>, <<110>>, <<99, 111, 117, 110, 116>>, <<115>>, <<45>>, <<99, 111, 117, 110, 116, 44, 111, 109, 105, 116, 101, 109, 112, 116, 121>>, <<>>, <<44, 111, 109, 105, 116, 101, 109, 112, 116, 121>>, <<45, 44>>, <<112, 108, 97, 105, 110>>, <<111, 109, 105, 116>>, <<78>>, <<67, 111, 117, 110, 116>>, <<115, 44, 115, 116, 114, 105, 110, 103>>, <<115, 116, 114, 105, 110, 103>>, <<111, 109, 105, 116, 101, 109, 112, 116, 121>>}
TagFields == {[fam |-> "tagfield", mode |-> m, name |-> n] : m \in {"read", "write", "param"}, n \in TagNames}

(* ---- shared and cyclic script data through EVERY script -> Go conversion entry ---------------------- *)
(* (fifth wave: a change that left a homogeneous array in the `active` set of Value.export was missed -   *)
(* every generated argument was a TREE).  A script value is a graph: containers n1 (the value handed to   *)
(* Go), n2, n3 (the "row") and n4 (a leaf row); a member is a primitive or a reference.  Sharing is       *)
(* invisible to the conversion (the Go value is the tree unfolding, built element-wise), a reference back *)
(* to a container whose export is in progress is nil (Bridge!ExportNode).  Product: reference structure   *)
(* of n1/n2 x content class of the row x entry point of the conversion.                                   *)
Ref(i) == [t |-> "ref", i |-> i]
GNode(kind, vals) == [kind |-> kind, keys |-> [i \in 1..Len(vals) |-> IF i = 1 THEN K_a ELSE K_b], vals |-> vals]
GRows == {GNode("arr", <<IntV(1), IntV(2)>>), GNode("arr", <<StrV(K_a), StrV(K_b)>>), GNode("arr", <<S!BoolV(TRUE), S!BoolV(FALSE)>>),
          GNode("arr", <<NumV(OneHalf), NumV(Half)>>), GNode("arr", <<IntV(1)>>), GNode("arr", <<>>), GNode("arr", <<IntV(1), StrV(K_a)>>),
          GNode("arr", <<S!Null>>), GNode("arr", <<Ref(4), Ref(4)>>), GNode("arr", <<Ref(1)>>), GNode("arr", <<IntV(1), Ref(3)>>),
          GNode("obj", <<IntV(1)>>), GNode("obj", <<>>), GNode("obj", <<Ref(4), Ref(4)>>), GNode("obj", <<Ref(1)>>)}
GLeaf == GNode("arr", <<IntV(3)>>)
GSlot1 == {IntV(1), Ref(1), Ref(2), Ref(3)}
GSlot2 == {IntV(1), Ref(1), Ref(3)}
GUses(vals, i) == \E j \in 1..Len(vals) : vals[j] = Ref(i)
(* canonical graphs only: an unreferenced n2 / row has one representative *)
Graphs == {<<GNode(k1, <<a, b>>), GNode(k2, <<c>>), row, GLeaf>> :
              k1 \in {"arr", "obj"}, a \in GSlot1, b \in GSlot1, k2 \in {"arr", "obj"}, c \in GSlot2, row \in GRows}
GraphsCanon == {g \in Graphs :
                   /\ (GUses(g[1].vals, 2) \/ (g[2] = GNode("arr", <<IntV(1)>>)))
                   /\ (GUses(g[1].vals, 3) \/ (GUses(g[1].vals, 2) /\ GUses(g[2].vals, 3)) \/ g[3] = GNode("arr", <<>>))}
GraphSeq == SetToSeq(GraphsCanon)
TFunc0 == [k |-> "func0"]                 \* func() interface{}
GEntrySeq == <<"p_iface", "p_two", "p_var", "p_var1", "p_slice", "p_map", "p_struct", "p_ptr", "p_func", "p_sl2", "p_slsl", "p_mapsl", "p_mapmap",
               "w_slice", "w_array", "w_map", "w_struct">>
GEntrySig(e) == CASE e = "p_iface" -> Sig(<<TK("iface")>>, FALSE) [] e = "p_two" -> Sig(<<TK("iface"), TK("iface")>>, FALSE)
                  [] e \in {"p_var", "p_var1"} -> Sig(<<TK("iface")>>, TRUE)
                  [] e = "p_slice" -> Sig(<<S!TSl(TK("iface"))>>, FALSE) [] e = "p_map" -> Sig(<<S!TMp(TK("iface"))>>, FALSE)
                  [] e = "p_struct" -> Sig(<<TK("struct")>>, FALSE) [] e = "p_ptr" -> Sig(<<TK("ptr")>>, FALSE)
                  [] e = "p_func" -> Sig(<<TFunc0>>, FALSE)
                  [] e = "p_sl2" -> Sig(<<S!TSl(S!TSl(TK("iface")))>>, FALSE) [] e = "p_slsl" -> Sig(<<S!TSl(S!TSl(TK("int")))>>, FALSE)
                  [] e = "p_mapsl" -> Sig(<<S!TMp(S!TSl(TK("int")))>>, FALSE) [] e = "p_mapmap" -> Sig(<<S!TMp(S!TMp(TK("iface")))>>, FALSE)
                  [] OTHER -> Sig(<<>>, FALSE)
GEntryRoot(e) == CASE e \in {"p_slice", "p_sl2", "p_slsl"} -> {"arr"} [] e \in {"p_map", "p_mapsl", "p_mapmap"} -> {"obj"} [] OTHER -> {"arr", "obj"}
NGraph == Len(GraphSeq) * Len(GEntrySeq)
GraphCase(j) == LET e == GEntrySeq[((j - 1) % Len(GEntrySeq)) + 1] IN
                [fam |-> "graph", entry |-> e, sig |-> GEntrySig(e), nodes |-> GraphSeq[((j - 1) \div Len(GEntrySeq)) + 1]]
(* quick tier: a sample of the product fixed by the seed; thorough: all of it *)
GraphPicked(j) == Wide \/ ((j * 7919 + Seed * 31) % 1009) % 6 = 0
(* the conversion of a graph member to a parameter type, element-wise (the typed levels keep no record of *)
(* what is in progress: the recursion ends with the type); "unmodelled": a map parameter built from an    *)
(* Array, strings and bools from containers - such cases are not generated                                *)
RECURSIVE GConv(_, _, _)
GConv(ns, v, ty) ==
    IF v.t # "ref" THEN S!ConvertParam(v, ty)
    ELSE LET nd == ns[v.i] IN
         CASE ty.k = "iface" -> S!POK(S!GX(S!ExportNode(ns, v.i, {})))
           [] ty.k \in S!NumKinds -> S!PErr("TypeError")
           [] ty.k = "slice" ->
                 IF nd.kind # "arr" THEN S!PErr("TypeError")
                 ELSE LET rs == [i \in 1..Len(nd.vals) |-> GConv(ns, nd.vals[i], ty.e)]
                          bad == S!FirstBad(rs)
                      IN  IF bad # <<>> THEN S!PErr(rs[bad[1]].thr)
                          ELSE S!POK([k |-> "slice", items |-> [i \in 1..Len(rs) |-> rs[i].g]])
           [] ty.k = "map" ->
                 IF nd.kind # "obj" THEN S!PErr("unmodelled")
                 ELSE LET rs == [i \in 1..Len(nd.vals) |-> GConv(ns, nd.vals[i], ty.e)]
                          bad == S!FirstBad(rs)
                      IN  IF bad # <<>> THEN S!PErr(rs[bad[1]].thr)
                          ELSE S!POK([k |-> "map", keys |-> nd.keys, vals |-> [i \in 1..Len(rs) |-> rs[i].g]])
           [] OTHER -> S!PErr("unmodelled")
GraphExpect(c) ==
    LET ns == c.nodes
        x == S!GX(S!ExportNode(ns, 1, {}))
        zs == [S!ZeroStruct EXCEPT !.Any = x]
        one(r) == IF r.thr # "" THEN [thr |-> r.thr] ELSE [thr |-> "", g |-> <<r.g>>]
    IN  CASE c.entry \in {"p_iface", "p_func"} -> [thr |-> "", g |-> <<x>>]
          [] c.entry = "p_two" -> [thr |-> "", g |-> <<x, x>>]
          [] c.entry = "p_var" -> [thr |-> "", g |-> <<[k |-> "slice", items |-> <<x, x>>]>>]
          [] c.entry = "p_var1" ->      \* exactly as many arguments as parameters: an Array is taken as the tail, element-wise
                IF ns[1].kind = "arr" THEN one(GConv(ns, Ref(1), S!TSl(TK("iface")))) ELSE [thr |-> "", g |-> <<[k |-> "slice", items |-> <<x>>]>>]
          [] c.entry = "p_struct" -> [thr |-> "", g |-> <<zs>>]
          [] c.entry = "p_ptr" -> [thr |-> "", g |-> <<[k |-> "ptr", to |-> zs]>>]
          [] c.entry \in {"w_slice", "w_array", "w_map", "w_struct"} -> [thr |-> "", elem |-> x, js |-> S!ElemJS(x)]
          [] OTHER -> one(GConv(ns, Ref(1), c.sig.ins[1]))
GraphOK(j) == LET c == GraphCase(j) IN c.nodes[1].kind \in GEntryRoot(c.entry) /\ GraphExpect(c).thr # "unmodelled"
NodeName(i) == "n" \o ToString(i)
MemberJs(v) == IF v.t = "ref" THEN <<NodeName(v.i)>> ELSE <<[lit |-> v]>>
RECURSIVE FillJs(_, _, _)
FillJs(nd, i, j) == IF j > Len(nd.vals) THEN <<>>
                    ELSE (IF nd.kind = "arr" THEN <<NodeName(i) \o ".push(">> \o MemberJs(nd.vals[j]) \o <<"); ">>
                          ELSE <<NodeName(i) \o "[">> \o <<[lit |-> StrV(nd.keys[j])]>> \o <<"] = ">> \o MemberJs(nd.vals[j]) \o <<"; ">>)
                         \o FillJs(nd, i, j + 1)
DeclJs(nd, i) == NodeName(i) \o (IF nd.kind = "arr" THEN " = []" ELSE " = {}")
GraphJs(c) ==
    LET ns == c.nodes IN
    <<"(function(){ var " \o DeclJs(ns[1], 1) \o ", " \o DeclJs(ns[2], 2) \o ", " \o DeclJs(ns[3], 3) \o ", " \o DeclJs(ns[4], 4) \o "; ">>
    \o FillJs(ns[4], 4, 1) \o FillJs(ns[3], 3, 1) \o FillJs(ns[2], 2, 1) \o FillJs(ns[1], 1, 1)
    \o <<CASE c.entry \in {"p_two", "p_var"} -> "P(n1, n1);"
           [] c.entry \in {"p_struct", "p_ptr"} -> "P({Any: n1});"
           [] c.entry = "p_func" -> "P(function(){ return n1; });"
           [] c.entry \in {"w_slice", "w_array"} -> "c[0] = n1;"
           [] c.entry = "w_map" -> "c['a'] = n1;"
           [] c.entry = "w_struct" -> "c.Any = n1;"
           [] OTHER -> "P(n1);">>
    \o <<" })()">>

(* ---- re-entrant calls: script code that runs WHILE the arguments of a bridged call are converted ---- *)
(* (fifth wave: a change that shared the argument buffer between the activations of one wrapper was       *)
(* missed - no generated argument ran script code that called a bridged function).  Script code runs      *)
(* inside a call of a Go function when an argument is converted: toString of an object for a string       *)
(* parameter (also of an element while an Array is joined), an accessor property read while a struct, a   *)
(* map or an interface{} value is built member-wise, an accessor element of an Array for a slice, and a   *)
(* JavaScript function passed for a func parameter when the callee calls it.  That code calls a bridged   *)
(* function again (the same wrapper, a second wrapper of the same Go function, another function; with a   *)
(* valid or an invalid argument count; caught or not; one level deeper).  Every activation must receive   *)
(* exactly its own arguments and return its own result: the Go callees record what arrives, in the order  *)
(* in which they complete.                                                                                 *)
(*   call = [f |-> name, args |-> <<value | hook>>]                                                       *)
(*   hook = [t |-> "hook", hk |-> "tostr"|"join"|"getter"|"elem"|"cb", call |-> call | NoCall,             *)
(*           catch |-> BOOLEAN, ret |-> value the script code returns]                                    *)
TFuncI == [k |-> "func"]                  \* func(int) int, called by the callee with 3
NoCall == [f |-> "none"]
ReSig(f) == CASE f \in {"F", "F2", "G"} -> Sig(<<TK("string"), TK("string"), TK("string")>>, FALSE)
              [] f = "V" -> Sig(<<TK("string"), TK("string")>>, TRUE)
              [] f = "M" -> Sig(<<TK("string"), TK("struct"), S!TSl(TK("int")), TK("iface")>>, FALSE)
              [] f = "K" -> Sig(<<TK("string"), TFuncI, TK("string")>>, FALSE)
ReGo(f) == IF f = "F2" THEN "F" ELSE f           \* F2 is a second wrapper of the Go function behind F
ReFns == {"F", "F2", "G", "V", "M", "K"}
ReTyAt(f, p) == LET s == ReSig(f) IN IF p > Len(s.ins) THEN s.ins[Len(s.ins)] ELSE s.ins[p]
Hook(hk, call, catch, ret) == [t |-> "hook", hk |-> hk, call |-> call, catch |-> catch, ret |-> ret]
LvlUnit(lvl) == CASE lvl = 0 -> 111 [] lvl = 1 -> 105 [] OTHER -> 106              \* o, i, j
RePlain(ty, lvl, p) == CASE ty.k = "string" -> StrV(<<LvlUnit(lvl), 48 + p>>)
                         [] ty.k = "struct" -> O(<<S!S_A>>, <<IntV(10 * lvl + p)>>)
                         [] ty.k = "slice" -> A(<<IntV(10 * lvl + p)>>)
                         [] ty.k = "func" -> Hook("cb", NoCall, FALSE, IntV(10 * lvl + p))
                         [] OTHER -> IntV(10 * lvl + p)
RePlainCall(f, m, lvl) == [f |-> f, args |-> [p \in 1..m |-> RePlain(ReTyAt(f, p), lvl, p)]]
ReCounts(f) == IF f = "V" THEN {1, 2, 3} ELSE {Len(ReSig(f).ins)}
ReBadCounts(f) == IF f = "V" THEN {0} ELSE {Len(ReSig(f).ins) - 1}
ReHKs(ty) == CASE ty.k = "string" -> {"tostr", "join"} [] ty.k = "struct" -> {"getter"} [] ty.k = "slice" -> {"elem"}
               [] ty.k = "func" -> {"cb"} [] OTHER -> {"getter", "elem"}
ReRets(hk, ty) == CASE hk = "tostr" -> <<StrV(<<114>>), IntV(5)>> [] hk = "join" -> <<StrV(<<114>>)>>
                    [] hk = "getter" -> (IF ty.k = "struct" THEN <<IntV(7), NumV(OneHalf)>> ELSE <<IntV(7)>>)
                    [] hk = "elem" -> (IF ty.k = "slice" THEN <<IntV(7), StrV(<<120>>)>> ELSE <<IntV(7)>>)
                    [] hk = "cb" -> <<IntV(4), StrV(K_a)>>
ReRetSet(hk, ty) == {ReRets(hk, ty)[i] : i \in 1..Len(ReRets(hk, ty))}
ReOuter == {<<"F", 3>>, <<"V", 1>>, <<"V", 2>>, <<"V", 3>>, <<"M", 4>>, <<"K", 3>>}
(* the calls made from inside the script code: every function, valid counts; invalid counts caught and not *)
ReLeafOK(lvl) == {[call |-> RePlainCall(g, m, lvl), catch |-> FALSE] : g \in ReFns, m \in {1, 2, 3, 4}}
ReLeafBad(lvl) == {[call |-> RePlainCall(g, m, lvl), catch |-> ct] : g \in ReFns, m \in {0, 2, 3}, ct \in BOOLEAN}
ReLeaves(lvl) == {x \in ReLeafOK(lvl) : Len(x.call.args) \in ReCounts(x.call.f)} \cup {x \in ReLeafBad(lvl) : Len(x.call.args) \in ReBadCounts(x.call.f)}
WithHook(call, p, h) == [call EXCEPT !.args[p] = h]
(* one hook: outer function x position x kind of script code x what it returns x the call it makes (or none) *)
ReOne == UNION {UNION {UNION {
            {[fam |-> "reent", call |-> WithHook(RePlainCall(fm[1], fm[2], 0), p, Hook(hk, NoCall, FALSE, ret))] : ret \in ReRetSet(hk, ReTyAt(fm[1], p))}
            \cup {[fam |-> "reent", call |-> WithHook(RePlainCall(fm[1], fm[2], 0), p, Hook(hk, lf.call, lf.catch, ret))] :
                     ret \in ReRetSet(hk, ReTyAt(fm[1], p)), lf \in ReLeaves(1)}
            : hk \in ReHKs(ReTyAt(fm[1], p))} : p \in 1..fm[2]} : fm \in ReOuter}
(* one level deeper: the call made by the script code has itself an argument whose conversion calls again *)
ReTwo == UNION {UNION {UNION {UNION {
            {[fam |-> "reent", call |-> WithHook(RePlainCall(fm[1], fm[2], 0), p, Hook(hk, WithHook(RePlainCall(fm[1], fm[2], 1), q, Hook(hk2, RePlainCall(h, Len(ReSig(h).ins), 2), FALSE, ReRets(hk2, ReTyAt(fm[1], q))[1])),
                                                                                     FALSE, ReRets(hk, ReTyAt(fm[1], p))[1]))] :
                 hk2 \in ReHKs(ReTyAt(fm[1], q)), h \in {fm[1], "G"}}
            : q \in 1..fm[2]} : hk \in ReHKs(ReTyAt(fm[1], p))} : p \in 1..fm[2]} : fm \in {<<"F", 3>>, <<"V", 2>>, <<"M", 4>>, <<"K", 3>>}}
(* two arguments of one call run script code: left to right (a callback runs when the callee calls it) *)
RePair == UNION {UNION {
            {[fam |-> "reent", call |-> WithHook(WithHook(RePlainCall(f, Len(ReSig(f).ins), 0), p, Hook(hk, RePlainCall(f, Len(ReSig(f).ins), 1), FALSE, ReRets(hk, ReTyAt(f, p))[1])),
                                                 q, Hook(hk2, RePlainCall(f, Len(ReSig(f).ins), 2), FALSE, ReRets(hk2, ReTyAt(f, q))[1]))] :
                 hk \in ReHKs(ReTyAt(f, p)), hk2 \in ReHKs(ReTyAt(f, q))}
            : p \in 1..Len(ReSig(f).ins), q \in 1..Len(ReSig(f).ins)} : f \in {"F", "M", "K"}}
RePairOK == {c \in RePair : \E p \in 1..Len(c.call.args), q \in 1..Len(c.call.args) : p < q /\ c.call.args[p].t = "hook" /\ c.call.args[p].call # NoCall
                                                                                      /\ c.call.args[q].t = "hook" /\ c.call.args[q].call # NoCall}
(* not generated: a join whose script code fails, uncaught, in the last argument of a variadic call with exactly as many  *)
(* arguments as parameters - the attempt to take the Array as the tail and the fallback each run the script code          *)
ReAmbiguous(c) == LET s == ReSig(c.call.f)  m == Len(c.call.args) IN
                  s.variadic /\ m = Len(s.ins) /\ c.call.args[m].t = "hook" /\ c.call.args[m].hk = "join"
                  /\ c.call.args[m].call # NoCall /\ ~c.call.args[m].catch /\ Len(c.call.args[m].call.args) \in ReBadCounts(c.call.args[m].call.f)
(* the registered functions, for the harness: JavaScript name, Go function behind it, signature *)
ReFnTable == [i \in 1..6 |-> LET f == <<"F", "F2", "G", "V", "M", "K">>[i] IN [name |-> f, go |-> ReGo(f), sig |-> ReSig(f)]]
Reents == {[fam |-> "reent", call |-> c.call, fns |-> ReFnTable] : c \in {c \in ReOne : ~ReAmbiguous(c)} \cup ReTwo \cup RePairOK}

(* what the conversion sees of an argument whose conversion ran script code *)
ReEff(a) == IF a.t # "hook" THEN a
            ELSE CASE a.hk \in {"tostr", "cb"} -> a.ret
                   [] a.hk = "join" -> A(<<StrV(<<112>>), a.ret>>)
                   [] a.hk = "getter" -> O(<<S!S_A, S!S_B>>, <<a.ret, StrV(<<112, 98>>)>>)
                   [] a.hk = "elem" -> A(<<IntV(5), a.ret>>)
ReModelSig(s) == [s EXCEPT !.ins = [i \in 1..Len(s.ins) |-> IF s.ins[i].k = "func" THEN TK("int") ELSE s.ins[i]]]
(* an exception of the script code as the calling script sees it: a failing toString makes the conversion *)
(* fail (TypeError); an accessor's or a callback's exception is the exception of the call (8.12.3)         *)
ReHookThr(hk, thr) == IF hk \in {"tostr", "join"} THEN "TypeError" ELSE thr
RECURSIVE ReCall(_, _, _)
RECURSIVE ReFire(_, _, _, _, _)
(* ss = [log |-> records of completed Go calls, res |-> what the script pushed]; cbs: the callbacks (TRUE) or the conversions (FALSE) *)
ReFire(dv, args, i, ss, cbs) ==
    IF i > Len(args) THEN [thr |-> "", st |-> ss]
    ELSE IF args[i].t = "hook" /\ args[i].call # NoCall /\ ((args[i].hk = "cb") = cbs)
    THEN LET h == args[i]
             r == ReCall(dv, h.call, ss)
         IN  IF r.thr = "" THEN ReFire(dv, args, i + 1, [log |-> r.st.log, res |-> Append(r.st.res, ToString(r.ret))], cbs)
             ELSE IF h.catch THEN ReFire(dv, args, i + 1, [log |-> r.st.log, res |-> Append(r.st.res, r.thr)], cbs)
             ELSE [thr |-> ReHookThr(h.hk, r.thr), st |-> r.st]
    ELSE ReFire(dv, args, i + 1, ss, cbs)
ReCall(dv, call, ss) ==
    LET sig == ReSig(call.f)  n == Len(sig.ins)  m == Len(call.args)
        arityOK == IF sig.variadic THEN m >= n - 1 ELSE m = n
        fail(thr, s) == [thr |-> thr, st |-> s, ret |-> 0]
    IN  IF ~arityOK THEN fail("RangeError", ss)                    \* reported before any argument is converted
        ELSE LET h1 == ReFire(dv, call.args, 1, ss, FALSE)         \* the arguments are converted left to right
             IN  IF h1.thr # "" THEN fail(h1.thr, h1.st)
                 ELSE LET eff == [i \in 1..m |-> ReEff(call.args[i])]
                          conv(e) == IF dv THEN L!ConvertArgs(e, ReModelSig(sig)) ELSE S!ConvertArgs(e, ReModelSig(sig))
                          \* the arguments other than callbacks: a failure there ends the call before the callee runs
                          pre == conv([i \in 1..m |-> IF call.args[i].t = "hook" /\ call.args[i].hk = "cb" THEN IntV(0) ELSE eff[i]])
                      IN  IF pre.thr # "" THEN fail(pre.thr, h1.st)
                          ELSE LET h2 == ReFire(dv, call.args, 1, h1.st, TRUE)       \* the callee runs: it calls its callbacks
                               IN  IF h2.thr # "" THEN fail(h2.thr, h2.st)
                                   ELSE LET r == conv(eff)
                                        IN  IF r.thr # "" THEN fail(r.thr, h2.st)
                                            ELSE [thr |-> "", ret |-> Len(h2.st.log) + 1,
                                                  st |-> [h2.st EXCEPT !.log = Append(@, [f |-> ReGo(call.f), g |-> r.g])]]
ReExpect(dv, c) == LET r == ReCall(dv, c.call, [log |-> <<>>, res |-> <<>>])
                   IN  [thr |-> r.thr, log |-> r.st.log, res |-> IF r.thr = "" THEN Append(r.st.res, ToString(r.ret)) ELSE r.st.res]
RECURSIVE ReCallJs(_)
RECURSIVE ReArgsJs(_, _)
ReHookJs(h) ==
    LET inner == IF h.call = NoCall THEN <<>>
                 ELSE IF h.catch THEN <<"try { ">> \o ReCallJs(h.call) \o <<"; } catch (e) { RES.push(CLS(e)); } ">>
                 ELSE ReCallJs(h.call) \o <<"; ">>
        body == inner \o <<"return ">> \o JsParts(h.ret) \o <<"; ">>
    IN  CASE h.hk = "tostr" -> <<"({toString: function(){ ">> \o body \o <<"}})">>
          [] h.hk = "join" -> <<"['p', {toString: function(){ ">> \o body \o <<"}}]">>
          [] h.hk = "getter" -> <<"(function(){ var o = {}; Object.defineProperty(o, 'A', {enumerable: true, configurable: true, get: function(){ ">> \o body \o <<"}}); o.B = 'pb'; return o; })()">>
          [] h.hk = "elem" -> <<"(function(){ var a = [5]; Object.defineProperty(a, '1', {enumerable: true, configurable: true, get: function(){ ">> \o body \o <<"}}); return a; })()">>
          [] h.hk = "cb" -> <<"(function(x){ ">> \o body \o <<"})">>
ReArgsJs(args, i) == IF i > Len(args) THEN <<>>
                     ELSE (IF i > 1 THEN <<", ">> ELSE <<>>) \o (IF args[i].t = "hook" THEN ReHookJs(args[i]) ELSE JsParts(args[i])) \o ReArgsJs(args, i + 1)
ReCallJs(call) == <<"RES.push(String(" \o call.f \o "(">> \o ReArgsJs(call.args, 1) \o <<")))">>
ReSeq == SetToSeq(Reents)

(* ---- the KEY conversion of bridged maps (sixth wave: a change that parsed uint8/uint16 property names with 32 bits and  *)
(* let reflect.Convert wrap them was missed - the only integer-keyed live map was map[int]string with names "1", "2",      *)
(* "abc", "1.5").  Product: key kind (every integer width, signed and unsigned, plain and named type; string) x property   *)
(* name class x operation.  The contract (statement of C16, "the same checked conversion"): a property name is a key of    *)
(* map[K]V iff it is String(k) for a value k of K - the canonical decimal text of an integer within the range of K (the    *)
(* text Object.keys lists); every other name (out of range for the width, negative for unsigned, a sign, leading zeros,    *)
(* Go literal syntax, fractions, blanks, non-numeric) is NOT a key and aliases nothing: read undefined, in/hasOwnProperty  *)
(* false, delete true without effect, write a TypeError.                                                                   *)
MkNone == [c |-> "none"]
MkKinds == S!IntKinds \cup {"string"}
MkCanonZ == {I(0), I(1), I(2), I(3), I(-1), I(-2)}
            \cup UNION {{ZSub(w - 1, 1), P2(w - 1), ZAdd(w - 1, 1), ZSub(w, 1), P2(w), ZAdd(w, 1), ZAdd(w, 2),
                         S!NumNeg(P2(w - 1)), S!NumNeg(ZAdd(w - 1, 1)), S!NumNeg(ZAdd(w, 1))} : w \in {8, 16, 32, 64}}
MkOddNames == {<<43, 49>>, <<48, 49>>, <<48, 48>>, <<48, 49, 48>>, <<48, 120, 49>>, <<48, 88, 49, 48>>, <<48, 98, 49>>, <<48, 111, 49>>,
               <<49, 95, 48>>, <<45, 48>>, <<45, 48, 49>>, <<43, 48>>, <<49, 46, 48>>, <<49, 46, 53>>, <<49, 101, 48>>, <<32, 49>>, <<49, 32>>,
               <<>>, <<97, 98, 99>>, <<45>>, <<48, 120>>, <<95, 49>>, <<49, 95>>, <<48, 95, 49>>, <<48, 120, 102, 102>>, <<45, 48, 120, 49>>,
               <<49, 48>>, <<45, 51>>}
MkNames == {[s |-> S!DigitsZ(z), z |-> z] : z \in MkCanonZ} \cup {[s |-> s, z |-> MkNone] : s \in MkOddNames}
MkOps == {"read", "write", "delete", "in", "hasown"}
MapKeyCases == {[fam |-> "mapkey", k |-> k, named |-> nm, mode |-> m, name |-> n.s, z |-> n.z] : k \in MkKinds, nm \in BOOLEAN, m \in MkOps, n \in MkNames}

(* strconv.ParseInt(s, 0, .) on a short text: optional sign, 0x / 0b / 0o prefix (only before at least one more     *)
(* character), a leading 0 means octal, "_" may separate digits.  Used (a) to recognise canonical decimal texts:    *)
(* DigitsInt(value) = s, and (b) as what otto does under the named deviation.  Result [ok, signed, v].              *)
MkDigit(c) == IF c >= 48 /\ c <= 57 THEN c - 48 ELSE IF c >= 97 /\ c <= 102 THEN c - 87 ELSE IF c >= 65 /\ c <= 70 THEN c - 55 ELSE 99
RECURSIVE MkDigits(_, _, _, _, _)
MkDigits(s, i, base, acc, prev) ==       \* prev: "d" a digit (or a prefix), "u" an underscore, "b" the beginning; -1: not a number
    IF i > Len(s) THEN (IF prev = "u" THEN -1 ELSE acc)
    ELSE IF s[i] = 95 THEN (IF prev = "d" THEN MkDigits(s, i + 1, base, acc, "u") ELSE -1)
    ELSE IF MkDigit(s[i]) < base THEN MkDigits(s, i + 1, base, acc * base + MkDigit(s[i]), "d") ELSE -1
MkLower(c) == IF c >= 65 /\ c <= 90 THEN c + 32 ELSE c
MkParse0(s) ==
    LET signed == Len(s) >= 1 /\ s[1] \in {43, 45}
        body == IF signed THEN Tail(s) ELSE s
        v == IF body = <<>> THEN -1
             ELSE IF body[1] = 48 /\ Len(body) >= 3 /\ MkLower(body[2]) = 120 THEN MkDigits(body, 3, 16, 0, "d")
             ELSE IF body[1] = 48 /\ Len(body) >= 3 /\ MkLower(body[2]) = 98 THEN MkDigits(body, 3, 2, 0, "d")
             ELSE IF body[1] = 48 /\ Len(body) >= 3 /\ MkLower(body[2]) = 111 THEN MkDigits(body, 3, 8, 0, "d")
             ELSE IF body[1] = 48 THEN MkDigits(body, 2, 8, 0, "d")
             ELSE MkDigits(body, 1, 10, 0, "b")
    IN  [ok |-> v >= 0, signed |-> signed, v |-> IF signed /\ s[1] = 45 THEN -v ELSE v]
(* the key (as the text Object.keys lists) a property name denotes: <<key>> or <<>> *)
MkKey(dev, name, z, k) ==
    IF k = "string" THEN <<name>>
    ELSE IF z # MkNone THEN (IF S!InRangeZ(z, k) THEN <<name>> ELSE <<>>)
    ELSE LET p == MkParse0(name) IN
         IF ~p.ok THEN <<>>
         ELSE IF dev THEN (IF (p.signed /\ k \in S!UIntKinds) \/ ~S!InRangeZ(I(p.v), k) THEN <<>> ELSE <<S!DigitsZ(I(p.v))>>)   \* value.go stringToReflectValue: ParseInt / ParseUint with base 0
         ELSE IF S!DigitsZ(I(p.v)) = name /\ S!InRangeZ(I(p.v), k) THEN <<name>> ELSE <<>>
RECURSIVE MkIns(_, _)
MkIns(seq, e) == IF seq = <<>> THEN <<e>> ELSE IF S!StrCmp(e, seq[1]) < 0 THEN <<e>> \o seq ELSE <<seq[1]>> \o MkIns(Tail(seq), e)
RECURSIVE MkSort(_)
MkSort(seq) == IF seq = <<>> THEN <<>> ELSE MkIns(MkSort(Tail(seq)), seq[1])
(* the map before the operation: 0, 1, 2 and the ends of the key range (values 1, 2, ... in the order of the sorted key texts) *)
MkInitKeys(k) == IF k = "string" THEN <<<<48>>, <<49>>, <<50>>>>
                 ELSE MkSort(SetToSeq({S!DigitsZ(z) : z \in {I(0), I(1), I(2), S!LoOf(k), S!HiOf(k)} \cup (IF k \in S!SIntKinds THEN {I(-1)} ELSE {})}))
MkIdx(keys, key) == {i \in 1..Len(keys) : keys[i] = key}
MapKeyAccess(dev, c) ==
    LET keys == MkInitKeys(c.k)
        vals == [i \in 1..Len(keys) |-> i]
        ko == MkKey(dev, c.name, c.z, c.k)
        ix == IF ko = <<>> THEN {} ELSE MkIdx(keys, ko[1])
        i0 == CHOOSE i \in ix : TRUE
        R(thr, ret, ks, vs) == [thr |-> thr, ret |-> ret, keys |-> ks, vals |-> vs, jskeys |-> ks]
    IN  CASE c.mode = "read" -> R("", IF ix = {} THEN S!Undef ELSE IntV(vals[i0]), keys, vals)
          [] c.mode \in {"in", "hasown"} -> R("", S!BoolV(ix # {}), keys, vals)
          [] c.mode = "delete" -> IF ix = {} THEN R("", S!BoolV(TRUE), keys, vals)                       \* 8.12.7: no such property
                                  ELSE R("", S!BoolV(TRUE), [j \in 1..Len(keys) - 1 |-> keys[IF j < i0 THEN j ELSE j + 1]], [j \in 1..Len(keys) - 1 |-> vals[IF j < i0 THEN j ELSE j + 1]])
          [] c.mode = "write" ->
                IF ko = <<>> THEN R("TypeError", S!Undef, keys, vals)                                    \* not a value of the key type: fails loudly, nothing stored
                ELSE IF ix # {} THEN R("", IntV(9), keys, [vals EXCEPT ![i0] = 9])
                ELSE LET nk == MkIns(keys, ko[1]) IN R("", IntV(9), nk, [j \in 1..Len(nk) |-> IF nk[j] = ko[1] THEN 9 ELSE vals[CHOOSE i \in 1..Len(keys) : keys[i] = nk[j]]])
MkDev == "D16_map_key_go_literal_syntax_aliases" \in OpenDev


AllCases == Params \cup Arities \cup Rets \cup Funcs \cup Backs \cup ElemWsOK \cup PFields \cup TagFields \cup MapKeyCases

Js(c) == CASE c.fam \in {"param", "elemw"} -> JsParts(c.v)
           [] c.fam = "graph" -> GraphJs(c)
           [] c.fam = "reent" -> ReCallJs(c.call)
           [] c.fam = "arity" -> JsItems(c.args, 1)
           [] c.fam = "func" -> (IF c.body.b = "ret" THEN <<"(function(x){ SEEN = OBS(x); return ">> \o JsParts(c.body.v) \o <<"; })">>
                                 ELSE IF c.body.b = "throw" THEN <<"(function(x){ SEEN = OBS(x); throw new " \o c.body.cls \o "('z'); })">>
                                 ELSE JsParts(c.body.v))
           [] OTHER -> <<>>

ExpectS(c) ==
    CASE c.fam = "param" -> S!ConvertParam(c.v, c.ty)
      [] c.fam = "arity" -> S!ConvertArgs(c.args, c.sig)
      [] c.fam = "ret" -> [js |-> S!ReturnJS(c.outs)]
      [] c.fam = "func" -> IF c.body.b = "notfn" THEN S!ConvertParam(c.body.v, TK("int")) \* not a function: no conversion to func(int) int exists
                           ELSE S!FuncParamCall(c.body)
      [] c.fam = "back" -> S!BridgedToParam(c.isptr, c.src, c.ty)
      [] c.fam = "elemw" -> (LET r == S!ElemWriteOutcome(c.v, c.k, S!GInt(c.k, I(1))) IN [thr |-> r.thr, elem |-> r.elem, js |-> S!ElemJS(r.elem)])
      [] c.fam = "tagfield" -> S!TagAccess(c.mode, c.name)
      [] c.fam = "mapkey" -> MapKeyAccess(FALSE, c)
      [] c.fam = "graph" -> GraphExpect(c)
      [] c.fam = "reent" -> ReExpect(FALSE, c)
      [] c.fam = "pfield" -> (LET r == S!DocPtrCall(c.d, c.sel) IN [thr |-> r.thr, same |-> r.same, js |-> S!PlacedJS(c.where, r.d), go |-> r.d])
ExpectL(c) ==
    CASE c.fam = "param" -> L!ConvertParam(c.v, c.ty)
      [] c.fam = "arity" -> L!ConvertArgs(c.args, c.sig)
      [] c.fam = "ret" -> [js |-> L!ReturnJS(c.outs)]
      [] c.fam = "func" -> IF c.body.b = "notfn" THEN L!ConvertParam(c.body.v, TK("int")) ELSE L!FuncParamCall(c.body)
      [] c.fam = "back" -> L!BridgedToParam(c.isptr, c.src, c.ty)
      [] c.fam = "elemw" -> (LET r == L!ElemWriteOutcome(c.v, c.k, S!GInt(c.k, I(1))) IN [thr |-> r.thr, elem |-> r.elem, js |-> S!ElemJS(r.elem)])
      [] c.fam = "tagfield" -> L!TagAccess(c.mode, c.name)
      [] c.fam = "mapkey" -> MapKeyAccess(MkDev, c)
      [] c.fam = "graph" -> GraphExpect(c)         \* no open deviation touches the export of containers
      [] c.fam = "reent" -> ReExpect(TRUE, c)
      [] c.fam = "pfield" -> (LET r == L!DocPtrCall(c.d, c.sel) IN [thr |-> r.thr, same |-> r.same, js |-> S!PlacedJS(c.where, r.d), go |-> r.d])
FixFunc(c, r) == IF c.fam = "func" /\ c.body.b = "notfn" THEN [thr |-> "TypeError"] ELSE r

K == 64
CaseSeq == SetToSeq(AllCases)
None == [fam |-> "none"]

-----------------------------------------------------------------------------
(* Container modes                                                           *)
ElemKinds == IF Mode = "map" THEN {"int8", "float32", "string", "iface"}
             ELSE {"int8", "uint8", "float32", "string", "iface"} \cup (IF Wide /\ MaxLen = 2 THEN {"int64", "uint64"} ELSE {})
GOf(k, i) ==              \* the i-th sample element of kind k (type-directed form)
    CASE k \in S!IntKinds -> S!GInt(k, I(i))
      [] k \in S!FltKinds -> S!GFlt(k, IF i = 1 THEN OneHalf ELSE I(i))
      [] k = "string" -> S!GStr(IF i = 1 THEN K_a ELSE IF i = 2 THEN U_smile ELSE <<>>)
      [] k = "iface" -> S!GX(IF i = 1 THEN [x |-> "num", n |-> I(1)] ELSE IF i = 2 THEN [x |-> "str", s |-> K_a] ELSE [x |-> "nil"])
NumW == IF Wide
        THEN {IntV(5), IntV(127), IntV(128), IntV(255), IntV(256), IntV(-1), IntV(-129), NumV(OneHalf), NumV(S!NumNeg(OneHalf)), NumV(Tenth), NumV(S!NaN), NumV(S!PInf),
              NumV(S!NZero), NumV(ZAdd(24, 1)), NumV(S!DecToNum(FALSE, <<1>>, 39)), NumV(Canon(FALSE, <<1>>, -150)), NumV(P2(63)), NumV(P2(64)),
              StrV(<<55>>), StrV(<<120>>), StrV(<<>>), S!BoolV(TRUE), S!Null, S!Undef, O(<<>>, <<>>), A(<<IntV(3)>>)}
        ELSE {IntV(5), IntV(128), IntV(256), IntV(-1), NumV(OneHalf), NumV(S!NumNeg(OneHalf)), NumV(Tenth), NumV(S!NaN), NumV(ZAdd(24, 1)),
              StrV(<<55>>), S!BoolV(TRUE), S!Undef}
StrW == {StrV(<<115>>), StrV(U_smile), IntV(5), NumV(OneHalf), NumV(S!NumNeg(OneHalf)), NumV(S!DecToNum(FALSE, <<1>>, 21)), NumV(S!NaN), S!BoolV(TRUE), S!Null, S!Undef}
        \cup (IF Wide THEN {A(<<IntV(3), IntV(4)>>), O(<<>>, <<>>), NumV(S!DecToNum(FALSE, <<1>>, -7))} ELSE {})
IfaceW == {IntV(5), NumV(OneHalf), StrV(<<115>>), S!BoolV(TRUE), S!Null, S!Undef, A(<<IntV(1), StrV(K_a)>>), O(<<K_a>>, <<IntV(1)>>)}
WOf(k) == IF k = "string" THEN StrW ELSE IF k = "iface" THEN IfaceW ELSE NumW
WithJs(op) == [op EXCEPT !.js = JsParts(op.v)]

(* values assigned to length that are no array length (15.4.5.1), and a few that are after conversion *)
LenVals == {IntV(-1), NumV(OneHalf), NumV(S!NaN), NumV(S!DecToNum(FALSE, <<1>>, 18))}
           \cup (IF Wide THEN {StrV(<<120>>), NumV(S!NumNeg(Half)), NumV(S!PInf), NumV(S!NInf), S!Undef, S!Null, StrV(<<49>>), S!BoolV(TRUE), NumV(S!NZero), NumV(P2(64))} ELSE {})
SliceOps(s) ==
    LET n == Len(s.js)
        canGrow == st.cap = Len(st.go) /\ lt.cap = Len(lt.go)     \* re-growing a shrunk slice (stale capacity) is not modelled
    IN
    {[op |-> "jsread", i |-> i] : i \in {0, n, 5}} \cup {[op |-> "jslen"]}
    \cup {WithJs([op |-> "jswrite", i |-> i, v |-> v, js |-> <<>>]) :
              i \in {j \in {0, n - 1, n, n + 1} : j >= 0 /\ (j # n \/ canGrow)}, v \in WOf(s.k)}
    \cup {[op |-> "jsdelete", i |-> i] : i \in {j \in {0, n - 1, n} : j >= 0}}
    \cup (IF canGrow THEN {WithJs([op |-> "jspush", v |-> v, js |-> <<>>]) : v \in WOf(s.k)} ELSE {})
    \cup {[op |-> "jspop"]}
    \cup {[op |-> "jssetlen", n |-> m] : m \in {j \in {0, n - 1, n} \cup (IF canGrow THEN {n + 1} ELSE {}) : j >= 0}}
    \cup (IF Len(st.js) >= 1 /\ Len(lt.js) >= 1          \* the truncated lengths 0 and 1 are then never a growth in either model
          THEN {WithJs([op |-> "jssetlenv", v |-> v, js |-> <<>>]) : v \in LenVals} ELSE {})
    \cup {[op |-> "gowrite", i |-> i, g |-> GOf(s.k, 3)] : i \in {j \in {0} : j < Len(st.go) /\ j < Len(lt.go)}}
    \cup (IF s.mode = "field" THEN {[op |-> "goappend", g |-> GOf(s.k, 2)]} ELSE {})
MapKeys == {K_a, K_b}
MapOps(s) ==
    {[op |-> o, key |-> key] : o \in {"jsread", "jshas", "jsdelete", "godelete"}, key \in MapKeys} \cup {[op |-> "jskeys"]}
    \cup {WithJs([op |-> "jswrite", key |-> key, v |-> v, js |-> <<>>]) : key \in MapKeys, v \in WOf(s.k)}
    \cup {[op |-> "gowrite", key |-> key, g |-> GOf(s.k, 3)] : key \in MapKeys}
MapIntKeys == {<<49>>, <<50>>, <<97, 98, 99>>, <<49, 46, 53>>, <<45, 49>>}
MapIntOps(s) ==
    {[op |-> o, key |-> key] : o \in {"jsread", "jshas", "jsdelete"}, key \in MapIntKeys \ {<<45, 49>>}}
    \cup {WithJs([op |-> "jswrite", key |-> key, v |-> v, js |-> <<>>]) : key \in MapIntKeys \ {<<45, 49>>}, v \in {StrV(K_b), IntV(5)}}
S_Zed == <<90, 101, 100>>
StructOps(s) ==
    {[op |-> "jsread", key |-> key] : key \in {S!S_A, S!S_B, S!S_bee, S!S_c, S!S_F, S!S_Any, S!S_Hid, S!S_GetA, S!S_SetA, S_Zed}}
    \cup {WithJs([op |-> "jswrite", key |-> S!S_A, v |-> v, js |-> <<>>]) : v \in {IntV(5), NumV(OneHalf), StrV(<<120>>), NumV(P2(63)), S!Null, NumV(S!NZero)}}
    \cup {WithJs([op |-> "jswrite", key |-> key, v |-> v, js |-> <<>>]) : key \in {S!S_B, S!S_bee}, v \in {StrV(<<115>>), IntV(5), NumV(S!DecToNum(FALSE, <<1>>, -7)), S!Undef}}
    \cup {WithJs([op |-> "jswrite", key |-> S!S_F, v |-> v, js |-> <<>>]) : v \in {NumV(OneHalf), NumV(S!NaN), StrV(<<49>>)}}
    \cup {WithJs([op |-> "jswrite", key |-> S!S_Any, v |-> v, js |-> <<>>]) : v \in {IntV(1), StrV(<<115>>), S!Null, A(<<IntV(1), StrV(K_a)>>), O(<<K_a>>, <<S!BoolV(TRUE)>>)}}
    \cup {WithJs([op |-> "jswrite", key |-> S!S_Hid, v |-> v, js |-> <<>>]) : v \in {IntV(9), StrV(<<120>>)}}
    \cup {WithJs([op |-> "jswrite", key |-> key, v |-> v, js |-> <<>>]) : key \in {S!S_c, S_Zed}, v \in {IntV(5), StrV(<<115>>)}}
    \cup {[op |-> "callget"]}
    \cup {[op |-> "callset", args |-> a, js |-> JsItems(a, 1)] : a \in {<<>>, <<IntV(8)>>, <<NumV(OneHalf)>>, <<StrV(<<120>>)>>, <<IntV(1), IntV(2)>>}}
    \cup (IF s.ptr THEN {[op |-> "gowrite", f |-> "A", g |-> S!GInt("int", I(11))], [op |-> "gowrite", f |-> "c", g |-> S!GInt("int", I(12))],
                          [op |-> "gowrite", f |-> "B", g |-> S!GStr(U_smile)], [op |-> "gowrite", f |-> "Any", g |-> S!GX([x |-> "num", n |-> I(4)])]}
          ELSE {})
ArrayOps(s) ==
    {[op |-> "jsread", i |-> i] : i \in {0, 1, 2}} \cup {[op |-> "jslen"]}
    \cup {WithJs([op |-> "jswrite", i |-> i, v |-> v, js |-> <<>>]) : i \in {0, 1, 2}, v \in WOf(s.k)}
    \cup {[op |-> "jsdelete", i |-> i] : i \in {0, 2}}
    \cup {[op |-> "jssetlen", n |-> m] : m \in {1, 3}}
    \cup {WithJs([op |-> "jspush", v |-> IntV(5), js |-> <<>>])}
    \cup (IF s.ptr THEN {[op |-> "gowrite", i |-> 1, g |-> GOf(s.k, 3)]} ELSE {})      \* a by-value array is a copy: Go-side writes are not shared
OpsOf(s) == CASE Mode = "array" -> ArrayOps(s) [] Mode = "slice" -> SliceOps(s) [] Mode = "map" -> MapOps(s) [] Mode = "mapint" -> MapIntOps(s) [] Mode = "struct" -> StructOps(s)

StepS(s, op) == CASE Mode = "array" -> S!ArrayStep(s, op) [] Mode = "slice" -> S!SliceStep(s, op) [] Mode = "map" -> S!MapStep(s, op) [] Mode = "mapint" -> S!MapIntStep(s, op) [] Mode = "struct" -> S!StructStep(s, op)
StepL(s, op) == CASE Mode = "array" -> L!ArrayStep(s, op) [] Mode = "slice" -> L!SliceStep(s, op) [] Mode = "map" -> L!MapStep(s, op) [] Mode = "mapint" -> L!MapIntStep(s, op) [] Mode = "struct" -> L!StructStep(s, op)
ObsOf(s) == CASE Mode = "array" -> S!ArrayObs(s) [] Mode = "slice" -> S!SliceObs(s) [] Mode \in {"map", "mapint"} -> S!MapObs(s) [] Mode = "struct" -> S!StructObs(s)

Inits ==
    CASE Mode = "slice" -> {[k |-> k, mode |-> m, go |-> <<GOf(k, 1), GOf(k, 2)>>, js |-> <<GOf(k, 1), GOf(k, 2)>>, done |-> FALSE, cap |-> 2] : k \in ElemKinds, m \in {"field", "value"}}
      [] Mode = "array" -> {[k |-> k, ptr |-> p, go |-> <<GOf(k, 1), GOf(k, 2)>>] : k \in {"int8", "string", "iface"}, p \in BOOLEAN}
      [] Mode = "map" -> {[k |-> k, keys |-> <<K_a>>, vals |-> <<GOf(k, 1)>>] : k \in ElemKinds}
      [] Mode = "mapint" -> {[k |-> "string", keys |-> <<<<49>>>>, vals |-> <<S!GStr(K_a)>>]}
      [] Mode = "struct" -> {[ptr |-> p, go |-> BackStruct, ex |-> [keys |-> <<>>, vals |-> <<>>]] : p \in BOOLEAN}
      [] OTHER -> {None}

Result(r) == [thr |-> r.thr, ret |-> r.ret, obs |-> ObsOf(r.st)]
Terminal(s) == Mode = "slice" /\ s.done

-----------------------------------------------------------------------------
Init == IF Mode = "cases"
        THEN cs = None /\ blk \in 1..K /\ st = None /\ lt = None /\ hist = <<>> /\ cont = None
        ELSE cs = None /\ blk = 0 /\ hist = <<>> /\ \E s \in Inits : st = s /\ lt = s /\ cont = s

NextCases == /\ cs = None
             /\ UNCHANGED <<blk, st, lt, hist, cont>>
             /\ \/ \E j \in {i \in 1..Len(CaseSeq) : i % K = blk - 1} : cs' = CaseSeq[j]
                \/ \E j \in {i \in 1..Len(ReSeq) : i % K = blk - 1} : cs' = ReSeq[j]
                \/ \E j \in {i \in 1..NGraph : i % K = blk - 1 /\ GraphPicked(i)} : GraphOK(j) /\ cs' = GraphCase(j)
NextCont ==
    /\ Len(hist) < MaxLen
    /\ ~Terminal(st) /\ ~Terminal(lt)
    /\ \E op \in OpsOf(st) :
          LET rs == StepS(st, op)
              rl == StepL(lt, op)
              es == Result(rs)
              el == Result(rl)
          IN  /\ st' = rs.st /\ lt' = rl.st
              /\ hist' = Append(hist, op)
              /\ UNCHANGED <<blk, cs, cont>>
              /\ PrintT("VJSON " \o ToJson([cont |-> cont, path |-> hist, step |-> op, exp |-> es, dev |-> IF el = es THEN <<>> ELSE <<el>>]))
Next == IF Mode = "cases" THEN NextCases ELSE NextCont

Emit ==
    cs = None \/
    LET es == FixFunc(cs, ExpectS(cs))
        ed == FixFunc(cs, ExpectL(cs))
    IN  PrintT("VJSON " \o ToJson([c |-> cs, js |-> Js(cs), exp |-> es, dev |-> IF ed = es THEN <<>> ELSE <<ed>>]))

View == <<blk, cs, st, lt, cont>>

(* the guarantee of the statement on the strict model: Go and JavaScript     *)
(* observe the same contents of an addressable container after every step    *)
SameContents ==
    Mode # "slice" \/ st = None \/ st.mode # "field" \/ st.js = st.go
=============================================================================
