------------------------------ MODULE ArrCase -------------------------------
(* Test bench for Arr.tla: builds the abstract heap of a case from a recipe  *)
(* (the harness builds the same objects in JavaScript from the same recipe), *)
(* runs one method call or one history of object-model steps, and projects   *)
(* the outcome: thrown class, returned value, state of every object of the   *)
(* case (class, extensibility, all own properties with attributes) and log.  *)
(*                                                                           *)
(* object recipe  [cls   "Array" | "Object",                                 *)
(*                 elems <<[h |-> TRUE] | [h |-> FALSE, v, w, e, c]>>,       *)
(*                 len   [k |-> "auto"] | [k |-> "set", v, w],               *)
(*                 extra <<[n |-> StrV(name), v]>>  assigned (o[n] = v),     *)
(*                 lw    length writable (arrays),                           *)
(*                 ext   "ext" | "nonext" | "sealed" | "frozen",             *)
(*                 inh   <<[n |-> StrV(name), v]>>  inherited properties]    *)
EXTENDS Arr

ProtoObj == NewObj("Object", 0)
ArrProto == [NewObj("Array", 1) EXCEPT !.props = (S_length :> DataP(IntV(0), TRUE, FALSE, FALSE)), !.order = <<S_length>>]
Heap0 == <<ProtoObj, ArrProto>>

(* 15.2.3.8 Object.seal / 15.2.3.9 Object.freeze through [[DefineOwnProperty]] (Throw = true) in  *)
(* property creation order: [H, thr].  A descriptor equal to the current property is a no-op of *)
(* 8.12.9 and is skipped; with the array [[DefineOwnProperty]] of 15.4.5.1 (and its deviations) *)
(* a step may be rejected, which leaves the object partly sealed and still extensible.          *)
RECURSIVE SealLoop(_, _, _, _)
SealLoop(H, o, names, frz) ==
    IF names = <<>> THEN [H |-> [H EXCEPT ![o].ext = FALSE], thr |-> ""]
    ELSE LET p == Head(names)
             cur == OwnProp(H, o, p)
             nw == [cur EXCEPT !.c = FALSE, !.w = IF frz THEN FALSE ELSE cur.w]
         IN  IF nw = cur THEN SealLoop(H, o, Tail(names), frz)
             ELSE LET r == ADefOwn(H, o, p, FullDataDesc(nw.v, nw.w, nw.e, nw.c))
                  IN  IF r.thr # "" THEN [H |-> r.H, thr |-> r.thr]
                      ELSE IF ~r.ok THEN [H |-> r.H, thr |-> "TypeError"]
                      ELSE SealLoop(r.H, o, Tail(names), frz)
ASeal(H, o) == SealLoop(H, o, H[o].order, FALSE)
AFreeze(H, o) == SealLoop(H, o, H[o].order, TRUE)

RECURSIVE BuildElems(_, _, _, _)
BuildElems(H, o, elems, i) ==
    IF i > Len(elems) THEN H
    ELSE LET e == elems[i]
         IN  IF e.h THEN BuildElems(H, o, elems, i + 1)
             ELSE BuildElems(ADefOwn(H, o, IdxS(i - 1), FullDataDesc(e.v, e.w, e.e, e.c)).H, o, elems, i + 1)

RECURSIVE BuildExtra(_, _, _, _)
BuildExtra(H, o, xs, i) ==
    IF i > Len(xs) THEN H ELSE BuildExtra(APut(H, o, xs[i].n.s, xs[i].v).H, o, xs, i + 1)

(* A primitive receiver [cls |-> "prim", v, inh]: step 1 of every method is O = ToObject(this value),   *)
(* performed ONCE; the heap gets that wrapper object (9.9): a String object has the own properties of     *)
(* 15.5.5.1-2 (length and one read-only element per code unit), Number and Boolean objects have none.     *)
(* inh are properties put on the wrapper's prototype (String/Number/Boolean.prototype), see LinkProtos.   *)
RECURSIVE StrProps(_, _, _, _)
StrProps(H, o, s, i) ==
    IF i > Len(s) THEN SetProp(H, o, S_length, DataP(IntV(Len(s)), FALSE, FALSE, FALSE))
    ELSE StrProps(SetProp(H, o, IdxS(i - 1), DataP(StrV(<<s[i]>>), FALSE, TRUE, FALSE)), o, s, i + 1)
BuildPrim(H0, ob) ==
    LET o == Len(H0) + 1
        H1 == Append(H0, [NewObj(PrimClassOf(ob.v), 1) EXCEPT !.fn = [k |-> "prim", v |-> ob.v]])
    IN  IF ob.v.t = "str" THEN StrProps(H1, o, ob.v.s, 1) ELSE H1

BuildObjO(H0, ob) ==
    LET o  == Len(H0) + 1
        isArr == ob.cls = "Array"
        H1 == Append(H0, IF isArr THEN NewArrayObj ELSE NewObj("Object", 1))
        H2 == BuildElems(H1, o, ob.elems, 1)
        H3 == IF ob.len.k = "auto"
              THEN (IF isArr THEN APut(H2, o, S_length, IntV(Len(ob.elems))).H ELSE H2)
              ELSE (IF isArr THEN APut(H2, o, S_length, ob.len.v).H
                    ELSE OrdDefineOwn(H2, o, S_length, FullDataDesc(ob.len.v, ob.len.w, TRUE, TRUE)).H)
        H4 == BuildExtra(H3, o, ob.extra, 1)
        H5 == IF isArr /\ ~ob.lw THEN ADefOwn(H4, o, S_length, [EmptyDesc EXCEPT !.hw = TRUE, !.w = FALSE]).H ELSE H4
        H6 == CASE ob.ext = "ext" -> H5
                [] ob.ext = "nonext" -> PreventExt(H5, o)
                [] ob.ext = "sealed" -> ASeal(H5, o).H
                [] ob.ext = "frozen" -> AFreeze(H5, o).H
        H7 == IF isArr THEN BuildExtra(H6, 2, ob.inh, 1) ELSE H6       \* arrays inherit from Array.prototype
    IN  H7

BuildObj(H0, ob) == IF ob.cls = "prim" THEN BuildPrim(H0, ob) ELSE BuildObjO(H0, ob)

RECURSIVE BuildAll(_, _, _)
BuildAll(H, objs, i) == IF i > Len(objs) THEN H ELSE BuildAll(BuildObj(H, objs[i]), objs, i + 1)

(* an array-like with inherited properties gets a prototype object of its own (appended after *)
(* the objects of the case, so that the ids of those stay 3, 4, ...)                          *)
RECURSIVE LinkProtos(_, _, _)
LinkProtos(H, objs, i) ==
    IF i > Len(objs) THEN H
    ELSE IF objs[i].cls \in {"Object", "prim"} /\ objs[i].inh # <<>>
         THEN LET P == Len(H) + 1
                  H1 == BuildExtra(Append(H, NewObj("Object", 1)), P, objs[i].inh, 1)
              IN  LinkProtos([H1 EXCEPT ![i + 2].proto = P], objs, i + 1)
         ELSE LinkProtos(H, objs, i + 1)
BuildCase(objs) == LinkProtos(BuildAll(Heap0, objs, 1), objs, 1)

-----------------------------------------------------------------------------
(* projection                                                                *)
RECURSIVE SortNames(_)
SortNames(S) == IF S = {} THEN <<>>
                ELSE LET mn == CHOOSE x \in S : \A y \in S : StrCmp(x, y) <= 0
                     IN  <<mn>> \o SortNames(S \ {mn})

ProjPrim(v) == IF v.t = "cobj" THEN [t |-> "cobj", id |-> v.id] ELSE v
(* the wrapper object created by ToObject(primitive receiver): class, primitive value, identity 1 *)
IsWrapper(H, v) == v.t = "obj" /\ H[v.id].fn.k = "prim"
ProjW(H, v) == IF IsWrapper(H, v) THEN [t |-> "wrap", cls |-> H[v.id].cls, k |-> 1, pv |-> H[v.id].fn.v] ELSE ProjPrim(v)
ShowProp(H, p) == [k |-> "data", v |-> ProjW(H, p.v), w |-> p.w, e |-> p.e, c |-> p.c]
Show(H, o) ==
    LET names == SortNames(DOMAIN H[o].props)
    IN  [cls |-> H[o].cls, ext |-> H[o].ext,
         props |-> [i \in 1..Len(names) |-> [n |-> names[i], p |-> ShowProp(H, H[o].props[names[i]])]]]
ProjV(H, v, nInit) ==
    IF v.t = "obj" /\ v.id > nInit THEN [t |-> "new", o |-> Show(H, v.id)] ELSE ProjW(H, v)
ProjLog(H, log, nInit) ==
    [i \in 1..Len(log) |->
        IF log[i].k = "s" THEN log[i].s
        ELSE [cb |-> [j \in 1..Len(log[i].cb) |-> ProjV(H, log[i].cb[j], nInit)], this |-> log[i].this]]

(* the outcome of a case in the shape the generic driver compares *)
Outcome(st, nInit) ==
    [thr |-> "", log |-> ProjLog(st.H, st.log, nInit),
     v |-> [thr |-> st.thr,
            ret |-> IF st.thr = "" \/ st.thr = "value" THEN ProjV(st.H, st.v, nInit) ELSE Undef,
            objs |-> [i \in 1..(nInit - 2) |-> Show(st.H, i + 2)],
            aproto |-> Show(st.H, 2).props]]

-----------------------------------------------------------------------------
(* a method case: [objs, m, args]; objs[1] is the receiver (object 3)        *)
ResolveArg(a) == IF a.t = "ref" THEN ObjV(a.id) ELSE a
RunCall(c) ==
    LET H == BuildCase(c.objs)
        nInit == Len(c.objs) + 2
        args == [i \in 1..Len(c.args) |-> ResolveArg(c.args[i])]
        out == Outcome(Call(c.m, Mk(H, <<>>), 3, args), nInit)
        \* a primitive receiver has no state to show (the wrapper is not reachable afterwards)
    IN  [out EXCEPT !.v.objs = [i \in 1..Len(c.objs) |-> IF c.objs[i].cls = "prim" THEN [prim |-> c.objs[i].v] ELSE @[i]]]

-----------------------------------------------------------------------------
(* object-model steps on the receiver (object 3): the array exotic object as *)
(* a state machine                                                           *)
(*   [op "assign", n, v]   A[n] = v            (non-strict: failure is silent, RangeError is not) *)
(*   [op "define", n, d]   Object.defineProperty(A, n, d)   (15.2.3.6: Throw = true)            *)
(*   [op "delete", n]      delete A[n]                                                         *)
(*   [op "freeze" | "seal" | "prevent"]                                                         *)
(*   [op "call", m, args]  a method of Array.prototype                                          *)
(* 15.4.5.1 steps 3.c-3.d convert the new length twice: ToUint32(Desc.[[Value]]), then         *)
(* ToNumber(Desc.[[Value]]) for the RangeError test.  Length values are primitives inside      *)
(* ADefineOwnArr, so for a scripted conversion object the two conversions are performed here    *)
(* (after [[CanPut]], which converts nothing) and the resulting Number is passed on; a         *)
(* conversion that throws aborts the step.  Deviation: arrayDefineOwnProperty converts once.    *)
LenValue(st, v) ==
    IF v.t # "cobj" THEN Ret(st, v)
    ELSE LET s1 == ToNum(st, v)                                                 \* 3.c
         IN  IF Failed(s1) \/ D("D08_length_value_converted_once") THEN s1
             ELSE ToNum(s1, v)                                                   \* 3.d
IsLenOfArray(st, n) == n = S_length /\ st.H[3].cls = "Array"

StepOp(st0, a) ==
    LET st == [st0 EXCEPT !.thr = "", !.v = Undef]
    IN  CASE a.op = "assign" ->
                IF IsLenOfArray(st, a.n.s) /\ a.v.t = "cobj" /\ CanPut(st.H, 3, S_length)
                THEN (LET s1 == LenValue(st, a.v)
                      IN  IF Failed(s1) THEN s1 ELSE Ret(PutQ(s1, 3, S_length, s1.v), a.v))
                ELSE Ret(PutQ(st, 3, a.n.s, a.v), a.v)
          [] a.op = "define" ->
                (LET s1 == IF IsLenOfArray(st, a.n.s) /\ a.d.hv THEN LenValue(st, a.d.v) ELSE st
                     d1 == IF IsLenOfArray(st, a.n.s) /\ a.d.hv /\ ~Failed(s1) THEN [a.d EXCEPT !.v = s1.v] ELSE a.d
                     r == ADefOwn(s1.H, 3, a.n.s, d1)
                 IN  IF Failed(s1) THEN s1
                     ELSE IF r.thr # "" THEN Throw(WithH(s1, r.H), r.thr)
                     ELSE IF ~r.ok THEN Throw(WithH(s1, r.H), "TypeError")
                     ELSE Ret(WithH(s1, r.H), Undef))
          [] a.op = "delete" -> (LET r == DeleteOwn(st.H, 3, a.n.s) IN Ret(WithH(st, r.H), BoolV(r.ok)))
          [] a.op = "freeze" -> (LET r == AFreeze(st.H, 3) IN IF r.thr # "" THEN Throw(WithH(st, r.H), r.thr) ELSE WithH(st, r.H))
          [] a.op = "seal" -> (LET r == ASeal(st.H, 3) IN IF r.thr # "" THEN Throw(WithH(st, r.H), r.thr) ELSE WithH(st, r.H))
          [] a.op = "prevent" -> WithH(st, PreventExt(st.H, 3))
          [] a.op = "call" -> Call(a.m, st, 3, a.args)

RECURSIVE RunPath(_, _, _)
RunPath(st, path, i) == IF i > Len(path) THEN st ELSE RunPath(StepOp(st, path[i]), path, i + 1)

HistHeap0 == BuildObj(Heap0, [cls |-> "Array", elems |-> <<>>, extra |-> <<>>, len |-> [k |-> "auto"], lw |-> TRUE,
                              ext |-> "ext", inh |-> <<>>])
StepOutcome(H, a) ==
    LET st == StepOp(Mk(H, <<>>), a) IN [H |-> st.H, out |-> Outcome(st, 3)]
=============================================================================
