------------------------------- MODULE C14Fn --------------------------------
(* Property C14, function objects created at run time ("dynamic function      *)
(* objects": type_function.go newNodeFunctionObject / newBoundFunctionObject /*)
(* newNativeFunctionObject).  The table of LibShapeTab lists a handful of     *)
(* instances; this module is the FAMILY: a product                            *)
(*    target function  x  chain of Function.prototype.bind applications       *)
(* where a target is                                                          *)
(*    a function made by 13.2 from source text: function expression, named    *)
(*    function expression, function declaration (13), new Function(p1,..,body)*)
(*    / new Function('p1,p2,..', body) / Function(...) called as a function   *)
(*    (15.3.2.1, 15.3.1.1), get / set accessor functions of an object         *)
(*    initialiser (11.1.5), each with every number of formal parameters       *)
(*    0..PMax; or                                                             *)
(*    a function / constructor of the library (every callable object of the   *)
(*    table of clause 15, its length L read from the table),                  *)
(* and a chain is a sequence <<n1, .., nk>>: the k-th bind passes nk bound    *)
(* arguments, nk ranging up to and BEYOND what is left of the target's length *)
(* (15.3.4.5 step 15: length = max(0, L - n)), k = 0 (the target itself),     *)
(* 1, 2 (re-binding a bound function), thorough 3.                            *)
(* For each case the module gives the JavaScript text that makes the object   *)
(* and the complete observation ES5 prescribes for it: typeof, [[Class]],     *)
(* [[Prototype]], [[Extensible]], the length property (value, attributes,     *)
(* attributes as behaviour), the prototype property and the object it holds   *)
(* (13.2 steps 16-18) or its absence (15.3.4.5 NOTE), the poison-pill         *)
(* accessors of bound functions (15.3.4.5 steps 20-21, 13.2.3), own names,    *)
(* nothing enumerable, nothing in for-in, the result of a call (15.3.4.5.1:   *)
(* bound this, bound arguments then call arguments) and of new (13.2.2,       *)
(* 15.3.4.5.2).                                                               *)
EXTENDS Val, TLC
CONSTANT Dev
D(x) == x \in Dev

-----------------------------------------------------------------------------
(* The cases *)

SrcMakers == <<"expr", "named", "decl", "ctor", "ctorJoined", "ctorCall">>     \* any number of formal parameters
AccMakers == << [mk |-> "getter", p |-> 0], [mk |-> "setter", p |-> 1] >>       \* 11.1.5: get has none, set has one

Max0(x, y) == IF x > y THEN x - y ELSE 0                 \* max(0, x - y) on naturals

(* 15.3.4.5 step 15: "L be the length property of Target minus the length of A; set the length own property of *)
(* F to either 0 or L, whichever is larger" (Target's [[Class]] is "Function" for every target here)           *)
BoundLength(L, n) == Max0(L, n)
RECURSIVE ChainLength(_, _, _)
ChainLength(L, chain, k) == IF k > Len(chain) THEN L ELSE ChainLength(IF L > chain[k] THEN L - chain[k] ELSE 0, chain, k + 1)   \* BoundLength, inlined

(* chains of depth <= depth over a target of length L: every number of bound arguments from 0 up to one more  *)
(* than what is left (first bind: two more), so that each position is under-, exactly and over-bound           *)
(* TLC pitfall measured here: a constant definition of the root module is NOT cached (it is re-evaluated at every  *)
(* use) when its evaluation goes through an operator one of whose parameters or bound identifiers is spelled like  *)
(* a VARIABLE of the root module (C14 has blk, cs).  No identifier of this module may be called blk or cs.         *)
Prefixed(n, rest) == [k \in 1..Len(rest) |-> <<n>> \o rest[k]]
RECURSIVE ChainsFrom(_, _, _), ChainsOver(_, _, _, _, _)
ChainsFrom(L, depth, slack) ==
    IF depth = 0 THEN << <<>> >> ELSE << <<>> >> \o ChainsOver(L, depth, slack, 0, <<>>)
ChainsOver(L, depth, slack, n, acc) ==
    IF n > L + slack THEN acc
    ELSE ChainsOver(L, depth, slack, n + 1, acc \o Prefixed(n, ChainsFrom(IF L > n THEN L - n ELSE 0, depth - 1, 1)))
Chains(L, depth) == ChainsFrom(L, depth, 2)          \* a sequence of chains, the empty chain (the target itself) first

(* functions made from source text: makers x 0..pmax parameters (x chains: UserDepth below) *)
UserTargets(pmax) ==
    LET f(k) == [src |-> "user", mk |-> SrcMakers[((k - 1) \div (pmax + 1)) + 1], p |-> (k - 1) % (pmax + 1), id |-> "", ctor |-> TRUE]
    IN  [k \in 1..(Len(SrcMakers) * (pmax + 1)) |-> f(k)]
        \o [k \in 1..Len(AccMakers) |-> [src |-> "user", mk |-> AccMakers[k].mk, p |-> AccMakers[k].p, id |-> "", ctor |-> TRUE]]

(* library targets are handed in by the root module: <<[id, js, ctor, len]>> from the table of clause 15.      *)
(* Their unbound shape is the table's business; here they are bound: with no argument, with one more than      *)
(* their length, and re-bound (1 then L arguments: the second bind over-binds what the first left).  Quick:     *)
(* each target takes ONE of the three forms, in rotation along the table (the lengths 0..7 of the library meet  *)
(* every form many times); thorough: every target under all chains of depth 2                                  *)
LibForms(L) == << <<L + 1>>, <<1, L>>, <<0>> >>
LibChains(L, k, deep) == IF deep THEN Tail(Chains(L, 2)) ELSE << LibForms(L)[(k % 3) + 1] >>
LibTargets(libs) == [k \in 1..Len(libs) |-> [src |-> "lib", mk |-> "lib", p |-> libs[k].len, id |-> libs[k].id, js |-> libs[k].js, ctor |-> libs[k].ctor, k |-> k]]

(* quick: re-binding (depth 2) of functions of up to 2 parameters, one bind above; thorough: depth 3 up to 2 parameters *)
UserDepth(p, deep) == IF deep THEN (IF p <= 2 THEN 3 ELSE 2) ELSE (IF p <= 2 THEN 2 ELSE 1)
WithTarget(t, chs) == [k \in 1..Len(chs) |-> [t |-> t, chain |-> chs[k]]]   \* (not "cs": a variable of the root module)
CasesOf(t, deep) == WithTarget(t, IF t.src = "lib" THEN LibChains(t.p, t.k, deep) ELSE Chains(t.p, UserDepth(t.p, deep)))
RECURSIVE CasesFrom(_, _, _)
CasesFrom(ts, k, deep) == IF k > Len(ts) THEN <<>> ELSE CasesOf(ts[k], deep) \o CasesFrom(ts, k + 1, deep)
Cases(libs, pmax, deep) == CasesFrom(UserTargets(pmax) \o LibTargets(libs), 1, deep)

-----------------------------------------------------------------------------
(* JavaScript text of a case.  The body of every function made from source text reports its this value, the   *)
(* number of arguments and the arguments: RET(this, arguments) (a helper of the harness, no expectation in it) *)
Body == "return RET(this, arguments)"
RECURSIVE ParamList(_, _, _)
ParamList(k, p, sep) == IF k >= p THEN "" ELSE (IF k > 0 THEN sep ELSE "") \o "a" \o ToString(k) \o ParamList(k + 1, p, sep)
Params(p) == ParamList(0, p, ", ")
RECURSIVE QuotedParams(_, _)
QuotedParams(k, p) == IF k >= p THEN "" ELSE "'a" \o ToString(k) \o "', " \o QuotedParams(k + 1, p)
BaseJs(t) ==
    CASE t.src = "lib"         -> t.js
      [] t.mk = "expr"         -> "(function(" \o Params(t.p) \o "){ " \o Body \o " })"
      [] t.mk = "named"        -> "(function nf(" \o Params(t.p) \o "){ " \o Body \o " })"
      [] t.mk = "decl"         -> "(function(){ function nf(" \o Params(t.p) \o "){ " \o Body \o " } return nf })()"
      \* 15.3.2.1: one argument per parameter / all parameters in one comma separated argument (step 5.c) / 15.3.1.1
      [] t.mk = "ctor"         -> "(new Function(" \o QuotedParams(0, t.p) \o "'" \o Body \o "'))"
      [] t.mk = "ctorJoined"   -> "(new Function('" \o ParamList(0, t.p, " , ") \o "', '" \o Body \o "'))"
      [] t.mk = "ctorCall"     -> "Function(" \o QuotedParams(0, t.p) \o "'" \o Body \o "')"
      [] t.mk = "getter"       -> "Object.getOwnPropertyDescriptor({get x(){ " \o Body \o " }}, 'x').get"
      [] t.mk = "setter"       -> "Object.getOwnPropertyDescriptor({set x(a0){ " \o Body \o " }}, 'x').set"
(* the k-th bind: this value {k:'t<k>'}, bound arguments 10k+1, 10k+2, ... *)
RECURSIVE BoundArgs(_, _, _)
BoundArgs(k, i, n) == IF i > n THEN "" ELSE ", " \o ToString(10 * k + i) \o BoundArgs(k, i + 1, n)
RECURSIVE BindJs(_, _)
BindJs(chain, k) == IF k > Len(chain) THEN ""
                    ELSE ".bind({k:'t" \o ToString(k) \o "'}" \o BoundArgs(k, 1, chain[k]) \o ")" \o BindJs(chain, k + 1)
FnJs(chain) == "F" \o BindJs(chain, 1)             \* F = the target
RECURSIVE ChainTag(_, _)
ChainTag(chain, k) == IF k > Len(chain) THEN "" ELSE "." \o ToString(chain[k]) \o ChainTag(chain, k + 1)
CaseId(t, chain) == "f:" \o (IF t.src = "lib" THEN t.id ELSE t.mk \o "/" \o ToString(t.p)) \o "/bind" \o ChainTag(chain, 1)

-----------------------------------------------------------------------------
(* The observation ES5 prescribes *)

(* the [[ThrowTypeError]] function object, 13.2.3: [[Class]] "Function" (step 2), [[Prototype]] Function.prototype *)
(* (step 3), length 0 {~w,~e,~c} (step 10), [[Extensible]] false (step 11)                                          *)
ThrowerShape == [cls |-> "Function", proto |-> "Function.prototype", ext |-> FALSE,
                 len |-> [own |-> "data", attrs |-> <<"F", "F", "F">>, val |-> IntV(0)]]
Poison == [own |-> "acc", attrs |-> <<"-", "F", "F">>]

(* 13.2 step 16-18: proto = new Object(); proto.constructor = F {w,~e,c}; F.prototype = proto {w,~e,~c} *)
FreshPrototype(ctorAttrs) ==
    [own |-> "data", attrs |-> <<"T", "F", "F">>,
     obj |-> [cls |-> "Object", proto |-> "Object.prototype", ext |-> TRUE, names |-> <<"constructor">>,
              ctor |-> [own |-> "data", attrs |-> ctorAttrs, same |-> TRUE], forin |-> <<>>]]

(* the result of F('x', 'y'): RET's text  <this>|<number of arguments>|<arguments>.  10.4.3: a function called   *)
(* with this undefined (non-strict code) sees the global object ("g"); 15.3.4.5.1: a bound function calls its     *)
(* target with ITS bound this and its bound arguments followed by the arguments of the call, so through a chain   *)
(* the first bind's this wins and the bound arguments come in the order of binding                               *)
RECURSIVE ArgsText(_, _, _)
ArgsText(chain, k, i) ==
    IF k > Len(chain) THEN "x,y"
    ELSE IF i > chain[k] THEN ArgsText(chain, k + 1, 1)
    ELSE ToString(10 * k + i) \o "," \o ArgsText(chain, k, i + 1)
RECURSIVE Sum(_, _)
Sum(chain, k) == IF k > Len(chain) THEN 0 ELSE chain[k] + Sum(chain, k + 1)
CallText(chain) == (IF chain = <<>> THEN "g" ELSE "t1") \o "|" \o ToString(Sum(chain, 1) + 2) \o "|" \o ArgsText(chain, 1, 1)

(* t: the target, L: its length (13.2 step 14-15: the number of formal parameters; library: the table) *)
FnExp(t, L, chain) ==
    LET bound == chain # <<>> IN
    [ty |-> "function",
     cls |-> "Function",                      \* 13.2 step 2; 15.3.4.5 step 5 (15.3.4.5 step numbers of 5.1: 6)
     proto |-> "Function.prototype",          \* 13.2 step 3; 15.3.4.5 step 4
     ext |-> TRUE,                            \* 13.2 step 13; 15.3.4.5 step 18
     \* 13.2 step 15 / 15.3.5.1, 15.3.4.5 step 17: {~w,~e,~c}; observed also as behaviour <<put, delete>> (8.12.5, 8.12.7)
     len |-> [own |-> "data", attrs |-> <<"F", "F", "F">>, val |-> IntV(ChainLength(L, chain, 1)), beh |-> <<"F", "F">>],
     \* 15.3.4.5 NOTE / 15.3.5.2 NOTE: "Function objects created using Function.prototype.bind do not have a prototype property"
     prototype |-> IF ~bound THEN (IF t.src = "lib" THEN [own |-> "n/a"] ELSE FreshPrototype(<<"T", "F", "T">>))
                   ELSE IF D("D14_bound_function_has_prototype") THEN FreshPrototype(<<"T", "F", "F">>)   \* otto: global.go newBoundFunction
                   ELSE [own |-> "none"],
     \* 15.3.4.5 steps 20-21: caller and arguments are accessors whose [[Get]] and [[Set]] are the one [[ThrowTypeError]] object
     thr |-> IF bound THEN [caller |-> Poison, arguments |-> Poison, one |-> TRUE, fn |-> ThrowerShape,
                            get |-> <<"TypeError", "TypeError">>, put |-> <<"TypeError", "TypeError">>]
             ELSE [own |-> "n/a"],              \* 13.2 step 19 applies to strict functions only
     missing |-> <<>>,                        \* every name of Names present, once
     enumown |-> <<>>,                        \* whatever else the implementation adds (clause 16): not enumerable
     forin |-> <<>>,                          \* 12.6.4: neither own nor inherited (Function.prototype, Object.prototype)
     reflect |-> "ok",                        \* 15.2.3.3 answers for every own name
     call |-> IF t.src = "lib" THEN "n/a" ELSE CallText(chain),
     \* 13.2.2 [[Construct]]: an object whose [[Prototype]] is the target's prototype property; 15.3.4.5.2: the target's
     \* [[Construct]]; step 2 (and clause 15: built-in functions that are not constructors have none): TypeError
     new |-> IF t.src = "user" THEN "base" ELSE IF t.ctor THEN "n/a" ELSE "TypeError"]

Names(t, chain) ==
    IF chain # <<>> THEN <<"length", "caller", "arguments">> ELSE IF t.src = "lib" THEN <<"length">> ELSE <<"length", "prototype">>
=============================================================================
