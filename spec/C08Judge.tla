------------------------------ MODULE C08Judge ------------------------------
(* Judge direction for property C08: the harness generates seeded random     *)
(* cases from wider domains than C08.tla enumerates (longer arrays, richer   *)
(* values and attributes, random doubles as arguments, comparators with      *)
(* ties, long random histories), runs them on the implementation and records *)
(* {k, c, res} per line of trace.ndjson.  TLC evaluates the same case with   *)
(* the specification and classifies each event:                              *)
(*   "s"  the observation is the outcome ES5 prescribes                      *)
(*   "d"  it is the outcome under the open named deviations                  *)
(*   "x"  neither: printed with the required outcome                         *)
(* For sort the clause fixes a postcondition, not an outcome: SortPost.      *)
EXTENDS Val, Json, TLC, Sequences, FiniteSets
CONSTANTS OpenDev, NBlocks
VARIABLES blk, cs

S == INSTANCE ArrCase WITH Dev <- {}
L == INSTANCE ArrCase WITH Dev <- OpenDev

Trace == ndJsonDeserialize("trace.ndjson")
N == Len(Trace)

-----------------------------------------------------------------------------
(* 15.4.4.11: the observed receiver is a sorted permutation of the original  *)
PropOf(sh, name) ==
    LET ix == {i \in 1..Len(sh.props) : sh.props[i].n = name}
    IN  IF ix = {} THEN [k |-> "none"] ELSE sh.props[CHOOSE i \in ix : TRUE].p
Count(seq, x) == Cardinality({i \in 1..Len(seq) : seq[i] = x})
SC(cmp, x, y) ==            \* SortCompare on present values
    IF x = Undef /\ y = Undef THEN 0
    ELSE IF x = Undef THEN 1
    ELSE IF y = Undef THEN -1
    ELSE S!SortCmp(cmp, x, y)

SortPost(c, res) ==
    LET H == S!BuildCase(c.objs)
        nInit == Len(c.objs) + 2
        lenN == ToUint32N(ToNumberPrim(S!AGet(H, 3, S_length)))
        len == lenN.v
        cmp == IF Len(c.args) >= 1 THEN c.args[1] ELSE Undef
        present == SelectSeq([i \in 1..len |-> i - 1], LAMBDA k : S!HasProperty(H, 3, S!IdxS(k)))
        old == [i \in 1..Len(present) |-> S!AGet(H, 3, S!IdxS(present[i]))]
        n == Len(old)
        before == S!Show(H, 3)
        after == res.v.objs[1]
        new == [i \in 1..n |-> PropOf(after, S!IdxS(i - 1))]
        idxNames == {S!IdxS(k) : k \in 0..(len - 1)}
        others(sh) == {i \in 1..Len(sh.props) : sh.props[i].n \notin idxNames}
    IN  /\ res.thr = "" /\ res.v.thr = "" /\ res.log = <<>>
        /\ res.v.ret = [t |-> "obj", id |-> 3]
        /\ res.v.aproto = S!Show(H, 2).props
        /\ \A i \in 2..(nInit - 2) : res.v.objs[i] = S!Show(H, i + 2)
        /\ after.cls = before.cls /\ after.ext = before.ext
        \* everything that is not an index below length is untouched
        /\ {after.props[i] : i \in others(after)} = {before.props[i] : i \in others(before)}
        \* the n present elements occupy 0..n-1 as plain data properties, the rest are holes
        /\ \A i \in 1..n : new[i].k = "data" /\ new[i].w /\ new[i].e /\ new[i].c
        /\ \A k \in n..(len - 1) : PropOf(after, S!IdxS(k)).k = "none"
        \* a permutation
        /\ \A i \in 1..n : Count([j \in 1..n |-> new[j].v], old[i]) = Count(old, old[i])
        \* sorted with respect to SortCompare
        /\ \A i, j \in 1..n : i < j => SC(cmp, new[i].v, new[j].v) <= 0

-----------------------------------------------------------------------------
Verdict(ev) ==
    IF ev.k = "sort" THEN
        (IF SortPost(ev.c, ev.res) THEN [v |-> "s"] ELSE [v |-> "x", want |-> "15.4.4.11 postcondition", wantdev |-> ""])
    ELSE IF ev.k = "call" THEN
        (LET es == S!RunCall(ev.c)
             ed == L!RunCall(ev.c)
         IN  IF es = ev.res THEN [v |-> "s"]
             ELSE IF ed = ev.res THEN [v |-> "d"]
             ELSE [v |-> "x", want |-> es, wantdev |-> ed])
    ELSE \* "hist": a path of steps and a final step on a fresh array
        (LET ss == S!StepOutcome(S!RunPath(S!Mk(S!HistHeap0, <<>>), ev.c.path, 1).H, ev.c.step).out
             sd == L!StepOutcome(L!RunPath(L!Mk(L!HistHeap0, <<>>), ev.c.path, 1).H, ev.c.step).out
         IN  IF ss = ev.res THEN [v |-> "s"]
             ELSE IF sd = ev.res THEN [v |-> "d"]
             ELSE [v |-> "x", want |-> ss, wantdev |-> sd])

Init == blk \in 0..(NBlocks - 1) /\ cs = 0
Next == /\ cs = 0
        /\ UNCHANGED blk
        /\ \E j \in {i \in 1..N : i % NBlocks = blk} : cs' = j
Judge == cs = 0 \/ PrintT("VJSON " \o ToJson([i |-> cs] @@ Verdict(Trace[cs])))
=============================================================================
