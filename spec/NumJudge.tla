----------------------------- MODULE NumJudge -------------------------------
(* Judge for recorded arithmetic: every line of the input file is           *)
(*   [op |-> "...", a |-> Num, b |-> Num, r |-> Num]                         *)
(* observed on the implementation; the specification recomputes r.          *)
EXTENDS Num, Json
VARIABLE i
File == ndJsonDeserialize("trace.ndjson")
Sh(b) == BnToInt(ModPow2(ToUint32N(b), 5))

Apply(op, a, b) ==
    CASE op = "add" -> NumAdd(a, b)
      [] op = "sub" -> NumSub(a, b)
      [] op = "mul" -> NumMul(a, b)
      [] op = "div" -> NumDiv(a, b)
      [] op = "mod" -> NumMod(a, b)
      [] op = "toint32" -> ToInt32N(a)
      [] op = "touint32" -> ToUint32N(a)
      [] op = "touint16" -> ToUint16N(a)
      [] op = "tointeger" -> ToIntegerN(a)
      [] op = "floor" -> Floor(a)
      [] op = "ceil" -> Ceil(a)
      [] op = "and" -> BitOp32("and", a, b)
      [] op = "or" -> BitOp32("or", a, b)
      [] op = "xor" -> BitOp32("xor", a, b)
      [] op = "not" -> BitNot32(a)
      [] op = "shl" -> Shl32(ToInt32N(a), Sh(b))
      [] op = "shr" -> ShrS32(ToInt32N(a), Sh(b))
      [] op = "shru" -> ShrU32(ToUint32N(a), Sh(b))
      [] op = "lt" -> IF NumLt(a, b) THEN I(1) ELSE I(0)
      [] op = "eq" -> IF NumEq(a, b) THEN I(1) ELSE I(0)

Init == i \in 1..Len(File)
Next == UNCHANGED i
Check == LET ev == File[i]
             want == Apply(ev.op, ev.a, ev.b)
         IN  want = ev.r \/ PrintT("VJSON " \o ToJson([i |-> i, ev |-> ev, want |-> want]))
=============================================================================
