------------------------------ MODULE C14Judge ------------------------------
(* Judge direction of property C14 (code -> specification).  The harness     *)
(* walks the library of a runtime: every object of the table and every       *)
(* object the implementation hangs on them beyond ES5 (Math.trunc,           *)
(* Object.assign, ...), and records in trace.ndjson, per configuration cfg,   *)
(*   [ev |-> "obj",  cfg, id, listed, fn, host, obs |-> [ty, cls, proto, ext]]        *)
(*   [ev |-> "prop", cfg, o, listed, fn, host, n, e, obs |-> [own, attrs, ty, val]]   *)
(* for EVERY own property name Object.getOwnPropertyNames reports (obs as     *)
(* projected by OBSROW, without masking; e = propertyIsEnumerable).           *)
(* The specification judges each record:                                     *)
(*   - a property of the table must show the observation of LibShape!RowExp;  *)
(*   - a property ES5 does not describe (clause 16 permits additions) must    *)
(*     not be enumerable, unless it sits on the global object (15.1: host     *)
(*     defined properties) or on a host object;                               *)
(*   - a function object ES5 does not describe must still look like the       *)
(*     built-in functions of clause 15: [[Class]] "Function", [[Prototype]]   *)
(*     Function.prototype, extensible, length {~w,~e,~c} a number;            *)
(*   - every property of the table must have been seen (completeness).        *)
(* Only records that are not "ok" are printed: "dev" (equals the observation  *)
(* under the open named deviations) or "bad".                                 *)
EXTENDS Naturals, Sequences, FiniteSets, SequencesExt, Json, TLC
CONSTANTS OpenDev
VARIABLES blk, cs

S == INSTANCE LibShape WITH Dev <- {}
L == INSTANCE LibShape WITH Dev <- OpenDev
STab == S!Tab
LTab == L!Tab

File == ndJsonDeserialize("trace.ndjson")
N == Len(File)
Cfgs == {File[i].cfg : i \in 1..N}
CfgSeq == SetToSeq(Cfgs)

NRows == Len(STab.rows)
Pairs == {<<STab.rows[i].owner, STab.rows[i].name>> : i \in 1..NRows}
RIx == [p \in Pairs |-> CHOOSE i \in 1..NRows : STab.rows[i].owner = p[1] /\ STab.rows[i].name = p[2]]

(* the observation with the facets ES5 leaves open masked as in the expectation *)
MaskAttrs(a, ea) == IF Len(a) # Len(ea) THEN a ELSE [k \in 1..Len(a) |-> IF ea[k] = "?" THEN "?" ELSE a[k]]
ProjRow(obs, exp) ==
    IF obs.own # "data" \/ exp.own # "data" THEN obs
    ELSE [obs EXCEPT !.attrs = MaskAttrs(obs.attrs, exp.attrs),
                     !.val = IF exp.val.t = "any" THEN [t |-> "any"] ELSE obs.val]

NoBeh(x) == [own |-> x.own, attrs |-> x.attrs, ty |-> x.ty, val |-> x.val]   \* the walk does not probe behaviour
JudgeProp(ev) ==
    IF ev.listed /\ <<ev.o, ev.n>> \in Pairs THEN
        LET i  == RIx[<<ev.o, ev.n>>]
            es == NoBeh(S!RowExp(STab, STab.rows[i]))
            ed == NoBeh(L!RowExp(LTab, LTab.rows[i]))
        IN  IF ProjRow(ev.obs, es) = es THEN [v |-> "ok"]
            ELSE IF ProjRow(ev.obs, ed) = ed THEN [v |-> "dev", rule |-> "row", want |-> es]
            ELSE [v |-> "bad", rule |-> "a property of the table shows the specified descriptor, type and value", want |-> es]
    ELSE IF ev.e /\ ev.o # "global" /\ ~ev.host
        THEN [v |-> "bad", rule |-> "a property ES5 does not describe is not enumerable (only the global object and host objects are exempt)", want |-> [e |-> FALSE]]
    ELSE IF ~ev.listed /\ ev.fn /\ ev.n = "length" /\ ~(ev.obs.own = "data" /\ ev.obs.attrs = <<"F", "F", "F">> /\ ev.obs.ty = "number")
        THEN [v |-> "bad", rule |-> "the length of every built-in function is a number with {~w,~e,~c} (clause 15)", want |-> [attrs |-> <<"F", "F", "F">>, ty |-> "number"]]
    ELSE [v |-> "ok"]

ProjObj(obs, m) == [obs EXCEPT !.cls = IF m.cls THEN obs.cls ELSE "?", !.proto = IF m.proto THEN obs.proto ELSE "?"]
Core(x) == [ty |-> x.ty, cls |-> x.cls, proto |-> x.proto, ext |-> x.ext]
JudgeObj(ev) ==
    IF ev.listed THEN
        LET o  == S!Obj(STab, ev.id)
            es == Core(S!ObjExp(STab, o))
            ed == Core(L!ObjExp(LTab, L!Obj(LTab, ev.id)))
            ob == ProjObj(ev.obs, S!ObjMask(o))
        IN  IF ob = es THEN [v |-> "ok"]
            ELSE IF ob = ed THEN [v |-> "dev", rule |-> "obj", want |-> es]
            ELSE [v |-> "bad", rule |-> "an object of the table has the specified typeof, [[Class]], [[Prototype]], [[Extensible]]", want |-> es]
    ELSE IF ev.fn /\ ev.obs # [ty |-> "function", cls |-> "Function", proto |-> "Function.prototype", ext |-> TRUE]
        THEN [v |-> "bad", rule |-> "every built-in function has [[Class]] Function, [[Prototype]] Function.prototype and is extensible (clause 15)",
              want |-> [ty |-> "function", cls |-> "Function", proto |-> "Function.prototype", ext |-> TRUE]]
    ELSE [v |-> "ok"]

(* completeness: the rows of the table that a configuration did not show *)
Seen(c) == {<<File[i].o, File[i].n>> : i \in {j \in 1..N : File[j].ev = "prop" /\ File[j].cfg = c}}
Unseen(c) ==
    LET seen == Seen(c)
        need == {i \in 1..NRows : STab.rows[i].kind # "absent" /\ <<STab.rows[i].owner, STab.rows[i].name>> \notin seen}
    IN  [bad |-> {<<STab.rows[i].owner, STab.rows[i].name>> : i \in {j \in need : LTab.rows[j].kind # "missing"}},
         dev |-> {<<STab.rows[i].owner, STab.rows[i].name>> : i \in {j \in need : LTab.rows[j].kind = "missing"}}]

Verdict(j) ==
    IF j <= N THEN
        LET ev == File[j]
            r  == IF ev.ev = "prop" THEN JudgeProp(ev) ELSE JudgeObj(ev)
        IN  IF r.v = "ok" THEN r ELSE [i |-> j, v |-> r.v, rule |-> r.rule, want |-> r.want, ev |-> ev]
    ELSE LET c == CfgSeq[j - N]
             u == Unseen(c)
         IN  [i |-> j, v |-> IF u.bad = {} THEN "complete" ELSE "bad", rule |-> "every property of the table is present",
              cfg |-> c, unseen |-> u.bad, unseen_dev |-> u.dev, seen |-> Cardinality(Seen(c))]

K == 16
Init == blk \in 1..K /\ cs = 0
Next == cs = 0 /\ UNCHANGED blk /\ \E j \in {i \in 1..(N + Len(CfgSeq)) : i % K = blk - 1} : cs' = j
Emit == cs = 0 \/ LET r == Verdict(cs) IN r.v = "ok" \/ PrintT("VJSON " \o ToJson(r))
=============================================================================
