-------------------------------- MODULE C09 ---------------------------------
(* Generator for property C09: String methods follow ES5 15.5 with UTF-16    *)
(* code-unit indexing.  Each TLC state is one case; the invariant Emit       *)
(* prints the JavaScript text of the case (parts: verbatim text and values)  *)
(* with the outcome spec/StrOps.tla prescribes, and the outcome under the    *)
(* open named deviations when that differs.                                  *)
(*                                                                           *)
(* Families (blk[1]):                                                        *)
(*   pos1    charAt / charCodeAt              x string x receiver form x position          *)
(*   pos2    slice / substring / substr       x string x (start, end|length)               *)
(*   search  indexOf / lastIndexOf            x string x search string x position          *)
(*   split   split                            x string x separator x limit                 *)
(*   index   S[k], new String(S)[k], descriptor, in, hasOwnProperty, put, delete, length   *)
(*   recv    every method x every kind of receiver x scripted arguments (order, abrupt)    *)
(*   trim, case, lc (localeCompare), fcc (fromCharCode), concat, ctor                      *)
(* Strings: all words of at most MaxLen characters over an alphabet with an  *)
(* ASCII, a 2-byte, a 3-byte and an astral (surrogate pair) character, so    *)
(* that byte, code point and code unit offsets all differ.                   *)
EXTENDS NumText, Json, TLC, SequencesExt, Randomization
CONSTANTS OpenDev, Tier, NSel
VARIABLES blk, cs

S == INSTANCE StrOps WITH Dev <- {}
L == INSTANCE StrOps WITH Dev <- OpenDev

Thorough == Tier = "thorough"
Pw2(k) == Canon(FALSE, <<1>>, k)
Half == Canon(FALSE, <<1>>, -1)
OneHalf == Canon(FALSE, <<3>>, -1)
StrObj(s) == [t |-> "strobj", s |-> s]

-----------------------------------------------------------------------------
(* strings *)
Ca == <<97>>   Ce == <<233>>   Cz == <<20013>>   Cm == <<55357, 56832>>       \* a  e-acute  U+4E2D  U+1F600
A4 == <<Ca, Ce, Cz, Cm>>
A8 == A4 \o <<<<66>>, <<48>>, <<937>>, <<1078>>>>                             \* B 0 Omega zhe
Alpha == IF Thorough THEN A8 ELSE A4
MaxLen == 3
RECURSIVE Words(_)
Words(k) == IF k = 0 THEN {<<>>} ELSE {w \o Alpha[i] : w \in Words(k - 1), i \in 1..Len(Alpha)}
StrSeq == SetToSeq(UNION {Words(k) : k \in 0..MaxLen})
NS == Len(StrSeq)

(* positions *)
PosNumsQ == {NaN, NInf, I(-7), I(-3), I(-2), I(-1), NumNeg(Half), NZero, I(0), Half, I(1), I(2), I(3), I(4), I(5),
             I(6), I(7), I(12), Pw2(63), PInf}
PosNumsT == PosNumsQ \cup {I(-13), I(-6), I(-5), I(-4), OneHalf, I(8), I(9), I(10), I(11), I(13), Pw2(31),
                           NumAdd(Pw2(32), I(1)), Pw2(53), NumNeg(Pw2(63)), DecToNum(FALSE, <<1>>, 19)}
PosVals == {Undef} \cup {NumV(n) : n \in IF Thorough THEN PosNumsT ELSE PosNumsQ}
Args01 == {<<>>} \cup {<<p>> : p \in PosVals}
Args012 == Args01 \cup {<<p, q>> : p \in PosVals, q \in PosVals}

(* search strings for a string s: empty, every character, every two-character *)
(* substring of s, s itself, s followed by "a"                                *)
SearchOf(s) ==
    LET rs == S!Runes(s)
    IN  {<<>>, s, s \o Ca} \cup {Alpha[i] : i \in 1..Len(Alpha)}
        \cup {S!Flat(SubSeq(rs, i, i + 1)) : i \in 1..(Len(rs) - 1)}

Limits == {NumV(n) : n \in {I(0), I(1), I(2), I(3), I(7), I(-1), Pw2(32), NumAdd(Pw2(32), I(1)), NaN, OneHalf, PInf, NumNeg(Half)}}
          \cup {Undef}

Digit(k) == <<48 + k>>
KeyStrs == {Digit(0), Digit(1), Digit(2), Digit(5), <<48, 49>>, <<43, 49>>, <<45, 48>>, <<45, 49>>, <<49, 46, 48>>,
            <<49, 101, 48>>, <<32, 49>>, <<48, 120, 49>>, <<>>, S_length, <<52, 50, 57, 52, 57, 54, 55, 50, 57, 54>>,
            S_Infinity, <<48, 48>>}
Keys == {IntV(i) : i \in 0..7} \cup {IntV(-1), NumV(OneHalf), NumV(NZero), NumV(NaN), NumV(PInf), NumV(Pw2(32))}
        \cup {StrV(k) : k \in KeyStrs}
AccForms == {"get", "getobj", "desc", "in", "hasOwn", "put", "delete"}

-----------------------------------------------------------------------------
(* scripted conversion objects: receivers 1-5, arguments 6-9 *)
RetP(v) == [k |-> "ret", v |-> v]
CObj(id, vo, ts) == [t |-> "cobj", id |-> id, vo |-> vo, ts |-> ts]
O1 == CObj(1, RetP(IntV(7)), RetP(StrV(<<120, 97, 55357, 56832, 121>>)))      \* toString -> "xa<U+1F600>y"
O2 == CObj(2, [k |-> "inherit"], [k |-> "inherit"])                           \* "[object Object]"
O3 == CObj(3, RetP(StrV(<<98, 233, 49>>)), [k |-> "retobj"])                  \* toString returns an object, valueOf -> "b<e-acute>1"
O4 == CObj(4, RetP(IntV(1)), [k |-> "throw"])                                 \* toString throws
O5 == CObj(5, [k |-> "retobj"], [k |-> "retobj"])                             \* no primitive: TypeError
A6 == CObj(6, RetP(IntV(1)), RetP(StrV(Ca)))                                  \* number 1 / string "a"
A7 == CObj(7, RetP(IntV(2)), RetP(StrV(<<98>>)))                              \* number 2 / string "b"
A8o == CObj(8, [k |-> "throw"], [k |-> "throw"])
A9 == CObj(9, RetP(NumV(NaN)), RetP(StrV(<<>>)))                              \* NaN / ""
RStr == <<97, 55357, 56832, 233, 97, 98>>                                     \* "a<U+1F600><e-acute>ab"
StrObjX(id, str, ts) == [t |-> "strobjx", s |-> str, id |-> id, ts |-> ts]
SX1 == StrObjX(21, RStr, RetP(StrV(<<120, 121, 122>>)))          \* new String(RStr) with toString returning "xyz"
SX2 == StrObjX(22, <<97, 98>>, [k |-> "retobj"])                \* toString returns an object: valueOf (the internal value)
SX3 == StrObjX(23, <<97, 98>>, [k |-> "throw"])
SX4 == StrObjX(24, <<97, 98>>, RetP(IntV(42)))
Recvs == {SX1, SX2, SX3, SX4, Undef, Null, BoolV(TRUE), BoolV(FALSE), IntV(5), IntV(-12), NumV(NZero), NumV(NaN), NumV(PInf), NumV(OneHalf),
          NumV(DecToNum(FALSE, <<1>>, 21)), StrV(RStr), StrObj(RStr), StrV(<<>>), StrObj(<<>>), O1, O2, O3, O4, O5}
StylesOf(th) == IF th.t \in {"str", "strobj", "strobjx"} THEN {"member", "call"}
                ELSE IF th.t = "undef" THEN {"call", "comma"} ELSE {"call"}
MethodSeq == SetToSeq(S!Methods)
ArgSetsOf(m) ==
    CASE m \in {"charAt", "charCodeAt"} -> {<<>>, <<IntV(1)>>, <<A6>>, <<A8o>>, <<StrV(<<50>>)>>, <<Null>>, <<BoolV(TRUE)>>}
      [] m \in {"slice", "substring", "substr"} ->
            {<<>>, <<IntV(1), IntV(3)>>, <<A6, A7>>, <<A8o, A7>>, <<A6, A8o>>, <<A9, A7>>, <<StrV(<<49>>), Null>>, <<A6, Undef>>}
      [] m \in {"indexOf", "lastIndexOf"} ->
            {<<>>, <<StrV(Ca), IntV(1)>>, <<A6, A7>>, <<A8o, A7>>, <<A6, A8o>>, <<A6, A9>>, <<IntV(5)>>, <<Null>>, <<A9, A6>>,
             <<StrObj(Ca), StrV(<<50>>)>>}
      [] m = "split" ->
            {<<>>, <<StrV(Ca), IntV(2)>>, <<A6, A7>>, <<A6, IntV(0)>>, <<A8o, IntV(0)>>, <<A8o, A7>>, <<A6, A8o>>, <<A9, A7>>,
             <<Undef, A7>>, <<A6, A9>>, <<Null>>, <<IntV(5)>>}
      [] m = "concat" -> {<<>>, <<A6, A7>>, <<A8o, A7>>, <<A6, A8o>>, <<Undef, Null, IntV(1), BoolV(TRUE), NumV(NZero)>>, <<StrObj(Ce)>>}
      [] m = "localeCompare" -> {<<>>, <<StrV(Ca)>>, <<A6>>, <<A8o>>}
      [] OTHER -> {<<>>, <<A8o>>}
(* substr: undefined and null receivers are not generated (B.2.3 converts them, the property statement rejects them) *)
RecvCases(m) ==
    UNION {{[f |-> "call", m |-> m, th |-> th, st |-> st, a |-> a] : st \in StylesOf(th), a \in ArgSetsOf(m)} :
              th \in (IF m = "substr" THEN Recvs \ {Undef, Null} ELSE Recvs)}

(* the receiver forms of a string *)
CallCases(ms, s, argsets) ==
    {[f |-> "call", m |-> m, th |-> StrV(s), st |-> "member", a |-> a] : m \in ms, a \in argsets}
PrimAndObj(ms, s, argsets) ==
    {[f |-> "call", m |-> m, th |-> th, st |-> st, a |-> a] :
        m \in ms, th \in {StrV(s), StrObj(s)}, st \in {"member", "call"}, a \in argsets}

(* trim: white space, line terminators and look-alikes that are NOT white space *)
TrimUnits == WSUnits \cup {97, 0, 8, 28, 31, 133, 8204, 8288}
TrimSeq == SetToSeq(TrimUnits)
TrimWords(x) == {<<>>, <<x>>, <<x, 97>>, <<97, x>>, <<97, x, 98>>}
                \cup {<<x, y>> : y \in TrimUnits} \cup {<<x, 97, y>> : y \in TrimUnits} \cup {<<x, y, 97, y, x>> : y \in TrimUnits}

(* case mapping: the letters of StrOps!LowerU / UpperU and characters without a mapping *)
CaseUnits == (65..90) \cup (97..122) \cup ((192..222) \ {215}) \cup ((224..255) \ {247}) \cup {181, 215, 247, 170, 186}
             \cup ((913..939) \ {930, 931}) \cup ((945..971)) \cup (1024..1119)
             \cup S!EvenUpper \cup S!OddUpper \cup {u + 1 : u \in S!EvenUpper \cup S!OddUpper} \cup {376, 305, 383, 452, 453, 454}
             \cup {8490, 8491, 8486, 48, 32, 95, 64, 20013, 12354, 1488}
CaseSeq == SetToSeq(CaseUnits)
CaseMix == {<<65, 98>>, <<233, 201>>, <<937, 969, 1078, 1046>>, <<97, 55357, 56832, 66>>, <<55357, 56832>>, <<>>, <<952, 920, 48, 255, 376>>}

(* localeCompare *)
LcStrs == {<<>>, Ca, <<98>>, <<66>>, <<65>>, <<97, 98>>, <<97, 97>>, Ce, <<101>>, <<101, 769>>, Cz, Cm, <<65535>>, <<57344>>,
           Ca \o Cm, Ca \o <<65535>>, <<48>>, <<32>>, <<122>>, <<1078>>, <<937>>}
LcSeq == SetToSeq(LcStrs)
LcSmall == {<<>>, Ca, <<66>>, <<98>>, Ce, Cm, <<65535>>, Ca \o Cm, <<97, 98>>}

(* fromCharCode *)
FccNums == {I(0), I(65), I(55295), I(55357), I(56832), I(57344), I(65533), I(65535), I(65536), I(65602), I(-1), I(-65469),
            Canon(FALSE, <<19>>, -3), NumNeg(Half), NaN, PInf, NInf, NumAdd(Pw2(32), I(68)), NumAdd(Pw2(53), I(2)),
            DecToNum(FALSE, <<1>>, 21), NZero}
FccVals == {NumV(n) : n \in FccNums} \cup {Undef, Null, BoolV(TRUE), StrV(<<54, 54>>), StrV(<<48, 120, 52, 51>>), StrV(Ca), A6, A8o}
FccSeq == SetToSeq(FccVals)

ConcatVals == {Undef, Null, BoolV(TRUE), IntV(1), NumV(NZero), NumV(NaN), NumV(DecToNum(FALSE, <<1>>, 21)), StrV(Ce \o Cm), StrV(<<>>)}
ConcatStrs == {<<>>, Ca, Cm, Ce \o Cm \o Ca}

CtorVals == {Undef, Null, BoolV(TRUE), BoolV(FALSE), IntV(0), NumV(NZero), NumV(NaN), IntV(-5), NumV(OneHalf), NumV(NInf),
             NumV(DecToNum(FALSE, <<1>>, 21)), NumV(DecToNum(FALSE, <<1>>, -7)), StrV(Ce \o Cm), StrV(<<>>), StrObj(<<97, 98>>),
             O1, O2, O3, O4, O5}
CtorForms == {"String", "newValueOf", "newToString", "typeofNew", "newLength", "protoToString", "protoValueOf"}

-----------------------------------------------------------------------------
(* blocks and their cases *)
Blocks ==
    ({"pos1", "pos2", "search", "split", "index"} \X (1..NS))
    \cup ({"recv"} \X (1..Len(MethodSeq))) \cup ({"trim"} \X (1..Len(TrimSeq))) \cup ({"case"} \X (1..Len(CaseSeq)))
    \cup ({"lc"} \X (1..Len(LcSeq))) \cup ({"fcc"} \X (1..Len(FccSeq))) \cup ({"concat", "ctor", "casemix", "lc3"} \X {1})

Cases(b) ==
    LET s == IF b[1] \in {"pos1", "pos2", "search", "split", "index"} THEN StrSeq[b[2]] ELSE <<>>
    IN  CASE b[1] = "pos1" -> PrimAndObj({"charAt", "charCodeAt"}, s, Args01)
          [] b[1] = "pos2" -> CallCases({"slice", "substring", "substr"}, s, Args012)
          [] b[1] = "search" ->
                CallCases({"indexOf", "lastIndexOf"}, s,
                          {<<>>} \cup {<<StrV(t)>> : t \in SearchOf(s)} \cup {<<StrV(t), p>> : t \in SearchOf(s), p \in PosVals})
          [] b[1] = "split" ->
                CallCases({"split"}, s,
                          {<<>>, <<Undef>>} \cup {<<StrV(t)>> : t \in SearchOf(s)}
                          \cup {<<sep, l>> : sep \in {Undef} \cup {StrV(t) : t \in SearchOf(s)}, l \in Limits})
          [] b[1] = "index" ->
                {[f |-> "acc", form |-> fm, s |-> s, k |-> k] : fm \in AccForms, k \in Keys}
                \cup {[f |-> "len", th |-> th] : th \in {StrV(s), StrObj(s)}}
          [] b[1] = "recv" -> RecvCases(MethodSeq[b[2]])
          [] b[1] = "trim" -> {[f |-> "call", m |-> "trim", th |-> StrV(w), st |-> "member", a |-> <<>>] : w \in TrimWords(TrimSeq[b[2]])}
          [] b[1] = "case" ->
                {[f |-> "call", m |-> m, th |-> StrV(w), st |-> "member", a |-> <<>>] :
                    m \in {"toLowerCase", "toUpperCase"}, w \in {<<CaseSeq[b[2]]>>, <<97, CaseSeq[b[2]], 90>>}}
          [] b[1] = "casemix" ->
                {[f |-> "call", m |-> m, th |-> StrV(w), st |-> "member", a |-> <<>>] : m \in {"toLowerCase", "toUpperCase"}, w \in CaseMix}
          [] b[1] = "lc" -> {[f |-> "lc2", x |-> LcSeq[b[2]], y |-> y] : y \in LcStrs}
          [] b[1] = "lc3" -> {[f |-> "lc3", x |-> x, y |-> y, z |-> z] : x \in LcSmall, y \in LcSmall, z \in LcSmall}
          [] b[1] = "fcc" -> {[f |-> "fcc", a |-> <<FccSeq[b[2]]>>]} \cup {[f |-> "fcc", a |-> <<FccSeq[b[2]], y>>] : y \in FccVals}
                             \cup (IF b[2] = 1 THEN {[f |-> "fcc", a |-> <<>>], [f |-> "fcc", a |-> <<IntV(97), IntV(55357), IntV(56832), IntV(233)>>]}
                                   ELSE {})
          [] b[1] = "concat" ->
                {[f |-> "call", m |-> "concat", th |-> StrV(w), st |-> "member", a |-> a] :
                    w \in ConcatStrs, a \in {<<>>} \cup {<<x>> : x \in ConcatVals} \cup {<<x, y>> : x \in ConcatVals, y \in ConcatVals}}
          [] b[1] = "ctor" -> {[f |-> "ctor", form |-> fm, a |-> <<v>>] : fm \in CtorForms, v \in CtorVals}
                              \cup {[f |-> "ctor", form |-> "String", a |-> <<>>], [f |-> "ctor", form |-> "newValueOf", a |-> <<>>],
                                    [f |-> "ctor", form |-> "newLength", a |-> <<>>]}

-----------------------------------------------------------------------------
(* JavaScript text of a case *)
Lit(v) == IF v.t = "strobj" THEN <<"new String(", [lit |-> StrV(v.s)], ")">>
          ELSE IF v.t = "strobjx" THEN <<"SOX(" \o ToString(v.id) \o ",", [lit |-> StrV(v.s)], ",", [lit |-> v.ts], ")">>
          ELSE <<[lit |-> v]>>
RECURSIVE Commas(_)
Commas(ps) == IF ps = <<>> THEN <<>> ELSE IF Len(ps) = 1 THEN ps[1] ELSE ps[1] \o <<",">> \o Commas(Tail(ps))
ArgParts(args) == Commas([i \in 1..Len(args) |-> Lit(args[i])])
CallJs(m, th, st, args) ==
    CASE st = "member" -> <<"(">> \o Lit(th) \o <<")." \o m \o "(">> \o ArgParts(args) \o <<")">>
      [] st = "call" -> <<"String.prototype." \o m \o ".call(">> \o ArgParts(<<th>> \o args) \o <<")">>
      [] st = "comma" -> <<"(0,String.prototype." \o m \o ")(">> \o ArgParts(args) \o <<")">>
SX(u) == <<[lit |-> StrV(u)]>>
Js0(c) ==
    CASE c.f = "call" -> (IF c.m = "localeCompare" THEN <<"typeof ">> ELSE <<>>) \o CallJs(c.m, c.th, c.st, c.a)
      [] c.f = "fcc" -> <<"String.fromCharCode(">> \o ArgParts(c.a) \o <<")">>
      [] c.f = "len" -> <<"(">> \o Lit(c.th) \o <<").length">>
      [] c.f = "acc" ->
            (CASE c.form = "get" -> <<"(">> \o SX(c.s) \o <<")[">> \o Lit(c.k) \o <<"]">>
               [] c.form = "getobj" -> <<"new String(">> \o SX(c.s) \o <<")[">> \o Lit(c.k) \o <<"]">>
               [] c.form = "desc" -> <<"DESC(new String(">> \o SX(c.s) \o <<"),">> \o Lit(c.k) \o <<")">>
               [] c.form = "in" -> <<"(">> \o Lit(c.k) \o <<") in new String(">> \o SX(c.s) \o <<")">>
               [] c.form = "hasOwn" -> <<"new String(">> \o SX(c.s) \o <<").hasOwnProperty(">> \o Lit(c.k) \o <<")">>
               [] c.form = "put" -> <<"PUT(new String(">> \o SX(c.s) \o <<"),">> \o Lit(c.k) \o <<")">>
               [] c.form = "delete" -> <<"DEL(new String(">> \o SX(c.s) \o <<"),">> \o Lit(c.k) \o <<")">>)
      [] c.f = "ctor" ->
            (CASE c.form = "String" -> <<"String(">> \o ArgParts(c.a) \o <<")">>
               [] c.form = "newValueOf" -> <<"new String(">> \o ArgParts(c.a) \o <<").valueOf()">>
               [] c.form = "newToString" -> <<"new String(">> \o ArgParts(c.a) \o <<").toString()">>
               [] c.form = "typeofNew" -> <<"typeof new String(">> \o ArgParts(c.a) \o <<")">>
               [] c.form = "newLength" -> <<"new String(">> \o ArgParts(c.a) \o <<").length">>
               [] c.form = "protoToString" -> <<"String.prototype.toString.call(">> \o ArgParts(c.a) \o <<")">>
               [] c.form = "protoValueOf" -> <<"String.prototype.valueOf.call(">> \o ArgParts(c.a) \o <<")">>)
      [] c.f = "lc2" ->
            IF c.x = c.y THEN <<"(">> \o SX(c.x) \o <<").localeCompare(">> \o SX(c.y) \o <<")">>
            ELSE <<"ANTI(">> \o SX(c.x) \o <<",">> \o SX(c.y) \o <<")">>
      [] c.f = "lc3" -> <<"LCT(">> \o SX(c.x) \o <<",">> \o SX(c.y) \o <<",">> \o SX(c.z) \o <<")">>
Js(c) == <<"G(function(){return ">> \o Js0(c) \o <<";})">>

(* expected outcome; the operators come from an instance of StrOps *)
R0(v) == [thr |-> "", v |-> v, log |-> <<>>]
Expect(Call(_, _, _, _), Fcc(_), Acc(_, _, _), StringCall(_), ThisStringValue(_), c) ==
    CASE c.f = "call" ->
            (LET r == Call(c.m, c.th, c.st, c.a)
             IN  IF c.m = "localeCompare" /\ r.thr = "" THEN [r EXCEPT !.v = StrV(S_number)] ELSE r)
      [] c.f = "fcc" -> Fcc(c.a)
      [] c.f = "len" -> R0(IntV(Len(c.th.s)))                              \* 15.5.5.1
      [] c.f = "acc" -> Acc(c.form, c.s, c.k)
      [] c.f = "ctor" ->
            (LET sv == StringCall(c.a)                                      \* 15.5.1.1 / 15.5.2.1: ToString(value) or ""
             IN  CASE c.form = "String" -> sv
                   [] c.form \in {"newValueOf", "newToString"} -> sv
                   [] c.form = "typeofNew" -> IF sv.thr = "" THEN [sv EXCEPT !.v = StrV(S_object)] ELSE sv
                   [] c.form = "newLength" -> IF sv.thr = "" THEN [sv EXCEPT !.v = IntV(Len(sv.v.s))] ELSE sv
                   [] c.form \in {"protoToString", "protoValueOf"} -> ThisStringValue(c.a[1]))
      [] c.f = "lc2" ->          \* 15.5.4.9: equal strings give +0; otherwise only consistency (15.4.4.11) is required
            (LET r == Call("localeCompare", StrV(c.x), "member", <<StrV(c.y)>>)
             IN  IF r.v.same THEN R0(IntV(0)) ELSE R0(BoolV(TRUE)))
      [] c.f = "lc3" -> R0(BoolV(TRUE))

-----------------------------------------------------------------------------
None == [f |-> "none"]
Sub(S0) == IF NSel = 0 \/ NSel >= Cardinality(S0) THEN S0 ELSE RandomSubset(NSel, S0)
Init == cs = None /\ blk \in Blocks
Next == /\ cs = None
        /\ UNCHANGED blk
        /\ \E c \in Sub(Cases(blk)) : cs' = c
Emit ==
    cs = None \/
    LET es == Expect(S!Call, S!FromCharCode, S!Access, S!StringCall, S!ThisStringValue, cs)
        ed == Expect(L!Call, L!FromCharCode, L!Access, L!StringCall, L!ThisStringValue, cs)
    IN  PrintT("VJSON " \o ToJson([c |-> cs, js |-> Js(cs), exp |-> es, dev |-> IF ed = es THEN <<>> ELSE <<ed>>]))
=============================================================================
