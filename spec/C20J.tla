-------------------------------- MODULE C20J --------------------------------
(* Judge for C20: a line is what ONE runtime did in a concurrent run:         *)
(*   [id, progs |-> <<P1, ..., Pk>> (run one after the other on it),          *)
(*    obs |-> <<outcome1, ..., outcomek>>]                                    *)
(* Its results must be those of running the same programs alone (RunSeq).     *)
EXTENDS Integers, Sequences, TLC, Json
CONSTANTS OpenDev, Fuel
VARIABLES blk, i
S == INSTANCE ES5Core WITH Dev <- {}
File == ndJsonDeserialize("trace.ndjson")
K == 64
Init == blk \in 1..K /\ i = 0
Next == i = 0 /\ i' \in {j \in 1..Len(File) : j % K = blk - 1} /\ UNCHANGED blk
Same(o, obs) == ~o.und /\ o.log = obs.log /\ o.thr = obs.thr /\ o.v = obs.v
Check ==
    i = 0 \/
    LET ev == File[i]
        a == S!RunSeq(ev.progs, Fuel)
    IN  IF \E n \in 1..Len(a) : a[n].und THEN PrintT("VJSON " \o ToJson([id |-> ev.id, status |-> "und"]))
        ELSE (\A n \in 1..Len(a) : Same(a[n], ev.obs[n]))
             \/ PrintT("VJSON " \o ToJson([id |-> ev.id, status |-> "bad", want |-> a]))
=============================================================================
