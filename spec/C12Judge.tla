----------------------------- MODULE C12Judge -------------------------------
(* Judge direction (code -> specification) for property C12: the harness     *)
(* draws random inputs from wider domains than spec/C12.tla enumerates       *)
(* (arbitrary doubles as time values, fractional field values, random setter *)
(* sequences, random texts of the Date Time String Format), runs them on the *)
(* implementation and records one event per line of trace.ndjson:            *)
(*   [k |-> "inst", t |-> Num, res |-> outcome]                              *)
(*   [k |-> "utc", a |-> <<Num..>>, res]                                     *)
(*   [k |-> "set", t |-> Num, ops |-> <<[m, a]..>>, res]                     *)
(*   [k |-> "parse", s |-> code units, res]                                  *)
(* with res = [thr, v, log] the projected outcome of the same JavaScript     *)
(* text spec/C12.tla would print for the case.  The specification recomputes *)
(* the outcome; only events that differ from the strict instance are printed *)
(* ("dev": equal to the instance with the open deviations, "bad": neither,   *)
(* "skip": a text outside the format, whose value is implementation-defined).*)
EXTENDS NumText, Json, TLC
CONSTANT OpenDev
VARIABLES blk, cur

S == INSTANCE DateSpec WITH Dev <- {}
L == INSTANCE DateSpec WITH Dev <- OpenDev

File == ndJsonDeserialize("trace.ndjson")
NB == 64

CaseOf(ev) ==
    CASE ev.k = "inst" -> [fam |-> "inst", t |-> ev.t]
      [] ev.k = "utc" -> [fam |-> "utc", a |-> ev.a]
      [] ev.k = "set" -> [fam |-> "set", t |-> ev.t, ops |-> ev.ops]
      [] ev.k = "parse" -> [fam |-> "parse", s |-> ev.s]

Init == blk \in 1..NB /\ cur = 0
Next == cur = 0 /\ UNCHANGED blk /\ \E j \in {x \in 1..Len(File) : x % NB = blk - 1} : cur' = j

Verdict(j, v, want) == PrintT("VJSON " \o ToJson([i |-> j, verdict |-> v, want |-> want]))
Judge ==
    cur = 0 \/
    LET ev == File[cur]
        c  == CaseOf(ev)
    IN  IF ev.k = "parse" /\ ~S!ParseISO(ev.s).ok THEN Verdict(cur, "skip", S!R(Undef, <<>>))
        ELSE LET es == S!Eval(c)
             IN  es = ev.res
                 \/ (LET ed == L!Eval(c) IN IF ed = ev.res THEN Verdict(cur, "dev", es) ELSE Verdict(cur, "bad", es))
=============================================================================
