------------------------------ MODULE Totality ------------------------------
(* Property C02: no script can crash or wedge the embedding Go program.      *)
(*                                                                           *)
(* The module states, for every action at the public API of the interpreter, *)
(* which REPLIES are admissible.  A reply is one of                          *)
(*     [kind |-> "value"]                 the call returned a value          *)
(*     [kind |-> "error", class |-> c]    the call returned an error; c is   *)
(*                                        the ES5 error class (15.11.6/7),   *)
(*                                        "Error" for 15.11.1 instances      *)
(*     [kind |-> "gopanic", class |-> t]  a Go panic of dynamic type t left  *)
(*                                        the API                            *)
(*     [kind |-> "interrupted"]           the script was still running when  *)
(*                                        the host interrupted it (ES5 lets  *)
(*                                        a program diverge; the host's      *)
(*                                        Interrupt function stopped it)     *)
(*     [kind |-> "wedged" | "killed" | "crash"]  the call neither returned   *)
(*                                        nor could be interrupted, exhausted*)
(*                                        memory, or killed the process      *)
(* An EXPECTATION is a set of admissible replies, written as a record        *)
(*   [value : BOOLEAN, errors : set of classes ("*" = every class),          *)
(*    panics : set of Go types, diverge : BOOLEAN, resource : BOOLEAN,       *)
(*    post : set of <<accessor, Go type>> admitted to panic when the Value / *)
(*           Object accessors are applied to the result]                     *)
(* The design-level statement of C02 is NoGoPanic: under Dev = {} no action  *)
(* other than a deliberately panicking host interrupt function admits a      *)
(* "gopanic", "wedged", "killed" or "crash" reply.  Where ES5 fixes more than *)
(* totality (the receiver rules of clause 15, 15.2.3 argument checks, 11.2.2 *)
(* for non-constructors, the 15.7.4 range checks, clause 9 conversions at    *)
(* the Value accessors) the expectation is narrowed to exactly that class.   *)
(*                                                                           *)
(* Known deviations of otto are the branches D("...").                       *)
EXTENDS Naturals, Sequences, FiniteSets, TLC
CONSTANT Dev
D(x) == x \in Dev

Cv == INSTANCE Ops WITH Dev <- {}      \* clause 9 conversions on scripted objects (8.12.8, 9.1 - 9.8)

-----------------------------------------------------------------------------
(* Expectations                                                              *)
Exp(v, es, ps, dv, rs, po) == [value |-> v, errors |-> es, panics |-> ps, diverge |-> dv, resource |-> rs, post |-> po]
AnyReply     == Exp(TRUE, {"*"}, {}, FALSE, FALSE, {})      \* "returns a value or an error" (totality only)
OnlyValue    == Exp(TRUE, {}, {}, FALSE, FALSE, {})
OnlyError(c) == Exp(FALSE, {c}, {}, FALSE, FALSE, {})
ErrorIn(cs)  == Exp(FALSE, cs, {}, FALSE, FALSE, {})
ValueOr(cs)  == Exp(TRUE, cs, {}, FALSE, FALSE, {})
AnyOrDiverge == Exp(TRUE, {"*"}, {}, TRUE, FALSE, {})       \* source texts: a program may also not terminate
OnlyPanic(t) == Exp(FALSE, {}, {t}, FALSE, FALSE, {})

Widen(e, ps, rs, po) == [e EXCEPT !.panics = @ \cup ps, !.resource = @ \/ rs, !.post = @ \cup po]
WithValue(e) == [e EXCEPT !.value = TRUE]

(* membership of an observed reply r = [kind, class, post (number of accessors that panicked on the result), *)
(* after ("" = the runtime is usable afterwards)] in an expectation                                          *)
Admits(e, r) ==
    /\ CASE r.kind = "value" -> e.value
          [] r.kind = "error" -> "*" \in e.errors \/ r.class \in e.errors
          [] r.kind = "gopanic" -> r.class \in e.panics
          [] r.kind = "interrupted" -> e.diverge \/ e.resource
          [] r.kind \in {"wedged", "killed", "crash"} -> e.resource
          [] OTHER -> FALSE
    /\ (r.post > 0 => e.post # {})
    /\ r.after = ""

(* the design-level statement *)
Total(e) == e.panics = {} /\ ~e.resource /\ e.post = {}

-----------------------------------------------------------------------------
(* Value kinds: the receivers and arguments of the enumeration.              *)
(*   ty   ES5 type (8.1 - 8.6)        cls  [[Class]] (8.6.2) of an object    *)
(*   call IsCallable (9.11)           host bridged Go value (8.6.2: its      *)
(*        class is none of the classes of clause 15)                         *)
(*   conv the behaviour of valueOf / toString as an Ops conversion object    *)
(*        ("" for primitives and for objects that convert like their class)  *)
(*   thr  class of what the kind's scripted methods / getters throw          *)
K(ty, cls, call, host, conv) == [ty |-> ty, cls |-> cls, call |-> call, host |-> host, conv |-> conv]
Prim(ty) == K(ty, "", FALSE, FALSE, "")
Obj(cls) == K("object", cls, FALSE, FALSE, "")
KindTab == [
  undefined |-> Prim("undefined"), null |-> Prim("null"), true |-> Prim("boolean"),
  zero |-> Prim("number"), nzero |-> Prim("number"), nan |-> Prim("number"), inf |-> Prim("number"),
  p53 |-> Prim("number"), neg1 |-> Prim("number"), frac |-> Prim("number"), u32max |-> Prim("number"),
  empty |-> Prim("string"), abc |-> Prim("string"), nonascii |-> Prim("string"), loneSurr |-> Prim("string"),
  obj |-> Obj("Object"), arr0 |-> Obj("Array"), arr2 |-> Obj("Array"), sparse |-> Obj("Array"),
  fn |-> K("object", "Function", TRUE, FALSE, ""), bound |-> K("object", "Function", TRUE, FALSE, ""),
  regexp |-> Obj("RegExp"), date0 |-> Obj("Date"), dateNaN |-> Obj("Date"), err |-> Obj("Error"),
  strObj |-> Obj("String"), numObj |-> Obj("Number"), boolObj |-> Obj("Boolean"),
  args |-> Obj("Arguments"), frozen |-> Obj("Object"),
  thrower |-> K("object", "Object", FALSE, FALSE, "throw"),          \* valueOf, toString and the getters x, length, 0 throw an Error
  objobj |-> K("object", "Object", FALSE, FALSE, "retobj"),         \* valueOf and toString return objects
  nullproto |-> K("object", "Object", FALSE, FALSE, "missing"),     \* Object.create(null): no valueOf, no toString
  hugeLen |-> Obj("Object"), negLen |-> Obj("Object"),              \* {length: 4294967295}, {length: -1}
  goStruct |-> K("object", "host", FALSE, TRUE, ""), goMapSI |-> K("object", "host", FALSE, TRUE, ""),
  goMapIS |-> K("object", "host", FALSE, TRUE, ""), goSlice |-> K("object", "host", FALSE, TRUE, ""),
  goFunc |-> K("object", "Function", TRUE, TRUE, ""),
  \* only in the accessor family:
  cyclicArr |-> Obj("Array"), cyclicObj |-> Obj("Object"), deepArr |-> Obj("Array"),
  \* pseudo kinds of the this value (never enumerated)
  global |-> Obj("global"), owner |-> K("object", "owner", FALSE, FALSE, "") ]

Kinds == <<"undefined", "null", "true", "zero", "nzero", "nan", "inf", "p53", "neg1", "frac", "u32max",
           "empty", "abc", "nonascii", "loneSurr", "obj", "arr0", "arr2", "sparse", "fn", "bound", "regexp",
           "date0", "dateNaN", "err", "strObj", "numObj", "boolObj", "args", "frozen", "thrower", "objobj",
           "nullproto", "hugeLen", "negLen", "goStruct", "goMapSI", "goMapIS", "goSlice", "goFunc">>
(* the kinds whose pairs are enumerated exhaustively in the thorough tier *)
CoreKinds == <<"undefined", "null", "true", "zero", "nan", "inf", "p53", "neg1", "abc", "obj", "arr2", "fn", "regexp",
               "thrower", "objobj", "negLen">>
AccKinds == Kinds \o <<"cyclicArr", "cyclicObj", "deepArr">>

IsObjK(k) == KindTab[k].ty = "object"
Coercible(k) == KindTab[k].ty \notin {"undefined", "null"}       \* 9.10 CheckObjectCoercible / 9.9 ToObject do not throw
Callable(k) == KindTab[k].call
Host(k) == KindTab[k].host
HugeLength(k) == k \in {"hugeLen", "negLen"}                       \* ToUint32(length) = 2^32 - 1 (9.6)

(* clause 9 on a kind, through Ops (8.12.8 DefaultValue, 9.1 ToPrimitive): the *)
(* error class a conversion with the given hint raises, "" if it cannot throw *)
ConvObj(k) ==
    LET b == KindTab[k].conv
        beh == CASE b = "throw" -> [k |-> "throw"]
                 [] b = "retobj" -> [k |-> "retobj"]
                 [] b = "missing" -> [k |-> "noncallable"]      \* [[Get]] gives undefined: not callable (8.12.8 step 2/4)
                 [] OTHER -> [k |-> "inherit"]
    IN  [t |-> "cobj", id |-> 1, vo |-> beh, ts |-> beh]
ConvThrows(k, hint) ==
    IF ~IsObjK(k) \/ KindTab[k].conv = "" THEN ""
    ELSE LET r == Cv!ToPrimitive(ConvObj(k), hint, <<>>)
         IN  IF r.thr = "" THEN "" ELSE IF r.thr = "value" THEN "Error" ELSE r.thr   \* the scripted methods throw new Error(..)
(* classes that converting the arguments (ToString / ToNumber / ToPrimitive /  *)
(* a property read) may raise: the class of each argument that can throw      *)
ArgClasses(as) == {c \in {ConvThrows(as[i], "number") : i \in 1..Len(as)} : c # ""}

-----------------------------------------------------------------------------
(* The built-in surface.  A function is a row [p, owner, name] of C02Fns.     *)
(* Receivers: what clause 15 demands of the this value.                       *)

(* 15.5.4.4 - 15.5.4.20: "Call CheckObjectCoercible passing the this value" is step 1 *)
StringGeneric == {"charAt", "charCodeAt", "concat", "indexOf", "lastIndexOf", "localeCompare", "match", "replace",
                  "search", "slice", "split", "substring", "toLowerCase", "toLocaleLowerCase", "toUpperCase",
                  "toLocaleUpperCase", "trim"}
(* B.2.3 substr: step 1 is ToString(this value) - no CheckObjectCoercible in ES5.1; trimLeft/Right/Start/End and   *)
(* startsWith are not ES5 functions: totality only                                                                 *)

(* 15.4.4.2 - 15.4.4.22: "Let O be the result of calling ToObject passing the this value" is step 1 *)
ArrayGeneric == {"toString", "toLocaleString", "concat", "join", "pop", "push", "reverse", "shift", "slice", "sort",
                 "splice", "unshift", "indexOf", "lastIndexOf", "every", "some", "forEach", "map", "filter",
                 "reduce", "reduceRight"}
(* 15.4.4.16 - 15.4.4.22 step 4: "If IsCallable(callbackfn) is false, throw a TypeError exception" *)
ArrayCallback == {"every", "some", "forEach", "map", "filter", "reduce", "reduceRight"}
(* the methods that visit every index below ToUint32(length) (resource exclusion for length 2^32 - 1) *)
ArrayLinear == ArrayGeneric \ {"concat", "pop", "push"}

(* 15.9.5: "a TypeError exception is thrown if the this value is not an object for which the value of the [[Class]] *)
(* internal property is "Date"" - every function of 15.9.5 and B.2.4 - B.2.6 except toJSON (15.9.5.44, generic)      *)
DateGenericNames == {"toJSON"}
(* 15.10.6: exec, test, toString *)
RegExpBound == {"exec", "test", "toString"}
(* 15.7.4: toString, toLocaleString, valueOf, toFixed, toExponential, toPrecision ("this Number value") *)
NumberBound == {"toString", "toLocaleString", "valueOf", "toFixed", "toExponential", "toPrecision"}
NumberFormat == {"toString", "toFixed", "toExponential", "toPrecision"}
(* 15.6.4.2, 15.6.4.3 *)
BooleanBound == {"toString", "valueOf"}
(* 15.5.4.2, 15.5.4.3 *)
StringBound == {"toString", "valueOf"}

(* [rule, ...]: "coercible" | "class" (cls, prim) | "callable" | "object" | "none" *)
Receiver(f) ==
    CASE f.owner = "String.prototype" /\ f.name \in StringGeneric -> [rule |-> "coercible", exact |-> TRUE]
      [] f.owner = "String.prototype" /\ f.name \in StringBound -> [rule |-> "class", cls |-> "String", prim |-> "string"]
      [] f.owner = "Array.prototype" /\ f.name \in ArrayGeneric -> [rule |-> "coercible", exact |-> TRUE]
      [] f.owner = "Date.prototype" /\ f.name \notin DateGenericNames -> [rule |-> "class", cls |-> "Date", prim |-> ""]
      [] f.owner = "Date.prototype" /\ f.name = "toJSON" -> [rule |-> "coercible", exact |-> TRUE]          \* 15.9.5.44 step 1 ToObject
      [] f.owner = "RegExp.prototype" /\ f.name \in RegExpBound -> [rule |-> "class", cls |-> "RegExp", prim |-> ""]
      [] f.owner = "Number.prototype" /\ f.name \in NumberBound -> [rule |-> "class", cls |-> "Number", prim |-> "number"]
      [] f.owner = "Boolean.prototype" /\ f.name \in BooleanBound -> [rule |-> "class", cls |-> "Boolean", prim |-> "boolean"]
      [] f.owner = "Function.prototype" /\ f.name = "toString" -> [rule |-> "class", cls |-> "Function", prim |-> ""]   \* 15.3.4.2
      [] f.owner = "Function.prototype" /\ f.name \in {"call", "apply", "bind"} -> [rule |-> "callable"]              \* 15.3.4.3-5 step 1/2
      [] f.owner = "Error.prototype" /\ f.name = "toString" -> [rule |-> "object"]                                     \* 15.11.4.4 step 2
      [] f.owner = "Object.prototype" /\ f.name \in {"toLocaleString", "valueOf"} -> [rule |-> "coercible", exact |-> TRUE]   \* 15.2.4.3/4 step 1 ToObject
      [] f.owner = "Object.prototype" /\ f.name \in {"hasOwnProperty", "propertyIsEnumerable"} -> [rule |-> "coercible", exact |-> FALSE]  \* ToString(V) first
      [] OTHER -> [rule |-> "none"]

RecvViolated(r, this) ==
    CASE r.rule = "coercible" -> ~Coercible(this)
      [] r.rule = "class" -> ~((r.prim # "" /\ KindTab[this].ty = r.prim) \/ (IsObjK(this) /\ KindTab[this].cls = r.cls))
      [] r.rule = "callable" -> ~Callable(this)
      [] r.rule = "object" -> ~IsObjK(this)
      [] OTHER -> FALSE

(* 15.2.3.2 - 15.2.3.14: "If Type(O) is not Object throw a TypeError exception" is step 1 (15.2.3.5 create: *)
(* "not Object or Null")                                                                                      *)
ObjectArgCheck == {"getPrototypeOf", "getOwnPropertyDescriptor", "getOwnPropertyNames", "create", "defineProperty",
                   "defineProperties", "seal", "freeze", "preventExtensions", "isSealed", "isFrozen", "isExtensible", "keys"}
(* of these, the ones that cannot fail on a native object argument *)
ObjectArgTotal == {"getPrototypeOf", "getOwnPropertyNames", "seal", "freeze", "preventExtensions", "isSealed", "isFrozen",
                   "isExtensible", "keys"}

(* 15.2.2, 15.3.2, 15.4.2, 15.5.2, 15.6.2, 15.7.2, 15.9.3, 15.10.4, 15.11.2, 15.11.7.4: the constructors.   *)
(* "None of the built-in functions described in this clause that are not constructors shall implement the *)
(* [[Construct]] internal method" (15); 11.2.2 step 5: no [[Construct]] => TypeError                       *)
Constructors == {"Object", "Function", "Array", "String", "Boolean", "Number", "Date", "RegExp", "Error",
                 "EvalError", "RangeError", "ReferenceError", "SyntaxError", "TypeError", "URIError"}
IsES5(f) == ~(\/ f.owner = "console"
              \/ (f.owner = "Object" /\ f.name \in {"assign", "values"})
              \/ (f.owner = "Math" /\ f.name \in {"acosh", "asinh", "atanh", "cbrt", "cosh", "expm1", "log10", "log1p", "log2", "sinh", "tanh", "trunc"})
              \/ (f.owner = "Number" /\ f.name = "isNaN")
              \/ (f.owner = "String.prototype" /\ f.name \in {"startsWith", "trimEnd", "trimLeft", "trimRight", "trimStart"})
              \/ (f.owner = "RegExp.prototype" /\ f.name = "compile")
              \/ (f.owner \in {"EvalError.prototype", "RangeError.prototype", "ReferenceError.prototype", "SyntaxError.prototype",
                               "TypeError.prototype", "URIError.prototype"}))

Arg(as, i) == IF i <= Len(as) THEN as[i] ELSE "undefined"

(* resource exclusion (the statement is about crashes, not about work proportional to 2^32):           *)
(* a call that ES5 itself makes visit 2^32 - 1 indexes is not generated                                 *)
Heavy(f, this, as) ==
    \/ /\ f.owner = "Array.prototype" /\ f.name \in ArrayLinear /\ HugeLength(this)
       /\ ~(f.name \in ArrayCallback /\ ~Callable(Arg(as, 1)))          \* TypeError at step 4, before any visit
    \/ f.owner = "Function.prototype" /\ f.name = "apply" /\ HugeLength(Arg(as, 2))     \* 15.3.4.3 step 6-8

-----------------------------------------------------------------------------
(* Entry routes and the this value they pass (11.2.3, 15.3.4.3-5, the Go API)  *)
ScriptRoutes == <<"call", "apply", "bind", "evalcall", "method", "newbind">>
GoRoutes == <<"valuecall", "ottocall", "objectcall">>
ThisRoutes == ScriptRoutes \o GoRoutes       \* routes with a receiver
NoThisRoutes == <<"direct", "new", "ottocall0">>

RouteOK(route, recv) ==
    CASE route = "objectcall" -> IsObjK(recv) /\ ~Host(recv) /\ recv # "frozen"     \* the method is stored on the receiver first
      [] route = "method" -> IsObjK(recv) /\ ~Host(recv) /\ recv # "frozen"
      [] route \in {"direct", "new", "ottocall0"} -> recv = "undefined"
      [] OTHER -> TRUE

ThisOf(route, recv) ==
    CASE route \in {"direct", "new", "newbind"} -> "undefined"      \* newbind: new (F.bind(recv, args))(): 15.3.4.5.2 ignores the bound this
      [] route = "ottocall0" -> "owner"           \* Otto.Call(path, nil): the call expression `path()`; this = base object (11.2.3 step 6)
      [] route \in {"call", "evalcall"} /\ recv = "undefined" /\ D("D09_call_undefined_this_global") -> "global"
      [] route = "apply" /\ recv = "undefined" /\ D("D02_apply_undefined_this_global") -> "global"
      [] route = "bind" /\ recv = "undefined" /\ D("D02_bind_undefined_this_global") -> "global"
      [] OTHER -> recv

-----------------------------------------------------------------------------
(* What ES5 fixes about the reply of calling built-in f with this value kind   *)
(* `this` and argument kinds `as` (strict: no deviations).                     *)
NumThis(this) == KindTab[this].ty = "number" \/ (IsObjK(this) /\ KindTab[this].cls = "Number")
FiniteNumThis(this) == this \in {"zero", "nzero", "p53", "neg1", "frac", "u32max", "numObj"}
(* ToInteger (9.4) of an argument kind that cannot throw: "low" < 0, "zero", "one", "huge" > 100, "" unknown/throws *)
IntClass(k) ==
    CASE k \in {"undefined", "nan", "zero", "nzero", "null", "empty", "abc", "nonascii", "arr0", "obj", "fn", "bound", "regexp",
                "err", "args", "frozen", "hugeLen", "negLen", "dateNaN", "sparse", "arr2", "strObj", "loneSurr"} -> "zero"
      [] k \in {"true", "frac", "numObj"} -> "one"
      [] k = "neg1" -> "low"
      [] k \in {"inf", "p53", "u32max"} -> "huge"
      [] k \in {"date0", "boolObj"} -> "zero"
      [] OTHER -> ""

FnStrict(f, this, as) ==
    LET r == Receiver(f)
        a1 == Arg(as, 1)
    IN  CASE
        \* receiver rules
           RecvViolated(r, this) /\ r.rule = "coercible" /\ r.exact -> OnlyError("TypeError")
        [] RecvViolated(r, this) /\ r.rule = "coercible" /\ ~r.exact -> ErrorIn({"TypeError"} \cup ArgClasses(as))
        [] RecvViolated(r, this) /\ r.rule \in {"callable", "object"} -> OnlyError("TypeError")
        [] RecvViolated(r, this) /\ r.rule = "class" ->
              ErrorIn({"TypeError"} \cup ArgClasses(as)
                      \cup (IF f.owner = "Number.prototype" /\ f.name \in NumberFormat /\ Len(as) > 0 THEN {"RangeError"} ELSE {}))
        \* 15.2.4.2 Object.prototype.toString: defined for every this value
        [] f.owner = "Object.prototype" /\ f.name = "toString" /\ ~Host(this) -> OnlyValue
        \* 15.2.4.6 isPrototypeOf: step 1 "If V is not an object, return false"; step 2 ToObject(this)
        [] f.owner = "Object.prototype" /\ f.name = "isPrototypeOf" /\ ~IsObjK(a1) -> OnlyValue
        [] f.owner = "Object.prototype" /\ f.name = "isPrototypeOf" /\ ~Coercible(this) -> OnlyError("TypeError")
        \* 15.2.3.x step 1
        [] f.owner = "Object" /\ f.name \in ObjectArgCheck /\ ~IsObjK(a1) /\ ~(f.name = "create" /\ a1 = "null") -> OnlyError("TypeError")
        [] f.owner = "Object" /\ f.name \in ObjectArgTotal /\ IsObjK(a1) /\ ~Host(a1) -> OnlyValue
        \* 15.4.3.2 Array.isArray, 15.6.1 Boolean(value), 15.3.4 the Function prototype object ("accepts any arguments and returns undefined")
        [] f.p \in {"Array.isArray", "Boolean", "Function.prototype"} -> OnlyValue
        \* 15.4.4.16-22 step 4 (after ToObject, [[Get]] "length", ToUint32: the length of these kinds cannot throw)
        [] f.owner = "Array.prototype" /\ f.name \in ArrayCallback /\ ~Callable(a1) /\ this # "thrower" /\ ~Host(this) -> OnlyError("TypeError")
        \* 15.3.4.3 apply step 2-3: argArray neither null nor undefined and not an Object => TypeError
        [] f.p = "Function.prototype.apply" /\ Arg(as, 2) \notin {"undefined", "null"} /\ ~IsObjK(Arg(as, 2)) -> OnlyError("TypeError")
        \* 15.7.4.2 toString(radix): ToInteger(radix) outside 2..36 => RangeError
        [] f.p = "Number.prototype.toString" /\ NumThis(this) /\ a1 # "undefined" /\ IntClass(a1) # "" -> OnlyError("RangeError")
        \* 15.7.4.5 toFixed step 2: f < 0 or f > 20 => RangeError
        [] f.p = "Number.prototype.toFixed" /\ NumThis(this) /\ IntClass(a1) \in {"low", "huge"} -> OnlyError("RangeError")
        [] f.p = "Number.prototype.toFixed" /\ NumThis(this) /\ IntClass(a1) \in {"zero", "one"} -> OnlyValue
        \* 15.7.4.6 toExponential: NaN / Infinity answered at steps 3-6, step 7: f < 0 or f > 20 => RangeError
        [] f.p = "Number.prototype.toExponential" /\ FiniteNumThis(this) /\ a1 # "undefined" /\ IntClass(a1) \in {"low", "huge"} -> OnlyError("RangeError")
        \* 15.7.4.7 toPrecision: step 8: p < 1 or p > 21 => RangeError
        [] f.p = "Number.prototype.toPrecision" /\ FiniteNumThis(this) /\ a1 # "undefined" /\ IntClass(a1) \in {"low", "zero", "huge"} -> OnlyError("RangeError")
        [] OTHER -> AnyReply

(* 11.2.2 `new F(args)`: TypeError when F has no [[Construct]] *)
NewStrict(f, as) == IF IsES5(f) /\ f.p \notin Constructors THEN OnlyError("TypeError") ELSE AnyReply

-----------------------------------------------------------------------------
(* Named deviations of otto at the built-in surface.  Each widens the          *)
(* expectation of exactly the calls that reach the call site.                  *)
Involves(this, as, k) == this = k \/ \E i \in 1..Len(as) : as[i] = k
GoErr == "*errors.errorString"
RtErr == "runtime.errorString"
NumErr == "*strconv.NumError"

FnDeviate(f, route, this, as, e) ==
    LET a1 == Arg(as, 1)
        \* value.float64() has no case for a String value kept as []uint16 (String.fromCharCode results,
        \* strings with an unpaired surrogate): every ToNumber of such a string panics with a Go error
        d1 == IF D("D02_tonumber_utf16_string_panics") /\ (Involves(this, as, "loneSurr") \/ f.p = "String.fromCharCode")
              THEN Widen(e, {GoErr}, FALSE, {<<"ToFloat", GoErr>>, <<"ToInteger", GoErr>>, <<"IsNaN", GoErr>>}) ELSE e
        \* Number.prototype.toLocaleString(locale): language.MustParse panics with a Go error on a malformed tag
        d2 == IF D("D02_number_tolocalestring_tag_panics") /\ f.p = "Number.prototype.toLocaleString" /\ (NumThis(this) \/ this = "owner") /\ a1 # "undefined"
              THEN WithValue(Widen(d1, {GoErr, "language.ValueError", "*language.ValueError"}, FALSE, {})) ELSE d1
        \* toExponential / toPrecision / toFixed lack the upper range check (C06 D73, D83): strconv.FormatFloat is asked for
        \* billions of digits: makeslice panic, or minutes of work and gigabytes
        d3 == IF D("D02_toexponential_digits_unbounded") /\ f.p = "Number.prototype.toExponential" /\ IntClass(a1) = "huge" /\ a1 # "undefined"
              THEN WithValue(Widen(d2, {RtErr}, TRUE, {})) ELSE d2
        d4 == IF D("D02_toprecision_digits_unbounded") /\ f.p = "Number.prototype.toPrecision" /\ IntClass(a1) = "huge" /\ a1 # "undefined"
              THEN WithValue(Widen(d3, {RtErr}, TRUE, {})) ELSE d3
        \* Object.assign (not ES5) with a target that is not an object works on a nil *object and returns it
        d5 == IF D("D02_object_assign_nonobject_target_nil") /\ f.p = "Object.assign" /\ Len(as) >= 1 /\ ~IsObjK(a1)
              THEN Widen(d4, {RtErr}, FALSE, {<<"String", RtErr>>, <<"ToString", RtErr>>, <<"ToFloat", RtErr>>, <<"ToInteger", RtErr>>,
                                              <<"IsNaN", RtErr>>, <<"IsFunction", RtErr>>, <<"Class", RtErr>>, <<"Export", RtErr>>,
                                              <<"MarshalJSON", RtErr>>, <<"Object.Keys", RtErr>>, <<"Object.KeysByParent", RtErr>>,
                                              <<"Object.Get", RtErr>>, <<"Object.Class", RtErr>>, <<"Object.MarshalJSON", RtErr>>,
                                              <<"Object.Call", RtErr>>}) ELSE d4
        \* [[DefineOwnProperty]] of a bridged slice asserts that every descriptor carries a data value: an accessor
        \* descriptor (Object.assign / defineProperty / defineProperties / create with a getter) panics
        d6 == IF D("D02_goslice_define_accessor_type_assertion") /\ Involves(this, as, "goSlice") /\ Involves(this, as, "thrower")
              THEN Widen(d5, {"*runtime.TypeAssertionError"}, FALSE, {}) ELSE d5
        \* a property name that is not a key of a bridged map[int]T: goMapObject.toKey panics with the strconv error
        \* (writes and deletes; same call site as C16 D16_map_key_conversion_error_not_catchable)
        d7 == IF D("D02_gomap_key_error_escapes") /\ Involves(this, as, "goMapIS")
              THEN Widen(d6, {NumErr}, FALSE, {}) ELSE d6
        \* an element write that cannot be converted to the Go element type panics with a Go error
        \* (goMapObject.toValue / goSliceObject.setValue; C16 D16_element_write_error_not_catchable)
        d8 == IF D("D02_go_element_write_error_escapes") /\ (\E k \in {"goMapSI", "goMapIS", "goSlice", "goStruct"} : Involves(this, as, k))
              THEN Widen(d7, {GoErr}, FALSE, {}) ELSE d7
        \* shrinking a bridged slice passed by value: reflect SetLen on an unaddressable value (C16 D16_slice_value_shrink_panics)
        d9 == IF D("D02_goslice_setlen_unaddressable_panics") /\ Involves(this, as, "goSlice")
              THEN Widen(d8, {"string", "*reflect.ValueError"}, FALSE, {}) ELSE d8
        \* RegExp.prototype itself has no compiled expression (C14 D14_regexp_prototype_exec_nil_panic)
        d10 == IF D("D02_regexp_prototype_exec_nil_panics") /\ f.p \in {"RegExp.prototype.exec", "RegExp.prototype.test"} /\ this = "owner"
               THEN Widen(d9, {RtErr}, FALSE, {}) ELSE d9
        \* new on a bound built-in that is not a constructor calls the nil construct function of the target
        d10b == IF D("D02_new_bound_nonconstructor_nil_panics") /\ route = "newbind" /\ f.p \notin Constructors
                THEN Widen(d10, {RtErr}, FALSE, {}) ELSE d10
        \* Value.IsNaN converts outside catchPanic (C15 D15_isnan_panics_when_conversion_throws): any result object whose
        \* ToNumber throws
        d11 == IF D("D02_value_isnan_exception_escapes") THEN Widen(d10b, {}, FALSE, {<<"IsNaN", "*otto.exception">>}) ELSE d10b
        \* Value.Export reads the properties outside catchPanic: a getter of the result that throws
        d12 == IF D("D02_value_export_exception_escapes") /\ Involves(this, as, "thrower")
               THEN Widen(d11, {}, FALSE, {<<"Export", "*otto.exception">>}) ELSE d11
    IN  d12

(* Known deviations of otto from the receiver and argument rules (the reply is a value or another  *)
(* error where ES5 demands one class): the strict expectation is replaced for exactly these calls. *)
RuleDeviate(f, this, as, e) ==
    LET viol == RecvViolated(Receiver(f), this)
        a1 == Arg(as, 1)
    IN  CASE
        \* Error.prototype.toString on a non-object (C14)
           D("D14_error_toString_non_object_receiver") /\ f.p = "Error.prototype.toString" /\ viol -> AnyReply
        \* toFixed / toExponential / toPrecision convert any this value with ToNumber (C06)
        [] D("D62_tofixed_this_not_number") /\ f.p = "Number.prototype.toFixed" /\ viol -> AnyReply
        [] D("D76_toexponential_this_not_number") /\ f.p = "Number.prototype.toExponential" /\ viol -> AnyReply
        [] D("D86_toprecision_this_not_number") /\ f.p = "Number.prototype.toPrecision" /\ viol -> AnyReply
        \* RegExp.prototype.toString reads source/global/ignoreCase/multiline of ToObject(this)
        [] D("D02_regexp_tostring_not_classbound") /\ f.p = "RegExp.prototype.toString" /\ viol /\ Coercible(this) -> AnyReply
        \* Object.getOwnPropertyNames answers [] for a non-object
        [] D("D02_getownpropertynames_nonobject_accepted") /\ f.p = "Object.getOwnPropertyNames" /\ ~IsObjK(a1) -> OnlyValue
        \* Array.prototype.join converts the separator before ToObject(this)
        [] D("D02_join_separator_before_toobject") /\ f.p = "Array.prototype.join" /\ ~Coercible(this) /\ ConvThrows(a1, "string") # ""
              -> ErrorIn({"TypeError", ConvThrows(a1, "string")})
        [] OTHER -> e

(* the expectation of a case of the function family *)
FnExpect(f, route, recv, as) ==
    LET this == ThisOf(route, recv)
        strict == CASE route \in {"new", "newbind"} -> NewStrict(f, as)     \* 15.3.4.5.2 step 2: target without [[Construct]] => TypeError
                    [] route = "ottocall0" -> AnyReply                   \* this = the object that owns the function
                    [] this = "global" -> (IF RecvViolated(Receiver(f), "global") /\ Receiver(f).rule # "coercible"
                                           THEN RuleDeviate(f, "global", as, FnStrict(f, "global", as)) ELSE AnyReply)
                    [] OTHER -> RuleDeviate(f, this, as, FnStrict(f, this, as))
    IN  FnDeviate(f, route, this, as, strict)

(* under an open deviation that admits "resource" replies only one witness per function is run *)
FnSlowSkip(f, route, recv, as) ==
    FnExpect(f, route, recv, as).resource /\ ~(route = "call" /\ recv = "zero" /\ Len(as) = 1)

-----------------------------------------------------------------------------
(* Value / Object accessors (the Go API) on a value of kind k, with stack      *)
(* depth limit L configured (L = 0: none).  Clause 9 decides.                  *)
Accessors == <<"String", "ToString", "ToFloat", "ToInteger", "ToBoolean", "IsNaN", "IsFunction", "Class", "IsPrimitive",
               "Export", "MarshalJSON", "Object.Keys", "Object.KeysByParent", "Object.Get", "Object.Set", "Object.Class",
               "Object.Value", "Object.MarshalJSON", "Object.Call">>
Cyclic(k) == k \in {"cyclicArr", "cyclicObj"}

ConvReply(k, hint, L) ==         \* ToString / ToNumber of kind k at the API
    LET c == ConvThrows(k, hint)
    IN  CASE Host(k) -> AnyReply
          [] k = "cyclicArr" -> OnlyError("RangeError")       \* 15.4.4.2/5: join of an array that contains itself never ends; L > 0
          [] k = "deepArr" -> (IF L > 0 THEN OnlyError("RangeError") ELSE OnlyValue)
          [] c # "" -> OnlyError(c)
          [] OTHER -> OnlyValue

AccStrict(acc, k, L) ==
    CASE acc = "ToString" -> ConvReply(k, "string", L)
      \* Object.Call("toString"): [[Get]] then [[Call]] (8.12.3, 13.2.1): no conversion of the result
      [] acc = "Object.Call" -> (CASE Host(k) -> AnyReply
                                  [] k = "thrower" -> OnlyError("Error")
                                  [] k = "nullproto" -> OnlyError("TypeError")       \* undefined is not callable
                                  [] k = "cyclicArr" -> OnlyError("RangeError")
                                  [] k = "deepArr" -> (IF L > 0 THEN OnlyError("RangeError") ELSE OnlyValue)
                                  [] OTHER -> OnlyValue)
      [] acc \in {"ToFloat", "ToInteger"} -> ConvReply(k, "number", L)
      \* these have no error result: they must return
      [] acc \in {"String", "ToBoolean", "IsNaN", "IsFunction", "Class", "IsPrimitive", "Object.Keys",
                  "Object.KeysByParent", "Object.Class", "Object.Value"} -> OnlyValue
      \* Export reads every enumerable property (8.12.3): a getter that throws is an error result
      [] acc = "Export" -> (IF k = "thrower" THEN OnlyError("Error") ELSE OnlyValue)
      [] acc = "Object.Get" -> (IF k = "thrower" THEN OnlyError("Error") ELSE IF Host(k) THEN AnyReply ELSE OnlyValue)
      [] acc = "Object.Set" -> (IF k = "frozen" THEN OnlyError("TypeError") ELSE AnyReply)     \* 8.12.5 [[Put]] with Throw = true
      [] OTHER -> AnyReply

AccDeviate(acc, k, L, e) ==
    LET d1 == IF D("D02_tonumber_utf16_string_panics") /\ k = "loneSurr" /\ acc \in {"ToFloat", "ToInteger", "IsNaN"}
              THEN OnlyPanic(GoErr) ELSE e
        d2 == IF D("D02_value_isnan_exception_escapes") /\ acc = "IsNaN" /\ ConvThrows(k, "number") # ""
              THEN OnlyPanic("*otto.exception") ELSE d1
        d3 == IF D("D02_value_export_exception_escapes") /\ acc = "Export" /\ k = "thrower"
              THEN OnlyPanic("*otto.exception") ELSE d2
        d4 == IF D("D02_gomap_key_error_escapes") /\ acc = "Object.Set" /\ k = "goMapIS" THEN Widen(d3, {NumErr}, FALSE, {}) ELSE d3
        d5 == IF D("D02_go_element_write_error_escapes") /\ acc = "Object.Set" /\ k \in {"goMapSI", "goMapIS", "goSlice"} THEN Widen(d4, {GoErr}, FALSE, {}) ELSE d4
        \* from Go, at rest, no execution context exists: built-in frames are not counted and the recursion
        \* join -> toString -> join of a cyclic array is unbounded whatever the configured limit
        d6 == IF D("D02_api_conversion_ignores_stack_limit") /\ k = "cyclicArr" /\ acc \in {"String", "ToString", "ToFloat", "ToInteger", "IsNaN", "Object.Call"}
              THEN Exp(FALSE, {}, {}, FALSE, TRUE, {}) ELSE d5
        d6b == IF D("D02_api_conversion_ignores_stack_limit") /\ k = "deepArr" /\ L > 0 /\ acc \in {"ToString", "ToFloat", "ToInteger", "Object.Call"}
               THEN OnlyValue ELSE d6
        \* Export recurses over the object graph without a visited set
        d7 == IF D("D02_export_cyclic_unbounded_recursion") /\ Cyclic(k) /\ acc = "Export"
              THEN Exp(FALSE, {}, {}, FALSE, TRUE, {}) ELSE d6b
    IN  d7
AccExpect(acc, k, L) == AccDeviate(acc, k, L, AccStrict(acc, k, L))
(* cyclic values only with a limit configured (second sentence of the property) *)
AccCaseOK(acc, k, L) == (Cyclic(k) => L > 0) /\ (IsObjK(k) \/ acc \notin {"Object.Keys", "Object.KeysByParent", "Object.Get", "Object.Set", "Object.Class", "Object.Value", "Object.MarshalJSON", "Object.Call"})

-----------------------------------------------------------------------------
(* Stack depth guard.  otto documents (SetStackDepthLimit, Test_stackLimit):   *)
(* a limit L > 0 admits exactly L nested execution contexts, the global one    *)
(* included; entering one more raises RangeError.  Contexts are those of 10.3  *)
(* (global code, function code, eval code) with these documented particulars: *)
(* a call of a built-in function is a context of its own ("native frame"), a  *)
(* bound function adds none beyond its target (15.3.4.5.1), a DIRECT eval runs *)
(* in the calling context but counts as one level, an indirect eval enters a   *)
(* global one.                                                                 *)
(* Frames(form): the contexts entered per recursion level, outermost first.    *)
RecForms == <<"direct", "mutual", "call", "apply", "bind", "forEach", "getter", "toString", "valueOf", "constructor",
              "evalDirect", "evalIndirect", "sortCompare", "replaceFn", "jsonToJSON">>
UnboundedOnly == <<"cyclicJoin", "cyclicToString", "protoGetter", "setter", "callcall", "newBound",
                   "jsonToJSONFresh", "jsonReplacerFresh", "jsonToJSONFreshArray">>
Step(form) ==
    CASE form \in {"direct", "mutual", "bind", "getter", "toString", "valueOf", "constructor"} -> <<"function">>
      [] form = "evalDirect" -> <<"evalcode", "function">>      \* a direct eval runs in the calling context but is one nesting level
                                                              \* (since repair of F32: eval code that evals itself must hit the limit)
      [] form \in {"call", "apply", "forEach"} -> <<"native", "function">>
      [] form = "evalIndirect" -> <<"native", "global", "function">>
      [] form \in {"sortCompare", "replaceFn"} -> <<"native", "function", "function">>       \* built-in, callback, f
      [] form = "jsonToJSON" -> <<"native", "function">>
(* the first activation: entered from global code by a plain call / property read / operator *)
First(form) == IF form = "jsonToJSON" THEN <<"native", "function">> ELSE <<"function">>
Base(mode) == IF mode = "valuecall" THEN 0 ELSE 1        \* Value.Call from Go at rest enters no global context
Need(form, d, mode) == Base(mode) + Len(First(form)) + (d - 1) * Len(Step(form))

(* explicit machine, for cross-checking the closed form on small instances *)
RECURSIVE PushAll(_, _, _)
PushAll(depth, frames, L) ==      \* TRUE iff all frames can be pushed
    IF frames = <<>> THEN TRUE
    ELSE IF L > 0 /\ depth + 1 > L THEN FALSE
    ELSE PushAll(depth + 1, Tail(frames), L)
RECURSIVE Rep(_, _)
Rep(s, n) == IF n = 0 THEN <<>> ELSE s \o Rep(s, n - 1)
Overflows(form, d, L, mode) == L > 0 /\ Need(form, d, mode) > L
ASSUME \A form \in {RecForms[i] : i \in 1..Len(RecForms)}, d \in 1..6, L \in 0..9 :
          Overflows(form, d, L, "raw") = ~PushAll(1, First(form) \o Rep(Step(form), d - 1), L)

(* d = 0 stands for the unbounded variant of the form *)
(* deviation: JSON.stringify walks the value natively; when toJSON / the replacer hands back a FRESH object that  *)
(* leads to the same holder again, neither the cycle test (15.12.3 Str/JO step 1) nor the context limit ever fires *)
RecNative(form) == form \in {"jsonToJSONFresh", "jsonReplacerFresh", "jsonToJSONFreshArray"}
RecExpect(form, d, L, mode) ==
    IF D("D02_json_stringify_fresh_object_unbounded_recursion") /\ RecNative(form)
    THEN [reply |-> Exp(FALSE, {}, {}, FALSE, TRUE, {}), val |-> ""] ELSE
    LET over == IF d = 0 THEN L > 0 ELSE Overflows(form, d, L, mode)
    IN  CASE mode \in {"raw", "valuecall"} -> (IF over THEN [reply |-> OnlyError("RangeError"), val |-> ""] ELSE [reply |-> OnlyValue, val |-> "7"])
          \* the script catches the RangeError itself, sees an instance of RangeError and continues
          [] mode = "catch" -> [reply |-> OnlyValue, val |-> IF over THEN "RangeError|2" ELSE "done:7|2"]
RecCaseOK(form, d, L, mode) == (d = 0 => L > 0) /\ d >= 0

-----------------------------------------------------------------------------
(* Host interrupts: the one place where a Go panic may leave the API.          *)
IrqExpect(form, arm) ==
    CASE arm = "panic" -> [reply |-> OnlyPanic("armed"), val |-> ""]
      [] OTHER -> [reply |-> OnlyValue, val |-> CASE form = "finally" -> "-2" [] OTHER -> "1000"]

-----------------------------------------------------------------------------
(* Source texts.  A text is a sequence of tokens of the alphabet below (byte   *)
(* sequences).  ES5 fixes: a text containing a character that belongs to no    *)
(* token (7: "#", "@") outside every string, comment and regular expression    *)
(* literal is not a Program => SyntaxError (16: early error, nothing is        *)
(* evaluated); an unterminated string literal (7.8.4) or comment (7.4) as      *)
(* well.  Everything else: a value, an error, or divergence.                   *)
Tok(n, b, cls) == [n |-> n, b |-> b, cls |-> cls]
Alphabet == <<
  Tok("a", <<97>>, "plain"), Tok("1", <<49>>, "plain"), Tok("sp", <<32>>, "plain"), Tok("nl", <<10>>, "nl"),
  Tok("dq", <<34>>, "dq"), Tok("sq", <<39>>, "sq"), Tok("slash", <<47>>, "slash"), Tok("copen", <<47, 42>>, "copen"),
  Tok("cline", <<47, 47>>, "cline"), Tok("cclose", <<42, 47>>, "slash"), Tok("bslash", <<92>>, "bslash"),
  Tok("lp", <<40>>, "plain"), Tok("rp", <<41>>, "plain"), Tok("lb", <<123>>, "plain"), Tok("rb", <<125>>, "plain"),
  Tok("lk", <<91>>, "plain"), Tok("rk", <<93>>, "plain"), Tok("semi", <<59>>, "plain"), Tok("eq", <<61>>, "plain"),
  Tok("dot", <<46>>, "plain"), Tok("colon", <<58>>, "plain"), Tok("hash", <<35>>, "illegal"),
  Tok("nul", <<0>>, "junk"), Tok("xff", <<255>>, "junk"), Tok("function", <<102, 117, 110, 99, 116, 105, 111, 110>>, "plain"),
  Tok("uesc", <<92, 117>>, "bslash"),
  \* the tokens below take part in the sequences of length <= 3 only
  Tok("plus", <<43>>, "plain"), Tok("comma", <<44>>, "plain"), Tok("btick", <<96>>, "illegal"), Tok("at", <<64>>, "illegal"),
  Tok("xc0", <<192, 128>>, "junk"), Tok("ls", <<226, 128, 168>>, "nl"), Tok("var", <<118, 97, 114, 32>>, "plain"),
  Tok("for", <<102, 111, 114>>, "plain"), Tok("new", <<110, 101, 119, 32>>, "plain"), Tok("in", <<32, 105, 110, 32>>, "plain"),
  Tok("0x", <<48, 120>>, "plain"), Tok("1e", <<49, 101>>, "plain"),
  Tok("get", <<103, 101, 116, 32>>, "plain"), Tok("while1", <<119, 104, 105, 108, 101, 40, 49, 41>>, "plain") >>
NCoreTok == 26
(* "*/" outside a comment is the operator * followed by a slash that may open a regular expression literal *)
Openers == {"dq", "sq", "slash", "copen", "cline", "bslash"}
RECURSIVE FirstOpener(_, _)
FirstOpener(ts, i) == IF i > Len(ts) THEN 0 ELSE IF Alphabet[ts[i]].cls \in Openers THEN i ELSE FirstOpener(ts, i + 1)
SrcBytes(ts) == LET RECURSIVE cat(_) cat(i) == IF i > Len(ts) THEN <<>> ELSE Alphabet[ts[i]].b \o cat(i + 1) IN cat(1)

ProgramAPIs == {"Run", "Eval", "Compile", "CompileRun", "evalfn", "Function"}
SrcExpect(api, ts) ==
    LET fo == FirstOpener(ts, 1)
        lim == IF fo = 0 THEN Len(ts) ELSE fo - 1
        illegalBefore == \E i \in 1..lim : Alphabet[ts[i]].cls = "illegal"
        cls(i) == Alphabet[ts[i]].cls
        unterminated ==
            /\ fo > 0
            /\ \/ cls(fo) = "dq" /\ ~\E j \in (fo + 1)..Len(ts) : cls(j) = "dq"
               \/ cls(fo) = "sq" /\ ~\E j \in (fo + 1)..Len(ts) : cls(j) = "sq"
               \/ cls(fo) = "copen" /\ ~\E j \in (fo + 1)..Len(ts) : Alphabet[ts[j]].n \in {"cclose", "copen", "slash", "cline"}
        \* Otto.Call(source, nil) parses source + "()" and indexes statement 0: a line comment hides the "()"
        hidesCall == \E i \in 1..Len(ts) : cls(i) \in {"cline", "slash", "copen"}
    IN  CASE api = "Call" /\ D("D02_ottocall_empty_program_index_panics") /\ hidesCall -> Widen(AnyOrDiverge, {"runtime.boundsError"}, FALSE, {})
          \* new Function(body) wraps the text in "(function(){" ... "})" and asserts that the result is a function
          \* literal: a body that closes the wrapper itself ("} in {") is some other expression
          [] api = "Function" /\ D("D02_function_ctor_body_not_functionbody_panics") /\ (\E i \in 1..Len(ts) : Alphabet[ts[i]].n = "rb") /\ ~(illegalBefore \/ unterminated)
                -> Widen(AnyOrDiverge, {"*runtime.TypeAssertionError"}, FALSE, {})
          [] api \in ProgramAPIs /\ (illegalBefore \/ unterminated) -> OnlyError("SyntaxError")
          [] api = "Compile" -> ValueOr({"SyntaxError", "ReferenceError"})        \* 16: early errors only; nothing is evaluated
          [] api = "JSON" /\ illegalBefore /\ fo = 0 -> OnlyError("SyntaxError")  \* 15.12.1: no such character in JSONText
          [] api \in {"Get", "Set"} -> AnyReply
          [] OTHER -> AnyOrDiverge

(* an arbitrary text (harness-generated mutations of real programs) at a program API: totality *)
TextExpect(api) == IF api = "Compile" THEN ValueOr({"SyntaxError", "ReferenceError"}) ELSE AnyOrDiverge

(* deep nesting: `open` repeated n times, a middle, `close` repeated n times.   *)
(* The reply is a value or an error (the Go stack must survive).                *)
Nest(n, o, m, c) == [n |-> n, o |-> o, m |-> m, c |-> c]
Nestings == <<
  Nest("paren", <<40>>, <<49>>, <<41>>), Nest("bracket", <<91>>, <<49>>, <<93>>), Nest("brace", <<123>>, <<>>, <<125>>),
  Nest("fn", <<40, 102, 117, 110, 99, 116, 105, 111, 110, 40, 41, 123>>, <<>>, <<125, 41>>),
  Nest("objlit", <<40, 123, 97, 58>>, <<49>>, <<125, 41>>), Nest("not", <<33>>, <<49>>, <<>>), Nest("neg", <<45, 32>>, <<49>>, <<>>),
  Nest("member", <<97, 46>>, <<97>>, <<>>), Nest("callchain", <<97, 40>>, <<>>, <<41>>), Nest("plus", <<49, 43>>, <<49>>, <<>>),
  Nest("cond", <<49, 63>>, <<49>>, <<58, 49>>), Nest("if", <<105, 102, 40, 49, 41>>, <<59>>, <<>>),
  Nest("openparen", <<40>>, <<>>, <<>>), Nest("openbracket", <<91>>, <<>>, <<>>), Nest("openbrace", <<123>>, <<>>, <<>>),
  Nest("closeparen", <<>>, <<>>, <<41>>), Nest("regexgroup", <<47, 40>>, <<97>>, <<41, 47>>), Nest("strplus", <<34, 97, 34, 43>>, <<34, 34>>, <<>>),
  Nest("comma", <<49, 44>>, <<49>>, <<>>), Nest("typeof", <<116, 121, 112, 101, 111, 102, 32>>, <<49>>, <<>>),
  Nest("newnew", <<110, 101, 119, 32>>, <<97>>, <<>>), Nest("block_label", <<97, 58>>, <<59>>, <<>>),
  Nest("jsonarr", <<91>>, <<>>, <<93>>), Nest("jsonobj", <<123, 34, 97, 34, 58>>, <<49>>, <<125>>) >>
(* replies: value or error; a text of this size is parsed and evaluated in bounded time, so no divergence *)
(* deviation: n nested labels a:a:a:...; are reported as n(n-1)/2 "label already exists" errors, each appended to a list that *)
(* is re-sorted: minutes for a few thousand labels                                                                          *)
NestExpect(api, nest, rep) ==
    IF D("D02_duplicate_label_errors_superquadratic") /\ nest = "block_label" /\ rep >= 1000 /\ api \in {"Run", "Compile", "evalfn", "Function"}
    THEN Widen(AnyOrDiverge, {}, TRUE, {}) ELSE AnyReply

-----------------------------------------------------------------------------
(* Escape sequences in string literals (7.8.4) and identifiers (7.6).  A text  *)
(* is quote + items + terminator; the items are escape sequences, complete or  *)
(* truncated.  7.8.4: \u needs exactly four HexDigits, \x exactly two; a     *)
(* backslash before the closing quote escapes it (the literal is then          *)
(* unterminated); \ LineTerminator is a LineContinuation; \0 is legal.        *)
(* An unpaired surrogate escape is a legal code unit.                          *)
EscItem(n, b) == [n |-> n, b |-> b]
EscItems == <<
  EscItem("u0", <<92, 117>>), EscItem("u1", <<92, 117, 49>>), EscItem("u2", <<92, 117, 49, 50>>), EscItem("u3", <<92, 117, 49, 50, 51>>),
  EscItem("uHi", <<92, 117, 68, 56, 51, 68>>), EscItem("uLo", <<92, 117, 68, 69, 48, 48>>), EscItem("uLo2", <<92, 117, 100, 99, 48, 48>>),
  EscItem("uBmp", <<92, 117, 48, 48, 52, 49>>), EscItem("uFFFF", <<92, 117, 70, 70, 70, 70>>),
  EscItem("x0", <<92, 120>>), EscItem("x1", <<92, 120, 52>>), EscItem("x2", <<92, 120, 52, 49>>),
  EscItem("bs", <<92>>), EscItem("z", <<92, 48>>), EscItem("n", <<92, 110>>), EscItem("q", <<92, 34>>), EscItem("lc", <<92, 10>>),
  EscItem("g", <<103>>), EscItem("uHiRaw", <<92, 117, 68, 56, 48, 48>>) >>
EscTerms == <<"closed", "eof", "tail">>
EscContexts == <<"dq", "sq", "ident", "regexp">>
IsHexByte(c) == (c >= 48 /\ c <= 57) \/ (c >= 65 /\ c <= 70) \/ (c >= 97 /\ c <= 102)
RECURSIVE StrScan(_, _, _)
StrScan(bs, i, q) ==          \* bs: the text after the opening quote.  "ok": a well-formed literal, then nothing or ";1";
                              \* "bad": a malformed or unterminated literal; "unk": a well-formed literal followed by other text
    IF i > Len(bs) THEN "bad"
    ELSE LET c == bs[i] IN
         IF c = q THEN (IF SubSeq(bs, i + 1, Len(bs)) \in {<<>>, <<59, 49>>} THEN "ok" ELSE "unk")
         ELSE IF c = 10 THEN "bad"
         ELSE IF c # 92 THEN StrScan(bs, i + 1, q)
         ELSE IF i + 1 > Len(bs) THEN "bad"
         ELSE LET n == bs[i + 1] IN
              IF n = 117 THEN (IF i + 5 <= Len(bs) /\ \A k \in (i + 2)..(i + 5) : IsHexByte(bs[k]) THEN StrScan(bs, i + 6, q) ELSE "bad")
              ELSE IF n = 120 THEN (IF i + 3 <= Len(bs) /\ \A k \in (i + 2)..(i + 3) : IsHexByte(bs[k]) THEN StrScan(bs, i + 4, q) ELSE "bad")
              ELSE StrScan(bs, i + 2, q)
EscBody(items) == LET RECURSIVE cat(_) cat(i) == IF i > Len(items) THEN <<>> ELSE EscItems[items[i]].b \o cat(i + 1) IN cat(1)
EscText(ctx, items, term) ==
    LET body == EscBody(items)
        q == IF ctx = "sq" THEN <<39>> ELSE <<34>>
        close == CASE term = "closed" -> q [] term = "eof" -> <<>> [] term = "tail" -> q \o <<59, 49>>
    IN  CASE ctx \in {"dq", "sq"} -> q \o body \o close
          [] ctx = "ident" -> <<118, 97, 114, 32, 103>> \o body \o <<32, 61, 32, 49, 59, 32, 55>>       \* var g<items> = 1; 7
          [] ctx = "regexp" -> <<47, 103>> \o body \o <<47, 46, 116, 101, 115, 116, 40, 49, 41>>         \* /g<items>/.test(1)
EscOK(ctx, items, term) ==
    CASE ctx \in {"dq", "sq"} ->
           LET q == IF ctx = "sq" THEN 39 ELSE 34
               close == CASE term = "closed" -> <<q>> [] term = "eof" -> <<>> [] term = "tail" -> <<q, 59, 49>>
           IN  StrScan(EscBody(items) \o close, 1, q)
      \* 7.6: only \uXXXX denoting an IdentifierPart may appear in an identifier
      [] ctx = "ident" -> (IF \A i \in 1..Len(items) : EscItems[items[i]].n \in {"uBmp", "g"} THEN "ok" ELSE "bad")
      [] OTHER -> "unk"
EscExpect(api, ctx, items, term) ==
    CASE ctx = "regexp" \/ api \in {"JSON", "RegExp"} -> AnyReply
      [] EscOK(ctx, items, term) = "ok" -> OnlyValue
      [] EscOK(ctx, items, term) = "bad" -> OnlyError("SyntaxError")
      [] OTHER -> AnyReply

-----------------------------------------------------------------------------
(* Histories of array-shape operations on one array a = [1,2,3,4] (15.4.5.1,  *)
(* 15.4.4, 15.2.3.6-9 and the Go accessors).  What each step returns belongs  *)
(* to C08; here every step must RETURN - a value or an error - whatever the   *)
(* steps before it did, and the runtime must be usable afterwards.  The reply *)
(* of a history is "value" when all steps returned.                           *)
HistOps == <<"defNC1", "defNC3", "defNW1", "defAcc0", "seal", "freeze", "preventExt", "lenNW",
             "len0", "len2", "len10", "lenDef0", "lenBad", "lenStr",
             "push", "pop", "shift", "unshift", "splice1", "spliceIns", "reverse", "sort", "set1", "set5", "del1", "concat", "slice", "join",
             "goExport", "goString", "goJSON", "goSetLen", "goSet7", "goKeys", "jsonStringify", "forIn">>
HistExpect(ops) == OnlyValue

-----------------------------------------------------------------------------
(* Uncaught throw (12.13) of a value of every kind through every entry point: *)
(* the API hands back an error (never a value, never a Go panic); entries     *)
(* whose signature has no error result return.                                *)
ThrowVals == <<"Object.prototype", "Function.prototype", "Array.prototype", "String.prototype", "Boolean.prototype",
               "Number.prototype", "Date.prototype", "RegExp.prototype", "Error.prototype", "EvalError.prototype",
               "RangeError.prototype", "ReferenceError.prototype", "SyntaxError.prototype", "TypeError.prototype",
               "URIError.prototype", "Object", "Function", "Array", "String", "Boolean", "Number", "Date", "RegExp", "Error",
               "TypeError", "RangeError", "Math", "JSON", "this", "console", "eval", "parseInt",
               "new TypeError(1)", "Object.create(Error.prototype)", "Object.create(TypeError.prototype)", "new Error()", "selfThrower">>
ThrowEntries == <<"Run", "Eval", "CompileRun", "evalfn", "Function", "ValueCall", "OttoCall", "OttoCallThis", "ObjectCall", "ObjectGet",
                  "ObjectSet", "forEach", "sort", "replace", "toStringConv", "valueOfConv", "finally", "rethrow", "ValueString",
                  "getterInJSON", "ctor", "nested">>
(* deviation: the API boundary converts a thrown non-error value to text; when that conversion throws the same     *)
(* value again (toString: function(){ throw o }) the conversion of the nested exception recurses without bound     *)
SelfThrow(entry, val) ==
    val = "selfThrower" \/ (val = "this" /\ entry \in {"ObjectCall", "ObjectGet", "ObjectSet", "toStringConv", "valueOfConv", "ValueString"})
ThrowExpect(entry, val) ==
    IF D("D02_catchpanic_rethrowing_tostring_unbounded_recursion") /\ SelfThrow(entry, val) THEN Exp(FALSE, {}, {}, FALSE, TRUE, {})
    ELSE IF entry = "ValueString" THEN OnlyValue          \* Value.String() has no error result: the empty string
    ELSE Exp(FALSE, {"*"}, {}, FALSE, FALSE, {})      \* an error, whatever its text

-----------------------------------------------------------------------------
(* Otto.Copy() of a runtime in any reachable state returns a runtime that     *)
(* evaluates code (the equivalence of the copy belongs to C17).               *)
CopySetups == <<"fresh", "argumentsParam", "argumentsObject", "deleteEval", "evalAssigned", "evalVar", "boundFunction", "accessors",
                "builtinObjects", "bridged", "frozen", "cyclic", "deleteBuiltins", "builtinsAssigned", "closure", "withScope",
                "thrownStored", "stackLimit", "regexpLastIndex", "dateNaN", "errorObjects", "nullProto", "getterOnGlobal",
                "functionCtor", "deepProto", "evalAccessor", "deleteObjectProtoMembers", "arrayHoles", "catchClosure", "namedFunctionExpr">>
CopyExpect(setup) ==
    CASE D("D02_copy_arguments_parameter_nil_panics") /\ setup = "argumentsParam" -> Widen(OnlyValue, {RtErr}, FALSE, {})
      [] D("D02_copy_eval_binding_type_assertion") /\ setup \in {"deleteEval", "evalAssigned", "evalAccessor"}
            -> Widen(OnlyValue, {RtErr, "*runtime.TypeAssertionError"}, FALSE, {})
      [] OTHER -> OnlyValue
-----------------------------------------------------------------------------
(* Go-side accessors on nested arrays.  Value.Export chooses a Go slice type   *)
(* from its elements; sibling sub-arrays may export to different Go types of   *)
(* the same shape.  A value is built from a shape and two leaf kinds (the      *)
(* leaves of the first and of the second sibling); which Go value comes out is *)
(* C15's business - here every accessor returns.                               *)
Leaves == <<"int", "float", "string", "bool", "null", "undefined", "object", "emptyArr">>
NestShapes == <<"d2", "d3", "d4", "d3d2", "d2pair", "d2x3", "d3x3", "hole", "innerHole", "objOuter", "objInner", "objLeafArr", "flat">>
ExpoAccessors == Accessors \o <<"GoFuncAny", "GoFuncSlice", "GoFuncNested">>
ExpoExpect(acc, shape, x, y) ==
    CASE acc \in {"MarshalJSON", "Object.MarshalJSON", "Object.Set", "GoFuncAny", "GoFuncSlice", "GoFuncNested"} -> AnyReply
      [] OTHER -> OnlyValue      \* no getter, no scripted conversion: nothing in these values can throw (9.1, 15.4.4.2, 15.4.4.5)

-----------------------------------------------------------------------------
(* [[DefineOwnProperty]] with PARTIAL property descriptors (8.10, 8.12.9) on   *)
(* every exotic kind of object (10.6 arguments, 15.4.5.1 Array, 15.5.5.2       *)
(* String, 15.3.5 Function, 15.10.7 RegExp, bound functions, Error, Date,      *)
(* bridged Go values) through Object.defineProperty / defineProperties.        *)
(* A descriptor is [w, e, c : "absent" | "true" | "false", v : "absent" |       *)
(* "present", g : "absent" | "fn" | "undef", s : "absent" | "fn"].  8.10.5      *)
(* ToPropertyDescriptor step 9 and 8.12.9 (Reject) can only throw TypeError:   *)
(* the reply is a value or a TypeError; the probes that follow (read the       *)
(* descriptor back, get, put, delete) must return.                             *)
DefTargets == <<"argsMapped0", "argsMapped1", "argsUnmapped2", "argsLength", "argsCallee", "argsDeleted0", "argsNoFormals0",
                "arrayIndex1", "arrayLength", "arrayNew9", "strObjIndex0", "strObjLength", "strObjNew5",
                "fnLength", "fnPrototype", "fnName", "fnCaller", "boundLength", "regexpLastIndex", "regexpSource",
                "errMessage", "errNew", "dateNew", "objExisting", "objNew", "frozenExisting", "sealedExisting", "nonExtNew",
                "accessorExisting", "nonConfigurableExisting", "globalUndefined", "mathPI",
                "goMapSIKey", "goMapISKey", "goSliceIndex", "goSliceLength", "goStructField", "goFuncLength">>
(* the targets on which the quick tier also runs the data <-> accessor conversion routes (thorough: all) *)
DefConvTargets == {"objExisting", "objNew", "arrayIndex1", "argsMapped0", "strObjNew5", "fnPrototype", "regexpLastIndex", "errMessage",
                   "accessorExisting", "nonConfigurableExisting", "sealedExisting", "goMapSIKey"}
DefHost(t) == t \in {"goMapSIKey", "goMapISKey", "goSliceIndex", "goSliceLength", "goStructField", "goFuncLength"}
Tri == <<"absent", "true", "false">>
Descs == {[w |-> w, e |-> e, c |-> c, v |-> v, g |-> g, s |-> s] :
            w \in {"absent", "true", "false"}, e \in {"absent", "true", "false"}, c \in {"absent", "true", "false"},
            v \in {"absent", "present"}, g \in {"absent", "fn", "undef"}, s \in {"absent", "fn"}}
(* "afterData" / "afterAccessor" / "afterAccessorUndef": the name is first made a configurable data property, an accessor *)
(* property with a getter, an accessor property whose get and set are undefined - then the descriptor is applied         *)
(* (data -> accessor and accessor -> data conversions, 8.12.9 step 9)                                                    *)
DefRoutes == <<"defineProperty", "defineProperties", "twice", "afterData", "afterAccessor", "afterAccessorUndef">>
DefExpect(route, target, d) ==
    LET accessor == d.g # "absent" \/ d.s # "absent"
        data == d.v # "absent" \/ d.w # "absent"
    IN  CASE
          \* [[DefineOwnProperty]] of a bridged map accepts only mode 0o111 data descriptors and then asserts a value that
          \* a descriptor {writable: true, enumerable: true, configurable: true} does not carry
             D("D02_gomap_define_without_value_type_assertion") /\ target \in {"goMapSIKey", "goMapISKey"}
             /\ d.w = "true" /\ d.e = "true" /\ d.c = "true" /\ d.v = "absent" /\ ~accessor
               -> Widen(AnyReply, {"*runtime.TypeAssertionError"}, FALSE, {})
          [] DefHost(target) -> AnyReply
          [] accessor /\ data -> OnlyError("TypeError")                 \* 8.10.5 step 9
          [] OTHER -> ValueOr({"TypeError"})
-----------------------------------------------------------------------------
(* Writes to bridged Go values (host objects, 8.6.2): [[Put]], [[Delete]],      *)
(* [[DefineOwnProperty]] and Object.Set from Go with a value of every kind.     *)
(* What the write means is C16's business; here it returns a value or an error. *)
BwTargets == <<"structInt", "structString", "structSlice", "structMap", "structUnknown", "structMethod",
               "mapSIKey", "mapSINew", "mapISKey", "mapISBad", "mapSPKey", "mapSPNew",
               "sliceIndex0", "sliceIndex9", "sliceLength", "sliceNeg", "arrayIndex0", "arrayIndex9", "arrayLength",
               "sliceNamed", "arrayNamed", "nestedSliceLength", "funcProp">>
BwRoutes == <<"put", "goSet", "defineValue", "delete", "putLengthBig">>
(* resource exclusion: a bridged slice really grows to the requested length; 2^32 - 1 elements are tens of gigabytes *)
BwHeavy(route, target, val) == target \in {"sliceLength", "nestedSliceLength"} /\ val = "u32max" /\ route # "putLengthBig"
BwExpect(route, target, val) ==
    LET e1 == \* Value.toReflectValue ends in panic(fmt.Errorf("invalid conversion ...")) for a value that has no conversion to a pointer type
              IF D("D02_toreflectvalue_invalid_conversion_panics") /\ target \in {"mapSPKey", "mapSPNew"} THEN Widen(AnyReply, {GoErr}, FALSE, {}) ELSE AnyReply
        e2 == \* goSliceObject.setLength: negative -> reflect panics; beyond what can be allocated -> runtime.plainError
              IF D("D02_goslice_setlength_out_of_range_panics") /\ target \in {"sliceLength", "nestedSliceLength"}
              THEN Widen(e1, {"string", "runtime.plainError", "*reflect.ValueError"}, FALSE, {}) ELSE e1
        e3 == \* goSliceDelete / goArrayDelete hand a name that is not an index to obj.delete, which dispatches to themselves again
              IF D("D02_goslice_delete_named_property_unbounded_recursion") /\ target \in {"sliceNeg", "sliceNamed", "arrayNamed"} /\ route = "delete"
              THEN Exp(FALSE, {}, {}, FALSE, TRUE, {}) ELSE e2
        e4 == \* a String value kept as UTF-16 code units is handed to reflect as []uint16 where a Go string is expected
              IF D("D02_utf16_string_to_go_string_reflect_panics") /\ target = "structString" /\ val = "loneSurr" /\ route # "putLengthBig"
              THEN Widen(e3, {"string", "*reflect.ValueError"}, FALSE, {}) ELSE e3
    IN  e4
=============================================================================
