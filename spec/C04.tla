-------------------------------- MODULE C04 ---------------------------------
(* Generator for property C04 (parsing is total; junk is rejected; accepted  *)
(* trees are well formed), direction specification -> code.                  *)
(*   family "mut":   every single-token deletion, adjacent swap, insertion   *)
(*                   and replacement (token alphabet Alpha) of a pool of     *)
(*                   seed token sequences (the statement trees and token     *)
(*                   sequences of C03.tla plus the early-error seeds below)  *)
(*   family "early": programs around the parse-time errors of clauses 12/16  *)
(* Every line carries the source text and Grammar!Classify of the token      *)
(* sequence: accept (with the tree) / reject / skip (the text would be       *)
(* tokenised differently, or is a common extension ES5 does not decide).     *)
(* The well-formedness of accepted trees is judged by spec/C04Judge.tla.     *)
EXTENDS C03

Alpha == <<
    TP("{"), TP("}"), TP("("), TP(")"), TP("["), TP("]"), TP("."), TP(";"), TP(","), TP("<"), TP(">"), TP("<="), TP("=="), TP("==="), TP("!="),
    TP("+"), TP("-"), TP("*"), TP("%"), TP("/"), TP("++"), TP("--"), TP("<<"), TP(">>>"), TP("&"), TP("|"), TP("^"), TP("!"), TP("~"), TP("&&"), TP("||"),
    TP("?"), TP(":"), TP("="), TP("+="), TP("/="), TP(">>>="),
    TK("break"), TK("case"), TK("catch"), TK("continue"), TK("debugger"), TK("default"), TK("delete"), TK("do"), TK("else"), TK("finally"),
    TK("for"), TK("function"), TK("if"), TK("in"), TK("instanceof"), TK("new"), TK("return"), TK("switch"), TK("this"), TK("throw"), TK("try"),
    TK("typeof"), TK("var"), TK("void"), TK("while"), TK("with"), TK("class"), TK("enum"), TK("super"), TK("null"), TK("true"),
    TI("a"), TI("L"), TI("get"), TI("set"), TI("let"), TNum(<<49>>), TNum(<<48, 120, 49>>), TStr(<<34, 115, 34>>), TRe(<<120>>, <<103>>)
  >>

(* seeds around the early errors (12.7-12.9, 12.12, 12.14, 11.1.5, 11.13.1, 7.6.1, 7.8.5) *)
FnE(T) == <<TP("("), TK("function"), TP("("), TP(")"), TP("{")>> \o T \o <<TP("}"), TP(")"), TP(";")>>
WhileW(T) == <<TK("while"), TP("("), TI("a"), TP(")"), TP("{")>> \o T \o <<TP("}")>>
EarlyPool == <<
    <<TK("return"), TP(";")>>, <<TK("return"), TI("a"), TP(";")>>, <<TP("{"), TK("return"), TP(";"), TP("}")>>, FnE(<<TK("return"), TP(";")>>),
    <<TK("if"), TP("("), TI("a"), TP(")"), TK("return"), TP(";")>>, <<TK("try"), TP("{"), TK("return"), TP(";"), TP("}"), TK("finally"), TP("{"), TP("}")>>,
    <<TK("break"), TP(";")>>, <<TK("continue"), TP(";")>>, <<TP("{"), TK("break"), TP(";"), TP("}")>>, <<TK("if"), TP("("), TI("a"), TP(")"), TK("break"), TP(";")>>,
    WhileW(<<TK("break"), TP(";")>>), WhileW(<<TK("continue"), TP(";")>>), WhileW(FnE(<<TK("break"), TP(";")>>)), WhileW(FnE(<<TK("continue"), TP(";")>>)),
    <<TK("switch"), TP("("), TI("a"), TP(")"), TP("{"), TK("case"), TNum(<<49>>), TP(":"), TK("break"), TP(";"), TP("}")>>,
    <<TK("switch"), TP("("), TI("a"), TP(")"), TP("{"), TK("case"), TNum(<<49>>), TP(":"), TK("continue"), TP(";"), TP("}")>>,
    WhileW(<<TK("switch"), TP("("), TI("a"), TP(")"), TP("{"), TK("default"), TP(":"), TK("continue"), TP(";"), TP("}")>>),
    <<TK("switch"), TP("("), TI("a"), TP(")"), TP("{"), TK("default"), TP(":"), TK("default"), TP(":"), TP("}")>>,
    <<TK("break"), TI("L"), TP(";")>>, <<TK("continue"), TI("L"), TP(";")>>, WhileW(<<TK("break"), TI("L"), TP(";")>>), WhileW(<<TK("continue"), TI("L"), TP(";")>>),
    <<TI("L"), TP(":")>> \o WhileW(<<TK("break"), TI("L"), TP(";")>>), <<TI("L"), TP(":")>> \o WhileW(<<TK("continue"), TI("L"), TP(";")>>),
    <<TI("L"), TP(":"), TP("{")>> \o WhileW(<<TK("continue"), TI("L"), TP(";")>>) \o <<TP("}")>>,
    <<TI("L"), TP(":"), TP("{")>> \o WhileW(<<TK("break"), TI("L"), TP(";")>>) \o <<TP("}")>>,
    <<TI("L"), TP(":"), TK("if"), TP("("), TI("a"), TP(")")>> \o WhileW(<<TK("continue"), TI("L"), TP(";")>>),
    <<TI("L"), TP(":"), TI("M"), TP(":")>> \o WhileW(<<TK("continue"), TI("L"), TP(";"), TK("continue"), TI("M"), TP(";")>>),
    <<TI("L"), TP(":"), TP("{"), TK("break"), TI("L"), TP(";"), TP("}")>>, <<TI("L"), TP(":"), TP("{"), TK("continue"), TI("L"), TP(";"), TP("}")>>,
    <<TI("L"), TP(":"), TK("break"), TI("L"), TP(";")>>, <<TI("L"), TP(":"), TK("continue"), TI("L"), TP(";")>>,
    \* a labelled statement between a labelled block and a labelled loop must not make the block's label a loop label
    <<TI("L"), TP(":"), TP("{"), TI("M"), TP(":"), TI("a"), TP(";"), TI("p"), TP(":")>> \o WhileW(<<TK("continue"), TI("L"), TP(";")>>) \o <<TP("}")>>,
    <<TI("L"), TP(":"), TP("{"), TI("M"), TP(":"), TI("a"), TP(";"), TI("p"), TP(":")>> \o WhileW(<<TK("continue"), TI("p"), TP(";")>>) \o <<TP("}")>>,
    <<TI("L"), TP(":"), TP("{"), TI("M"), TP(":"), TP("{"), TP("}"), TI("p"), TP(":"), TI("q"), TP(":")>> \o WhileW(<<TK("continue"), TI("L"), TP(";")>>) \o <<TP("}")>>,
    <<TI("L"), TP(":"), TP("{"), TI("M"), TP(":"), TP("{"), TP("}"), TI("p"), TP(":"), TI("q"), TP(":")>> \o WhileW(<<TK("continue"), TI("p"), TP(";")>>) \o <<TP("}")>>,
    <<TI("L"), TP(":")>> \o WhileW(<<TI("M"), TP(":"), TI("a"), TP(";"), TI("p"), TP(":"), TP("{"), TK("continue"), TI("p"), TP(";"), TP("}")>>),
    <<TI("L"), TP(":"), TI("L"), TP(":"), TP(";")>>, <<TI("L"), TP(":"), TP("{"), TI("L"), TP(":"), TP(";"), TP("}")>>, <<TI("L"), TP(":"), TP(";"), TI("L"), TP(":"), TP(";")>>,
    <<TI("L"), TP(":"), TI("M"), TP(":"), TI("L"), TP(":"), TP(";")>>, <<TI("L"), TP(":")>> \o FnE(<<TI("L"), TP(":"), TP(";")>>),
    <<TI("L"), TP(":")>> \o WhileW(FnE(<<TK("break"), TI("L"), TP(";")>>)), <<TI("L"), TP(":")>> \o WhileW(FnE(<<TK("continue"), TI("L"), TP(";")>>)),
    <<TI("L"), TP(":")>> \o FnE(<<TK("break"), TI("L"), TP(";")>>),
    <<TK("do"), TK("break"), TI("L"), TP(";"), TK("while"), TP("("), TI("a"), TP(")"), TP(";")>>,
    <<TK("try"), TP("{"), TP("}")>>, <<TK("try"), TP("{"), TP("}"), TK("catch"), TP("("), TI("e"), TP(")"), TP("{"), TP("}")>>, <<TK("try"), TP("{"), TP("}"), TK("finally"), TP("{"), TP("}")>>,
    <<TK("try"), TP("{"), TP("}"), TK("catch"), TP("{"), TP("}")>>, <<TK("try"), TP("{"), TP("}"), TK("catch"), TP("("), TP(")"), TP("{"), TP("}")>>,
    <<TK("try"), TP("{"), TP("}"), TK("catch"), TP("("), TI("e"), TP(")"), TI("a"), TP(";")>>, <<TK("try"), TI("a"), TP(";"), TK("finally"), TP("{"), TP("}")>>,
    <<TK("try"), TP("{"), TP("}"), TK("catch"), TP("("), TK("if"), TP(")"), TP("{"), TP("}")>>, <<TK("try"), TP("{"), TP("}"), TK("finally"), TP("{"), TP("}"), TK("catch"), TP("("), TI("e"), TP(")"), TP("{"), TP("}")>>,
    <<TI("a"), TP("="), TNum(<<49>>), TP("="), TNum(<<50>>), TP(";")>>, <<TNum(<<49>>), TP("="), TNum(<<50>>), TP(";")>>, <<TI("a"), TP("++"), TP("="), TNum(<<49>>), TP(";")>>,
    <<TP("++"), TI("a"), TP("++"), TP(";")>>, <<TP("++"), TNum(<<49>>), TP(";")>>, <<TNum(<<49>>), TP("++"), TP(";")>>, <<TI("a"), TP("+"), TI("b"), TP("="), TI("c"), TP(";")>>,
    <<TP("("), TI("a"), TP(")"), TP("="), TNum(<<49>>), TP(";")>>, <<TP("("), TI("a"), TP(","), TI("b"), TP(")"), TP("="), TNum(<<49>>), TP(";")>>, <<TK("this"), TP("="), TNum(<<49>>), TP(";")>>,
    <<TI("a"), TP("("), TP(")"), TP("="), TNum(<<49>>), TP(";")>>, <<TI("a"), TP("("), TP(")"), TP("++"), TP(";")>>, <<TP("--"), TI("a"), TP("("), TP(")"), TP(";")>>,
    <<TK("new"), TI("a"), TP("="), TNum(<<49>>), TP(";")>>, <<TP("-"), TI("a"), TP("="), TNum(<<49>>), TP(";")>>, <<TI("a"), TP("?"), TI("b"), TP(":"), TI("c"), TP("="), TNum(<<49>>), TP(";")>>,
    <<TI("a"), TP("."), TI("b"), TP("="), TNum(<<49>>), TP(";")>>, <<TI("a"), TP("["), TI("b"), TP("]"), TP("+="), TNum(<<49>>), TP(";")>>, <<TStr(<<34, 115, 34>>), TP("="), TNum(<<49>>), TP(";")>>,
    <<TK("for"), TP("("), TNum(<<49>>), TK("in"), TI("a"), TP(")"), TP(";")>>, <<TK("for"), TP("("), TI("a"), TP("+"), TI("b"), TK("in"), TI("c"), TP(")"), TP(";")>>,
    <<TK("for"), TP("("), TI("a"), TP("("), TP(")"), TK("in"), TI("c"), TP(")"), TP(";")>>, <<TK("for"), TP("("), TP("("), TI("a"), TP(")"), TK("in"), TI("c"), TP(")"), TP(";")>>,
    <<TK("for"), TP("("), TK("var"), TI("a"), TP(","), TI("b"), TK("in"), TI("c"), TP(")"), TP(";")>>, <<TK("for"), TP("("), TI("a"), TP("="), TNum(<<49>>), TK("in"), TI("c"), TP(")"), TP(";")>>,
    <<TK("for"), TP("("), TI("a"), TP("<"), TI("b"), TK("in"), TI("c"), TP(";"), TP(";"), TP(")"), TP(";")>>, <<TK("for"), TP("("), TI("a"), TK("in"), TI("b"), TP(";"), TP(";"), TP(")"), TP(";")>>,
    <<TK("for"), TP("("), TI("a"), TK("in"), TI("b"), TK("in"), TI("c"), TP(")"), TP(";")>>, <<TK("for"), TP("("), TK("var"), TI("a"), TP("="), TI("b"), TK("in"), TI("c"), TK("in"), TI("d"), TP(")"), TP(";")>>,
    <<TI("x"), TP("="), TP("{"), TI("a"), TP(":"), TNum(<<49>>), TP(","), TI("get"), TI("a"), TP("("), TP(")"), TP("{"), TP("}"), TP("}"), TP(";")>>,
    <<TI("x"), TP("="), TP("{"), TI("get"), TI("a"), TP("("), TP(")"), TP("{"), TP("}"), TP(","), TI("a"), TP(":"), TNum(<<49>>), TP("}"), TP(";")>>,
    <<TI("x"), TP("="), TP("{"), TI("get"), TI("a"), TP("("), TP(")"), TP("{"), TP("}"), TP(","), TI("get"), TI("a"), TP("("), TP(")"), TP("{"), TP("}"), TP("}"), TP(";")>>,
    <<TI("x"), TP("="), TP("{"), TI("set"), TI("a"), TP("("), TI("v"), TP(")"), TP("{"), TP("}"), TP(","), TI("set"), TStr(<<34, 97, 34>>), TP("("), TI("v"), TP(")"), TP("{"), TP("}"), TP("}"), TP(";")>>,
    <<TI("x"), TP("="), TP("{"), TI("get"), TI("a"), TP("("), TP(")"), TP("{"), TP("}"), TP(","), TI("set"), TI("a"), TP("("), TI("v"), TP(")"), TP("{"), TP("}"), TP("}"), TP(";")>>,
    <<TI("x"), TP("="), TP("{"), TI("a"), TP(":"), TNum(<<49>>), TP(","), TI("a"), TP(":"), TNum(<<50>>), TP("}"), TP(";")>>,
    <<TI("x"), TP("="), TP("{"), TNum(<<49>>), TP(":"), TNum(<<49>>), TP(","), TI("get"), TNum(<<49, 46, 48>>), TP("("), TP(")"), TP("{"), TP("}"), TP("}"), TP(";")>>,
    <<TI("x"), TP("="), TP("{"), TI("get"), TI("a"), TP("("), TI("v"), TP(")"), TP("{"), TP("}"), TP("}"), TP(";")>>, <<TI("x"), TP("="), TP("{"), TI("set"), TI("a"), TP("("), TP(")"), TP("{"), TP("}"), TP("}"), TP(";")>>,
    <<TI("x"), TP("="), TP("{"), TI("set"), TI("a"), TP("("), TI("v"), TP(","), TI("w"), TP(")"), TP("{"), TP("}"), TP("}"), TP(";")>>, <<TI("x"), TP("="), TP("{"), TI("get"), TP("}"), TP(";")>>,
    <<TI("x"), TP("="), TP("{"), TI("get"), TP(":"), TNum(<<49>>), TP(","), TI("set"), TP(":"), TNum(<<50>>), TP("}"), TP(";")>>, <<TI("x"), TP("="), TP("{"), TI("get"), TI("get"), TP("("), TP(")"), TP("{"), TP("}"), TP("}"), TP(";")>>,
    <<TI("x"), TP("="), TP("{"), TI("a"), TP(":"), TNum(<<49>>), TI("b"), TP(":"), TNum(<<50>>), TP("}"), TP(";")>>, <<TI("x"), TP("="), TP("{"), TP(","), TP("}"), TP(";")>>, <<TI("x"), TP("="), TP("{"), TI("a"), TP(":"), TNum(<<49>>), TP(","), TP("}"), TP(";")>>,
    <<TI("x"), TP("="), TP("{"), TI("a"), TP(":"), TNum(<<49>>), TP(","), TP(","), TP("}"), TP(";")>>, <<TI("x"), TP("="), TP("{"), TI("a"), TP("}"), TP(";")>>, <<TI("x"), TP("="), TP("{"), TP("+"), TP(":"), TNum(<<49>>), TP("}"), TP(";")>>,
    <<TI("x"), TP("="), TRe(<<120>>, <<103, 103>>), TP(";")>>, <<TI("x"), TP("="), TRe(<<120>>, <<122>>), TP(";")>>, <<TI("x"), TP("="), TRe(<<120>>, <<103, 105, 109>>), TP(";")>>,
    <<TI("x"), TP("="), TRe(<<120>>, <<109, 105, 103>>), TP(";")>>, <<TI("x"), TP("="), TRe(<<120>>, <<103, 105, 109, 103>>), TP(";")>>,
    <<TK("var"), TK("class"), TP(";")>>, <<TK("class"), TP("="), TNum(<<49>>), TP(";")>>, <<TK("function"), TK("enum"), TP("("), TP(")"), TP("{"), TP("}")>>, <<TK("function"), TI("f"), TP("("), TK("super"), TP(")"), TP("{"), TP("}")>>,
    <<TK("var"), TK("if"), TP(";")>>, <<TK("var"), TI("let"), TP(";")>>, <<TI("yield"), TP("="), TNum(<<49>>), TP(";")>>, <<TK("var"), TK("null"), TP(";")>>, <<TK("var"), TK("true"), TP("="), TNum(<<49>>), TP(";")>>,
    <<TK("var"), TK("this"), TP(";")>>, <<TI("a"), TP("."), TK("class"), TP(";")>>, <<TI("x"), TP("="), TP("{"), TK("class"), TP(":"), TNum(<<49>>), TP("}"), TP(";")>>, <<TK("export"), TI("a"), TP(";")>>,
    <<TK("import"), TI("a"), TP(";")>>, <<TK("const"), TI("a"), TP("="), TNum(<<49>>), TP(";")>>, <<TI("L"), TP(":"), TK("class"), TP(";")>>, <<TK("class"), TP(":"), TP(";")>>, <<TK("try"), TP("{"), TP("}"), TK("catch"), TP("("), TK("enum"), TP(")"), TP("{"), TP("}")>>,
    <<TK("break"), TK("class"), TP(";")>>, <<TI("eval"), TP("="), TNum(<<49>>), TP(";")>>, <<TK("var"), TI("arguments"), TP(";")>>, <<TK("function"), TI("f"), TP("("), TI("a"), TP(","), TI("a"), TP(")"), TP("{"), TP("}")>>,
    <<TK("with"), TP("("), TI("a"), TP(")"), TP(";")>>, <<TK("delete"), TI("a"), TP(";")>>, <<TI("a"), TP("("), TI("b"), TP(","), TP(")"), TP(";")>>, <<TI("a"), TP("("), TP(","), TP(")"), TP(";")>>, <<TK("new"), TI("a"), TP("("), TI("b"), TP(","), TP(")"), TP(";")>>,
    <<TK("function"), TI("f"), TP("("), TI("a"), TP(","), TP(")"), TP("{"), TP("}")>>, <<TK("function"), TI("f"), TP("("), TP(","), TP(")"), TP("{"), TP("}")>>, <<TK("function"), TP("("), TP(")"), TP("{"), TP("}")>>,
    <<TK("function"), TI("f"), TP("("), TP(")"), TP("{")>>, <<TK("function"), TI("f"), TP("("), TP(")"), TP(";")>>, <<TK("if"), TP("("), TI("a"), TP(")"), TK("function"), TI("f"), TP("("), TP(")"), TP("{"), TP("}")>>,
    <<TI("L"), TP(":"), TK("function"), TI("f"), TP("("), TP(")"), TP("{"), TP("}")>>, <<TP("{"), TK("function"), TI("f"), TP("("), TP(")"), TP("{"), TP("}"), TP("}")>>,
    <<TP("("), TI("a"), TP(")"), TP(":"), TI("b"), TP(";")>>, <<TP("("), TP("("), TI("a"), TP(")"), TP(")"), TP(":"), TP(";")>>, <<TI("a"), TP("&"), TP("^="), TI("b"), TP(";")>>
  >>

-----------------------------------------------------------------------------
Seeds == [j \in 1..Len(StmtPool) |-> S!ToksProgram(StmtPool[j], 0)] \o SeqPool \o EarlyPool
NSeeds == Len(Seeds)
NA == Len(Alpha)

Mutate(T, m) ==
    CASE m.k = "del" -> SubSeq(T, 1, m.j - 1) \o SubSeq(T, m.j + 1, Len(T))
      [] m.k = "swap" -> SubSeq(T, 1, m.j - 1) \o <<T[m.j + 1], T[m.j]>> \o SubSeq(T, m.j + 2, Len(T))
      [] m.k = "ins" -> SubSeq(T, 1, m.j - 1) \o <<Alpha[m.a]>> \o SubSeq(T, m.j, Len(T))
      [] m.k = "rep" -> SubSeq(T, 1, m.j - 1) \o <<Alpha[m.a]>> \o SubSeq(T, m.j + 1, Len(T))
      [] m.k = "none" -> T
MutsOf(T) ==
    {[k |-> "none", j |-> 0, a |-> 0]}
    \cup {[k |-> "del", j |-> j, a |-> 0] : j \in 1..Len(T)}
    \cup {[k |-> "swap", j |-> j, a |-> 0] : j \in 1..(Len(T) - 1)}
BigMutsOf(T) ==
    {[k |-> "ins", j |-> j, a |-> a] : j \in 1..(Len(T) + 1), a \in 1..NA}
    \cup {[k |-> "rep", j |-> j, a |-> a] : j \in 1..Len(T), a \in 1..NA}

(* the rendering of a mutant: spaces, or (one mutant in four) a line terminator in front of the mutated position *)
MutSeps(T, m) ==
    LET n == Len(T)
    IN  IF m.j >= 2 /\ m.j <= n /\ (m.j + m.a + Salt) % 4 = 0 THEN NLAt(n, m.j) ELSE AllSep(n, "sp")

-----------------------------------------------------------------------------
(* family "after" (12.7, 12.8, 12.9, 12.12): the context a construct opens   *)
(* for break / continue / return / labels ends with the construct.  For each *)
(* construct that opens one, an (il)legal jump is placed after the construct *)
(* has closed: in the same scope, inside blocks / if / try / labelled block, *)
(* in a function declared after it, inside a later loop (legal), before it,  *)
(* after two of them, and all of that inside a function body.                *)
PAR(e) == <<TP("(")>> \o e \o <<TP(")")>>
BRC(b) == <<TP("{")>> \o b \o <<TP("}")>>
CtxPool == <<
    <<TK("switch")>> \o PAR(<<TI("a")>>) \o BRC(<<>>),
    <<TK("switch")>> \o PAR(<<TI("a")>>) \o BRC(<<TK("case"), TNum(<<49>>), TP(":"), TK("break"), TP(";"), TK("default"), TP(":")>>),
    <<TK("while")>> \o PAR(<<TI("a")>>) \o BRC(<<TK("break"), TP(";")>>),
    <<TK("while")>> \o PAR(<<TI("a")>>) \o <<TK("continue"), TP(";")>>,
    <<TK("do"), TP(";"), TK("while")>> \o PAR(<<TI("a")>>) \o <<TP(";")>>,
    <<TK("do")>> \o BRC(<<TK("continue"), TP(";")>>) \o <<TK("while")>> \o PAR(<<TI("a")>>) \o <<TP(";")>>,
    <<TK("for")>> \o PAR(<<TP(";"), TP(";")>>) \o BRC(<<TK("break"), TP(";")>>),
    <<TK("for")>> \o PAR(<<TI("a"), TK("in"), TI("b")>>) \o BRC(<<TK("continue"), TP(";")>>),
    <<TK("for")>> \o PAR(<<TK("var"), TI("a"), TK("in"), TI("b")>>) \o <<TP(";")>>,
    <<TI("L"), TP(":"), TK("while")>> \o PAR(<<TI("a")>>) \o BRC(<<TK("continue"), TI("L"), TP(";")>>),
    <<TI("L"), TP(":")>> \o BRC(<<TK("break"), TI("L"), TP(";")>>),
    <<TI("L"), TP(":"), TK("switch")>> \o PAR(<<TI("a")>>) \o BRC(<<TK("default"), TP(":"), TK("break"), TI("L"), TP(";")>>),
    <<TK("function"), TI("f")>> \o PAR(<<>>) \o BRC(<<TK("return"), TP(";")>>),
    <<TK("function"), TI("f")>> \o PAR(<<>>) \o BRC(<<TK("while")>> \o PAR(<<TI("a")>>) \o <<TK("break"), TP(";")>>),
    PAR(<<TK("function")>> \o PAR(<<>>) \o BRC(<<TK("return"), TI("a"), TP(";")>>)) \o <<TP(";")>>,
    <<TI("x"), TP("="), TK("function")>> \o PAR(<<>>) \o BRC(<<TI("L"), TP(":"), TK("for")>> \o PAR(<<TP(";"), TP(";")>>) \o <<TK("continue"), TI("L"), TP(";")>>) \o <<TP(";")>>,
    <<TK("try")>> \o BRC(<<>>) \o <<TK("finally")>> \o BRC(<<>>),
    <<TK("with")>> \o PAR(<<TI("a")>>) \o BRC(<<>>),
    <<TK("if")>> \o PAR(<<TI("a")>>) \o BRC(<<>>) \o <<TK("else")>> \o BRC(<<>>)
  >>
JumpPool == <<
    <<TK("break"), TP(";")>>, <<TK("continue"), TP(";")>>, <<TK("break"), TI("L"), TP(";")>>, <<TK("continue"), TI("L"), TP(";")>>,
    <<TK("return"), TP(";")>>, <<TK("return"), TI("a"), TP(";")>>, <<TI("L"), TP(":"), TP(";")>>
  >>
FnH(b) == <<TK("function"), TI("h")>> \o PAR(<<>>) \o BRC(b)
Placements == <<"after", "block", "if", "else", "try", "catch", "label", "fn", "fnexpr", "loop", "switch", "before", "twice", "case">>
Place(cx, jp, pl) ==
    CASE pl = "after" -> cx \o jp
      [] pl = "block" -> cx \o BRC(jp)
      [] pl = "if" -> cx \o <<TK("if")>> \o PAR(<<TI("a")>>) \o jp
      [] pl = "else" -> cx \o <<TK("if")>> \o PAR(<<TI("a")>>) \o <<TP(";"), TK("else")>> \o BRC(jp)
      [] pl = "try" -> cx \o <<TK("try")>> \o BRC(jp) \o <<TK("finally")>> \o BRC(<<>>)
      [] pl = "catch" -> cx \o <<TK("try")>> \o BRC(<<>>) \o <<TK("catch")>> \o PAR(<<TI("e")>>) \o BRC(jp)
      [] pl = "label" -> cx \o <<TI("M"), TP(":")>> \o BRC(jp)
      [] pl = "fn" -> cx \o <<TK("function"), TI("g")>> \o PAR(<<>>) \o BRC(jp)
      [] pl = "fnexpr" -> cx \o <<TI("y"), TP("="), TK("function")>> \o PAR(<<>>) \o BRC(jp) \o <<TP(";")>>
      [] pl = "loop" -> cx \o <<TK("while")>> \o PAR(<<TI("b")>>) \o BRC(jp)
      [] pl = "switch" -> cx \o <<TK("switch")>> \o PAR(<<TI("b")>>) \o BRC(<<TK("default"), TP(":")>> \o jp)
      [] pl = "before" -> jp \o cx
      [] pl = "twice" -> cx \o cx \o jp
      [] pl = "case" -> <<TK("switch")>> \o PAR(<<TI("b")>>) \o BRC(<<TK("case"), TNum(<<50>>), TP(":")>> \o cx) \o jp
AfterSeq(ci, ji, pi, inFn) ==
    LET T == Place(CtxPool[ci], JumpPool[ji], Placements[pi]) IN IF inFn THEN FnH(T) ELSE T

(* family "utf8": a source text that is not well-formed UTF-8 is no program  *)
(* (clause 6); the error must be reported AT the first ill-formed byte:      *)
(* line = 1 + the LineTerminatorSequences of 7.3 in front of it (CR LF is    *)
(* one), column = 1 + the bytes between the last of them and the byte.  A    *)
(* source unit 65536 + b stands for the raw byte b.                          *)
RB(b) == 65536 + b
BadSeqs == << <<RB(255)>>, <<RB(128)>>, <<RB(192), 32>>, <<RB(192), RB(128)>>, <<RB(226), RB(130)>>, <<RB(240), RB(159), RB(152)>>,
              <<RB(237), RB(160), RB(128)>>, <<RB(254)>>, <<RB(191), RB(191)>>, <<RB(225)>> >>
A1 == <<118, 97, 114, 32, 97, 32, 61, 32, 49, 59>>                         \* var a = 1;
(* position classes: [pre, post]: text in front of and behind the ill-formed bytes *)
Utf8Ctx == <<
    [n |-> "file-start", pre |-> <<>>, post |-> <<32, 97, 59>>],
    [n |-> "line-start-lf", pre |-> A1 \o <<10>>, post |-> <<10, 98, 59>>],
    [n |-> "line-start-cr", pre |-> A1 \o <<13>>, post |-> <<>>],
    [n |-> "line-start-crlf", pre |-> A1 \o <<13, 10>>, post |-> <<59>>],
    [n |-> "line-start-ls", pre |-> A1 \o <<8232>>, post |-> <<32, 98>>],
    [n |-> "line-start-ps", pre |-> A1 \o <<8233, 10, 10>>, post |-> <<>>],
    [n |-> "after-token", pre |-> A1, post |-> <<>>],
    [n |-> "after-token-space", pre |-> A1 \o <<32, 32>>, post |-> <<32, 98, 59>>],
    [n |-> "third-line", pre |-> <<233, 59, 10>> \o A1 \o <<13, 10, 9, 98, 32, 61>>, post |-> <<59>>],
    [n |-> "in-string", pre |-> <<120, 32, 61, 32, 34, 97, 98>>, post |-> <<99, 34, 59>>],
    [n |-> "in-string-after-continuation", pre |-> <<120, 61, 39, 97, 92, 10, 98>>, post |-> <<39>>],
    [n |-> "in-block-comment", pre |-> <<97, 59, 32, 47, 42, 32, 99>>, post |-> <<32, 42, 47, 32, 98, 59>>],
    [n |-> "in-block-comment-line2", pre |-> <<47, 42, 10, 32, 42, 32>>, post |-> <<10, 42, 47>>],
    [n |-> "in-line-comment", pre |-> <<97, 59, 32, 47, 47, 32>>, post |-> <<10, 98, 59>>],
    [n |-> "in-regexp", pre |-> <<120, 32, 61, 32, 47, 97>>, post |-> <<98, 47, 103, 59>>],
    [n |-> "in-regexp-class", pre |-> <<120, 61, 47, 91, 97>>, post |-> <<93, 47>>],
    [n |-> "in-identifier", pre |-> <<97, 98>>, post |-> <<99, 32, 61, 32, 49, 59>>],
    [n |-> "after-dot", pre |-> <<97, 46>>, post |-> <<98>>],
    [n |-> "in-number", pre |-> <<120, 61, 49, 50>>, post |-> <<51, 59>>],
    [n |-> "after-operator", pre |-> <<97, 32, 43>>, post |-> <<98>>],
    [n |-> "in-object-literal", pre |-> <<120, 61, 123, 97, 58>>, post |-> <<125>>],
    [n |-> "in-function-body", pre |-> <<102, 117, 110, 99, 116, 105, 111, 110, 32, 102, 40, 41, 123, 10, 114, 101, 116, 117, 114, 110, 32>>, post |-> <<59, 125>>],
    [n |-> "after-unterminated-string", pre |-> <<34, 97, 10, 98>>, post |-> <<>>],
    [n |-> "after-error", pre |-> <<41, 41, 32>>, post |-> <<32, 40>>]
  >>
RECURSIVE LineColAt(_, _, _, _)
LineColAt(u, i, line, col) ==      \* position of the byte that follows the (ASCII-on-its-last-line) text u
    IF i > Len(u) THEN [line |-> line, col |-> col]
    ELSE IF u[i] = 13 THEN (IF i < Len(u) /\ u[i + 1] = 10 THEN LineColAt(u, i + 2, line + 1, 1) ELSE LineColAt(u, i + 1, line + 1, 1))
    ELSE IF u[i] \in {10, 8232, 8233} THEN LineColAt(u, i + 1, line + 1, 1)
    ELSE LineColAt(u, i + 1, line, col + (IF u[i] < 128 THEN 1 ELSE IF u[i] < 2048 THEN 2 ELSE 3))
Utf8Line(ci, bi) ==
    LET cx == Utf8Ctx[ci] IN
    [fam |-> "utf8", tag |-> cx.n, src |-> cx.pre \o BadSeqs[bi] \o cx.post, exp |-> [c |-> "reject", prog |-> <<>>], dev |-> <<>>, bug |-> "",
     pos |-> LineColAt(cx.pre, 1, 1, 1)]

-----------------------------------------------------------------------------
(* family "ek" (7.6, 7.6.1): every reserved word, future reserved word and    *)
(* literal word with one character written as a \uXXXX escape (first, middle, *)
(* last) in every position an Identifier or an IdentifierName can stand       *)
EkWords == SetToSeq(S!KeywordNames)
EscUnit(u) == <<92, 117, 48, 48, S!HexDigit(u \div 16), S!HexDigit(u % 16)>>
EscAt(w, p) == LET u == S!TokUnits[w] IN SubSeq(u, 1, p - 1) \o EscUnit(u[p]) \o SubSeq(u, p + 1, Len(u))
EkPos(w, m) == LET n == Len(S!TokUnits[w]) IN IF m = 1 THEN 1 ELSE IF m = 2 THEN (n + 1) \div 2 ELSE n
EkPrograms(E) == <<
    <<TK("var"), E, TP(";")>>, <<TK("var"), TI("a"), TP(","), E, TP("="), TNum(<<49>>), TP(";")>>,
    <<TK("function"), TI("f"), TP("("), E, TP(")"), TP("{"), TP("}")>>, <<TK("function"), E, TP("("), TP(")"), TP("{"), TP("}")>>,
    <<TI("x"), TP("="), TK("function"), E, TP("("), TP(")"), TP("{"), TP("}"), TP(";")>>,
    <<TK("try"), TP("{"), TP("}"), TK("catch"), TP("("), E, TP(")"), TP("{"), TP("}")>>,
    <<E, TP(":"), TP(";")>>, <<E, TP(":"), TK("while"), TP("("), TI("a"), TP(")"), TK("break"), E, TP(";")>>,
    <<TI("L"), TP(":"), TK("while"), TP("("), TI("a"), TP(")"), TK("continue"), E, TP(";")>>,
    <<E, TP(";")>>, <<TI("x"), TP("="), E, TP(";")>>, <<TK("typeof"), E, TP(";")>>, <<E, TP("("), TI("a"), TP(")"), TP(";")>>, <<E, TP("="), TNum(<<49>>), TP(";")>>,
    <<E, TP("("), TI("a"), TP(")"), TI("b"), TP(";")>>, <<TK("for"), TP("("), E, TK("in"), TI("a"), TP(")"), TP(";")>>, <<TK("for"), TP("("), TK("var"), E, TK("in"), TI("a"), TP(")"), TP(";")>>,
    <<TI("x"), TP("="), TK("new"), E, TP(";")>>, <<TI("x"), TP("="), TI("a"), TK("instanceof"), E, TP(";")>>,
    <<TI("a"), TP("."), E, TP(";")>>, <<TI("a"), TP("."), E, TP("="), TI("a"), TP("."), E, TP("("), TP(")"), TP(";")>>,
    <<TI("x"), TP("="), TP("{"), E, TP(":"), TNum(<<49>>), TP("}"), TP(";")>>,
    <<TI("x"), TP("="), TP("{"), TI("get"), E, TP("("), TP(")"), TP("{"), TP("}"), TP(","), TI("set"), E, TP("("), TI("v"), TP(")"), TP("{"), TP("}"), TP("}"), TP(";")>> >>
NEkP == 23

(* family "objdup" (11.1.5, clause 16): 2..4 members of ONE name over          *)
(* {data, get, set} in every order, optionally with members of another name    *)
(* between them, the name spelled as identifier / string / number              *)
KindSeqs == UNION {[1..n -> {"value", "get", "set"}] : n \in 2..4}
KindSeq == SetToSeq(KindSeqs)
Member(kind, key, j) ==
    CASE kind = "value" -> <<key, TP(":"), TNum(<<48 + j>>)>>
      [] kind = "get" -> <<TI("get"), key, TP("("), TP(")"), TP("{"), TP("}")>>
      [] kind = "set" -> <<TI("set"), key, TP("("), TI("v"), TP(")"), TP("{"), TP("}")>>
Spellings == << <<TI("a"), TI("a")>>, <<TStr(<<34, 97, 34>>), TStr(<<39, 97, 39>>)>>, <<TI("a"), TStr(<<34, 97, 34>>)>>, <<TNum(<<49>>), TNum(<<49>>)>>,
                <<TNum(<<49>>), TStr(<<34, 49, 34>>)>>, <<TK("if"), TStr(<<34, 105, 102, 34>>)>>, <<TStr(<<34, 92, 120, 54, 49, 34>>), TI("a")>> >>
ObjDupSeq(ks, sp, inter) ==
    LET n == Len(ks)
        RECURSIVE M(_)
        M(j) == IF j > n THEN <<>>
                ELSE (IF j > 1 THEN <<TP(",")>> ELSE <<>>)
                     \o Member(ks[j], Spellings[sp][1 + (j % 2)], j)
                     \o (IF inter /\ j < n THEN <<TP(",")>> \o Member(IF j % 2 = 0 THEN "get" ELSE "value", TI("b"), j) ELSE <<>>)
                     \o M(j + 1)
    IN  <<TI("x"), TP("="), TP("{")>> \o M(1) \o <<TP("}"), TP(";")>>

(* family "rejunk" (7.8.5, 15.10.1, 15.10.4.1): regular expression bodies made *)
(* of every quantifier / class / group / escape form cut off at every          *)
(* position, at the end of the body, before ")" and before "|", without and    *)
(* with flags: as a closed literal (verdict by RegExpSpec!RxClassify: "syntax" *)
(* = reject; "lax" / "unsupported" are not judged), as a literal that the end  *)
(* of the input cuts off (7.8.5: no RegularExpressionLiteral: reject), and as  *)
(* the argument of the RegExp constructor (run: must / must not throw)         *)
RXS == INSTANCE RegExpSpec WITH Dev <- {}
ReForms == << <<97, 123, 49, 44, 50, 125>>, <<97, 98, 123, 49, 50, 125>>, <<97, 123, 51, 44, 125>>, <<91, 97, 45, 98, 93>>, <<91, 94, 97, 45, 98, 93, 43>>,
              <<40, 97, 41>>, <<40, 63, 58, 97, 41>>, <<40, 63, 61, 97, 41>>, <<40, 63, 33, 97, 41>>, <<92, 99, 65>>, <<92, 120, 52, 49>>, <<92, 117, 48, 48, 52, 49>>,
              <<92, 100, 43, 63>>, <<97, 124, 98>>, <<97, 42, 63>>, <<94, 97, 36>>, <<92, 98, 65>>, <<40, 97, 41, 92, 49>>, <<97, 123, 48, 49, 125>>, <<91, 92, 93, 93>> >>
RePrefixes == UNION {{SubSeq(ReForms[f], 1, n) : n \in 1..Len(ReForms[f])} : f \in 1..Len(ReForms)}
ReWrap(pf, w) ==
    CASE w = 1 -> pf
      [] w = 2 -> <<120, 121>> \o pf
      [] w = 3 -> pf \o <<41>>
      [] w = 4 -> <<40>> \o pf \o <<41>>
      [] w = 5 -> pf \o <<124, 98>>
      [] w = 6 -> <<40, 63, 58, 120>> \o pf
      [] w = 7 -> <<40, 120, 124>> \o pf \o <<41, 42>>
ReJunkBodies == SetToSeq({ReWrap(pf, w) : pf \in RePrefixes, w \in 1..7})
RECURSIVE ReLexAt(_, _, _)
ReLexAt(b, i, ic) ==       \* 7.8.5: "ok" | "openclass" | "openesc" (no closing slash can follow) | "slash" (the body would end earlier)
    IF i > Len(b) THEN (IF ic THEN "openclass" ELSE "ok")
    ELSE IF b[i] = 92 THEN (IF i = Len(b) THEN "openesc" ELSE ReLexAt(b, i + 2, ic))
    ELSE IF b[i] = 91 /\ ~ic THEN ReLexAt(b, i + 1, TRUE)
    ELSE IF b[i] = 93 /\ ic THEN ReLexAt(b, i + 1, FALSE)
    ELSE IF b[i] = 47 /\ ~ic THEN "slash"
    ELSE ReLexAt(b, i + 1, ic)
ReLex(b) == IF b = <<>> \/ b[1] = 42 THEN "slash" ELSE ReLexAt(b, 1, FALSE)
Cls(c) == [c |-> c, prog |-> <<>>]
PatClass(b, f) == LET c == RXS!RxClassify(b, f) IN IF c = "ok" THEN "accept" ELSE IF c = "syntax" THEN "reject" ELSE "skip"
XEQ == <<120, 32, 61, 32>>                \* x =
ReJunkLines(b, f) ==
    LET lx == ReLex(b)
        closed == IF lx = "slash" THEN "skip" ELSE IF lx # "ok" THEN "reject" ELSE PatClass(b, f)
        \* otto: the end of the input closes a literal whose class is open, and the last character is dropped
        b1 == SubSeq(b, 1, Len(b) - 1)
        opendev == IF "DP25_regexp_unterminated_in_class" \in OpenDev /\ lx = "openclass" /\ b[Len(b)] = 91 /\ (b1 = <<>> \/ ReLex(b1) = "ok")
                   THEN (IF b1 = <<>> THEN "accept" ELSE PatClass(b1, <<>>)) ELSE "reject"
        ctor == IF lx \in {"openesc"} THEN "throw" ELSE LET c == RXS!RxClassify(b, f) IN IF c = "ok" THEN "ok" ELSE IF c = "syntax" THEN "throw" ELSE "skip"
    IN  << [fam |-> "rejunk", tag |-> "closed", src |-> XEQ \o <<47>> \o b \o <<47>> \o f \o <<32, 59>>, exp |-> Cls(closed), dev |-> <<>>, bug |-> "", run |-> ""],
           [fam |-> "rejunk", tag |-> "closed-eof", src |-> XEQ \o <<47>> \o b \o <<47>> \o f, exp |-> Cls(closed), dev |-> <<>>, bug |-> "", run |-> ""],
           \* a line terminator behind the literal: an unterminated literal stays an error; otto: inside a class no error
           \* is recorded, the literal becomes the empty pattern and parsing goes on with the next line
           [fam |-> "rejunk", tag |-> "closed-nl", src |-> XEQ \o <<47>> \o b \o <<47>> \o f \o <<10, 59>>, exp |-> Cls(closed),
            dev |-> IF "DP25_regexp_unterminated_in_class" \in OpenDev /\ lx \in {"openclass", "openesc"} /\ ReLexAt(b \o <<47>> \o f, 1, FALSE) = "openclass"
                    THEN <<Cls("accept")>> ELSE <<>>, bug |-> "", run |-> ""],
           [fam |-> "rejunk", tag |-> "cut-off", src |-> XEQ \o <<47>> \o b, exp |-> Cls(IF lx = "slash" THEN "skip" ELSE "reject"),
            dev |-> IF opendev = "reject" THEN <<>> ELSE <<Cls(opendev)>>, bug |-> "", run |-> ""],
           [fam |-> "rejunk", tag |-> "constructor", src |-> <<110, 101, 119, 32, 82, 101, 103, 69, 120, 112, 40>> \o S!StrSrc(b) \o <<44, 32>> \o S!StrSrc(f) \o <<41, 59>>,
            exp |-> Cls("skip"), dev |-> <<>>, bug |-> "", run |-> ctor] >>

-----------------------------------------------------------------------------
(* family "idesc" (7.6): IdentifierNames whose first / later characters are    *)
(* written raw or as \uXXXX escapes, over the code point classes of 7.6:        *)
(*   "start": IdentifierStart = UnicodeLetter (Lu Ll Lt Lm Lo Nl) $ _            *)
(*   "part":  IdentifierPart only = UnicodeCombiningMark (Mn Mc), UnicodeDigit   *)
(*            (Nd), UnicodeConnectorPunctuation (Pc), <ZWNJ>, <ZWJ>              *)
(*   "none":  no identifier character                                           *)
(* An escape contributes its character; the rule for its position applies to    *)
(* that character (7.6: "cannot be used to put a character into an              *)
(* IdentifierName that would otherwise be illegal").                            *)
IdProbes == <<
    [u |-> 97, c |-> "start"], [u |-> 90, c |-> "start"], [u |-> 36, c |-> "start"], [u |-> 95, c |-> "start"],          \* a Z $ _
    [u |-> 233, c |-> "start"], [u |-> 969, c |-> "start"], [u |-> 20013, c |-> "start"], [u |-> 453, c |-> "start"],    \* Ll Ll Lo Lt
    [u |-> 688, c |-> "start"], [u |-> 8544, c |-> "start"],                                                               \* Lm (U+02B0), Nl (U+2160)
    [u |-> 48, c |-> "part"], [u |-> 57, c |-> "part"], [u |-> 1633, c |-> "part"], [u |-> 2406, c |-> "part"],            \* Nd: 0 9 U+0661 U+0966
    [u |-> 768, c |-> "part"], [u |-> 2307, c |-> "part"], [u |-> 8255, c |-> "part"], [u |-> 8204, c |-> "part"], [u |-> 8205, c |-> "part"],  \* Mn Mc Pc ZWNJ ZWJ
    [u |-> 32, c |-> "none"], [u |-> 45, c |-> "none"], [u |-> 46, c |-> "none"], [u |-> 40, c |-> "none"], [u |-> 0, c |-> "none"],
    [u |-> 92, c |-> "none"], [u |-> 160, c |-> "none"], [u |-> 8232, c |-> "none"], [u |-> 55296, c |-> "none"], [u |-> 56320, c |-> "none"],
    [u |-> 183, c |-> "none"], [u |-> 8203, c |-> "none"], [u |-> 65279, c |-> "none"],                                    \* U+00B7 (Po), U+200B (Cf), BOM
    [u |-> 903, c |-> "none"], [u |-> 8472, c |-> "none"], [u |-> 8494, c |-> "none"]                                      \* U+0387 (Po), U+2118 (Sm), U+212E (So)
  >>
(* otto's tables are those of Unicode UAX 31 (ES2015), not of ES5.1 7.6 *)
IdClassOf(pr, Dv) ==
    IF "DP26_uax31_other_id_characters" \in Dv /\ pr.u \in {183, 903} THEN "part"
    ELSE IF "DP26_uax31_other_id_characters" \in Dv /\ pr.u \in {8472, 8494} THEN "start"
    ELSE IF "DP27_zwnj_zwj_not_identifier_part" \in Dv /\ pr.u \in {8204, 8205} THEN "none"
    ELSE pr.c
RawNoneOK == {183, 903, 8472, 8494, 8203}      \* no white space, no punctuator: raw, they are no token at all (reject)
Hex4(u, up) ==
    LET h(x) == IF x < 10 THEN 48 + x ELSE (IF up THEN 55 ELSE 87) + x
    IN  <<92, 117, h(u \div 4096), h((u \div 256) % 16), h((u \div 16) % 16), h(u % 16)>>
(* spelling of the probed character: 1 escape (lower-case hex), 2 escape (upper-case), 3 raw *)
IdChar(u, form) == IF form = 3 THEN <<u>> ELSE Hex4(u, form = 2)
(* shapes: 1 the character alone, 2 first of two, 3 in the middle, 4 last, 5 after another escape, 6 twice *)
IdText4(pr, shape, form) ==
    LET x == IdChar(pr.u, form) IN
    CASE shape = 1 -> x
      [] shape = 2 -> x \o <<98>>
      [] shape = 3 -> <<97>> \o x \o <<98>>
      [] shape = 4 -> <<97>> \o x
      [] shape = 5 -> Hex4(97, FALSE) \o x
      [] shape = 6 -> x \o x
IdValid(pr, shape, Dv) == IF shape \in {1, 2, 6} THEN IdClassOf(pr, Dv) = "start" ELSE IdClassOf(pr, Dv) \in {"start", "part"}
(* a raw character that is no identifier character would be tokenised as something else: only escapes for those;  *)
(* a raw "part" character in first position likewise (1st is a number followed by a name)                         *)
IdFormOK(pr, shape, form) == form # 3 \/ (pr.c = "start") \/ (pr.c = "part" /\ shape \in {3, 4}) \/ (pr.u \in RawNoneOK /\ shape \in {3, 4})
IdTok(pr, shape, form, Dv) ==
    LET txt == IdText4(pr, shape, form)
    IN  IF IdValid(pr, shape, Dv) THEN S!TIs("abc", txt)
        ELSE [t |-> "num", v |-> "", nl |-> FALSE, src |-> txt]        \* no token of clause 7 (an ill-formed numeric literal stands for it)
IdPrograms(E) == <<
    <<TK("var"), E, TP("="), TNum(<<55>>), TP(";")>>, <<TK("function"), TI("f"), TP("("), TI("a"), TP(","), E, TP(")"), TP("{"), TP("}")>>,
    <<TK("function"), E, TP("("), TP(")"), TP("{"), TP("}")>>, <<TK("try"), TP("{"), TP("}"), TK("catch"), TP("("), E, TP(")"), TP("{"), TP("}")>>,
    <<E, TP(":"), TK("while"), TP("("), TI("a"), TP(")"), TK("break"), E, TP(";")>>, <<E, TP("="), TNum(<<51>>), TP(";")>>, <<TI("x"), TP("="), E, TP("+"), E, TP(";")>>,
    <<TK("typeof"), E, TP(";")>>, <<E, TP("("), TP(")"), TP(";")>>, <<TK("for"), TP("("), TK("var"), E, TK("in"), TI("a"), TP(")"), TP(";")>>,
    <<TI("x"), TP("."), E, TP(";")>>, <<TI("x"), TP("."), E, TP("="), TNum(<<49>>), TP(";")>>, <<TI("x"), TP("."), E, TP("."), E, TP("("), TP(")"), TP(";")>>,
    <<TI("x"), TP("="), TP("{"), E, TP(":"), TNum(<<49>>), TP("}"), TP(";")>>,
    <<TI("x"), TP("="), TP("{"), TI("get"), E, TP("("), TP(")"), TP("{"), TP("}"), TP(","), TI("set"), E, TP("("), TI("v"), TP(")"), TP("{"), TP("}"), TP("}"), TP(";")>> >>
NIdP == 15
IdLine(pr, shape, form, pg) ==
    LET Ts == IdPrograms(IdTok(pr, shape, form, {}))[pg]
        Tl == IdPrograms(IdTok(pr, shape, form, OpenDev))[pg]
        es == Out(S!Classify(Ts))
        el == Out(L!Classify(Tl))
    IN  [fam |-> "idesc", tag |-> pr.c, src |-> S!Src(Ts, S!FixSeps(Ts, AllSep(Len(Ts), "sp"))), exp |-> es, dev |-> IF el = es THEN <<>> ELSE <<el>>, bug |-> "", run |-> ""]

-----------------------------------------------------------------------------
(* family "lexctx" (7.2, 7.3, 7.4, 7.8.4, 7.8.5): code point classes x the     *)
(* lexical contexts in which the class of a character decides.                 *)
(*   "lt":    LineTerminator  LF CR LS PS (and the sequence CR LF)             *)
(*   "ws":    WhiteSpace  TAB VT FF SP NBSP BOM, Zs                            *)
(*   "other": SourceCharacters that are neither and start no token            *)
(*   "char":  ordinary characters (only inside literals and comments)          *)
(* Contexts: inside a string literal ("..", '..', after a backslash), inside a *)
(* regular expression literal (body, class, after a backslash in both), in a   *)
(* single-line comment, in a multi-line comment, between two tokens.           *)
(*   7.8.4: a string literal contains no raw LineTerminator; backslash +       *)
(*          LineTerminatorSequence is a LineContinuation; any other character  *)
(*          is a SourceCharacter / NonEscapeCharacter.                          *)
(*   7.8.5: RegularExpressionNonTerminator excludes LineTerminator everywhere  *)
(*          (first character, body, class, after a backslash); what remains is *)
(*          a Pattern of 15.10.1 (RegExpSpec!RxClassify; "lax"/"unsupported"   *)
(*          are not judged).                                                    *)
(*   7.4:   a single-line comment ends in front of the first LineTerminator;   *)
(*          a multi-line comment that contains one counts as a LineTerminator. *)
(*   7.2/7.3: between tokens WhiteSpace is dropped, a LineTerminator is        *)
(*          dropped but recorded (7.9), anything else is no token.             *)
LxProbes == <<
    [u |-> <<10>>, c |-> "lt"], [u |-> <<13>>, c |-> "lt"], [u |-> <<13, 10>>, c |-> "lt"], [u |-> <<8232>>, c |-> "lt"], [u |-> <<8233>>, c |-> "lt"],
    [u |-> <<9>>, c |-> "ws"], [u |-> <<11>>, c |-> "ws"], [u |-> <<12>>, c |-> "ws"], [u |-> <<32>>, c |-> "ws"], [u |-> <<160>>, c |-> "ws"],
    [u |-> <<65279>>, c |-> "ws"], [u |-> <<8195>>, c |-> "ws"], [u |-> <<12288>>, c |-> "ws"], [u |-> <<5760>>, c |-> "ws"], [u |-> <<8239>>, c |-> "ws"], [u |-> <<8287>>, c |-> "ws"],
    [u |-> <<0>>, c |-> "other"], [u |-> <<8>>, c |-> "other"], [u |-> <<31>>, c |-> "other"], [u |-> <<127>>, c |-> "other"], [u |-> <<133>>, c |-> "other"],
    [u |-> <<8203>>, c |-> "other"], [u |-> <<8231>>, c |-> "other"], [u |-> <<8234>>, c |-> "other"], [u |-> <<65533>>, c |-> "other"], [u |-> <<65534>>, c |-> "other"],
    [u |-> <<233>>, c |-> "char"], [u |-> <<55357, 56832>>, c |-> "char"]
  >>
LxNoTok(txt) == [t |-> "num", v |-> "", nl |-> FALSE, src |-> txt]      \* no token of clause 7 (an ill-formed numeric literal stands for it)
LxSplit(pos) == CASE pos = 1 -> << <<>>, <<97, 98>> >> [] pos = 2 -> << <<97>>, <<98>> >> [] pos = 3 -> << <<97, 98>>, <<>> >>
LxLitCtx == <<"str-dq", "str-sq", "str-esc", "re-body", "re-class", "re-esc", "re-class-esc">>
(* the literal as a token (the string rules are Grammar!StrLitSV's); und: 15.10.1 does not decide *)
LxLit(ctx, pr, pos, Dv) ==
    LET sp == LxSplit(pos)
        body == sp[1] \o (IF ctx \in {"str-esc", "re-esc", "re-class-esc"} THEN <<92>> ELSE <<>>) \o pr.u \o sp[2]
    IN  IF ctx \in {"str-dq", "str-esc"} THEN [tok |-> TStr(<<34>> \o body \o <<34>>), und |-> FALSE]
        ELSE IF ctx = "str-sq" THEN [tok |-> TStr(<<39>> \o body \o <<39>>), und |-> FALSE]
        ELSE LET b == IF ctx \in {"re-class", "re-class-esc"} THEN <<91>> \o body \o <<93>> ELSE body
                 txt == <<47>> \o b \o <<47>>
                 \* otto: inside a class the scanner takes backslash + LF / CR / CR LF as a line continuation (scanEscape)
                 cont == "DP28_regexp_class_backslash_line_terminator" \in Dv /\ ctx = "re-class-esc" /\ pr.u \in {<<10>>, <<13>>, <<13, 10>>}
                 pc == IF cont THEN "ok" ELSE IF pr.c = "lt" THEN "syntax" ELSE RXS!RxClassify(b, <<>>)
             IN  IF pc = "ok" THEN [tok |-> TRe(b, <<>>), und |-> FALSE] ELSE [tok |-> LxNoTok(txt), und |-> pc # "syntax"]
LxFrames(E) == <<
    <<TI("x"), TP("="), E, TP(";")>>,
    <<TI("f"), TP("("), E, TP(","), TI("a"), TP(")"), TP(";")>>,
    <<E, TP(";")>>,
    <<TI("x"), TP("="), E, TP(";"), TI("y"), TP("="), TNum(<<50>>), TP(";")>>,
    <<TK("function"), TI("f"), TP("("), TP(")"), TP("{"), TK("return"), E, TP(";"), TP("}")>>,
    <<TK("if"), TP("("), E, TP(")"), TI("y"), TP("="), TP("["), E, TP("."), TI("length"), TP("]"), TP(";")>> >>
NLxF == 6
(* two token sequences around the place of the character: the verdict depends on a LineTerminator being there *)
LxPairs == <<
    [A |-> <<TI("a"), TP("="), TI("c")>>, B |-> <<TI("b"), TP("="), TNum(<<50>>), TP(";")>>],
    [A |-> <<TI("a")>>, B |-> <<TP("++"), TP(";")>>],
    [A |-> <<TI("x"), TP("="), TI("a")>>, B |-> <<TP("("), TI("b"), TP(")"), TP(";")>>],
    [A |-> <<TK("function"), TI("f"), TP("("), TP(")"), TP("{"), TK("return")>>, B |-> <<TI("a"), TP(";"), TP("}")>>],
    [A |-> <<TI("a"), TP(";")>>, B |-> <<TP(")")>>],
    [A |-> <<TK("var"), TI("a")>>, B |-> <<TK("var"), TI("b")>>] >>
LxSepCtx == <<"sep", "sep-sp", "line-comment", "line-comment-empty", "block-comment", "block-comment-tight">>
SrcOf(T) == IF T = <<>> THEN <<>> ELSE S!Src(T, S!FixSeps(T, AllSep(Len(T), "sp")))
NLFirst(TB, f) == <<[TB[1] EXCEPT !.nl = f]>> \o Tail(TB)
LxSpec(c) ==
    LET pr == LxProbes[c.pi] IN
    IF c.k = "lit" THEN
        LET lit == LxLit(LxLitCtx[c.ci], pr, c.pos, {})
            T == LxFrames(lit.tok)[c.fi]
        IN  [fam |-> "lexctx", tag |-> LxLitCtx[c.ci] \o "/" \o pr.c, T |-> T, T2 |-> LxFrames(LxLit(LxLitCtx[c.ci], pr, c.pos, OpenDev).tok)[c.fi],
             src |-> SrcOf(T), und |-> lit.und]
    ELSE
        LET ctx == LxSepCtx[c.ci]
            pp == LxPairs[c.fi]
            lt == pr.c = "lt"
            a == SrcOf(pp.A)
            b == SrcOf(pp.B)
            src == CASE ctx = "sep" -> a \o pr.u \o b
                     [] ctx = "sep-sp" -> a \o <<32>> \o pr.u \o <<32>> \o b
                     [] ctx = "line-comment" -> a \o <<32, 47, 47, 32, 99>> \o pr.u \o b
                     [] ctx = "line-comment-empty" -> a \o <<47, 47>> \o pr.u \o b
                     [] ctx = "block-comment" -> a \o <<32, 47, 42, 32, 99>> \o pr.u \o <<100, 32, 42, 47, 32>> \o b
                     [] ctx = "block-comment-tight" -> a \o <<47, 42>> \o pr.u \o <<42, 47>> \o b
            TT(Dv) ==
                IF ctx \in {"sep", "sep-sp"} THEN
                    (IF lt THEN pp.A \o NLFirst(pp.B, TRUE) ELSE IF pr.c = "ws" THEN pp.A \o pp.B ELSE pp.A \o <<LxNoTok(pr.u)>> \o pp.B)
                ELSE IF ctx \in {"line-comment", "line-comment-empty"} THEN (IF lt THEN pp.A \o NLFirst(pp.B, TRUE) ELSE pp.A)
                ELSE pp.A \o NLFirst(pp.B, lt /\ "DP03_multiline_comment_no_line_terminator" \notin Dv)
        IN  [fam |-> "lexctx", tag |-> ctx \o "/" \o pr.c, T |-> TT({}), T2 |-> TT(OpenDev), src |-> src, und |-> FALSE]
Und(sp) == [fam |-> sp.fam, tag |-> sp.tag, src |-> sp.src, exp |-> Cls("skip"), dev |-> <<>>, bug |-> ""]
LxLine(c) == LET sp == LxSpec(c) IN IF sp.und THEN Und(sp) ELSE Line(sp)

-----------------------------------------------------------------------------
(* family "pragma" (7.4): the text of a comment never changes the program.     *)
(* Comments that look like tool directives (source map / source URL pragmas:   *)
(* 4 introducers x URL forms x payloads), cut off at every length, placed as   *)
(* the whole text, on the last line, behind code, in front of code, followed   *)
(* by each kind of line terminator and further code, twice; around an          *)
(* accepted program, one that needs the line terminator for 7.9, a rejected    *)
(* one.  Expected: Grammar!Classify of the tokens outside the comment.         *)
(* The one documented extension of the entry point (parser.ParseFile reads an  *)
(* inline source map from the LAST line when it starts with                    *)
(* "//# sourceMappingURL=data:application/json" and a well-formed base64       *)
(* payload follows the first comma) is outside ES5: such texts are not judged  *)
(* for accept/reject (totality still is) unless the payload is the valid map.  *)
B64Char(i) == IF i < 26 THEN 65 + i ELSE IF i < 52 THEN 71 + i ELSE IF i < 62 THEN i - 4 ELSE IF i = 62 THEN 43 ELSE 47
RECURSIVE B64(_)
B64(b) ==                                       \* RFC 4648 section 4 (bytes < 256)
    IF b = <<>> THEN <<>>
    ELSE LET n == Len(b)
             b1 == b[1]
             b2 == IF n >= 2 THEN b[2] ELSE 0
             b3 == IF n >= 3 THEN b[3] ELSE 0
             q == <<B64Char(b1 \div 4), B64Char((b1 % 4) * 16 + (b2 \div 16))>>
                  \o (IF n >= 2 THEN <<B64Char((b2 % 16) * 4 + (b3 \div 64))>> ELSE <<61>>)
                  \o (IF n >= 3 THEN <<B64Char(b3 % 64)>> ELSE <<61>>)
         IN  IF n <= 3 THEN q ELSE q \o B64(SubSeq(b, 4, n))
IsB64Char(u) == (u >= 65 /\ u <= 90) \/ (u >= 97 /\ u <= 122) \/ (u >= 48 /\ u <= 57) \/ u \in {43, 47}
NoCRLF(p) == SelectSeq(p, LAMBDA x : x \notin {10, 13})
B64WF(p) ==                                     \* a decoder that skips CR / LF accepts p
    LET s == NoCRLF(p)  n == Len(s) IN
    /\ n % 4 = 0
    /\ n = 0 \/ /\ \A i \in 1..(n - 2) : IsB64Char(s[i])
                /\ \/ IsB64Char(s[n - 1]) /\ (IsB64Char(s[n]) \/ s[n] = 61)
                   \/ s[n - 1] = 61 /\ s[n] = 61
PgP == <<47, 47, 35, 32, 115, 111, 117, 114, 99, 101, 77, 97, 112, 112, 105, 110, 103, 85, 82, 76, 61>>             \* //# sourceMappingURL=
PgAt == <<47, 47, 64, 32, 115, 111, 117, 114, 99, 101, 77, 97, 112, 112, 105, 110, 103, 85, 82, 76, 61>>            \* //@ sourceMappingURL=
PgSp == <<47, 47, 32, 35, 32, 115, 111, 117, 114, 99, 101, 77, 97, 112, 112, 105, 110, 103, 85, 82, 76, 61>>        \* // # sourceMappingURL=
PgUp == <<47, 47, 35, 32, 83, 111, 117, 114, 99, 101, 77, 97, 112, 112, 105, 110, 103, 85, 82, 76, 61>>             \* //# SourceMappingURL=
PgBlk == <<47, 42, 35, 32, 115, 111, 117, 114, 99, 101, 77, 97, 112, 112, 105, 110, 103, 85, 82, 76, 61>>           \* /*# sourceMappingURL=
PgSrcURL == <<47, 47, 35, 32, 115, 111, 117, 114, 99, 101, 85, 82, 76, 61, 97, 46, 106, 115>>                         \* //# sourceURL=a.js
PgData == <<100, 97, 116, 97, 58, 97, 112, 112, 108, 105, 99, 97, 116, 105, 111, 110, 47, 106, 115, 111, 110>>      \* data:application/json
PgText == <<100, 97, 116, 97, 58, 116, 101, 120, 116, 47, 112, 108, 97, 105, 110>>                                    \* data:text/plain
PgHttp == <<104, 116, 116, 112, 58, 47, 47, 101, 120, 97, 109, 112, 108, 101, 46, 99, 111, 109, 47, 97, 46, 106, 115, 46, 109, 97, 112>>   \* http://example.com/a.js.map
PgCs == <<59, 99, 104, 97, 114, 115, 101, 116, 61, 117, 116, 102, 45, 56>>                                            \* ;charset=utf-8
PgB64 == <<59, 98, 97, 115, 101, 54, 52>>                                                                              \* ;base64
PgPar == <<59, 97, 61, 98, 44, 99>>                                                                                    \* ;a=b,c
MapOK == <<123, 34, 118, 101, 114, 115, 105, 111, 110, 34, 58, 51, 44, 34, 115, 111, 117, 114, 99, 101, 115, 34, 58, 91, 93, 44, 34, 110, 97, 109, 101, 115, 34, 58, 91, 93, 44,
           34, 109, 97, 112, 112, 105, 110, 103, 115, 34, 58, 34, 34, 125>>                                           \* {"version":3,"sources":[],"names":[],"mappings":""}
MapCut == SubSeq(MapOK, 1, 23)                                                                                         \* {"version":3,"sources":    (no JSON text)
MapOK64 == B64(MapOK)
PgTexts == <<
    [n |-> "data-charset-base64-map", u |-> PgP \o PgData \o PgCs \o PgB64 \o <<44>> \o MapOK64, close |-> <<>>],
    [n |-> "data-base64-map", u |-> PgP \o PgData \o PgB64 \o <<44>> \o MapOK64, close |-> <<>>],
    [n |-> "data-base64-no-json", u |-> PgP \o PgData \o PgB64 \o <<44>> \o B64(MapCut), close |-> <<>>],
    [n |-> "data-base64-illegal", u |-> PgP \o PgData \o PgB64 \o <<44, 64, 64, 64, 64>>, close |-> <<>>],
    [n |-> "data-raw-json", u |-> PgP \o PgData \o <<44>> \o MapOK, close |-> <<>>],
    [n |-> "data-comma-base64", u |-> PgP \o PgData \o <<44>> \o B64(MapCut), close |-> <<>>],
    [n |-> "data-parameter-with-comma", u |-> PgP \o PgData \o PgPar \o PgB64 \o <<44>> \o MapOK64, close |-> <<>>],
    [n |-> "other-media-type", u |-> PgP \o PgText \o PgB64 \o <<44>> \o B64(MapCut), close |-> <<>>],
    [n |-> "http-url", u |-> PgP \o PgHttp, close |-> <<>>],
    [n |-> "at-introducer", u |-> PgAt \o PgData \o PgB64 \o <<44>> \o B64(MapCut), close |-> <<>>],
    [n |-> "spaced-introducer", u |-> PgSp \o PgData \o PgB64 \o <<44>> \o B64(MapCut), close |-> <<>>],
    [n |-> "other-case", u |-> PgUp \o PgData \o PgB64 \o <<44>> \o B64(MapCut), close |-> <<>>],
    [n |-> "source-url", u |-> PgSrcURL, close |-> <<>>],
    [n |-> "block-comment", u |-> PgBlk \o PgData \o PgB64 \o <<44>> \o B64(MapCut), close |-> <<32, 42, 47>>]
  >>
PgProgs == <<
    [A |-> <<TK("var"), TI("abc"), TP("="), TNum(<<49>>), TP(";")>>, B |-> <<TI("abc"), TP("++"), TP(";")>>],
    [A |-> <<TI("a"), TP("="), TI("c")>>, B |-> <<TI("b"), TP("="), TNum(<<50>>), TP(";")>>],
    [A |-> <<TK("var"), TP("="), TP(";")>>, B |-> <<TI("x"), TP(";")>>] >>
PgPlaces == <<"only", "last-line", "same-line", "lf-after", "code-after-lf", "code-after-cr", "code-after-ls", "code-after-ps", "crlf", "crlf-last", "after-cr", "twice", "first-line">>
PgPlace(pl, TA, TB, c) ==          \* [src, T]: the text and the tokens outside the comment c
    LET a == SrcOf(TA)  b == SrcOf(TB)  AB == TA \o NLFirst(TB, TRUE) IN
    CASE pl = "only" -> [src |-> c, T |-> <<>>]
      [] pl = "last-line" -> [src |-> a \o <<10>> \o c, T |-> TA]
      [] pl = "same-line" -> [src |-> a \o <<32>> \o c, T |-> TA]
      [] pl = "lf-after" -> [src |-> a \o <<10>> \o c \o <<10>>, T |-> TA]
      [] pl = "code-after-lf" -> [src |-> a \o <<10>> \o c \o <<10>> \o b, T |-> AB]
      [] pl = "code-after-cr" -> [src |-> a \o <<10>> \o c \o <<13>> \o b, T |-> AB]
      [] pl = "code-after-ls" -> [src |-> a \o <<10>> \o c \o <<8232>> \o b, T |-> AB]
      [] pl = "code-after-ps" -> [src |-> a \o <<10>> \o c \o <<8233>> \o b, T |-> AB]
      [] pl = "crlf" -> [src |-> a \o <<13, 10>> \o c \o <<13, 10>> \o b, T |-> AB]
      [] pl = "crlf-last" -> [src |-> a \o <<13, 10>> \o c, T |-> TA]
      [] pl = "after-cr" -> [src |-> a \o <<13>> \o c, T |-> TA]
      [] pl = "twice" -> [src |-> a \o <<10>> \o c \o <<10>> \o c, T |-> TA]
      [] pl = "first-line" -> [src |-> c \o <<10>> \o a \o <<32>> \o b, T |-> TA \o TB]
RECURSIVE LastLF(_, _)
LastLF(s, i) == IF i = 0 \/ s[i] = 10 THEN i ELSE LastLF(s, i - 1)
RECURSIVE FirstComma(_, _)
FirstComma(s, i) == IF i > Len(s) THEN 0 ELSE IF s[i] = 44 THEN i ELSE FirstComma(s, i + 1)
PgSniff == PgP \o PgData
ExtKind(src) ==                  \* "none": plain ES5 | "map": the valid inline map (changes nothing) | "ext": the extension decides
    LET ll == SubSeq(src, LastLF(src, Len(src)) + 1, Len(src))
        ci == FirstComma(ll, 1)
        pay == SubSeq(ll, ci + 1, Len(ll))
    IN  IF Len(ll) < Len(PgSniff) \/ SubSeq(ll, 1, Len(PgSniff)) # PgSniff \/ ci = 0 THEN "none"
        ELSE IF ~B64WF(pay) THEN "none"
        ELSE IF NoCRLF(pay) = MapOK64 THEN "map" ELSE "ext"
PgBlock == SetToSeq((1..Len(PgTexts)) \X (1..Len(PgPlaces)))
PgK == IF NSel = 0 THEN 1 ELSE 8        \* quick: one cut in 8 (over placements and programs every cut is taken), and the complete text
PgLines(ti, pi, gi) ==
    LET tx == PgTexts[ti]
        pg == PgProgs[gi]
        n0 == Len(tx.u)
        full == PgPlace(PgPlaces[pi], pg.A, pg.B, tx.u \o tx.close)
        base == Line([fam |-> "pragma", tag |-> tx.n \o "/" \o PgPlaces[pi], T |-> full.T, T2 |-> full.T, src |-> full.src])
        cuts == {n \in 2..n0 : n = n0 \/ (n + ti + 3 * pi + gi + Salt) % PgK = 0}
    IN  [n \in cuts |->
            LET src == PgPlace(PgPlaces[pi], pg.A, pg.B, SubSeq(tx.u, 1, n) \o tx.close).src
            IN  IF ExtKind(src) = "ext" THEN Und([base EXCEPT !.src = src]) ELSE [base EXCEPT !.src = src]]

MInit == cs = None /\ blk \in {<<f, j>> : f \in Fams, j \in 1..NSeeds}
MNext ==
    /\ cs = None
    /\ UNCHANGED blk
    /\ LET T == Seeds[blk[2]] IN
       CASE blk[1] = "mut" -> \E m \in MutsOf(T) \cup Sub(BigMutsOf(T)) : cs' = [t |-> "mut", fam |-> "mut", T |-> T, m |-> m]
         [] blk[1] = "early" -> blk[2] > NSeeds - Len(EarlyPool) /\ cs' = [t |-> "seq", fam |-> "early", T |-> T]
         [] blk[1] = "after" -> blk[2] <= Len(CtxPool) /\ \E ji \in 1..Len(JumpPool), pi \in 1..Len(Placements), inFn \in BOOLEAN :
                                    cs' = [t |-> "after", fam |-> "after", T |-> AfterSeq(blk[2], ji, pi, inFn), tag |-> Placements[pi]]
         [] blk[1] = "ek" -> blk[2] <= Len(EkWords) /\ \E m \in 1..3, pg \in 1..NEkP :
                                 LET w == EkWords[blk[2]] IN cs' = [t |-> "one", fam |-> "ek", tag |-> w, T |-> EkPrograms(S!TEk(w, EscAt(w, EkPos(w, m))))[pg]]
         [] blk[1] = "idesc" -> blk[2] <= Len(IdProbes) /\ \E shape \in 1..6, form \in 1..3, pg \in 1..NIdP :
                                 /\ IdFormOK(IdProbes[blk[2]], shape, form)
                                 /\ cs' = [t |-> "idesc", fam |-> "idesc", pi |-> blk[2], shape |-> shape, form |-> form, pg |-> pg]
         [] blk[1] = "objdup" -> blk[2] <= Len(KindSeq) /\ \E sp \in 1..Len(Spellings), inter \in BOOLEAN :
                                 cs' = [t |-> "one", fam |-> "objdup", tag |-> "members", T |-> ObjDupSeq(KindSeq[blk[2]], sp, inter)]
         [] blk[1] = "rejunk" -> blk[2] <= 64 /\ \E j \in {x \in 1..Len(ReJunkBodies) : x % 64 = blk[2] - 1}, fl \in {<<>>, <<103>>} :
                                 cs' = [t |-> "rejunk", fam |-> "rejunk", b |-> ReJunkBodies[j], f |-> fl]
         [] blk[1] = "utf8" -> blk[2] <= Len(Utf8Ctx) /\ \E bi \in 1..Len(BadSeqs) : cs' = [t |-> "utf8", fam |-> "utf8", ci |-> blk[2], bi |-> bi]
         [] blk[1] = "lexctx" -> blk[2] <= Len(LxProbes) /\
                                 \/ \E ci \in 1..Len(LxLitCtx), pos \in 1..3, fi \in 1..NLxF :
                                        cs' = [t |-> "lexctx", fam |-> "lexctx", k |-> "lit", pi |-> blk[2], ci |-> ci, pos |-> pos, fi |-> fi]
                                 \/ \E ci \in 1..Len(LxSepCtx), fi \in 1..Len(LxPairs) :
                                        /\ LxProbes[blk[2]].c # "char" \/ LxSepCtx[ci] \notin {"sep", "sep-sp"}
                                        /\ cs' = [t |-> "lexctx", fam |-> "lexctx", k |-> "sep", pi |-> blk[2], ci |-> ci, pos |-> 0, fi |-> fi]
         [] blk[1] = "pragma" -> blk[2] <= Len(PgBlock) /\ \E gi \in 1..Len(PgProgs) :
                                 /\ PgPlaces[PgBlock[blk[2]][2]] # "only" \/ gi = 1
                                 /\ cs' = [t |-> "pragma", fam |-> "pragma", st |-> <<PgBlock[blk[2]][1], PgBlock[blk[2]][2], gi>>]
MLines(c) ==
    IF c.t = "mut" THEN LET T2 == Mutate(c.T, c.m) IN <<Spec0("mut", c.m.k, T2, MutSeps(T2, c.m), FALSE, <<>>)>>
    ELSE IF c.t = "one" THEN <<Spec0(c.fam, c.tag, c.T, AllSep(Len(c.T), "sp"), FALSE, <<>>)>>
    ELSE IF c.t = "after" THEN <<Spec0("after", c.tag, c.T, AllSep(Len(c.T), "sp"), FALSE, <<>>), Spec0("after", c.tag, c.T, NLAll(Len(c.T), 1 + ((Len(c.T) + Salt) % NLK)), FALSE, <<>>)>>
    ELSE SeqCases(c.fam, c.T)
MEmit ==
    cs = None
    \/ (cs.t = "utf8" /\ PrintT("VJSON " \o ToJson(Utf8Line(cs.ci, cs.bi))))
    \/ (cs.t = "rejunk" /\ LET ls == ReJunkLines(cs.b, cs.f) IN \A j \in 1..Len(ls) : PrintT("VJSON " \o ToJson(ls[j])))
    \/ (cs.t = "idesc" /\ PrintT("VJSON " \o ToJson(IdLine(IdProbes[cs.pi], cs.shape, cs.form, cs.pg))))
    \/ (cs.t = "lexctx" /\ PrintT("VJSON " \o ToJson(LxLine(cs))))
    \/ (cs.t = "pragma" /\ LET ls == PgLines(cs.st[1], cs.st[2], cs.st[3]) IN \A n \in DOMAIN ls : PrintT("VJSON " \o ToJson(ls[n])))
    \/ (cs.t \notin {"utf8", "rejunk", "idesc", "lexctx", "pragma"} /\ LET ls == MLines(cs) IN \A j \in 1..Len(ls) : PrintT("VJSON " \o ToJson(Line(ls[j]))))
=============================================================================
