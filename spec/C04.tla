-------------------------------- MODULE C04 ---------------------------------
(* Generator for property C04 (parsing is total; junk is rejected; accepted  *)
(* trees are well formed), direction specification -> code.                  *)
(*   family "mut":   every single-token deletion, adjacent swap, insertion   *)
(*                   and replacement (token alphabet Alpha) of a pool of     *)
(*                   seed token sequences (the statement trees and token     *)
(*                   sequences of C03.tla plus the early-error seeds below)  *)
(*   family "early": programs around the parse-time errors of clauses 12/16  *)
(* Every line carries the source text and Grammar!Classify of the token      *)
(* sequence: accept (with the tree) / reject / skip (the text would be       *)
(* tokenised differently, or is a common extension ES5 does not decide).     *)
(* The well-formedness of accepted trees is judged by spec/C04Judge.tla.     *)
EXTENDS C03

Alpha == <<
    TP("{"), TP("}"), TP("("), TP(")"), TP("["), TP("]"), TP("."), TP(";"), TP(","), TP("<"), TP(">"), TP("<="), TP("=="), TP("==="), TP("!="),
    TP("+"), TP("-"), TP("*"), TP("%"), TP("/"), TP("++"), TP("--"), TP("<<"), TP(">>>"), TP("&"), TP("|"), TP("^"), TP("!"), TP("~"), TP("&&"), TP("||"),
    TP("?"), TP(":"), TP("="), TP("+="), TP("/="), TP(">>>="),
    TK("break"), TK("case"), TK("catch"), TK("continue"), TK("debugger"), TK("default"), TK("delete"), TK("do"), TK("else"), TK("finally"),
    TK("for"), TK("function"), TK("if"), TK("in"), TK("instanceof"), TK("new"), TK("return"), TK("switch"), TK("this"), TK("throw"), TK("try"),
    TK("typeof"), TK("var"), TK("void"), TK("while"), TK("with"), TK("class"), TK("enum"), TK("super"), TK("null"), TK("true"),
    TI("a"), TI("L"), TI("get"), TI("set"), TI("let"), TNum(<<49>>), TNum(<<48, 120, 49>>), TStr(<<34, 115, 34>>), TRe(<<120>>, <<103>>)
  >>

(* seeds around the early errors (12.7-12.9, 12.12, 12.14, 11.1.5, 11.13.1, 7.6.1, 7.8.5) *)
FnE(T) == <<TP("("), TK("function"), TP("("), TP(")"), TP("{")>> \o T \o <<TP("}"), TP(")"), TP(";")>>
WhileW(T) == <<TK("while"), TP("("), TI("a"), TP(")"), TP("{")>> \o T \o <<TP("}")>>
EarlyPool == <<
    <<TK("return"), TP(";")>>, <<TK("return"), TI("a"), TP(";")>>, <<TP("{"), TK("return"), TP(";"), TP("}")>>, FnE(<<TK("return"), TP(";")>>),
    <<TK("if"), TP("("), TI("a"), TP(")"), TK("return"), TP(";")>>, <<TK("try"), TP("{"), TK("return"), TP(";"), TP("}"), TK("finally"), TP("{"), TP("}")>>,
    <<TK("break"), TP(";")>>, <<TK("continue"), TP(";")>>, <<TP("{"), TK("break"), TP(";"), TP("}")>>, <<TK("if"), TP("("), TI("a"), TP(")"), TK("break"), TP(";")>>,
    WhileW(<<TK("break"), TP(";")>>), WhileW(<<TK("continue"), TP(";")>>), WhileW(FnE(<<TK("break"), TP(";")>>)), WhileW(FnE(<<TK("continue"), TP(";")>>)),
    <<TK("switch"), TP("("), TI("a"), TP(")"), TP("{"), TK("case"), TNum(<<49>>), TP(":"), TK("break"), TP(";"), TP("}")>>,
    <<TK("switch"), TP("("), TI("a"), TP(")"), TP("{"), TK("case"), TNum(<<49>>), TP(":"), TK("continue"), TP(";"), TP("}")>>,
    WhileW(<<TK("switch"), TP("("), TI("a"), TP(")"), TP("{"), TK("default"), TP(":"), TK("continue"), TP(";"), TP("}")>>),
    <<TK("switch"), TP("("), TI("a"), TP(")"), TP("{"), TK("default"), TP(":"), TK("default"), TP(":"), TP("}")>>,
    <<TK("break"), TI("L"), TP(";")>>, <<TK("continue"), TI("L"), TP(";")>>, WhileW(<<TK("break"), TI("L"), TP(";")>>), WhileW(<<TK("continue"), TI("L"), TP(";")>>),
    <<TI("L"), TP(":")>> \o WhileW(<<TK("break"), TI("L"), TP(";")>>), <<TI("L"), TP(":")>> \o WhileW(<<TK("continue"), TI("L"), TP(";")>>),
    <<TI("L"), TP(":"), TP("{")>> \o WhileW(<<TK("continue"), TI("L"), TP(";")>>) \o <<TP("}")>>,
    <<TI("L"), TP(":"), TP("{")>> \o WhileW(<<TK("break"), TI("L"), TP(";")>>) \o <<TP("}")>>,
    <<TI("L"), TP(":"), TK("if"), TP("("), TI("a"), TP(")")>> \o WhileW(<<TK("continue"), TI("L"), TP(";")>>),
    <<TI("L"), TP(":"), TI("M"), TP(":")>> \o WhileW(<<TK("continue"), TI("L"), TP(";"), TK("continue"), TI("M"), TP(";")>>),
    <<TI("L"), TP(":"), TP("{"), TK("break"), TI("L"), TP(";"), TP("}")>>, <<TI("L"), TP(":"), TP("{"), TK("continue"), TI("L"), TP(";"), TP("}")>>,
    <<TI("L"), TP(":"), TK("break"), TI("L"), TP(";")>>, <<TI("L"), TP(":"), TK("continue"), TI("L"), TP(";")>>,
    \* a labelled statement between a labelled block and a labelled loop must not make the block's label a loop label
    <<TI("L"), TP(":"), TP("{"), TI("M"), TP(":"), TI("a"), TP(";"), TI("p"), TP(":")>> \o WhileW(<<TK("continue"), TI("L"), TP(";")>>) \o <<TP("}")>>,
    <<TI("L"), TP(":"), TP("{"), TI("M"), TP(":"), TI("a"), TP(";"), TI("p"), TP(":")>> \o WhileW(<<TK("continue"), TI("p"), TP(";")>>) \o <<TP("}")>>,
    <<TI("L"), TP(":"), TP("{"), TI("M"), TP(":"), TP("{"), TP("}"), TI("p"), TP(":"), TI("q"), TP(":")>> \o WhileW(<<TK("continue"), TI("L"), TP(";")>>) \o <<TP("}")>>,
    <<TI("L"), TP(":"), TP("{"), TI("M"), TP(":"), TP("{"), TP("}"), TI("p"), TP(":"), TI("q"), TP(":")>> \o WhileW(<<TK("continue"), TI("p"), TP(";")>>) \o <<TP("}")>>,
    <<TI("L"), TP(":")>> \o WhileW(<<TI("M"), TP(":"), TI("a"), TP(";"), TI("p"), TP(":"), TP("{"), TK("continue"), TI("p"), TP(";"), TP("}")>>),
    <<TI("L"), TP(":"), TI("L"), TP(":"), TP(";")>>, <<TI("L"), TP(":"), TP("{"), TI("L"), TP(":"), TP(";"), TP("}")>>, <<TI("L"), TP(":"), TP(";"), TI("L"), TP(":"), TP(";")>>,
    <<TI("L"), TP(":"), TI("M"), TP(":"), TI("L"), TP(":"), TP(";")>>, <<TI("L"), TP(":")>> \o FnE(<<TI("L"), TP(":"), TP(";")>>),
    <<TI("L"), TP(":")>> \o WhileW(FnE(<<TK("break"), TI("L"), TP(";")>>)), <<TI("L"), TP(":")>> \o WhileW(FnE(<<TK("continue"), TI("L"), TP(";")>>)),
    <<TI("L"), TP(":")>> \o FnE(<<TK("break"), TI("L"), TP(";")>>),
    <<TK("do"), TK("break"), TI("L"), TP(";"), TK("while"), TP("("), TI("a"), TP(")"), TP(";")>>,
    <<TK("try"), TP("{"), TP("}")>>, <<TK("try"), TP("{"), TP("}"), TK("catch"), TP("("), TI("e"), TP(")"), TP("{"), TP("}")>>, <<TK("try"), TP("{"), TP("}"), TK("finally"), TP("{"), TP("}")>>,
    <<TK("try"), TP("{"), TP("}"), TK("catch"), TP("{"), TP("}")>>, <<TK("try"), TP("{"), TP("}"), TK("catch"), TP("("), TP(")"), TP("{"), TP("}")>>,
    <<TK("try"), TP("{"), TP("}"), TK("catch"), TP("("), TI("e"), TP(")"), TI("a"), TP(";")>>, <<TK("try"), TI("a"), TP(";"), TK("finally"), TP("{"), TP("}")>>,
    <<TK("try"), TP("{"), TP("}"), TK("catch"), TP("("), TK("if"), TP(")"), TP("{"), TP("}")>>, <<TK("try"), TP("{"), TP("}"), TK("finally"), TP("{"), TP("}"), TK("catch"), TP("("), TI("e"), TP(")"), TP("{"), TP("}")>>,
    <<TI("a"), TP("="), TNum(<<49>>), TP("="), TNum(<<50>>), TP(";")>>, <<TNum(<<49>>), TP("="), TNum(<<50>>), TP(";")>>, <<TI("a"), TP("++"), TP("="), TNum(<<49>>), TP(";")>>,
    <<TP("++"), TI("a"), TP("++"), TP(";")>>, <<TP("++"), TNum(<<49>>), TP(";")>>, <<TNum(<<49>>), TP("++"), TP(";")>>, <<TI("a"), TP("+"), TI("b"), TP("="), TI("c"), TP(";")>>,
    <<TP("("), TI("a"), TP(")"), TP("="), TNum(<<49>>), TP(";")>>, <<TP("("), TI("a"), TP(","), TI("b"), TP(")"), TP("="), TNum(<<49>>), TP(";")>>, <<TK("this"), TP("="), TNum(<<49>>), TP(";")>>,
    <<TI("a"), TP("("), TP(")"), TP("="), TNum(<<49>>), TP(";")>>, <<TI("a"), TP("("), TP(")"), TP("++"), TP(";")>>, <<TP("--"), TI("a"), TP("("), TP(")"), TP(";")>>,
    <<TK("new"), TI("a"), TP("="), TNum(<<49>>), TP(";")>>, <<TP("-"), TI("a"), TP("="), TNum(<<49>>), TP(";")>>, <<TI("a"), TP("?"), TI("b"), TP(":"), TI("c"), TP("="), TNum(<<49>>), TP(";")>>,
    <<TI("a"), TP("."), TI("b"), TP("="), TNum(<<49>>), TP(";")>>, <<TI("a"), TP("["), TI("b"), TP("]"), TP("+="), TNum(<<49>>), TP(";")>>, <<TStr(<<34, 115, 34>>), TP("="), TNum(<<49>>), TP(";")>>,
    <<TK("for"), TP("("), TNum(<<49>>), TK("in"), TI("a"), TP(")"), TP(";")>>, <<TK("for"), TP("("), TI("a"), TP("+"), TI("b"), TK("in"), TI("c"), TP(")"), TP(";")>>,
    <<TK("for"), TP("("), TI("a"), TP("("), TP(")"), TK("in"), TI("c"), TP(")"), TP(";")>>, <<TK("for"), TP("("), TP("("), TI("a"), TP(")"), TK("in"), TI("c"), TP(")"), TP(";")>>,
    <<TK("for"), TP("("), TK("var"), TI("a"), TP(","), TI("b"), TK("in"), TI("c"), TP(")"), TP(";")>>, <<TK("for"), TP("("), TI("a"), TP("="), TNum(<<49>>), TK("in"), TI("c"), TP(")"), TP(";")>>,
    <<TK("for"), TP("("), TI("a"), TP("<"), TI("b"), TK("in"), TI("c"), TP(";"), TP(";"), TP(")"), TP(";")>>, <<TK("for"), TP("("), TI("a"), TK("in"), TI("b"), TP(";"), TP(";"), TP(")"), TP(";")>>,
    <<TK("for"), TP("("), TI("a"), TK("in"), TI("b"), TK("in"), TI("c"), TP(")"), TP(";")>>, <<TK("for"), TP("("), TK("var"), TI("a"), TP("="), TI("b"), TK("in"), TI("c"), TK("in"), TI("d"), TP(")"), TP(";")>>,
    <<TI("x"), TP("="), TP("{"), TI("a"), TP(":"), TNum(<<49>>), TP(","), TI("get"), TI("a"), TP("("), TP(")"), TP("{"), TP("}"), TP("}"), TP(";")>>,
    <<TI("x"), TP("="), TP("{"), TI("get"), TI("a"), TP("("), TP(")"), TP("{"), TP("}"), TP(","), TI("a"), TP(":"), TNum(<<49>>), TP("}"), TP(";")>>,
    <<TI("x"), TP("="), TP("{"), TI("get"), TI("a"), TP("("), TP(")"), TP("{"), TP("}"), TP(","), TI("get"), TI("a"), TP("("), TP(")"), TP("{"), TP("}"), TP("}"), TP(";")>>,
    <<TI("x"), TP("="), TP("{"), TI("set"), TI("a"), TP("("), TI("v"), TP(")"), TP("{"), TP("}"), TP(","), TI("set"), TStr(<<34, 97, 34>>), TP("("), TI("v"), TP(")"), TP("{"), TP("}"), TP("}"), TP(";")>>,
    <<TI("x"), TP("="), TP("{"), TI("get"), TI("a"), TP("("), TP(")"), TP("{"), TP("}"), TP(","), TI("set"), TI("a"), TP("("), TI("v"), TP(")"), TP("{"), TP("}"), TP("}"), TP(";")>>,
    <<TI("x"), TP("="), TP("{"), TI("a"), TP(":"), TNum(<<49>>), TP(","), TI("a"), TP(":"), TNum(<<50>>), TP("}"), TP(";")>>,
    <<TI("x"), TP("="), TP("{"), TNum(<<49>>), TP(":"), TNum(<<49>>), TP(","), TI("get"), TNum(<<49, 46, 48>>), TP("("), TP(")"), TP("{"), TP("}"), TP("}"), TP(";")>>,
    <<TI("x"), TP("="), TP("{"), TI("get"), TI("a"), TP("("), TI("v"), TP(")"), TP("{"), TP("}"), TP("}"), TP(";")>>, <<TI("x"), TP("="), TP("{"), TI("set"), TI("a"), TP("("), TP(")"), TP("{"), TP("}"), TP("}"), TP(";")>>,
    <<TI("x"), TP("="), TP("{"), TI("set"), TI("a"), TP("("), TI("v"), TP(","), TI("w"), TP(")"), TP("{"), TP("}"), TP("}"), TP(";")>>, <<TI("x"), TP("="), TP("{"), TI("get"), TP("}"), TP(";")>>,
    <<TI("x"), TP("="), TP("{"), TI("get"), TP(":"), TNum(<<49>>), TP(","), TI("set"), TP(":"), TNum(<<50>>), TP("}"), TP(";")>>, <<TI("x"), TP("="), TP("{"), TI("get"), TI("get"), TP("("), TP(")"), TP("{"), TP("}"), TP("}"), TP(";")>>,
    <<TI("x"), TP("="), TP("{"), TI("a"), TP(":"), TNum(<<49>>), TI("b"), TP(":"), TNum(<<50>>), TP("}"), TP(";")>>, <<TI("x"), TP("="), TP("{"), TP(","), TP("}"), TP(";")>>, <<TI("x"), TP("="), TP("{"), TI("a"), TP(":"), TNum(<<49>>), TP(","), TP("}"), TP(";")>>,
    <<TI("x"), TP("="), TP("{"), TI("a"), TP(":"), TNum(<<49>>), TP(","), TP(","), TP("}"), TP(";")>>, <<TI("x"), TP("="), TP("{"), TI("a"), TP("}"), TP(";")>>, <<TI("x"), TP("="), TP("{"), TP("+"), TP(":"), TNum(<<49>>), TP("}"), TP(";")>>,
    <<TI("x"), TP("="), TRe(<<120>>, <<103, 103>>), TP(";")>>, <<TI("x"), TP("="), TRe(<<120>>, <<122>>), TP(";")>>, <<TI("x"), TP("="), TRe(<<120>>, <<103, 105, 109>>), TP(";")>>,
    <<TI("x"), TP("="), TRe(<<120>>, <<109, 105, 103>>), TP(";")>>, <<TI("x"), TP("="), TRe(<<120>>, <<103, 105, 109, 103>>), TP(";")>>,
    <<TK("var"), TK("class"), TP(";")>>, <<TK("class"), TP("="), TNum(<<49>>), TP(";")>>, <<TK("function"), TK("enum"), TP("("), TP(")"), TP("{"), TP("}")>>, <<TK("function"), TI("f"), TP("("), TK("super"), TP(")"), TP("{"), TP("}")>>,
    <<TK("var"), TK("if"), TP(";")>>, <<TK("var"), TI("let"), TP(";")>>, <<TI("yield"), TP("="), TNum(<<49>>), TP(";")>>, <<TK("var"), TK("null"), TP(";")>>, <<TK("var"), TK("true"), TP("="), TNum(<<49>>), TP(";")>>,
    <<TK("var"), TK("this"), TP(";")>>, <<TI("a"), TP("."), TK("class"), TP(";")>>, <<TI("x"), TP("="), TP("{"), TK("class"), TP(":"), TNum(<<49>>), TP("}"), TP(";")>>, <<TK("export"), TI("a"), TP(";")>>,
    <<TK("import"), TI("a"), TP(";")>>, <<TK("const"), TI("a"), TP("="), TNum(<<49>>), TP(";")>>, <<TI("L"), TP(":"), TK("class"), TP(";")>>, <<TK("class"), TP(":"), TP(";")>>, <<TK("try"), TP("{"), TP("}"), TK("catch"), TP("("), TK("enum"), TP(")"), TP("{"), TP("}")>>,
    <<TK("break"), TK("class"), TP(";")>>, <<TI("eval"), TP("="), TNum(<<49>>), TP(";")>>, <<TK("var"), TI("arguments"), TP(";")>>, <<TK("function"), TI("f"), TP("("), TI("a"), TP(","), TI("a"), TP(")"), TP("{"), TP("}")>>,
    <<TK("with"), TP("("), TI("a"), TP(")"), TP(";")>>, <<TK("delete"), TI("a"), TP(";")>>, <<TI("a"), TP("("), TI("b"), TP(","), TP(")"), TP(";")>>, <<TI("a"), TP("("), TP(","), TP(")"), TP(";")>>, <<TK("new"), TI("a"), TP("("), TI("b"), TP(","), TP(")"), TP(";")>>,
    <<TK("function"), TI("f"), TP("("), TI("a"), TP(","), TP(")"), TP("{"), TP("}")>>, <<TK("function"), TI("f"), TP("("), TP(","), TP(")"), TP("{"), TP("}")>>, <<TK("function"), TP("("), TP(")"), TP("{"), TP("}")>>,
    <<TK("function"), TI("f"), TP("("), TP(")"), TP("{")>>, <<TK("function"), TI("f"), TP("("), TP(")"), TP(";")>>, <<TK("if"), TP("("), TI("a"), TP(")"), TK("function"), TI("f"), TP("("), TP(")"), TP("{"), TP("}")>>,
    <<TI("L"), TP(":"), TK("function"), TI("f"), TP("("), TP(")"), TP("{"), TP("}")>>, <<TP("{"), TK("function"), TI("f"), TP("("), TP(")"), TP("{"), TP("}"), TP("}")>>,
    <<TP("("), TI("a"), TP(")"), TP(":"), TI("b"), TP(";")>>, <<TP("("), TP("("), TI("a"), TP(")"), TP(")"), TP(":"), TP(";")>>, <<TI("a"), TP("&"), TP("^="), TI("b"), TP(";")>>
  >>

-----------------------------------------------------------------------------
Seeds == [j \in 1..Len(StmtPool) |-> S!ToksProgram(StmtPool[j], 0)] \o SeqPool \o EarlyPool
NSeeds == Len(Seeds)
NA == Len(Alpha)

Mutate(T, m) ==
    CASE m.k = "del" -> SubSeq(T, 1, m.j - 1) \o SubSeq(T, m.j + 1, Len(T))
      [] m.k = "swap" -> SubSeq(T, 1, m.j - 1) \o <<T[m.j + 1], T[m.j]>> \o SubSeq(T, m.j + 2, Len(T))
      [] m.k = "ins" -> SubSeq(T, 1, m.j - 1) \o <<Alpha[m.a]>> \o SubSeq(T, m.j, Len(T))
      [] m.k = "rep" -> SubSeq(T, 1, m.j - 1) \o <<Alpha[m.a]>> \o SubSeq(T, m.j + 1, Len(T))
      [] m.k = "none" -> T
MutsOf(T) ==
    {[k |-> "none", j |-> 0, a |-> 0]}
    \cup {[k |-> "del", j |-> j, a |-> 0] : j \in 1..Len(T)}
    \cup {[k |-> "swap", j |-> j, a |-> 0] : j \in 1..(Len(T) - 1)}
BigMutsOf(T) ==
    {[k |-> "ins", j |-> j, a |-> a] : j \in 1..(Len(T) + 1), a \in 1..NA}
    \cup {[k |-> "rep", j |-> j, a |-> a] : j \in 1..Len(T), a \in 1..NA}

(* the rendering of a mutant: spaces, or (one mutant in four) a line terminator in front of the mutated position *)
MutSeps(T, m) ==
    LET n == Len(T)
    IN  IF m.j >= 2 /\ m.j <= n /\ (m.j + m.a + Salt) % 4 = 0 THEN NLAt(n, m.j) ELSE AllSep(n, "sp")

MInit == cs = None /\ blk \in {<<f, j>> : f \in Fams, j \in 1..NSeeds}
MNext ==
    /\ cs = None
    /\ UNCHANGED blk
    /\ LET T == Seeds[blk[2]] IN
       CASE blk[1] = "mut" -> \E m \in MutsOf(T) \cup Sub(BigMutsOf(T)) : cs' = [t |-> "mut", fam |-> "mut", T |-> T, m |-> m]
         [] blk[1] = "early" -> blk[2] > NSeeds - Len(EarlyPool) /\ cs' = [t |-> "seq", fam |-> "early", T |-> T]
MLines(c) ==
    IF c.t = "mut" THEN LET T2 == Mutate(c.T, c.m) IN <<Spec0("mut", c.m.k, T2, MutSeps(T2, c.m), FALSE, <<>>)>>
    ELSE SeqCases(c.fam, c.T)
MEmit ==
    cs = None \/ LET ls == MLines(cs) IN \A j \in 1..Len(ls) : PrintT("VJSON " \o ToJson(Line(ls[j])))
=============================================================================
