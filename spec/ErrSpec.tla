------------------------------ MODULE ErrSpec -------------------------------
(* Property C19: errors surface with the right class, message and source     *)
(* position.  The evaluator ES5Core carries the call stack (st.fr), records  *)
(* the position of every call site and captures the stack trace in every     *)
(* Error instance at its creation (ES5Core: SetSite, CaptureTrace, ErrObj,   *)
(* ThrowErrAt).  This module adds what the property needs on top of it:      *)
(*   - 7.3: source positions (offset -> line, column) with ALL LineTerminators,*)
(*     columns counted in characters (code units);                           *)
(*   - 15.11.4.4: the text 'Name: message' of an uncaught exception;         *)
(*   - the initial state with the probe M(e) ("e.message is a non-empty       *)
(*     string"), the host function CB(f) that calls f, Array.prototype.forEach (15.4.4.18), the argument checks of *)
(*     Number.prototype.toString/toFixed/toExponential/toPrecision (15.7.4)  *)
(*     and the cycle check of JSON.stringify (15.12.3);                       *)
(*   - the observable outcome of a run: host-call log, completion value, and *)
(*     for an uncaught exception its text and its stack trace as             *)
(*     [function name, native?, line, column] innermost first.               *)
(* Known deviations of otto are the branches D("D19_...") here and in        *)
(* ES5Core.                                                                  *)
EXTENDS NumText, TLC, FiniteSets
CONSTANT Dev
D(x) == x \in Dev

C == INSTANCE ES5Core

-----------------------------------------------------------------------------
(* 7.3 Line terminators: LF, CR, LS, PS; the sequence CR LF is one terminator. *)
(* A position is (line, column), both 1-based, the column counting the source  *)
(* characters (code units) after the last line terminator.                      *)
(*                                                                              *)
(* otto has two position functions.  file.File.Position (run-time errors,       *)
(* stack frames) counts only LF as a terminator (D19_runtime_position_lf_only)  *)
(* and counts the column in UTF-8 bytes (D19_runtime_column_bytes);             *)
(* parser.position (syntax errors) knows all terminators but also counts bytes  *)
(* (D19_syntax_column_bytes).                                                   *)
Mode(kind) ==
    [lfOnly |-> kind = "runtime" /\ D("D19_runtime_position_lf_only"),
     bytes  |-> (kind = "runtime" /\ D("D19_runtime_column_bytes")) \/ (kind = "syntax" /\ D("D19_syntax_column_bytes")),
     eof    |-> kind = "syntax"]          \* the end of the input is a position only for the parser

IsLineEnd(u, m) == IF m.lfOnly THEN u = 10 ELSE u \in {10, 13, 8232, 8233}
(* width of a code unit: 1, or its share of the UTF-8 encoding (a surrogate pair is 4 bytes) *)
ULen(u, m) == IF ~m.bytes \/ u < 128 THEN 1 ELSE IF u < 2048 THEN 2 ELSE IF u >= 55296 /\ u <= 57343 THEN 2 ELSE 3

(* what a position lookup needs to know about a text, computed once per text: the       *)
(* indexes of the characters that end a line (of CR LF the LF), and of the characters    *)
(* wider than one unit                                                                   *)(* (sequences in ascending order, built eagerly: TLC would re-evaluate a set comprehension at every use) *)
TextInfo(text, m) ==
    LET idx == [i \in 1..Len(text) |-> i]
    IN  [len  |-> Len(text),
         ends |-> SelectSeq(idx, LAMBDA i : IsLineEnd(text[i], m) /\ ~(text[i] = 13 /\ ~m.lfOnly /\ i < Len(text) /\ text[i + 1] = 10)),
         wide |-> IF m.bytes THEN SelectSeq(idx, LAMBDA i : text[i] >= 128) ELSE <<>>,
         nonascii |-> SelectSeq(idx, LAMBDA i : text[i] >= 128),
         text |-> text]

RECURSIVE SumWidths(_, _, _, _, _)
SumWidths(wide, k, i, text, m) ==      \* extra units of the wide characters with index < i
    IF k > Len(wide) \/ wide[k] >= i THEN 0 ELSE (ULen(text[wide[k]], m) - 1) + SumWidths(wide, k + 1, i, text, m)
(* 0-based unit offset of character index i (1-based; i = len + 1: the end of the text) *)
UnitOff(inf, i, m) == (i - 1) + SumWidths(inf.wide, 1, i, inf.text, m)

Unknown == [line |-> 0, col |-> 0]
(* position of the character index off (1-based; len + 1: the end of the text, for the parser) of a text: *)
(* the line is 1 + the number of line ends wholly before it, the column counts from the last of them      *)
LineColOf(in, off, m) ==
    IF off < 1 THEN Unknown
    ELSE LET b == UnitOff(in, off, m)
             total == UnitOff(in, in.len + 1, m)
             before == SelectSeq(in.ends, LAMBDA e : e < off)
             eol == IF before = <<>> THEN 0 ELSE UnitOff(in, before[Len(before)] + 1, m)
         IN  IF off <= in.len \/ (m.eof /\ off = in.len + 1) THEN [line |-> 1 + Len(before), col |-> b - eol + 1] ELSE Unknown

(* Only under D19_eval_leaves_frame_file: an offset measured in one text (`from`) looked up in ANOTHER   *)
(* text (`in`).  otto's offsets are byte offsets: the byte offset of the character in `from` is taken as *)
(* a byte offset into `in`; the position is that of the character of `in` it falls into, the column     *)
(* advanced by one for every byte it lies inside that character.                                         *)
BytesMode == [lfOnly |-> FALSE, bytes |-> TRUE, eof |-> FALSE]
RECURSIVE LocateByte(_, _, _, _, _)       \* -> [c: character index, partial: bytes into it]
LocateByte(text, wide, k, extra, bb) ==
    IF k > Len(wide) THEN [c |-> bb - extra + 1, partial |-> 0]
    ELSE LET w == wide[k]
             startB == (w - 1) + extra
             len == ULen(text[w], BytesMode)
         IN  IF bb < startB THEN [c |-> bb - extra + 1, partial |-> 0]
             ELSE IF bb < startB + len THEN [c |-> w, partial |-> bb - startB]
             ELSE LocateByte(text, wide, k + 1, extra + len - 1, bb)
LineColIn(from, in, off, m) ==
    IF off < 1 THEN Unknown
    ELSE IF from.text = in.text THEN LineColOf(in, off, m)
    ELSE LET bb == (off - 1) + SumWidths(from.nonascii, 1, off, from.text, BytesMode)
             loc == LocateByte(in.text, in.nonascii, 1, 0, bb)
             p == LineColOf(in, loc.c, m)
         IN  IF p = Unknown THEN Unknown ELSE [line |-> p.line, col |-> p.col + loc.partial]

LineCol(files, of, file, off, kind) ==
    LET m == Mode(kind)
    IN  IF off < 1 \/ of < 1 \/ file < 1 THEN Unknown
        ELSE LineColIn(TextInfo(files[of], m), TextInfo(files[file], m), off, m)

(* a captured trace as the API shows it: innermost first *)
(* src: 1 = the position is in the program text (the frame carries the program's file   *)
(* name), 0 = in another source text (eval code), or there is none.  named = FALSE: the *)
(* program was given to Run as a string and has no name of its own.                     *)
ShowFrame(infos, f, named, m) ==
    IF f.nat THEN [fn |-> <<>>, nat |-> TRUE, src |-> 0, line |-> 0, col |-> 0]
    ELSE LET p == IF f.off < 1 \/ f.of < 1 \/ f.file < 1 THEN Unknown ELSE LineColIn(infos[f.of], infos[f.file], f.off, m)
         IN  [fn |-> f.fn, nat |-> FALSE, src |-> IF named /\ f.file = 1 /\ p # Unknown THEN 1 ELSE 0, line |-> p.line, col |-> p.col]
ShowTrace(files, tr, named) ==
    LET m == Mode("runtime")
        infos == <<>> \o [k \in 1..Len(files) |-> TextInfo(files[k], m)]         \* \o : evaluated once
    IN  [i \in 1..Len(tr) |-> ShowFrame(infos, tr[i], named, m)]

-----------------------------------------------------------------------------
(* 15.11.4.4 applied to the thrown value: the text of the error Run returns.   *)
(* -> [und] | [known: the whole text is specified] | [name, the message is not  *)
(* specified: the text is name ": " followed by a non-empty message]            *)
S_colonSpace == <<58, 32>>
ErrText(st, v) ==
    IF "cname" \notin DOMAIN st.H[v.id].fn THEN [und |-> TRUE]        \* one of the built-in prototype objects: not generated
    ELSE IF D("D19_error_text_from_construction") THEN
        \* otto formats the name and message the Error instance was CREATED with
        (LET fn == st.H[v.id].fn
         IN  IF fn.cmsg.t = "unmodelled" THEN [und |-> FALSE, known |-> FALSE, name |-> fn.cname, text |-> <<>>]
             ELSE [und |-> FALSE, known |-> TRUE, name |-> fn.cname,
                   text |-> IF fn.cname = <<>> THEN fn.cmsg.s ELSE IF fn.cmsg.s = <<>> THEN fn.cname
                            ELSE fn.cname \o S_colonSpace \o fn.cmsg.s])
    ELSE IF D("D19_internal_error_text_static_name") /\ st.H[v.id].fn.raw THEN
        \* an error raised by the interpreter that reaches Run without passing through any try statement
        \* is formatted with the name of its constructor as built in, whatever the prototype's name is now
        \* (its message is the interpreter's own text, except for an error created with a known
        \* message: D19_array_length_rangeerror_no_message creates one with the empty message)
        (LET g == C!OM!GetProp(st.H, v.id, S_message)
             cn == st.H[v.id].fn.cname
         IN  IF g.has /\ g.d.k = "data" /\ g.d.v.t \in {"str", "undef"}
             THEN LET ms == IF g.d.v.t = "undef" THEN <<>> ELSE g.d.v.s
                  IN  [und |-> FALSE, known |-> TRUE, name |-> cn, text |-> IF ms = <<>> THEN cn ELSE cn \o S_colonSpace \o ms]
             ELSE [und |-> FALSE, known |-> FALSE, name |-> cn, text |-> <<>>])
    ELSE
    \* [[Get]] of a data property (own or inherited) and ToString of a primitive: nothing here runs
    \* script code; an accessor or an object value leaves the modelled fragment
    LET Get(p) == LET g == C!OM!GetProp(st.H, v.id, p)
                  IN  IF ~g.has THEN [ok |-> TRUE, has |-> FALSE, v |-> Undef]
                      ELSE IF g.d.k # "data" THEN [ok |-> FALSE, has |-> TRUE, v |-> Undef]
                      ELSE [ok |-> g.d.v.t # "obj", has |-> TRUE, v |-> g.d.v]
        nm == Get(S_name)                                                                   \* step 3
        mg == Get(S_message)                                                                \* step 5
    IN  IF ~nm.ok \/ ~mg.ok THEN [und |-> TRUE]
        \* D19_error_text_missing_name_static: when NO object of the prototype chain has a name property
        \* otto takes the built-in name of the constructor the instance was made by
        ELSE LET ns == IF nm.v.t = "undef"
                       THEN (IF ~nm.has /\ D("D19_error_text_missing_name_static") THEN st.H[v.id].fn.cname ELSE S_Error)
                       ELSE C!OPS!ToStringPrim(nm.v)                                         \* step 4
             IN  IF mg.v.t = "unmodelled" THEN [und |-> FALSE, known |-> FALSE, name |-> ns, text |-> <<>>]
                 ELSE LET ms == IF mg.v.t = "undef" THEN <<>> ELSE C!OPS!ToStringPrim(mg.v)   \* step 6-7
                      IN  [und |-> FALSE, known |-> TRUE, name |-> ns,
                           text |-> IF ns = <<>> THEN ms                                    \* step 8
                                    ELSE IF ms = <<>> THEN ns                               \* step 9
                                    ELSE ns \o S_colonSpace \o ms]                          \* step 10

-----------------------------------------------------------------------------
(* the initial state of a C19 run *)
S_M == <<77>>
S_CB == <<67, 66>>
S_stringify == <<115, 116, 114, 105, 110, 103, 105, 102, 121>>
S_toFixed == <<116, 111, 70, 105, 120, 101, 100>>
S_toExponential == <<116, 111, 69, 120, 112, 111, 110, 101, 110, 116, 105, 97, 108>>
S_toPrecision == <<116, 111, 80, 114, 101, 99, 105, 115, 105, 111, 110>>

Setup(fuel, tlimit) ==
    LET s0 == C!State0(fuel)
        W(H, o, n, v) == C!DefData(H, o, n, v, TRUE, FALSE, TRUE)
        m  == C!Alloc(s0, [C!OM!NewObj("Function", C!FunctionProto) EXCEPT !.fn = [k |-> "hostmsg"]])
        cb == C!Alloc(m.st, [C!OM!NewObj("Function", C!FunctionProto) EXCEPT !.fn = [k |-> "hostcb"]])
        fe == C!Alloc(cb.st, C!Builtin("AP_forEach"))
        np == C!Alloc(fe.st, C!OM!NewObj("Object", C!ObjectProto))          \* stands for Number.prototype
        f1 == C!Alloc(np.st, C!Builtin("NP_toString"))
        f2 == C!Alloc(f1.st, C!Builtin("NP_toFixed"))
        f3 == C!Alloc(f2.st, C!Builtin("NP_toExponential"))
        f4 == C!Alloc(f3.st, C!Builtin("NP_toPrecision"))
        js == C!Alloc(f4.st, C!OM!NewObj("Object", C!ObjectProto))          \* the JSON object
        sf == C!Alloc(js.st, C!Builtin("JSON_stringify"))
        h1 == W(W(sf.st.H, C!GlobalObj, S_M, ObjV(m.id)), C!GlobalObj, S_CB, ObjV(cb.id))
        h2 == W(h1, C!ArrayProto, C!S_forEach, ObjV(fe.id))
        h3 == W(W(W(W(h2, np.id, S_toString, ObjV(f1.id)), np.id, S_toFixed, ObjV(f2.id)), np.id, S_toExponential, ObjV(f3.id)),
                np.id, S_toPrecision, ObjV(f4.id))
        h4 == W(W(h3, js.id, S_stringify, ObjV(sf.id)), C!GlobalObj, S_JSON, ObjV(js.id))
    IN  [C!SetH(sf.st, h4) EXCEPT !.tlimit = tlimit, !.numproto = np.id]

-----------------------------------------------------------------------------
(* the observable outcome of Run(source) *)
NoErr == <<>>
Outcome(c, files, named) ==
    CASE c.ty = "normal" ->
            [und |-> FALSE, log |-> c.st.log, v |-> C!Proj(c.st, IF c.v = C!Empty THEN Undef ELSE c.v), err |-> NoErr]
      [] c.ty = "throw" ->
            IF C!IsO(c.v) /\ c.st.H[c.v.id].cls = "Error" THEN
                (LET t == ErrText(c.st, c.v)
                 IN  IF t.und THEN [und |-> TRUE]
                     ELSE [und |-> FALSE, log |-> c.st.log, v |-> Undef,
                           err |-> <<[known |-> t.known, name |-> t.name, text |-> t.text, traced |-> TRUE,
                                      frames |-> ShowTrace(files, c.st.H[c.v.id].fn.trace, named)]>>])
            ELSE IF C!IsO(c.v) THEN [und |-> TRUE]       \* an uncaught object that is no Error instance: not this property
            ELSE [und |-> FALSE, log |-> c.st.log, v |-> Undef,
                  err |-> <<[known |-> TRUE, name |-> <<>>, text |-> C!OPS!ToStringPrim(c.v), traced |-> FALSE, frames |-> <<>>]>>]
      [] OTHER -> [und |-> TRUE]

RunCase(prog, files, tlimit, named, fuel) == Outcome(C!RunBody(Setup(fuel, tlimit), prog, C!GlobalCx, FALSE), files, named)

(* does the observation obs = [log, v, err: <<>> or <<[text, traced, frames]>>] conform to the outcome o *)
IsPrefix(p, s) == Len(p) <= Len(s) /\ SubSeq(s, 1, Len(p)) = p
TextOk(e, text) ==
    IF e.known THEN text = e.text
    ELSE IF e.name = <<>> THEN text # <<>>
    ELSE IsPrefix(e.name \o S_colonSpace, text) /\ Len(text) > Len(e.name) + 2
Conforms(o, obs) ==
    /\ ~o.und
    /\ o.log = obs.log
    /\ IF o.err = NoErr THEN obs.err = <<>> /\ o.v = obs.v
       ELSE /\ Len(obs.err) = 1
            /\ TextOk(o.err[1], obs.err[1].text)
            /\ o.err[1].traced = obs.err[1].traced
            /\ o.err[1].frames = obs.err[1].frames

-----------------------------------------------------------------------------
(* syntax errors: the parser reports the position of the offending token.  The *)
(* case names the offset of that token in the broken text (the harness made   *)
(* the text by inserting or deleting one token at a place where it knows the  *)
(* result cannot be continued); the specification's part is the position.     *)
SyntaxPos(text, off) == LineCol(<<text>>, 1, 1, off, "syntax")
=============================================================================
