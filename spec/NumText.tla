----------------------------- MODULE NumText --------------------------------
(* Number <-> text (ES5 9.8.1, 15.7.4, 9.3.1 via Val!StrToNum).               *)
EXTENDS Val

(* compare the positive finite x = m * 2^e with 10^k: -1, 0, 1 *)
CmpPow10(m, e, k) ==
    IF k >= 0 THEN
        (IF e >= 0 THEN BnCmp(BnShl(m, e), BnPow10(k)) ELSE BnCmp(m, BnShl(BnPow10(k), -e)))
    ELSE (IF e >= 0 THEN 1 ELSE BnCmp(BnMul(m, BnPow10(-k)), BnShl(<<1>>, -e)))

(* n with 10^(n-1) <= x < 10^n *)
DecExp(m, e) ==
    LET E2 == e + BnBitLen(m) - 1
        n0 == ((E2 * 30103) \div 100000) + 1          \* floor(E2 * log10(2)) + 1, off by at most one
    IN  IF CmpPow10(m, e, n0) >= 0 THEN n0 + 1
        ELSE IF CmpPow10(m, e, n0 - 1) < 0 THEN n0 - 1
        ELSE n0

(* x / 10^(n-k) as an exact fraction num/den *)
ScaledNum(m, e, j) == BnMul(IF e >= 0 THEN BnShl(m, e) ELSE m, IF j < 0 THEN BnPow10(-j) ELSE <<1>>)
ScaledDen(e, j)    == BnMul(IF e < 0 THEN BnShl(<<1>>, -e) ELSE <<1>>, IF j > 0 THEN BnPow10(j) ELSE <<1>>)

(* the best k-digit candidate for x (closest, ties to even) among those that *)
(* round back to x; [ok, s, n].  9.8.1 does not tie n to the magnitude of x: *)
(* when x lies just below 10^n the candidate s + 1 = 10^k is the digit "1"   *)
(* with exponent n + 1 (String(1e-7) is "1e-7" although 1e-7 < 10^-7).       *)
Candidate(x, m, e, n, k) ==
    LET num == ScaledNum(m, e, n - k)
        den == ScaledDen(e, n - k)
        dm  == BnDivMod(num, den)
        lo  == dm.q
        hi  == BnAdd(lo, <<1>>)
        carry == BnCmp(hi, BnPow10(k)) >= 0
        okLo == BnBitLen(lo) > 0 /\ BnCmp(lo, BnPow10(k - 1)) >= 0 /\ DecToNum(FALSE, lo, n - k) = x
        okHi == DecToNum(FALSE, hi, n - k) = x
        twoR == BnShl(dm.rem, 1)
        c    == BnCmp(twoR, den)
        rLo  == [ok |-> TRUE, s |-> lo, n |-> n]
        rHi  == IF carry THEN [ok |-> TRUE, s |-> BnPow10(k - 1), n |-> n + 1] ELSE [ok |-> TRUE, s |-> hi, n |-> n]
    IN  IF okLo /\ okHi THEN
            (IF c < 0 THEN rLo ELSE IF c > 0 THEN rHi ELSE IF BnBit(lo, 0) = 0 THEN rLo ELSE rHi)
        ELSE IF okLo THEN rLo
        ELSE IF okHi THEN rHi
        ELSE [ok |-> FALSE]

(* smallest k in lo..hi with a candidate (17 always has one); monotone *)
RECURSIVE MinDigits(_, _, _, _, _, _)
MinDigits(x, m, e, n, lo, hi) ==
    IF lo = hi THEN (LET c == Candidate(x, m, e, n, lo) IN [k |-> lo, s |-> c.s, n |-> c.n])
    ELSE LET mid == (lo + hi) \div 2
             c == Candidate(x, m, e, n, mid)
         IN  IF c.ok THEN MinDigits(x, m, e, n, lo, mid) ELSE MinDigits(x, m, e, n, mid + 1, hi)

(* 9.8.1 steps 5-10: digits, n, k *)
ShortestDigits(x) ==       \* x positive finite
    LET m == MantOf(x)  e == ExpOf(x)
        n == DecExp(m, e)
        r == MinDigits(x, m, e, n, 1, 17)
    IN  [digits |-> DigitsBn(r.s), n |-> r.n, k |-> r.k]

ZerosStr(j) == [i \in 1..j |-> 48]

Layout(d, n) ==            \* 9.8.1 steps 6-10 for digit string d (k = Len(d)) and exponent n
    LET k == Len(d)
    IN  IF k <= n /\ n <= 21 THEN d \o ZerosStr(n - k)
        ELSE IF 0 < n /\ n <= 21 THEN SubSeq(d, 1, n) \o <<46>> \o SubSeq(d, n + 1, k)
        ELSE IF -6 < n /\ n <= 0 THEN <<48, 46>> \o ZerosStr(-n) \o d
        ELSE LET ex == n - 1
                 es == (IF ex < 0 THEN <<45>> ELSE <<43>>) \o DigitsNat(IF ex < 0 THEN -ex ELSE ex)
             IN  IF k = 1 THEN d \o <<101>> \o es
                 ELSE <<d[1], 46>> \o SubSeq(d, 2, k) \o <<101>> \o es

NumToStr(x) ==
    CASE x.c = "nan" -> S_NaN
      [] x.c = "inf" -> IF x.neg THEN S_mInfinity ELSE S_Infinity
      [] IsSafeInt(x) -> IntNumToStr(x)
      [] OTHER -> LET a == IF IsNeg(x) THEN NumNeg(x) ELSE x
                      sd == ShortestDigits(a)
                  IN  (IF IsNeg(x) THEN <<45>> ELSE <<>>) \o Layout(sd.digits, sd.n)
=============================================================================
