----------------------------- MODULE RegExpSpec -----------------------------
(* ES5.1 clause 15.10 (RegExp objects) and the RegExp halves of 15.5.4.10-14 *)
(* (String.prototype.match / replace / search / split).                      *)
(*                                                                           *)
(*   RxParse(src)            15.10.1 pattern grammar as a recogniser that    *)
(*                           builds the pattern tree (or a syntax error)     *)
(*   RxRun / RxMatchAt       15.10.2 backtracking matcher.  ES5 writes it in *)
(*                           continuation-passing style; here a continuation *)
(*                           is DEFUNCTIONALISED into a todo list of terms   *)
(*                           and frames, explored depth first in priority    *)
(*                           order (first success wins)                      *)
(*   RxExec, RxTest          15.10.6.2-3 with the lastIndex protocol         *)
(*   RxStrMatch, RxStrReplace, RxStrSearch, RxStrSplit   15.5.4.10-14        *)
(*                                                                           *)
(* Strings are sequences of UTF-16 code units, positions are 0-based code    *)
(* unit offsets as in the standard.  Known deviations of the implementation  *)
(* are the branches D("D10_...").                                            *)
EXTENDS StrOps

-----------------------------------------------------------------------------
(* 15.10.1 Patterns.  Tree nodes (records dispatched on k):                  *)
(*   disjunction  [k |-> "alt", alts |-> << <<term,...>>, ... >>]            *)
(*   terms        [k |-> "chr", u]        a single character                 *)
(*                [k |-> "any"]           .                                  *)
(*                [k |-> "set", neg, items]  class / class escape; items     *)
(*                     [k |-> "c", u] | [k |-> "r", lo, hi] | [k |-> "e", e] *)
(*                [k |-> "asrt", a]       a in bol eol wb nwb                *)
(*                [k |-> "look", neg, d]  (?= ) (?! )                        *)
(*                [k |-> "bref", n]       \n                                 *)
(*                [k |-> "grp", cap, d]   cap = 0: (?: ), else capture index *)
(*                [k |-> "q", min, max, greedy, a, pi, pc]  max = -1: inf;   *)
(*                     pi/pc = parenIndex/parenCount of 15.10.2.5            *)
(* A syntax error is [ok |-> FALSE, lax |-> b]: lax = TRUE marks the errors  *)
(* of the ES5 grammar that the web-compatibility grammar (ES2015 B.1.4)      *)
(* accepts with some meaning; generators do not use them as "must reject".   *)
PErr(lax) == [ok |-> FALSE, lax |-> lax]
RxAt(s, i) == IF i >= 1 /\ i <= Len(s) THEN s[i] ELSE -1
IsDec(u) == u >= 48 /\ u <= 57
IsAsciiLetter(u) == (u >= 65 /\ u <= 90) \/ (u >= 97 /\ u <= 122)
(* 7.6 IdentifierPart, exact for ASCII; every non-ASCII unit is treated as   *)
(* an identifier part (never generated after a backslash)                    *)
IsIdPartA(u) == IsAsciiLetter(u) \/ IsDec(u) \/ u = 36 \/ u = 95 \/ u >= 128
RxSyntaxChars == {94, 36, 92, 46, 42, 43, 63, 40, 41, 91, 93, 123, 125, 124}     \* ^ $ \ . * + ? ( ) [ ] { } |
DecVal(s, a, b) == SatNat(SubSeq(s, a, b), 1, 0)          \* value of the digits s[a..b], saturated

(* CharacterEscape (15.10.2.10) at position i (just after the backslash):    *)
(* [ok, u, i] the character and the next position                            *)
CharEscape(s, i) ==
    LET c == RxAt(s, i) IN
    CASE c = -1 -> PErr(FALSE)                                             \* pattern ends with a backslash
      [] c = 116 -> [ok |-> TRUE, u |-> 9, i |-> i + 1]                     \* ControlEscape t n v f r
      [] c = 110 -> [ok |-> TRUE, u |-> 10, i |-> i + 1]
      [] c = 118 -> [ok |-> TRUE, u |-> 11, i |-> i + 1]
      [] c = 102 -> [ok |-> TRUE, u |-> 12, i |-> i + 1]
      [] c = 114 -> [ok |-> TRUE, u |-> 13, i |-> i + 1]
      [] c = 99 -> IF IsAsciiLetter(RxAt(s, i + 1))                          \* c ControlLetter: value mod 32
                   THEN [ok |-> TRUE, u |-> RxAt(s, i + 1) % 32, i |-> i + 2] ELSE PErr(TRUE)
      [] c = 120 -> IF IsHexDigit(RxAt(s, i + 1)) /\ IsHexDigit(RxAt(s, i + 2))     \* HexEscapeSequence
                    THEN [ok |-> TRUE, u |-> 16 * HexVal(s[i + 1]) + HexVal(s[i + 2]), i |-> i + 3] ELSE PErr(TRUE)
      [] c = 117 -> IF \A j \in 1..4 : IsHexDigit(RxAt(s, i + j))            \* UnicodeEscapeSequence
                    THEN [ok |-> TRUE, u |-> 4096 * HexVal(s[i + 1]) + 256 * HexVal(s[i + 2]) + 16 * HexVal(s[i + 3]) + HexVal(s[i + 4]),
                          i |-> i + 5]
                    ELSE PErr(TRUE)
      [] c = 36 -> [ok |-> TRUE, u |-> 36, i |-> i + 1]                     \* \$ : "$" is an IdentifierPart, so ES5.1 taken literally
                                                                            \* forbids it; corrected in ES2015 (SyntaxCharacter)
      [] OTHER -> IF IsIdPartA(c) THEN PErr(TRUE)                           \* IdentityEscape: not an IdentifierPart
                  ELSE [ok |-> TRUE, u |-> c, i |-> i + 1]

EscSet(e) == [k |-> "set", neg |-> FALSE, items |-> <<[k |-> "e", e |-> e]>>]
ClassEscLetters == {100, 68, 115, 83, 119, 87}                              \* d D s S w W

(* AtomEscape (15.10.2.9), i just after the backslash *)
ParseAtomEscape(s, i) ==
    LET c == RxAt(s, i) IN
    IF c = 48 THEN (IF IsDec(RxAt(s, i + 1)) THEN PErr(TRUE)                \* DecimalEscape \0 [lookahead not digit]
                    ELSE [ok |-> TRUE, n |-> [k |-> "chr", u |-> 0], i |-> i + 1])
    ELSE IF IsDec(c) THEN LET j == SpanDigits(s, i)                         \* back-reference \n
                          IN  [ok |-> TRUE, n |-> [k |-> "bref", n |-> DecVal(s, i, j - 1)], i |-> j]
    ELSE IF c \in ClassEscLetters THEN [ok |-> TRUE, n |-> EscSet(c), i |-> i + 1]      \* CharacterClassEscape
    ELSE LET r == CharEscape(s, i)
         IN  IF ~r.ok THEN r ELSE [ok |-> TRUE, n |-> [k |-> "chr", u |-> r.u], i |-> r.i]

(* ClassAtom (15.10.2.17-19) at position j: an item [k "c"] or [k "e"] *)
ClassAtom(s, j) ==
    LET c == s[j] IN
    IF c # 92 THEN [ok |-> TRUE, n |-> [k |-> "c", u |-> c], i |-> j + 1]
    ELSE LET d == RxAt(s, j + 1) IN
         IF d = 48 THEN (IF IsDec(RxAt(s, j + 2)) THEN PErr(TRUE) ELSE [ok |-> TRUE, n |-> [k |-> "c", u |-> 0], i |-> j + 2])
         ELSE IF IsDec(d) THEN PErr(TRUE)                                   \* 15.10.2.19: not a character -> SyntaxError
         ELSE IF d = 98 THEN [ok |-> TRUE, n |-> [k |-> "c", u |-> 8], i |-> j + 2]     \* \b is <BS> in a class
         ELSE IF d \in ClassEscLetters THEN [ok |-> TRUE, n |-> [k |-> "e", e |-> d], i |-> j + 2]
         ELSE LET r == CharEscape(s, j + 1)
              IN  IF ~r.ok THEN r ELSE [ok |-> TRUE, n |-> [k |-> "c", u |-> r.u], i |-> r.i]

(* ClassRanges (15.10.2.14-16), j after "[" or "[^" *)
RECURSIVE ClassLoop(_, _, _, _)
ClassLoop(s, j, neg, items) ==
    IF j > Len(s) THEN PErr(FALSE)                                          \* unterminated class
    ELSE IF s[j] = 93 THEN [ok |-> TRUE, n |-> [k |-> "set", neg |-> neg, items |-> items], i |-> j + 1]
    ELSE LET a == ClassAtom(s, j) IN
         IF ~a.ok THEN a
         ELSE IF RxAt(s, a.i) = 45 /\ RxAt(s, a.i + 1) \notin {93, -1}       \* ClassAtom - ClassAtom
         THEN LET b == ClassAtom(s, a.i + 1) IN
              IF ~b.ok THEN b
              ELSE IF a.n.k # "c" \/ b.n.k # "c" THEN PErr(TRUE)            \* 15.10.2.15 CharacterRange: one character each
              ELSE IF a.n.u > b.n.u THEN PErr(FALSE)                        \*   i > j -> SyntaxError
              ELSE ClassLoop(s, b.i, neg, Append(items, [k |-> "r", lo |-> a.n.u, hi |-> b.n.u]))
         ELSE ClassLoop(s, a.i, neg, Append(items, a.n))
ParseClass(s, i) ==                                                         \* i just after "["
    IF RxAt(s, i) = 94 THEN ClassLoop(s, i + 1, TRUE, <<>>) ELSE ClassLoop(s, i, FALSE, <<>>)

(* Quantifier (15.10.2.7) at position i: [k |-> "none"] | [k |-> "err", lax] *)
(* | [k |-> "ok", min, max, greedy, i]                                       *)
QLazy(s, j, mn, mx) ==
    IF mx # -1 /\ mx < mn THEN [k |-> "err", lax |-> FALSE]                 \* 15.10.2.5: max finite and less than min
    ELSE IF RxAt(s, j) = 63 THEN [k |-> "ok", min |-> mn, max |-> mx, greedy |-> FALSE, i |-> j + 1]
    ELSE [k |-> "ok", min |-> mn, max |-> mx, greedy |-> TRUE, i |-> j]
(* the engine does not take a repeat count with a leading zero ({01} {1,02}) as a quantifier *)
LeadingZeroBrace(s, i) ==
    D("D10_quantifier_leading_zero_literal") /\ RxAt(s, i) = 123 /\
    LET j1 == SpanDigits(s, i + 1)
        lz(a, b) == b - a >= 2 /\ s[a] = 48                                 \* digits s[a..b-1] with a leading zero
        j2 == IF RxAt(s, j1) = 44 THEN SpanDigits(s, j1 + 1) ELSE j1
    IN  /\ j1 > i + 1
        /\ RxAt(s, j2) = 125
        /\ (lz(i + 1, j1) \/ (RxAt(s, j1) = 44 /\ lz(j1 + 1, j2)))
ParseQuant(s, i) ==
    LET c == RxAt(s, i) IN
    CASE c = 42 -> QLazy(s, i + 1, 0, -1)
      [] c = 43 -> QLazy(s, i + 1, 1, -1)
      [] c = 63 -> QLazy(s, i + 1, 0, 1)
      [] c = 123 ->
           LET j1 == SpanDigits(s, i + 1) IN
           IF LeadingZeroBrace(s, i) THEN [k |-> "none"]                    \* the engine reads "{01}" as literal text
           ELSE IF j1 = i + 1 THEN [k |-> "err", lax |-> TRUE]              \* "{" is not a PatternCharacter
           ELSE LET mn == DecVal(s, i + 1, j1 - 1) IN
                IF RxAt(s, j1) = 125 THEN QLazy(s, j1 + 1, mn, mn)           \* {n}
                ELSE IF RxAt(s, j1) # 44 THEN [k |-> "err", lax |-> TRUE]
                ELSE IF RxAt(s, j1 + 1) = 125 THEN QLazy(s, j1 + 2, mn, -1)  \* {n,}
                ELSE LET j2 == SpanDigits(s, j1 + 1) IN
                     IF j2 = j1 + 1 \/ RxAt(s, j2) # 125 THEN [k |-> "err", lax |-> TRUE]
                     ELSE QLazy(s, j2 + 1, mn, DecVal(s, j1 + 1, j2 - 1))  \* {n,m}
      [] OTHER -> [k |-> "none"]

RECURSIVE ParseDisj(_, _, _), ParseAlt(_, _, _, _), ParseTerm(_, _, _), ParseTerm0(_, _, _), ParseAtom(_, _, _), GoGroup(_, _, _)
(* Disjunction :: Alternative | Alternative "|" Disjunction ; nc = number of  *)
(* capturing parentheses to the left                                          *)
ParseDisj(s, i, nc) ==
    LET a == ParseAlt(s, i, nc, <<>>) IN
    IF ~a.ok THEN a
    ELSE IF RxAt(s, a.i) = 124
    THEN LET d == ParseDisj(s, a.i + 1, a.nc) IN
         IF ~d.ok THEN d
         ELSE [ok |-> TRUE, n |-> [k |-> "alt", alts |-> <<a.n>> \o d.n.alts], i |-> d.i, nc |-> d.nc]
    ELSE [ok |-> TRUE, n |-> [k |-> "alt", alts |-> <<a.n>>], i |-> a.i, nc |-> a.nc]
(* Alternative :: [empty] | Alternative Term *)
ParseAlt(s, i, nc, acc) ==
    IF i > Len(s) \/ s[i] \in {124, 41} THEN [ok |-> TRUE, n |-> acc, i |-> i, nc |-> nc]
    ELSE LET t == ParseTerm(s, i, nc) IN
         IF ~t.ok THEN t ELSE ParseAlt(s, t.i, t.nc, Append(acc, t.n))
(* Term :: Assertion | Atom | Atom Quantifier.  Every term node also carries  *)
(* id = its position in the source (used only to tell program points apart   *)
(* in the engine model GoRun below)                                          *)
(* the engine's grammar lets * + ? (and a lazy mark) follow an assertion:    *)
(* x* and x? of an empty-width x always succeed, x+ is x                     *)
AsrtTerm(s, a, j, nc) ==
    IF D("D10_quantified_assertion_accepted") /\ RxAt(s, j) \in {42, 43, 63}
    THEN [ok |-> TRUE, n |-> IF s[j] = 43 THEN [k |-> "asrt", a |-> a] ELSE [k |-> "grp", cap |-> 0, d |-> [k |-> "alt", alts |-> <<<<>>>>]],
          i |-> IF RxAt(s, j + 1) = 63 THEN j + 2 ELSE j + 1, nc |-> nc]
    ELSE [ok |-> TRUE, n |-> [k |-> "asrt", a |-> a], i |-> j, nc |-> nc]
ParseTerm(s, i, nc) ==
    LET r == ParseTerm0(s, i, nc) IN IF ~r.ok THEN r ELSE [r EXCEPT !.n = [id |-> i] @@ r.n]
ParseTerm0(s, i, nc) ==
    LET c == s[i] IN
    IF c = 94 THEN AsrtTerm(s, "bol", i + 1, nc)
    ELSE IF c = 36 THEN AsrtTerm(s, "eol", i + 1, nc)
    ELSE IF c = 92 /\ RxAt(s, i + 1) = 98 THEN AsrtTerm(s, "wb", i + 2, nc)
    ELSE IF c = 92 /\ RxAt(s, i + 1) = 66 THEN AsrtTerm(s, "nwb", i + 2, nc)
    ELSE IF c = 40 /\ RxAt(s, i + 1) = 63 /\ RxAt(s, i + 2) \in {61, 33}      \* (?= (?!
    THEN LET d == ParseDisj(s, i + 3, nc) IN
         IF ~d.ok THEN d
         ELSE IF RxAt(s, d.i) # 41 THEN PErr(FALSE)
         ELSE IF ParseQuant(s, d.i + 1).k # "none" THEN PErr(TRUE)          \* an Assertion takes no Quantifier
         ELSE [ok |-> TRUE, n |-> [k |-> "look", neg |-> s[i + 2] = 33, d |-> d.n], i |-> d.i + 1, nc |-> d.nc]
    ELSE LET a == ParseAtom(s, i, nc) IN
         IF ~a.ok THEN a
         ELSE LET q == ParseQuant(s, a.i) IN
              CASE q.k = "none" -> a
                [] q.k = "err" -> PErr(q.lax)
                [] q.k = "ok" -> [ok |-> TRUE, i |-> q.i, nc |-> a.nc,
                                  n |-> [k |-> "q", min |-> q.min, max |-> q.max, greedy |-> q.greedy, a |-> a.n,
                                         pi |-> nc, pc |-> a.nc - nc]]
(* the engine's own group syntax, accepted by the translation: (?flags) (?flags:...) (?P<name>...) (?<name>...) *)
(* with flags from i m s U; the tree built here only serves the classification                               *)
RECURSIVE SpanFlags(_, _)
SpanFlags(s, j) == IF RxAt(s, j) \in {105, 109, 115, 85} THEN SpanFlags(s, j + 1) ELSE j
RECURSIVE SpanName(_, _)
SpanName(s, j) == IF IsAsciiLetter(RxAt(s, j)) \/ IsDec(RxAt(s, j)) \/ RxAt(s, j) = 95 THEN SpanName(s, j + 1) ELSE j
GoGroup(s, i, nc) ==                              \* s[i] = "(", s[i+1] = "?"
    LET j == SpanFlags(s, i + 2)
        nm == IF RxAt(s, i + 2) = 80 /\ RxAt(s, i + 3) = 60 THEN i + 4 ELSE IF RxAt(s, i + 2) = 60 THEN i + 3 ELSE 0
        body(k, nc2, cap) ==
            LET d == ParseDisj(s, k, nc2) IN
            IF ~d.ok THEN d ELSE IF RxAt(s, d.i) # 41 THEN PErr(FALSE)
            ELSE [ok |-> TRUE, n |-> [k |-> "grp", cap |-> cap, d |-> d.n], i |-> d.i + 1, nc |-> d.nc]
    IN  IF RxAt(s, j) = 41                                                  \* also the empty flag group "(?)"
        THEN [ok |-> TRUE, n |-> [k |-> "grp", cap |-> 0, d |-> [k |-> "alt", alts |-> <<<<>>>>]], i |-> j + 1, nc |-> nc]
        ELSE IF j > i + 2 /\ RxAt(s, j) = 58 THEN body(j + 1, nc, 0)
        ELSE IF nm > 0 /\ SpanName(s, nm) > nm /\ RxAt(s, SpanName(s, nm)) = 62 THEN body(SpanName(s, nm) + 1, nc + 1, nc + 1)
        ELSE PErr(FALSE)
(* Atom :: PatternCharacter | . | \ AtomEscape | CharacterClass | ( Disjunction ) | (?: Disjunction ) *)
ParseAtom(s, i, nc) ==
    LET c == s[i] IN
    CASE c = 46 -> [ok |-> TRUE, n |-> [k |-> "any"], i |-> i + 1, nc |-> nc]
      [] c = 40 ->
           IF RxAt(s, i + 1) = 63
           THEN IF RxAt(s, i + 2) # 58
                THEN (IF D("D10_engine_group_syntax_accepted") THEN GoGroup(s, i, nc) ELSE PErr(FALSE))   \* "(?" not followed by : = !
                ELSE LET d == ParseDisj(s, i + 3, nc) IN
                     IF ~d.ok THEN d
                     ELSE IF RxAt(s, d.i) # 41 THEN PErr(FALSE)              \* unterminated group
                     ELSE [ok |-> TRUE, n |-> [k |-> "grp", cap |-> 0, d |-> d.n], i |-> d.i + 1, nc |-> d.nc]
           ELSE LET d == ParseDisj(s, i + 1, nc + 1) IN
                IF ~d.ok THEN d
                ELSE IF RxAt(s, d.i) # 41 THEN PErr(FALSE)
                ELSE [ok |-> TRUE, n |-> [k |-> "grp", cap |-> nc + 1, d |-> d.n], i |-> d.i + 1, nc |-> d.nc]
      [] c = 91 -> LET r == ParseClass(s, i + 1) IN IF ~r.ok THEN r ELSE [ok |-> TRUE, n |-> r.n, i |-> r.i, nc |-> nc]
      [] c = 92 -> LET r == ParseAtomEscape(s, i + 1) IN IF ~r.ok THEN r ELSE [ok |-> TRUE, n |-> r.n, i |-> r.i, nc |-> nc]
      [] c = 123 /\ LeadingZeroBrace(s, i) -> [ok |-> TRUE, n |-> [k |-> "chr", u |-> c], i |-> i + 1, nc |-> nc]
      [] c = 125 /\ D("D10_quantifier_leading_zero_literal") -> [ok |-> TRUE, n |-> [k |-> "chr", u |-> c], i |-> i + 1, nc |-> nc]
      [] c \in {93, 123, 125} -> PErr(TRUE)                                  \* ] { } are not PatternCharacters
      [] c \in RxSyntaxChars -> PErr(FALSE)                                  \* * + ? : nothing to repeat
      [] OTHER -> [ok |-> TRUE, n |-> [k |-> "chr", u |-> c], i |-> i + 1, nc |-> nc]

RECURSIVE Brefs(_), HasLook(_)
Brefs(n) ==                                    \* the back-reference numbers used in a node
    CASE n.k = "alt" -> UNION {UNION {Brefs(n.alts[a][t]) : t \in 1..Len(n.alts[a])} : a \in 1..Len(n.alts)}
      [] n.k = "bref" -> {n.n}
      [] n.k \in {"grp", "look"} -> Brefs(n.d)
      [] n.k = "q" -> Brefs(n.a)
      [] OTHER -> {}
HasLook(n) ==
    CASE n.k = "alt" -> \E a \in 1..Len(n.alts) : \E t \in 1..Len(n.alts[a]) : HasLook(n.alts[a][t])
      [] n.k = "look" -> TRUE
      [] n.k = "grp" -> HasLook(n.d)
      [] n.k = "q" -> HasLook(n.a)
      [] OTHER -> FALSE

RECURSIVE HasBigRepeat(_)
HasBigRepeat(n) ==                                \* a repeat count above the engine's limit of 1000
    CASE n.k = "alt" -> \E a \in 1..Len(n.alts) : \E t \in 1..Len(n.alts[a]) : HasBigRepeat(n.alts[a][t])
      [] n.k \in {"grp", "look"} -> HasBigRepeat(n.d)
      [] n.k = "q" -> n.min > 1000 \/ n.max > 1000 \/ HasBigRepeat(n.a)
      [] OTHER -> FALSE
RECURSIVE HasEmptyClass(_)
HasEmptyClass(n) ==                               \* [] or [^]
    CASE n.k = "alt" -> \E a \in 1..Len(n.alts) : \E t \in 1..Len(n.alts[a]) : HasEmptyClass(n.alts[a][t])
      [] n.k = "set" -> Len(n.items) = 0
      [] n.k \in {"grp", "look"} -> HasEmptyClass(n.d)
      [] n.k = "q" -> HasEmptyClass(n.a)
      [] OTHER -> FALSE

RECURSIVE Nullable(_), HasNullableLoop(_)
Nullable(n) ==                                    \* can the node match the empty string (syntactically)
    CASE n.k = "alt" -> \E a \in 1..Len(n.alts) : \A t \in 1..Len(n.alts[a]) : Nullable(n.alts[a][t])
      [] n.k \in {"asrt", "look", "bref"} -> TRUE
      [] n.k = "grp" -> Nullable(n.d)
      [] n.k = "q" -> n.min = 0 \/ Nullable(n.a)
      [] OTHER -> FALSE
HasNullableLoop(n) ==                             \* a quantified atom whose body can match the empty string
    CASE n.k = "alt" -> \E a \in 1..Len(n.alts) : \E t \in 1..Len(n.alts[a]) : HasNullableLoop(n.alts[a][t])
      [] n.k \in {"grp", "look"} -> HasNullableLoop(n.d)
      [] n.k = "q" -> Nullable(n.a) \/ HasNullableLoop(n.a)
      [] OTHER -> FALSE

(* Pattern :: Disjunction.  [ok, n, nc, nl] or a syntax error *)
RxParse(src) ==
    LET d == ParseDisj(src, 1, 0) IN
    IF ~d.ok THEN d
    ELSE IF d.i <= Len(src) THEN PErr(FALSE)                                \* unmatched ")"
    ELSE IF \E b \in Brefs(d.n) : b > d.nc THEN PErr(TRUE)                  \* 15.10.2.9: n > NCapturingParens
    ELSE [ok |-> TRUE, n |-> d.n, nc |-> d.nc, nl |-> HasNullableLoop(d.n)]

(* the constructs outside the portable subset: valid ES5, not translatable *)
RxUnsupported(P) == Brefs(P.n) # {} \/ HasLook(P.n)

-----------------------------------------------------------------------------
(* 15.10.2 Pattern semantics.  C = [inp, ic, ml]: Input, IgnoreCase,         *)
(* Multiline.  A state is (e, cap): endIndex and the captures, each          *)
(* <<start, end>> (0-based, end exclusive) or <<-1, -1>> for undefined.      *)

(* 15.10.2.8 Canonicalize *)
Cz(C, ch) ==
    IF ~C.ic THEN ch
    ELSE IF D("D10_icase_simple_fold") /\ ch = 8490 THEN 75                 \* Unicode simple folding: KELVIN SIGN ~ K
    ELSE IF D("D10_icase_simple_fold") /\ ch = 383 THEN 83                  \*                          LONG S ~ S
    ELSE LET cu == UpperU(ch) IN IF ch >= 128 /\ cu < 128 THEN ch ELSE cu

RxLineTerms == IF D("D10_multiline_lf_only") THEN {10} ELSE {10, 13, 8232, 8233}
RxDotExcl == IF D("D10_dot_lf_only") THEN {10} ELSE {10, 13, 8232, 8233}
WordSet == (48..57) \cup (65..90) \cup (97..122) \cup {95}
SpaceSet == IF D("D10_s_class_ascii") THEN {9, 10, 12, 13, 32} ELSE WSUnits  \* 15.10.2.12: WhiteSpace and LineTerminator

(* 15.10.2.12 CharacterClassEscape.  Under IgnoreCase the set is compared    *)
(* through Canonicalize (15.10.2.8 CharacterSetMatcher); for the complement  *)
(* sets \D \S \W this changes nothing (no character outside ASCII            *)
(* canonicalizes into ASCII, digits and white space have no case).           *)
EscHas(C, e, ch) ==
    CASE e = 100 -> IsDec(ch)
      [] e = 68 -> ~IsDec(ch)
      [] e = 119 -> \E a \in WordSet : Cz(C, a) = Cz(C, ch)
      [] e = 87 -> ch \notin WordSet /\ (D("D10_icase_simple_fold") => Cz(C, ch) \notin WordSet)   \* folded complement
      [] e = 115 -> ch \in SpaceSet
      [] e = 83 -> ch \notin SpaceSet
ItemHas(C, it, ch) ==
    CASE it.k = "c" -> Cz(C, it.u) = Cz(C, ch)
      [] it.k = "r" -> \E a \in it.lo..it.hi : Cz(C, a) = Cz(C, ch)
      [] it.k = "e" -> EscHas(C, it.e, ch)
SetHas(C, items, ch) == \E j \in 1..Len(items) : ItemHas(C, items[j], ch)

(* 15.10.2.6 Assertion *)
IsWordAt(C, k) == k >= 0 /\ k < Len(C.inp) /\ C.inp[k + 1] \in WordSet       \* IsWordChar(k), 0-based
AsrtOK(C, a, e) ==
    CASE a = "bol" -> e = 0 \/ (C.ml /\ C.inp[e] \in RxLineTerms)
      [] a = "eol" -> e = Len(C.inp) \/ (C.ml /\ C.inp[e + 1] \in RxLineTerms)
      [] a = "wb" -> IsWordAt(C, e - 1) # IsWordAt(C, e)
      [] a = "nwb" -> IsWordAt(C, e - 1) = IsWordAt(C, e)

RxFail == [ok |-> FALSE]
UndefCap == <<-1, -1>>
ResetCaps(cap, pi, pc) == [j \in 1..Len(cap) |-> IF j > pi /\ j <= pi + pc THEN UndefCap ELSE cap[j]]

(* The matcher.  todo = the continuation: a list of terms still to be        *)
(* matched in order, interleaved with frames                                 *)
(*   [k "close", idx, s]          end of capturing group idx opened at s     *)
(*   [k "rep", q, min, max]       RepeatMatcher(m, min, max, ...) (15.10.2.5)*)
(*   [k "chk", q, min, max, e0]   its continuation d (step 2)                *)
(* RxRun returns the first successful state in priority order or RxFail.     *)
RECURSIVE RxRun(_, _, _, _), RxAlts(_, _, _, _, _, _)
RxRun(C, todo, e, cap) ==
    IF Len(todo) = 0 THEN [ok |-> TRUE, e |-> e, cap |-> cap]
    ELSE LET t == todo[1]
             rest == Tail(todo)
             more == e < Len(C.inp)
    IN  CASE t.k = "chr" ->                                                 \* 15.10.2.8 CharacterSetMatcher, one element
               IF more /\ Cz(C, C.inp[e + 1]) = Cz(C, t.u) THEN RxRun(C, rest, e + 1, cap) ELSE RxFail
          [] t.k = "any" ->                                                 \* all characters except LineTerminator
               IF more /\ C.inp[e + 1] \notin RxDotExcl THEN RxRun(C, rest, e + 1, cap) ELSE RxFail
          [] t.k = "set" ->
               IF more /\ (SetHas(C, t.items, C.inp[e + 1]) # t.neg) THEN RxRun(C, rest, e + 1, cap) ELSE RxFail
          [] t.k = "asrt" -> IF AsrtOK(C, t.a, e) THEN RxRun(C, rest, e, cap) ELSE RxFail
          [] t.k = "alt" -> RxAlts(C, t.alts, 1, rest, e, cap)              \* 15.10.2.3
          [] t.k = "grp" ->                                                 \* 15.10.2.8 ( Disjunction )
               RxRun(C, <<t.d>> \o (IF t.cap > 0 THEN <<[k |-> "close", idx |-> t.cap, s |-> e]>> ELSE <<>>) \o rest, e, cap)
          [] t.k = "close" -> RxRun(C, rest, e, [cap EXCEPT ![t.idx] = <<t.s, e>>])
          [] t.k = "q" -> RxRun(C, <<[k |-> "rep", q |-> t, min |-> t.min, max |-> t.max]>> \o rest, e, cap)
          [] t.k = "rep" ->                                                 \* 15.10.2.5 RepeatMatcher
               IF t.max = 0 THEN RxRun(C, rest, e, cap)                     \* step 1
               ELSE LET capr == IF D("D10_captures_not_reset") THEN cap
                                ELSE ResetCaps(cap, t.q.pi, t.q.pc)         \* step 4
                        body == <<t.q.a, [k |-> "chk", q |-> t.q, min |-> t.min, max |-> t.max, e0 |-> e]>> \o rest
                    IN  IF t.min # 0 THEN RxRun(C, body, e, capr)           \* step 5
                        ELSE IF ~t.q.greedy
                        THEN LET z == RxRun(C, rest, e, cap)                \* step 6
                             IN  IF z.ok THEN z ELSE RxRun(C, body, e, capr)
                        ELSE LET z == RxRun(C, body, e, capr)               \* steps 7-9
                             IN  IF z.ok THEN z ELSE RxRun(C, rest, e, cap)
          [] t.k = "chk" ->                                                 \* step 2: continuation d
               IF t.min = 0 /\ e = t.e0 THEN RxFail                    \* step 2.1: empty iteration
               ELSE RxRun(C, <<[k |-> "rep", q |-> t.q, min |-> IF t.min = 0 THEN 0 ELSE t.min - 1,
                                max |-> IF t.max = -1 THEN -1 ELSE t.max - 1]>> \o rest, e, cap)
RxAlts(C, alts, i, rest, e, cap) ==
    LET z == RxRun(C, alts[i] \o rest, e, cap)
    IN  IF z.ok \/ i = Len(alts) THEN z ELSE RxAlts(C, alts, i + 1, rest, e, cap)

(* The implementation's engine on patterns with a quantified atom whose body  *)
(* can match the empty string (named deviation only).  Go's regexp explores   *)
(* the same alternatives in the same priority order, but (i) a thread that    *)
(* reaches a program point it has already reached at the same input position  *)
(* is dropped (the visited set of backtrack.go / the thread list of the Pike   *)
(* VM) - this replaces the "empty iteration fails" rule of 15.10.2.5 step 2.1  *)
(* - and (ii) quantifiers are compiled as in regexp/syntax: x{n,m} = n copies  *)
(* and m-n nested optional copies, x{n,} = n-1 copies and x+, x* = (x+)? when  *)
(* x can match the empty string.  A program point is the todo list (without    *)
(* the dynamic start offsets of open groups); frames:                          *)
(*   [k "gl", q] the loop instruction L: alt(body -> L, exit)                  *)
(*   [k "ge", q] the entry of (x+)?      [k "gcopy", q, left] copies before x+ *)
(*   [k "gcopyf", q, left, opt], [k "gq", q, left]  copies / nested optionals  *)
GoKey(todo, e) == <<[j \in 1..Len(todo) |-> IF todo[j].k = "close" THEN [k |-> "close", idx |-> todo[j].idx] ELSE todo[j]], e>>
RECURSIVE GoRun(_, _, _, _, _), GoAlts(_, _, _, _, _, _, _)
GoChoice(C, first, second, e, capFirst, capSecond, vis) ==
    LET z == GoRun(C, first, e, capFirst, vis) IN IF z.ok THEN z ELSE GoRun(C, second, e, capSecond, z.vis)
GoRun(C, todo, e, cap, vis) ==
    IF Len(todo) = 0 THEN [ok |-> TRUE, e |-> e, cap |-> cap, vis |-> vis]
    ELSE IF GoKey(todo, e) \in vis THEN [ok |-> FALSE, vis |-> vis]
    ELSE LET t == todo[1]
             rest == Tail(todo)
             v1 == vis \cup {GoKey(todo, e)}
             more == e < Len(C.inp)
             no == [ok |-> FALSE, vis |-> v1]
             capr(q) == IF D("D10_captures_not_reset") THEN cap ELSE ResetCaps(cap, q.pi, q.pc)
             body(q, tail) == <<q.a, tail>> \o rest
    IN  CASE t.k = "chr" -> IF more /\ Cz(C, C.inp[e + 1]) = Cz(C, t.u) THEN GoRun(C, rest, e + 1, cap, v1) ELSE no
          [] t.k = "any" -> IF more /\ C.inp[e + 1] \notin RxDotExcl THEN GoRun(C, rest, e + 1, cap, v1) ELSE no
          [] t.k = "set" -> IF more /\ (SetHas(C, t.items, C.inp[e + 1]) # t.neg) THEN GoRun(C, rest, e + 1, cap, v1) ELSE no
          [] t.k = "asrt" -> IF AsrtOK(C, t.a, e) THEN GoRun(C, rest, e, cap, v1) ELSE no
          [] t.k = "alt" -> GoAlts(C, t.alts, 1, rest, e, cap, v1)
          [] t.k = "grp" ->
               GoRun(C, <<t.d>> \o (IF t.cap > 0 THEN <<[k |-> "close", idx |-> t.cap, s |-> e]>> ELSE <<>>) \o rest, e, cap, v1)
          [] t.k = "close" -> GoRun(C, rest, e, [cap EXCEPT ![t.idx] = <<t.s, e>>], v1)
          [] t.k = "q" ->
               IF t.max = -1
               THEN (IF t.min = 0 THEN GoRun(C, <<[k |-> IF Nullable(t.a) THEN "ge" ELSE "gl", q |-> t]>> \o rest, e, cap, v1)
                     ELSE GoRun(C, <<[k |-> "gcopy", q |-> t, left |-> t.min - 1]>> \o rest, e, cap, v1))
               ELSE GoRun(C, <<[k |-> "gcopyf", q |-> t, left |-> t.min, opt |-> t.max - t.min]>> \o rest, e, cap, v1)
          [] t.k = "gcopy" ->                                               \* x{n,}: n-1 copies, then x+ = body ; L
               GoRun(C, body(t.q, IF t.left > 0 THEN [t EXCEPT !.left = t.left - 1] ELSE [k |-> "gl", q |-> t.q]), e, capr(t.q), v1)
          [] t.k = "gcopyf" ->                                              \* x{n,m}: n copies, then the optional ones
               IF t.left > 0 THEN GoRun(C, body(t.q, [t EXCEPT !.left = t.left - 1]), e, capr(t.q), v1)
               ELSE GoRun(C, <<[k |-> "gq", q |-> t.q, left |-> t.opt]>> \o rest, e, cap, v1)
          [] t.k = "gq" ->                                                  \* (x(x(x)?)?)?
               IF t.left = 0 THEN GoRun(C, rest, e, cap, v1)
               ELSE IF t.q.greedy THEN GoChoice(C, body(t.q, [t EXCEPT !.left = t.left - 1]), rest, e, capr(t.q), cap, v1)
               ELSE GoChoice(C, rest, body(t.q, [t EXCEPT !.left = t.left - 1]), e, cap, capr(t.q), v1)
          [] t.k \in {"ge", "gl"} ->                                        \* alt(body -> L, exit)
               IF t.q.greedy THEN GoChoice(C, body(t.q, [k |-> "gl", q |-> t.q]), rest, e, capr(t.q), cap, v1)
               ELSE GoChoice(C, rest, body(t.q, [k |-> "gl", q |-> t.q]), e, cap, capr(t.q), v1)
GoAlts(C, alts, i, rest, e, cap, vis) ==
    LET z == GoRun(C, alts[i] \o rest, e, cap, vis)
    IN  IF z.ok \/ i = Len(alts) THEN z ELSE GoAlts(C, alts, i + 1, rest, e, cap, z.vis)

(* [[Match]](S, index) of 15.10.2.2 *)
RxMatchAt(C, P, i) ==
    IF D("D10_nullable_loop_engine_semantics") /\ P.nl
    THEN GoRun(C, <<P.n>>, i, [j \in 1..P.nc |-> UndefCap], {})
    ELSE RxRun(C, <<P.n>>, i, [j \in 1..P.nc |-> UndefCap])

(* the search loop of 15.10.6.2 step 9: first index >= i with a match *)
RECURSIVE RxFindFrom(_, _, _)
RxFindFrom(C, P, i) ==
    IF i > Len(C.inp) THEN RxFail
    ELSE LET r == RxMatchAt(C, P, i)
         IN  IF r.ok THEN [ok |-> TRUE, s |-> i, e |-> r.e, cap |-> r.cap] ELSE RxFindFrom(C, P, i + 1)

-----------------------------------------------------------------------------
(* 15.10.4.1 new RegExp(pattern, flags) and 15.10.7 instance properties.     *)
(* A RegExp object is [P, g, ic, ml, li]: the parsed pattern, the three      *)
(* flags and the current VALUE of the writable lastIndex property.           *)
RxFlags(f) ==                                   \* F contains only g, i, m, each at most once
    LET cnt(u) == Cardinality({j \in 1..Len(f) : f[j] = u}) IN
    IF (~D("D10_unknown_flags_ignored") /\ \E j \in 1..Len(f) : f[j] \notin {103, 105, 109}) \/ cnt(103) > 1 \/ cnt(105) > 1 \/ cnt(109) > 1
    THEN [ok |-> FALSE]
    ELSE [ok |-> TRUE, g |-> cnt(103) = 1, ic |-> cnt(105) = 1, ml |-> cnt(109) = 1]
(* "ok" | "syntax" (SyntaxError required) | "lax" (ES5 grammar rejects, the   *)
(* web-compatibility grammar accepts) | "unsupported" (valid ES5 outside the  *)
(* portable subset: the property requires an error)                           *)
RxClassify(src, flags) ==
    LET P == RxParse(src)  F == RxFlags(flags) IN
    IF ~P.ok THEN (IF P.lax THEN "lax" ELSE "syntax")
    ELSE IF ~F.ok THEN "syntax"
    ELSE IF RxUnsupported(P) THEN "unsupported" ELSE "ok"
RxNew(src, flags) ==                            \* for RxClassify(src, flags) = "ok"
    LET P == RxParse(src)  F == RxFlags(flags)
    IN  [P |-> P, g |-> F.g, ic |-> F.ic, ml |-> F.ml, li |-> IntV(0)]
(* the constructor as an outcome: [thr |-> "" , X |-> object] or an error; "Unsupported" stands for *)
(* "some error" (the property does not fix the class for untranslatable patterns)              *)
RxConstruct(src, flags) ==
    LET c == RxClassify(src, flags) IN
    IF c = "ok" THEN (IF (D("D10_empty_class_rejected") /\ HasEmptyClass(RxParse(src).n))
                         \/ (D("D10_repeat_count_limit") /\ HasBigRepeat(RxParse(src).n)) THEN [thr |-> "SyntaxError"]
                      ELSE [thr |-> "", X |-> RxNew(src, flags)])
    ELSE IF c = "unsupported" THEN [thr |-> "Unsupported"]
    ELSE [thr |-> "SyntaxError"]                                            \* 15.10.4.1
(* The translation layer's own bracket scan (it reports unmatched ")", an unterminated group or class *)
(* itself, every other malformation is left to the engine's compiler): needed by a deviation only.   *)
RECURSIVE OBracket(_, _), OGroup(_, _), OScan(_, _)
OBracket(s, i) ==                                 \* i just after "[": [i |-> after "]", bad]
    IF i > Len(s) THEN [i |-> i, bad |-> TRUE]
    ELSE IF s[i] = 93 THEN [i |-> i + 1, bad |-> FALSE]
    ELSE OBracket(s, IF s[i] = 92 THEN i + 2 ELSE i + 1)
OGroup(s, i) ==                                   \* i just after "("
    IF i > Len(s) THEN [i |-> i, bad |-> TRUE]
    ELSE IF s[i] = 41 THEN [i |-> i + 1, bad |-> FALSE]
    ELSE IF s[i] = 92 THEN OGroup(s, i + 2)
    ELSE IF s[i] = 40 THEN (LET g == OGroup(s, i + 1) IN IF g.bad THEN g ELSE OGroup(s, g.i))
    ELSE IF s[i] = 91 THEN (LET b == OBracket(s, i + 1) IN IF b.bad THEN b ELSE OGroup(s, b.i))
    ELSE OGroup(s, i + 1)
OScan(s, i) ==
    IF i > Len(s) THEN FALSE
    ELSE IF s[i] = 41 THEN TRUE
    ELSE IF s[i] = 92 THEN OScan(s, i + 2)
    ELSE IF s[i] = 40 THEN (LET g == OGroup(s, i + 1) IN g.bad \/ OScan(s, g.i))
    ELSE IF s[i] = 91 THEN (LET b == OBracket(s, i + 1) IN b.bad \/ OScan(s, b.i))
    ELSE OScan(s, i + 1)
RECURSIVE OErr(_, _, _)
OErr(s, i, cls) ==                                \* it also reports \1..\7 (single digit), \8, \9 and (?= (?! itself
    IF i > Len(s) THEN FALSE
    ELSE IF s[i] = 92
    THEN LET c == RxAt(s, i + 1)  c2 == RxAt(s, i + 2) IN
         IF (c >= 49 /\ c <= 55 /\ ~(c2 >= 48 /\ c2 <= 55)) \/ c \in {56, 57} THEN TRUE ELSE OErr(s, i + 2, cls)
    ELSE IF cls THEN OErr(s, i + 1, s[i] # 93)
    ELSE IF s[i] = 91 THEN OErr(s, i + 1, TRUE)
    ELSE IF s[i] = 40 /\ RxAt(s, i + 1) = 63 /\ RxAt(s, i + 2) \in {61, 33} THEN TRUE
    ELSE OErr(s, i + 1, FALSE)
(* the constructor reached through new RegExp ("ctor") or a literal ("lit") *)
RxConstructF(src, flags, form) ==
    LET k == RxConstruct(src, flags) IN
    IF k.thr = "SyntaxError" /\ form = "ctor" /\ D("D10_malformed_pattern_typeerror") /\ RxFlags(flags).ok /\ (OScan(src, 1) \/ OErr(src, 1, FALSE))
    THEN [thr |-> "TypeError"] ELSE k
RxCtx(X, S) == [inp |-> S, ic |-> X.ic, ml |-> X.ml]
(* 15.10.7.1-5 the instance properties: values of global, ignoreCase, multiline, lastIndex, then      *)
(* writable / enumerable / configurable of source, global, ignoreCase, multiline (all false) and of   *)
(* lastIndex (writable only)                                                                          *)
RxProps(X) ==
    ArrV(<<BoolV(X.g), BoolV(X.ic), BoolV(X.ml), X.li>>
         \o [j \in 1..12 |-> BoolV(FALSE)] \o <<BoolV(TRUE), BoolV(FALSE), BoolV(FALSE)>>)

RxSub(S, a, b) == SubSeq(S, a + 1, b)           \* substring [a, b) with 0-based offsets
RECURSIVE Utf8Len(_)                              \* bytes of the UTF-8 form (BMP, no surrogates generated)
Utf8Len(s) == IF Len(s) = 0 THEN 0 ELSE (IF s[1] < 128 THEN 1 ELSE IF s[1] < 2048 THEN 2 ELSE 3) + Utf8Len(Tail(s))
(* an end offset as it is stored in lastIndex *)
RxOff(S, e) == IF D("D10_lastindex_byte_offset") THEN Utf8Len(RxSub(S, 0, e)) ELSE e
RxCapVal(S, c) == IF c[1] = -1 THEN Undef ELSE StrV(RxSub(S, c[1], c[2]))
(* 15.10.6.2 steps 12-20: the result array, as                               *)
(* [t |-> "match", index, input, caps |-> <<matched, capture 1, ...>>, attr] *)
(* attr = [[Writable]], [[Enumerable]], [[Configurable]] of "index" and of   *)
(* "input" (steps 15-16: all true)                                           *)
AllTrue6 == <<TRUE, TRUE, TRUE, TRUE, TRUE, TRUE>>
RxMatchArr(S, f) ==
    [t |-> "match", index |-> IntV(f.s), input |-> StrV(S), attr |-> AllTrue6,
     caps |-> <<StrV(RxSub(S, f.s, f.e))>> \o [j \in 1..Len(f.cap) |-> RxCapVal(S, f.cap[j])]]

(* the implementation searches the SLICE of the subject that starts at       *)
(* lastIndex: assertions see the slice start as the start of the input       *)
RxShift(f, d) ==
    IF ~f.ok THEN f
    ELSE [ok |-> TRUE, s |-> f.s + d, e |-> f.e + d,
          cap |-> [j \in 1..Len(f.cap) |-> IF f.cap[j][1] = -1 THEN f.cap[j] ELSE <<f.cap[j][1] + d, f.cap[j][2] + d>>]]

(* The implementation on a subject with non-ASCII characters (named deviation only): lastIndex is a   *)
(* BYTE offset b into the UTF-8 form.  The engine searches the byte slice from b; when b falls inside  *)
(* a character every leftover byte of it is read as one U+FFFD; offsets found are added back as bytes; *)
(* "index" is the number of code units of the byte prefix, an incomplete character counting one unit   *)
(* per byte.                                                                                           *)
U8W(u) == IF u < 128 THEN 1 ELSE IF u < 2048 THEN 2 ELSE 3
RECURSIVE CharsBefore(_, _, _, _)
CharsBefore(S, b, k, off) ==                      \* <<k, off>>: the k whole characters (off bytes) that end at or before b
    IF k < Len(S) /\ off + U8W(S[k + 1]) <= b THEN CharsBefore(S, b, k + 1, off + U8W(S[k + 1])) ELSE <<k, off>>
RxExecBytes(X, S, b, failed) ==
    LET kb == CharsBefore(S, b, 0, 0)
        k == kb[1]
        r == b - kb[2]                                                      \* bytes of character k+1 before b
        nf == IF r > 0 THEN U8W(S[k + 1]) - r ELSE 0                        \* its bytes after b: invalid UTF-8
        Tz == [j \in 1..nf |-> 65533] \o SubSeq(S, k + 1 + (IF r > 0 THEN 1 ELSE 0), Len(S))
        f == RxFindFrom(RxCtx(X, Tz), X.P, 0)
        bo(p) == b + (IF p <= nf THEN p ELSE nf + Utf8Len(SubSeq(Tz, nf + 1, p)))
        idx == IF f.s < nf THEN k + r + f.s ELSE k + (IF r > 0 THEN 1 ELSE 0) + (f.s - nf)
    IN  IF ~f.ok THEN failed
        ELSE [R |-> [X EXCEPT !.li = IntV(bo(f.e))], f |-> f,
              v |-> [t |-> "match", index |-> IntV(idx), input |-> StrV(S), attr |-> AllTrue6,
                     caps |-> <<StrV(RxSub(Tz, f.s, f.e))>> \o [j \in 1..Len(f.cap) |-> RxCapVal(Tz, f.cap[j])]]]

(* 15.10.6.2 RegExp.prototype.exec: [R |-> the object after, v |-> result, f |-> the match] *)
RxExec(X, S) ==
    LET len == Len(S)
        li == ToIntegerN(ToNumberPrim(X.li))                                \* steps 4-5
        i == IF X.g THEN li ELSE I(0)                                       \* steps 6-7
        failed == [R |-> [X EXCEPT !.li = IntV(0)], v |-> Null, f |-> RxFail]   \* step 9.a
        bytes == D("D10_lastindex_byte_offset") /\ X.g /\ \E j \in 1..len : S[j] >= 128
    IN  IF bytes THEN (IF NLt0(i) \/ NumCmp(i, I(Utf8Len(S))) > 0 THEN failed ELSE RxExecBytes(X, S, IntOf(i), failed))
        ELSE IF NLt0(i) \/ NumCmp(i, I(len)) > 0 THEN failed
        ELSE LET i0 == IntOf(i)
                 f == IF D("D10_exec_matches_on_slice")
                      THEN RxShift(RxFindFrom(RxCtx(X, RxSub(S, i0, len)), X.P, 0), i0)
                      ELSE RxFindFrom(RxCtx(X, S), X.P, i0)                 \* step 9
             IN  IF ~f.ok THEN failed
                 ELSE [R |-> IF X.g THEN [X EXCEPT !.li = IntV(RxOff(S, f.e))]
                             ELSE X,                                        \* step 11
                       v |-> RxMatchArr(S, f), f |-> f]
(* 15.10.6.3 test *)
RxTest(X, S) == LET x == RxExec(X, S) IN [R |-> x.R, v |-> BoolV(x.f.ok)]

(* the implementation's "all matches" (Go regexp FindAll): successive        *)
(* non-overlapping leftmost matches; an empty match that abuts the previous  *)
(* match is dropped; after an empty match the search moves on by one         *)
RECURSIVE GoFindAll(_, _, _, _, _, _)
GoFindAll(C, P, pos, prevEnd, n, acc) ==
    IF (n >= 0 /\ Len(acc) >= n) \/ pos > Len(C.inp) THEN acc
    ELSE LET f == RxFindFrom(C, P, pos) IN
         IF ~f.ok THEN acc
         ELSE LET empty == f.e = pos
                  acc2 == IF empty /\ f.s = prevEnd THEN acc ELSE Append(acc, f)
              IN  IF Len(acc2) < 0 THEN acc2
                  ELSE GoFindAll(C, P, IF empty THEN pos + 1 ELSE f.e, f.e, n, acc2)
GoAll(X, S) == GoFindAll(RxCtx(X, S), X.P, 0, -1, -1, <<>>)

(* 15.5.4.10 step 8: lastIndex := 0, then exec until it fails; an empty      *)
(* match advances lastIndex by one.  [R, fs |-> the matches]                 *)
RECURSIVE Es5MatchLoop(_, _, _, _)
Es5MatchLoop(X, S, prev, fs) ==
    LET x == RxExec(X, S) IN
    IF ~x.f.ok THEN [R |-> x.R, fs |-> fs]                                  \* 8.f.ii
    ELSE LET this == x.f.e                                                  \* 8.f.iii.1 (lastIndex after exec)
         IN  IF this = prev
             THEN Es5MatchLoop([x.R EXCEPT !.li = IntV(this + 1)], S, this + 1, Append(fs, x.f))   \* 8.f.iii.2
             ELSE Es5MatchLoop(x.R, S, this, Append(fs, x.f))               \* 8.f.iii.3
Es5AllMatches(X, S) == Es5MatchLoop([X EXCEPT !.li = IntV(0)], S, 0, <<>>)

(* 15.5.4.10 String.prototype.match(regexp) with a RegExp argument *)
RxStrMatch(X, S) ==
    IF ~X.g THEN (LET x == RxExec(X, S) IN [R |-> x.R, v |-> x.v])         \* step 7
    ELSE LET es == Es5AllMatches(X, S)
             fs == IF D("D10_match_global_findall") THEN GoAll(X, S) ELSE es.fs
         IN  IF Len(fs) = 0
             THEN [R |-> [X EXCEPT !.li = IntV(0)],
                   v |-> IF D("D10_match_global_no_match_undefined") THEN Undef ELSE Null]       \* step 8.g
             ELSE [R |-> [X EXCEPT !.li = IF D("D10_match_global_lastindex_end") THEN IntV(Utf8Len(RxSub(S, 0, fs[Len(fs)].e))) ELSE IntV(0)],   \* a byte offset
                   v |-> ArrV([j \in 1..Len(fs) |-> StrV(RxSub(S, fs[j].s, fs[j].e))])]

(* 15.5.4.11 Table 22: replacement text.  m = number of captures.            *)
(* $n / $nn with n > m are implementation-defined: RxReplDefined says         *)
(* whether a replacement string stays clear of them.                         *)
(* Where Table 22 says "implementation-defined" ($n with n > m; $nn with nn > m, which includes "$10"    *)
(* when there are fewer than 10 captures: the $n row does not apply to a $n that is followed by a digit) *)
(* the expansion carries the marker RxWild for the whole $n / $nn token: any text may stand there.  A   *)
(* result with markers is reported as a FRAME: the units before the first and after the last marker.    *)
RxWild == -1
RxFrame(u) ==
    LET ws == {j \in 1..Len(u) : u[j] = RxWild}
        lo == CHOOSE j \in ws : \A k \in ws : j <= k
        hi == CHOOSE j \in ws : \A k \in ws : j >= k
    IN  [t |-> "frame", pre |-> SubSeq(u, 1, lo - 1), suf |-> SubSeq(u, hi + 1, Len(u))]
RxResultStr(u) == IF \E j \in 1..Len(u) : u[j] = RxWild THEN RxFrame(u) ELSE StrV(u)
RECURSIVE RxExpand(_, _, _, _)
RxExpand(rep, i, S, f) ==
    IF i > Len(rep) THEN <<>>
    ELSE IF rep[i] # 36 \/ i = Len(rep) THEN <<rep[i]>> \o RxExpand(rep, i + 1, S, f)
    ELSE LET c == rep[i + 1]  m == Len(f.cap)
             capS(n) == IF f.cap[n][1] = -1 THEN <<>> ELSE RxSub(S, f.cap[n][1], f.cap[n][2])
         IN  CASE c = 36 -> <<36>> \o RxExpand(rep, i + 2, S, f)                                 \* $$
               [] c = 38 -> RxSub(S, f.s, f.e) \o RxExpand(rep, i + 2, S, f)                     \* $&
               [] c = 96 -> RxSub(S, 0, f.s) \o RxExpand(rep, i + 2, S, f)                       \* $`
               [] c = 39 -> RxSub(S, f.e, Len(S)) \o RxExpand(rep, i + 2, S, f)                  \* $'
               [] IsDec(c) /\ IsDec(RxAt(rep, i + 2)) ->                                         \* $nn
                    LET nn == (c - 48) * 10 + (rep[i + 2] - 48) IN
                    IF D("D10_replace_two_digit_ref_as_one") /\ c # 48 /\ c - 48 <= m
                    THEN capS(c - 48) \o RxExpand(rep, i + 2, S, f)
                    ELSE IF nn >= 1 /\ nn <= m THEN capS(nn) \o RxExpand(rep, i + 3, S, f)
                    ELSE IF nn = 0 THEN <<36>> \o RxExpand(rep, i + 1, S, f)                       \* "$00" is not in the table: unchanged
                    ELSE <<RxWild>> \o RxExpand(rep, i + 3, S, f)                                  \* nn > m: implementation-defined
               [] IsDec(c) ->                                                                    \* $n
                    IF c - 48 >= 1 /\ c - 48 <= m THEN capS(c - 48) \o RxExpand(rep, i + 2, S, f)
                    ELSE IF c = 48 THEN <<36>> \o RxExpand(rep, i + 1, S, f)                       \* "$0": unchanged
                    ELSE <<RxWild>> \o RxExpand(rep, i + 2, S, f)                                  \* n > m: implementation-defined
               [] OTHER -> <<36>> \o RxExpand(rep, i + 1, S, f)
RECURSIVE RxReplDefinedAt(_, _, _)
RxReplDefinedAt(rep, i, m) ==
    IF i >= Len(rep) THEN TRUE
    ELSE IF rep[i] # 36 THEN RxReplDefinedAt(rep, i + 1, m)
    ELSE LET c == rep[i + 1] IN
         IF c \in {36, 38, 96, 39} THEN RxReplDefinedAt(rep, i + 2, m)
         ELSE IF ~IsDec(c) THEN RxReplDefinedAt(rep, i + 1, m)
         ELSE IF IsDec(RxAt(rep, i + 2))
         THEN LET nn == (c - 48) * 10 + (rep[i + 2] - 48) IN (nn = 0 \/ nn <= m) /\ RxReplDefinedAt(rep, i + 3, m)
         ELSE (c = 48 \/ c - 48 <= m) /\ RxReplDefinedAt(rep, i + 2, m)
RxReplDefined(rep, m) == RxReplDefinedAt(rep, 1, m)

(* 15.5.4.11 String.prototype.replace(regexp, replaceValue).  rv is          *)
(*   [k |-> "str", s |-> units]                                              *)
(*   [k |-> "fn"]   a function that records its arguments and returns        *)
(*                  "[" + matched + "]"                                      *)
(*   [k |-> "fnret", v |-> value]  a function that records its arguments and *)
(*                  returns value (a primitive or a scripted conversion      *)
(*                  object of Ops.tla): the replacement is ToString(value),  *)
(*                  taken as it is - Table 22 applies to a replaceValue that *)
(*                  is NOT a function only                                   *)
(* result v = <<new string, log of argument lists>>                          *)
RECURSIVE RxReplLoop(_, _, _, _, _, _)
RxReplLoop(S, fs, j, last, rv, acc) ==          \* acc = [s |-> units so far, log |-> calls, clog |-> scripted conversions]
    IF j > Len(fs) THEN [s |-> acc.s \o RxSub(S, last, Len(S)), log |-> acc.log, clog |-> acc.clog]
    ELSE LET f == fs[j]
             args == <<StrV(RxSub(S, f.s, f.e))>> \o [n \in 1..Len(f.cap) |-> RxCapVal(S, f.cap[n])] \o <<IntV(f.s), StrV(S)>>
             conv == IF rv.k = "fnret" THEN ToStringV(rv.v, acc.clog) ELSE R(Undef, acc.clog)   \* 15.5.4.11: ToString(result of the call)
             piece == CASE rv.k = "fn" -> <<91>> \o RxSub(S, f.s, f.e) \o <<93>>
                        [] rv.k = "fnret" -> conv.v.s
                        [] OTHER -> RxExpand(rv.s, 1, S, f)
             acc2 == [s |-> acc.s \o RxSub(S, last, f.s) \o piece, clog |-> conv.log,
                      log |-> IF rv.k \in {"fn", "fnret"} THEN Append(acc.log, ArrV(args)) ELSE acc.log]
         IN  IF Len(acc2.s) < 0 THEN acc2 ELSE RxReplLoop(S, fs, j + 1, f.e, rv, acc2)
RxStrReplace(X, S, rv) ==
    LET first == RxFindFrom(RxCtx(X, S), X.P, 0)
        es == Es5AllMatches(X, S)
        fs == IF ~X.g THEN (IF first.ok THEN <<first>> ELSE <<>>)           \* "the first match"
              ELSE IF D("D10_replace_global_findall") THEN GoAll(X, S) ELSE es.fs
        r == RxReplLoop(S, fs, 1, 0, rv, [s |-> <<>>, log |-> <<>>, clog |-> <<>>])
        li == IF ~X.g THEN X.li                                             \* lastIndex is not mentioned for this case
              ELSE IF D("D10_replace_global_lastindex") THEN (IF Len(fs) = 0 THEN X.li ELSE IntV(Utf8Len(RxSub(S, 0, fs[Len(fs)].e))))   \* a byte offset
              ELSE IntV(0)                                                  \* "in the same manner as in match, including the update of lastIndex"
    IN  [R |-> [X EXCEPT !.li = li], v |-> ArrV(<<RxResultStr(r.s), ArrV(r.log)>>), clog |-> r.clog]
(* 15.5.4.11 with a searchValue that is not a RegExp: the first occurrence of searchString, m = 0 *)
RxStrReplaceS(S, search, rv) ==
    LET p == IndexFrom(S, search, 1)
        fs == IF p = 0 THEN <<>> ELSE <<[ok |-> TRUE, s |-> p - 1, e |-> p - 1 + Len(search), cap |-> <<>>]>>
        r == RxReplLoop(S, fs, 1, 0, rv, [s |-> <<>>, log |-> <<>>, clog |-> <<>>])
    IN  [v |-> ArrV(<<RxResultStr(r.s), ArrV(r.log)>>), clog |-> r.clog]

(* 15.5.4.12 String.prototype.search(regexp): lastIndex and global ignored, lastIndex unchanged *)
RxStrSearch(X, S) ==
    LET f == RxFindFrom(RxCtx(X, S), X.P, 0)
    IN  [R |-> X, v |-> IntV(IF ~f.ok THEN -1 ELSE IF D("D10_search_byte_offset") THEN Utf8Len(RxSub(S, 0, f.s)) ELSE f.s)]

(* 15.5.4.14 String.prototype.split(separator, limit) with a RegExp separator *)
RxLimit(limV) == IF limV.t = "undef" THEN MaxU32 ELSE ToUint32N(ToNumberPrim(limV))    \* step 5
RxFull(A, lim) == NumCmp(I(Len(A)), lim) = 0
RECURSIVE RxPushCaps(_, _, _, _, _)
RxPushCaps(A, S, cap, j, lim) ==                 \* step 13.c.iii.7
    IF j > Len(cap) THEN [A |-> A, full |-> FALSE]
    ELSE LET A2 == Append(A, RxCapVal(S, cap[j]))
         IN  IF RxFull(A2, lim) THEN [A |-> A2, full |-> TRUE] ELSE RxPushCaps(A2, S, cap, j + 1, lim)
RECURSIVE RxSplitLoop(_, _, _, _, _, _)
RxSplitLoop(C, P, lim, p, q, A) ==               \* step 13
    LET S == C.inp IN
    IF q >= Len(S) THEN Append(A, StrV(RxSub(S, p, Len(S))))                \* steps 14-15
    ELSE LET z == RxMatchAt(C, P, q) IN                                     \* SplitMatcher(S, q, R)
         IF ~z.ok \/ z.e = p THEN RxSplitLoop(C, P, lim, p, q + 1, A)       \* 13.b, 13.c.ii
         ELSE LET A1 == Append(A, StrV(RxSub(S, p, q)))                     \* 13.c.iii.1-2
              IN  IF RxFull(A1, lim) THEN A1
                  ELSE LET pc == RxPushCaps(A1, S, z.cap, 1, lim)
                       IN  IF pc.full THEN pc.A ELSE RxSplitLoop(C, P, lim, z.e, z.e, pc.A)
(* the implementation: FindAll, then cut between the matches *)
RECURSIVE OttoSplitLoop(_, _, _, _, _, _)
OttoSplitLoop(S, ms, j, last, limit, A) ==       \* limit = -1: none
    IF j > Len(ms)
    THEN (IF Len(A) # limit THEN Append(A, StrV(RxSub(S, last, Len(S)))) ELSE A)
    ELSE LET m == ms[j] IN
         IF m.s = m.e /\ (m.s = 0 \/ m.s = Len(S)) THEN OttoSplitLoop(S, ms, j + 1, last, limit, A)
         ELSE LET A1 == Append(A, StrV(RxSub(S, last, m.s)))
              IN  IF Len(A1) = limit THEN A1
                  ELSE LET room == IF limit < 0 THEN Len(m.cap) ELSE MinI(Len(m.cap), limit - Len(A1))
                           A2 == A1 \o [n \in 1..room |-> RxCapVal(S, m.cap[n])]
                       IN  IF Len(A2) = limit THEN A2 ELSE OttoSplitLoop(S, ms, j + 1, m.e, limit, A2)
RxStrSplit(X, S, limV) ==
    LET lim == RxLimit(limV)
        C == RxCtx(X, S)
    IN  [R |-> X,
         v |-> IF IsZero(lim) THEN ArrV(<<>>)                               \* step 9
               ELSE IF D("D10_split_regexp_findall")
               THEN ArrV(OttoSplitLoop(S, GoAll(X, S), 1, 0, IF limV.t = "undef" \/ lim.c # "int" THEN -1 ELSE lim.v, <<>>))
               ELSE IF Len(S) = 0                                           \* step 11
               THEN (IF RxMatchAt(C, X.P, 0).ok THEN ArrV(<<>>) ELSE ArrV(<<StrV(S)>>))
               ELSE ArrV(RxSplitLoop(C, X.P, lim, 0, 0, <<>>))]

(* assignment r.lastIndex = v (8.12.5: a writable data property) *)
RxSetLastIndex(X, v) == [R |-> [X EXCEPT !.li = v], v |-> v]
=============================================================================
