------------------------------ MODULE C13Judge ------------------------------
(* Judge for property C13 (direction code -> specification).  The harness    *)
(* evaluates Math functions and the URI functions on its own seeded random   *)
(* inputs on the implementation and records one event per line in            *)
(* trace.ndjson; this module decides for every event whether MathSpec /      *)
(* URISpec allow it:                                                         *)
(*   [k |-> "pt",   f, a (sequence of Nums), r]        r = Math.f(a...)      *)
(*   [k |-> "mono", f, pos, a1, a2, o, r1, r2]         two evaluations that  *)
(*        differ in argument pos (a1 < a2), o the other argument             *)
(*   [k |-> "inv",  g, x, r]                           r = composition g(x)  *)
(*   [k |-> "uri",  f, g, s, thr, out]                 out = g(f(s)) or f(s) *)
(* Events the strict specification rejects are judged again under the open   *)
(* deviations; only rejected events are printed (tag "dev" / "bad").         *)
EXTENDS MathConst, Json, TLC
CONSTANT OpenDev
VARIABLES jblk, jix

MS == INSTANCE MathSpec WITH Dev <- {}, KK <- MathK
ML == INSTANCE MathSpec WITH Dev <- OpenDev, KK <- MathK
US == INSTANCE URISpec WITH Dev <- {}
UL == INSTANCE URISpec WITH Dev <- OpenDev

File == ndJsonDeserialize("trace.ndjson")

UriRes(ev, dv) ==
    IF dv = "S" THEN (IF ev.g = "" THEN US!CallUri(ev.f, <<StrV(ev.s)>>, "lit", <<>>) ELSE US!CallUri2(ev.g, ev.f, <<StrV(ev.s)>>, "lit", <<>>))
    ELSE (IF ev.g = "" THEN UL!CallUri(ev.f, <<StrV(ev.s)>>, "lit", <<>>) ELSE UL!CallUri2(ev.g, ev.f, <<StrV(ev.s)>>, "lit", <<>>))
UriSame(w, ev) == w.thr = ev.thr /\ (w.thr # "" \/ w.v.s = ev.out)

(* an evaluation that only the deviating specification allows: relations that involve it are not judged *)
DevPoint(f, a, r) == ~MS!InClass(r, MS!Class(f, a)) /\ ML!InClass(r, ML!Class(f, a))
MonoArgs(ev, a) == IF ev.f \in {"pow", "atan2"} THEN (IF ev.pos = 1 THEN <<a, ev.o>> ELSE <<ev.o, a>>) ELSE <<a>>

Accept(ev, dv) ==
    CASE ev.k = "pt" -> IF dv = "S" THEN MS!InClass(ev.r, MS!Class(ev.f, ev.a)) /\ MS!PointExtra(ev.f, ev.a, ev.r)
                        ELSE ML!InClass(ev.r, ML!Class(ev.f, ev.a)) /\ ML!PointExtra(ev.f, ev.a, ev.r)
      [] ev.k = "mono" -> \/ MS!MonoOk(ev.f, ev.pos, ev.a1, ev.a2, ev.o, ev.r1, ev.r2)
                          \/ (dv = "L" /\ (DevPoint(ev.f, MonoArgs(ev, ev.a1), ev.r1) \/ DevPoint(ev.f, MonoArgs(ev, ev.a2), ev.r2)))
      [] ev.k = "inv" -> MS!InvOk(ev.g, ev.x, ev.r)
      [] ev.k = "uri" -> UriSame(UriRes(ev, dv), ev)

Want(ev) ==
    CASE ev.k = "pt" -> MS!Class(ev.f, ev.a)
      [] ev.k = "mono" -> [dir |-> MS!MonoDir(ev.f, ev.pos, ev.a1, ev.a2, ev.o)]
      [] ev.k = "inv" -> [g |-> ev.g]
      [] ev.k = "uri" -> (LET w == UriRes(ev, "S") IN [thr |-> w.thr, v |-> w.v])

K == 64
Init == jblk \in 1..K /\ jix = 0
Next == jix = 0 /\ jix' \in {j \in 1..Len(File) : j % K = jblk - 1} /\ UNCHANGED jblk
Check ==
    jix = 0 \/
    LET ev == File[jix]
    IN  \/ Accept(ev, "S")
        \/ PrintT("VJSON " \o ToJson([i |-> jix, tag |-> IF Accept(ev, "L") THEN "dev" ELSE "bad", ev |-> ev, want |-> Want(ev)]))
=============================================================================
