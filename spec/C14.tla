-------------------------------- MODULE C14 ---------------------------------
(* Generator for property C14: the standard library has the ES5 shape.        *)
(* The table of spec/LibShapeTab.tla is checked for internal consistency      *)
(* (ASSUME TableOK) and enumerated completely: one VJSON line per object, per *)
(* own property, per for-in subject and per distinguishing call, each with    *)
(* the observation ES5                                                        *)
(* prescribes (exp) and, where an open finding changes it, the observation    *)
(* under the named deviations (dev).  The harness replays every line on a     *)
(* fresh runtime, a runtime with underscore loaded and a Copy() of each.      *)
(* Besides the table: the family of function objects made at run time         *)
(* (spec/C14Fn.tla: targets x chains of Function.prototype.bind), one line    *)
(* "fn" per case with the complete observation 13.2 / 15.3.4.5 prescribe.     *)
EXTENDS Naturals, Sequences, FiniteSets, Json, TLC
CONSTANTS OpenDev, Deep          \* Deep: the thorough tier (larger family of run-time function objects)
VARIABLES blk, cs

S == INSTANCE LibShape WITH Dev <- {}
L == INSTANCE LibShape WITH Dev <- OpenDev

(* evaluated once each (constant-level definitions of the root module are cached) *)
STab == S!Tab
LTab == L!Tab

ASSUME S!TableOK(STab) \/ (PrintT(<<"TABLE-ISSUES", S!TableIssues(STab)>>) /\ FALSE)
(* the deviating table describes the same objects and properties *)
ASSUME /\ Len(LTab.objs) = Len(STab.objs) /\ Len(LTab.rows) = Len(STab.rows)
       /\ \A i \in 1..Len(STab.objs) : LTab.objs[i].id = STab.objs[i].id
       /\ \A i \in 1..Len(STab.rows) : LTab.rows[i].owner = STab.rows[i].owner /\ LTab.rows[i].name = STab.rows[i].name

(* Every line is changed by at most one open finding; then, whichever subset of the findings has been    *)
(* repaired in the tree, each line still equals exp (repaired) or dev (not repaired).  OpenDev holds the  *)
(* open findings that LibShapeTab mentions.  Deviations are data: fields of table entries.               *)
LD(d) == INSTANCE LibShape WITH Dev <- {d}
DRows == [d \in OpenDev |-> LD(d)!Rows]
DObjs == [d \in OpenDev |-> LD(d)!Objs]
DProbes == [d \in OpenDev |-> LD(d)!Probes]
NoCall(o) == [o EXCEPT !.callexp = 0]
RowLineDevs(k) == {d \in OpenDev : DRows[d][k] # STab.rows[k]}
CallLineDevs(i) == {d \in OpenDev : DObjs[d][i].callexp # STab.objs[i].callexp}
ObjLineDevs(i) == {d \in OpenDev : NoCall(DObjs[d][i]) # NoCall(STab.objs[i])}
                  \cup {d \in OpenDev : \E k \in 1..Len(STab.rows) : STab.rows[k].owner = STab.objs[i].id /\ DRows[d][k].kind = "missing"}
CrowdedLines ==
    {<<"row", STab.rows[k].owner, STab.rows[k].name, RowLineDevs(k)>> : k \in {x \in 1..Len(STab.rows) : Cardinality(RowLineDevs(x)) > 1}}
    \cup {<<"call", STab.objs[i].id, CallLineDevs(i)>> : i \in {x \in 1..Len(STab.objs) : Cardinality(CallLineDevs(x)) > 1}}
    \cup {<<"obj", STab.objs[i].id, ObjLineDevs(i)>> : i \in {x \in 1..Len(STab.objs) : Cardinality(ObjLineDevs(x)) > 1}}
    \cup {<<"probe", S!Probes[i].id, i>> : i \in {x \in 1..Len(S!Probes) : Cardinality({d \in OpenDev : DProbes[d][x] # S!Probes[x]}) > 1}}
    \cup {<<"forin", STab.forins[i].id>> : i \in {x \in 1..Len(STab.forins) : L!ForInExp(LTab, STab.forins[x].id) # S!ForInExp(STab, STab.forins[x].id)}}
ASSUME CrowdedLines = {} \/ (PrintT(<<"MORE-THAN-ONE-OPEN-FINDING-ON-A-LINE", CrowdedLines>>) /\ FALSE)

NO == Len(STab.objs)
NR == Len(STab.rows)
NF == Len(STab.forins)
CallIx == SelectSeq([i \in 1..NO |-> i], LAMBDA i : STab.objs[i].call # "")     \* the objects with a distinguishing call
NC == Len(CallIx)
SProbes == S!Probes                 \* behaviours that distinguish the kind of an object (prototypes that are instances)
LProbes == L!Probes
NP == Len(SProbes)
N  == NO + NR + NF + NC + NP

DevOf(es, ed) == IF ed = es THEN <<>> ELSE <<ed>>

(* Function objects created at run time (spec/C14Fn.tla): functions made from source text and every callable   *)
(* object of the table, each under chains of Function.prototype.bind.  The library targets and their lengths    *)
(* are read from the table.                                                                                    *)
SF == INSTANCE C14Fn WITH Dev <- {}
LF == INSTANCE C14Fn WITH Dev <- OpenDev
LibIx == SelectSeq([i \in 1..NO |-> i], LAMBDA i : STab.objs[i].callable /\ STab.objs[i].grp \in {"lib", "annexB"})
LibLen(tb, id) == S!RowAt(tb, id, "length")[1].val.n.v
LibFns == [k \in 1..Len(LibIx) |->
            LET o == STab.objs[LibIx[k]] IN
            [id |-> o.id, js |-> IF o.js # "" THEN o.js ELSE IF o.vo = "global" THEN o.vn ELSE o.id,
             ctor |-> o.ctor, len |-> LibLen(STab, o.id)]]
FnCases == SF!Cases(LibFns, IF Deep THEN 5 ELSE 4, Deep)
NFn == Len(FnCases)
FnLen(tb, c) == IF c.t.src = "lib" THEN LibLen(tb, c.t.id) ELSE c.t.p
FnLine(j) ==
    LET c  == FnCases[j]
        es == SF!FnExp(c.t, FnLen(STab, c), c.chain)
    IN  [k |-> "fn", i |-> 0, id |-> SF!CaseId(c.t, c.chain), base |-> SF!BaseJs(c.t), fn |-> SF!FnJs(c.chain),
         names |-> SF!Names(c.t, c.chain), mut |-> FALSE,
         clause |-> IF c.chain # <<>> THEN "15.3.4.5" ELSE IF c.t.mk \in {"ctor", "ctorJoined", "ctorCall"} THEN "15.3.2.1 / 13.2" ELSE "13.2",
         exp |-> es, dev |-> DevOf(es, LF!FnExp(c.t, FnLen(LTab, c), c.chain))]
(* as for the table: no line of the family is changed by more than one open finding *)
LFD(d) == INSTANCE C14Fn WITH Dev <- {d}
(* The observation depends on the target only through [src, ctor, length]: the check is made per such shape.    *)
(* No open finding changes the length row of a library function today (see LibLenDevs below).                  *)
FnShapes == {[src |-> FnCases[j].t.src, ctor |-> FnCases[j].t.ctor, p |-> FnCases[j].t.p, chain |-> FnCases[j].chain] : j \in 1..NFn}
FnShapeDevs(k) == {d \in OpenDev : LFD(d)!FnExp(k, k.p, k.chain) # SF!FnExp(k, k.p, k.chain)}
CrowdedFnLines == {k \in FnShapes : Cardinality(FnShapeDevs(k)) > 1}
ASSUME CrowdedFnLines = {} \/ (PrintT(<<"MORE-THAN-ONE-OPEN-FINDING-ON-A-LINE", CrowdedFnLines>>) /\ FALSE)
(* (a warning only: such a finding and one on bound functions would act on the same lines, and a tree in which only *)
(* one of the two is repaired would then meet neither exp nor dev)                                                *)
LibLenDevs == {k \in 1..Len(LibIx) : LibLen(LTab, LibFns[k].id) # LibFns[k].len}
ASSUME LibLenDevs = {} \/ PrintT(<<"WARNING: an open finding changes the length of a library function; refine CrowdedFnLines", {LibFns[k].id : k \in LibLenDevs}>>)

(* the lines of a table: ts strict, tl under the open findings (same entries); calls only for the base table *)
LineOf(ts, tl, j, mut) ==
    LET no == Len(ts.objs)
        nr == Len(ts.rows)
    IN
    IF j <= no THEN
        LET o == ts.objs[j] IN
        [k |-> "obj", i |-> 0, id |-> o.id, js |-> o.js, vo |-> o.vo, vn |-> o.vn, grp |-> o.grp, clause |-> o.clause, mut |-> mut,
         names |-> S!NamesOf(ts, o.id), mask |-> S!ObjMask(o),
         exp |-> S!ObjExp(ts, o), dev |-> DevOf(S!ObjExp(ts, o), L!ObjExp(tl, tl.objs[j]))]
    ELSE IF j <= no + nr THEN
        LET r == ts.rows[j - no] IN
        [k |-> "row", i |-> 0, owner |-> r.owner, name |-> r.name, kind |-> r.kind, clause |-> r.clause, mut |-> mut,
         exp |-> S!RowExp(ts, r), dev |-> DevOf(S!RowExp(ts, r), L!RowExp(tl, tl.rows[j - no]))]
    ELSE IF j <= no + nr + NF THEN
        LET f == ts.forins[j - no - nr] IN
        [k |-> "forin", i |-> 0, id |-> f.id, js |-> f.js, note |-> f.note, mut |-> mut,
         exp |-> S!ForInExp(ts, f.id), dev |-> DevOf(S!ForInExp(ts, f.id), L!ForInExp(tl, f.id))]
    ELSE IF j <= no + nr + NF + NC THEN
        LET o == ts.objs[CallIx[j - no - nr - NF]] IN
        [k |-> "call", i |-> 0, id |-> o.id, call |-> o.call, clause |-> o.clause, mut |-> mut,
         exp |-> S!CallExp(o), dev |-> DevOf(S!CallExp(o), L!CallExp(tl.objs[CallIx[j - no - nr - NF]]))]
    ELSE
        LET p == SProbes[j - no - nr - NF - NC] IN
        [k |-> "call", i |-> 0, id |-> p.id, call |-> p.call, clause |-> p.clause, mut |-> mut,
         exp |-> S!CallExp(p), dev |-> DevOf(S!CallExp(p), L!CallExp(LProbes[j - no - nr - NF - NC]))]

(* the table after the structural mutation of LibShape!MutScript (what the runtime that ran it must show) *)
STabM == S!MutTab(STab)
LTabM == L!MutTab(LTab)
ASSUME S!MutOK(STab)
ASSUME Len(LProbes) = NP /\ \A i \in 1..NP : SProbes[i].id \in STab.ids /\ LProbes[i].id = SProbes[i].id /\ LProbes[i].call = SProbes[i].call
NM == Len(STabM.objs) + Len(STabM.rows) + NF          \* objects, own properties, for-in subjects; no calls
Total == N + NM + 1 + NFn

Line(j) ==
    IF j <= N THEN [LineOf(STab, LTab, j, FALSE) EXCEPT !.i = j]
    ELSE IF j <= N + NM THEN [LineOf(STabM, LTabM, j - N, TRUE) EXCEPT !.i = j]
    ELSE IF j = N + NM + 1 THEN [k |-> "mutation", i |-> j, js |-> S!MutScript, mut |-> TRUE]
    ELSE [FnLine(j - N - NM - 1) EXCEPT !.i = j]

(* parallel evaluation: an initial state is a block, its successors the lines of the block *)
K == 16
Init == blk \in 1..K /\ cs = 0
Next == /\ cs = 0
        /\ UNCHANGED blk
        /\ \E j \in {i \in 1..Total : i % K = blk - 1} : cs' = j
Emit == cs = 0 \/ PrintT("VJSON " \o ToJson(Line(cs)))
=============================================================================
