-------------------------------- MODULE C14 ---------------------------------
(* Generator for property C14: the standard library has the ES5 shape.        *)
(* The table of spec/LibShapeTab.tla is checked for internal consistency      *)
(* (ASSUME TableOK) and enumerated completely: one VJSON line per object, per *)
(* own property, per for-in subject and per distinguishing call, each with    *)
(* the observation ES5                                                        *)
(* prescribes (exp) and, where an open finding changes it, the observation    *)
(* under the named deviations (dev).  The harness replays every line on a     *)
(* fresh runtime, a runtime with underscore loaded and a Copy() of each.      *)
EXTENDS Naturals, Sequences, Json, TLC
CONSTANTS OpenDev
VARIABLES blk, cs

S == INSTANCE LibShape WITH Dev <- {}
L == INSTANCE LibShape WITH Dev <- OpenDev

(* evaluated once each (constant-level definitions of the root module are cached) *)
STab == S!Tab
LTab == L!Tab

ASSUME S!TableOK(STab) \/ (PrintT(<<"TABLE-ISSUES", S!TableIssues(STab)>>) /\ FALSE)
(* the deviating table describes the same objects and properties *)
ASSUME /\ Len(LTab.objs) = Len(STab.objs) /\ Len(LTab.rows) = Len(STab.rows)
       /\ \A i \in 1..Len(STab.objs) : LTab.objs[i].id = STab.objs[i].id
       /\ \A i \in 1..Len(STab.rows) : LTab.rows[i].owner = STab.rows[i].owner /\ LTab.rows[i].name = STab.rows[i].name

NO == Len(STab.objs)
NR == Len(STab.rows)
NF == Len(STab.forins)
CallIx == SelectSeq([i \in 1..NO |-> i], LAMBDA i : STab.objs[i].call # "")     \* the objects with a distinguishing call
NC == Len(CallIx)
N  == NO + NR + NF + NC

DevOf(es, ed) == IF ed = es THEN <<>> ELSE <<ed>>

Line(j) ==
    IF j <= NO THEN
        LET o == STab.objs[j] IN
        [k |-> "obj", i |-> j, id |-> o.id, js |-> o.js, vo |-> o.vo, vn |-> o.vn, grp |-> o.grp, clause |-> o.clause,
         names |-> S!NamesOf(STab, o.id), mask |-> S!ObjMask(o),
         exp |-> S!ObjExp(STab, o), dev |-> DevOf(S!ObjExp(STab, o), L!ObjExp(LTab, LTab.objs[j]))]
    ELSE IF j <= NO + NR THEN
        LET r == STab.rows[j - NO] IN
        [k |-> "row", i |-> j, owner |-> r.owner, name |-> r.name, kind |-> r.kind, clause |-> r.clause,
         exp |-> S!RowExp(STab, r), dev |-> DevOf(S!RowExp(STab, r), L!RowExp(LTab, LTab.rows[j - NO]))]
    ELSE IF j <= NO + NR + NF THEN
        LET f == STab.forins[j - NO - NR] IN
        [k |-> "forin", i |-> j, id |-> f.id, js |-> f.js, note |-> f.note,
         exp |-> S!ForInExp(STab, f.id), dev |-> DevOf(S!ForInExp(STab, f.id), L!ForInExp(LTab, f.id))]
    ELSE
        LET o == STab.objs[CallIx[j - NO - NR - NF]] IN
        [k |-> "call", i |-> j, id |-> o.id, call |-> o.call, clause |-> o.clause,
         exp |-> S!CallExp(o), dev |-> DevOf(S!CallExp(o), L!CallExp(LTab.objs[CallIx[j - NO - NR - NF]]))]

(* parallel evaluation: an initial state is a block, its successors the lines of the block *)
K == 16
Init == blk \in 1..K /\ cs = 0
Next == /\ cs = 0
        /\ UNCHANGED blk
        /\ \E j \in {i \in 1..N : i % K = blk - 1} : cs' = j
Emit == cs = 0 \/ PrintT("VJSON " \o ToJson(Line(cs)))
=============================================================================
