-------------------------------- MODULE C14 ---------------------------------
(* Generator for property C14: the standard library has the ES5 shape.        *)
(* The table of spec/LibShapeTab.tla is checked for internal consistency      *)
(* (ASSUME TableOK) and enumerated completely: one VJSON line per object, per *)
(* own property, per for-in subject and per distinguishing call, each with    *)
(* the observation ES5                                                        *)
(* prescribes (exp) and, where an open finding changes it, the observation    *)
(* under the named deviations (dev).  The harness replays every line on a     *)
(* fresh runtime, a runtime with underscore loaded and a Copy() of each.      *)
EXTENDS Naturals, Sequences, FiniteSets, Json, TLC
CONSTANTS OpenDev
VARIABLES blk, cs

S == INSTANCE LibShape WITH Dev <- {}
L == INSTANCE LibShape WITH Dev <- OpenDev

(* evaluated once each (constant-level definitions of the root module are cached) *)
STab == S!Tab
LTab == L!Tab

ASSUME S!TableOK(STab) \/ (PrintT(<<"TABLE-ISSUES", S!TableIssues(STab)>>) /\ FALSE)
(* the deviating table describes the same objects and properties *)
ASSUME /\ Len(LTab.objs) = Len(STab.objs) /\ Len(LTab.rows) = Len(STab.rows)
       /\ \A i \in 1..Len(STab.objs) : LTab.objs[i].id = STab.objs[i].id
       /\ \A i \in 1..Len(STab.rows) : LTab.rows[i].owner = STab.rows[i].owner /\ LTab.rows[i].name = STab.rows[i].name

(* Every line is changed by at most one open finding; then, whichever subset of the findings has been    *)
(* repaired in the tree, each line still equals exp (repaired) or dev (not repaired).  OpenDev holds the  *)
(* open findings that LibShapeTab mentions.  Deviations are data: fields of table entries.               *)
LD(d) == INSTANCE LibShape WITH Dev <- {d}
DRows == [d \in OpenDev |-> LD(d)!Rows]
DObjs == [d \in OpenDev |-> LD(d)!Objs]
NoCall(o) == [o EXCEPT !.callexp = 0]
RowLineDevs(k) == {d \in OpenDev : DRows[d][k] # STab.rows[k]}
CallLineDevs(i) == {d \in OpenDev : DObjs[d][i].callexp # STab.objs[i].callexp}
ObjLineDevs(i) == {d \in OpenDev : NoCall(DObjs[d][i]) # NoCall(STab.objs[i])}
                  \cup {d \in OpenDev : \E k \in 1..Len(STab.rows) : STab.rows[k].owner = STab.objs[i].id /\ DRows[d][k].kind = "missing"}
CrowdedLines ==
    {<<"row", STab.rows[k].owner, STab.rows[k].name, RowLineDevs(k)>> : k \in {x \in 1..Len(STab.rows) : Cardinality(RowLineDevs(x)) > 1}}
    \cup {<<"call", STab.objs[i].id, CallLineDevs(i)>> : i \in {x \in 1..Len(STab.objs) : Cardinality(CallLineDevs(x)) > 1}}
    \cup {<<"obj", STab.objs[i].id, ObjLineDevs(i)>> : i \in {x \in 1..Len(STab.objs) : Cardinality(ObjLineDevs(x)) > 1}}
    \cup {<<"forin", STab.forins[i].id>> : i \in {x \in 1..Len(STab.forins) : L!ForInExp(LTab, STab.forins[x].id) # S!ForInExp(STab, STab.forins[x].id)}}
ASSUME CrowdedLines = {} \/ (PrintT(<<"MORE-THAN-ONE-OPEN-FINDING-ON-A-LINE", CrowdedLines>>) /\ FALSE)

NO == Len(STab.objs)
NR == Len(STab.rows)
NF == Len(STab.forins)
CallIx == SelectSeq([i \in 1..NO |-> i], LAMBDA i : STab.objs[i].call # "")     \* the objects with a distinguishing call
NC == Len(CallIx)
N  == NO + NR + NF + NC

DevOf(es, ed) == IF ed = es THEN <<>> ELSE <<ed>>

Line(j) ==
    IF j <= NO THEN
        LET o == STab.objs[j] IN
        [k |-> "obj", i |-> j, id |-> o.id, js |-> o.js, vo |-> o.vo, vn |-> o.vn, grp |-> o.grp, clause |-> o.clause,
         names |-> S!NamesOf(STab, o.id), mask |-> S!ObjMask(o),
         exp |-> S!ObjExp(STab, o), dev |-> DevOf(S!ObjExp(STab, o), L!ObjExp(LTab, LTab.objs[j]))]
    ELSE IF j <= NO + NR THEN
        LET r == STab.rows[j - NO] IN
        [k |-> "row", i |-> j, owner |-> r.owner, name |-> r.name, kind |-> r.kind, clause |-> r.clause,
         exp |-> S!RowExp(STab, r), dev |-> DevOf(S!RowExp(STab, r), L!RowExp(LTab, LTab.rows[j - NO]))]
    ELSE IF j <= NO + NR + NF THEN
        LET f == STab.forins[j - NO - NR] IN
        [k |-> "forin", i |-> j, id |-> f.id, js |-> f.js, note |-> f.note,
         exp |-> S!ForInExp(STab, f.id), dev |-> DevOf(S!ForInExp(STab, f.id), L!ForInExp(LTab, f.id))]
    ELSE
        LET o == STab.objs[CallIx[j - NO - NR - NF]] IN
        [k |-> "call", i |-> j, id |-> o.id, call |-> o.call, clause |-> o.clause,
         exp |-> S!CallExp(o), dev |-> DevOf(S!CallExp(o), L!CallExp(LTab.objs[CallIx[j - NO - NR - NF]]))]

(* parallel evaluation: an initial state is a block, its successors the lines of the block *)
K == 16
Init == blk \in 1..K /\ cs = 0
Next == /\ cs = 0
        /\ UNCHANGED blk
        /\ \E j \in {i \in 1..N : i % K = blk - 1} : cs' = j
Emit == cs = 0 \/ PrintT("VJSON " \o ToJson(Line(cs)))
=============================================================================
