---- MODULE ValTest ----
EXTENDS NumText, Json
VARIABLES blk, i
File == ndJsonDeserialize("trace.ndjson")
K == 64
Init == blk \in 1..K /\ i = 0
Next == i = 0 /\ i' \in {j \in 1..Len(File) : j % K = blk - 1} /\ UNCHANGED blk
Check == i = 0 \/ LET ev == File[i]
             want == CASE ev.op = "strtonum" -> StrToNum(ev.s)
                       [] ev.op = "inttostr" -> [s |-> IntNumToStr(ev.n)]
                       [] ev.op = "isindex" -> IsArrayIndex(ev.s)
                       [] ev.op = "numtostr" -> [s |-> NumToStr(ev.n)]
         IN  want = ev.r \/ PrintT("VJSON " \o ToJson([i |-> i, ev |-> ev, want |-> want]))
====
