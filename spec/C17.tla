-------------------------------- MODULE C17 ---------------------------------
(* Property C17: Copy() yields an equivalent and independent runtime.         *)
(*                                                                           *)
(* The system model: a set of runtimes, each a VALUE (the ES5Core state).     *)
(*   Run(r, P):  rts' = [rts EXCEPT ![r] = state after P]                     *)
(*   Copy(r, n): rts' = rts @@ (n :> rts[r])                                  *)
(* Equivalence and isolation hold in the model by construction - that is the  *)
(* point: the specification says a copy is a value.  TLC checks it on the     *)
(* recorded behaviours: a trace line is                                       *)
(*   [id, h |-> <<programs>>, m, q, obsM, obsMutated, obsOthers |-> <<...>>]  *)
(* meaning: a runtime ran the history h; it was copied (and the copy copied   *)
(* again, in some lines); the mutation program m ran on ONE of the runtimes   *)
(* and then the observation program q ran on ALL of them.  Required:          *)
(*   on the mutated side   q's outcome = outcome of q after h ; m             *)
(*   on every other side   q's outcome = outcome of q after h   (isolation,   *)
(*                         and equivalence with a runtime that replayed h)    *)
EXTENDS Integers, Sequences, TLC, Json
CONSTANTS OpenDev, Fuel
VARIABLES blk, i

S == INSTANCE ES5Core WITH Dev <- {}

File == ndJsonDeserialize("trace.ndjson")
K == 64
Init == blk \in 1..K /\ i = 0
Next == i = 0 /\ i' \in {j \in 1..Len(File) : j % K = blk - 1} /\ UNCHANGED blk

Same(o, obs) == ~o.und /\ o.log = obs.log /\ o.thr = obs.thr /\ o.v = obs.v
AnyUnd(os) == \E n \in 1..Len(os) : os[n].und

Check ==
    i = 0 \/
    LET ev == File[i]
        n  == Len(ev.h)
        a  == S!RunSeq(ev.h \o <<ev.m, ev.q>>, Fuel)      \* the mutated side
        b  == S!RunSeq(ev.h \o <<ev.q>>, Fuel)            \* every other side
    IN  IF AnyUnd(a) \/ AnyUnd(b) THEN PrintT("VJSON " \o ToJson([id |-> ev.id, status |-> "und"]))
        ELSE LET okM == Same(a[n + 1], ev.obsM)
                 okMut == Same(a[n + 2], ev.obsMutated)
                 badOthers == {x \in 1..Len(ev.obsOthers) : ~Same(b[n + 1], ev.obsOthers[x])}
             IN  (okM /\ okMut /\ badOthers = {})
                 \/ PrintT("VJSON " \o ToJson([id |-> ev.id, status |-> "bad", okM |-> okM, okMutated |-> okMut,
                                                badOthers |-> badOthers, wantMutated |-> a[n + 2], wantOthers |-> b[n + 1]]))
=============================================================================
