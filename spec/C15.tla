-------------------------------- MODULE C15 ---------------------------------
(* Generator for property C15: values survive the Go -> JavaScript -> Go     *)
(* round trip.  Three families of cases, each one state of the generator:    *)
(*   g2j   a Go value is set into a runtime; expected: what a script sees     *)
(*         (typeof, String(), the value, container contents) and what the Go  *)
(*         side reads back (Export, ToInteger/ToFloat/ToString/ToBoolean,     *)
(*         MarshalJSON)                                                       *)
(*   j2g   a JavaScript value is produced by a script; expected: the Value    *)
(*         predicates, Class, the conversions (with the log of scripted       *)
(*         valueOf/toString calls) and Export                                 *)
(*   call  Value.Call / Object.Call / Otto.Call with a this value and Go      *)
(*         arguments; expected: the this binding and the arguments the        *)
(*         callee observes (10.4.3, 15.3.4.3)                                 *)
(* Every expectation is computed by the operators of Bridge.tla.             *)
EXTENDS Json, SequencesExt, Randomization
CONSTANTS OpenDev, Tier, Src
VARIABLES blk, cs

S == INSTANCE Bridge WITH Dev <- {}
L == INSTANCE Bridge WITH Dev <- OpenDev

I(n) == S!I(n)
Canon(neg, m, e) == S!Canon(neg, m, e)
P2(k) == S!P2Z(k)
ZAdd(k, n) == S!ZOfBn(FALSE, S!BnAdd(S!BnShl(<<1>>, k), S!BnFromInt(n)))      \* 2^k + n
ZSub(k, n) == S!ZOfBn(FALSE, S!BnSub(S!BnShl(<<1>>, k), S!BnFromInt(n)))      \* 2^k - n
ZNeg(z) == S!NumNeg(z)

(* ---- Go values ----------------------------------------------------------- *)
(* boundary values per width: the ends of the range, and just beyond the range of every narrower width *)
(* (2^w + 44 and, signed, -(2^(w-1)) - 1), so that a truncation to any narrower width changes the value  *)
Crossing(k) == {ZAdd(w, 44) : w \in {w \in {8, 16, 32} : w < S!Bits(k)}}
               \cup (IF k \in S!SIntKinds THEN {ZNeg(ZAdd(w - 1, 1)) : w \in {w \in {8, 16, 32} : w < S!Bits(k)}} ELSE {})
IntVals(k) ==
    {S!LoOf(k), S!HiOf(k), I(0), I(1), I(7)} \cup Crossing(k)
    \cup (IF k \in S!SIntKinds THEN {I(-1)} ELSE {})
    \cup (IF S!Bits(k) = 64
          THEN {ZSub(53, 1), P2(53), ZAdd(53, 1), ZAdd(53, 2), ZSub(63, 1), ZSub(63, 1025), ZSub(63, 512)}
               \cup (IF k \in S!SIntKinds THEN {ZNeg(ZAdd(53, 1)), ZNeg(ZSub(63, 1))}
                     ELSE {P2(63), ZAdd(63, 1), ZAdd(63, 1024), ZAdd(63, 1025), ZAdd(63, 3072), ZSub(64, 1024), ZSub(64, 1025)})
          ELSE {})
GInts == UNION {{S!GInt(k, z) : z \in IntVals(k)} : k \in S!IntKinds}

(* the extreme magnitudes cost seconds each in the shortest-digits search of 9.8.1: thorough tier only *)
Extremes == {Canon(FALSE, <<1>>, -1074), Canon(FALSE, S!BnSub(S!BnShl(<<1>>, 53), <<1>>), 971), Canon(FALSE, <<1>>, -1022)}
F32Vals == {S!NaN, S!PInf, S!NInf, I(0), S!NZero, I(1), I(-1), Canon(FALSE, <<3>>, -1),
            Canon(FALSE, S!BnFromInt(13421773), -27),            \* float32(0.1)
            S!MaxF32, S!NumNeg(S!MaxF32), Canon(FALSE, <<1>>, -149), Canon(FALSE, <<1>>, 24), Canon(FALSE, <<1>>, -126)}
F64Vals == {S!NaN, S!PInf, S!NInf, I(0), S!NZero, I(1), I(-1), Canon(FALSE, <<1>>, -1), Canon(FALSE, <<3>>, -1), Canon(TRUE, <<3>>, -1),
            S!DecToNum(FALSE, <<1>>, -1),                        \* 0.1
            P2(31), P2(32), ZSub(53, 1), P2(53), ZAdd(53, 2), P2(63), ZNeg(P2(63)), P2(64), ZSub(63, 1024),
            S!DecToNum(FALSE, <<1>>, 21), S!DecToNum(FALSE, <<1>>, -7), S!DecToNum(FALSE, <<1>>, -6),
            S!DecToNum(FALSE, S!BnFromInt(123456789), -3), S!DecToNum(FALSE, S!BnFromInt(123456789), 12),
            S!MaxF32}
           \cup (IF Tier = "thorough" THEN Extremes ELSE {})
GFlts == {S!GFlt("float32", n) : n \in F32Vals} \cup {S!GFlt("float64", n) : n \in F64Vals}

U_abc == <<97, 98, 99>>
U_e == <<233>>                    \* 2 UTF-8 bytes
U_zh == <<20013>>                 \* 3 UTF-8 bytes
U_smile == <<55357, 56832>>       \* 4 UTF-8 bytes, a surrogate pair
U_mix == <<97, 233, 20013, 55357, 56832, 0, 98>>
StrVals == {<<>>, U_abc, U_e, U_zh, U_smile, U_mix, <<49, 50>>, <<32, 49, 50, 32>>, <<48, 120, 49, 70>>, <<49, 101, 51>>,
            <<45, 48>>, <<73, 110, 102, 105, 110, 105, 116, 121>>, <<49, 46, 53>>, <<46>>, <<57, 50, 50, 51, 51, 55, 50, 48, 51, 54, 56, 53, 52, 55, 55, 53, 56, 48, 56>>}
GStrs == {S!GStr(s) : s \in StrVals} \cup (IF Tier = "thorough" THEN {S!GStr(S!TestStrings[i]) : i \in 1..Len(S!TestStrings)} ELSE {})

(* every scalar also behind a pointer and as a declared named type of its kind *)
WrapBase == GInts \cup {S!GFlt("float32", n) : n \in {I(0), S!NZero, Canon(FALSE, <<3>>, -1), Canon(FALSE, S!BnFromInt(13421773), -27), S!NaN, S!MaxF32}}
            \cup {S!GFlt("float64", n) : n \in {I(0), S!NZero, Canon(FALSE, <<3>>, -1), S!DecToNum(FALSE, <<1>>, -1), S!NaN, S!PInf, P2(53), P2(64)}}
            \cup {S!GStr(<<>>), S!GStr(U_e), S!GStr(U_smile), S!GStr(<<49, 50>>), S!GBool(TRUE), S!GBool(FALSE)}
Wrapped == {S!GPtr(g) : g \in WrapBase} \cup {S!GNamed(g) : g \in WrapBase}
           \cup {S!GPtr(S!GNamed(g)) : g \in {gg \in GInts : gg.z = S!HiOf(gg.k)}}
           \cup {S!GPtr(S!GPtr(g)) : g \in {gg \in GInts : gg.z = S!LoOf(gg.k)}}
           \cup {S!GNilPtr(k) : k \in S!NumKinds \cup {"string", "bool"}}
Scalars == {S!GNil, S!GPtrNil, S!GBool(TRUE), S!GBool(FALSE)} \cup GInts \cup GFlts \cup GStrs \cup Wrapped

(* leaves of containers *)
Leaves == {S!GNil, S!GBool(TRUE), S!GInt("int", I(1)), S!GInt("int64", ZAdd(53, 1)), S!GInt("uint8", I(255)),
           S!GFlt("float64", Canon(FALSE, <<3>>, -1)), S!GFlt("float64", S!NZero), S!GStr(<<97>>), S!GStr(U_smile)}
LeafSeqs == {<<>>} \cup {<<a>> : a \in Leaves} \cup {<<a, b>> : a \in Leaves, b \in {S!GNil, S!GInt("int", I(1)), S!GStr(<<97>>)}}
K_a == <<97>>
K_b == <<98>>
K_e == <<233>>
IfaceSlices == {S!GSlice("iface", FALSE, s) : s \in LeafSeqs} \cup {S!GSlice("iface", TRUE, <<>>)}
IfaceMaps == {S!GMap("iface", FALSE, <<>>, <<>>), S!GMap("iface", TRUE, <<>>, <<>>)}
             \cup {S!GMap("iface", FALSE, <<K_a>>, <<a>>) : a \in Leaves}
             \cup {S!GMap("iface", FALSE, <<K_a, K_e>>, <<a, b>>) : a \in Leaves, b \in {S!GNil, S!GStr(<<97>>)}}
IntSeqs(k) == {<<>>, <<S!GInt(k, I(1))>>, <<S!GInt(k, I(0)), S!GInt(k, S!HiOf(k))>>, <<S!GInt(k, S!LoOf(k)), S!GInt(k, I(2)), S!GInt(k, I(3))>>}
TypedSlices == {S!GSlice(k, FALSE, s) : k \in {"int", "int8", "int64", "uint16"}, s \in UNION {IntSeqs(kk) : kk \in {"int", "int8", "int64", "uint16"}}}
TypedSlicesOK == {g \in TypedSlices : \A i \in 1..Len(g.items) : g.items[i].k = g.elem}
               \cup {S!GSlice("int", TRUE, <<>>), S!GSlice("string", TRUE, <<>>), S!GSlice("string", FALSE, <<>>),
                     S!GSlice("string", FALSE, <<S!GStr(<<97>>)>>), S!GSlice("string", FALSE, <<S!GStr(<<>>), S!GStr(U_smile)>>),
                     S!GSlice("float64", FALSE, <<S!GFlt("float64", Canon(FALSE, <<3>>, -1)), S!GFlt("float64", S!NZero)>>),
                     S!GSlice("bool", FALSE, <<S!GBool(TRUE), S!GBool(FALSE)>>)}
IntMaps == {S!GMap("int", FALSE, <<>>, <<>>), S!GMap("int", TRUE, <<>>, <<>>),
            S!GMap("int", FALSE, <<K_a>>, <<S!GInt("int", I(1))>>),
            S!GMap("int", FALSE, <<K_a, K_b>>, <<S!GInt("int", I(-1)), S!GInt("int", S!HiOf("int"))>>),
            S!GMap("string", FALSE, <<K_a, K_e>>, <<S!GStr(<<>>), S!GStr(U_zh)>>)}
Structs == {S!GStruct(p, a, b, c, f, any, h) :
               p \in BOOLEAN, a \in {I(0), I(5), ZAdd(53, 1)}, b \in {<<>>, U_e}, c \in {I(0), I(3)},
               f \in {I(0), Canon(FALSE, <<3>>, -1)}, any \in {S!GNil, S!GInt("int", I(1)), S!GStr(<<97>>)}, h \in {I(0), I(9)}}
Nested == {S!GSlice("iface", FALSE, <<x, y>>) :
              x \in {S!GSlice("iface", FALSE, <<S!GInt("int", I(1))>>), S!GMap("iface", FALSE, <<K_a>>, <<S!GStr(<<97>>)>>), S!GSlice("int", FALSE, <<S!GInt("int", I(2))>>)},
              y \in {S!GNil, S!GMap("int", FALSE, <<K_b>>, <<S!GInt("int", I(7))>>), S!GSlice("iface", TRUE, <<>>)}}
          \cup {S!GMap("iface", FALSE, <<K_a, K_b>>, <<x, y>>) :
              x \in {S!GSlice("iface", FALSE, <<S!GNil, S!GStr(U_e)>>), S!GMap("iface", FALSE, <<>>, <<>>)},
              y \in {S!GBool(FALSE), S!GSlice("string", FALSE, <<S!GStr(<<97>>)>>)}}
(* maps keyed by every integer kind (and by its named type), keys at the ends of the range and beyond the *)
(* narrower widths, in the code-unit order of their decimal text *)
RECURSIVE InsSorted(_, _)
InsSorted(seq, z) == IF seq = <<>> THEN <<z>>
                     ELSE IF S!StrCmp(S!DigitsZ(z), S!DigitsZ(seq[1])) < 0 THEN <<z>> \o seq
                     ELSE <<seq[1]>> \o InsSorted(Tail(seq), z)
RECURSIVE SortKeys(_)
SortKeys(seq) == IF seq = <<>> THEN <<>> ELSE InsSorted(SortKeys(Tail(seq)), seq[1])
KeySeq(k) == SortKeys(SetToSeq({S!LoOf(k), S!HiOf(k), I(1)} \cup Crossing(k)))
StrOfIdx(i) == S!GStr(<<96 + i>>)
IMaps == {S!GIMap(k, nm, "string", FALSE, KeySeq(k), [i \in 1..Len(KeySeq(k)) |-> StrOfIdx(i)]) : k \in S!IntKinds, nm \in BOOLEAN}
         \cup {S!GIMap(k, FALSE, "named:" \o k, FALSE, <<I(1)>>, <<S!GNamed(S!GInt(k, S!HiOf(k)))>>) : k \in S!IntKinds}
         \cup {S!GIMap("uint16", nm, "int", isnil, <<>>, <<>>) : nm \in BOOLEAN, isnil \in BOOLEAN}
(* slices and string-keyed maps whose elements have a named numeric type; a struct with a field of every named integer type *)
NamedSeq(k) == IF k \in S!IntKinds THEN [i \in 1..Len(KeySeq(k)) |-> S!GNamed(S!GInt(k, KeySeq(k)[i]))]
               ELSE <<S!GNamed(S!GFlt(k, Canon(FALSE, <<3>>, -1))), S!GNamed(S!GFlt(k, S!NZero)), S!GNamed(S!GFlt(k, IF k = "float32" THEN P2(24) ELSE P2(64)))>>     \* float32 elements: values whose shortest float32 text (encoding/json) is exact
NamedSlices == {S!GSlice("named:" \o k, FALSE, NamedSeq(k)) : k \in S!NumKinds \ {"uint8"}}     \* encoding/json prints byte slices as base64: not generated
               \cup {S!GMap("named:" \o k, FALSE, <<K_a, K_b>>, <<NamedSeq(k)[1], NamedSeq(k)[Len(NamedSeq(k))]>>) : k \in S!NumKinds}
               \cup {S!GSlice("named:string", FALSE, <<S!GNamed(S!GStr(U_smile))>>), S!GSlice("named:bool", FALSE, <<S!GNamed(S!GBool(TRUE))>>)}
NSKinds == <<"int", "int8", "int16", "int32", "int64", "uint", "uint8", "uint16", "uint32", "uint64">>
NSFields(pick(_)) == [i \in 1..10 |-> S!GNamed(S!GInt(NSKinds[i], pick(NSKinds[i])))]
NStructs == {S!GNStruct(p, NSFields(S!LoOf) \o <<S!GNamed(S!GFlt("float64", S!NZero))>>) : p \in BOOLEAN}
            \cup {S!GNStruct(p, NSFields(S!HiOf) \o <<S!GNamed(S!GFlt("float64", P2(64)))>>) : p \in BOOLEAN}
            \cup {S!GNStruct(p, NSFields(LAMBDA k : IF S!Bits(k) = 8 THEN I(100) ELSE ZAdd(S!Bits(k) \div 2, 44)) \o <<S!GNamed(S!GFlt("float64", Canon(FALSE, <<3>>, -1)))>>) : p \in BOOLEAN}
Containers == IfaceSlices \cup IfaceMaps \cup TypedSlicesOK \cup IntMaps \cup Structs \cup Nested \cup IMaps \cup NamedSlices \cup NStructs

G2J == {[fam |-> "g2j", g |-> g] : g \in Scalars \cup Containers}

(* ---- JavaScript values --------------------------------------------------- *)
Pow2(k) == Canon(FALSE, <<1>>, k)
NumsPos == {I(1), Canon(FALSE, <<1>>, -1), Canon(FALSE, <<3>>, -1), I(2), I(255),
            S!NumSub(Pow2(31), I(1)), Pow2(31), S!NumSub(Pow2(32), I(1)), Pow2(32),
            S!NumSub(Pow2(53), I(1)), Pow2(53), S!NumAdd(Pow2(53), I(2)), ZSub(63, 1024), Pow2(63), ZAdd(63, 2048), Pow2(64),
            S!DecToNum(FALSE, <<1>>, 21), S!DecToNum(FALSE, <<1>>, -7), S!DecToNum(FALSE, S!BnFromInt(123456), -3)}
           \cup (IF Tier = "thorough" THEN Extremes ELSE {})
JNums == {S!NaN, I(0), S!NZero, S!PInf, S!NInf} \cup NumsPos \cup {S!NumNeg(x) : x \in NumsPos}
RetP(v) == [k |-> "ret", v |-> v]
Objs == {[t |-> "cobj", id |-> 1, vo |-> RetP(S!IntV(7)), ts |-> RetP(S!StrV(<<55>>))],
         [t |-> "cobj", id |-> 2, vo |-> [k |-> "inherit"], ts |-> [k |-> "inherit"]],
         [t |-> "cobj", id |-> 3, vo |-> [k |-> "retobj"], ts |-> RetP(S!StrV(<<50, 48>>))],
         [t |-> "cobj", id |-> 4, vo |-> [k |-> "retobj"], ts |-> [k |-> "retobj"]],
         [t |-> "cobj", id |-> 5, vo |-> [k |-> "throw"], ts |-> RetP(S!StrV(<<120>>))],
         [t |-> "cobj", id |-> 6, vo |-> RetP(S!StrV(<<49, 48>>)), ts |-> [k |-> "throw"]],
         [t |-> "cobj", id |-> 7, vo |-> [k |-> "noncallable"], ts |-> RetP(S!BoolV(TRUE))],
         [t |-> "cobj", id |-> 8, vo |-> RetP(S!Null), ts |-> RetP(S!Undef)],
         [t |-> "cobj", id |-> 9, vo |-> RetP(S!NumV(S!NaN)), ts |-> RetP(S!StrV(<<>>))]}
JStrs == {S!TestStrings[i] : i \in 1..Len(S!TestStrings)} \cup {U_smile, U_mix}
JPrims == {S!Undef, S!Null, S!BoolV(TRUE), S!BoolV(FALSE)} \cup {S!NumV(n) : n \in JNums} \cup {S!StrV(s) : s \in JStrs}

(* JSON-like data: leaves, arrays and objects to depth 3 (the deepest level  *)
(* only with the leaves that change the exported element type)               *)
JLeaves == {S!Null, S!BoolV(TRUE), S!IntV(1), S!NumV(Canon(FALSE, <<5>>, -1)), S!NumV(S!NZero), S!StrV(<<97>>), S!StrV(U_smile)}
A(items) == S!JArr(items)
O(keys, vals) == S!JObj(keys, vals)
Lvl1 == {A(<<>>)} \cup {A(<<x>>) : x \in JLeaves \cup {S!Undef}} \cup {A(<<x, y>>) : x \in JLeaves, y \in JLeaves}
        \cup {O(<<>>, <<>>)} \cup {O(<<K_a>>, <<x>>) : x \in JLeaves \cup {S!Undef}} \cup {O(<<K_a, K_e>>, <<x, y>>) : x \in JLeaves, y \in {S!Null, S!IntV(1), S!Undef}}
        \cup {A(<<S!JHole, x>>) : x \in {S!IntV(1), S!StrV(<<97>>)}} \cup {A(<<x, S!JHole>>) : x \in {S!IntV(1)}} \cup {A(<<S!IntV(1), S!JHole, S!IntV(2)>>)}
Mid == {A(<<>>), A(<<S!IntV(1)>>), A(<<S!IntV(1), S!IntV(2)>>), A(<<S!NumV(Canon(FALSE, <<5>>, -1))>>), A(<<S!StrV(<<97>>)>>), A(<<S!Null>>), A(<<S!BoolV(TRUE)>>),
        A(<<S!IntV(1), S!StrV(<<97>>)>>), O(<<>>, <<>>), O(<<K_a>>, <<S!IntV(1)>>), O(<<K_b>>, <<S!StrV(<<97>>)>>)}
Lvl2 == {A(<<x>>) : x \in Mid} \cup {A(<<x, y>>) : x \in Mid, y \in Mid \cup {S!Null, S!IntV(1)}}
        \cup {O(<<K_a>>, <<x>>) : x \in Mid} \cup {O(<<K_a, K_b>>, <<x, y>>) : x \in Mid, y \in {A(<<S!IntV(1)>>), O(<<K_a>>, <<S!Null>>), S!IntV(1)}}
Mid2 == {A(<<x>>) : x \in {A(<<>>), A(<<S!IntV(1)>>), A(<<S!NumV(Canon(FALSE, <<5>>, -1))>>), A(<<S!StrV(<<97>>)>>), A(<<S!Null>>), O(<<>>, <<>>), O(<<K_a>>, <<S!IntV(1)>>)}}
        \cup {A(<<A(<<S!IntV(1)>>), A(<<S!IntV(2)>>)>>)}
Lvl3 == {A(<<x, y>>) : x \in Mid2, y \in Mid2} \cup {O(<<K_a>>, <<A(<<x, y>>)>>) : x \in Mid2, y \in Mid2}
JData == Lvl1 \cup Lvl2 \cup Lvl3

J2G == {[fam |-> "j2g", conv |-> TRUE, v |-> v] : v \in JPrims \cup Objs}
       \cup {[fam |-> "j2g", conv |-> FALSE, v |-> v] : v \in JData \cup {S!JFn}}

(* ---- calls ---------------------------------------------------------------- *)
ArgVals == {S!GNil, S!GBool(TRUE), S!GInt("int", I(5)), S!GInt("uint64", ZAdd(63, 1024)), S!GInt("int64", ZAdd(53, 1)),
            S!GFlt("float32", Canon(FALSE, <<3>>, -1)), S!GFlt("float64", S!NZero), S!GStr(U_smile),
            S!GSlice("iface", FALSE, <<S!GInt("int", I(1)), S!GStr(<<97>>)>>), S!GMap("int", FALSE, <<K_a>>, <<S!GInt("int", I(1))>>)}
ArgLists == {<<>>} \cup {<<a>> : a \in ArgVals} \cup {<<a, b>> : a \in ArgVals, b \in {S!GNil, S!GInt("int", I(5)), S!GStr(U_smile)}}
ThisPrims == {[k |-> "prim", g |-> g] : g \in {S!GInt("int", I(5)), S!GStr(<<97>>), S!GBool(FALSE), S!GFlt("float64", S!NaN)}}
ThisVals == {[k |-> "undef"], [k |-> "null"], [k |-> "objO"]} \cup ThisPrims
Calls == {[fam |-> "call", route |-> "value", src |-> "CF", th |-> th, args |-> a] : th \in ThisVals, a \in ArgLists}
         \cup {[fam |-> "call", route |-> "object", src |-> "m", th |-> [k |-> "objO"], args |-> a] : a \in ArgLists}
         \cup {[fam |-> "call", route |-> "otto", src |-> s, th |-> th, args |-> a] :
                  s \in {"CF", "O.m"}, th \in ThisVals \cup {[k |-> "gonil"]}, a \in ArgLists}

CallErrs == {[fam |-> "callerr", route |-> r, what |-> w] : r \in {"value", "object", "otto"}, w \in {"throws", "notcallable"}}
            \cup {[fam |-> "callerr", route |-> "otto", what |-> "unresolvable"]}

(* ---- rendering of JavaScript values as source text parts ------------------ *)
RECURSIVE JsParts(_)
RECURSIVE JsItems(_, _)
JsItems(items, i) == IF i > Len(items) THEN <<>>
                     ELSE (IF items[i].t = "hole" THEN <<>> ELSE JsParts(items[i])) \o <<",">> \o JsItems(items, i + 1)
RECURSIVE JsMembers(_, _, _)
JsMembers(keys, vals, i) == IF i > Len(keys) THEN <<>>
                            ELSE <<[lit |-> S!StrV(keys[i])], ":">> \o JsParts(vals[i]) \o <<",">> \o JsMembers(keys, vals, i + 1)
JsParts(v) == CASE v.t = "arr" -> <<"[">> \o JsItems(v.items, 1) \o <<"]">>
                [] v.t = "obj" -> <<"({">> \o JsMembers(v.keys, v.vals, 1) \o <<"})">>
                [] v.t = "fn" -> <<"(function(){})">>
                [] OTHER -> <<[lit |-> v]>>

(* ---- length-changing script steps on containers nested in a *Doc ------------------- *)
(* (Bridge!DocMutate): afterwards the script, the Go variable and Export must agree     *)
In1 == [Tags |-> <<S!GStr(<<105>>)>>, Sizes |-> <<S!GInt("int8", I(7))>>, N |-> I(1)]
In2 == [Tags |-> <<S!GStr(<<112>>), S!GStr(<<113>>)>>, Sizes |-> <<>>, N |-> I(2)]
Doc0 == [k |-> "doc", Title |-> <<116>>, Tags |-> <<S!GStr(<<97>>), S!GStr(U_smile)>>,
         Sizes |-> <<S!GInt("int8", I(1)), S!GInt("int8", I(2)), S!GInt("int8", I(-128))>>,
         Any |-> <<S!GX([x |-> "num", n |-> I(1)]), S!GX([x |-> "str", s |-> <<120>>])>>,
         In |-> In1, PIn |-> In2, Arr |-> <<S!GInt("int8", I(1)), S!GInt("int8", I(2))>>,
         SIn |-> <<In2>>, AIn |-> <<In1, In2>>, Grid |-> <<<<S!GInt("int8", I(1))>>, <<S!GInt("int8", I(2)), S!GInt("int8", I(3))>>>>]
MutSels == {"Tags", "Sizes", "Any", "In.Tags", "In.Sizes", "PIn.Tags", "PIn.Sizes", "Grid0", "Grid1", "SIn0.Tags", "AIn0.Tags"}
MutVals(sel) == CASE S!DocElemKind(sel) = "string" -> {S!StrV(<<99>>), S!IntV(5)}
                  [] S!DocElemKind(sel) = "iface" -> {S!BoolV(TRUE), S!StrV(<<115>>)}
                  [] OTHER -> {S!IntV(5), S!IntV(300), S!NumV(S!NumNeg(Canon(FALSE, <<3>>, -1)))}
MutOpsOf(sel) ==
    LET n == Len(S!DocSlice(Doc0, sel))  elem == S!IsElementPath(sel) IN
    {[op |-> "jspush", v |-> v, js |-> JsParts(v)] : v \in MutVals(sel)}
    \cup {[op |-> "jswrite", i |-> n, v |-> v, js |-> JsParts(v)] : v \in MutVals(sel)}
    \cup {[op |-> "jspop"]} \cup {[op |-> "jssetlen", n |-> m] : m \in {j \in {0, n - 1, n + 1} : j >= 0}}
    \cup (IF elem THEN {} ELSE {[op |-> "jsshift"], [op |-> "jssplice"]}
                              \cup {[op |-> "jsunshift", v |-> v, js |-> JsParts(v)] : v \in {vv \in MutVals(sel) : S!ElemConv(vv, S!DocElemKind(sel)).thr = "" /\ L!ElemConv(vv, S!DocElemKind(sel)).thr = ""}})
Muts == {[fam |-> "mut", where |-> w, d |-> Doc0, sel |-> sel, op |-> op] :
            w \in {"ptr", "inslice", "inmap"}, sel \in MutSels, op \in UNION {MutOpsOf(ss) : ss \in MutSels}}
MutsOK == {c \in Muts : c.op \in MutOpsOf(c.sel)}

(* ---- Export of shared and cyclic data (Bridge!ExportNode) ----------------------------- *)
(* three containers n1 (the exported value), n2, n3; every member is the leaf 1 or a         *)
(* reference to n1, n2 or n3: all shapes of depth <= 2 with shared rows, diamonds, a leaf    *)
(* container under two parents, self references and longer cycles, over arrays and objects   *)
Ref(i) == [t |-> "ref", i |-> i]
DagSlot == {S!IntV(1), Ref(1), Ref(2), Ref(3)}
KindPats == {<<"arr", "arr", "arr">>, <<"obj", "obj", "obj">>, <<"arr", "obj", "arr">>, <<"obj", "arr", "obj">>}
DNode(kind, vals) == [kind |-> kind, keys |-> IF Len(vals) = 2 THEN <<K_a, K_b>> ELSE <<K_a>>, vals |-> vals]
Dags == {[fam |-> "dag", nodes |-> <<DNode(kp[1], <<a, b>>), DNode(kp[2], <<c, d>>), DNode(kp[3], <<e>>)>>] :
            kp \in KindPats, a \in DagSlot, b \in DagSlot, c \in DagSlot, d \in DagSlot, e \in {S!StrV(<<120>>), Ref(1), Ref(3)}}
NodeName(i) == "n" \o ToString(i)
MemberJs(v) == IF v.t = "ref" THEN <<NodeName(v.i)>> ELSE <<[lit |-> v]>>
RECURSIVE FillJs(_, _, _)
FillJs(nd, i, j) == IF j > Len(nd.vals) THEN <<>>
                    ELSE (IF nd.kind = "arr" THEN <<NodeName(i) \o ".push(">> \o MemberJs(nd.vals[j]) \o <<");">>
                          ELSE <<NodeName(i) \o "[">> \o <<[lit |-> S!StrV(nd.keys[j])]>> \o <<"] = ">> \o MemberJs(nd.vals[j]) \o <<";">>)
                         \o FillJs(nd, i, j + 1)
DagJs(nodes) == <<"(function(){ var ">>
                \o <<NodeName(1) \o (IF nodes[1].kind = "arr" THEN " = [], " ELSE " = {}, ")
                     \o NodeName(2) \o (IF nodes[2].kind = "arr" THEN " = [], " ELSE " = {}, ")
                     \o NodeName(3) \o (IF nodes[3].kind = "arr" THEN " = []; " ELSE " = {}; ")>>
                \o FillJs(nodes[1], 1, 1) \o FillJs(nodes[2], 2, 1) \o FillJs(nodes[3], 3, 1) \o <<" return n1; })()">>

(* ---- Otto.Call / Object.Call with callee sources over names that begin with or contain "new" ---- *)
SrcCall(path) == [new |-> FALSE, sp |-> 0, path |-> path]
SrcNew(sp, path) == [new |-> TRUE, sp |-> sp, path |-> path]
CallSources == {SrcCall(<<"Point">>), SrcCall(<<"newPoint">>), SrcCall(<<"newest">>), SrcCall(<<"renew">>), SrcCall(<<"news", "count">>),
                SrcCall(<<"ns", "newB">>), SrcCall(<<"ns", "renew">>), SrcCall(<<"ns", "C">>),
                SrcNew(1, <<"Point">>), SrcNew(2, <<"Point">>), SrcNew(1, <<"newPoint">>), SrcNew(1, <<"newest">>), SrcNew(1, <<"ns", "C">>), SrcNew(3, <<"ns", "newB">>)}
SrcArgs == {<<>>, <<S!GInt("int", I(3))>>, <<S!GStr(U_smile), S!GNil>>, <<S!GInt("uint64", ZAdd(63, 1024)), S!GFlt("float64", S!NZero)>>}
CallSrcs == {[fam |-> "callsrc", route |-> "otto", csrc |-> src, th |-> th, args |-> a] : src \in CallSources, th \in {[k |-> "gonil"], [k |-> "objO"]}, a \in SrcArgs}
            \cup {[fam |-> "callsrc", route |-> "object", csrc |-> SrcCall(<<"ns", m>>), th |-> [k |-> "gonil"], args |-> a] : m \in {"newB", "renew", "C", "new"}, a \in SrcArgs}

(* ---- undefined / null (and a value, then null) written into bridged maps (Bridge!MapWriteRun) ---- *)
MapWInit(k) == [k |-> k, keys |-> <<K_a>>,
                vals |-> <<CASE k = "iface" -> S!GX([x |-> "num", n |-> I(1)]) [] k = "int8" -> S!GInt("int8", I(1))
                             [] k = "string" -> S!GStr(<<118>>) [] k = "bool" -> S!GBool(TRUE) [] OTHER -> [k |-> "nonnil"]>>]
MapWVal(k) == CASE k = "iface" -> S!StrV(<<115>>) [] k = "int8" -> S!IntV(5) [] k = "string" -> S!StrV(<<115>>) [] k = "bool" -> S!BoolV(TRUE)
WOp(key, v) == [op |-> "jswrite", key |-> key, v |-> v, js |-> JsParts(v)]
MapWs == {[fam |-> "mapw", k |-> k, key |-> key, steps |-> <<WOp(key, nv)>>] : k \in {"iface", "int8", "string", "bool"}, key \in {K_a, K_b}, nv \in {S!Null, S!Undef}}
         \cup {[fam |-> "mapw", k |-> k, key |-> K_b, steps |-> <<WOp(K_b, MapWVal(k)), WOp(K_b, nv)>>] : k \in {"iface", "int8", "string", "bool"}, nv \in {S!Null, S!Undef}}
         \cup {[fam |-> "mapw", k |-> k, key |-> K_b, steps |-> <<WOp(K_b, nv)>>] : k \in S!NilableKinds, nv \in {S!Null, S!Undef}}
         \cup {[fam |-> "mapw", k |-> "ptr:inner", key |-> K_b, steps |-> <<WOp(K_b, v)>>] :
                v \in {S!JObj(<<<<78>>>>, <<S!IntV(2)>>), S!JObj(<<<<78>>>>, <<S!NumV(Canon(FALSE, <<3>>, -1))>>), S!IntV(5), S!StrV(<<115>>), S!JArr(<<S!IntV(1)>>)}}
         \cup {[fam |-> "mapw", k |-> k, key |-> K_b, steps |-> <<WOp(K_b, nv), WOp(K_b, nv2)>>] : k \in S!NilableKinds \cup {"iface"}, nv \in {S!Null, S!Undef}, nv2 \in {S!Null, S!Undef}}

(* ---- expectations ---------------------------------------------------------- *)
IsScalar(g) == S!Base(g).k \notin {"slice", "map", "struct", "imap", "nstruct"}
ConvR(r) == [thr |-> r.thr, v |-> r.v, log |-> r.log]
Expect(B(_), c) ==        \* B(op) selects the instance: see Emit
    CASE c.fam = "g2j" ->
            LET g == c.g  j == B("ToJS")[g] IN
            IF IsScalar(g)
            THEN LET ts == B("ToStringG")[g]
                 IN  [js |-> j, ty |-> B("TypeOf")[j],
                      \* Bridge!ScriptString and Bridge!ToStringG are the same expression except for the integer kinds:
                      \* the shortest-digits search of 9.8.1 is evaluated once
                      str |-> IF S!Base(g).k \in S!IntKinds THEN B("ScriptString")[g] ELSE ts, exp |-> B("Export")[g],
                      toInt |-> B("ToIntegerG")[g], toFloat |-> B("ToFloatG")[g], toStr |-> ts, toBool |-> B("ToBooleanG")[g],
                      json |-> B("GoJSON")[g]]
            ELSE [js |-> j, ty |-> B("TypeOf")[j], forin |-> S!ForInKeys(j), exp |-> B("Export")[g], json |-> B("GoJSON")[g]]
      [] c.fam = "j2g" ->
            LET v == c.v
                base == [undef |-> v.t = "undef", null |-> v.t = "null", bool |-> v.t = "bool", num |-> v.t = "num", str |-> v.t = "str",
                         obj |-> S!IsObjJ(v), fn |-> v.t = "fn", cls |-> S!ClassOf(v), exp |-> B("ExportOutcome")[v]]
            IN  IF c.conv
                THEN [base |-> base, isnan |-> B("IsNaNV")[v], toInt |-> ConvR(B("ToIntegerV")[v]), toFloat |-> ConvR(B("ToFloatV")[v]),
                      toStr |-> ConvR(B("ToStringVV")[v]), toBool |-> S!ToBooleanV(v)]
                ELSE [base |-> base]
      [] c.fam = "callerr" -> [err |-> S!CallErr(c.what)]
      [] c.fam = "dag" -> [exp |-> S!ExportNode(c.nodes, 1, {})]
      [] c.fam = "mapw" -> (LET r == B("MapWriteRun")[c] IN [thr |-> r.thr, same |-> TRUE] @@ S!MapKeyObs(r.st, c.key))
      [] c.fam = "callsrc" -> IF c.route = "object" THEN S!ObjCallObs(c.csrc.path[2], c.args) ELSE S!CallSrcObs(c.csrc, c.th, c.args)
      [] c.fam = "mut" ->
            LET r == B("DocMutate")[c]
            IN  [thr |-> r.thr, ret |-> r.ret, js |-> S!PlacedJS(c.where, r.d), go |-> r.d, export |-> r.d, same |-> TRUE]
      [] c.fam = "call" ->
            IF c.route = "otto" /\ c.th.k = "gonil" /\ c.src = "O.m"
            THEN [S!CallObs(c.th, c.args) EXCEPT !.th = [k |-> "O"]]       \* otto.go Otto.Call: a nil this takes the this of the call expression
            ELSE S!CallObs(c.th, c.args)

(* TLC has no first-class operators over instances: a function table per instance *)
TabS(op) == CASE op = "ToJS" -> [g \in {cs.g} |-> S!ToJS(g)]
              [] op = "TypeOf" -> [j \in {S!ToJS(cs.g)} |-> S!TypeOfJ(j)]
              [] op = "ScriptString" -> [g \in {cs.g} |-> S!ScriptString(g)]
              [] op = "Export" -> [g \in {cs.g} |-> S!ExportG(g)]
              [] op = "ToIntegerG" -> [g \in {cs.g} |-> S!ToIntegerG(g)]
              [] op = "ToFloatG" -> [g \in {cs.g} |-> S!ToFloatG(g)]
              [] op = "ToStringG" -> [g \in {cs.g} |-> S!ToStringG(g)]
              [] op = "ToBooleanG" -> [g \in {cs.g} |-> S!ToBooleanG(g)]
              [] op = "GoJSON" -> [g \in {cs.g} |-> S!GoJSON(g)]
              [] op = "ExportOutcome" -> [v \in {cs.v} |-> S!ExportOutcome(v)]
              [] op = "IsNaNV" -> [v \in {cs.v} |-> S!IsNaNV(v)]
              [] op = "ToIntegerV" -> [v \in {cs.v} |-> S!ToIntegerV(v)]
              [] op = "ToFloatV" -> [v \in {cs.v} |-> S!ToFloatV(v)]
              [] op = "ToStringVV" -> [v \in {cs.v} |-> S!ToStringVV(v)]
              [] op = "DocMutate" -> [c \in {cs} |-> S!DocMutate(c.d, c.sel, c.op)]
              [] op = "MapWriteRun" -> [c \in {cs} |-> S!MapWriteRun(MapWInit(c.k), c.steps, 1, "")]
TabL(op) == CASE op = "ToJS" -> [g \in {cs.g} |-> L!ToJS(g)]
              [] op = "TypeOf" -> [j \in {L!ToJS(cs.g)} |-> L!TypeOfJ(j)]
              [] op = "ScriptString" -> [g \in {cs.g} |-> L!ScriptString(g)]
              [] op = "Export" -> [g \in {cs.g} |-> L!ExportG(g)]
              [] op = "ToIntegerG" -> [g \in {cs.g} |-> L!ToIntegerG(g)]
              [] op = "ToFloatG" -> [g \in {cs.g} |-> L!ToFloatG(g)]
              [] op = "ToStringG" -> [g \in {cs.g} |-> L!ToStringG(g)]
              [] op = "ToBooleanG" -> [g \in {cs.g} |-> L!ToBooleanG(g)]
              [] op = "GoJSON" -> [g \in {cs.g} |-> L!GoJSON(g)]
              [] op = "ExportOutcome" -> [v \in {cs.v} |-> L!ExportOutcome(v)]
              [] op = "IsNaNV" -> [v \in {cs.v} |-> L!IsNaNV(v)]
              [] op = "ToIntegerV" -> [v \in {cs.v} |-> L!ToIntegerV(v)]
              [] op = "ToFloatV" -> [v \in {cs.v} |-> L!ToFloatV(v)]
              [] op = "ToStringVV" -> [v \in {cs.v} |-> L!ToStringVV(v)]
              [] op = "DocMutate" -> [c \in {cs} |-> L!DocMutate(c.d, c.sel, c.op)]
              [] op = "MapWriteRun" -> [c \in {cs} |-> L!MapWriteRun(MapWInit(c.k), c.steps, 1, "")]

Js(c) == IF c.fam = "j2g" THEN JsParts(c.v) ELSE IF c.fam = "dag" THEN DagJs(c.nodes) ELSE <<>>

(* ---- blocks: evaluation is spread over the TLC workers --------------------- *)
(* Src = "enum": the cases enumerated above.  Src = "file": seeded random Go *)
(* values produced by the harness (c15cases.ndjson, one abstract value per   *)
(* line: random bit patterns of every integer and float width, decimal-like  *)
(* doubles, random strings) - the specification still computes every         *)
(* expectation.                                                              *)
K == 64
AllCases == G2J \cup J2G \cup Calls \cup CallErrs \cup MutsOK \cup Dags \cup CallSrcs \cup MapWs
FileCases == ndJsonDeserialize("c15cases.ndjson")
CaseSeq == IF Src = "file" THEN FileCases ELSE SetToSeq(AllCases)
None == [fam |-> "none"]
Init == cs = None /\ blk \in 1..K
Next == /\ cs = None
        /\ UNCHANGED blk
        /\ \E j \in {i \in 1..Len(CaseSeq) : i % K = blk - 1} : cs' = CaseSeq[j]
Emit ==
    cs = None \/
    LET es == Expect(TabS, cs)
        ed == IF cs.fam = "g2j" /\ L!G2JPanics(cs.g) THEN [gopanic |-> TRUE] ELSE Expect(TabL, cs)
    IN  PrintT("VJSON " \o ToJson([c |-> cs, js |-> Js(cs), exp |-> es, dev |-> IF ed = es THEN <<>> ELSE <<ed>>]))
=============================================================================
