------------------------------- MODULE OttoAPI ------------------------------
(* The public API of the interpreter as a state machine over whole runtimes.  *)
(*                                                                           *)
(*   rts    : runtime id -> abstract runtime (the whole ES5Core state: heap,  *)
(*            environments, ...).  A runtime is a VALUE.                      *)
(*   hist   : the actions so far   (hidden by VIEW, except for its length)    *)
(*   last   : the reply to the last action  (hidden by VIEW)                  *)
(*                                                                           *)
(* Actions (one per public entry point, otto.go / script.go), as records:     *)
(*   [op "new",  n]               otto.New(): a fresh runtime n               *)
(*   [op "copy", r, n]            n := r.Copy():  rts' = rts @@ (n :> rts[r]) *)
(*   [op "run",  r, p, route, k=0]  Progs[p] submitted by a route: source     *)
(*                                text, compiled Script, parsed Program, a    *)
(*                                Script compiled on another runtime (all the *)
(*                                same transition), or Eval (eval code 10.4.2)*)
(*   [op "hostpanic", r, p, route, k]  the same (routes source and eval), and  *)
(*                                the host function H                         *)
(*                                panics with the Go string "boom" at its     *)
(*                                k-th call of this run (abnormal exit unless *)
(*                                the script catches it)                      *)
(*   [op "set", r, nm, val]       vm.Set(nm, primitive)                       *)
(*   [op "get", r, nm]            vm.Get(nm)                                  *)
(*   [op "call", r, nm, args]     vm.Call(nm, nil, args...)                   *)
(*   [op "interrupt", r, p, k, route]  SpinProgs[p] run (vm.Run of the source   *)
(*                                or vm.Eval) while the host                   *)
(*                                sends an interrupt function (which panics)   *)
(*                                on vm.Interrupt during the k-th call of H:   *)
(*                                delivered at the next polling point, the run *)
(*                                is unwound (no catch, no finally), the       *)
(*                                effects made so far stand, the runtime is at *)
(*                                rest and every later action finds it so      *)
(*   [op "nudge", r, p, k]        the same, but the function sent RETURNS: it  *)
(*                                is invoked once during the run, which goes   *)
(*                                on to its end as if nothing had been sent    *)
(*   [op "limit", r, lim]         vm.SetStackDepthLimit(lim): part of the      *)
(*                                runtime (kept by Copy, not by New)           *)
(* Every action is ONE application of S!RunOn (or none): the Go-side calls    *)
(* set/get/call are the runs of the one-statement programs `nm = val`,        *)
(* `this.nm`, `nm(args)` (see SetProg/GetProg/CallProg for why these are the  *)
(* same transitions).  There is exactly one textual path from Next into the   *)
(* evaluator (TLC's start-up cost grows with every such path).                *)
(*                                                                           *)
(* Every transition is printed with the observation the specification         *)
(* requires (host-call log, completion value / exception class) and replayed  *)
(* on the implementation (harness/internal/api).                              *)
(*                                                                           *)
(* Checked by TLC on the model:                                               *)
(*   CopyIsValue     after Copy the two runtimes are equal, and (frame) a     *)
(*                   step on one runtime leaves every other unchanged         *)
(*   TotalReplies    every reply is undecided, a value, an error class or a   *)
(*                   thrown primitive (which includes the armed host panic) - *)
(*                   never anything else (no interrupt marker, no malformed   *)
(*                   record); as an invariant over `last` and, because `last` *)
(*                   is hidden by the VIEW, also as an action property        *)
(*                   (TotalRepliesStep) that TLC evaluates on every edge      *)
(* "The non-eval routes are the same transition" is NOT stated as a property: *)
(* Effect does not look at the route (except = "eval"), so in the model it is *)
(* a tautology.  Its content is on the implementation side: the replay        *)
(* requires the same observation, and through later steps the same successor  *)
(* state, for all four non-eval routes.                                       *)
EXTENDS Integers, Sequences, TLC, Json, FiniteSets, OttoAPIProgs
CONSTANTS MaxRT,        \* runtimes
          MaxLen,       \* length of a history
          Fuel,         \* evaluation fuel of one run
          RouteFrom,    \* the non-source routes are taken by steps number > RouteFrom only
          MaxK,         \* host panic at call 1..MaxK (0: no host panics)
          PanicFrom,    \* host panics are armed by steps number > PanicFrom only
          GoFrom,       \* set/get/call are taken by steps number > GoFrom only (MaxLen: never)
          ProgSet,      \* indexes of the programs of the pool in use ({}: all)
          IntFrom,      \* interrupts are sent by steps number > IntFrom only (MaxLen: never)
          Limits        \* stack depth limits the Go side configures (with set/get/call, from GoFrom on)
VARIABLES rts, hist, last

S == INSTANCE ES5Core WITH Dev <- {}

RT == 1..MaxRT
PS == IF ProgSet = {} THEN 1..Len(Progs) ELSE ProgSet
Routes == {"source", "script", "program", "foreign-script", "eval"}

Fresh == S!State0(Fuel)
Lost == [lost |-> TRUE]
Live(st) == "lost" \notin DOMAIN st
NoOut == [und |-> FALSE, log |-> <<>>, thr |-> <<>>, v |-> [t |-> "undef"]]

-----------------------------------------------------------------------------
(* The Go-side entry points as programs.                                      *)
(* vm.Set(nm, v): globalStash.setValue = [[Put]](nm, v, false) on the global  *)
(*   object when the property exists, else a new {writable, enumerable,       *)
(*   configurable} data property: the assignment `nm = v` in global code      *)
(*   (11.13.1 / 8.7.2 / 10.2.1.2.3).                                          *)
(* vm.Get(nm): hasProperty ? [[Get]] : undefined  =  `this.nm` in global code *)
(*   (never a ReferenceError).                                                *)
(* vm.Call(nm, nil, args...): otto evaluates the call expression `nm(args)`.  *)
Lit(v) == CASE v.t = "num" -> [k |-> "num", v |-> v.n]
            [] v.t = "str" -> [k |-> "str", s |-> v.s]
            [] v.t = "bool" -> [k |-> "bool", b |-> v.b]
            [] v.t = "null" -> [k |-> "null"]
            [] OTHER -> [k |-> "un", op |-> "void", e |-> [k |-> "num", v |-> [c |-> "int", v |-> 0]]]
IdN(nm) == [k |-> "id", n |-> nm]
SetProg(nm, v) == <<[k |-> "expr", e |-> [k |-> "asg", op |-> "=", l |-> IdN(nm), r |-> Lit(v)]]>>
GetProg(nm) == <<[k |-> "expr", e |-> [k |-> "dot", o |-> [k |-> "this"], n |-> nm]]>>
CallProg(nm, args) == <<[k |-> "expr", e |-> [k |-> "call", f |-> IdN(nm), args |-> [i \in 1..Len(args) |-> Lit(args[i])]]]>>

ProgOf(a) == CASE a.op \in {"run", "hostpanic"} -> Progs[a.p]
               [] a.op \in {"interrupt", "nudge"} -> SpinProgs[a.p]
               [] a.op = "set" -> SetProg(a.nm, a.val)
               [] a.op = "get" -> GetProg(a.nm)
               [] a.op = "call" -> CallProg(a.nm, a.args)

(* the one place where the evaluator is applied *)
Effect(a) ==
    CASE a.op = "new" -> [st |-> Fresh, out |-> NoOut]
      [] a.op = "copy" -> [st |-> rts[a.r], out |-> NoOut]
      [] a.op = "limit" -> [st |-> [rts[a.r] EXCEPT !.limit = a.lim], out |-> NoOut]
      [] OTHER -> S!RunOnX(rts[a.r], ProgOf(a), Fuel, a.op \in {"run", "hostpanic", "interrupt"} /\ a.route = "eval", IF a.op = "hostpanic" THEN a.k ELSE 0,
                           IF a.op = "interrupt" THEN a.k ELSE 0)

Target(a) == IF a.op \in {"new", "copy"} THEN a.n ELSE a.r

Step(a) ==
    LET res == Effect(a)
        t == Target(a)
        \* vm.Set reports only an error, not a completion value
        out == IF a.op = "set" /\ ~res.out.und /\ res.out.thr = <<>> THEN [res.out EXCEPT !.v = [t |-> "undef"]] ELSE res.out
        \* an undecided step (the run left the modelled fragment) says nothing about the runtime afterwards:
        \* the runtime is out of the model from then on (no later action uses it)
        st2 == IF out.und THEN Lost ELSE res.st
    IN  /\ rts' = IF t \in DOMAIN rts THEN [rts EXCEPT ![t] = st2] ELSE rts @@ (t :> st2)
        /\ hist' = Append(hist, a)
        /\ last' = out
        /\ PrintT("VJSON " \o ToJson([path |-> hist, step |-> a, exp |-> out]))

-----------------------------------------------------------------------------
(* the global names and primitive values the Go side writes, reads and calls  *)
(* (names the programs of the pool use: n = <<110>>, o, f, bump, g)           *)
GoNames == <<(<<110>>), (<<111>>), (<<98, 117, 109, 112>>), (<<103>>)>>
GoVals == <<[t |-> "num", n |-> [c |-> "int", v |-> 5]], [t |-> "str", s |-> <<115>>], [t |-> "undef"]>>
GoCalls == <<[nm |-> <<98, 117, 109, 112>>, args |-> <<[t |-> "num", n |-> [c |-> "int", v |-> 2]]>>],
             [nm |-> <<102>>, args |-> <<>>],
             [nm |-> <<110>>, args |-> <<>>]>>

Acts ==
    LET d == Len(hist)
        R == {r \in DOMAIN rts : Live(rts[r])}
        nx == Cardinality(DOMAIN rts) + 1
    IN  {[op |-> "run", r |-> r, p |-> p, route |-> "source", k |-> 0] : r \in R, p \in PS}
        \cup (IF d >= RouteFrom
              THEN {[op |-> "run", r |-> r, p |-> p, route |-> rt, k |-> 0] : r \in R, p \in PS, rt \in Routes \ {"source"}}
              ELSE {})
        \cup (IF d >= PanicFrom
              THEN {[op |-> "hostpanic", r |-> r, p |-> p, route |-> rt, k |-> k] :
                        r \in R, p \in PS, k \in 1..MaxK, rt \in (IF d >= RouteFrom THEN {"source", "eval"} ELSE {"source"})}
              ELSE {})
        \cup (IF nx <= MaxRT
              THEN {[op |-> "copy", r |-> r, n |-> nx] : r \in R} \cup {[op |-> "new", n |-> nx]}
              ELSE {})
        \cup (IF d >= GoFrom
              THEN {[op |-> "set", r |-> r, nm |-> GoNames[i], val |-> GoVals[j]] : r \in R, i \in 1..Len(GoNames), j \in 1..Len(GoVals)}
                   \cup {[op |-> "get", r |-> r, nm |-> GoNames[i]] : r \in R, i \in 1..Len(GoNames)}
                   \cup {[op |-> "call", r |-> r, nm |-> GoCalls[i].nm, args |-> GoCalls[i].args] : r \in R, i \in 1..Len(GoCalls)}
                   \cup {[op |-> "limit", r |-> r, lim |-> l] : r \in R, l \in Limits}
              ELSE {})
        \cup (IF d >= IntFrom
              THEN {[op |-> "nudge", r |-> r, p |-> p, k |-> 1] : r \in R, p \in 1..Len(SpinProgs)} \cup
                   {[op |-> "interrupt", r |-> r, p |-> p, k |-> k, route |-> rt] :      \* k <= SpinCalls[p] below
                        r \in R, p \in 1..Len(SpinProgs), k \in 1..3, rt \in {"source", "eval"}}      \* (both entry points from the first step on)
              ELSE {})

Init == rts = (1 :> Fresh) /\ hist = <<>> /\ last = NoOut

Enabled(a) == a.op = "interrupt" => a.k <= SpinCalls[a.p]

Next == /\ Len(hist) < MaxLen
        /\ \E a \in Acts : Enabled(a) /\ Step(a)

vars == <<rts, hist, last>>
(* The history and the reply are hidden; the LENGTH of the history is not: Acts and the bound    *)
(* MaxLen depend on it, and parallel breadth-first search does not always find a state by a      *)
(* shortest path first.  With the length in the view the explored graph is the same in every     *)
(* run: every history of at most MaxLen actions, up to equality of the runtimes at equal length. *)
View == <<rts, Len(hist)>>

-----------------------------------------------------------------------------
LastAct == hist'[Len(hist')]

(* a copy is a value; a step of one runtime is invisible to all others *)
CopyIsValue ==
    [][/\ (LastAct.op = "copy" => rts'[LastAct.n] = rts[LastAct.r])
       /\ \A x \in DOMAIN rts : (LastAct.op \in {"new", "copy"} \/ x # LastAct.r) => rts'[x] = rts[x]
       /\ DOMAIN rts \subseteq DOMAIN rts']_vars

(* no reply outside the vocabulary: undecided, value, error class, thrown primitive ("v") *)
ErrClasses == {S!ErrorNames[i] : i \in 1..Len(S!ErrorNames)}
ReplyOK(o, intr) ==
    /\ DOMAIN o \in {{"und"}, {"und", "log", "thr", "v"}}
    /\ (o.und \/ o.thr \in {<<>>, <<118>>} \cup ErrClasses \cup (IF intr THEN {<<105>>} ELSE {}))
TotalReplies == ReplyOK(last, hist # <<>> /\ hist[Len(hist)].op = "interrupt")
TotalRepliesStep == [][ReplyOK(last', LastAct.op = "interrupt")]_vars

(* an interrupt that was sent is delivered: the run of a SpinProg does not go on to its end,                              *)
(* and afterwards the runtime is at rest: no execution context, no frames beyond the base frame, nothing pending         *)
AtRest(st) == st.depth = 0 /\ Len(st.fr) = 1 /\ ~st.aborted /\ st.abortAt = 0 /\ st.abortLog = 0 /\ st.hpanic = 0 /\ st.poll = 0
(* (the function is sent during the k-th call of H: a run that ends before that call - e.g. with the RangeError of a  *)
(* stack depth limit - is not interrupted; one that made the call always is)                                        *)
InterruptDelivered == [][LastAct.op = "interrupt" => (last'.und \/ last'.thr = <<105>> \/ Len(last'.log) < LastAct.k)]_vars
RestAfterEveryAction == \A r \in DOMAIN rts : Live(rts[r]) => AtRest(rts[r])
(* the stack depth limit is per runtime: kept by Copy, changed only by "limit" on that runtime, fresh runtimes have none *)
LimitIsPerRuntime ==
    [][/\ (LastAct.op = "new" => rts'[LastAct.n].limit = 0)
       /\ (LastAct.op = "limit" => rts'[LastAct.r].limit = LastAct.lim)
       /\ \A x \in DOMAIN rts : (LastAct.op # "limit" /\ Live(rts[x]) /\ Live(rts'[x])) => rts'[x].limit = rts[x].limit]_vars
=============================================================================
