------------------------------- MODULE OttoAPI ------------------------------
(* The public API of the interpreter as a state machine over whole runtimes.  *)
(*                                                                           *)
(*   rts    : runtime id -> abstract runtime (the ES5Core state: heap,       *)
(*            environments, ...).  A runtime is a VALUE.                     *)
(*   hist   : the actions so far (hidden by VIEW)                            *)
(*                                                                           *)
(* Actions (one per public entry point, otto.go / script.go):                *)
(*   New(r)                 a fresh runtime                                  *)
(*   Run(r, p, route)       Programs[p] submitted by a route: source text,   *)
(*                          compiled Script, parsed Program, a Script        *)
(*                          compiled on another runtime (all the same        *)
(*                          transition), or Eval (eval code: 10.4.2)         *)
(*   RunHostPanic(r, p, k)  the same with a host function that panics at its *)
(*                          k-th call: an abnormal exit                      *)
(*   Copy(r, n)             rts' = rts with n |-> rts[r]                     *)
(* Every transition is printed with the observation the specification        *)
(* requires (host-call log, completion value / exception class) and replayed *)
(* on the implementation (harness/internal/api).                             *)
(*                                                                           *)
(* Checked by TLC on the model:                                              *)
(*   CopyIsValue     after Copy the two runtimes are equal, and (frame) a    *)
(*                   step of one runtime leaves every other unchanged        *)
(*   RouteIndependent  the non-eval routes are the same transition           *)
(*   TotalReplies    every reply is a value, an error class or the armed     *)
(*                   host panic - never anything else                        *)
EXTENDS Integers, Sequences, TLC, Json, FiniteSets, OttoAPIProgs
CONSTANTS MaxRT, MaxLen, Fuel, WithPanic
VARIABLES rts, hist

S == INSTANCE ES5Core WITH Dev <- {}

RT == 1..MaxRT
NP == Len(Progs)
Routes == {"source", "script", "program", "foreign-script", "eval"}

Init == rts = (1 :> S!State0(Fuel)) /\ hist = <<>>

Reply(a, out) == [act |-> a, out |-> out]

DoRun(r, p, route, k) ==
    LET res == S!RunOn(rts[r], Progs[p], Fuel, route = "eval", k)
        a == [op |-> IF k = 0 THEN "run" ELSE "hostpanic", r |-> r, p |-> p, route |-> route, k |-> k]
    IN  /\ rts' = [rts EXCEPT ![r] = res.st]
        /\ hist' = Append(hist, a)
        /\ PrintT("VJSON " \o ToJson([path |-> hist, step |-> a, exp |-> res.out]))

Run(r, p, route) == r \in DOMAIN rts /\ DoRun(r, p, route, 0)
RunHostPanic(r, p, k) == WithPanic /\ r \in DOMAIN rts /\ DoRun(r, p, "source", k)

New(r) == /\ r \notin DOMAIN rts
          /\ rts' = rts @@ (r :> S!State0(Fuel))
          /\ hist' = Append(hist, [op |-> "new", r |-> r])
          /\ PrintT("VJSON " \o ToJson([path |-> hist, step |-> [op |-> "new", r |-> r], exp |-> [und |-> FALSE, log |-> <<>>, thr |-> <<>>, v |-> [t |-> "undef"]]]))

Copy(r, n) == /\ r \in DOMAIN rts /\ n \notin DOMAIN rts
              /\ rts' = rts @@ (n :> rts[r])
              /\ hist' = Append(hist, [op |-> "copy", r |-> r, n |-> n])
              /\ PrintT("VJSON " \o ToJson([path |-> hist, step |-> [op |-> "copy", r |-> r, n |-> n], exp |-> [und |-> FALSE, log |-> <<>>, thr |-> <<>>, v |-> [t |-> "undef"]]]))

Next == /\ Len(hist) < MaxLen
        /\ \/ \E r \in RT, p \in 1..NP : Run(r, p, "source")
           \/ \E r \in RT, p \in 1..NP, route \in Routes \ {"source"} : Len(hist) = MaxLen - 1 /\ Run(r, p, route)   \* routes: as last step
           \/ \E r \in RT, p \in 1..NP, k \in 1..3 : RunHostPanic(r, p, k)
           \/ \E r \in RT, n \in RT : n = Cardinality(DOMAIN rts) + 1 /\ Copy(r, n)
           \/ \E n \in RT : n = Cardinality(DOMAIN rts) + 1 /\ New(n)

vars == <<rts, hist>>
View == rts

-----------------------------------------------------------------------------
Last == hist'[Len(hist')]

(* a copy is a value; a step of one runtime is invisible to all others *)
CopyIsValue ==
    [][/\ (Last.op = "copy" => rts'[Last.n] = rts[Last.r])
       /\ \A x \in DOMAIN rts : (Last.op \in {"new", "copy"} \/ x # Last.r) => rts'[x] = rts[x]]_vars

(* the routes other than Eval are the same transition *)
RouteIndependent ==
    \A r \in DOMAIN rts, p \in 1..NP :
        LET a == S!RunOn(rts[r], Progs[p], Fuel, FALSE, 0) IN
        \A route \in {"script", "program", "foreign-script"} : S!RunOn(rts[r], Progs[p], Fuel, route = "eval", 0) = a

(* no reply outside the vocabulary: value, error class, thrown value ("v") *)
TotalReplies ==
    \A r \in DOMAIN rts, p \in 1..NP :
        LET o == S!RunOn(rts[r], Progs[p], Fuel, FALSE, 0).out IN
        o.und \/ o.thr \in {<<>>, <<118>>} \cup {S!NativeErrs[i] : i \in 1..Len(S!NativeErrs)} \cup {S!ErrorNames[1]}
=============================================================================
