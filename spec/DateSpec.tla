------------------------------ MODULE DateSpec ------------------------------
(* ES5.1 clause 15.9: the time-value algebra of Date objects.                *)
(*                                                                           *)
(* A time value is a Num (spec/Num.tla: an exact binary64 value), as in the  *)
(* standard; MakeTime / MakeDay / MakeDate / TimeClip follow the text of     *)
(* 15.9.1.11-14 literally with IEEE arithmetic (NumAdd, NumMul) and          *)
(* ToInteger.  Day(t) and "t modulo msPerDay" (15.9.1.2) are exact integer   *)
(* division on the big-natural magnitude of t; from there on the calendar    *)
(* formulas of 15.9.1.3-10 work on TLC integers (|Day(t)| <= 10^8 for every  *)
(* time value in range; the deviating instance follows otto's unclipped      *)
(* values up to |Day(t)| < 2^31 / 2).                                        *)
(*                                                                           *)
(* The check process runs with TZ=UTC: LocalTZA = 0 and DaylightSavingTA = 0 *)
(* (15.9.1.7-9), hence LocalTime(t) = t and UTC(t) = t; the local-time       *)
(* methods are specified through that identity.                              *)
(*                                                                           *)
(* Known deviations of otto are the branches D("...") (known_findings.d).    *)
EXTENDS Ops

MsPerDay    == 86400000      \* 15.9.1.2
MsPerHour   == 3600000       \* 15.9.1.10
MsPerMinute == 60000
MsPerSecond == 1000

NInt(n) == Canon(n < 0, BnFromInt(Abs(n)), 0)       \* a TLC integer as a Num
IntOf(x) == IF x.c = "int" THEN x.v ELSE 0          \* an integral Num of magnitude <= 2^30 as a TLC integer
SmallInt(x) == x.c \in {"int", "nzero"}
NumAbs(x) == IF IsNeg(x) THEN NumNeg(x) ELSE x
NumLe(x, y) == ~IsNaN(x) /\ ~IsNaN(y) /\ NumCmp(x, y) <= 0

MaxTime == NumMul(I(100000000), I(MsPerDay))         \* 8.64e15 (15.9.1.1), exact

-----------------------------------------------------------------------------
(* 15.9.1.2  Day(t) = floor(t / msPerDay), TimeWithinDay(t) = t modulo msPerDay, *)
(* for a finite integral t (every time value is one, 15.9.1.14)              *)
DayMs(t) ==
    IF IsZero(t) THEN [day |-> 0, ms |-> 0]
    ELSE IF t.c = "int" THEN [day |-> t.v \div MsPerDay, ms |-> t.v % MsPerDay]     \* \div is floor, % is modulo
    ELSE LET dm == BnDivMod(BnShl(t.m, t.e), BnFromInt(MsPerDay))
             q  == BnToInt(dm.q)
             r  == BnToInt(dm.rem)
         IN  IF ~t.neg THEN [day |-> q, ms |-> r]
             ELSE IF r = 0 THEN [day |-> -q, ms |-> 0]
             ELSE [day |-> -q - 1, ms |-> MsPerDay - r]

(* 15.9.1.3 *)
DaysInYear(y) == IF y % 4 # 0 THEN 365
                 ELSE IF y % 100 # 0 THEN 366
                 ELSE IF y % 400 # 0 THEN 365
                 ELSE 366
DayFromYear(y) == 365 * (y - 1970) + ((y - 1969) \div 4) - ((y - 1901) \div 100) + ((y - 1601) \div 400)
(* YearFromTime(t) = the largest y with TimeFromYear(y) <= t, i.e. with      *)
(* DayFromYear(y) <= Day(t); the search starts from an estimate              *)
RECURSIVE YearFix(_, _)
YearFix(y, d) == IF DayFromYear(y) > d THEN YearFix(y - 1, d)
                 ELSE IF DayFromYear(y + 1) <= d THEN YearFix(y + 1, d)
                 ELSE y
YearFromDay(d) == YearFix(1970 + 400 * (d \div 146097) + ((d % 146097) \div 366), d)
InLeapYear(y) == IF DaysInYear(y) = 366 THEN 1 ELSE 0

(* 15.9.1.4 MonthFromTime, 15.9.1.5 DateFromTime: the tables, as the first   *)
(* day-within-year of each month in a non-leap year (+ leap from March on)   *)
CumDays == <<0, 31, 59, 90, 120, 151, 181, 212, 243, 273, 304, 334, 365>>
MonthStart(m, leap) == CumDays[m + 1] + (IF m >= 2 THEN leap ELSE 0)
MonthEnd(m, leap)   == CumDays[m + 2] + (IF m >= 1 THEN leap ELSE 0)
MonthFromDWY(dwy, leap) == CHOOSE m \in 0..11 : MonthStart(m, leap) <= dwy /\ dwy < MonthEnd(m, leap)

(* all components of a finite time value (15.9.1.2 - 15.9.1.6, 15.9.1.10) *)
Fields(t) ==
    LET dm  == DayMs(t)
        y   == YearFromDay(dm.day)
        lp  == InLeapYear(y)
        dwy == dm.day - DayFromYear(y)                       \* DayWithinYear
        mo  == MonthFromDWY(dwy, lp)
    IN  [year |-> y, month |-> mo,
         date |-> dwy - MonthStart(mo, lp) + 1,              \* 15.9.1.5
         wd |-> (dm.day + 4) % 7,                            \* 15.9.1.6 WeekDay
         h |-> dm.ms \div MsPerHour,                         \* floor(t / msPerHour) modulo 24
         mi |-> (dm.ms \div MsPerMinute) % 60,
         s |-> (dm.ms \div MsPerSecond) % 60,
         ms |-> dm.ms % MsPerSecond,
         day |-> dm.day, tid |-> dm.ms]

-----------------------------------------------------------------------------
(* Deviation D12m / D12n: otto hands the millisecond field to Go's time.Date *)
(* as an int64 count of nanoseconds, ms * 10^6 computed modulo 2^64; the     *)
(* field then contributes floor(wrapped / 10^6) milliseconds.  The identity  *)
(* for |ms| * 10^6 < 2^63.  x: an integral finite Num, |x| < 2^63.           *)
P2_63 == BnShl(<<1>>, 63)
P2_64 == BnShl(<<1>>, 64)
WrapMs(x) ==
    IF IsZero(x) THEN x
    ELSE LET P == BnMul(BnShl(MantOf(x), ExpOf(x)), BnFromInt(1000000))
         IN  IF BnCmp(P, P2_63) < 0 THEN x
             ELSE LET low == BnLowBits(P, 64)
                      u   == IF IsNeg(x) /\ low # <<>> THEN BnSub(P2_64, low) ELSE low     \* two's complement bit pattern
                      neg == BnCmp(u, P2_63) >= 0
                      mag == IF neg THEN BnSub(P2_64, u) ELSE u
                      dm  == BnDivMod(mag, BnFromInt(1000000))
                      q   == IF neg /\ dm.rem # <<>> THEN BnAdd(dm.q, <<1>>) ELSE dm.q       \* floor
                  IN  Canon(neg, q, 0)

(* 15.9.1.11.  site: "fields" = newDateTime (Date.UTC, constructor),         *)
(* "set" = ecmaTime.goTime (every setter), "none" = no deviation             *)
MakeTime(hour, min, sec, ms, site) ==
    IF ~(IsFinite(hour) /\ IsFinite(min) /\ IsFinite(sec) /\ IsFinite(ms)) THEN NaN
    ELSE LET h == ToIntegerN(hour)  m == ToIntegerN(min)  s == ToIntegerN(sec)
             milli == IF (site = "fields" /\ D("D12m_millisecond_field_overflows_int64_nanoseconds_in_fields"))
                         \/ (site = "set" /\ D("D12n_millisecond_field_overflows_int64_nanoseconds_in_setters"))
                      THEN WrapMs(ToIntegerN(ms)) ELSE ToIntegerN(ms)
         IN  NumAdd(NumAdd(NumAdd(NumMul(h, I(MsPerHour)), NumMul(m, I(MsPerMinute))), NumMul(s, I(MsPerSecond))), milli)

(* 15.9.1.12.  Step 7 ("find t ...; if this is not possible because some     *)
(* argument is out of range, return NaN") is taken arithmetically for years  *)
(* up to YearLimit; no time value has a year beyond +-275760, and beyond     *)
(* YearLimit no date argument considered by the checks can bring the result  *)
(* back into range, so the choice is not observable through TimeClip.        *)
YearLimit == 5000000
MakeDay(year, month, date) ==
    IF ~(IsFinite(year) /\ IsFinite(month) /\ IsFinite(date)) THEN NaN
    ELSE LET y == ToIntegerN(year)  m == ToIntegerN(month)  dt == ToIntegerN(date)
         IN  IF ~(SmallInt(y) /\ SmallInt(m)) THEN NaN
             ELSE LET ym == IntOf(y) + (IntOf(m) \div 12)          \* step 5
                      mn == IntOf(m) % 12                           \* step 6
                  IN  IF Abs(ym) > YearLimit THEN NaN
                      ELSE LET d0 == DayFromYear(ym) + MonthStart(mn, InLeapYear(ym))   \* Day(t) of step 7
                           IN  NumSub(NumAdd(NInt(d0), dt), I(1))                      \* step 8

(* 15.9.1.13 *)
MakeDate(day, time) ==
    IF ~(IsFinite(day) /\ IsFinite(time)) THEN NaN
    ELSE NumAdd(NumMul(day, I(MsPerDay)), time)

(* MakeDate(day, MakeTime(hour, min, sec, ms)), the composition every caller *)
(* uses.  Deviation D12p / D12q: otto hands the integer fields to Go's       *)
(* time.Date, which composes them in exact integer arithmetic; ES5 performs  *)
(* every + and * in IEEE double arithmetic, so the results differ when an    *)
(* intermediate value exceeds 2^53 (e.g. 2^32 hours + 1 ms loses the 1 ms).  *)
SI(x) == [neg |-> IsNeg(x), mag |-> IF IsZero(x) THEN <<>> ELSE BnShl(MantOf(x), ExpOf(x))]    \* an integral finite Num as sign and magnitude
SAdd(a, b) ==
    IF a.neg = b.neg THEN [neg |-> a.neg, mag |-> BnAdd(a.mag, b.mag)]
    ELSE LET c == BnCmp(a.mag, b.mag)
         IN  IF c = 0 THEN [neg |-> FALSE, mag |-> <<>>]
             ELSE IF c > 0 THEN [neg |-> a.neg, mag |-> BnSub(a.mag, b.mag)]
             ELSE [neg |-> b.neg, mag |-> BnSub(b.mag, a.mag)]
SMul(a, k) == [neg |-> a.neg, mag |-> BnMul(a.mag, BnFromInt(k))]
(* when every partial sum stays below 2^53 both ways of computing agree (and the exact one is not evaluated) *)
Tame(day, hour, min, sec, ms) ==
    /\ SmallInt(day) /\ Abs(IntOf(day)) <= 100000000
    /\ SmallInt(ToIntegerN(hour)) /\ Abs(IntOf(ToIntegerN(hour))) < 1048576
    /\ SmallInt(ToIntegerN(min)) /\ SmallInt(ToIntegerN(sec)) /\ SmallInt(ToIntegerN(ms))
Compose(day, hour, min, sec, ms, site) ==
    IF ((site = "fields" /\ D("D12p_exact_integer_composition_in_fields"))
        \/ (site = "set" /\ D("D12q_exact_integer_composition_in_setters")))
       /\ IsFinite(day) /\ IsFinite(hour) /\ IsFinite(min) /\ IsFinite(sec) /\ IsFinite(ms)
       /\ ~Tame(day, hour, min, sec, ms)
    THEN LET msi   == ToIntegerN(ms)
             milli == IF (site = "fields" /\ D("D12m_millisecond_field_overflows_int64_nanoseconds_in_fields"))
                         \/ (site = "set" /\ D("D12n_millisecond_field_overflows_int64_nanoseconds_in_setters"))
                      THEN WrapMs(msi) ELSE msi
             sum   == SAdd(SAdd(SMul(SI(day), MsPerDay), SMul(SI(ToIntegerN(hour)), MsPerHour)),
                           SAdd(SAdd(SMul(SI(ToIntegerN(min)), MsPerMinute), SMul(SI(ToIntegerN(sec)), MsPerSecond)), SI(milli)))
         IN  RoundD(sum.neg, sum.mag, 0)          \* float64(time.UnixMilli())
    ELSE MakeDate(day, MakeTime(hour, min, sec, ms, site))

(* 15.9.1.14.  Step 3 leaves the sign of a zero result to the implementation *)
(* ("ToInteger(time) or ToInteger(time) + (+0)"); the specification takes +0 *)
(* and the harness maps a -0 time value to +0 before comparing.              *)
(* site: "set" = dateObject.Set (constructor, setTime, every setter),        *)
(*       "utc" = builtinDateUTC                                              *)
TimeClip(time, site) ==
    IF ~IsFinite(time) THEN NaN
    ELSE IF NumLt(MaxTime, NumAbs(time))
            /\ ~(site = "set" /\ D("D25_no_timeclip_in_date_objects"))
            /\ ~(site = "utc" /\ D("D25b_no_timeclip_in_date_utc"))
         THEN NaN
    ELSE NumAdd(ToIntegerN(time), I(0))

-----------------------------------------------------------------------------
(* 15.9.1.15 Date Time String Format                                         *)
Pad(n, w) == LET d == DigitsNat(n) IN [i \in 1..(w - Len(d)) |-> 48] \o d

(* 15.9.1.15.1: years outside 0..9999 take the expanded form +-YYYYYY *)
YearStr(y) ==
    IF D("D24_toisostring_no_expanded_year")
    THEN (IF y < 0 THEN <<45>> ELSE <<>>) \o Pad(Abs(y), 4)          \* Go layout "2006"
    ELSE IF y >= 0 /\ y <= 9999 THEN Pad(y, 4)
    ELSE (IF y < 0 THEN <<45>> ELSE <<43>>) \o Pad(Abs(y), 6)

ISOFrom(f, ystr) ==
    ystr \o <<45>> \o Pad(f.month + 1, 2) \o <<45>> \o Pad(f.date, 2) \o <<84>>
         \o Pad(f.h, 2) \o <<58>> \o Pad(f.mi, 2) \o <<58>> \o Pad(f.s, 2) \o <<46>> \o Pad(f.ms, 3) \o <<90>>
ToISO(t) == LET f == Fields(t) IN ISOFrom(f, YearStr(f.year))

(* recogniser of the format: [ok |-> the text is in the format, t |-> value] *)
(* A text that is not in the format has an implementation-defined result     *)
(* (15.9.4.2) and is never judged; illegal element values give NaN.          *)
AllDig(s, i, n) == i + n - 1 <= Len(s) /\ \A k \in i..(i + n - 1) : IsDigit(s[k])
RECURSIVE NatAt(_, _, _)
NatAt(s, i, n) == IF n = 0 THEN 0 ELSE NatAt(s, i, n - 1) * 10 + (s[i + n - 1] - 48)
At(s, i, u) == i <= Len(s) /\ s[i] = u
Bad == [ok |-> FALSE]

ParseYear(s) ==      \* [ok, y, exp, p]: p = position after the year
    IF Len(s) >= 1 /\ s[1] \in {43, 45}
    THEN (IF AllDig(s, 2, 6) THEN [ok |-> TRUE, y |-> (IF s[1] = 45 THEN -1 ELSE 1) * NatAt(s, 2, 6), exp |-> TRUE, p |-> 8] ELSE Bad)
    ELSE (IF AllDig(s, 1, 4) THEN [ok |-> TRUE, y |-> NatAt(s, 1, 4), exp |-> FALSE, p |-> 5] ELSE Bad)

ParseMD(s, p) ==     \* optional -MM and -DD: [ok, mo, d, p]
    IF At(s, p, 45) THEN
        (IF ~AllDig(s, p + 1, 2) THEN Bad
         ELSE IF At(s, p + 3, 45) THEN
              (IF ~AllDig(s, p + 4, 2) THEN Bad
               ELSE [ok |-> TRUE, mo |-> NatAt(s, p + 1, 2), d |-> NatAt(s, p + 4, 2), p |-> p + 6])
         ELSE [ok |-> TRUE, mo |-> NatAt(s, p + 1, 2), d |-> 1, p |-> p + 3])
    ELSE [ok |-> TRUE, mo |-> 1, d |-> 1, p |-> p]

ParseTime(s, p) ==   \* optional THH:mm[:ss[.sss]]: [ok, has, h, mi, sec, ms, p]
    IF ~At(s, p, 84) THEN [ok |-> TRUE, has |-> FALSE, h |-> 0, mi |-> 0, sec |-> 0, ms |-> 0, p |-> p]
    ELSE IF ~(AllDig(s, p + 1, 2) /\ At(s, p + 3, 58) /\ AllDig(s, p + 4, 2)) THEN Bad
    ELSE LET h == NatAt(s, p + 1, 2)  mi == NatAt(s, p + 4, 2)
         IN  IF ~At(s, p + 6, 58) THEN [ok |-> TRUE, has |-> TRUE, h |-> h, mi |-> mi, sec |-> 0, ms |-> 0, p |-> p + 6]
             ELSE IF ~AllDig(s, p + 7, 2) THEN Bad
             ELSE IF ~At(s, p + 9, 46) THEN [ok |-> TRUE, has |-> TRUE, h |-> h, mi |-> mi, sec |-> NatAt(s, p + 7, 2), ms |-> 0, p |-> p + 9]
             ELSE IF ~AllDig(s, p + 10, 3) THEN Bad
             ELSE [ok |-> TRUE, has |-> TRUE, h |-> h, mi |-> mi, sec |-> NatAt(s, p + 7, 2), ms |-> NatAt(s, p + 10, 3), p |-> p + 13]

ParseTZ(s, p) ==     \* optional Z or +-HH:mm (only after a time): [ok, legal, off (minutes east), p]
    IF At(s, p, 90) THEN [ok |-> TRUE, legal |-> TRUE, off |-> 0, p |-> p + 1]
    ELSE IF p <= Len(s) /\ s[p] \in {43, 45} THEN
         (IF ~(AllDig(s, p + 1, 2) /\ At(s, p + 3, 58) /\ AllDig(s, p + 4, 2)) THEN Bad
          ELSE LET hh == NatAt(s, p + 1, 2)  mm == NatAt(s, p + 4, 2)
               IN  [ok |-> TRUE, legal |-> hh <= 23 /\ mm <= 59,
                    off |-> (IF s[p] = 45 THEN -1 ELSE 1) * (hh * 60 + mm), p |-> p + 6])
    ELSE [ok |-> TRUE, legal |-> TRUE, off |-> 0, p |-> p]       \* "the value of an absent time zone offset is Z"

ParseISO(s) ==
    LET yr == ParseYear(s)
    IN  IF ~yr.ok THEN Bad
        ELSE LET md == ParseMD(s, yr.p)
             IN  IF ~md.ok THEN Bad
                 ELSE LET tm == ParseTime(s, md.p)
                      IN  IF ~tm.ok THEN Bad
                          ELSE LET tz == IF tm.has THEN ParseTZ(s, tm.p) ELSE [ok |-> TRUE, legal |-> TRUE, off |-> 0, p |-> tm.p]
                               IN  IF ~tz.ok \/ tz.p # Len(s) + 1 THEN Bad
                                   ELSE LET legal == /\ md.mo >= 1 /\ md.mo <= 12 /\ md.d >= 1 /\ md.d <= 31
                                                     /\ tm.mi <= 59 /\ tm.sec <= 59
                                                     /\ (tm.h <= 23 \/ (tm.h = 24 /\ tm.mi = 0 /\ tm.sec = 0 /\ tm.ms = 0))
                                                     /\ tz.legal
                                            day  == MakeDay(NInt(yr.y), I(md.mo - 1), I(md.d))
                                            time == MakeTime(I(tm.h), I(tm.mi), I(tm.sec), I(tm.ms), "none")
                                            t    == NumSub(MakeDate(day, time), NInt(tz.off * MsPerMinute))
                                        IN  [ok |-> TRUE, exp |-> yr.exp, h24 |-> tm.h = 24,
                                             t |-> IF legal THEN TimeClip(t, "parse") ELSE NaN]

(* 15.9.4.2 Date.parse on a text of the format *)
DateParse(s) ==
    LET r == ParseISO(s)
    IN  IF r.exp /\ D("D12d_parse_no_expanded_year") THEN NaN          \* dateParse: Go layouts have 4-digit years only
        ELSE IF r.h24 /\ D("D12e_parse_rejects_hour_24") THEN NaN      \* dateParse: Go rejects hour 24
        ELSE r.t

-----------------------------------------------------------------------------
(* Date objects: the state is the time value ([[PrimitiveValue]]).           *)

Arg(a, i, dflt) == IF i <= Len(a) THEN a[i] ELSE dflt

(* 15.9.3.1 steps 1-9 / 15.9.4.3 steps 1-9 on the converted arguments a (2..7 Nums) *)
FromFields(a) ==
    LET y  == a[1]
        yi == ToIntegerN(y)
        yr == IF D("D12a_two_digit_year_tested_before_tointeger")
              THEN (IF NumLe(I(0), y) /\ NumLe(y, I(99)) THEN NumAdd(I(1900), y) ELSE y)     \* newDateTime
              ELSE (IF ~IsNaN(y) /\ NumLe(I(0), yi) /\ NumLe(yi, I(99)) THEN NumAdd(I(1900), yi) ELSE y)   \* step 8
    IN  Compose(MakeDay(yr, a[2], Arg(a, 3, I(1))), Arg(a, 4, I(0)), Arg(a, 5, I(0)), Arg(a, 6, I(0)), Arg(a, 7, I(0)), "fields")

DateUTC(a)  == TimeClip(FromFields(a), "utc")          \* 15.9.4.3
CtorFields(a) == TimeClip(FromFields(a), "set")        \* 15.9.3.1 step 11: TimeClip(UTC(finalDate)), UTC(t) = t
CtorValue(v) == TimeClip(v, "set")                     \* 15.9.3.2 for a Number argument

(* accessors 15.9.5.8 - 15.9.5.25 (getTime, valueOf, getUTCxxx and, under    *)
(* LocalTime(t) = t, their local counterparts): NaN for an invalid date,     *)
(* else the component.  FN(t) = all components of t as Nums.                 *)
FieldNames == {"year", "month", "date", "wd", "h", "mi", "s", "ms", "day", "tid"}
FN(t) == IF IsNaN(t) THEN [f \in FieldNames |-> NaN]
         ELSE LET r == Fields(t) IN [f \in FieldNames |-> NInt(r[f])]

(* 15.9.5.43 toISOString, 15.9.5.44 toJSON: results as values; a throw is    *)
(* [t |-> "thr", name]                                                       *)
Thrown(n) == [t |-> "thr", name |-> n]
S_InvalidDate == <<73, 110, 118, 97, 108, 105, 100, 32, 68, 97, 116, 101>>      \* "Invalid Date"
(* setters 15.9.5.27 - 15.9.5.41 on the converted arguments a.  An absent    *)
(* first argument is ToNumber(undefined) = NaN; absent optional arguments    *)
(* default to the current component.                                         *)
(* f = FN(t), the components of the current time value                      *)
SetTime(f, a) == TimeClip(Arg(a, 1, NaN), "set")                                   \* 15.9.5.27
SetMs(f, a) ==                                                                       \* 15.9.5.28/29
    TimeClip(Compose(f.day, f.h, f.mi, f.s, Arg(a, 1, NaN), "set"), "set")
SetSec(f, a) ==                                                                      \* 15.9.5.30/31
    TimeClip(Compose(f.day, f.h, f.mi, Arg(a, 1, NaN), Arg(a, 2, f.ms), "set"), "set")
SetMin(f, a) ==                                                                      \* 15.9.5.32/33
    TimeClip(Compose(f.day, f.h, Arg(a, 1, NaN), Arg(a, 2, f.s), Arg(a, 3, f.ms), "set"), "set")
SetHours(f, a) ==                                                                    \* 15.9.5.34/35
    TimeClip(Compose(f.day, Arg(a, 1, NaN), Arg(a, 2, f.mi), Arg(a, 3, f.s), Arg(a, 4, f.ms), "set"), "set")
SetDate(f, a) ==                                                                     \* 15.9.5.36/37
    TimeClip(MakeDate(MakeDay(f.year, f.month, Arg(a, 1, NaN)), f.tid), "set")
SetMonth(f, a) ==                                                                    \* 15.9.5.38/39
    TimeClip(MakeDate(MakeDay(f.year, Arg(a, 1, NaN), Arg(a, 2, f.date)), f.tid), "set")
SetFullYear(t, a) ==                                                                 \* 15.9.5.40/41
    LET t1 == IF IsNaN(t) /\ ~D("D12c_setfullyear_on_invalid_date_stays_invalid") THEN I(0) ELSE t    \* step 1: "but if this time value is NaN, let t be +0"
        f  == FN(t1)
    IN  TimeClip(MakeDate(MakeDay(Arg(a, 1, NaN), Arg(a, 2, f.month), Arg(a, 3, f.date)), f.tid), "set")

(* method names: setUTCx and, under LocalTime(t) = t, setx *)
SetterValue(m, t, a) ==
    LET f == FN(t)
    IN  CASE m \in {"setTime"} -> SetTime(f, a)
          [] m \in {"setUTCMilliseconds", "setMilliseconds"} -> SetMs(f, a)
          [] m \in {"setUTCSeconds", "setSeconds"} -> SetSec(f, a)
          [] m \in {"setUTCMinutes", "setMinutes"} -> SetMin(f, a)
          [] m \in {"setUTCHours", "setHours"} -> SetHours(f, a)
          [] m \in {"setUTCDate", "setDate"} -> SetDate(f, a)
          [] m \in {"setUTCMonth", "setMonth"} -> SetMonth(f, a)
          [] m \in {"setUTCFullYear", "setFullYear"} -> SetFullYear(t, a)
(* every setter stores the computed value v in [[PrimitiveValue]] and        *)
(* returns it: [ret |-> returned value, t |-> new time value]                *)
Setter(m, t, a) ==
    LET v == SetterValue(m, t, a)
    IN  IF m = "setTime" /\ IsNaN(t) /\ D("D12f_settime_cannot_revive_invalid_date")
        THEN [ret |-> v, t |-> NaN]           \* dateObject.Set never clears isNaN
        ELSE [ret |-> v, t |-> v]

-----------------------------------------------------------------------------
(* Observations (what the harness function OBS(d) / OBSL(d) returns)         *)
ArrV(s) == [t |-> "arr", a |-> s]
(* 15.9.5.43 toISOString, 15.9.5.44 toJSON on a Date object with time value t and components r *)
ToISOStringF(t, r) ==
    IF IsNaN(t) THEN (IF D("D12b_toisostring_invalid_date_no_rangeerror") THEN StrV(S_InvalidDate) ELSE Thrown("RangeError"))
    ELSE StrV(ISOFrom(r, YearStr(r.year)))
Obs(t) ==
    LET r == IF IsNaN(t) THEN [year |-> 0] ELSE Fields(t)
        f == IF IsNaN(t) THEN [x \in FieldNames |-> NumV(NaN)] ELSE [x \in FieldNames |-> NumV(NInt(r[x]))]
        iso == ToISOStringF(t, r)
    IN  ArrV(<<NumV(t), NumV(t), f.year, f.month, f.date, f.wd, f.h, f.mi, f.s, f.ms,
               iso, IF IsNaN(t) THEN Null ELSE iso>>)             \* toJSON: 15.9.5.44 steps 2-6
(* local accessors and getTimezoneOffset (15.9.5.26: (t - LocalTime(t)) / msPerMinute = 0) *)
ObsLocal(t) ==
    LET f == FN(t)
    IN  ArrV(<<NumV(f.year), NumV(f.month), NumV(f.date), NumV(f.wd), NumV(f.h), NumV(f.mi), NumV(f.s), NumV(f.ms),
               NumV(IF IsNaN(t) THEN NaN ELSE I(0))>>)

RECURSIVE RunOps(_, _, _, _)
RunOps(t, ops, i, acc) ==        \* apply setters ops[i..]; acc = the values returned so far
    IF i > Len(ops) THEN [t |-> t, rets |-> acc]
    ELSE LET r == Setter(ops[i].m, t, ops[i].a)
             acc2 == Append(acc, NumV(r.ret))
         IN  IF Len(acc2) < 0 THEN [t |-> r.t, rets |-> acc2] ELSE RunOps(r.t, ops, i + 1, acc2)

-----------------------------------------------------------------------------
(* Calls with unconverted arguments (values of spec/Ops.tla, including the   *)
(* scripted conversion objects): every supplied argument is converted with   *)
(* ToNumber, left to right, before anything is computed (15.9.3.1 steps 1-7, *)
(* 15.9.4.3 steps 1-7, step 2.. of every setter).  Results are outcomes      *)
(* [thr, v, log] as in Ops.                                                  *)
RECURSIVE ToNumbers(_, _, _, _, _)
ToNumbers(vs, i, acc, log, stop) ==
    IF i > Len(vs) THEN [thr |-> "", v |-> Undef, log |-> log, nums |-> acc]
    ELSE LET r == ToNumber(vs[i], log)
         IN  IF r.thr # "" THEN [thr |-> r.thr, v |-> r.v, log |-> r.log, nums |-> acc]
             ELSE IF stop /\ ~IsFinite(r.v.n)           \* deviation: the remaining arguments are not converted
                  THEN [thr |-> "", v |-> Undef, log |-> r.log, nums |-> Append(acc, NaN)]
             ELSE ToNumbers(vs, i + 1, Append(acc, r.v.n), r.log, stop)
Pad2(a) == IF Len(a) < 2 THEN a \o <<NaN>> ELSE a

(* Date.UTC(v1, v2, ...) and new Date(v1, v2, ...).getTime(), at least two arguments *)
FieldsCall(vs, site) ==
    LET c == ToNumbers(SubSeq(vs, 1, IF Len(vs) > 7 THEN 7 ELSE Len(vs)), 1, <<>>, <<>>,
                       D("D12j_field_conversion_stops_at_first_nonfinite"))       \* newDateTime pick()
    IN  IF c.thr # "" THEN [thr |-> c.thr, v |-> c.v, log |-> c.log]
        ELSE R(NumV(TimeClip(FromFields(Pad2(c.nums)), site)), c.log)

(* new Date(value) 15.9.3.2 *)
NewDateValue(v) ==
    LET p == ToPrimitive(v, "default", <<>>)                      \* step 1 (no hint)
    IN  IF p.thr # "" THEN p
        ELSE IF p.v.t = "str" THEN R(NumV(DateParse(p.v.s)), p.log)     \* step 2: as Date.parse; only texts of the format are generated
        ELSE R(NumV(TimeClip(ToNumberPrim(p.v), "set")), p.log)         \* step 3

MaxArgs(m) ==
    CASE m \in {"setTime", "setUTCMilliseconds", "setMilliseconds", "setUTCDate", "setDate"} -> 1
      [] m \in {"setUTCSeconds", "setSeconds", "setUTCMonth", "setMonth"} -> 2
      [] m \in {"setUTCMinutes", "setMinutes", "setUTCFullYear", "setFullYear"} -> 3
      [] m \in {"setUTCHours", "setHours"} -> 4

(* d.m(v1, ...) on a Date object with time value t, observed as               *)
(* [TRYV(function(){ return d.m(v1, ...) }), d.getTime()]: the returned value *)
(* (or what the conversion of an argument threw) and the time value after     *)
(* the call - an abrupt conversion leaves the Date object unchanged           *)
ThrownBy(c) == IF c.thr = "value" THEN [t |-> "thr", name |-> "value", v |-> c.v] ELSE [t |-> "thr", name |-> c.thr]
SetCall(m, t, vs) ==
    LET n == IF Len(vs) > MaxArgs(m) THEN MaxArgs(m) ELSE Len(vs)
        early == D("D12k_setters_skip_argument_conversion") /\ m # "setTime"     \* builtinDateBeforeSet
    IN  IF early /\ IsNaN(t) THEN R(ArrV(<<NumV(NaN), NumV(NaN)>>), <<>>)           \* returns before converting anything
        ELSE LET c == ToNumbers(SubSeq(vs, 1, n), 1, <<>>, <<>>, early)
             IN  IF c.thr # "" THEN R(ArrV(<<ThrownBy(c), NumV(t)>>), c.log)
                 ELSE LET r == Setter(m, t, c.nums) IN R(ArrV(<<NumV(r.ret), NumV(r.t)>>), c.log)

(* 15.9.5: every method of Date.prototype except toJSON throws a TypeError   *)
(* when the this value is not an object whose [[Class]] is "Date"            *)
ThisCheck(cls) == IF cls = "Date" THEN R(Undef, <<>>) ELSE T("TypeError", <<>>)

(* 15.9.5.44 toJSON, which is generic.  o = [t |-> "cobj", id, vo, ts, iso]: *)
(* a scripted object with a toISOString behaviour iso ("ret" v | "throw" |   *)
(* "noncallable" | "absent"); o = [t |-> "none"]: this is undefined or null   *)
ToJSONGeneric(o) ==
    IF o.t = "none" THEN
        \* step 1 ToObject throws.  otto substitutes the global object, whose primitive value is a String and
        \* which has no toISOString: a TypeError at step 5, unless D12h answers null first
        (IF D("D12h_tojson_converts_nonnumber_primitive_to_number") THEN R(Null, <<>>) ELSE T("TypeError", <<>>))
    ELSE LET tv == ToPrimitive(o, "number", <<>>)                                   \* step 2
         IN  IF tv.thr # "" THEN tv
             ELSE IF (tv.v.t = "num" /\ ~IsFinite(tv.v.n))                             \* step 3
                     \/ (D("D12h_tojson_converts_nonnumber_primitive_to_number") /\ ~IsFinite(ToNumberPrim(tv.v)))
                  THEN R(Null, tv.log)
             ELSE CASE o.iso.k \in {"absent", "noncallable"} -> T("TypeError", tv.log)      \* steps 4-5
                    [] o.iso.k = "ret" -> R(o.iso.v, Append(tv.log, "iso" \o ToString(o.id)))   \* step 6
                    [] o.iso.k = "throw" -> TV(StrV(<<84, 105, 48 + o.id>>), Append(tv.log, "iso" \o ToString(o.id)))   \* "Ti<id>"

(* 15.9.5: the Date prototype object is a Date object whose time value is NaN *)
ProtoTimeValue == IF D("D12g_date_prototype_time_value_is_zero") THEN I(0) ELSE NaN

(* the expected completion value of a generated case (spec/C12.tla renders   *)
(* the JavaScript text of the same case)                                     *)
Eval(c) ==
    CASE c.fam = "inst" -> R(ArrV(<<Obs(CtorValue(c.t)), ObsLocal(CtorValue(c.t))>>), <<>>)
      [] c.fam = "utc"  -> R(ArrV(<<NumV(DateUTC(c.a)), Obs(CtorFields(c.a))>>), <<>>)
      [] c.fam = "set"  -> (LET r == RunOps(CtorValue(c.t), c.ops, 1, <<>>) IN R(ArrV(r.rets \o <<Obs(r.t)>>), <<>>))
      [] c.fam = "parse" -> R(NumV(DateParse(c.s)), <<>>)
      [] c.fam = "rt"   ->        \* Date.parse(new Date(t).toISOString()), t a valid time value
            (LET t == CtorValue(c.t)
                 y == Fields(t).year
             IN  \* under D24 the text otto prints for years outside 0..9999 is not in the format; otto's parser answers NaN
                 IF D("D24_toisostring_no_expanded_year") /\ (y < 0 \/ y > 9999) THEN R(NumV(NaN), <<>>)
                 ELSE R(NumV(DateParse(ToISO(t))), <<>>))
      [] c.fam = "cutc"  -> FieldsCall(c.vs, "utc")
      [] c.fam = "cctor" -> FieldsCall(c.vs, "set")
      [] c.fam = "cnew"  -> NewDateValue(c.v)
      [] c.fam = "cset"  -> SetCall(c.m, CtorValue(c.t), c.vs)
      [] c.fam = "this"  -> ThisCheck(c.cls)
      [] c.fam = "json"  -> ToJSONGeneric(c.o)
      [] c.fam = "proto" -> R(Obs(ProtoTimeValue), <<>>)
=============================================================================
