-------------------------------- MODULE C02 ---------------------------------
(* Generator for property C02 (no script can crash or wedge the embedding    *)
(* program).  Every state is one call of the public API; the invariant Emit  *)
(* prints the call together with the set of replies the specification        *)
(* (Totality.tla) admits, strictly and - when it differs - under the open    *)
(* deviations.  NoGoPanic is the design-level statement: in the strict       *)
(* specification no call admits a Go panic, a wedge or a crash, except the   *)
(* host interrupt function that panics on purpose.                           *)
(*                                                                           *)
(* Families (blocks are the initial states, cases their successors):         *)
(*  fn0  function x receiver, no argument, every entry route                 *)
(*  fn1  function x receiver x one argument (NSel kinds on a rotating route; *)
(*       Deep: all kinds on three routes)                                    *)
(*  fn2  function x receiver x argument pair over the core kinds             *)
(*  fn3  function x receiver x NSel random argument triples (core kinds)     *)
(*  src  token sequences of length <= 3 over the 40-token alphabet (Deep:    *)
(*       also length 4 over its first 26 tokens) as source text              *)
(*  nest deep nesting                                                        *)
(*  rec  recursion forms x depth x stack depth limit                         *)
(*  acc  Value / Object accessors x value kind                               *)
(*  irq  host interrupt functions                                            *)
(*  esc  escape sequences (complete / truncated) in string literals,         *)
(*       identifiers and regular expression literals                         *)
(*  hist histories (depth <= 3, Deep: sampled depth 4) of array-shape        *)
(*       operations                                                          *)
(*  thr  uncaught throw of every kind of value through every entry point     *)
(*  copy Otto.Copy() of runtimes in various states                           *)
(*  expo Go-side accessors x nested arrays (shape x leaf kind x leaf kind)   *)
(*  bw   writes of every value kind to bridged Go values                     *)
(*  defp defineProperty / defineProperties with all 324 partial descriptors  *)
(*       x exotic targets                                                    *)
EXTENDS Naturals, Sequences, SequencesExt, FiniteSets, TLC, Json, Randomization, C02Fns
CONSTANTS OpenDev, Fam, NSel, Deep
VARIABLES blk, cs

S == INSTANCE Totality WITH Dev <- {}
L == INSTANCE Totality WITH Dev <- OpenDev

NF == Len(Fns)
Kinds == S!Kinds
NK == Len(Kinds)
Core == S!CoreKinds
NC == Len(Core)
NT == Len(S!Alphabet)
None == [fam |-> "none"]

Sub(S0) == IF NSel = 0 \/ NSel >= Cardinality(S0) THEN S0 ELSE RandomSubset(NSel, S0)
Pick(seq, h) == seq[(h % Len(seq)) + 1]

RoutesFor(recv) ==
    SelectSeq(S!ThisRoutes \o S!NoThisRoutes, LAMBDA r : S!RouteOK(r, recv))

FnCase(fi, route, recv, as) == [fam |-> "fn", fn |-> Fns[fi].p, fi |-> fi, route |-> route, recv |-> recv, args |-> as]

SrcAPIs == <<"Run", "Compile", "Eval", "CompileRun", "evalfn", "Function", "JSON", "RegExp", "Call", "Object", "Get", "Set">>
SrcCase(api, ts) == [fam |-> "src", api |-> api, toks |-> ts, bytes |-> S!SrcBytes(ts)]
NestReps == IF Deep = 1 THEN <<10, 1000, 5000, 20000>> ELSE <<10, 1000, 5000>>
NestAPIs == <<"Run", "Compile", "evalfn", "Function", "JSON", "RegExp">>
NestCase(api, ni, rep) == [fam |-> "src", api |-> api, nest |-> S!Nestings[ni].n, bytes |-> S!Nestings[ni].m,
                           open |-> S!Nestings[ni].o, close |-> S!Nestings[ni].c, rep |-> rep]

RecLimits == 0..8
RecCase(form, d, l, mode) == [fam |-> "rec", form |-> form, d |-> d, l |-> l, mode |-> mode, copies |-> 0]
AllRecForms == S!RecForms \o S!UnboundedOnly
NE == Len(S!EscItems)
NH == Len(S!HistOps)
EscAPIs == <<"Run", "Compile", "evalfn", "Function", "Eval", "CompileRun">>
Items(s) == SelectSeq(s, LAMBDA x : x > 0)         \* 0 = no item at this position
EscCase(api, ctx, items, term) == [fam |-> "src", api |-> api, esc |-> [ctx |-> ctx, items |-> items, term |-> term],
                                   bytes |-> S!EscText(ctx, items, term)]
HistCase(ops) == [fam |-> "hist", ops |-> ops]
AllThrowVals == S!ThrowVals \o Kinds
IrqForms == <<"loop", "try", "finally", "fncall">>
IrqArms == <<"panic", "return", "none">>

Want(f) == Fam = "all" \/ Fam = f
(* a disjunction, not a union: a named constant set of all blocks would be evaluated once per worker at startup *)
Init == /\ cs = None
        /\ \/ Want("fn0") /\ blk \in {<<"fn0", fi, ri>> : fi \in 1..NF, ri \in 1..NK}
           \/ Want("fn1") /\ blk \in {<<"fn1", fi, ri>> : fi \in 1..NF, ri \in 1..NK}
           \/ Want("fn2") /\ blk \in {<<"fn2", fi, ri>> : fi \in 1..NF, ri \in (IF Deep = 1 THEN 1..NC ELSE 1..NK)}
           \/ Want("fn3") /\ blk \in {<<"fn3", fi, ri>> : fi \in 1..NF, ri \in 1..NK}
           \/ Want("src") /\ Deep = 1 /\ blk \in {<<"src", t1, t2>> : t1 \in 1..S!NCoreTok, t2 \in 1..S!NCoreTok}
           \/ Want("src") /\ blk \in {<<"src", t1, 0>> : t1 \in 1..NT}
           \/ Want("nest") /\ blk \in {<<"nest", ni, 0>> : ni \in 1..Len(S!Nestings)}
           \/ Want("rec") /\ blk \in {<<"rec", i, 0>> : i \in 1..Len(AllRecForms)}
           \/ Want("acc") /\ blk \in {<<"acc", ki, 0>> : ki \in 1..Len(S!AccKinds)}
           \/ Want("irq") /\ blk = <<"irq", 0, 0>>
           \/ Want("esc") /\ blk \in {<<"esc", i1, i2>> : i1 \in 0..NE, i2 \in (IF Deep = 1 THEN 0..NE ELSE {0})}
           \/ Want("hist") /\ blk \in {<<"hist", o1, o2>> : o1 \in 1..NH, o2 \in 1..NH}
           \/ Want("thr") /\ blk \in {<<"thr", e, 0>> : e \in 1..Len(S!ThrowEntries)}
           \/ Want("copy") /\ blk = <<"copy", 0, 0>>
           \/ Want("expo") /\ blk \in {<<"expo", sh, x>> : sh \in 1..Len(S!NestShapes), x \in 1..Len(S!Leaves)}
           \/ Want("bw") /\ blk \in {<<"bw", t, 0>> : t \in 1..Len(S!BwTargets)}
           \/ Want("defp") /\ blk \in {b \in {<<"defp", t, r>> : t \in 1..Len(S!DefTargets), r \in 1..Len(S!DefRoutes)} :
                                          Deep = 1 \/ b[3] <= 3 \/ S!DefTargets[b[2]] \in S!DefConvTargets}

Cases(b) ==
    LET fam == b[1]  i == b[2]  j == b[3]
    IN  CASE fam = "fn0" ->
               {FnCase(i, r, Kinds[j], <<>>) : r \in {RoutesFor(Kinds[j])[x] : x \in 1..Len(RoutesFor(Kinds[j]))}}
          [] fam = "fn1" ->
               LET rs == RoutesFor(Kinds[j])
               IN  IF Deep = 1
                   THEN {FnCase(i, r, Kinds[j], <<Kinds[a]>>) : r \in {"call", Pick(rs, i + j), Pick(rs, i + 2 * j + 3)} \cap {rs[x] : x \in 1..Len(rs)}, a \in 1..NK}
                   ELSE {FnCase(i, Pick(rs, i + 3 * j + 5 * a), Kinds[j], <<Kinds[a]>>) : a \in Sub(1..NK)}
          [] fam = "fn2" ->
               LET recv == IF Deep = 1 THEN Core[j] ELSE Kinds[j]
                   rs == RoutesFor(recv)
               IN  {FnCase(i, Pick(rs, i + j + 7 * p), recv, <<Core[(p % NC) + 1], Core[(p \div NC) + 1]>>) : p \in Sub(0..(NC * NC - 1))}
          [] fam = "fn3" ->
               LET rs == RoutesFor(Kinds[j])
               IN  {FnCase(i, Pick(rs, i + j + 11 * p), Kinds[j], <<Core[(p % NC) + 1], Core[((p \div NC) % NC) + 1], Core[(p \div (NC * NC)) + 1]>>) :
                        p \in RandomSubset(IF NSel = 0 THEN 8 ELSE NSel, 0..(NC * NC * NC - 1))}
          [] fam = "src" ->
               IF j = 0
               THEN {SrcCase("Run", <<i>>), SrcCase("Compile", <<i>>), SrcCase("Eval", <<i>>), SrcCase("evalfn", <<i>>), SrcCase("Function", <<i>>),
                     SrcCase("JSON", <<i>>), SrcCase("RegExp", <<i>>), SrcCase("Call", <<i>>), SrcCase("Object", <<i>>), SrcCase("Get", <<i>>), SrcCase("Set", <<i>>)}
                    \cup {SrcCase("Run", <<i, t2>>) : t2 \in 1..NT}
                    \cup {SrcCase(Pick(SrcAPIs, i + t2), <<i, t2>>) : t2 \in 1..NT}
                    \cup {SrcCase(Pick(SrcAPIs, i + t2 + t3), <<i, t2, t3>>) : t2 \in 1..NT, t3 \in 1..NT}
                    \cup (IF Deep = 1 THEN {SrcCase("Run", <<i, t2, t3>>) : t2 \in 1..NT, t3 \in 1..NT} ELSE {})
               ELSE {SrcCase(Pick(SrcAPIs, i + j + t3 + t4), <<i, j, t3, t4>>) : t3 \in 1..S!NCoreTok, t4 \in 1..S!NCoreTok}
          [] fam = "nest" ->
               \* a pattern of 100 KB matched against itself is quadratic work in the regular expression engine: a resource matter
               {c \in {NestCase(api, i, NestReps[r]) : api \in {NestAPIs[x] : x \in 1..Len(NestAPIs)}, r \in 1..Len(NestReps)} : ~(c.api = "RegExp" /\ c.rep > 5000)}
          [] fam = "rec" ->
               LET form == AllRecForms[i]
                   bounded == i <= Len(S!RecForms)
                   \* the same cases on a Copy() (and a copy of a copy) made after the limit was set: a runtime derived
                   \* from one with a configured limit has that limit
                   WithCopies(cs0) == cs0 \cup {[x EXCEPT !.copies = n] : x \in {y \in cs0 : y.mode # "valuecall" \/ TRUE}, n \in {1, 2}}
               IN  WithCopies({c \in ({RecCase(form, d, l, m) : d \in (IF bounded THEN 0..11 ELSE {0}), l \in RecLimits, m \in {"raw", "catch"}}
                           \cup {RecCase(form, 5000, 50, m) : m \in (IF bounded THEN {"raw", "catch"} ELSE {})}
                           \cup {RecCase(form, 1500, l, m) : l \in (IF bounded THEN {0, 20000} ELSE {}), m \in {"raw", "catch"}}
                           \cup {RecCase(form, 0, l, m) : l \in {50, 1000}, m \in {"raw", "catch"}}
                           \cup {RecCase(form, d, l, "valuecall") : d \in (IF form = "direct" THEN 1..10 ELSE {}), l \in RecLimits})
                      : S!RecCaseOK(c.form, c.d, c.l, c.mode) /\ (c.d = 0 \/ c.l = 0 \/ c.d > 20 \/ (c.d >= c.l - 5 /\ c.d <= c.l + 2))})
          [] fam = "acc" ->
               {c \in {[fam |-> "acc", acc |-> S!Accessors[a], kind |-> S!AccKinds[i], l |-> l] : a \in 1..Len(S!Accessors), l \in {0, 50}}
                  : S!AccCaseOK(c.acc, c.kind, c.l)}
          [] fam = "irq" ->
               {[fam |-> "irq", form |-> IrqForms[f], arm |-> IrqArms[a]] : f \in 1..Len(IrqForms), a \in 1..Len(IrqArms)}
          [] fam = "esc" ->
               \* quick: <<i, x>> for every x (length <= 2); Deep: <<i, j, x>> (length <= 3)
               LET ctxs == {S!EscContexts[x] : x \in 1..Len(S!EscContexts)}
                   terms == {S!EscTerms[x] : x \in 1..Len(S!EscTerms)}
               IN  {c \in {EscCase(api, ctx, Items(<<i, j, x>>), term) :
                               api \in {EscAPIs[y] : y \in 1..Len(EscAPIs)}, ctx \in ctxs, term \in terms, x \in 0..NE}
                      : c.esc.ctx \in {"dq", "sq"} \/ c.esc.term = "closed"}
          [] fam = "hist" ->
               {HistCase(<<S!HistOps[i], S!HistOps[j]>>)} \cup {HistCase(<<S!HistOps[i], S!HistOps[j], S!HistOps[k]>>) : k \in 1..NH}
               \cup (IF Deep = 1 THEN {HistCase(<<S!HistOps[i], S!HistOps[j], S!HistOps[(p % NH) + 1], S!HistOps[(p \div NH) + 1]>>) :
                                          p \in RandomSubset(40, 0..(NH * NH - 1))} ELSE {})
          [] fam = "thr" ->
               {[fam |-> "thr", entry |-> S!ThrowEntries[i], val |-> AllThrowVals[v]] : v \in 1..Len(AllThrowVals)}
          [] fam = "expo" ->
               {[fam |-> "expo", acc |-> S!ExpoAccessors[a], shape |-> S!NestShapes[i], x |-> S!Leaves[j], y |-> S!Leaves[y]] :
                    a \in 1..Len(S!ExpoAccessors), y \in 1..Len(S!Leaves)}
          [] fam = "bw" ->
               {[fam |-> "bw", route |-> S!BwRoutes[r], target |-> S!BwTargets[i], val |-> Kinds[v]] : r \in 1..Len(S!BwRoutes), v \in 1..NK}
          [] fam = "defp" ->
               {[fam |-> "defp", route |-> S!DefRoutes[j], target |-> S!DefTargets[i], desc |-> d] : d \in S!Descs}
          [] fam = "copy" ->
               {[fam |-> "copy", setup |-> S!CopySetups[x]] : x \in 1..Len(S!CopySetups)}

(* One TLC state per BLOCK: its cases are evaluated (in parallel, by the worker *)
(* that generates the state) inside the invariants.  cs = 1 marks the state    *)
(* "block evaluated".                                                          *)
Next == cs = None /\ UNCHANGED blk /\ cs' = [fam |-> "block"]

(* the expectation of a case under an instance of the specification *)
Expect(FnE(_, _, _, _), AccE(_, _, _), RecE(_, _, _, _), IrqE(_, _), SrcE(_, _), NestE(_, _, _), EscE(_, _, _, _), HistE(_), ThrE(_, _), CopyE(_), ExpoE(_, _, _, _), DefE(_, _, _), BwE(_, _, _), c) ==
    CASE c.fam = "fn" -> [reply |-> FnE(Fns[c.fi], c.route, c.recv, c.args), val |-> ""]
      [] c.fam = "acc" -> [reply |-> AccE(c.acc, c.kind, c.l), val |-> ""]
      [] c.fam = "rec" -> RecE(c.form, c.d, c.l, c.mode)
      [] c.fam = "irq" -> IrqE(c.form, c.arm)
      [] c.fam = "src" -> [reply |-> IF "toks" \in DOMAIN c THEN SrcE(c.api, c.toks)
                                     ELSE IF "esc" \in DOMAIN c THEN EscE(c.api, c.esc.ctx, c.esc.items, c.esc.term)
                                     ELSE NestE(c.api, c.nest, c.rep), val |-> ""]
      [] c.fam = "hist" -> [reply |-> HistE(c.ops), val |-> ""]
      [] c.fam = "thr" -> [reply |-> ThrE(c.entry, c.val), val |-> ""]
      [] c.fam = "copy" -> [reply |-> CopyE(c.setup), val |-> ""]
      [] c.fam = "expo" -> [reply |-> ExpoE(c.acc, c.shape, c.x, c.y), val |-> ""]
      [] c.fam = "bw" -> [reply |-> BwE(c.route, c.target, c.val), val |-> ""]
      [] c.fam = "defp" -> [reply |-> DefE(c.route, c.target, c.desc), val |-> ""]
StrictE(c) == Expect(S!FnExpect, S!AccExpect, S!RecExpect, S!IrqExpect, S!SrcExpect, S!NestExpect, S!EscExpect, S!HistExpect, S!ThrowExpect, S!CopyExpect, S!ExpoExpect, S!DefExpect, S!BwExpect, c)
LooseE(c) == Expect(L!FnExpect, L!AccExpect, L!RecExpect, L!IrqExpect, L!SrcExpect, L!NestExpect, L!EscExpect, L!HistExpect, L!ThrowExpect, L!CopyExpect, L!ExpoExpect, L!DefExpect, L!BwExpect, c)

(* not generated: resource matters (see Totality!Heavy) and the slow witnesses of open deviations *)
Skipped(c) ==
    \/ c.fam = "fn" /\ LET f == Fns[c.fi] IN
          \/ S!Heavy(f, S!ThisOf(c.route, c.recv), c.args)
          \/ L!Heavy(f, L!ThisOf(c.route, c.recv), c.args)
          \/ L!FnSlowSkip(f, c.route, c.recv, c.args)
    \* under an open deviation whose reply is a process death: one witness per form / value
    \/ c.fam = "rec" /\ L!RecExpect(c.form, c.d, c.l, c.mode).reply.resource /\ ~(c.l = 50)
    \/ c.fam = "bw" /\ (S!BwHeavy(c.route, c.target, c.val) \/ (L!BwExpect(c.route, c.target, c.val).resource /\ c.val # "zero"))
    \/ c.fam = "thr" /\ L!ThrowExpect(c.entry, c.val).resource /\ ~(c.entry \in {"Run", "ObjectGet"})

Live == {c \in Cases(blk) : ~Skipped(c)}

NoGoPanic == cs = None \/ \A c \in Live : (c.fam = "irq" /\ c.arm = "panic") \/ S!Total(StrictE(c).reply)

Line(c) ==
    LET es == StrictE(c)
        ed == LooseE(c)
    IN  [c |-> c, exp |-> es, dev |-> IF ed = es THEN <<>> ELSE <<ed>>]

Emit == cs = None \/ PrintT("VJSON " \o ToJson([blk |-> blk, cases |-> SetToSeq({Line(c) : c \in Live})]))
=============================================================================
