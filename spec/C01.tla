-------------------------------- MODULE C01 ---------------------------------
(* Judge for property C01: every line of trace.ndjson is a program (abstract *)
(* syntax tree) with the outcome observed on the implementation              *)
(*   [id, prog, isEval, obs |-> [log, thr, v]]                               *)
(* The specification (ES5Core) evaluates the tree and compares.  Lines whose *)
(* outcome differs are printed with the required outcome (and the outcome    *)
(* under the named deviations OpenDev when that differs); programs that      *)
(* leave the modelled fragment are reported as "und" and skipped.            *)
EXTENDS Integers, Sequences, TLC, Json
CONSTANTS OpenDev, Fuel
VARIABLES blk, i

S == INSTANCE ES5Core WITH Dev <- {}
L == INSTANCE ES5Core WITH Dev <- OpenDev

File == ndJsonDeserialize("trace.ndjson")
K == 64
Init == blk \in 1..K /\ i = 0
Next == i = 0 /\ i' \in {j \in 1..Len(File) : j % K = blk - 1} /\ UNCHANGED blk

Same(o, obs) == ~o.und /\ o.log = obs.log /\ o.thr = obs.thr /\ o.v = obs.v

Check ==
    i = 0 \/
    LET ev == File[i]
        so == S!RunProgram(ev.prog, Fuel, ev.isEval)
    IN  IF so.und THEN PrintT("VJSON " \o ToJson([id |-> ev.id, status |-> "und"]))
        ELSE IF Same(so, ev.obs) THEN TRUE
        ELSE LET lo == IF OpenDev = {} THEN so ELSE L!RunProgram(ev.prog, Fuel, ev.isEval)
             IN  PrintT("VJSON " \o ToJson([id |-> ev.id, status |-> IF ~lo.und /\ Same(lo, ev.obs) THEN "dev" ELSE "bad",
                                             want |-> so, dev |-> IF lo = so THEN <<>> ELSE <<lo>>]))
=============================================================================
