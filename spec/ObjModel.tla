----------------------------- MODULE ObjModel -------------------------------
(* ES5 8.6.2 / 8.10 / 8.12 object internal methods, 15.4.5.1 array           *)
(* [[DefineOwnProperty]] and the 15.2.3 Object constructor functions, as     *)
(* pure operators over a heap H : object id -> object record.                *)
(*                                                                           *)
(*   object   [cls, proto (0 = null), ext, props : name -> property,         *)
(*             order : sequence of own names in creation order, fn]          *)
(*   property [k |-> "data", v, w, e, c]  |  [k |-> "acc", g, s, e, c]       *)
(*   descr.   [hv, v, hw, w, he, e, hc, c, hg, g, hs, s]   (h* = present)    *)
(*                                                                           *)
(* Names are code-unit sequences.  Operators that may have to run script     *)
(* code (getters, setters) return a request [k |-> "call", ...] that the     *)
(* enclosing machine (C07 model, evaluator) performs.                        *)
(* Dev is the set of named deviations: known divergences of the              *)
(* implementation, each a branch "IF D(id) THEN <impl> ELSE <ES5>".          *)
EXTENDS Val
CONSTANT Dev
D(x) == x \in Dev

DataP(v, w, e, c) == [k |-> "data", v |-> v, w |-> w, e |-> e, c |-> c]
AccP(g, s, e, c)  == [k |-> "acc", g |-> g, s |-> s, e |-> e, c |-> c]
NoFn == [k |-> "none"]

EmptyDesc == [hv |-> FALSE, v |-> Undef, hw |-> FALSE, w |-> FALSE, he |-> FALSE, e |-> FALSE,
              hc |-> FALSE, c |-> FALSE, hg |-> FALSE, g |-> Undef, hs |-> FALSE, s |-> Undef]
ValueDesc(v) == [EmptyDesc EXCEPT !.hv = TRUE, !.v = v]
FullDataDesc(v, w, e, c) ==
    [EmptyDesc EXCEPT !.hv = TRUE, !.v = v, !.hw = TRUE, !.w = w, !.he = TRUE, !.e = e, !.hc = TRUE, !.c = c]

IsAccDesc(d)  == d.hg \/ d.hs
IsDataDesc(d) == d.hv \/ d.hw
IsGenericDesc(d) == ~IsAccDesc(d) /\ ~IsDataDesc(d)

NewObj(cls, proto) ==
    [cls |-> cls, proto |-> proto, ext |-> TRUE, props |-> <<>>, order |-> <<>>, fn |-> NoFn]

HasOwn(H, o, p) == p \in DOMAIN H[o].props
OwnProp(H, o, p) == H[o].props[p]

(* 8.12.2 [[GetProperty]]: <<found, property, holder>> *)
RECURSIVE GetProp(_, _, _)
GetProp(H, o, p) ==
    IF o = 0 THEN [has |-> FALSE]
    ELSE IF HasOwn(H, o, p) THEN [has |-> TRUE, d |-> OwnProp(H, o, p), holder |-> o]
    ELSE GetProp(H, H[o].proto, p)

HasProperty(H, o, p) == GetProp(H, o, p).has      \* 8.12.6

(* 8.12.3 [[Get]] with receiver thisV: a value or a getter call request *)
GetReq(H, o, p, thisV) ==
    LET r == GetProp(H, o, p)
    IN  IF ~r.has THEN [k |-> "val", v |-> Undef]
        ELSE IF r.d.k = "data" THEN [k |-> "val", v |-> r.d.v]
        ELSE IF r.d.g = Undef THEN [k |-> "val", v |-> Undef]
        ELSE [k |-> "call", f |-> r.d.g, this |-> thisV, args |-> <<>>]

(* 8.12.4 [[CanPut]] *)
CanPut(H, o, p) ==
    IF HasOwn(H, o, p) THEN
        (LET d == OwnProp(H, o, p) IN IF d.k = "acc" THEN d.s # Undef ELSE d.w)
    ELSE LET r == GetProp(H, H[o].proto, p)
         IN  IF ~r.has THEN H[o].ext
             ELSE IF r.d.k = "acc" THEN r.d.s # Undef
             ELSE H[o].ext /\ r.d.w

-----------------------------------------------------------------------------
(* 8.12.9 [[DefineOwnProperty]] for ordinary objects: the decision table as  *)
(* a function of (current property or none, [[Extensible]], descriptor).     *)

SameOpt(has, a, b) == ~has \/ SameValue(a, b)

DescSubsumed(cur, d) ==         \* step 6: every field of d occurs in cur with the same value
    IF cur.k = "data"
    THEN ~d.hg /\ ~d.hs /\ SameOpt(d.hv, d.v, cur.v) /\ (~d.hw \/ d.w = cur.w)
         /\ (~d.he \/ d.e = cur.e) /\ (~d.hc \/ d.c = cur.c)
    ELSE ~d.hv /\ ~d.hw /\ SameOpt(d.hg, d.g, cur.g) /\ SameOpt(d.hs, d.s, cur.s)
         /\ (~d.he \/ d.e = cur.e) /\ (~d.hc \/ d.c = cur.c)

ApplyDesc(cur, d) ==            \* step 12 (cur already of the kind d asks for, or d generic)
    IF cur.k = "data"
    THEN DataP(IF d.hv THEN d.v ELSE cur.v, IF d.hw THEN d.w ELSE cur.w,
               IF d.he THEN d.e ELSE cur.e, IF d.hc THEN d.c ELSE cur.c)
    ELSE AccP(IF d.hg THEN d.g ELSE cur.g, IF d.hs THEN d.s ELSE cur.s,
              IF d.he THEN d.e ELSE cur.e, IF d.hc THEN d.c ELSE cur.c)

(* result: [ok, p] - ok = FALSE means Reject; p is the property afterwards *)
DefineDecision(has, cur, ext, d) ==
    IF ~has THEN
        IF ~ext THEN [ok |-> FALSE]                                         \* step 3
        ELSE IF IsAccDesc(d)                                                 \* step 4
             THEN [ok |-> TRUE, p |-> AccP(d.g, d.s, d.he /\ d.e, d.hc /\ d.c)]
             ELSE [ok |-> TRUE, p |-> DataP(d.v, d.hw /\ d.w, d.he /\ d.e, d.hc /\ d.c)]
    ELSE IF DescSubsumed(cur, d) THEN [ok |-> TRUE, p |-> cur]               \* steps 5, 6
    ELSE IF ~cur.c /\ ((d.hc /\ d.c) \/ (d.he /\ d.e # cur.e)) THEN [ok |-> FALSE]   \* step 7
    ELSE IF IsGenericDesc(d) THEN [ok |-> TRUE, p |-> ApplyDesc(cur, d)]     \* step 8
    ELSE IF (cur.k = "data") # IsDataDesc(d) THEN                            \* step 9
        IF ~cur.c THEN [ok |-> FALSE]
        ELSE IF cur.k = "data"
             THEN [ok |-> TRUE, p |-> ApplyDesc(AccP(Undef, Undef, cur.e, cur.c), d)]
             ELSE [ok |-> TRUE, p |-> ApplyDesc(DataP(Undef, FALSE, cur.e, cur.c), d)]
    ELSE IF cur.k = "data" THEN                                              \* step 10
        IF ~cur.c /\ ~cur.w /\ ((d.hw /\ d.w) \/ (d.hv /\ ~SameValue(d.v, cur.v)))
        THEN [ok |-> FALSE]
        ELSE [ok |-> TRUE, p |-> ApplyDesc(cur, d)]
    ELSE                                                                     \* step 11
        IF ~cur.c /\ ((d.hs /\ ~SameValue(d.s, cur.s)) \/ (d.hg /\ ~SameValue(d.g, cur.g)))
        THEN [ok |-> FALSE]
        ELSE [ok |-> TRUE, p |-> ApplyDesc(cur, d)]

SetProp(H, o, p, prop) ==
    [H EXCEPT ![o] = [@ EXCEPT !.props = (p :> prop) @@ @,
                               !.order = IF p \in DOMAIN H[o].props THEN @ ELSE Append(@, p)]]

RemoveName(seq, p) == SelectSeq(seq, LAMBDA x : x # p)
DelProp(H, o, p) ==
    [H EXCEPT ![o] = [@ EXCEPT !.props = [x \in (DOMAIN @) \ {p} |-> @[x]],
                               !.order = RemoveName(@, p)]]

(* ordinary [[DefineOwnProperty]]: [H, ok] *)
OrdDefineOwn(H, o, p, d) ==
    LET has == HasOwn(H, o, p)
        r   == DefineDecision(has, IF has THEN OwnProp(H, o, p) ELSE Undef, H[o].ext, d)
    IN  IF r.ok THEN [H |-> SetProp(H, o, p, r.p), ok |-> TRUE, thr |-> ""]
        ELSE [H |-> H, ok |-> FALSE, thr |-> ""]

(* 8.12.7 [[Delete]]: [H, ok] *)
DeleteOwn(H, o, p) ==
    IF ~HasOwn(H, o, p) THEN [H |-> H, ok |-> TRUE]
    ELSE IF OwnProp(H, o, p).c THEN [H |-> DelProp(H, o, p), ok |-> TRUE]
    ELSE [H |-> H, ok |-> FALSE]

-----------------------------------------------------------------------------
(* 15.4.5.1 Array [[DefineOwnProperty]]                                       *)

ArrLen(H, o) == OwnProp(H, o, S_length).v.n          \* a Num (uint32-valued)

OwnIndexNames(H, o) == {p \in DOMAIN H[o].props : IsArrayIndex(p)}

(* the index names >= lo, as a sequence in descending numeric order *)
RECURSIVE SortDesc(_)
SortDesc(S) == IF S = {} THEN <<>>
               ELSE LET mx == CHOOSE x \in S : \A y \in S : NumCmp(IndexNum(y), IndexNum(x)) <= 0
                    IN  <<mx>> \o SortDesc(S \ {mx})

(* step 3.l: delete index properties from the top down to newLen; stop at a  *)
(* non-configurable one.  Returns [H, stopped, len]                          *)
RECURSIVE TruncLoop(_, _, _, _)
TruncLoop(H, o, names, newLen) ==
    IF names = <<>> THEN [H |-> H, stopped |-> FALSE, len |-> newLen]
    ELSE LET p == Head(names)
         IN  IF OwnProp(H, o, p).c THEN TruncLoop(DelProp(H, o, p), o, Tail(names), newLen)
             ELSE [H |-> H, stopped |-> TRUE, len |-> NumAdd(IndexNum(p), I(1))]

ArrDefineOwn(H, o, p, d) ==
    LET oldLenP == OwnProp(H, o, S_length)
        oldLen  == oldLenP.v.n
    IN
    IF p = S_length THEN
        IF ~d.hv THEN OrdDefineOwn(H, o, p, d)                                      \* 3.a
        ELSE IF ~IsPrim(d.v) THEN [H |-> H, ok |-> FALSE, thr |-> "Undecided"]
        ELSE LET numV   == ToNumberPrim(d.v)
                 newLen == ToUint32N(numV)
             IN  IF newLen # numV THEN [H |-> H, ok |-> FALSE, thr |-> "RangeError"]   \* 3.d
                 ELSE LET nd == [d EXCEPT !.v = NumV(newLen)]
                      IN  IF NumCmp(newLen, oldLen) >= 0 THEN OrdDefineOwn(H, o, p, nd)   \* 3.f
                          ELSE IF ~oldLenP.w THEN [H |-> H, ok |-> FALSE, thr |-> ""]      \* 3.g
                          ELSE LET newWritable == ~nd.hw \/ nd.w
                                   nd2 == IF newWritable THEN nd ELSE [nd EXCEPT !.w = TRUE]
                                   r1  == OrdDefineOwn(H, o, p, nd2)                     \* 3.j
                               IN  IF ~r1.ok THEN r1
                                   ELSE LET doomed == SortDesc({x \in OwnIndexNames(r1.H, o) :
                                                                   NumCmp(IndexNum(x), newLen) >= 0})
                                            t == TruncLoop(r1.H, o, doomed, newLen)
                                            lenP == OwnProp(t.H, o, S_length)
                                            H2 == SetProp(t.H, o, S_length,
                                                    [lenP EXCEPT !.v = NumV(t.len),
                                                                 !.w = IF newWritable THEN lenP.w ELSE FALSE])
                                        IN  IF t.stopped THEN [H |-> H2, ok |-> FALSE, thr |-> ""]   \* 3.l.iii
                                            ELSE [H |-> H2, ok |-> TRUE, thr |-> ""]
    ELSE IF IsArrayIndex(p) THEN
        LET idx == IndexNum(p)
        IN  IF NumCmp(idx, oldLen) >= 0 /\ ~oldLenP.w THEN [H |-> H, ok |-> FALSE, thr |-> ""]    \* 4.b
            ELSE LET r == OrdDefineOwn(H, o, p, d)
                 IN  IF ~r.ok THEN r
                     ELSE IF NumCmp(idx, oldLen) >= 0
                          THEN [H |-> SetProp(r.H, o, S_length, [oldLenP EXCEPT !.v = NumV(NumAdd(idx, I(1)))]),
                                ok |-> TRUE, thr |-> ""]
                          ELSE r
    ELSE OrdDefineOwn(H, o, p, d)

(* [[DefineOwnProperty]] dispatch: [H, ok, thr]; thr # "" only for RangeError *)
DefineOwn(H, o, p, d) ==
    IF H[o].cls = "Array" THEN ArrDefineOwn(H, o, p, d) ELSE OrdDefineOwn(H, o, p, d)

-----------------------------------------------------------------------------
(* 8.12.5 [[Put]]: [k |-> "done", H, ok, thr] or a setter call request        *)
PutReq(H, o, p, v, thisV) ==
    IF ~CanPut(H, o, p) THEN [k |-> "done", H |-> H, ok |-> FALSE, thr |-> ""]
    ELSE IF HasOwn(H, o, p) /\ OwnProp(H, o, p).k = "data" THEN
        LET r == DefineOwn(H, o, p, ValueDesc(v))
        IN  [k |-> "done", H |-> r.H, ok |-> r.ok, thr |-> r.thr]
    ELSE LET g == GetProp(H, o, p)
         IN  IF g.has /\ g.d.k = "acc"
             THEN [k |-> "call", f |-> g.d.s, this |-> thisV, args |-> <<v>>]
             ELSE LET r == DefineOwn(H, o, p, FullDataDesc(v, TRUE, TRUE, TRUE))
                  IN  [k |-> "done", H |-> r.H, ok |-> r.ok, thr |-> r.thr]

-----------------------------------------------------------------------------
(* Enumeration.  ES5 12.6.4 leaves the order open; the property under test   *)
(* (and every engine in practice) requires creation order, own before        *)
(* inherited, each name once, shadowed names suppressed even when the        *)
(* shadowing own property is not enumerable.                                 *)
OwnNames(H, o) == H[o].order                                    \* 15.2.3.4
OwnKeys(H, o)  == SelectSeq(H[o].order, LAMBDA p : OwnProp(H, o, p).e)   \* 15.2.3.14

RECURSIVE ForInFrom(_, _, _)
ForInFrom(H, o, seen) ==
    IF o = 0 THEN <<>>
    ELSE SelectSeq(H[o].order, LAMBDA p : OwnProp(H, o, p).e /\ p \notin seen)
         \o ForInFrom(H, H[o].proto, seen \cup DOMAIN H[o].props)
ForIn(H, o) == ForInFrom(H, o, {})

-----------------------------------------------------------------------------
(* 15.2.3.8 - 15.2.3.13                                                       *)
RECURSIVE SealNames(_, _, _, _)
SealNames(H, o, names, frz) ==
    IF names = <<>> THEN H
    ELSE LET p == Head(names)
             cur == OwnProp(H, o, p)
             nw == IF cur.k = "data" THEN [cur EXCEPT !.c = FALSE, !.w = IF frz THEN FALSE ELSE cur.w]
                   ELSE [cur EXCEPT !.c = FALSE]
         IN  SealNames(SetProp(H, o, p, nw), o, Tail(names), frz)
Seal(H, o)   == [SealNames(H, o, H[o].order, FALSE) EXCEPT ![o].ext = FALSE]
Freeze(H, o) == [SealNames(H, o, H[o].order, TRUE) EXCEPT ![o].ext = FALSE]
PreventExt(H, o) == [H EXCEPT ![o].ext = FALSE]
IsSealed(H, o) == ~H[o].ext /\ \A p \in DOMAIN H[o].props : ~OwnProp(H, o, p).c
IsFrozen(H, o) == IsSealed(H, o) /\ \A p \in DOMAIN H[o].props :
                      OwnProp(H, o, p).k = "acc" \/ ~OwnProp(H, o, p).w

(* 8.10.5 ToPropertyDescriptor applied to a descriptor *record* whose get/set *)
(* fields hold arbitrary values: "" or the error class                        *)
IsCallable(H, v) == IsObj(v) /\ H[v.id].cls = "Function"
DescError(H, d) ==
    IF d.hg /\ d.g # Undef /\ ~IsCallable(H, d.g) THEN "TypeError"
    ELSE IF d.hs /\ d.s # Undef /\ ~IsCallable(H, d.s) THEN "TypeError"
    ELSE IF IsAccDesc(d) /\ IsDataDesc(d) THEN "TypeError"
    ELSE ""
=============================================================================
