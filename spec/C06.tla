-------------------------------- MODULE C06 ---------------------------------
(* Generator for property C06: numbers and their text forms convert exactly  *)
(* in both directions.  Every state is one case; the invariant Emit prints   *)
(* the JavaScript text of the case together with the outcome the             *)
(* specification (NumFmt.tla, NumText.tla, Val.tla) computes for it.         *)
(*                                                                           *)
(* Fam = "text": text -> number.  TLC enumerates every string of at most     *)
(*   MaxLen tokens over TA (digits, ".", e, E, signs, x, a, f, space and the *)
(*   token Infinity) and applies Number(), unary +, parseFloat and parseInt  *)
(*   with five radixes; every program text of at most LitLen characters over *)
(*   LA that starts with a digit or "." is evaluated as a numeric literal;   *)
(*   the hand-chosen strings of C06Str.tla are applied to all of these with  *)
(*   a wide set of radix arguments, and to String(parseInt()) and            *)
(*   String(<literal>); the methods of 15.7.4.5-7 are called on this values  *)
(*   that are not Numbers.                                                   *)
(* Fam = "self": as "dom", and the digits of 9.8.1 are also computed with    *)
(*   NumText!ShortestDigits (independent formulation) and must agree.        *)
(* Fam = "dom": the cases (operation, double or string, argument) are read   *)
(*   from dom.ndjson, which the harness fills with seeded random and         *)
(*   boundary doubles (number -> text) and random literals, ties and         *)
(*   mutations (text -> number); only the domain comes from there, every     *)
(*   expected outcome is computed here.                                      *)
EXTENDS NumText, C06Str, Json, TLC, SequencesExt
CONSTANTS OpenDev, Fam, MaxLen, LitLen
VARIABLES blk, cs

S == INSTANCE NumFmt WITH Dev <- {}
L == INSTANCE NumFmt WITH Dev <- OpenDev

Dom == ndJsonDeserialize("dom.ndjson")

TA == << <<48>>, <<49>>, <<57>>, <<46>>, <<101>>, <<69>>, <<43>>, <<45>>, <<120>>, <<97>>, <<102>>, <<32>>, S_Infinity >>
LA == <<48, 49, 55, 56, 57, 46, 101, 69, 120, 97, 102>>       \* the first six may start a literal
NTA == Len(TA)
NLA == Len(LA)

Pow2(k) == Canon(FALSE, <<1>>, k)
(* operations applied to every enumerated string *)
TOps == {[op |-> "Number", a |-> Undef], [op |-> "plus", a |-> Undef], [op |-> "parseFloat", a |-> Undef],
         [op |-> "parseInt", a |-> Undef], [op |-> "parseInt", a |-> IntV(2)], [op |-> "parseInt", a |-> IntV(10)],
         [op |-> "parseInt", a |-> IntV(16)], [op |-> "parseInt", a |-> IntV(36)]}
(* radix arguments applied to the hand-chosen strings: every radix, values    *)
(* just outside, values that ToInt32 folds into range, non-numbers            *)
RadixArgs == {Undef, Null, BoolV(TRUE), StrV(<<49, 54>>), StrV(<<48, 120, 49, 48>>), NumV(NaN), NumV(PInf), NumV(NZero),
              NumV(DecToNum(FALSE, BnFromInt(169), -1)), NumV(NumAdd(Pow2(32), I(2))), NumV(NumAdd(Pow2(32), I(16))),
              NumV(NumNeg(NumSub(Pow2(32), I(16)))), NumV(Pow2(31)), IntV(-1), IntV(-16)}
             \cup {IntV(r) : r \in 0..37}
XOps == {[op |-> "Number", a |-> Undef], [op |-> "plus", a |-> Undef], [op |-> "parseFloat", a |-> Undef]}
        \cup {[op |-> "parseInt", a |-> r] : r \in RadixArgs}
        \cup {[op |-> "pistr", a |-> r] : r \in {Undef, IntV(2), IntV(8), IntV(10), IntV(16), IntV(36)}}

RECURSIVE FlatT(_, _)
FlatT(f, i) == IF i > Len(f) THEN <<>> ELSE TA[f[i]] \o FlatT(f, i + 1)
Tails(n, k) == UNION {[1..j -> 1..k] : j \in 0..n}
LitOf(f) == [i \in 1..Len(f) |-> LA[f[i]]]

Lit(v) == [lit |-> v]
Js(c) ==
    CASE c.op = "String"        -> <<"String(", Lit(NumV(c.x)), ")">>
      [] c.op = "concat"        -> <<"'' + ", Lit(NumV(c.x))>>
      [] c.op = "rt"            -> <<"Number(String(", Lit(NumV(c.x)), "))">>
      [] c.op = "parseIntNum"   -> <<"parseInt(", Lit(NumV(c.x)), ")">>
      [] c.op = "parseFloatNum" -> <<"parseFloat(", Lit(NumV(c.x)), ")">>
      [] c.op = "toString"      -> <<"(", Lit(NumV(c.x)), ").toString(", Lit(c.a), ")">>
      [] c.op = "toFixed"       -> <<"(", Lit(NumV(c.x)), ").toFixed(", Lit(c.a), ")">>
      [] c.op = "toExponential" -> <<"(", Lit(NumV(c.x)), ").toExponential(", Lit(c.a), ")">>
      [] c.op = "toPrecision"   -> <<"(", Lit(NumV(c.x)), ").toPrecision(", Lit(c.a), ")">>
      [] c.op = "Number"        -> <<"Number(", Lit(StrV(c.s)), ")">>
      [] c.op = "plus"          -> <<"+", Lit(StrV(c.s))>>
      [] c.op = "parseFloat"    -> <<"parseFloat(", Lit(StrV(c.s)), ")">>
      [] c.op = "parseInt"      -> <<"parseInt(", Lit(StrV(c.s)), ", ", Lit(c.a), ")">>
      [] c.op = "lit"           -> <<[units |-> c.s]>>
      [] c.op = "thisFixed"     -> <<"Number.prototype.toFixed.call(", Lit(c.x), ", ", Lit(c.a), ")">>
      [] c.op = "thisExponential" -> <<"Number.prototype.toExponential.call(", Lit(c.x), ", ", Lit(c.a), ")">>
      [] c.op = "thisPrecision" -> <<"Number.prototype.toPrecision.call(", Lit(c.x), ", ", Lit(c.a), ")">>
      [] c.op = "litstr"        -> <<"String(", [units |-> c.s], ")">>
      [] c.op = "pistr"         -> <<"String(parseInt(", Lit(StrV(c.s)), ", ", Lit(c.a), "))">>

Expect(Str(_, _), RT(_, _), Rad(_, _, _), Fix(_, _, _, _), Ex(_, _, _, _), Pr(_, _, _, _), TN(_), PF(_), PI(_, _), LE(_), LS(_), PS(_, _), TF(_, _), TE(_, _), TP(_, _), PIN(_, _), PFN(_, _), c, sd, rp) ==
    CASE c.op \in {"String", "concat"} -> Str(c.x, sd)
      [] c.op = "rt"            -> RT(c.x, sd)
      [] c.op = "parseIntNum"   -> PIN(c.x, sd)
      [] c.op = "parseFloatNum" -> PFN(c.x, sd)
      [] c.op = "toString"      -> Rad(c.x, c.a, sd)
      [] c.op = "toFixed"       -> Fix(c.x, c.a, sd, rp)
      [] c.op = "toExponential" -> Ex(c.x, c.a, sd, rp)
      [] c.op = "toPrecision"   -> Pr(c.x, c.a, sd, rp)
      [] c.op \in {"Number", "plus"} -> TN(c.s)
      [] c.op = "parseFloat"    -> PF(c.s)
      [] c.op = "parseInt"      -> PI(c.s, c.a)
      [] c.op = "lit"           -> LE(c.s)
      [] c.op = "thisFixed"     -> TF(c.x, c.a)
      [] c.op = "thisExponential" -> TE(c.x, c.a)
      [] c.op = "thisPrecision" -> TP(c.x, c.a)
      [] c.op = "litstr"        -> LS(c.s)
      [] c.op = "pistr"         -> PS(c.s, c.a)

(* cases whose result ES5 leaves to the implementation are not generated *)
Open(c) ==
    CASE c.op \in {"Number", "plus", "parseFloat"} -> S!DecimalOpen(c.s)
      [] c.op \in {"lit", "litstr"} -> S!LitOpen(c.s)
      [] c.op \in {"parseInt", "pistr"} -> S!ParseIntOpen(c.s, c.a)
      [] OTHER -> FALSE

None == [op |-> "none"]
NB == 64
TextBlocks ==
    {<<"t", i, j>> : i \in 1..NTA, j \in 1..NTA} \cup {<<"t", 0, 0>>}
    \cup {<<"l", i, j>> : i \in 1..6, j \in 1..NLA} \cup {<<"l", 0, 0>>}
    \cup {<<"x", k, 0>> : k \in 1..Len(XText)}
    \cup {<<"y", k, 0>> : k \in 1..16}
    \cup {<<"z", 0, 0>>}

Init == /\ cs = None
        /\ IF Fam \in {"dom", "self"} THEN blk \in {<<"d", b, 0>> : b \in 1..NB} ELSE blk \in TextBlocks

T2N(o, s) == [op |-> o.op, s |-> s, a |-> o.a]
(* this values that are not Numbers (15.7.4): strings, booleans, null *)
ThisVals == {StrV(<<49, 50>>), StrV(<<48, 46, 53>>), StrV(<<50, 46, 53>>), StrV(<<49, 101, 50, 49>>), BoolV(TRUE), BoolV(FALSE), Null}
ThisArgs == {Undef, IntV(0), IntV(1), IntV(2), IntV(7), IntV(20), IntV(21), IntV(25), IntV(-1)}
Next ==
    /\ cs = None
    /\ UNCHANGED blk
    /\ CASE blk[1] = "d" -> \E j \in {i \in 1..Len(Dom) : i % NB = blk[2] - 1} : cs' = Dom[j]
         [] blk[1] = "t" /\ blk[2] = 0 ->
               \E t \in Tails(1, NTA), o \in TOps : cs' = T2N(o, FlatT(t, 1))
         [] blk[1] = "t" /\ blk[2] > 0 ->
               \E t \in Tails(MaxLen - 2, NTA), o \in TOps : cs' = T2N(o, TA[blk[2]] \o TA[blk[3]] \o FlatT(t, 1))
         [] blk[1] = "l" /\ blk[2] = 0 ->
               \E i \in 1..6 : cs' = [op |-> "lit", s |-> <<LA[i]>>, a |-> Undef]
         [] blk[1] = "l" /\ blk[2] > 0 ->
               \E t \in Tails(LitLen - 2, NLA) : cs' = [op |-> "lit", s |-> <<LA[blk[2]], LA[blk[3]]>> \o LitOf(t), a |-> Undef]
         [] blk[1] = "z" -> \E o \in {"thisFixed", "thisExponential", "thisPrecision"}, tv \in ThisVals, a \in ThisArgs :
                               cs' = [op |-> o, x |-> tv, a |-> a]
         [] blk[1] = "x" -> \E o \in XOps : cs' = T2N(o, XText[blk[2]])
         [] blk[1] = "y" -> \E k \in {i \in 1..Len(XLit) : i % 16 = blk[2] - 1}, o \in {"lit", "litstr"} : cs' = [op |-> o, s |-> XLit[k], a |-> Undef]

Emit ==
    cs = None \/ Open(cs) \/
    LET \* the exact arithmetic of the case, shared by both instances (evaluated on demand)
        sd == S!PreShort(cs.x)
        rp == S!PreRound(cs.op, cs.x, cs.a)
        es == Expect(S!ToStrP, S!RoundTripP, S!ToStringRadixP, S!ToFixedP, S!ToExponentialP, S!ToPrecisionP,
                     S!ToNum, S!ParseFloat, S!ParseInt, S!LitEval, S!LitStr, S!ParseIntStr, S!ThisFixed, S!ThisExponential, S!ThisPrecision, S!ParseIntNumP, S!ParseFloatNumP, cs, sd, rp)
        ed == Expect(L!ToStrP, L!RoundTripP, L!ToStringRadixP, L!ToFixedP, L!ToExponentialP, L!ToPrecisionP,
                     L!ToNum, L!ParseFloat, L!ParseInt, L!LitEval, L!LitStr, L!ParseIntStr, L!ThisFixed, L!ThisExponential, L!ThisPrecision, L!ParseIntNumP, L!ParseFloatNumP, cs, sd, rp)
    IN  \/ es.thr = "skip"
        \/ /\ \* self-checks of the specification: 9.8.1 followed by 9.3.1 is the identity, and the
              \* acceptor-based formulation of parseFloat agrees with the direct one
              (cs.op = "rt" => Assert(S!RoundTripHolds(cs.x, sd), <<"round trip is not the identity", cs>>))
           /\ (cs.op = "parseFloat" => Assert(S!ParseFloatGo(cs.s) = S!ParseFloatES(cs.s), <<"parseFloat formulations differ", cs>>))
           /\ ((Fam = "self" /\ cs.op = "String" /\ IsFinite(cs.x) /\ ~IsSafeInt(cs.x)) =>
                  Assert(sd = ShortestDigits(IF IsNeg(cs.x) THEN NumNeg(cs.x) ELSE cs.x), <<"ShortDigits differs from NumText!ShortestDigits", cs>>))
           /\ (cs.op = "Number" => Assert(S!StrToNumF(cs.s) = StrToNum(cs.s), <<"StrToNumF differs from Val!StrToNum", cs>>))
           /\ PrintT("VJSON " \o ToJson([c |-> cs, js |-> Js(cs), exp |-> es, dev |-> IF ed = es THEN <<>> ELSE <<ed>>]))
=============================================================================
