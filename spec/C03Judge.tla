----------------------------- MODULE C03Judge -------------------------------
(* Judge direction (code -> specification) for property C03: the harness     *)
(* draws random token sequences from wider domains than spec/C03.tla         *)
(* enumerates (operator chains of depth 4-8 with randomly removed            *)
(* parentheses, nested statements), renders them with single spaces / line   *)
(* terminators, parses the text with the implementation and records per line *)
(* of trace.ndjson:  [id, toks: the token sequence in the shape of           *)
(* Grammar.tla (t, v, nl, src/body/flags), got: [c, prog] the projected      *)
(* outcome].  The specification classifies the token sequence itself; only   *)
(* lines that differ are printed ("dev": equal under the open deviations,    *)
(* "skip": outside what ES5 decides, "bad").                                 *)
EXTENDS NumText, Json, TLC
CONSTANT OpenDev
VARIABLES blk, cur

S == INSTANCE Grammar WITH Dev <- {}
L == INSTANCE Grammar WITH Dev <- OpenDev

File == ndJsonDeserialize("trace.ndjson")
NB == 64

Init == blk \in 1..NB /\ cur = 0
Next == cur = 0 /\ UNCHANGED blk /\ \E j \in {x \in 1..Len(File) : x % NB = blk - 1} : cur' = j

Verdict(ev, v, want) == PrintT("VJSON " \o ToJson([id |-> ev.id, verdict |-> v, want |-> want]))
Judge ==
    cur = 0 \/
    LET ev == File[cur]
        es == S!Classify(ev.toks)
    IN  IF es.c = "skip" THEN Verdict(ev, "skip", es)
        ELSE es = ev.got
             \/ (LET el == L!Classify(ev.toks)
                 IN  IF el = ev.got THEN Verdict(ev, "dev", es)
                     ELSE IF el.c = "skip" THEN Verdict(ev, "skip", es)
                     ELSE Verdict(ev, "bad", es))
=============================================================================
